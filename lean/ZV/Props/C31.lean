import ZV.Model.C31
import ZV.Proofs.C31
import ZV.Generated.C31
/-!
  C31 — sessions resume only from authentic tickets.

  Everything below holds for an ARBITRARY MAC function `hmac : key → msg → tag` and an arbitrary
  keystream function `ctr : aesKey → iv → n → bytes` (the code uses HMAC-SHA-256 and AES-128-CTR).
  Nothing is assumed about unforgeability: `modified_is_forgery` is the REDUCTION — whenever a ticket
  that the server never issued is accepted (and hence whenever a session resumes from one), the
  ticket exhibits a MAC forgery: a valid tag under the MAC key of a current ticket key on a message
  the server never MACed under that key.  The only hypotheses used anywhere are length facts the Go
  types guarantee (key name [16]byte, IV [16]byte, 32-byte tag) — each with a satisfiability `example`.
-/
namespace ZV.C31

section sealing
variable (hmac : Bytes → Bytes → Bytes) (ctr : Bytes → Bytes → Nat → Bytes)

/-! ### issuing -/

/-- one issuance by the server: the ticket key in use (keys[0] at that time), the IV drawn, the state sealed -/
structure Issue where
  key : TicketKey
  iv : Bytes
  state : Bytes

/-- the message the server MACs when issuing -/
def Issue.body (r : Issue) : Bytes := r.key.name ++ r.iv ++ xorWith r.state (ctr r.key.aes r.iv r.state.length)
/-- the ticket handed out -/
def Issue.ticket (r : Issue) : Bytes := r.body ctr ++ hmac r.key.mac (r.body ctr)

/-- `Issue.ticket` IS what `encryptTicket` returns whenever `r.key` is the current (first) key. -/
theorem encrypt_eq_issue (r : Issue) (olds : List TicketKey) :
    encryptTicket hmac ctr (r.key :: olds) r.iv r.state = .ok (r.ticket hmac ctr) := rfl

theorem encrypt_no_keys (iv st : Bytes) : encryptTicket hmac ctr [] iv st = .err := rfl

/-- well-formedness the Go types guarantee: `keyName [16]byte`, `iv` = 16 bytes read, 32-byte tag -/
structure Issue.WF (r : Issue) : Prop where
  name : r.key.name.length = 16
  iv : r.iv.length = 16
  tag : (hmac r.key.mac (r.body ctr)).length = 32

/-- decryption of an issued ticket once the key search has settled on a key with the same MAC and AES key -/
theorem decrypt_issue_of_find (r : Issue) (wf : r.WF hmac ctr) (keys : List TicketKey) (i : Nat) (k : TicketKey)
    (hf : findKey r.key.name keys 0 = some (i, k)) (hm : k.mac = r.key.mac) (ha : k.aes = r.key.aes) :
    decryptTicket hmac ctr keys (r.ticket hmac ctr) = some (r.state, decide (i > 0)) := by
  obtain ⟨hn, hi, ht⟩ := wf
  have hlen : (r.ticket hmac ctr).length = 64 + (xorWith r.state (ctr r.key.aes r.iv r.state.length)).length :=
    layout_length r.key.name r.iv (xorWith r.state (ctr r.key.aes r.iv r.state.length)) _ hn hi ht
  unfold decryptTicket
  have hl : ¬ (r.ticket hmac ctr).length < ticketKeyNameLen + ivLen + macLen := by
    unfold ticketKeyNameLen ivLen macLen
    rw [hlen]; omega
  simp only [hl, if_false]
  have e1 : ticketName (r.ticket hmac ctr) = r.key.name := layout_name _ _ _ _ hn
  have e2 : ticketBody (r.ticket hmac ctr) = r.body ctr := layout_body _ _ _ _ ht
  have e3 : ticketTag (r.ticket hmac ctr) = hmac r.key.mac (r.body ctr) := layout_tag _ _ _ _ ht
  have e4 : ticketIV (r.ticket hmac ctr) = r.iv := layout_iv _ _ _ _ hn hi
  have e5 : ticketCiphertext (r.ticket hmac ctr) = xorWith r.state (ctr r.key.aes r.iv r.state.length) :=
    layout_ct _ _ _ _ hn hi ht
  rw [e1, hf]
  simp only [e2, e3, e4, e5, hm, ha, xorWith_length, xorWith_involutive, if_true]

/-- **Tickets issued under the current key decrypt to the original state, `usedOldKey = false`.** -/
theorem decrypt_encrypt_current (r : Issue) (wf : r.WF hmac ctr) (olds : List TicketKey) :
    decryptTicket hmac ctr (r.key :: olds) (r.ticket hmac ctr) = some (r.state, false) := by
  have := decrypt_issue_of_find hmac ctr r wf (r.key :: olds) 0 r.key (findKey_head _ _ _ _ rfl) rfl rfl
  simpa using this

/-- **After rotation** (new keys in front, none of them carrying the old key's name) a ticket issued under
    the old key still decrypts to the original state, and reports `usedOldKey = true` (so that the
    server re-issues it under the current key). -/
theorem decrypt_encrypt_rotated (r : Issue) (wf : r.WF hmac ctr) (newer older : List TicketKey)
    (hne : newer ≠ []) (hdistinct : ∀ k' ∈ newer, r.key.name ≠ k'.name) :
    decryptTicket hmac ctr (newer ++ r.key :: older) (r.ticket hmac ctr) = some (r.state, true) := by
  have hf := findKey_skip r.key.name newer r.key older 0 hdistinct rfl
  have := decrypt_issue_of_find hmac ctr r wf _ _ r.key hf rfl rfl
  rw [this]
  have : newer.length > 0 := List.length_pos_iff.mpr hne
  simp; omega

/-- **Rotated-out / foreign keys**: when no current key carries the name found in the ticket, it is rejected
    (for ANY byte string, in particular for tickets issued under a key that has left the list). -/
theorem decrypt_rotated_out (keys : List TicketKey) (t : Bytes)
    (hout : ∀ k ∈ keys, ticketName t ≠ k.name) : decryptTicket hmac ctr keys t = none := by
  unfold decryptTicket
  split
  · rfl
  · rw [findKey_none.mpr hout]

/-- the same, phrased for an issued ticket -/
theorem decrypt_issue_rotated_out (r : Issue) (hn : r.key.name.length = 16) (keys : List TicketKey)
    (hout : ∀ k ∈ keys, r.key.name ≠ k.name) : decryptTicket hmac ctr keys (r.ticket hmac ctr) = none := by
  apply decrypt_rotated_out
  have e1 : ticketName (r.ticket hmac ctr) = r.key.name := layout_name _ _ _ _ hn
  rw [e1]; exact hout

/-- too short to contain name, IV and MAC: rejected -/
theorem decrypt_short (keys : List TicketKey) (t : Bytes) (h : t.length < 64) :
    decryptTicket hmac ctr keys t = none := by
  unfold decryptTicket ticketKeyNameLen ivLen macLen
  simp [h]

/-! ### acceptance ⇒ MAC validity -/

/-- **Acceptance implies a valid MAC under a current key**: the accepted ticket names a key of the list
    (the first one with that name, at index `i`), its last 32 bytes are that key's MAC of everything
    before them, `usedOldKey` is exactly `i > 0`, and the plaintext is the keystream-xor of the ciphertext. -/
theorem accept_implies_mac (keys : List TicketKey) (t : Bytes) (p : Bytes × Bool)
    (h : decryptTicket hmac ctr keys t = some p) :
    ∃ k ∈ keys, ticketName t = k.name ∧ hmac k.mac (ticketBody t) = ticketTag t ∧ 64 ≤ t.length ∧
      ∃ pre post, keys = pre ++ k :: post ∧ (∀ k' ∈ pre, ticketName t ≠ k'.name) ∧
        p = (xorWith (ticketCiphertext t) (ctr k.aes (ticketIV t) (ticketCiphertext t).length), decide (pre.length > 0)) := by
  unfold decryptTicket at h
  split at h
  · cases h
  · rename_i hlen
    split at h
    · cases h
    · rename_i i key hf
      split at h
      · rename_i htag
        obtain ⟨pre, post, he, hn, hp, hj⟩ := findKey_some hf
        refine ⟨key, by simp [he], hn, htag.symm, ?_, pre, post, he, hp, ?_⟩
        · unfold ticketKeyNameLen ivLen macLen at hlen; omega
        · simp only [Option.some.injEq] at h
          rw [← h, hj]; simp
      · cases h

/-! ### the reduction to MAC unforgeability -/

/-- **Altered tickets are forgeries.**  Let `issued` be everything the server ever handed out (each under
    whatever key was current then).  If a ticket `t` that is not byte-equal to any issued ticket is
    accepted under the current key list, then `t` carries a valid MAC under the MAC key of a current
    ticket key `k` on a message (`ticketBody t`) that the server never MACed under that MAC key.
    No property of `hmac` or `ctr` is assumed; the conclusion is the forgery witness. -/
theorem modified_is_forgery (issued : List Issue) (keys : List TicketKey) (t : Bytes) (p : Bytes × Bool)
    (hacc : decryptTicket hmac ctr keys t = some p)
    (hnew : ∀ r ∈ issued, r.ticket hmac ctr ≠ t) :
    ∃ k ∈ keys, ticketName t = k.name ∧ hmac k.mac (ticketBody t) = ticketTag t ∧
      ∀ r ∈ issued, ¬ (r.key.mac = k.mac ∧ r.body ctr = ticketBody t) := by
  obtain ⟨k, hk, hn, hm, _, _⟩ := accept_implies_mac hmac ctr keys t p hacc
  refine ⟨k, hk, hn, hm, ?_⟩
  intro r hr ⟨h1, h2⟩
  apply hnew r hr
  unfold Issue.ticket
  rw [h1, h2, hm]
  exact body_append_tag t

/-- contrapositive reading: if the MAC is unforgeable in the sense that every valid (MAC key of a current
    key, message, tag) triple stems from an issuance, then every accepted ticket is byte-equal to an issued one. -/
theorem accepted_is_issued_of_unforgeable (issued : List Issue) (keys : List TicketKey) (t : Bytes) (p : Bytes × Bool)
    (hacc : decryptTicket hmac ctr keys t = some p)
    (hunf : ∀ k ∈ keys, ∀ m, hmac k.mac m = ticketTag t → ticketName t = k.name → m = ticketBody t →
              ∃ r ∈ issued, r.key.mac = k.mac ∧ r.body ctr = m) :
    ∃ r ∈ issued, r.ticket hmac ctr = t := by
  apply Classical.byContradiction
  intro hno
  have hnew : ∀ r ∈ issued, r.ticket hmac ctr ≠ t := fun r hr he => hno ⟨r, hr, he⟩
  obtain ⟨k, hk, hn, hm, hq⟩ := modified_is_forgery hmac ctr issued keys t p hacc hnew
  obtain ⟨r, hr, h1, h2⟩ := hunf k hk _ hm hn rfl
  exact hq r hr ⟨h1, h2⟩

end sealing

/-! ### the resumption decisions -/

section decisions
variable (hmac : Bytes → Bytes → Bytes) (ctr : Bytes → Bytes → Nat → Bytes)

/-- **TLS 1.2: a resumed session keeps version and cipher suite, and stems from an accepted ticket.**
    If `checkForResumption` says "resume" with session state `st` and suite `suite` then
    tickets are enabled; the ticket decrypts (hence carries a valid MAC under a current key, see
    `accept_implies_mac`) to the encoding of `st`; `st.vers` is the negotiated version of this connection;
    `suite` is the session's suite, is offered by the client, configured on the server, implemented and
    usable with the server's key at this version; the ticket is not older than 7 days; and the stored
    client certificates match what `ClientAuth` demands. -/
theorem resume_keeps_version_suite (suiteByID : Nat → Option SuiteInfo) (x : Ctx12) (keys : List TicketKey)
    (ticket : Bytes) (st : SessionState) (suite : Nat)
    (h : checkForResumption12 hmac ctr suiteByID x keys ticket = some (st, suite)) :
    x.ticketsDisabled = false ∧
    (∃ pt old, decryptTicket hmac ctr keys ticket = some (pt, old) ∧ SessionState.unmarshal old pt = some st) ∧
    st.vers = x.vers ∧ suite = st.cipherSuite ∧ suite ∈ x.clientSuites ∧ suite ∈ x.serverSuites ∧
    (∃ c, suiteByID suite = some c ∧ cipherSuiteOk x c = true) ∧
    ticketExpired x.now st.createdAt = false ∧
    (requiresClientCert x.clientAuth = true → st.certificates ≠ []) ∧
    (st.certificates ≠ [] → x.clientAuth ≠ NoClientCert) := by
  unfold checkForResumption12 at h
  split at h
  · cases h
  · rename_i hdis
    split at h
    · cases h
    · rename_i pt old hdec
      split at h
      · cases h
      · rename_i st' hun
        split at h
        · cases h
        · rename_i hexp
          split at h
          · cases h
          · rename_i hvers
            split at h
            · cases h
            · rename_i hcs
              split at h
              · cases h
              · rename_i suite' hsel
                split at h
                · cases h
                · rename_i hreq
                  split at h
                  · cases h
                  · rename_i hno
                    simp only [Option.some.injEq, Prod.mk.injEq] at h
                    obtain ⟨h1, h2⟩ := h
                    subst h1; subst h2
                    obtain ⟨hm, hsup, hok⟩ := selectCipherSuite_some hsel
                    have hsu : suite' = st'.cipherSuite := by simpa using hm
                    refine ⟨by simpa using hdis, ⟨pt, old, hdec, hun⟩, ?_, hsu, ?_, hsup, hok, by simpa using hexp, ?_, ?_⟩
                    · exact (Classical.not_not.mp hvers).symm
                    · rw [hsu]; simpa using hcs
                    · intro hr hc
                      apply hreq; simp [hr, hc]
                    · intro hc ha
                      apply hno
                      cases hcl : st'.certificates with
                      | nil => exact absurd hcl hc
                      | cons a b => simp [ha]

/-- **TLS 1.2: no accepted ticket, no resumption** — whatever else the client hello says. With
    `modified_is_forgery` this is "altered / foreign / rotated-out tickets lead to a full handshake". -/
theorem no_resume_without_ticket (suiteByID : Nat → Option SuiteInfo) (x : Ctx12) (keys : List TicketKey) (ticket : Bytes)
    (h : decryptTicket hmac ctr keys ticket = none) :
    checkForResumption12 hmac ctr suiteByID x keys ticket = none := by
  unfold checkForResumption12
  split
  · rfl
  · rw [h]

/-- TLS 1.2, reduction form: resumption from a ticket that was never issued exhibits a MAC forgery. -/
theorem resume_from_modified_is_forgery (suiteByID : Nat → Option SuiteInfo) (x : Ctx12) (keys : List TicketKey)
    (issued : List Issue) (ticket : Bytes) (r : SessionState × Nat)
    (h : checkForResumption12 hmac ctr suiteByID x keys ticket = some r)
    (hnew : ∀ i ∈ issued, i.ticket hmac ctr ≠ ticket) :
    ∃ k ∈ keys, ticketName ticket = k.name ∧ hmac k.mac (ticketBody ticket) = ticketTag ticket ∧
      ∀ i ∈ issued, ¬ (i.key.mac = k.mac ∧ i.body ctr = ticketBody ticket) := by
  obtain ⟨_, ⟨pt, old, hdec, _⟩, _⟩ := resume_keeps_version_suite hmac ctr suiteByID x keys ticket r.1 r.2 h
  exact modified_is_forgery hmac ctr issued keys ticket _ hdec hnew

/-- **TLS 1.2: the decision is made on the NEGOTIATED version, never on the one the client offered.**
    `Ctx12.helloVers` (`hs.clientHello.vers`, the client's maximum) has no influence at all: a client that offers
    1.2 to a server capped at 1.0 / 1.1 is treated exactly like one whose maximum is the negotiated version. -/
theorem resumption_ignores_offered_version (suiteByID : Nat → Option SuiteInfo) (x : Ctx12) (v : Nat)
    (keys : List TicketKey) (ticket : Bytes) :
    checkForResumption12 hmac ctr suiteByID { x with helloVers := v } keys ticket
      = checkForResumption12 hmac ctr suiteByID x keys ticket := by
  have hok : cipherSuiteOk { x with helloVers := v } = cipherSuiteOk x := by
    funext c; simp [cipherSuiteOk, keyOk]
  unfold checkForResumption12
  simp only [hok]

/-- **TLS 1.2: a ticket of another version is never resumed** — also when its version is the one the client
    offered (`st.vers = x.helloVers`): a TLS 1.2 ticket presented to a listener that shares the ticket keys but
    negotiates 1.1 leads to a full handshake. -/
theorem other_version_never_resumes (suiteByID : Nat → Option SuiteInfo) (x : Ctx12) (keys : List TicketKey)
    (ticket pt : Bytes) (old : Bool) (st : SessionState)
    (hd : decryptTicket hmac ctr keys ticket = some (pt, old)) (hu : SessionState.unmarshal old pt = some st)
    (hv : st.vers ≠ x.vers) :
    checkForResumption12 hmac ctr suiteByID x keys ticket = none := by
  cases h : checkForResumption12 hmac ctr suiteByID x keys ticket with
  | none => rfl
  | some r =>
    obtain ⟨_, ⟨pt', old', hd', hu'⟩, hvers, _⟩ := resume_keeps_version_suite hmac ctr suiteByID x keys ticket r.1 r.2 h
    rw [hd] at hd'
    simp only [Option.some.injEq, Prod.mk.injEq] at hd'
    obtain ⟨h1, h2⟩ := hd'
    subst h1; subst h2
    rw [hu] at hu'
    simp only [Option.some.injEq] at hu'
    subst hu'
    exact absurd hvers hv

/-- the invariant of the PSK identities loop -/
theorem pskLoop_accept (hash13 : Nat → Option Nat) (binderOk : Nat → SessionState13 → Bool) (x : Ctx13)
    (keys : List TicketKey) (i : Nat) (ids : List Bytes) (j : Nat) (st : SessionState13)
    (h : pskLoop hmac ctr hash13 binderOk x keys i ids = .accept j st) :
    i ≤ j ∧ j < maxClientPSKIdentities ∧
    ∃ label, ids[j - i]? = some label ∧
      (∃ pt old, decryptTicket hmac ctr keys label = some (pt, old) ∧ SessionState13.unmarshal pt = some st) ∧
      hash13 st.cipherSuite = some x.negHash ∧ binderOk j st = true ∧
      ticketExpired x.now st.createdAt = false ∧
      (requiresClientCert x.clientAuth = true → st.certificate.certificates ≠ []) ∧
      (st.certificate.certificates ≠ [] → x.clientAuth ≠ NoClientCert) := by
  induction ids generalizing i with
  | nil => simp [pskLoop] at h
  | cons label rest ih =>
    have step : ∀ (h' : pskLoop hmac ctr hash13 binderOk x keys (i + 1) rest = .accept j st),
        i ≤ j ∧ j < maxClientPSKIdentities ∧ ∃ label', (label :: rest)[j - i]? = some label' ∧
          (∃ pt old, decryptTicket hmac ctr keys label' = some (pt, old) ∧ SessionState13.unmarshal pt = some st) ∧
          hash13 st.cipherSuite = some x.negHash ∧ binderOk j st = true ∧
          ticketExpired x.now st.createdAt = false ∧
          (requiresClientCert x.clientAuth = true → st.certificate.certificates ≠ []) ∧
          (st.certificate.certificates ≠ [] → x.clientAuth ≠ NoClientCert) := by
      intro h'
      obtain ⟨h1, h2, l, h3, h4⟩ := ih (i + 1) h'
      refine ⟨by omega, h2, l, ?_, h4⟩
      have : j - i = (j - (i + 1)) + 1 := by omega
      rw [this]; simpa using h3
    unfold pskLoop at h
    split at h
    · cases h
    · rename_i hmax
      split at h
      · exact step h
      · rename_i pt old hdec
        split at h
        · exact step h
        · rename_i st' hun
          split at h
          · exact step h
          · rename_i hexp
            split at h
            · exact step h
            · rename_i hh hhash
              split at h
              · exact step h
              · rename_i hneg
                split at h
                · exact step h
                · rename_i hreq
                  split at h
                  · exact step h
                  · rename_i hno
                    split at h
                    · rename_i hb
                      simp only [Dec13.accept.injEq] at h
                      obtain ⟨h1, h2⟩ := h
                      subst h1; subst h2
                      refine ⟨Nat.le_refl _, by omega, label, by simp, ⟨pt, old, hdec, hun⟩, ?_, hb, by simpa using hexp, ?_, ?_⟩
                      · rw [hhash]; simpa using hneg
                      · intro hr hc
                        apply hreq; simp [hr, hc]
                      · intro hc ha
                        apply hno
                        cases hcl : st'.certificate.certificates with
                        | nil => exact absurd hcl hc
                        | cons a b => simp [ha]
                    · cases h

/-- **TLS 1.3: an accepted PSK stems from an accepted ticket of matching hash.**  If the PSK path accepts
    identity `i` with state `st` then tickets are enabled, the client offered `psk_dhe_ke`, `i` is one of the
    first five identities, its label decrypts (valid MAC under a current key) to the encoding of `st`
    (whose grammar fixes version 1.3), the ticket's suite has the hash of the negotiated suite, the
    binder verified, the ticket is not older than 7 days and the stored client certificates match
    `ClientAuth`. -/
theorem psk_accept_keeps_hash (hash13 : Nat → Option Nat) (binderOk : Nat → SessionState13 → Bool) (x : Ctx13)
    (keys : List TicketKey) (ids : List Bytes) (i : Nat) (st : SessionState13)
    (h : checkForResumption13 hmac ctr hash13 binderOk x keys ids = .accept i st) :
    x.ticketsDisabled = false ∧ pskModeDHE ∈ x.pskModes ∧ ids.length = x.nBinders ∧ i < 5 ∧
    ∃ label, ids[i]? = some label ∧
      (∃ pt old, decryptTicket hmac ctr keys label = some (pt, old) ∧ SessionState13.unmarshal pt = some st) ∧
      hash13 st.cipherSuite = some x.negHash ∧ binderOk i st = true ∧
      ticketExpired x.now st.createdAt = false ∧
      (requiresClientCert x.clientAuth = true → st.certificate.certificates ≠ []) ∧
      (st.certificate.certificates ≠ [] → x.clientAuth ≠ NoClientCert) := by
  unfold checkForResumption13 at h
  split at h
  · cases h
  · rename_i hdis
    split at h
    · cases h
    · rename_i hmode
      split at h
      · cases h
      · rename_i hlen
        split at h
        · cases h
        · obtain ⟨_, h2, l, h3, h4⟩ := pskLoop_accept hmac ctr hash13 binderOk x keys 0 ids i st h
          refine ⟨by simpa using hdis, by simpa using hmode, Classical.not_not.mp hlen, h2, l, by simpa using h3, h4⟩

/-- a wrong binder is a fatal error at an identity whose ticket was accepted — never a silent PSK -/
theorem pskLoop_never_accepts_rejected (hash13 : Nat → Option Nat) (binderOk : Nat → SessionState13 → Bool) (x : Ctx13)
    (keys : List TicketKey) (i : Nat) (ids : List Bytes)
    (hrej : ∀ l ∈ ids, decryptTicket hmac ctr keys l = none) :
    pskLoop hmac ctr hash13 binderOk x keys i ids = .noPSK := by
  induction ids generalizing i with
  | nil => simp [pskLoop]
  | cons label rest ih =>
    unfold pskLoop
    split
    · rfl
    · rw [hrej label (by simp)]
      exact ih (i + 1) (fun l hl => hrej l (List.mem_cons_of_mem _ hl))

/-- **TLS 1.3: if no offered identity is an accepted ticket the handshake proceeds without PSK**
    (or aborts on the binders/identities length mismatch) — never a resumption, never a binder check. -/
theorem no_psk_without_ticket (hash13 : Nat → Option Nat) (binderOk : Nat → SessionState13 → Bool) (x : Ctx13)
    (keys : List TicketKey) (ids : List Bytes)
    (hrej : ∀ l ∈ ids, decryptTicket hmac ctr keys l = none) :
    checkForResumption13 hmac ctr hash13 binderOk x keys ids = .noPSK ∨
    checkForResumption13 hmac ctr hash13 binderOk x keys ids = .errBinders := by
  unfold checkForResumption13
  split
  · exact Or.inl rfl
  · split
    · exact Or.inl rfl
    · split
      · exact Or.inr rfl
      · split
        · exact Or.inl rfl
        · exact Or.inl (pskLoop_never_accepts_rejected hmac ctr hash13 binderOk x keys 0 ids hrej)

/-- TLS 1.3, reduction form: a PSK accepted from an identity that is not an issued ticket exhibits a MAC forgery. -/
theorem psk_from_modified_is_forgery (hash13 : Nat → Option Nat) (binderOk : Nat → SessionState13 → Bool) (x : Ctx13)
    (keys : List TicketKey) (issued : List Issue) (ids : List Bytes) (i : Nat) (st : SessionState13)
    (h : checkForResumption13 hmac ctr hash13 binderOk x keys ids = .accept i st)
    (hnew : ∀ l ∈ ids, ∀ r ∈ issued, r.ticket hmac ctr ≠ l) :
    ∃ label ∈ ids, ∃ k ∈ keys, ticketName label = k.name ∧ hmac k.mac (ticketBody label) = ticketTag label ∧
      ∀ r ∈ issued, ¬ (r.key.mac = k.mac ∧ r.body ctr = ticketBody label) := by
  obtain ⟨_, _, _, _, label, hl, ⟨pt, old, hdec, _⟩, _⟩ := psk_accept_keeps_hash hmac ctr hash13 binderOk x keys ids i st h
  have hmem : label ∈ ids := List.mem_of_getElem? hl
  exact ⟨label, hmem, modified_is_forgery hmac ctr issued keys label _ hdec (hnew label hmem)⟩

end decisions

/-! ### encoding round trip and "tickets issued under the current key always resume" -/

/-- **`sessionState.unmarshal (marshal s) = s`** for every state within the field bounds of the wire
    format (`usedOldKey` is not part of the encoding; it is preserved from the receiver). -/
theorem sessionState_roundtrip (s : SessionState) (b : s.Bounded) (old : Bool) :
    ∃ bytes, s.marshal = .ok bytes ∧ SessionState.unmarshal old bytes = some { s with usedOldKey := old } :=
  ⟨s.bytes, s.marshal_ok b, s.unmarshal_bytes b old⟩

/-- `marshal` never errs and panics exactly when a length prefix overflows; within the bounds it is total -/
theorem sessionState_marshal_ok (s : SessionState) (b : s.Bounded) : s.marshal = .ok s.bytes := s.marshal_ok b

section resume
variable (hmac : Bytes → Bytes → Bytes) (ctr : Bytes → Bytes → Nat → Bytes)

/-- the scenario in which the session `s` is resumable on this connection -/
structure Resumable (suiteByID : Nat → Option SuiteInfo) (x : Ctx12) (s : SessionState) : Prop where
  enabled : x.ticketsDisabled = false
  fresh : ticketExpired x.now s.createdAt = false
  vers : x.vers = s.vers
  offered : s.cipherSuite ∈ x.clientSuites
  configured : s.cipherSuite ∈ x.serverSuites
  usable : ∃ c, suiteByID s.cipherSuite = some c ∧ cipherSuiteOk x c = true
  needCert : requiresClientCert x.clientAuth = true → s.certificates ≠ []
  noCert : s.certificates ≠ [] → x.clientAuth ≠ NoClientCert

/-- decision on a ticket that decrypts to the encoding of `s` -/
theorem resume_of_decrypt (suiteByID : Nat → Option SuiteInfo) (x : Ctx12) (s : SessionState) (b : s.Bounded)
    (ok : Resumable suiteByID x s) (keys : List TicketKey) (t : Bytes) (old : Bool)
    (hd : decryptTicket hmac ctr keys t = some (s.bytes, old)) :
    checkForResumption12 hmac ctr suiteByID x keys t = some ({ s with usedOldKey := old }, s.cipherSuite) := by
  obtain ⟨c, hc, hok⟩ := ok.usable
  unfold checkForResumption12
  simp only [ok.enabled, Bool.false_eq_true, if_false, hd, s.unmarshal_bytes b old, ok.fresh, ok.vers]
  have h1 : x.clientSuites.contains s.cipherSuite = true := by simpa using ok.offered
  simp only [h1, ne_eq, not_true_eq_false, if_false, Bool.not_true, Bool.false_eq_true,
    selectCipherSuite_single hc hok ok.configured]
  cases hcs : s.certificates with
  | nil =>
    have : requiresClientCert x.clientAuth = false := by
      cases hr : requiresClientCert x.clientAuth with
      | false => rfl
      | true => exact absurd hcs (ok.needCert hr)
    simp [this]
  | cons a l =>
    have : (x.clientAuth == NoClientCert) = false := by
      have := ok.noCert (by rw [hcs]; simp)
      simpa using this
    simp [this]

/-- **Tickets issued under the current key always resume with the original session's version and cipher
    suite**: the server seals `marshal s` under its current key; when that ticket comes back in a scenario
    where `s` is resumable (same version negotiated, suite still offered / configured / usable, ticket
    younger than 7 days, client-certificate requirements met) the decision is "resume" with exactly `s`
    (`usedOldKey = false`) and `s`'s suite — for any MAC and keystream functions. -/
theorem issued_current_resumes (suiteByID : Nat → Option SuiteInfo) (x : Ctx12) (s : SessionState) (b : s.Bounded)
    (ok : Resumable suiteByID x s) (r : Issue) (wf : r.WF hmac ctr) (hst : r.state = s.bytes) (olds : List TicketKey) :
    checkForResumption12 hmac ctr suiteByID x (r.key :: olds) (r.ticket hmac ctr)
      = some ({ s with usedOldKey := false }, s.cipherSuite) := by
  apply resume_of_decrypt hmac ctr suiteByID x s b ok
  rw [← hst]
  exact decrypt_encrypt_current hmac ctr r wf olds

/-- … and after a key rotation they still resume, flagged `usedOldKey = true` (the server then re-issues). -/
theorem issued_rotated_resumes (suiteByID : Nat → Option SuiteInfo) (x : Ctx12) (s : SessionState) (b : s.Bounded)
    (ok : Resumable suiteByID x s) (r : Issue) (wf : r.WF hmac ctr) (hst : r.state = s.bytes)
    (newer older : List TicketKey) (hne : newer ≠ []) (hdistinct : ∀ k' ∈ newer, r.key.name ≠ k'.name) :
    checkForResumption12 hmac ctr suiteByID x (newer ++ r.key :: older) (r.ticket hmac ctr)
      = some ({ s with usedOldKey := true }, s.cipherSuite) := by
  apply resume_of_decrypt hmac ctr suiteByID x s b ok
  rw [← hst]
  exact decrypt_encrypt_rotated hmac ctr r wf newer older hne hdistinct

/-- a ticket created `d ≤ 7 days` ago is not expired (for any sane clock value) -/
theorem young_ticket_not_expired (now d : Nat) (hnow : now < 2 ^ 62) (hd : d ≤ 7 * 24 * 3600) :
    ticketExpired (Int.ofNat (now + d)) now = false := by
  unfold ticketExpired wrap64 unixToInternal maxSessionTicketLifetime
  simp only [decide_eq_false_iff_not, Int.ofNat_eq_natCast, Int.natCast_add]
  omega

/-- **FINDING (defect in zcrypto, left in place — see `tools/props/C31.json`)**: a ticket that decrypts and parses
    but is refused (for instance because it is older than 7 days) stays in `hs.sessionState`, and the ticket
    sealed by the full handshake that follows inherits ITS creation time instead of the current time … -/
theorem refused_ticket_ages_new_one (suiteByID : Nat → Option SuiteInfo) (x : Ctx12) (keys : List TicketKey)
    (ticket : Bytes) (st : SessionState) (old : Bool)
    (hd : decryptTicket hmac ctr keys ticket = some (st.bytes, old)) (b : st.Bounded)
    (hen : x.ticketsDisabled = false) (hexp : ticketExpired x.now st.createdAt = true)
    (vers suite now : Nat) (ms : Bytes) (certs : List Bytes) :
    checkForResumption12 hmac ctr suiteByID x keys ticket = none
    ∧ (issuedState12 vers suite now (sessionStateAfterCheck12 hmac ctr x keys ticket) ms certs).createdAt
        = st.createdAt := by
  constructor
  · unfold checkForResumption12
    simp [hen, hd, st.unmarshal_bytes b old, hexp]
  · unfold sessionStateAfterCheck12 issuedState12
    simp [hen, hd, st.unmarshal_bytes b old]

/-- … so the new ticket is expired from birth: presented at the very same instant it is refused again
    (`Sub(createdAt) > 7 days` still holds), for ever. -/
theorem refused_ticket_ages_new_one_expired (suiteByID : Nat → Option SuiteInfo) (x : Ctx12) (keys : List TicketKey)
    (ticket : Bytes) (st : SessionState) (old : Bool)
    (hd : decryptTicket hmac ctr keys ticket = some (st.bytes, old)) (b : st.Bounded)
    (hen : x.ticketsDisabled = false) (hexp : ticketExpired x.now st.createdAt = true)
    (vers suite now : Nat) (ms : Bytes) (certs : List Bytes) :
    ticketExpired x.now
      (issuedState12 vers suite now (sessionStateAfterCheck12 hmac ctr x keys ticket) ms certs).createdAt = true := by
  rw [(refused_ticket_ages_new_one hmac ctr suiteByID x keys ticket st old hd b hen hexp vers suite now ms certs).2]
  exact hexp

/-- When nothing leaked (`hs.sessionState` is nil after the decision: no ticket, foreign / altered / rotated-out
    ticket, tickets disabled) the ticket sealed by the full handshake carries the current time. -/
theorem fresh_ticket_createdAt_partial (x : Ctx12) (keys : List TicketKey) (ticket : Bytes)
    (hleak : sessionStateAfterCheck12 hmac ctr x keys ticket = none)
    (vers suite now : Nat) (ms : Bytes) (certs : List Bytes) :
    (issuedState12 vers suite now (sessionStateAfterCheck12 hmac ctr x keys ticket) ms certs).createdAt = now := by
  rw [hleak]; rfl

-- FULL: `fresh_ticket_after_refusal_resumes` without the hypothesis `hleak`: whenever `checkForResumption12 … = none`
-- the ticket of the following full handshake resumes during the next 7 days.  False on the code as it is
-- (`refused_ticket_ages_new_one_expired`); it holds with the one-line change "clear hs.sessionState when the decision is
-- not to resume", which however breaks the existing test TestResumption/TLSv12 (that test rewinds the clock and
-- relies on the inherited creation time), so the code was left alone and the finding is reported.
/-- … and then it resumes at any time within the next 7 days under the same conditions (version, suite still
    offered / configured / usable, client-certificate requirements), under the current key. -/
theorem fresh_ticket_after_refusal_resumes_partial (suiteByID : Nat → Option SuiteInfo) (x x' : Ctx12)
    (keys : List TicketKey) (ticket : Bytes)
    (hleak : sessionStateAfterCheck12 hmac ctr x keys ticket = none)
    (suite now d : Nat) (ms : Bytes) (certs : List Bytes) (hnow : now < 2 ^ 62) (hd : d ≤ 7 * 24 * 3600)
    (hx' : x'.now = Int.ofNat (now + d)) (enabled : x'.ticketsDisabled = false)
    (offered : suite ∈ x'.clientSuites) (configured : suite ∈ x'.serverSuites)
    (usable : ∃ c, suiteByID suite = some c ∧ cipherSuiteOk x' c = true)
    (needCert : requiresClientCert x'.clientAuth = true → certs ≠ [])
    (noCert : certs ≠ [] → x'.clientAuth ≠ NoClientCert)
    (s : SessionState)
    (hs : s = issuedState12 x'.vers suite now (sessionStateAfterCheck12 hmac ctr x keys ticket) ms certs)
    (b : s.Bounded) (r : Issue) (wf : r.WF hmac ctr) (hst : r.state = s.bytes) (olds : List TicketKey) :
    checkForResumption12 hmac ctr suiteByID x' (r.key :: olds) (r.ticket hmac ctr)
      = some ({ s with usedOldKey := false }, suite) := by
  have hc : s.createdAt = now := by
    rw [hs]; exact fresh_ticket_createdAt_partial hmac ctr x keys ticket hleak _ _ _ _ _
  have hsuite : s.cipherSuite = suite := by rw [hs]; rfl
  have hvers : s.vers = x'.vers := by rw [hs]; rfl
  have hcerts : s.certificates = certs := by rw [hs]; rfl
  have ok : Resumable suiteByID x' s :=
    { enabled := enabled
      fresh := by rw [hc, hx']; exact young_ticket_not_expired now d hnow hd
      vers := hvers.symm
      offered := by rw [hsuite]; exact offered
      configured := by rw [hsuite]; exact configured
      usable := by rw [hsuite]; exact usable
      needCert := by rw [hcerts]; exact needCert
      noCert := by rw [hcerts]; exact noCert }
  rw [← hsuite]
  exact issued_current_resumes hmac ctr suiteByID x' s b ok r wf hst olds

end resume

/-! ### TLS 1.3 state round trip and PSK acceptance of issued tickets -/

-- FULL: `SessionState13.unmarshal (marshal s) = some s` for every state whose OCSP staple is absent or non-empty and whose
-- SCT list is absent or a non-empty list of non-empty SCTs, and which stores them only together with a certificate.
-- Proved below for states without staple / SCTs (the leaf-extension grammar is covered by the T2 stream only).
/-- `sessionStateTLS13.unmarshal (marshal s) = s` for states within the field bounds that store no OCSP staple
    and no SCT list (what a server stores unless the CLIENT's certificate message carried them). -/
theorem sessionState13_roundtrip_partial (s : SessionState13) (b : s.Bounded) :
    ∃ bytes, s.marshal = .ok bytes ∧ SessionState13.unmarshal bytes = some s :=
  ⟨s.bytes, s.marshal_ok b, s.unmarshal_bytes b⟩

section resume13
variable (hmac : Bytes → Bytes → Bytes) (ctr : Bytes → Bytes → Nat → Bytes)

/-- the scenario in which the TLS 1.3 session `s` is acceptable as PSK on this connection -/
structure Resumable13 (hash13 : Nat → Option Nat) (x : Ctx13) (s : SessionState13) : Prop where
  enabled : x.ticketsDisabled = false
  mode : pskModeDHE ∈ x.pskModes
  fresh : ticketExpired x.now s.createdAt = false
  hash : hash13 s.cipherSuite = some x.negHash
  needCert : requiresClientCert x.clientAuth = true → s.certificate.certificates ≠ []
  noCert : s.certificate.certificates ≠ [] → x.clientAuth ≠ NoClientCert

/-- **TLS 1.3: a ticket issued under the current key, offered as the only identity with a verifying binder, is
    accepted as PSK with exactly the original state** (so the suite's hash is the original one). -/
theorem issued_current_psk (hash13 : Nat → Option Nat) (binderOk : Nat → SessionState13 → Bool) (x : Ctx13)
    (s : SessionState13) (b : s.Bounded) (ok : Resumable13 hash13 x s) (hb : binderOk 0 s = true) (hn : x.nBinders = 1)
    (r : Issue) (wf : r.WF hmac ctr) (hst : r.state = s.bytes) (olds : List TicketKey) :
    checkForResumption13 hmac ctr hash13 binderOk x (r.key :: olds) [r.ticket hmac ctr] = .accept 0 s := by
  have hd := decrypt_encrypt_current hmac ctr r wf olds
  rw [hst] at hd
  have hm : x.pskModes.contains pskModeDHE = true := by simpa using ok.mode
  unfold checkForResumption13
  simp only [ok.enabled, hm, hn, Bool.false_eq_true, if_false, Bool.not_true, List.length_singleton, ne_eq,
    not_true_eq_false, List.isEmpty_cons]
  unfold pskLoop
  simp only [maxClientPSKIdentities, ge_iff_le, if_false, hd, s.unmarshal_bytes b, ok.fresh,
    Bool.false_eq_true, ok.hash, ne_eq, not_true_eq_false, hb, if_true]
  cases hcs : s.certificate.certificates with
  | nil =>
    have : requiresClientCert x.clientAuth = false := by
      cases hr : requiresClientCert x.clientAuth with
      | false => rfl
      | true => exact absurd hcs (ok.needCert hr)
    simp [this]
  | cons a l =>
    have : (x.clientAuth == NoClientCert) = false := by
      have := ok.noCert (by rw [hcs]; simp)
      simpa using this
    simp [this]

end resume13

/-! ### ticket-key list handling -/

/-- `SetSessionTicketKeys` panics exactly on the empty list; otherwise the keys are kept in order
    (first = encryption key). -/
theorem setKeys_panic_iff (keys : List Bytes) (now : Int) : setSessionTicketKeys keys now = .panic ↔ keys = [] := by
  cases keys <;> simp [setSessionTicketKeys]

theorem setKeys_order (k : Bytes) (ks : List Bytes) (now : Int) :
    setSessionTicketKeys (k :: ks) now = .ok ((k :: ks).map (fun b => (ticketKeyFromBytes b, now))) := rfl

/-- **Auto-rotation**: while the current key is younger than `ticketKeyRotation` nothing changes; otherwise a
    new key is put in front and exactly the keys younger than `ticketKeyLifetime` are kept behind it, in order. -/
theorem rotateAuto_spec (c : KeyCfg) (r : Bytes) (rand : List Bytes) (now : Int) :
    rotateAuto c (r :: rand) now =
      if autoFresh c.auto now = true then .ok (c, r :: rand, c.auto)
      else .ok ({ c with auto := (ticketKeyFromBytes r, now) :: c.auto.filter (fun k => decide (now - k.2 < ticketKeyLifetime)) },
                rand, (ticketKeyFromBytes r, now) :: c.auto.filter (fun k => decide (now - k.2 < ticketKeyLifetime))) := rfl

/-- whatever `rotateAuto` does, a key that is younger than the lifetime is still accepted afterwards -/
theorem rotateAuto_keeps (c : KeyCfg) (rand : List Bytes) (now : Int) (c' : KeyCfg) (rand' : List Bytes) (ks : List AKey)
    (h : rotateAuto c rand now = .ok (c', rand', ks)) (k : AKey) (hk : k ∈ c.auto) (hy : now - k.2 < ticketKeyLifetime) :
    k ∈ ks ∧ c'.auto = ks := by
  unfold rotateAuto at h
  by_cases hf : autoFresh c.auto now = true
  · simp only [hf, if_true, Res.ok.injEq, Prod.mk.injEq] at h
    obtain ⟨h1, _, h3⟩ := h
    subst h1; subst h3
    exact ⟨hk, rfl⟩
  · simp only [hf, Bool.false_eq_true, ↓reduceIte] at h
    cases rand with
    | nil => cases h
    | cons r rest =>
      simp only [Res.ok.injEq, Prod.mk.injEq] at h
      obtain ⟨h1, _, h3⟩ := h
      subst h1; subst h3
      refine ⟨?_, rfl⟩
      apply List.mem_cons_of_mem
      rw [List.mem_filter]
      exact ⟨hk, by simpa using hy⟩

/-- the encryption key after `rotateAuto` is never older than `ticketKeyRotation` -/
theorem rotateAuto_head_fresh (c : KeyCfg) (rand : List Bytes) (now : Int) (c' : KeyCfg) (rand' : List Bytes) (ks : List AKey)
    (h : rotateAuto c rand now = .ok (c', rand', ks)) : ∃ k rest, ks = k :: rest ∧ now - k.2 < ticketKeyRotation := by
  unfold rotateAuto at h
  by_cases hf : autoFresh c.auto now = true
  · simp only [hf, if_true, Res.ok.injEq, Prod.mk.injEq] at h
    obtain ⟨_, _, h3⟩ := h
    subst h3
    cases ha : c.auto with
    | nil => simp [autoFresh, ha] at hf
    | cons k rest =>
      refine ⟨k, rest, rfl, ?_⟩
      simpa [autoFresh, ha] using hf
  · simp only [hf, Bool.false_eq_true, ↓reduceIte] at h
    cases rand with
    | nil => cases h
    | cons r rest =>
      simp only [Res.ok.injEq, Prod.mk.injEq] at h
      obtain ⟨_, _, h3⟩ := h
      subst h3
      exact ⟨_, _, rfl, by simp [ticketKeyRotation]⟩

/-! ### gap audit (fourth wave): exact acceptance decisions -/

/-- **Expiry decision, exact, over the T1-extracted constant**: for every clock value and creation time in the
    non-wrapping range (0 ≤ now, both below 2^62 s — about 10^11 years), a ticket is refused as expired iff it is
    STRICTLY older than `maxSessionTicketLifetime` as extracted from the tree (a ticket of exactly 7 days resumes). -/
theorem ticketExpired_iff (now : Int) (created : Nat) (h0 : 0 ≤ now) (h1 : now < 2 ^ 62) (h2 : created < 2 ^ 62) :
    ticketExpired now created = true ↔ now - (created : Int) > Gen.maxSessionTicketLifetimeS := by
  unfold ticketExpired wrap64 unixToInternal maxSessionTicketLifetime Gen.maxSessionTicketLifetimeS
  simp only [decide_eq_true_eq, Int.ofNat_eq_natCast]
  omega

section decision12
variable (hmac : Bytes → Bytes → Bytes) (ctr : Bytes → Bytes → Nat → Bytes)

/-- **TLS ≤ 1.2 acceptance decision, exact**: for a ticket that authenticates and decrypts to the encoding of `s`
    the server resumes — with exactly `s` and `s`'s suite — IF AND ONLY IF the scenario is `Resumable`
    (tickets enabled, not older than 7 days, negotiated version = session version, suite offered, configured and
    usable, client-certificate requirements met); in every other scenario the decision is a full handshake. -/
theorem resume_iff (suiteByID : Nat → Option SuiteInfo) (x : Ctx12) (s : SessionState) (b : s.Bounded)
    (keys : List TicketKey) (t : Bytes) (old : Bool) (hd : decryptTicket hmac ctr keys t = some (s.bytes, old)) :
    (checkForResumption12 hmac ctr suiteByID x keys t = some ({ s with usedOldKey := old }, s.cipherSuite)
        ↔ Resumable suiteByID x s) ∧
    (checkForResumption12 hmac ctr suiteByID x keys t = none ↔ ¬ Resumable suiteByID x s) := by
  have key : ∀ st suite, checkForResumption12 hmac ctr suiteByID x keys t = some (st, suite) →
      st = { s with usedOldKey := old } ∧ suite = s.cipherSuite ∧ Resumable suiteByID x s := by
    intro st suite h
    obtain ⟨hdis, ⟨pt, old', hdec, hun⟩, hv, hs, hoff, hconf, huse, hfresh, hneed, hno⟩ :=
      resume_keeps_version_suite hmac ctr suiteByID x keys t st suite h
    rw [hd] at hdec
    simp only [Option.some.injEq, Prod.mk.injEq] at hdec
    obtain ⟨hpt, hold⟩ := hdec
    subst hpt; subst hold
    rw [s.unmarshal_bytes b old] at hun
    simp only [Option.some.injEq] at hun
    subst hun
    subst hs
    exact ⟨rfl, rfl, ⟨hdis, hfresh, hv.symm, hoff, hconf, huse, hneed, hno⟩⟩
  refine ⟨⟨fun h => (key _ _ h).2.2, fun ok => resume_of_decrypt hmac ctr suiteByID x s b ok keys t old hd⟩, ?_, ?_⟩
  · intro h ok
    rw [resume_of_decrypt hmac ctr suiteByID x s b ok keys t old hd] at h
    cases h
  · intro hn
    cases hc : checkForResumption12 hmac ctr suiteByID x keys t with
    | none => rfl
    | some p => exact absurd (key p.1 p.2 hc).2.2 hn

end decision12

section decision13
variable (hmac : Bytes → Bytes → Bytes) (ctr : Bytes → Bytes → Nat → Bytes)

/-- **TLS 1.3 PSK identity handling**: the client-reported `obfuscated_ticket_age` of the offered identities has
    no influence on the decision — two hellos offering the same tickets in the same order get the same decision
    whatever ages they report.  Freshness is decided by the server-side `createdAt` inside the authenticated
    ticket alone (`psk_accept_keeps_hash`, `ticketExpired_iff`).  (T2 runs the real `checkForResumption` with
    ages 0 / 7 d ± 1 ms / 2^31 / 2^32-1 / random against this model.) -/
theorem psk_ignores_obfuscated_age (hash13 : Nat → Option Nat) (binderOk : Nat → SessionState13 → Bool) (x : Ctx13)
    (keys : List TicketKey) (ids ids' : List PskIdentity) (h : ids.map (·.label) = ids'.map (·.label)) :
    checkForResumption13Id hmac ctr hash13 binderOk x keys ids = checkForResumption13Id hmac ctr hash13 binderOk x keys ids' := by
  unfold checkForResumption13Id
  rw [h]

/-- in particular every age list can be replaced by zeros -/
theorem psk_age_zero (hash13 : Nat → Option Nat) (binderOk : Nat → SessionState13 → Bool) (x : Ctx13)
    (keys : List TicketKey) (ids : List PskIdentity) :
    checkForResumption13Id hmac ctr hash13 binderOk x keys ids
      = checkForResumption13Id hmac ctr hash13 binderOk x keys (ids.map (fun i => { i with obfuscatedTicketAge := 0 })) := by
  apply psk_ignores_obfuscated_age
  simp [Function.comp_def]

end decision13

/-! ### which key list a connection uses (`Config.ticketKeys`) -/

/-- a per-client Config (GetConfigForClient) with `SessionTicketsDisabled` yields NO keys, touches neither
    Config nor the random stream … -/
theorem ticketKeys_cfc_disabled (c f : KeyCfg) (rand : List Bytes) (now : Int) (hf : f.disabled = true) :
    ticketKeys c (some f) rand now = .ok (c, some f, rand, []) := by
  simp [ticketKeys, hf]

/-- … and with no keys nothing decrypts and nothing can be sealed: such a connection never resumes and never
    issues a ticket. -/
theorem no_keys_no_tickets (hmac : Bytes → Bytes → Bytes) (ctr : Bytes → Bytes → Nat → Bytes) (t iv st : Bytes) :
    decryptTicket hmac ctr [] t = none ∧ encryptTicket hmac ctr [] iv st = .err := by
  refine ⟨?_, rfl⟩
  unfold decryptTicket
  split
  · rfl
  · simp [findKey]

/-- explicit keys of the per-client Config win: they are returned as they are (first = encryption key) and the
    outer Config — in particular its auto-rotation state — is not touched. -/
theorem ticketKeys_cfc_explicit_wins (c f : KeyCfg) (rand : List Bytes) (now : Int) (hf : f.disabled = false)
    (hl : isZero f.legacy = false) (he : f.explicit ≠ []) :
    ticketKeys c (some f) rand now = .ok (c, some f, rand, f.explicit) := by
  have he' : f.explicit.isEmpty = false := by cases h : f.explicit with
    | nil => exact absurd h he
    | cons a l => rfl
  simp [ticketKeys, hf, initLegacy, hl, he']

/-- **explicit keys switch auto-rotation off**: with `SetSessionTicketKeys` keys in place the connection's key
    list is exactly that list at every clock value — first key encrypts, all decrypt, nothing is ever dropped or
    added by time. -/
theorem ticketKeysOwn_explicit (c : KeyCfg) (rand : List Bytes) (now : Int) (hd : c.disabled = false)
    (hl : isZero c.legacy = false) (he : c.explicit ≠ []) :
    ticketKeysOwn c rand now = .ok (c, rand, c.explicit) := by
  have he' : c.explicit.isEmpty = false := by cases h : c.explicit with
    | nil => exact absurd h he
    | cons a l => rfl
  simp [ticketKeysOwn, hd, initLegacy, hl, he']

/-! ### T1: constants and tables of the tree agree with the model -/

theorem gen_ticketKeyNameLen : Gen.ticketKeyNameLen = ticketKeyNameLen := by decide
theorem gen_maxSessionTicketLifetime : Gen.maxSessionTicketLifetimeS = maxSessionTicketLifetime := by decide
theorem gen_ticketKeyLifetime : Gen.ticketKeyLifetimeS = ticketKeyLifetime := by decide
theorem gen_ticketKeyRotation : Gen.ticketKeyRotationS = ticketKeyRotation := by decide
theorem gen_maxClientPSKIdentities : Gen.maxClientPSKIdentities = maxClientPSKIdentities := by decide
/-- rotation happens strictly more often than keys expire, so a rotated-out key has been old for ≥ 6 days -/
theorem gen_rotation_lt_lifetime : Gen.ticketKeyRotationS < Gen.ticketKeyLifetimeS := by decide
/-- the TLS 1.3 suite table has distinct ids (the first-match lookup `cipherSuiteTLS13ByID` is unambiguous) -/
theorem gen_suiteTable13_nodup : (Gen.suiteTable13.map (·.1)).Nodup := by decide
/-- the three flag bits `cipherSuiteOk` tests are distinct single bits -/
theorem gen_flags_distinct : Gen.suiteECDHE = 1 ∧ Gen.suiteECSign = 2 ∧ Gen.suiteTLS12 = 4 := by decide

/-! ### the hypotheses are satisfiable (concrete instances with a toy MAC and keystream) -/

namespace Ex
/-- a (deliberately weak) 32-byte MAC: key bytes then message bytes, padded with zeros to 32 -/
def mac (k m : Bytes) : Bytes := ((k ++ m) ++ List.replicate 32 0).take 32
def ks (_k _iv : Bytes) (n : Nat) : Bytes := List.replicate n 0x5a
def k1 : TicketKey := { name := List.replicate 16 1, aes := List.replicate 16 2, mac := List.replicate 16 3 }
def k2 : TicketKey := { name := List.replicate 16 4, aes := List.replicate 16 5, mac := List.replicate 16 6 }
def st : SessionState :=
  { vers := 0x0303, cipherSuite := 0xc02f, createdAt := 1700000000, masterSecret := [7, 8, 9], certificates := [[0xff]], usedOldKey := false }
def iss : Issue := { key := k1, iv := List.replicate 16 9, state := st.bytes }
/-- another issuance, of a different state -/
def iss2 : Issue := { key := k1, iv := List.replicate 16 9, state := [1] }
def info (id : Nat) : Option SuiteInfo := if id = 0xc02f then some { ecdhe := true, ecSign := false, tls12 := true } else none
def ctx : Ctx12 :=
  { ticketsDisabled := false, now := 1700000100, vers := 0x0303, helloVers := 0x0303, clientSuites := [0xc02b, 0xc02f], serverSuites := [0xc02f],
    clientAuth := 1, ecdheOk := true, ecSignOk := false, rsaSignOk := true, rsaDecryptOk := false }

/-- a TLS 1.1 session of a client whose maximum is TLS 1.2 (server capped at 1.1) -/
def stLow : SessionState :=
  { vers := 0x0302, cipherSuite := 0xc013, createdAt := 1700000000, masterSecret := [7, 8, 9], certificates := [], usedOldKey := false }
def issLow : Issue := { key := k1, iv := List.replicate 16 9, state := stLow.bytes }
def infoCBC (id : Nat) : Option SuiteInfo := if id = 0xc013 then some { ecdhe := true, ecSign := false, tls12 := false } else none
def ctxLow : Ctx12 := { ctx with vers := 0x0302, helloVers := 0x0303, clientSuites := [0xc02f, 0xc013], serverSuites := [0xc02f, 0xc013] }

theorem mac_len (k m : Bytes) : (mac k m).length = 32 := by simp [mac]; omega
theorem iss_wf : iss.WF mac ks := ⟨by decide, by decide, mac_len _ _⟩
theorem iss2_wf : iss2.WF mac ks := ⟨by decide, by decide, mac_len _ _⟩
theorem st_bounded : st.Bounded :=
  ⟨by decide, by decide, by decide, by decide, by decide, by decide, by decide⟩
theorem st_resumable : Resumable info ctx st :=
  ⟨rfl, by decide, rfl, by decide, by decide, ⟨_, rfl, by decide⟩, by decide, by decide⟩
end Ex

-- decrypt_encrypt_current / accept_implies_mac: an accepted ticket exists
example : decryptTicket Ex.mac Ex.ks [Ex.k1, Ex.k2] (Ex.iss.ticket Ex.mac Ex.ks) = some (Ex.st.bytes, false) :=
  decrypt_encrypt_current Ex.mac Ex.ks Ex.iss Ex.iss_wf [Ex.k2]
-- decrypt_encrypt_rotated: k2 was put in front of k1, names differ
example : decryptTicket Ex.mac Ex.ks ([Ex.k2] ++ Ex.k1 :: []) (Ex.iss.ticket Ex.mac Ex.ks) = some (Ex.st.bytes, true) :=
  decrypt_encrypt_rotated Ex.mac Ex.ks Ex.iss Ex.iss_wf [Ex.k2] [] (by decide) (by decide)
-- decrypt_rotated_out: only k2 is left
example : decryptTicket Ex.mac Ex.ks [Ex.k2] (Ex.iss.ticket Ex.mac Ex.ks) = none :=
  decrypt_issue_rotated_out Ex.mac Ex.ks Ex.iss (by decide) [Ex.k2] (by decide)
-- modified_is_forgery: the server issued `iss2` only; `iss.ticket` is accepted and differs from it — with the toy
-- MAC (which anybody can compute) the forgery witness exists, as the theorem says it must
example : ∃ k ∈ [Ex.k1], ticketName (Ex.iss.ticket Ex.mac Ex.ks) = k.name ∧
    Ex.mac k.mac (ticketBody (Ex.iss.ticket Ex.mac Ex.ks)) = ticketTag (Ex.iss.ticket Ex.mac Ex.ks) ∧
    ∀ r ∈ [Ex.iss2], ¬ (r.key.mac = k.mac ∧ r.body Ex.ks = ticketBody (Ex.iss.ticket Ex.mac Ex.ks)) :=
  modified_is_forgery Ex.mac Ex.ks [Ex.iss2] [Ex.k1] _ _
    (decrypt_encrypt_current Ex.mac Ex.ks Ex.iss Ex.iss_wf []) (by decide)
-- accepted_is_issued_of_unforgeable: hypotheses hold when the accepted ticket is the issued one
example : ∃ r ∈ [Ex.iss], r.ticket Ex.mac Ex.ks = Ex.iss.ticket Ex.mac Ex.ks := ⟨Ex.iss, by simp, rfl⟩
-- sessionState_roundtrip / resume_of_decrypt / issued_current_resumes / resume_keeps_version_suite: a resuming scenario
example : checkForResumption12 Ex.mac Ex.ks Ex.info Ex.ctx [Ex.k1, Ex.k2] (Ex.iss.ticket Ex.mac Ex.ks)
    = some ({ Ex.st with usedOldKey := false }, 0xc02f) :=
  issued_current_resumes Ex.mac Ex.ks Ex.info Ex.ctx Ex.st Ex.st_bounded Ex.st_resumable Ex.iss Ex.iss_wf rfl [Ex.k2]
example : checkForResumption12 Ex.mac Ex.ks Ex.info Ex.ctx ([Ex.k2] ++ Ex.k1 :: []) (Ex.iss.ticket Ex.mac Ex.ks)
    = some ({ Ex.st with usedOldKey := true }, 0xc02f) :=
  issued_rotated_resumes Ex.mac Ex.ks Ex.info Ex.ctx Ex.st Ex.st_bounded Ex.st_resumable Ex.iss Ex.iss_wf rfl [Ex.k2] []
    (by decide) (by decide)
-- offered ≠ negotiated version.  A TLS 1.1 session (CBC suite) with a client that offers 1.2 to a server capped at
-- 1.1: `Resumable` holds and the ticket resumes (issued_current_resumes; resumption_ignores_offered_version) …
example : Resumable Ex.infoCBC Ex.ctxLow Ex.stLow :=
  ⟨rfl, by decide, rfl, by decide, by decide, ⟨_, rfl, by decide⟩, by decide, by decide⟩
example : checkForResumption12 Ex.mac Ex.ks Ex.infoCBC Ex.ctxLow [Ex.k1] (Ex.issLow.ticket Ex.mac Ex.ks)
    = some (Ex.stLow, 0xc013) := by decide
example : Ex.ctxLow.helloVers ≠ Ex.ctxLow.vers := by decide
-- … and other_version_never_resumes: the TLS 1.2 ticket `iss` (its version IS the offered one) on that connection
example : checkForResumption12 Ex.mac Ex.ks Ex.info { Ex.ctxLow with clientSuites := [0xc02f], serverSuites := [0xc02f] } [Ex.k1]
    (Ex.iss.ticket Ex.mac Ex.ks) = none :=
  other_version_never_resumes Ex.mac Ex.ks Ex.info _ [Ex.k1] _ _ _ Ex.st
    (decrypt_encrypt_current Ex.mac Ex.ks Ex.iss Ex.iss_wf []) (by decide) (by decide)
-- no_resume_without_ticket / resume_from_modified_is_forgery
example : checkForResumption12 Ex.mac Ex.ks Ex.info Ex.ctx [Ex.k2] (Ex.iss.ticket Ex.mac Ex.ks) = none :=
  no_resume_without_ticket Ex.mac Ex.ks Ex.info Ex.ctx [Ex.k2] _
    (decrypt_issue_rotated_out Ex.mac Ex.ks Ex.iss (by decide) [Ex.k2] (by decide))

namespace Ex
def st13 : SessionState13 :=
  { cipherSuite := 0x1301, createdAt := 1700000000, resumptionSecret := [0xaa], certificate := { certificates := [], ocsp := none, scts := none } }
def st13bytes : Bytes := [3, 4, 0, 0x13, 1, 0, 0, 0, 0, 0x65, 0x53, 0xf1, 0, 1, 0xaa, 0, 0, 0]
def iss13 : Issue := { key := k1, iv := List.replicate 16 9, state := st13bytes }
def h13 (id : Nat) : Option Nat := if id = 0x1301 ∨ id = 0x1303 then some 5 else if id = 0x1302 then some 6 else none
def ctx13 : Ctx13 := { ticketsDisabled := false, now := 1700000100, negHash := 5, pskModes := [1], nBinders := 2, clientAuth := 0 }
end Ex

example : Ex.st13.marshal = .ok Ex.st13bytes := by decide
example : SessionState13.unmarshal Ex.st13bytes = some Ex.st13 := by decide
-- psk_accept_keeps_hash: a junk identity is skipped, the issued ticket behind it is accepted
example : checkForResumption13 Ex.mac Ex.ks Ex.h13 (fun _ _ => true) Ex.ctx13 [Ex.k1] [[1, 2, 3], Ex.iss13.ticket Ex.mac Ex.ks]
    = .accept 1 Ex.st13 := by decide
-- no_psk_without_ticket: the same identities against a server that only has k2
example : ∀ l ∈ [[1, 2, 3], Ex.iss13.ticket Ex.mac Ex.ks], decryptTicket Ex.mac Ex.ks [Ex.k2] l = none := by decide

-- sessionState13_roundtrip_partial / issued_current_psk: bounds and scenario are satisfiable
namespace Ex
theorem st13_bounded : st13.Bounded := ⟨by decide, by decide, by decide, by decide, rfl, rfl, by decide, by decide⟩
theorem st13_resumable : Resumable13 h13 { ctx13 with nBinders := 1 } st13 := ⟨rfl, by decide, by decide, by decide, by decide, by decide⟩
theorem iss13_wf : iss13.WF mac ks := ⟨by decide, by decide, mac_len _ _⟩
end Ex
example : checkForResumption13 Ex.mac Ex.ks Ex.h13 (fun _ _ => true) { Ex.ctx13 with nBinders := 1 } [Ex.k1, Ex.k2]
    [Ex.iss13.ticket Ex.mac Ex.ks] = .accept 0 Ex.st13 :=
  issued_current_psk Ex.mac Ex.ks Ex.h13 (fun _ _ => true) _ Ex.st13 Ex.st13_bounded Ex.st13_resumable rfl rfl
    Ex.iss13 Ex.iss13_wf (by decide) [Ex.k2]

end ZV.C31

namespace ZV.C31.Ex
/-- the hypotheses of the refused-ticket theorems are satisfiable: an 8-day-old authentic ticket -/
def ctxLate : Ctx12 := { ctx with now := 1700000000 + 8 * 24 * 3600 }
example : ticketExpired ctxLate.now st.createdAt = true := by decide
example : ctxLate.ticketsDisabled = false := rfl
example : decryptTicket mac ks [k1] (iss.ticket mac ks) = some (st.bytes, false) :=
  decrypt_encrypt_current mac ks iss iss_wf []
/-- … and of `fresh_ticket_after_refusal_resumes_partial`: no ticket presented ⇒ nothing leaks -/
example : sessionStateAfterCheck12 mac ks ctx [k1] [] = none := by decide
end ZV.C31.Ex

namespace ZV.C31
-- gap-audit theorems: hypotheses are satisfiable
example : (0:Int) ≤ 1700000100 ∧ (1700000100:Int) < 2 ^ 62 ∧ Ex.st.createdAt < 2 ^ 62 := by decide
example : ([⟨[1], 5⟩, ⟨[2], 604800001⟩] : List PskIdentity).map (·.label) = ([⟨[1], 0⟩, ⟨[2], 0⟩] : List PskIdentity).map (·.label) := rfl
example : ∃ f : KeyCfg, f.disabled = false ∧ isZero f.legacy = false ∧ f.explicit ≠ [] :=
  ⟨{ disabled := false, legacy := [1], explicit := [(Ex.k1, 0)], auto := [] }, rfl, by decide, by simp⟩
example : ∃ f : KeyCfg, f.disabled = true := ⟨{ disabled := true, legacy := [], explicit := [], auto := [] }, rfl⟩
end ZV.C31
