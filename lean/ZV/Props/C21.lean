import ZV.Proofs.C21
import ZV.Props.C19
/-!
  C21 — cryptobyte builders and readers are exact inverses.

  * optional readers (`ReadOptionalASN1`, `…Integer`, `…OctetString`, `…Boolean`): tag absent ⇒ input
    untouched and the default returned; tag present and read successful ⇒ exactly one element consumed.
  * `read_write_fragment`: for every write program of the fragment
    {AddUint8/16/24/32, AddBytes, AddUint8/16/24LengthPrefixed (any nesting), AddASN1 (any nesting),
     AddASN1OctetString, AddASN1Boolean, AddASN1NULL} the mirrored read program returns the written
    values and leaves exactly the tail.  Stated against the specification serializer `ser`; the low-level
    Builder model (`buildBytes`, back-patching) is compared with `ser` on every T2 case (SPEC-MISMATCH guard).
  -- FULL: ∀ p, buildBytes p = ser p  (builder_refines_ser; not proved here), and
  -- FULL: read_write for all 21 ops (needs the write→read direction for INTEGER / OID contents, with the
  --       hypothesis that every OID sub-identifier is < 2^31 — see the finding on arcs ≥ 2^31).
-/
open ZV ZV.Der0
namespace ZV.C21

/-! ## optional readers -/

theorem optional_absent_asn1 (s : Bytes) (tag : UInt8) (h : peekTag s tag = false) :
    readOptionalASN1 s tag = .ok (none, s) := by simp [readOptionalASN1, h]

theorem optional_absent_integer (s : Bytes) (tag : UInt8) (dflt : Int) (h : peekTag s tag = false) :
    readOptionalInt s tag dflt = .ok (dflt, s) := by simp [readOptionalInt, readOptionalASN1, h]

theorem optional_absent_octets (s : Bytes) (tag : UInt8) (h : peekTag s tag = false) :
    readOptionalOctets s tag = .ok (none, s) := by simp [readOptionalOctets, readOptionalASN1, h]

theorem optional_absent_boolean (s : Bytes) (dflt : Bool) (h : peekTag s 1 = false) :
    readOptionalBool s dflt = .ok (dflt, s) := by simp [readOptionalBool, h]

example : peekTag [0x02, 0x01, 0x05] 0xa0 = false ∧
    readOptionalInt [0x02, 0x01, 0x05] 0xa0 7 = .ok (7, [0x02, 0x01, 0x05]) := by decide

/-- present ⇒ exactly one element (tag, minimal length, body) is consumed -/
theorem optional_present_asn1 (s : Bytes) (tag : UInt8) (r : Option Bytes) (rest : Bytes)
    (hp : peekTag s tag = true) (h : readOptionalASN1 s tag = .ok (r, rest)) :
    ∃ body pre, r = some body ∧ CB.element tag body = .ok pre ∧ s = pre ++ rest := by
  simp only [readOptionalASN1, hp, if_true] at h
  split at h
  · rename_i body rst hr
    simp only [Res.ok.injEq, Prod.mk.injEq] at h
    obtain ⟨h1, h2⟩ := h
    subst h1; subst h2
    obtain ⟨pre, e1, e2⟩ := C19.cb_readASN1Tag_canonical hr
    exact ⟨body, pre, rfl, e1, e2⟩
  · simp at h
  · simp at h

/-- `ReadOptionalASN1Integer`: present ⇒ the consumed bytes are `[tag]{INTEGER v}` exactly. -/
theorem optional_present_integer (s : Bytes) (tag : UInt8) (dflt v : Int) (rest : Bytes)
    (hp : peekTag s tag = true) (h : readOptionalInt s tag dflt = .ok (v, rest)) :
    ∃ inner pre, CB.addASN1Int64 v = .ok inner ∧ CB.element tag inner = .ok pre ∧ s = pre ++ rest := by
  unfold readOptionalInt at h
  split at h
  · rename_i r hr
    simp [readOptionalASN1, hp] at hr
    split at hr <;> simp at hr
  · rename_i i r hr
    obtain ⟨body, pre, hb, e1, e2⟩ := optional_present_asn1 s tag (some i) r hp hr
    simp only [Option.some.injEq] at hb
    subst hb
    split at h
    · rename_i w r2 hw
      split at h
      · rename_i hemp
        simp only [Res.ok.injEq, Prod.mk.injEq] at h
        obtain ⟨h1, h2⟩ := h
        subst h1; subst h2
        obtain ⟨inner, f1, f2⟩ := C19.cb_int64_canonical _ _ _ hw
        have : r2 = [] := by simpa using hemp
        subst this
        simp only [List.append_nil] at f2
        rw [f2] at e1
        exact ⟨inner, pre, f1, e1, e2⟩
      · simp at h
    · simp at h
    · simp at h
  · simp at h
  · simp at h

/-- `ReadOptionalASN1OctetString`: present ⇒ the consumed bytes are `[tag]{OCTET STRING v}` exactly. -/
theorem optional_present_octets (s : Bytes) (tag : UInt8) (r : Option Bytes) (rest : Bytes)
    (hp : peekTag s tag = true) (h : readOptionalOctets s tag = .ok (r, rest)) :
    ∃ oct inner pre, r = some oct ∧ CB.element 4 oct = .ok inner ∧ CB.element tag inner = .ok pre ∧
      s = pre ++ rest := by
  unfold readOptionalOctets at h
  split at h
  · rename_i r0 hr
    simp [readOptionalASN1, hp] at hr
    split at hr <;> simp at hr
  · rename_i child r0 hr
    obtain ⟨body, pre, hb, e1, e2⟩ := optional_present_asn1 s tag (some child) r0 hp hr
    simp only [Option.some.injEq] at hb
    subst hb
    split at h
    · rename_i oct r2 hw
      split at h
      · rename_i hemp
        simp only [Res.ok.injEq, Prod.mk.injEq] at h
        obtain ⟨h1, h2⟩ := h
        subst h1; subst h2
        obtain ⟨inner, f1, f2⟩ := C19.cb_readASN1Tag_canonical hw
        have : r2 = [] := by simpa using hemp
        subst this
        simp only [List.append_nil] at f2
        rw [f2] at e1
        exact ⟨oct, inner, pre, rfl, f1, e1, e2⟩
      · simp at h
    · simp at h
    · simp at h
  · simp at h
  · simp at h

/-- `ReadOptionalASN1Boolean` (after the fix for D1): present ⇒ exactly the BOOLEAN element is
    consumed and its value returned — whatever follows stays unread. -/
theorem optional_present_boolean (s : Bytes) (dflt v : Bool) (rest : Bytes)
    (hp : peekTag s 1 = true) (h : readOptionalBool s dflt = .ok (v, rest)) :
    ∃ pre, CB.addASN1Boolean v = .ok pre ∧ s = pre ++ rest := by
  simp only [readOptionalBool, hp, Bool.not_true, Bool.false_eq_true, if_false] at h
  exact C19.cb_bool_canonical s v rest h

example : readOptionalBool [0x01, 0x01, 0xff, 0x07] false = .ok (true, [0x07]) := by decide

/-! ## write → read for the fragment -/

def Frag : Prog → Prop
  | .done => True
  | .uN w v k => v < 256 ^ w ∧ Frag k
  | .raw _ k => Frag k
  | .lp _ body k => Frag body ∧ Frag k
  | .asn1 _ body k => (∀ c, ser body = .ok c → c.length < 4294967290) ∧ Frag body ∧ Frag k
  | .octets b k => b.length < 4294967290 ∧ Frag k
  | .bool _ k => Frag k
  | .null k => Frag k
  | _ => False

theorem append_ok {a b : Res Bytes} {bs : Bytes} (h : Res.append a b = .ok bs) :
    ∃ x y, a = .ok x ∧ b = .ok y ∧ bs = x ++ y := by
  unfold Res.append at h
  split at h <;> simp at h
  rename_i x y
  exact ⟨x, y, rfl, rfl, h.symm⟩

theorem read_write_fragment (p : Prog) (hf : Frag p) :
    ∀ bs tail, ser p = .ok bs → readProg p (bs ++ tail) = .ok (values p, tail) := by
  induction p with
  | done => intro bs tail h; simp [ser] at h; subst h; simp [readProg, values]
  | uN w v k ih =>
    intro bs tail h
    obtain ⟨x, y, hx, hy, e⟩ := append_ok h
    simp only [Res.ok.injEq] at hx
    subst hx; subst e
    simp only [readProg, values, List.append_assoc, readU_beBytes w v _ hf.1, ih hf.2 y tail hy, cons]
  | raw b k ih =>
    intro bs tail h
    obtain ⟨x, y, hx, hy, e⟩ := append_ok h
    simp only [Res.ok.injEq] at hx
    subst hx; subst e
    simp only [readProg, values, List.append_assoc, readBytes_append, ih hf y tail hy, cons]
  | lp n body k ihb ihk =>
    intro bs tail h
    obtain ⟨x, y, hx, hy, e⟩ := append_ok h
    subst e
    unfold lpBytes at hx
    split at hx
    · rename_i c hc
      split at hx
      · simp at hx
      · rename_i hlen
        simp only [Res.ok.injEq] at hx
        subst hx
        have hb := ihb hf.1 c [] hc
        simp only [List.append_nil] at hb
        simp only [readProg, values, List.append_assoc,
          readLengthPrefixed_back n c (y ++ tail) (by omega), nested, hb, ihk hf.2 y tail hy]
        simp
    · simp at hx
    · simp at hx
  | asn1 tag body k ihb ihk =>
    intro bs tail h
    obtain ⟨x, y, hx, hy, e⟩ := append_ok h
    subst e
    unfold elementR at hx
    split at hx
    · rename_i c hc
      have hb := ihb hf.2.1 c [] hc
      simp only [List.append_nil] at hb
      simp only [readProg, values, List.append_assoc,
        readASN1Tag_back tag c x (y ++ tail) hx (hf.1 c hc), nested, hb, ihk hf.2.2 y tail hy]
      simp
    · simp at hx
    · simp at hx
  | octets b k ih =>
    intro bs tail h
    obtain ⟨x, y, hx, hy, e⟩ := append_ok h
    subst e
    simp only [readProg, values, List.append_assoc,
      readASN1Tag_back 4 b x (y ++ tail) hx hf.1, ih hf.2 y tail hy, cons]
  | bool v k ih =>
    intro bs tail h
    obtain ⟨x, y, hx, hy, e⟩ := append_ok h
    subst e
    have hsz : (boolContent v).length < 4294967290 := by cases v <;> simp [boolContent]
    have hv : boolOfContent (boolContent v) = .ok v := by cases v <;> simp [boolContent, boolOfContent]
    simp only [readProg, values, List.append_assoc, CB.readBool,
      readASN1Tag_back 1 (boolContent v) x (y ++ tail) hx hsz, hv, ih hf y tail hy, cons]
  | null k ih =>
    intro bs tail h
    obtain ⟨x, y, hx, hy, e⟩ := append_ok h
    simp only [Res.ok.injEq] at hx
    subst hx; subst e
    have hel : CB.element 5 [] = .ok [5, 0] := by decide
    have := readASN1Tag_back 5 [] [5, 0] (y ++ tail) hel (by simp)
    simp only [List.cons_append, List.nil_append] at this
    simp only [readProg, values, List.cons_append, List.nil_append, this, ih hf y tail hy, cons]
  | _ => exact hf.elim

example : Frag (.lp 2 (.asn1 0x30 (.uN 1 7 (.bool true .done)) (.null .done)) (.raw [1, 2] .done)) := by
  simp [Frag, ser, Res.append, elementR, CB.addASN1Boolean, CB.element, boolContent, CB.derLength,
    beBytes_length]

end ZV.C21
