import ZV.Proofs.C21
import ZV.Proofs.C21Build
import ZV.Proofs.C21Leaf
import ZV.Props.C19
/-!
  C21 — cryptobyte builders and readers are exact inverses.

  * optional readers (`ReadOptionalASN1`, `…Integer`, `…OctetString`, `…Boolean`): tag absent ⇒ input
    untouched and the default returned; tag present and read successful ⇒ exactly one element consumed.
  * `builder_refines_ser`: for EVERY program the low-level Builder model (`buildBytes`: shared buffer,
    `offset` / `pendingLenLen` / `pendingIsASN1`, `flushChild` back-patching, DER long-form widening by
    `copy`) computes exactly the specification serializer `ser` — result bytes, error, and (never) panic.
    `builder_never_panics` is the corollary that none of the three `cryptobyte: internal error` panics of
    `flushChild` is reachable from a program.
  * `read_write_fragment` (kept): the tail-independent fragment {AddUint8/16/24/32, AddBytes,
    AddUintNLengthPrefixed, AddASN1, AddASN1OctetString, AddASN1Boolean, AddASN1NULL}.
  * `read_write_all`: for every program over ALL 21 ops of the model that satisfies the decidable predicate
    `readable p tail`, the mirrored read program returns exactly the written values and leaves exactly the
    tail.  `readable` says: fixed-width values fit their width; int64 / uint64 values fit their Go type;
    every ASN.1 body is shorter than 2^32-6 bytes (the limit of `readASN1`'s uint32 guard); every OID
    sub-identifier (40·a+b and the further arcs) is below 2^31 (the limit of `readBase128Int`); and every
    ABSENT optional field is followed (in the written bytes, or in the tail) by a byte different from its tag
    — nothing else.  `build_read_roundtrip` states it against the low-level Builder model.
  * `lp n` covers every prefix width `n` (so also the 32-bit `AddUint32LengthPrefixed`; zcrypto's String has
    no `ReadUint32LengthPrefixed`, the harness reads such a block with `ReadUint32` + `ReadBytes`, which is
    what `readLengthPrefixed 4` is).
  Not covered (no model): GeneralizedTime / UTCTime ops (T3 oracle only).
-/
open ZV ZV.Der0
namespace ZV.C21

/-! ## optional readers -/

theorem optional_absent_asn1 (s : Bytes) (tag : UInt8) (h : peekTag s tag = false) :
    readOptionalASN1 s tag = .ok (none, s) := by simp [readOptionalASN1, h]

theorem optional_absent_integer (s : Bytes) (tag : UInt8) (dflt : Int) (h : peekTag s tag = false) :
    readOptionalInt s tag dflt = .ok (dflt, s) := by simp [readOptionalInt, readOptionalASN1, h]

theorem optional_absent_octets (s : Bytes) (tag : UInt8) (h : peekTag s tag = false) :
    readOptionalOctets s tag = .ok (none, s) := by simp [readOptionalOctets, readOptionalASN1, h]

theorem optional_absent_boolean (s : Bytes) (dflt : Bool) (h : peekTag s 1 = false) :
    readOptionalBool s dflt = .ok (dflt, s) := by simp [readOptionalBool, h]

example : peekTag [0x02, 0x01, 0x05] 0xa0 = false ∧
    readOptionalInt [0x02, 0x01, 0x05] 0xa0 7 = .ok (7, [0x02, 0x01, 0x05]) := by decide

/-- present ⇒ exactly one element (tag, minimal length, body) is consumed -/
theorem optional_present_asn1 (s : Bytes) (tag : UInt8) (r : Option Bytes) (rest : Bytes)
    (hp : peekTag s tag = true) (h : readOptionalASN1 s tag = .ok (r, rest)) :
    ∃ body pre, r = some body ∧ CB.element tag body = .ok pre ∧ s = pre ++ rest := by
  simp only [readOptionalASN1, hp, if_true] at h
  split at h
  · rename_i body rst hr
    simp only [Res.ok.injEq, Prod.mk.injEq] at h
    obtain ⟨h1, h2⟩ := h
    subst h1; subst h2
    obtain ⟨pre, e1, e2⟩ := C19.cb_readASN1Tag_canonical hr
    exact ⟨body, pre, rfl, e1, e2⟩
  · simp at h
  · simp at h

/-- `ReadOptionalASN1Integer`: present ⇒ the consumed bytes are `[tag]{INTEGER v}` exactly. -/
theorem optional_present_integer (s : Bytes) (tag : UInt8) (dflt v : Int) (rest : Bytes)
    (hp : peekTag s tag = true) (h : readOptionalInt s tag dflt = .ok (v, rest)) :
    ∃ inner pre, CB.addASN1Int64 v = .ok inner ∧ CB.element tag inner = .ok pre ∧ s = pre ++ rest := by
  unfold readOptionalInt at h
  split at h
  · rename_i r hr
    simp [readOptionalASN1, hp] at hr
    split at hr <;> simp at hr
  · rename_i i r hr
    obtain ⟨body, pre, hb, e1, e2⟩ := optional_present_asn1 s tag (some i) r hp hr
    simp only [Option.some.injEq] at hb
    subst hb
    split at h
    · rename_i w r2 hw
      split at h
      · rename_i hemp
        simp only [Res.ok.injEq, Prod.mk.injEq] at h
        obtain ⟨h1, h2⟩ := h
        subst h1; subst h2
        obtain ⟨inner, f1, f2⟩ := C19.cb_int64_canonical _ _ _ hw
        have : r2 = [] := by simpa using hemp
        subst this
        simp only [List.append_nil] at f2
        rw [f2] at e1
        exact ⟨inner, pre, f1, e1, e2⟩
      · simp at h
    · simp at h
    · simp at h
  · simp at h
  · simp at h

/-- `ReadOptionalASN1OctetString`: present ⇒ the consumed bytes are `[tag]{OCTET STRING v}` exactly. -/
theorem optional_present_octets (s : Bytes) (tag : UInt8) (r : Option Bytes) (rest : Bytes)
    (hp : peekTag s tag = true) (h : readOptionalOctets s tag = .ok (r, rest)) :
    ∃ oct inner pre, r = some oct ∧ CB.element 4 oct = .ok inner ∧ CB.element tag inner = .ok pre ∧
      s = pre ++ rest := by
  unfold readOptionalOctets at h
  split at h
  · rename_i r0 hr
    simp [readOptionalASN1, hp] at hr
    split at hr <;> simp at hr
  · rename_i child r0 hr
    obtain ⟨body, pre, hb, e1, e2⟩ := optional_present_asn1 s tag (some child) r0 hp hr
    simp only [Option.some.injEq] at hb
    subst hb
    split at h
    · rename_i oct r2 hw
      split at h
      · rename_i hemp
        simp only [Res.ok.injEq, Prod.mk.injEq] at h
        obtain ⟨h1, h2⟩ := h
        subst h1; subst h2
        obtain ⟨inner, f1, f2⟩ := C19.cb_readASN1Tag_canonical hw
        have : r2 = [] := by simpa using hemp
        subst this
        simp only [List.append_nil] at f2
        rw [f2] at e1
        exact ⟨oct, inner, pre, rfl, f1, e1, e2⟩
      · simp at h
    · simp at h
    · simp at h
  · simp at h
  · simp at h

/-- `ReadOptionalASN1Boolean` (after the fix for D1): present ⇒ exactly the BOOLEAN element is
    consumed and its value returned — whatever follows stays unread. -/
theorem optional_present_boolean (s : Bytes) (dflt v : Bool) (rest : Bytes)
    (hp : peekTag s 1 = true) (h : readOptionalBool s dflt = .ok (v, rest)) :
    ∃ pre, CB.addASN1Boolean v = .ok pre ∧ s = pre ++ rest := by
  simp only [readOptionalBool, hp, Bool.not_true, Bool.false_eq_true, if_false] at h
  exact C19.cb_bool_canonical s v rest h

example : readOptionalBool [0x01, 0x01, 0xff, 0x07] false = .ok (true, [0x07]) := by decide

/-! ## write → read for the fragment -/

def Frag : Prog → Prop
  | .done => True
  | .uN w v k => v < 256 ^ w ∧ Frag k
  | .raw _ k => Frag k
  | .lp _ body k => Frag body ∧ Frag k
  | .asn1 _ body k => (∀ c, ser body = .ok c → c.length < 4294967290) ∧ Frag body ∧ Frag k
  | .octets b k => b.length < 4294967290 ∧ Frag k
  | .bool _ k => Frag k
  | .null k => Frag k
  | _ => False

theorem read_write_fragment (p : Prog) (hf : Frag p) :
    ∀ bs tail, ser p = .ok bs → readProg p (bs ++ tail) = .ok (values p, tail) := by
  induction p with
  | done => intro bs tail h; simp [ser] at h; subst h; simp [readProg, values]
  | uN w v k ih =>
    intro bs tail h
    obtain ⟨x, y, hx, hy, e⟩ := append_ok h
    simp only [Res.ok.injEq] at hx
    subst hx; subst e
    simp only [readProg, values, List.append_assoc, readU_beBytes w v _ hf.1, ih hf.2 y tail hy, cons]
  | raw b k ih =>
    intro bs tail h
    obtain ⟨x, y, hx, hy, e⟩ := append_ok h
    simp only [Res.ok.injEq] at hx
    subst hx; subst e
    simp only [readProg, values, List.append_assoc, readBytes_append, ih hf y tail hy, cons]
  | lp n body k ihb ihk =>
    intro bs tail h
    obtain ⟨x, y, hx, hy, e⟩ := append_ok h
    subst e
    unfold lpBytes at hx
    split at hx
    · rename_i c hc
      split at hx
      · simp at hx
      · rename_i hlen
        simp only [Res.ok.injEq] at hx
        subst hx
        have hb := ihb hf.1 c [] hc
        simp only [List.append_nil] at hb
        simp only [readProg, values, List.append_assoc,
          readLengthPrefixed_back n c (y ++ tail) (by omega), nested, hb, ihk hf.2 y tail hy]
        simp
    · simp at hx
    · simp at hx
  | asn1 tag body k ihb ihk =>
    intro bs tail h
    obtain ⟨x, y, hx, hy, e⟩ := append_ok h
    subst e
    unfold elementR at hx
    split at hx
    · rename_i c hc
      have hb := ihb hf.2.1 c [] hc
      simp only [List.append_nil] at hb
      simp only [readProg, values, List.append_assoc,
        readASN1Tag_back tag c x (y ++ tail) hx (hf.1 c hc), nested, hb, ihk hf.2.2 y tail hy]
      simp
    · simp at hx
    · simp at hx
  | octets b k ih =>
    intro bs tail h
    obtain ⟨x, y, hx, hy, e⟩ := append_ok h
    subst e
    simp only [readProg, values, List.append_assoc,
      readASN1Tag_back 4 b x (y ++ tail) hx hf.1, ih hf.2 y tail hy, cons]
  | bool v k ih =>
    intro bs tail h
    obtain ⟨x, y, hx, hy, e⟩ := append_ok h
    subst e
    have hsz : (boolContent v).length < 4294967290 := by cases v <;> simp [boolContent]
    have hv : boolOfContent (boolContent v) = .ok v := by cases v <;> simp [boolContent, boolOfContent]
    simp only [readProg, values, List.append_assoc, CB.readBool,
      readASN1Tag_back 1 (boolContent v) x (y ++ tail) hx hsz, hv, ih hf y tail hy, cons]
  | null k ih =>
    intro bs tail h
    obtain ⟨x, y, hx, hy, e⟩ := append_ok h
    simp only [Res.ok.injEq] at hx
    subst hx; subst e
    have hel : CB.element 5 [] = .ok [5, 0] := by decide
    have := readASN1Tag_back 5 [] [5, 0] (y ++ tail) hel (by simp)
    simp only [List.cons_append, List.nil_append] at this
    simp only [readProg, values, List.cons_append, List.nil_append, this, ih hf y tail hy, cons]
  | _ => exact hf.elim

example : Frag (.lp 2 (.asn1 0x30 (.uN 1 7 (.bool true .done)) (.null .done)) (.raw [1, 2] .done)) := by
  simp [Frag, ser, Res.append, elementR, CB.addASN1Boolean, CB.element, boolContent, CB.derLength,
    beBytes_length]

/-! ## the low-level Builder computes the specification serializer -/

/-- `var b Builder; <program>; b.Bytes()` in the low-level model — shared result buffer, `offset`,
    `pendingLenLen`, `pendingIsASN1`, length back-patching in `flushChild`, DER long-form widening by an
    overlapping `copy` — equals the specification serializer, for every program (all 21 ops, any nesting,
    any prefix width, including every error case). -/
theorem builder_refines_ser (p : Prog) : buildBytes p = ser p := buildBytes_eq_ser p

/-- none of the `panic("cryptobyte: internal error")` sites of `flushChild` ("result unexpectedly shrunk",
    `pendingLenLen != 1` for an ASN.1 child) nor the index-out-of-range at `child.result[child.offset]`
    is reachable from a program. -/
theorem builder_never_panics (p : Prog) : buildBytes p ≠ .panic := by
  rw [builder_refines_ser]; exact (impl_build p).np

/-- a child that overflows its length prefix is an error, never a silently truncated length:
    the block is written iff the body is shorter than `256^n`. -/
theorem lp_overflow_is_error (n : Nat) (body k : Prog) (c : Bytes) (hc : ser body = .ok c)
    (hlen : c.length ≥ 256 ^ n) : buildBytes (.lp n body k) = .err := by
  rw [builder_refines_ser]
  have hnp := (impl_build k).np
  simp only [ser, hc, lpBytes, hlen, if_true]
  cases hk : ser k with
  | ok y => simp [Res.append]
  | err => simp [Res.append]
  | panic => exact absurd hk hnp

example : ∃ c, ser (.raw (List.replicate 256 0) .done) = .ok c ∧ c.length ≥ 256 ^ 1 :=
  ⟨List.replicate 256 0 ++ [], rfl, by
    simp only [List.length_append, List.length_replicate, List.length_nil]; decide⟩

/-! ## write → read for every op of the model -/

/-- what the mirrored readers need, and nothing more: see the header of this file. `tail` = the bytes
    that follow the program's output in the String being read. -/
def readable : Prog → Bytes → Bool
  | .done, _ => true
  | .uN w v k, t => decide (v < 256 ^ w) && readable k t
  | .raw _ k, t => readable k t
  | .lp _ body k, t => readable body [] && readable k t
  | .asn1 _ body k, t => bodyFits (ser body) && readable body [] && readable k t
  | .int64 _ v k, t => int64Range v && readable k t
  | .uint64 v k, t => decide (v < 18446744073709551616) && readable k t
  | .big v k, t => decide ((bigIntBytes v).length < 4294967290) && readable k t
  | .bool _ k, t => readable k t
  | .oid o k, t => oidInRange o && decide ((oidBody o).length < 4294967290) && readable k t
  | .octets b k, t => decide (b.length < 4294967290) && readable k t
  | .bitstr b k, t => decide (b.length + 1 < 4294967290) && readable k t
  | .null k, t => readable k t
  | .optAsn1 _ body k, t => bodyFits (ser body) && readable body [] && readable k t
  | .noAsn1 tag k, t => nextIsNot tag (ser k) t && readable k t
  | .optInt _ v _ k, t => int64Range v && readable k t
  | .noInt tag _ k, t => nextIsNot tag (ser k) t && readable k t
  | .optOctets _ b k, t => decide (b.length < 4294967290) && bodyFits (CB.element 4 b) && readable k t
  | .noOctets tag k, t => nextIsNot tag (ser k) t && readable k t
  | .optBool _ _ k, t => readable k t
  | .noBool _ k, t => nextIsNot 1 (ser k) t && readable k t

/-- **write → read, all ops.**  Whatever a `readable` program writes, the mirrored read program reads
    back: exactly the written values, exactly the tail left unread. -/
theorem read_write_all (p : Prog) :
    ∀ tail bs, readable p tail = true → ser p = .ok bs →
      readProg p (bs ++ tail) = .ok (values p, tail) := by
  induction p with
  | done => intro tail bs _ h; simp [ser] at h; subst h; simp [readProg, values]
  | uN w v k ih =>
    intro tail bs hr h
    simp only [readable, Bool.and_eq_true, decide_eq_true_eq] at hr
    obtain ⟨x, y, hx, hy, e⟩ := append_ok h
    simp only [Res.ok.injEq] at hx
    subst hx; subst e
    simp only [readProg, values, List.append_assoc, readU_beBytes w v _ hr.1, ih tail y hr.2 hy, cons]
  | raw b k ih =>
    intro tail bs hr h
    simp only [readable] at hr
    obtain ⟨x, y, hx, hy, e⟩ := append_ok h
    simp only [Res.ok.injEq] at hx
    subst hx; subst e
    simp only [readProg, values, List.append_assoc, readBytes_append, ih tail y hr hy, cons]
  | lp n body k ihb ihk =>
    intro tail bs hr h
    simp only [readable, Bool.and_eq_true] at hr
    obtain ⟨x, y, hx, hy, e⟩ := append_ok h
    subst e
    obtain ⟨c, hc, hlen, hx'⟩ := lpBytes_ok hx
    subst hx'
    have hb := ihb [] c hr.1 hc
    simp only [List.append_nil] at hb
    simp only [readProg, values, List.append_assoc, readLengthPrefixed_back n c (y ++ tail) hlen,
      nested_ok hb (ihk tail y hr.2 hy)]
  | asn1 tag body k ihb ihk =>
    intro tail bs hr h
    simp only [readable, Bool.and_eq_true] at hr
    obtain ⟨x, y, hx, hy, e⟩ := append_ok h
    subst e
    obtain ⟨c, hc, hx'⟩ := elementR_ok hx
    have hb := ihb [] c hr.1.2 hc
    simp only [List.append_nil] at hb
    simp only [readProg, values, List.append_assoc,
      readASN1Tag_back tag c x (y ++ tail) hx' (bodyFits_ok hr.1.1 hc), nested_ok hb (ihk tail y hr.2 hy)]
  | int64 tag v k ih =>
    intro tail bs hr h
    simp only [readable, Bool.and_eq_true] at hr
    obtain ⟨x, y, hx, hy, e⟩ := append_ok h
    subst e
    have hv := int64Range_ok hr.1
    simp only [readProg, values, List.append_assoc, readInt64Tag_back tag v x (y ++ tail) hx hv.1 hv.2,
      ih tail y hr.2 hy, cons]
  | uint64 v k ih =>
    intro tail bs hr h
    simp only [readable, Bool.and_eq_true, decide_eq_true_eq] at hr
    obtain ⟨x, y, hx, hy, e⟩ := append_ok h
    subst e
    simp only [readProg, values, List.append_assoc, readUint64_back v x (y ++ tail) hx hr.1,
      ih tail y hr.2 hy, cons]
  | big v k ih =>
    intro tail bs hr h
    simp only [readable, Bool.and_eq_true, decide_eq_true_eq] at hr
    obtain ⟨x, y, hx, hy, e⟩ := append_ok h
    subst e
    simp only [readProg, values, List.append_assoc, readBigInt_back v x (y ++ tail) hx hr.1,
      ih tail y hr.2 hy, cons]
  | bool v k ih =>
    intro tail bs hr h
    simp only [readable] at hr
    obtain ⟨x, y, hx, hy, e⟩ := append_ok h
    subst e
    simp only [readProg, values, List.append_assoc, readBool_back v x (y ++ tail) hx, ih tail y hr hy, cons]
  | oid o k ih =>
    intro tail bs hr h
    simp only [readable, Bool.and_eq_true, decide_eq_true_eq, oidInRange, List.all_eq_true] at hr
    obtain ⟨x, y, hx, hy, e⟩ := append_ok h
    subst e
    simp only [readProg, values, List.append_assoc,
      readOID_back o x (y ++ tail) hx hr.1.1 hr.1.2, ih tail y hr.2 hy, cons]
  | octets b k ih =>
    intro tail bs hr h
    simp only [readable, Bool.and_eq_true, decide_eq_true_eq] at hr
    obtain ⟨x, y, hx, hy, e⟩ := append_ok h
    subst e
    simp only [readProg, values, List.append_assoc,
      readASN1Tag_back 4 b x (y ++ tail) hx hr.1, ih tail y hr.2 hy, cons]
  | bitstr b k ih =>
    intro tail bs hr h
    simp only [readable, Bool.and_eq_true, decide_eq_true_eq] at hr
    obtain ⟨x, y, hx, hy, e⟩ := append_ok h
    subst e
    simp only [readProg, values, List.append_assoc,
      readBitString_back b x (y ++ tail) hx hr.1, ih tail y hr.2 hy, cons]
  | null k ih =>
    intro tail bs hr h
    simp only [readable] at hr
    obtain ⟨x, y, hx, hy, e⟩ := append_ok h
    simp only [Res.ok.injEq] at hx
    subst hx; subst e
    have hel : CB.element 5 [] = .ok [5, 0] := by decide
    have := readASN1Tag_back 5 [] [5, 0] (y ++ tail) hel (by simp)
    simp only [List.cons_append, List.nil_append] at this
    simp only [readProg, values, List.cons_append, List.nil_append, this, ih tail y hr hy, cons]
  | optAsn1 tag body k ihb ihk =>
    intro tail bs hr h
    simp only [readable, Bool.and_eq_true] at hr
    obtain ⟨x, y, hx, hy, e⟩ := append_ok h
    subst e
    obtain ⟨c, hc, hx'⟩ := elementR_ok hx
    have hb := ihb [] c hr.1.2 hc
    simp only [List.append_nil] at hb
    simp only [readProg, values, List.append_assoc,
      readOptionalASN1_present tag c x (y ++ tail) hx' (bodyFits_ok hr.1.1 hc),
      nested_ok hb (ihk tail y hr.2 hy), cons]
  | noAsn1 tag k ih =>
    intro tail bs hr h
    simp only [readable, Bool.and_eq_true] at hr
    have hs : ser k = .ok bs := h
    simp only [readProg, values, optional_absent_asn1 _ tag (nextIsNot_ok hr.1 hs), ih tail bs hr.2 hs, cons]
  | optInt tag v d k ih =>
    intro tail bs hr h
    simp only [readable, Bool.and_eq_true] at hr
    obtain ⟨x, y, hx, hy, e⟩ := append_ok h
    subst e
    obtain ⟨c, hc, hx'⟩ := elementR_ok hx
    have hv := int64Range_ok hr.1
    simp only [readProg, values, List.append_assoc,
      readOptionalInt_present tag v d c x (y ++ tail) hc hx' hv.1 hv.2, ih tail y hr.2 hy, cons]
  | noInt tag d k ih =>
    intro tail bs hr h
    simp only [readable, Bool.and_eq_true] at hr
    have hs : ser k = .ok bs := h
    simp only [readProg, values, optional_absent_integer _ tag d (nextIsNot_ok hr.1 hs), ih tail bs hr.2 hs, cons]
  | optOctets tag b k ih =>
    intro tail bs hr h
    simp only [readable, Bool.and_eq_true, decide_eq_true_eq] at hr
    obtain ⟨x, y, hx, hy, e⟩ := append_ok h
    subst e
    obtain ⟨c, hc, hx'⟩ := elementR_ok hx
    simp only [readProg, values, List.append_assoc,
      readOptionalOctets_present tag b c x (y ++ tail) hc hx' hr.1.1 (bodyFits_ok hr.1.2 hc),
      ih tail y hr.2 hy, cons]
  | noOctets tag k ih =>
    intro tail bs hr h
    simp only [readable, Bool.and_eq_true] at hr
    have hs : ser k = .ok bs := h
    simp only [readProg, values, optional_absent_octets _ tag (nextIsNot_ok hr.1 hs), ih tail bs hr.2 hs, cons]
  | optBool v d k ih =>
    intro tail bs hr h
    simp only [readable] at hr
    obtain ⟨x, y, hx, hy, e⟩ := append_ok h
    subst e
    simp only [readProg, values, List.append_assoc, readOptionalBool_present v d x (y ++ tail) hx,
      ih tail y hr hy, cons]
  | noBool d k ih =>
    intro tail bs hr h
    simp only [readable, Bool.and_eq_true] at hr
    have hs : ser k = .ok bs := h
    simp only [readProg, values, optional_absent_boolean _ d (nextIsNot_ok hr.1 hs), ih tail bs hr.2 hs, cons]

/-- a program over 17 of the 21 ops (all integer kinds at their type limits, the largest readable OID
    sub-identifier, BIT STRING, present and absent optional fields, nesting) that satisfies `readable`
    and is serialized successfully. -/
def exampleProg : Prog :=
  .lp 2 (.asn1 0x30 (.int64 2 (-9223372036854775808) (.uint64 18446744073709551615
      (.big (-1180591620717411303424) (.oid [2, 999, 2147483647] (.bitstr [0xaa]
      (.optInt 0xa0 9223372036854775807 7 (.noOctets 0xa1 .done)))))))
    (.null .done))
  (.noBool true (.optOctets 0xa2 [1, 2] (.noAsn1 0xa3 (.noInt 0xa4 9 (.uN 4 4294967295 .done)))))

example : readable exampleProg [0x07] = true ∧ (ser exampleProg).isOk = true ∧
    (buildBytes exampleProg).isOk = true := by decide +kernel

/-- `oidInRange` is necessary (finding F-C21-oid-arc-2^31): `AddASN1ObjectIdentifier` accepts 2.2147483568
    (sub-identifier 2^31), `ReadASN1ObjectIdentifier` rejects what it wrote. -/
example : (match ser (.oid [2, 2147483568] .done) with
    | .ok bs => readProg (.oid [2, 2147483568] .done) bs
    | _ => .ok ([], [])) = .err := by decide +kernel

/-- `nextIsNot` is necessary: an absent `[0] …` followed by an element with the same tag reads as present. -/
example : (match ser (.noAsn1 0xa0 (.asn1 0xa0 .done .done)) with
    | .ok bs => readProg (.noAsn1 0xa0 (.asn1 0xa0 .done .done)) bs
    | _ => .err) = .err ∧ values (.noAsn1 0xa0 (.asn1 0xa0 .done .done)) = [.absent] := by decide +kernel

/-- the OID part of `readable` is exactly the range the reader imposes: what
    `AddASN1ObjectIdentifier` wrote is read back by `ReadASN1ObjectIdentifier` iff every sub-identifier
    (40·a+b, then each further arc) is below 2^31 — otherwise the reader rejects the writer's own output. -/
theorem oid_read_back_iff (o : List Nat) (pre t : Bytes) (h : CB.addASN1OID o = .ok pre)
    (hsz : (oidBody o).length < 4294967290) :
    CB.readOID (pre ++ t) = .ok (o, t) ↔ oidInRange o = true := by
  constructor
  · intro hr
    by_contra hn
    have hbig : ∃ x ∈ oidSubIds o, 2147483648 ≤ x := by
      simp only [oidInRange, List.all_eq_true, decide_eq_true_eq, not_forall] at hn
      obtain ⟨x, hx, hlt⟩ := hn
      exact ⟨x, hx, by omega⟩
    rw [readOID_big o pre t h hbig hsz] at hr
    simp at hr
  · intro hr
    simp only [oidInRange, List.all_eq_true, decide_eq_true_eq] at hr
    exact readOID_back o pre t h hr hsz

example : (CB.addASN1OID [1, 2, 840, 113549]).isOk = true ∧ oidInRange [1, 2, 840, 113549] = true ∧
    oidInRange [2, 2147483568] = false := by decide +kernel

/-- the same, end to end against the low-level Builder model: `b.Bytes()` read back by the mirrored
    String readers. -/
theorem build_read_roundtrip (p : Prog) (tail bs : Bytes) (hr : readable p tail = true)
    (hb : buildBytes p = .ok bs) : readProg p (bs ++ tail) = .ok (values p, tail) :=
  read_write_all p tail bs hr (by rw [← builder_refines_ser]; exact hb)

/-- the old fragment is the tail-independent part of `readable`. -/
theorem frag_readable (p : Prog) (hf : Frag p) : ∀ tail, readable p tail = true := by
  induction p with
  | done => intro _; rfl
  | uN w v k ih => intro t; simp [readable, hf.1, ih hf.2 t]
  | raw b k ih => intro t; simp [readable, ih hf t]
  | lp n body k ihb ihk => intro t; simp [readable, ihb hf.1 [], ihk hf.2 t]
  | asn1 tag body k ihb ihk =>
    intro t
    have : bodyFits (ser body) = true := by
      cases hs : ser body with
      | ok c => simpa [bodyFits] using hf.1 c hs
      | err => rfl
      | panic => rfl
    simp [readable, this, ihb hf.2.1 [], ihk hf.2.2 t]
  | octets b k ih => intro t; simp [readable, hf.1, ih hf.2 t]
  | bool v k ih => intro t; simp [readable, ih hf t]
  | null k ih => intro t; simp [readable, ih hf t]
  | _ => exact hf.elim

end ZV.C21
