import ZV.Proofs.C21
import ZV.Proofs.C21Build
import ZV.Proofs.C21Leaf
import ZV.Proofs.C21Seq
import ZV.Proofs.C21Unwrite
import ZV.Props.C19
import ZV.Proofs.TimeCB
/-!
  C21 — cryptobyte builders and readers are exact inverses.

  * optional readers (`ReadOptionalASN1`, `…Integer`, `…OctetString`, `…Boolean`): tag absent ⇒ input
    untouched and the default returned; tag present and read successful ⇒ exactly one element consumed.
  * `builder_refines_ser`: for EVERY program the low-level Builder model (`buildBytes`: shared buffer,
    `offset` / `pendingLenLen` / `pendingIsASN1`, `flushChild` back-patching, DER long-form widening by
    `copy`) computes exactly the specification serializer `ser` — result bytes, error, and (never) panic.
    `builder_never_panics` is the corollary that none of the three `cryptobyte: internal error` panics of
    `flushChild` is reachable from a program.
  * `read_write_fragment` (kept): the tail-independent fragment {AddUint8/16/24/32, AddBytes,
    AddUintNLengthPrefixed, AddASN1, AddASN1OctetString, AddASN1Boolean, AddASN1NULL}.
  * `read_write_all`: for every program over ALL 25 ops of the model that satisfies the decidable predicate
    `readable p tail`, the mirrored read program returns exactly the written values and leaves exactly the
    tail.  `readable` says: fixed-width values fit their width; int64 / uint64 values fit their Go type;
    every ASN.1 body is shorter than 2^32-6 bytes (the limit of `readASN1`'s uint32 guard); every OID
    sub-identifier (40·a+b and the further arcs) is below 2^31 (the limit of `readBase128Int`); and every
    ABSENT optional field is followed (in the written bytes, or in the tail) by a byte different from its tag
    — and the zone offset of a GeneralizedTime is below 25 hours and not a non-zero number of seconds below one
    minute (`ZV.Time.gtimeOK`) — nothing else.  `build_read_roundtrip` states it against the low-level Builder model.
  * GeneralizedTime (`gtime_read_write`, `gtime_whole_minutes`, `gtime_year_guard`, `gtime_subminute_rejected`,
    `gtime_read_back_iff`):
    `ReadASN1GeneralizedTime` on what `AddASN1GeneralizedTime` wrote returns `ZV.Time.readBack t` — the same
    instant and zone when the zone offset is a whole number of minutes; the instant moved by the dropped seconds
    of the offset otherwise (the text form has no zone seconds; finding F-C21-gtime-zone-seconds).
  * `lp n` covers every prefix width `n` (so also the 32-bit `AddUint32LengthPrefixed`; zcrypto's String has
    no `ReadUint32LengthPrefixed`, the harness reads such a block with `ReadUint32` + `ReadBytes`, which is
    what `readLengthPrefixed 4` is).
  `time.Parse` / `Time.Format` for the layout of GeneralizedTime are part of the model (`ZV.Model.Time`).
-/
open ZV ZV.Der0
namespace ZV.C21

/-! ## optional readers -/

theorem optional_absent_asn1 (s : Bytes) (tag : UInt8) (h : peekTag s tag = false) :
    readOptionalASN1 s tag = .ok (none, s) := by simp [readOptionalASN1, h]

theorem optional_absent_integer (s : Bytes) (tag : UInt8) (dflt : Int) (h : peekTag s tag = false) :
    readOptionalInt s tag dflt = .ok (dflt, s) := by simp [readOptionalInt, readOptionalASN1, h]

theorem optional_absent_octets (s : Bytes) (tag : UInt8) (h : peekTag s tag = false) :
    readOptionalOctets s tag = .ok (none, s) := by simp [readOptionalOctets, readOptionalASN1, h]

theorem optional_absent_boolean (s : Bytes) (dflt : Bool) (h : peekTag s 1 = false) :
    readOptionalBool s dflt = .ok (dflt, s) := by simp [readOptionalBool, h]

example : peekTag [0x02, 0x01, 0x05] 0xa0 = false ∧
    readOptionalInt [0x02, 0x01, 0x05] 0xa0 7 = .ok (7, [0x02, 0x01, 0x05]) := by decide

/-- present ⇒ exactly one element (tag, minimal length, body) is consumed -/
theorem optional_present_asn1 (s : Bytes) (tag : UInt8) (r : Option Bytes) (rest : Bytes)
    (hp : peekTag s tag = true) (h : readOptionalASN1 s tag = .ok (r, rest)) :
    ∃ body pre, r = some body ∧ CB.element tag body = .ok pre ∧ s = pre ++ rest := by
  simp only [readOptionalASN1, hp, if_true] at h
  split at h
  · rename_i body rst hr
    simp only [Res.ok.injEq, Prod.mk.injEq] at h
    obtain ⟨h1, h2⟩ := h
    subst h1; subst h2
    obtain ⟨pre, e1, e2⟩ := C19.cb_readASN1Tag_canonical hr
    exact ⟨body, pre, rfl, e1, e2⟩
  · simp at h
  · simp at h

/-- `ReadOptionalASN1Integer`: present ⇒ the consumed bytes are `[tag]{INTEGER v}` exactly. -/
theorem optional_present_integer (s : Bytes) (tag : UInt8) (dflt v : Int) (rest : Bytes)
    (hp : peekTag s tag = true) (h : readOptionalInt s tag dflt = .ok (v, rest)) :
    ∃ inner pre, CB.addASN1Int64 v = .ok inner ∧ CB.element tag inner = .ok pre ∧ s = pre ++ rest := by
  unfold readOptionalInt at h
  split at h
  · rename_i r hr
    simp [readOptionalASN1, hp] at hr
    split at hr <;> simp at hr
  · rename_i i r hr
    obtain ⟨body, pre, hb, e1, e2⟩ := optional_present_asn1 s tag (some i) r hp hr
    simp only [Option.some.injEq] at hb
    subst hb
    split at h
    · rename_i w r2 hw
      split at h
      · rename_i hemp
        simp only [Res.ok.injEq, Prod.mk.injEq] at h
        obtain ⟨h1, h2⟩ := h
        subst h1; subst h2
        obtain ⟨inner, f1, f2⟩ := C19.cb_int64_canonical _ _ _ hw
        have : r2 = [] := by simpa using hemp
        subst this
        simp only [List.append_nil] at f2
        rw [f2] at e1
        exact ⟨inner, pre, f1, e1, e2⟩
      · simp at h
    · simp at h
    · simp at h
  · simp at h
  · simp at h

/-- `ReadOptionalASN1OctetString`: present ⇒ the consumed bytes are `[tag]{OCTET STRING v}` exactly. -/
theorem optional_present_octets (s : Bytes) (tag : UInt8) (r : Option Bytes) (rest : Bytes)
    (hp : peekTag s tag = true) (h : readOptionalOctets s tag = .ok (r, rest)) :
    ∃ oct inner pre, r = some oct ∧ CB.element 4 oct = .ok inner ∧ CB.element tag inner = .ok pre ∧
      s = pre ++ rest := by
  unfold readOptionalOctets at h
  split at h
  · rename_i r0 hr
    simp [readOptionalASN1, hp] at hr
    split at hr <;> simp at hr
  · rename_i child r0 hr
    obtain ⟨body, pre, hb, e1, e2⟩ := optional_present_asn1 s tag (some child) r0 hp hr
    simp only [Option.some.injEq] at hb
    subst hb
    split at h
    · rename_i oct r2 hw
      split at h
      · rename_i hemp
        simp only [Res.ok.injEq, Prod.mk.injEq] at h
        obtain ⟨h1, h2⟩ := h
        subst h1; subst h2
        obtain ⟨inner, f1, f2⟩ := C19.cb_readASN1Tag_canonical hw
        have : r2 = [] := by simpa using hemp
        subst this
        simp only [List.append_nil] at f2
        rw [f2] at e1
        exact ⟨oct, inner, pre, rfl, f1, e1, e2⟩
      · simp at h
    · simp at h
    · simp at h
  · simp at h
  · simp at h

/-- `ReadOptionalASN1Boolean` (after the fix for D1): present ⇒ exactly the BOOLEAN element is
    consumed and its value returned — whatever follows stays unread. -/
theorem optional_present_boolean (s : Bytes) (dflt v : Bool) (rest : Bytes)
    (hp : peekTag s 1 = true) (h : readOptionalBool s dflt = .ok (v, rest)) :
    ∃ pre, CB.addASN1Boolean v = .ok pre ∧ s = pre ++ rest := by
  simp only [readOptionalBool, hp, Bool.not_true, Bool.false_eq_true, if_false] at h
  exact C19.cb_bool_canonical s v rest h

example : readOptionalBool [0x01, 0x01, 0xff, 0x07] false = .ok (true, [0x07]) := by decide

/-! ## write → read for the fragment -/

def Frag : Prog → Prop
  | .done => True
  | .uN w v k => v < 256 ^ w ∧ Frag k
  | .raw _ k => Frag k
  | .lp _ body k => Frag body ∧ Frag k
  | .asn1 _ body k => (∀ c, ser body = .ok c → c.length < 4294967290) ∧ Frag body ∧ Frag k
  | .octets b k => b.length < 4294967290 ∧ Frag k
  | .bool _ k => Frag k
  | .null k => Frag k
  | _ => False

theorem read_write_fragment (p : Prog) (hf : Frag p) :
    ∀ bs tail, ser p = .ok bs → readProg p (bs ++ tail) = .ok (values p, tail) := by
  induction p with
  | done => intro bs tail h; simp [ser] at h; subst h; simp [readProg, values]
  | uN w v k ih =>
    intro bs tail h
    obtain ⟨x, y, hx, hy, e⟩ := append_ok h
    simp only [Res.ok.injEq] at hx
    subst hx; subst e
    simp only [readProg, values, List.append_assoc, readU_beBytes w v _ hf.1, ih hf.2 y tail hy, cons]
  | raw b k ih =>
    intro bs tail h
    obtain ⟨x, y, hx, hy, e⟩ := append_ok h
    simp only [Res.ok.injEq] at hx
    subst hx; subst e
    simp only [readProg, values, List.append_assoc, readBytes_append, ih hf y tail hy, cons]
  | lp n body k ihb ihk =>
    intro bs tail h
    obtain ⟨x, y, hx, hy, e⟩ := append_ok h
    subst e
    unfold lpBytes at hx
    split at hx
    · rename_i c hc
      split at hx
      · simp at hx
      · rename_i hlen
        simp only [Res.ok.injEq] at hx
        subst hx
        have hb := ihb hf.1 c [] hc
        simp only [List.append_nil] at hb
        simp only [readProg, values, List.append_assoc,
          readLengthPrefixed_back n c (y ++ tail) (by omega), nested, hb, ihk hf.2 y tail hy]
        simp
    · simp at hx
    · simp at hx
  | asn1 tag body k ihb ihk =>
    intro bs tail h
    obtain ⟨x, y, hx, hy, e⟩ := append_ok h
    subst e
    unfold elementR at hx
    split at hx
    · rename_i c hc
      have hb := ihb hf.2.1 c [] hc
      simp only [List.append_nil] at hb
      simp only [readProg, values, List.append_assoc,
        readASN1Tag_back tag c x (y ++ tail) hx (hf.1 c hc), nested, hb, ihk hf.2.2 y tail hy]
      simp
    · simp at hx
    · simp at hx
  | octets b k ih =>
    intro bs tail h
    obtain ⟨x, y, hx, hy, e⟩ := append_ok h
    subst e
    simp only [readProg, values, List.append_assoc,
      readASN1Tag_back 4 b x (y ++ tail) hx hf.1, ih hf.2 y tail hy, cons]
  | bool v k ih =>
    intro bs tail h
    obtain ⟨x, y, hx, hy, e⟩ := append_ok h
    subst e
    have hsz : (boolContent v).length < 4294967290 := by cases v <;> simp [boolContent]
    have hv : boolOfContent (boolContent v) = .ok v := by cases v <;> simp [boolContent, boolOfContent]
    simp only [readProg, values, List.append_assoc, CB.readBool,
      readASN1Tag_back 1 (boolContent v) x (y ++ tail) hx hsz, hv, ih hf y tail hy, cons]
  | null k ih =>
    intro bs tail h
    obtain ⟨x, y, hx, hy, e⟩ := append_ok h
    simp only [Res.ok.injEq] at hx
    subst hx; subst e
    have hel : CB.element 5 [] = .ok [5, 0] := by decide
    have := readASN1Tag_back 5 [] [5, 0] (y ++ tail) hel (by simp)
    simp only [List.cons_append, List.nil_append] at this
    simp only [readProg, values, List.cons_append, List.nil_append, this, ih hf y tail hy, cons]
  | _ => exact hf.elim

example : Frag (.lp 2 (.asn1 0x30 (.uN 1 7 (.bool true .done)) (.null .done)) (.raw [1, 2] .done)) := by
  simp [Frag, ser, Res.append, elementR, CB.addASN1Boolean, CB.element, boolContent, CB.derLength,
    beBytes_length]

/-! ## the low-level Builder computes the specification serializer -/

/-- `var b Builder; <program>; b.Bytes()` in the low-level model — shared result buffer, `offset`,
    `pendingLenLen`, `pendingIsASN1`, length back-patching in `flushChild`, DER long-form widening by an
    overlapping `copy` — equals the specification serializer, for every program (all 25 ops, any nesting,
    any prefix width, including every error case). -/
theorem builder_refines_ser (p : Prog) : buildBytes p = ser p := buildBytes_eq_ser p

/-- none of the `panic("cryptobyte: internal error")` sites of `flushChild` ("result unexpectedly shrunk",
    `pendingLenLen != 1` for an ASN.1 child) nor the index-out-of-range at `child.result[child.offset]`
    is reachable from a program. -/
theorem builder_never_panics (p : Prog) : buildBytes p ≠ .panic := by
  rw [builder_refines_ser]; exact (impl_build p).np

/-- a child that overflows its length prefix is an error, never a silently truncated length:
    the block is written iff the body is shorter than `256^n`. -/
theorem lp_overflow_is_error (n : Nat) (body k : Prog) (c : Bytes) (hc : ser body = .ok c)
    (hlen : c.length ≥ 256 ^ n) : buildBytes (.lp n body k) = .err := by
  rw [builder_refines_ser]
  have hnp := (impl_build k).np
  simp only [ser, hc, lpBytes, hlen, if_true]
  cases hk : ser k with
  | ok y => simp [Res.append]
  | err => simp [Res.append]
  | panic => exact absurd hk hnp

example : ∃ c, ser (.raw (List.replicate 256 0) .done) = .ok c ∧ c.length ≥ 256 ^ 1 :=
  ⟨List.replicate 256 0 ++ [], rfl, by
    simp only [List.length_append, List.length_replicate, List.length_nil]; decide⟩

/-! ## write → read for every op of the model -/

/-- what the mirrored readers need, and nothing more: see the header of this file. `tail` = the bytes
    that follow the program's output in the String being read. -/
def readable : Prog → Bytes → Bool
  | .done, _ => true
  | .uN w v k, t => decide (v < 256 ^ w) && readable k t
  | .raw _ k, t => readable k t
  | .lp _ body k, t => readable body [] && readable k t
  | .asn1 _ body k, t => bodyFits (ser body) && readable body [] && readable k t
  | .int64 _ v k, t => int64Range v && readable k t
  | .uint64 v k, t => decide (v < 18446744073709551616) && readable k t
  | .big v k, t => decide ((bigIntBytes v).length < 4294967290) && readable k t
  | .bool _ k, t => readable k t
  | .oid o k, t => oidInRange o && decide ((oidBody o).length < 4294967290) && readable k t
  | .octets b k, t => decide (b.length < 4294967290) && readable k t
  | .bitstr b k, t => decide (b.length + 1 < 4294967290) && readable k t
  | .null k, t => readable k t
  | .optAsn1 _ body k, t => bodyFits (ser body) && readable body [] && readable k t
  | .noAsn1 tag k, t => nextIsNot tag (ser k) t && readable k t
  | .optInt _ v _ k, t => int64Range v && readable k t
  | .noInt tag _ k, t => nextIsNot tag (ser k) t && readable k t
  | .optOctets _ b k, t => decide (b.length < 4294967290) && bodyFits (CB.element 4 b) && readable k t
  | .noOctets tag k, t => nextIsNot tag (ser k) t && readable k t
  | .optBool _ _ k, t => readable k t
  | .noBool _ k, t => nextIsNot 1 (ser k) t && readable k t
  | .gtime tm k, t => ZV.Time.gtimeOK tm && readable k t
  | .alt a k, t => altReadable a (ser k) t && readable k t
  | .setErr k, t => readable k t
  | .value body _ k, t => (match ser k with | .ok y => readable body (y ++ t) | _ => true) && readable k t

/-- **write → read, all ops.**  Whatever a `readable` program writes, the mirrored read program reads
    back: exactly the written values, exactly the tail left unread. -/
theorem read_write_all (p : Prog) :
    ∀ tail bs, readable p tail = true → ser p = .ok bs →
      readProg p (bs ++ tail) = .ok (values p, tail) := by
  induction p with
  | done => intro tail bs _ h; simp [ser] at h; subst h; simp [readProg, values]
  | uN w v k ih =>
    intro tail bs hr h
    simp only [readable, Bool.and_eq_true, decide_eq_true_eq] at hr
    obtain ⟨x, y, hx, hy, e⟩ := append_ok h
    simp only [Res.ok.injEq] at hx
    subst hx; subst e
    simp only [readProg, values, List.append_assoc, readU_beBytes w v _ hr.1, ih tail y hr.2 hy, cons]
  | raw b k ih =>
    intro tail bs hr h
    simp only [readable] at hr
    obtain ⟨x, y, hx, hy, e⟩ := append_ok h
    simp only [Res.ok.injEq] at hx
    subst hx; subst e
    simp only [readProg, values, List.append_assoc, readBytes_append, ih tail y hr hy, cons]
  | lp n body k ihb ihk =>
    intro tail bs hr h
    simp only [readable, Bool.and_eq_true] at hr
    obtain ⟨x, y, hx, hy, e⟩ := append_ok h
    subst e
    obtain ⟨c, hc, hlen, hx'⟩ := lpBytes_ok hx
    subst hx'
    have hb := ihb [] c hr.1 hc
    simp only [List.append_nil] at hb
    simp only [readProg, values, List.append_assoc, readLengthPrefixed_back n c (y ++ tail) hlen,
      nested_ok hb (ihk tail y hr.2 hy)]
  | asn1 tag body k ihb ihk =>
    intro tail bs hr h
    simp only [readable, Bool.and_eq_true] at hr
    obtain ⟨x, y, hx, hy, e⟩ := append_ok h
    subst e
    obtain ⟨c, hc, hx'⟩ := elementR_ok hx
    have hb := ihb [] c hr.1.2 hc
    simp only [List.append_nil] at hb
    simp only [readProg, values, List.append_assoc,
      readASN1Tag_back tag c x (y ++ tail) hx' (bodyFits_ok hr.1.1 hc), nested_ok hb (ihk tail y hr.2 hy)]
  | int64 tag v k ih =>
    intro tail bs hr h
    simp only [readable, Bool.and_eq_true] at hr
    obtain ⟨x, y, hx, hy, e⟩ := append_ok h
    subst e
    have hv := int64Range_ok hr.1
    simp only [readProg, values, List.append_assoc, readInt64Tag_back tag v x (y ++ tail) hx hv.1 hv.2,
      ih tail y hr.2 hy, cons]
  | uint64 v k ih =>
    intro tail bs hr h
    simp only [readable, Bool.and_eq_true, decide_eq_true_eq] at hr
    obtain ⟨x, y, hx, hy, e⟩ := append_ok h
    subst e
    simp only [readProg, values, List.append_assoc, readUint64_back v x (y ++ tail) hx hr.1,
      ih tail y hr.2 hy, cons]
  | big v k ih =>
    intro tail bs hr h
    simp only [readable, Bool.and_eq_true, decide_eq_true_eq] at hr
    obtain ⟨x, y, hx, hy, e⟩ := append_ok h
    subst e
    simp only [readProg, values, List.append_assoc, readBigInt_back v x (y ++ tail) hx hr.1,
      ih tail y hr.2 hy, cons]
  | bool v k ih =>
    intro tail bs hr h
    simp only [readable] at hr
    obtain ⟨x, y, hx, hy, e⟩ := append_ok h
    subst e
    simp only [readProg, values, List.append_assoc, readBool_back v x (y ++ tail) hx, ih tail y hr hy, cons]
  | oid o k ih =>
    intro tail bs hr h
    simp only [readable, Bool.and_eq_true, decide_eq_true_eq, oidInRange, List.all_eq_true] at hr
    obtain ⟨x, y, hx, hy, e⟩ := append_ok h
    subst e
    simp only [readProg, values, List.append_assoc,
      readOID_back o x (y ++ tail) hx hr.1.1 hr.1.2, ih tail y hr.2 hy, cons]
  | octets b k ih =>
    intro tail bs hr h
    simp only [readable, Bool.and_eq_true, decide_eq_true_eq] at hr
    obtain ⟨x, y, hx, hy, e⟩ := append_ok h
    subst e
    simp only [readProg, values, List.append_assoc,
      readASN1Tag_back 4 b x (y ++ tail) hx hr.1, ih tail y hr.2 hy, cons]
  | bitstr b k ih =>
    intro tail bs hr h
    simp only [readable, Bool.and_eq_true, decide_eq_true_eq] at hr
    obtain ⟨x, y, hx, hy, e⟩ := append_ok h
    subst e
    simp only [readProg, values, List.append_assoc,
      readBitString_back b x (y ++ tail) hx hr.1, ih tail y hr.2 hy, cons]
  | null k ih =>
    intro tail bs hr h
    simp only [readable] at hr
    obtain ⟨x, y, hx, hy, e⟩ := append_ok h
    simp only [Res.ok.injEq] at hx
    subst hx; subst e
    have hel : CB.element 5 [] = .ok [5, 0] := by decide
    have := readASN1Tag_back 5 [] [5, 0] (y ++ tail) hel (by simp)
    simp only [List.cons_append, List.nil_append] at this
    simp only [readProg, values, List.cons_append, List.nil_append, this, ih tail y hr hy, cons]
  | optAsn1 tag body k ihb ihk =>
    intro tail bs hr h
    simp only [readable, Bool.and_eq_true] at hr
    obtain ⟨x, y, hx, hy, e⟩ := append_ok h
    subst e
    obtain ⟨c, hc, hx'⟩ := elementR_ok hx
    have hb := ihb [] c hr.1.2 hc
    simp only [List.append_nil] at hb
    simp only [readProg, values, List.append_assoc,
      readOptionalASN1_present tag c x (y ++ tail) hx' (bodyFits_ok hr.1.1 hc),
      nested_ok hb (ihk tail y hr.2 hy), cons]
  | noAsn1 tag k ih =>
    intro tail bs hr h
    simp only [readable, Bool.and_eq_true] at hr
    have hs : ser k = .ok bs := h
    simp only [readProg, values, optional_absent_asn1 _ tag (nextIsNot_ok hr.1 hs), ih tail bs hr.2 hs, cons]
  | optInt tag v d k ih =>
    intro tail bs hr h
    simp only [readable, Bool.and_eq_true] at hr
    obtain ⟨x, y, hx, hy, e⟩ := append_ok h
    subst e
    obtain ⟨c, hc, hx'⟩ := elementR_ok hx
    have hv := int64Range_ok hr.1
    simp only [readProg, values, List.append_assoc,
      readOptionalInt_present tag v d c x (y ++ tail) hc hx' hv.1 hv.2, ih tail y hr.2 hy, cons]
  | noInt tag d k ih =>
    intro tail bs hr h
    simp only [readable, Bool.and_eq_true] at hr
    have hs : ser k = .ok bs := h
    simp only [readProg, values, optional_absent_integer _ tag d (nextIsNot_ok hr.1 hs), ih tail bs hr.2 hs, cons]
  | optOctets tag b k ih =>
    intro tail bs hr h
    simp only [readable, Bool.and_eq_true, decide_eq_true_eq] at hr
    obtain ⟨x, y, hx, hy, e⟩ := append_ok h
    subst e
    obtain ⟨c, hc, hx'⟩ := elementR_ok hx
    simp only [readProg, values, List.append_assoc,
      readOptionalOctets_present tag b c x (y ++ tail) hc hx' hr.1.1 (bodyFits_ok hr.1.2 hc),
      ih tail y hr.2 hy, cons]
  | noOctets tag k ih =>
    intro tail bs hr h
    simp only [readable, Bool.and_eq_true] at hr
    have hs : ser k = .ok bs := h
    simp only [readProg, values, optional_absent_octets _ tag (nextIsNot_ok hr.1 hs), ih tail bs hr.2 hs, cons]
  | optBool v d k ih =>
    intro tail bs hr h
    simp only [readable] at hr
    obtain ⟨x, y, hx, hy, e⟩ := append_ok h
    subst e
    simp only [readProg, values, List.append_assoc, readOptionalBool_present v d x (y ++ tail) hx,
      ih tail y hr hy, cons]
  | noBool d k ih =>
    intro tail bs hr h
    simp only [readable, Bool.and_eq_true] at hr
    have hs : ser k = .ok bs := h
    simp only [readProg, values, optional_absent_boolean _ d (nextIsNot_ok hr.1 hs), ih tail bs hr.2 hs, cons]
  | gtime tm k ih =>
    intro tail bs hr h
    simp only [readable, Bool.and_eq_true] at hr
    obtain ⟨x, y, hx, hy, e⟩ := append_ok h
    subst e
    simp only [readProg, values, List.append_assoc,
      ZV.Time.readGeneralizedTime_back tm x (y ++ tail) hx hr.1, ih tail y hr.2 hy, cons]
  | alt a k ih =>
    intro tail bs hr h
    simp only [readable, Bool.and_eq_true] at hr
    obtain ⟨x, y, hx, hy, e⟩ := append_ok h
    subst e
    simp only [readProg, values, List.append_assoc, altRead_back a (ser k) x y tail hx hy hr.1,
      ih tail y hr.2 hy, cons]
  | setErr k ih =>
    intro tail bs _ h
    obtain ⟨x, y, hx, _, _⟩ := append_ok h
    simp at hx
  | value body fail k ihb ihk =>
    intro tail bs hr h
    simp only [readable, Bool.and_eq_true] at hr
    obtain ⟨x, y, hx, hy, e⟩ := append_ok h
    subst e
    obtain ⟨x1, x2, hx1, hx2, e⟩ := append_ok hx
    subst e
    cases fail with
    | true => simp at hx2
    | false =>
      simp only [Bool.false_eq_true, if_false, Res.ok.injEq] at hx2
      subst hx2
      have hrb : readable body (y ++ tail) = true := by simpa only [hy] using hr.1
      have hb := ihb (y ++ tail) x1 hrb hx1
      simp only [readProg, values, List.append_nil, List.append_assoc]
      exact inline_ok hb (ihk tail y hr.2 hy)

/-- a program over 17 of the 25 ops (all integer kinds at their type limits, the largest readable OID
    sub-identifier, BIT STRING, present and absent optional fields, nesting) that satisfies `readable`
    and is serialized successfully. -/
def exampleProg : Prog :=
  .lp 2 (.asn1 0x30 (.int64 2 (-9223372036854775808) (.uint64 18446744073709551615
      (.big (-1180591620717411303424) (.oid [2, 999, 2147483647] (.bitstr [0xaa]
      (.optInt 0xa0 9223372036854775807 7 (.noOctets 0xa1 .done)))))))
    (.null .done))
  (.noBool true (.optOctets 0xa2 [1, 2] (.noAsn1 0xa3 (.noInt 0xa4 9 (.uN 4 4294967295 .done)))))

example : readable exampleProg [0x07] = true ∧ (ser exampleProg).isOk = true ∧
    (buildBytes exampleProg).isOk = true := by decide +kernel

/-- `oidInRange` is necessary (finding F-C21-oid-arc-2^31): `AddASN1ObjectIdentifier` accepts 2.2147483568
    (sub-identifier 2^31), `ReadASN1ObjectIdentifier` rejects what it wrote. -/
example : (match ser (.oid [2, 2147483568] .done) with
    | .ok bs => readProg (.oid [2, 2147483568] .done) bs
    | _ => .ok ([], [])) = .err := by decide +kernel

/-- `nextIsNot` is necessary: an absent `[0] …` followed by an element with the same tag reads as present. -/
example : (match ser (.noAsn1 0xa0 (.asn1 0xa0 .done .done)) with
    | .ok bs => readProg (.noAsn1 0xa0 (.asn1 0xa0 .done .done)) bs
    | _ => .err) = .err ∧ values (.noAsn1 0xa0 (.asn1 0xa0 .done .done)) = [.absent] := by decide +kernel

/-- the OID part of `readable` is exactly the range the reader imposes: what
    `AddASN1ObjectIdentifier` wrote is read back by `ReadASN1ObjectIdentifier` iff every sub-identifier
    (40·a+b, then each further arc) is below 2^31 — otherwise the reader rejects the writer's own output. -/
theorem oid_read_back_iff (o : List Nat) (pre t : Bytes) (h : CB.addASN1OID o = .ok pre)
    (hsz : (oidBody o).length < 4294967290) :
    CB.readOID (pre ++ t) = .ok (o, t) ↔ oidInRange o = true := by
  constructor
  · intro hr
    by_contra hn
    have hbig : ∃ x ∈ oidSubIds o, 2147483648 ≤ x := by
      simp only [oidInRange, List.all_eq_true, decide_eq_true_eq, not_forall] at hn
      obtain ⟨x, hx, hlt⟩ := hn
      exact ⟨x, hx, by omega⟩
    rw [readOID_big o pre t h hbig hsz] at hr
    simp at hr
  · intro hr
    simp only [oidInRange, List.all_eq_true, decide_eq_true_eq] at hr
    exact readOID_back o pre t h hr hsz

example : (CB.addASN1OID [1, 2, 840, 113549]).isOk = true ∧ oidInRange [1, 2, 840, 113549] = true ∧
    oidInRange [2, 2147483568] = false := by decide +kernel

/-- the same, end to end against the low-level Builder model: `b.Bytes()` read back by the mirrored
    String readers. -/
theorem build_read_roundtrip (p : Prog) (tail bs : Bytes) (hr : readable p tail = true)
    (hb : buildBytes p = .ok bs) : readProg p (bs ++ tail) = .ok (values p, tail) :=
  read_write_all p tail bs hr (by rw [← builder_refines_ser]; exact hb)

/-- the old fragment is the tail-independent part of `readable`. -/
theorem frag_readable (p : Prog) (hf : Frag p) : ∀ tail, readable p tail = true := by
  induction p with
  | done => intro _; rfl
  | uN w v k ih => intro t; simp [readable, hf.1, ih hf.2 t]
  | raw b k ih => intro t; simp [readable, ih hf t]
  | lp n body k ihb ihk => intro t; simp [readable, ihb hf.1 [], ihk hf.2 t]
  | asn1 tag body k ihb ihk =>
    intro t
    have : bodyFits (ser body) = true := by
      cases hs : ser body with
      | ok c => simpa [bodyFits] using hf.1 c hs
      | err => rfl
      | panic => rfl
    simp [readable, this, ihb hf.2.1 [], ihk hf.2.2 t]
  | octets b k ih => intro t; simp [readable, hf.1, ih hf.2 t]
  | bool v k ih => intro t; simp [readable, ih hf t]
  | null k ih => intro t; simp [readable, ih hf t]
  | _ => exact hf.elim

/-! ## error latching, AddValue, and the length-prefix overflow paths — for ALL programs -/

/-- **error latching (1).**  Once the Builder carries an error (`SetError`, an invalid OID, a year outside
    0..9999, a high-tag-number tag, a child that overflowed its length prefix, `Marshal` returned an error …),
    EVERY later call — any program `q` over all 25 ops, at any nesting — is a no-op: no field of the Builder
    changes (result buffer included). -/
theorem error_latched_noop (q : Prog) (b : Builder) (h : b.err = true) : build q b = b :=
  (impl_build q).errd b h

/-- **error latching (2).**  … and `Bytes()` returns the error: if the calls `p` end in an error, so do the
    calls `p` followed by any `q`. -/
theorem bytes_after_error (p q : Prog) (h : buildBytes p = .err) : buildBytes (p.seq q) = .err := by
  rw [builder_refines_ser] at h ⊢
  rw [ser_seq, h]
  exact append_err_left _ (impl_build q).np

/-- `SetError` (non-nil) after any calls `p`, followed by any calls `q`: `Bytes()` returns the error, and no
    byte of `q` is written. -/
theorem setError_latches (p q : Prog) :
    buildBytes (p.seq (.setErr q)) = .err ∧ build (p.seq (.setErr q)) {} = setError (build p {}) ∨
    buildBytes p = .err := by
  cases hp : buildBytes p with
  | panic => exact absurd hp (builder_never_panics p)
  | err => exact Or.inr rfl
  | ok c =>
    refine Or.inl ⟨?_, ?_⟩
    · rw [builder_refines_ser] at hp ⊢
      rw [ser_seq, hp]
      simp only [ser]
      rw [append_err_left _ (impl_build q).np]
      rfl
    · rw [build_seq]
      simp only [build]
      exact error_latched_noop q _ (by simp [setError])

example : buildBytes (Prog.seq (.uN 1 7 .done) (.setErr (.uN 1 8 .done))) = .err ∧
    buildBytes (.uN 1 7 .done) = .ok [7] := by decide

/-- an error raised inside a continuation (any depth) reaches the parent when the child is flushed: the
    block is not written and the parent's `Bytes()` returns the error, whatever follows. -/
theorem child_error_propagates (n : Nat) (tag : UInt8) (body k : Prog) (h : buildBytes body = .err) :
    buildBytes (.lp n body k) = .err ∧ buildBytes (.asn1 tag body k) = .err := by
  rw [builder_refines_ser] at h
  simp only [builder_refines_ser, ser, h, lpBytes, elementR, append_err_left _ (impl_build k).np, and_self]

example : buildBytes (.oid [3, 1] .done) = .err := by decide

/-- `AddValue(v)`: the Builder behaves as if `v.Marshal`'s calls had been made on it directly; a non-nil
    error returned by `Marshal` is latched (even though `Marshal`'s bytes were already appended, `Bytes()`
    returns the error). -/
theorem addValue_spec (body k : Prog) (fail : Bool) :
    buildBytes (.value body fail k) = if fail then .err else buildBytes (body.seq k) := by
  simp only [builder_refines_ser, ser, ser_seq]
  have hb := (impl_build body).np
  have hk := (impl_build k).np
  cases fail with
  | true =>
    simp only [if_true, append_err_right _ hb, append_err_left _ hk]
  | false =>
    simp only [Bool.false_eq_true, if_false]
    cases ser body <;> cases ser k <;> simp_all [Res.append]

/-- **length-prefix overflow, exact.**  `AddUintNLengthPrefixed` writes the block iff the child's bytes fit
    the `n`-byte prefix; then the block is the big-endian length followed by the child's bytes — otherwise
    `Bytes()` returns an error (never a panic, never a truncated length). -/
theorem lp_written_iff (n : Nat) (body : Prog) (c : Bytes) (hc : buildBytes body = .ok c) :
    (c.length < 256 ^ n → buildBytes (.lp n body .done) = .ok (beBytes n c.length ++ c)) ∧
    (256 ^ n ≤ c.length → buildBytes (.lp n body .done) = .err) := by
  rw [builder_refines_ser] at hc
  constructor
  · intro h
    have : ¬ c.length ≥ 256 ^ n := by omega
    simp [builder_refines_ser, ser, hc, lpBytes, this, Res.append]
  · intro h
    have : c.length ≥ 256 ^ n := h
    simp [builder_refines_ser, ser, hc, lpBytes, this, Res.append]

example : buildBytes (.raw [1, 2, 3] .done) = .ok [1, 2, 3] ∧ [1, 2, 3].length < 256 ^ 1 := by decide

/-- **ASN.1 overflow, as coded.**  A child of more than 0xfffffffe bytes ("pending ASN.1 child too long") and a
    tag in high-tag-number form are errors of `AddASN1`; every other child is written with the minimal DER
    length — in all three cases without a panic. -/
theorem asn1_overflow_is_error (tag : UInt8) (body k : Prog) (c : Bytes) (hc : buildBytes body = .ok c)
    (h : c.length > 0xfffffffe ∨ tag.toNat % 32 = 31) : buildBytes (.asn1 tag body k) = .err := by
  rw [builder_refines_ser] at hc
  have hk := (impl_build k).np
  have he : CB.element tag c = .err := by
    unfold CB.element CB.derLength
    rcases h with h | h
    · by_cases ht : tag.toNat % 32 = 31
      · simp [ht]
      · simp [ht, h]
    · simp [h]
  simp only [builder_refines_ser, ser, hc, elementR, he, append_err_left _ hk]

example : buildBytes (.asn1 0x1f (.uN 1 1 .done) .done) = .err ∧ (0x1f : UInt8).toNat % 32 = 31 := by decide

/-! ## Unwrite -/

/-- **Unwrite, SetError and blocks: the low-level Builder refines the block specification**, for every
    builder-only program (any nesting): `Unwrite(n)` removes the last `n` bytes written into the CURRENT block
    (flushed children included) and panics exactly when the block holds fewer than `n` bytes; a panic or an error
    inside a continuation reaches `Bytes()` of the outermost Builder; after an error `Unwrite` is a no-op. -/
theorem unwrite_refines_spec (p : BProg) : bbuildBytes p = bspec p [] := bbuildBytes_eq_bspec p

/-- `Unwrite(len b)` undoes `AddBytes(b)`, in any block, whatever was written before and whatever follows. -/
theorem unwrite_undoes_add (bs acc : Bytes) (k : BProg) :
    bspec (.add bs (.unwrite bs.length k)) acc = bspec k acc := by
  simp [bspec]

/-- "An attempt by a child builder passed to a continuation to unwrite bytes from its parent will panic":
    a child can unwrite neither its reserved length prefix nor the parent's bytes — `Unwrite(m)` with more
    than the block's own `c` bytes panics, whatever the parent (`pre`) wrote, for every prefix width and for
    ASN.1 children. -/
theorem child_cannot_unwrite_parent (pre c : Bytes) (n m : Nat) (tag : UInt8) (k k' : BProg)
    (hm : m > c.length) (htag : tag.toNat % 32 ≠ 31) :
    bbuildBytes (.add pre (.lp n (.add c (.unwrite m k')) k)) = .panic ∧
    bbuildBytes (.add pre (.asn1 tag (.add c (.unwrite m k')) k)) = .panic := by
  simp [unwrite_refines_spec, bspec, hm, htag]

example : bbuildBytes (.add [1, 2] (.lp 1 (.add [3] (.unwrite 2 .done)) .done)) = .panic ∧
    bbuildBytes (.add [1, 2] (.lp 1 (.add [3] (.unwrite 1 .done)) .done)) = .ok [1, 2, 0] := by decide

/-- after an error `Unwrite` does nothing — not even panic. -/
theorem unwrite_after_error (n : Nat) (k : BProg) (acc : Bytes) :
    bspec (.setErr (.unwrite n k)) acc = .err := rfl

/-! ## GeneralizedTime -/
open ZV.Time in
/-- **AddASN1GeneralizedTime → ReadASN1GeneralizedTime.**  For every time the Builder accepts (year 0..9999 in
    the zone of the value) whose zone offset passes `gtimeOK`, the reader accepts the written element in front
    of any tail, leaves exactly the tail, and returns `readBack t`: whole seconds, the zone offset truncated to
    whole minutes with the local clock reading kept. -/
theorem gtime_read_write (t : GoTime) (bs tail : Bytes) (h : Time.CB.addGeneralizedTime t = .ok bs)
    (hz : gtimeOK t = true) : Time.CB.readGeneralizedTime (bs ++ tail) = .ok (readBack t, tail) :=
  readGeneralizedTime_back t bs tail h hz

open ZV.Time in
/-- the documented case: a zone offset of whole minutes below 25 hours (UTC included) — the same instant, the
    same zone offset, to the second. -/
theorem gtime_whole_minutes (t : GoTime) (bs tail : Bytes) (h : Time.CB.addGeneralizedTime t = .ok bs)
    (hm : Int.tmod t.off 60 = 0) (h1 : -90000 < t.off) (h2 : t.off < 90000) :
    Time.CB.readGeneralizedTime (bs ++ tail) = .ok ({ unix := t.unix, off := t.off, nsec := 0 }, tail) := by
  have hz : gtimeOK t = true := by
    simp only [gtimeOK, decide_eq_true_eq]
    refine ⟨h1, h2, ?_⟩
    have := Int.mul_tdiv_add_tmod t.off 60
    omega
  rw [gtime_read_write t bs tail h hz, readBack_whole t hm]

example : Time.CB.addGeneralizedTime { unix := 1709231399, off := 19800, nsec := 7 } =
      .ok [0x18, 0x13, 0x32, 0x30, 0x32, 0x34, 0x30, 0x32, 0x32, 0x39, 0x32, 0x33, 0x35, 0x39, 0x35, 0x39, 0x2b, 0x30,
        0x35, 0x33, 0x30] ∧
    ZV.Time.gtimeOK { unix := 1709231399, off := 19800, nsec := 7 } = true ∧
    Int.tmod (19800 : Int) 60 = 0 := by decide +kernel

open ZV.Time in
/-- the Builder's year guard: it refuses every time whose year (in the zone of the value) is outside 0..9999,
    and — for the zone offsets of `gtimeOK` — writes every other time. -/
theorem gtime_year_guard (t : GoTime) :
    ((t.year < 0 ∨ t.year > 9999) → Time.CB.addGeneralizedTime t = .err) ∧
    (0 ≤ t.year → t.year ≤ 9999 → gtimeOK t = true → (Time.CB.addGeneralizedTime t).isOk = true) := by
  constructor
  · intro h; simp only [Time.CB.addGeneralizedTime, h, if_true]
  · intro h0 h1 hz
    simp only [gtimeOK, decide_eq_true_eq] at hz
    have hy : ¬ (t.year < 0 ∨ t.year > 9999) := by omega
    have hl := genText_length t
    simp only [Time.CB.addGeneralizedTime, hy, if_false, format_gen_eq t h0 h1 (by omega) (by omega) hz.2.2]
    have e : (EA.fourDigits t.year.toNat ++ (fieldsText t.civil ++ zoneText t.off)) = genText t := rfl
    rw [e]
    simp only [CB.element, show ¬ ((0x18 : UInt8).toNat % 32 = 31) by decide, if_false, CB.derLength]
    have e1 : ¬ ((genText t).length > 0xfffffffe) := by omega
    have e2 : ¬ ((genText t).length > 0xffffff) := by omega
    have e3 : ¬ ((genText t).length > 0xffff) := by omega
    have e4 : ¬ ((genText t).length > 0xff) := by omega
    have e5 : ¬ ((genText t).length > 0x7f) := by omega
    simp only [e1, e2, e3, e4, e5, if_false, Res.isOk]

example : (Time.CB.addGeneralizedTime { unix := -62167219201, off := 0 }) = .err ∧
    (Time.CB.addGeneralizedTime { unix := -62167219201, off := 3600 }).isOk = true ∧
    (Time.CB.addGeneralizedTime { unix := 253402300800, off := 0 }) = .err ∧
    (Time.CB.addGeneralizedTime { unix := 253402300800, off := -60 }).isOk = true := by decide +kernel

open ZV.Time in
/-- **finding F-C21-gtime-zone-seconds (1).**  A zone offset of 1..59 seconds, either sign: the Builder writes
    the zone as `+0000`, and `ReadASN1GeneralizedTime` REJECTS what `AddASN1GeneralizedTime` wrote (the parsed
    time re-serialises with `Z`). -/
theorem gtime_subminute_rejected (t : GoTime) (bs tail : Bytes) (h : Time.CB.addGeneralizedTime t = .ok bs)
    (h0 : t.off ≠ 0) (h1 : -60 < t.off) (h2 : t.off < 60) :
    Time.CB.readGeneralizedTime (bs ++ tail) = .err :=
  readGeneralizedTime_subminute t bs tail h h0 h1 h2

open ZV.Time in
/-- **the zone condition of `readable` is exact** (zone offsets below 100 hours): what `AddASN1GeneralizedTime`
    wrote is read back by `ReadASN1GeneralizedTime` iff `gtimeOK` — a zone of 25 hours or more is written with an
    hour field that the reader's `time.Parse` refuses, a zone of 1..59 seconds as `+0000`. -/
theorem gtime_read_back_iff (t : GoTime) (bs tail : Bytes) (h : Time.CB.addGeneralizedTime t = .ok bs)
    (h1 : -360000 < t.off) (h2 : t.off < 360000) :
    Time.CB.readGeneralizedTime (bs ++ tail) = .ok (readBack t, tail) ↔ gtimeOK t = true :=
  readGeneralizedTime_back_iff t bs tail h h1 h2

example : (Time.CB.addGeneralizedTime { unix := 0, off := 90000 }).isOk = true ∧
    ZV.Time.gtimeOK { unix := 0, off := 90000 } = false ∧ ZV.Time.gtimeOK { unix := 0, off := 89940 } = true := by
  decide +kernel

/-- replayed on the Go code by `c21 rw g:0@30 -` (Go and model: `1813…2b30303030 readfail`) -/
example : (match Time.CB.addGeneralizedTime { unix := 0, off := 30 } with
    | .ok bs => Time.CB.readGeneralizedTime bs
    | _ => .ok ({ unix := 0, off := 0 }, [])) = .err := by decide +kernel

/-- **finding F-C21-gtime-zone-seconds (2).**  A zone offset of a minute or more with seconds: the element is
    read back, as a DIFFERENT instant (here 30 seconds later) in the zone truncated to whole minutes.
    Replayed on the Go code by `c21 rw g:0@90 -`. -/
example : (match Time.CB.addGeneralizedTime { unix := 0, off := 90 } with
    | .ok bs => Time.CB.readGeneralizedTime bs
    | _ => .err) = .ok ({ unix := 30, off := 60 }, []) ∧
    ZV.Time.gtimeOK { unix := 0, off := 90 } = true ∧ ZV.Time.readBack { unix := 0, off := 90 } = { unix := 30, off := 60 } := by
  decide +kernel

end ZV.C21
