import ZV.Model.C17
import ZV.Generated.C17
import ZV.Proofs.C17
import ZV.Proofs.C17B
/-!
  C17 — the CT scanner hands every log entry of the scanned range to the matchers exactly once.

  What is proved here is about the MODEL (`ZV.Model.C17`): the partition loop of `Scan`, the retry loop of
  `fetcherJob` against a server that answers with errors or prefixes, and an interleaving model of `nf`
  fetchers and `nm` matchers in which every step is atomic and the schedule is an arbitrary list of worker
  ids.  Data-race freedom of the Go code (the assumption "each counter update is atomic") is NOT a theorem;
  it is explored by the race detector (see tools/props/C17.json).
-/
namespace ZV.C17

/-! ### 1. the range partition of `Scan` -/

/-- For every start, stop and batch size ≥ 1 the ranges built by `Scan`
    * concatenate (in order) to exactly `start, start+1, …, stop-1` — so they cover `[start, stop)`, are
      ordered and pairwise disjoint,
    * are non-empty, hold at most `batch` indices and lie inside `[start, stop)`,
    * are adjacent (each begins right after its predecessor ends). -/
theorem ranges_partition (start stop batch : Nat) (hb : 1 ≤ batch) :
    (ranges start stop batch).flatMap (fun r => List.range' r.1 (r.2 + 1 - r.1)) = List.range' start (stop - start)
    ∧ (∀ r ∈ ranges start stop batch, r.1 ≤ r.2 ∧ r.2 + 1 - r.1 ≤ batch ∧ start ≤ r.1 ∧ r.2 < stop)
    ∧ Adjacent start (ranges start stop batch) :=
  ⟨ranges_cover start stop batch hb, ranges_wf start stop batch, ranges_adjacent start stop batch⟩

example : ranges 2 9 3 = [(2, 4), (5, 7), (8, 8)] := by simp [ranges]

/-- corollary: every index of `[start, stop)` lies in exactly one range, every other index in none -/
theorem ranges_each_index_once (start stop batch a : Nat) (hb : 1 ≤ batch) :
    ((ranges start stop batch).flatMap (fun r => List.range' r.1 (r.2 + 1 - r.1))).count a
      = if start ≤ a ∧ a < stop then 1 else 0 := by
  rw [(ranges_partition start stop batch hb).1, List.count_range']
  by_cases h : start ≤ a ∧ a < stop
  · rw [if_pos h, if_pos ⟨a - start, by omega, by omega⟩]
  · rw [if_neg h, if_neg]
    rintro ⟨i, hi, rfl⟩
    omega

/-! ### 2. one fetcher, one range, any server script -/

/-- Whatever the server does for a range — any finite script of errors, empty answers and truncated answers
    (answers are prefixes of what was asked), followed by complete answers — the fetcher hands on exactly the
    indices `s, s+1, …, e`, each once and in order. -/
theorem fetcher_exactly_once (s e : Nat) (script : List Tok) (h : s ≤ e) :
    (fetchRange s e script).1 = List.range' s (e + 1 - s) :=
  fetchRange_emits e script s h

/-- … and it does so with at most one request per script token plus one, all of them inside the range and with
    the original `end` (it never asks beyond the range after a partial answer). -/
theorem fetcher_requests (s e : Nat) (script : List Tok) (h : s ≤ e) :
    (∀ q ∈ (fetchRange s e script).2, s ≤ q.1 ∧ q.1 ≤ e ∧ q.2 = e)
    ∧ (fetchRange s e script).2.length ≤ script.length + 1 :=
  fetchRange_requests e script s h

/-- The "finite script, then complete answers" shape loses no generality: for an ARBITRARY infinite server
    behaviour `β` (the j-th request for the range gets `β j`), as soon as its first `N` answers contain as many
    productive ones (non-error, non-empty) as the range has indices — which happens for some `N` whenever errors
    and empty answers are finitely many — the fetcher's run is determined by those `N` answers alone, whatever
    the server would answer afterwards; it hands on exactly `s..e` and sends at most `N+1` requests. -/
theorem fetcher_any_server (s e : Nat) (β : Nat → Tok) (N : Nat) (h : s ≤ e)
    (hprod : e + 1 - s ≤ productive ((List.range N).map β)) (tail : List Tok) :
    fetchRange s e ((List.range N).map β ++ tail) = fetchRange s e ((List.range N).map β)
    ∧ (fetchRange s e ((List.range N).map β ++ tail)).1 = List.range' s (e + 1 - s)
    ∧ (fetchRange s e ((List.range N).map β ++ tail)).2.length ≤ N + 1 := by
  have h1 := fetchRange_tail_irrelevant e ((List.range N).map β) tail s h hprod
  refine ⟨h1, ?_, ?_⟩
  · rw [h1]; exact fetchRange_emits e _ s h
  · rw [h1]
    have := (fetchRange_requests e ((List.range N).map β) s h).2
    simpa using this

example : (4 : Nat) + 1 - 2 ≤ productive ((List.range 6).map (fun j => if j % 2 = 0 then Tok.err else Tok.give 1)) := by
  decide

example : fetchRange 4 9 [.err, .give 2, .give 0, .err, .give 100] =
    ([4, 5, 6, 7, 8, 9], [(4, 9), (4, 9), (6, 9), (6, 9), (6, 9)]) := by decide

/-! ### 3. all interleavings of fetchers and matchers -/

/-- Safety, for EVERY schedule (finished or not): at any moment every index of `[start, stop)` is in exactly
    one place — a range nobody has taken yet, the current range of one fetcher, the `jobs` channel, or the
    processed multiset — and no other index is anywhere.  In particular no index is ever processed twice. -/
theorem interleaving_invariant (start stop batch nf nm : Nat) (scriptOf : Nat → List Tok) (hb : 1 ≤ batch)
    (sched : List Worker) (a : Nat) :
    occ a (run (init start stop batch nf nm scriptOf) sched) = if start ≤ a ∧ a < stop then 1 else 0 := by
  have h := (run_wf_occ sched _ (init_wf start stop batch nf nm scriptOf)).2 a
  rw [h, init_occ a start stop batch nf nm scriptOf hb, List.count_range']
  by_cases h : start ≤ a ∧ a < stop
  · rw [if_pos h, if_pos ⟨a - start, by omega, by omega⟩]
  · rw [if_neg h, if_neg]
    rintro ⟨i, hi, rfl⟩
    omega

theorem never_processed_twice (start stop batch nf nm : Nat) (scriptOf : Nat → List Tok) (hb : 1 ≤ batch)
    (sched : List Worker) (a : Nat) :
    (run (init start stop batch nf nm scriptOf) sched).processed.count a ≤ 1 := by
  have := interleaving_invariant start stop batch nf nm scriptOf hb sched a
  simp only [occ] at this
  split at this <;> omega

/-- `Scan`'s return value is `StartIndex` + the number of `processEntry` calls, in every reachable state. -/
theorem scan_return (start stop batch nf nm : Nat) (scriptOf : Nat → List Tok) (sched : List Worker) :
    scanReturn start (run (init start stop batch nf nm scriptOf) sched)
      = start + (run (init start stop batch nf nm scriptOf) sched).processed.length := by
  have := (run_wf_occ sched _ (init_wf start stop batch nf nm scriptOf)).1.cnt
  simp only [scanReturn, this]

/-- Exactly once: for every batch size ≥ 1, at least one fetcher and one matcher, every server script and
    EVERY schedule after which both wait groups are released (`finished`), the multiset of processed indices is
    exactly `[start, stop)` and `Scan` returns `stop` (= start + number processed). -/
theorem interleaving_exactly_once (start stop batch nf nm : Nat) (scriptOf : Nat → List Tok)
    (hb : 1 ≤ batch) (hle : start ≤ stop) (hnf : 1 ≤ nf) (hnm : 1 ≤ nm) (sched : List Worker)
    (hfin : finished (run (init start stop batch nf nm scriptOf) sched) = true) :
    (run (init start stop batch nf nm scriptOf) sched).processed.Perm (List.range' start (stop - start))
    ∧ scanReturn start (run (init start stop batch nf nm scriptOf) sched) = stop := by
  have hw := run_wf_occ sched _ (init_wf start stop batch nf nm scriptOf)
  have hl := run_lengths sched (init start stop batch nf nm scriptOf)
  have hcount : ∀ a, (run (init start stop batch nf nm scriptOf) sched).processed.count a
      = (List.range' start (stop - start)).count a := by
    intro a
    rw [← finished_occ a _ hw.1 hfin (by rw [hl.1]; simp [init]; omega) (by rw [hl.2]; simp [init]; omega),
      hw.2 a, init_occ a start stop batch nf nm scriptOf hb]
  have hperm := List.perm_iff_count.mpr hcount
  refine ⟨hperm, ?_⟩
  have hlen := hperm.length_eq
  simp only [List.length_range'] at hlen
  simp only [scanReturn, hw.1.cnt, hlen]
  omega

/-! ### 4. termination -/

/-- No deadlock: while `Scan` cannot return yet, some worker can move. -/
theorem no_deadlock (st : St) (h : finished st = false) : ∃ w ∈ workers st, enabled w st = true :=
  exists_enabled st h

/-- Every step taken by a worker that can move strictly decreases the measure `mu`; a worker that cannot move
    leaves the state unchanged. -/
theorem enabled_step_decreases (start stop batch nf nm : Nat) (scriptOf : Nat → List Tok) (sched : List Worker)
    (w : Worker) :
    let st := run (init start stop batch nf nm scriptOf) sched
    (enabled w st = true → mu (step w st) < mu st) ∧ (enabled w st = false → step w st = st) :=
  ⟨step_mu w _ (run_wf_occ sched _ (init_wf start stop batch nf nm scriptOf)).1, step_disabled w _⟩

/-- Termination: a schedule in which every step is taken by a worker that can move has at most `mu init`
    steps — there is no infinite execution, whatever the (finite-error) server scripts are. Together with
    `no_deadlock`: every maximal execution is finite and ends with `Scan` returning. -/
theorem terminates (start stop batch nf nm : Nat) (scriptOf : Nat → List Tok) (sched : List Worker)
    (h : AllEnabled (init start stop batch nf nm scriptOf) sched) :
    sched.length ≤ mu (init start stop batch nf nm scriptOf) := by
  have := allEnabled_length sched _ (init_wf start stop batch nf nm scriptOf) h
  omega

example : AllEnabled (init 0 3 2 1 1 (fun _ => [.err])) [.f 0, .f 0, .f 0, .f 0, .m 0] := by
  simp [AllEnabled, init, ranges, enabled, step, stepF, serve, allDone]

example : finished (init 0 3 2 1 1 (fun _ => [])) = false := by
  simp [finished, init, allDone]

/-- A fair schedule exists and works: `mu init` rounds of round-robin over all workers end in a finished state
    (this is also how the driver runs the model to completion, and it shows the hypothesis `finished` of
    `interleaving_exactly_once` is satisfiable for every configuration). -/
theorem round_robin_finishes (start stop batch nf nm : Nat) (scriptOf : Nat → List Tok) (pre : List Worker) :
    let st := run (init start stop batch nf nm scriptOf) pre
    finished (run (init start stop batch nf nm scriptOf)
      (pre ++ (List.replicate (mu st + 1) (workers st)).flatten)) = true := by
  intro st
  rw [run_append, ← roundRobin_eq_run]
  exact roundRobin_finishes _ st (run_wf_occ pre _ (init_wf start stop batch nf nm scriptOf)).1 (Nat.le_succ _)

example : ∃ sched, finished (run (init 2 9 3 2 3 (fun _ => [.err, .give 1])) sched) = true :=
  ⟨_, round_robin_finishes 2 9 3 2 3 _ [.m 0, .f 1, .f 1]⟩

/-! ### 5. `processEntry` (finite case analysis over entry kinds × options) -/

/-- X.509 entries only ever reach `foundCert`, precert entries only `foundPrecert`; `precertsSeen` counts exactly
    the precert entries that got past parsing; with `PrecertOnly` no X.509 entry produces a callback or a
    counter other than `certsProcessed`. -/
theorem processEntry_shape (o : Opts) (k : Kind) :
    ((processEntry o k).cb = .cert → k.isPre = false)
    ∧ ((processEntry o k).cb = .precert → k.isPre = true ∧ (processEntry o k).pre = 1)
    ∧ (k.isPre = false → (processEntry o k).pre = 0)
    ∧ (o.precertOnly = true → k.isPre = false → processEntry o k = ⟨.none, 0, 0, 0⟩)
    ∧ (processEntry o k).pre ≤ 1 ∧ (processEntry o k).unparsable ≤ 1 ∧ (processEntry o k).nonFatal ≤ 1 := by
  obtain ⟨po, ig, m⟩ := o
  cases po <;> cases ig <;> cases m <;> cases k <;> decide

/-! ### 6. one `Scanner` value, several `Scan` calls

The counters are fields of the `Scanner` value; `Scan` returns `StartIndex + s.certsProcessed`.  What the prologue
of `Scan` has to establish for all the theorems above to hold for EVERY scan of a sequence on one value — not only
for the first, which finds the zero-initialised fields of `NewScanner` — is `certsProcessed = 0` (and likewise for
the other three counters, which only feed the statistics): -/

/-- After the prologue the scan starts in exactly the state in which the scan of a fresh `Scanner` starts,
    whatever earlier scans have left in the object. -/
theorem initOn_reset (ob : Obj) (start stop batch nf nm : Nat) (scriptOf : Nat → List Tok) :
    initOn (resetCounters ob) start stop batch nf nm scriptOf = init start stop batch nf nm scriptOf := rfl

/-- Hence every scan of a sequence on one value IS the scan of a fresh `Scanner` with the same parameters: all of
    `interleaving_invariant`, `interleaving_exactly_once`, `scan_return`, `terminates`, … apply to it unchanged. -/
theorem scanSeq_eq_fresh (ob : Obj) (cs : List ScanCfg) :
    scanSeq ob cs = cs.map (fun c => (scanReturn c.start (scanFresh c), scanFresh c)) := by
  induction cs generalizing ob with
  | nil => rfl
  | cons c cs ih => simp only [scanSeq, List.map_cons, ih]; rfl

/-- `scan_return` for every scan of a sequence: each returns ITS OWN start index plus the number of entries IT
    processed, for every content of the object before the first scan, all schedules and all server scripts. -/
theorem scanSeq_return (ob : Obj) (cs : List ScanCfg) :
    (scanSeq ob cs).map (fun p => p.1) = cs.map (fun c => c.start + (scanFresh c).processed.length) := by
  rw [scanSeq_eq_fresh, List.map_map]
  apply List.map_congr_left
  intro c _
  exact scan_return c.start c.stop c.batch c.nf c.nm c.scriptOf c.sched

/-- exactly-once for every scan of a sequence -/
theorem scanSeq_exactly_once (ob : Obj) (cs : List ScanCfg)
    (h : ∀ c ∈ cs, 1 ≤ c.batch ∧ c.start ≤ c.stop ∧ 1 ≤ c.nf ∧ 1 ≤ c.nm ∧ finished (scanFresh c) = true) :
    ∀ p ∈ scanSeq ob cs, ∃ c ∈ cs, p.2 = scanFresh c ∧ p.1 = c.stop
      ∧ p.2.processed.Perm (List.range' c.start (c.stop - c.start)) := by
  rw [scanSeq_eq_fresh]
  intro p hp
  obtain ⟨c, hc, rfl⟩ := List.mem_map.mp hp
  obtain ⟨hb, hle, hnf, hnm, hfin⟩ := h c hc
  have := interleaving_exactly_once c.start c.stop c.batch c.nf c.nm c.scriptOf hb hle hnf hnm c.sched hfin
  exact ⟨c, hc, rfl, this.2, this.1⟩

example : ∃ c : ScanCfg, 1 ≤ c.batch ∧ c.start ≤ c.stop ∧ 1 ≤ c.nf ∧ 1 ≤ c.nm ∧ finished (scanFresh c) = true :=
  ⟨⟨0, 1, 1, 1, 1, fun _ => [], [.f 0, .f 0, .f 0, .f 0, .f 0, .m 0, .m 0]⟩, by
    simp [scanFresh, finished, run, init, ranges, step, stepF, stepM, serve, allDone]⟩

/-- The reset is NECESSARY: the workers only ever add to the counter, so a scan that starts with a leftover
    `certsProcessed = ob.certs` (prologue missing) processes exactly the same entries but returns
    `start + ob.certs + processed` — the sum over all scans so far instead of its own count. -/
theorem scan_return_leftover (ob : Obj) (start stop batch nf nm : Nat) (scriptOf : Nat → List Tok)
    (sched : List Worker) :
    (run (initOn ob start stop batch nf nm scriptOf) sched).processed
        = (run (init start stop batch nf nm scriptOf) sched).processed
      ∧ scanReturn start (run (initOn ob start stop batch nf nm scriptOf) sched)
        = start + ob.certs + (run (init start stop batch nf nm scriptOf) sched).processed.length := by
  have hi : initOn ob start stop batch nf nm scriptOf = addC ob.certs (init start stop batch nf nm scriptOf) := by
    simp [initOn, addC, init]
  have hr := scan_return start stop batch nf nm scriptOf sched
  rw [hi, run_addC]
  constructor
  · rfl
  · simp only [scanReturn, addC] at hr ⊢
    omega

/-- … so `Scan` returns "start index plus the number of entries processed" exactly when the counter it starts
    from is 0: this is what `resetCounters` has to (and does) establish. -/
theorem scan_return_iff_reset (ob : Obj) (start stop batch nf nm : Nat) (scriptOf : Nat → List Tok)
    (sched : List Worker) :
    scanReturn start (run (initOn ob start stop batch nf nm scriptOf) sched)
        = start + (run (initOn ob start stop batch nf nm scriptOf) sched).processed.length
      ↔ ob.certs = 0 := by
  have h := scan_return_leftover ob start stop batch nf nm scriptOf sched
  rw [h.1, h.2]
  omega

example : scanReturn 5 (run (initOn ⟨32, 0, 0, 0⟩ 5 7 1 1 1 (fun _ => [])) [.f 0, .f 0, .f 0, .m 0]) = 5 + 32 + 1 := by
  simp [scanReturn, initOn, init, ranges, run, step, stepF, stepM, serve]

/-! ### 7. bounded channels and the main goroutine of `Scan` as a thread

`binit capF capJ …` is the state after `Scan` has started its workers; the main goroutine then feeds the `fetches`
channel (capacity `capF`), closes it, waits for the fetchers, closes `jobs` (capacity `capJ`), waits for the
matchers and returns.  Sends block on a full channel, receives on an empty open one.  Everything below holds for
ALL capacities, worker counts, server scripts and schedules (lists of thread ids, main goroutine included). -/

/-- Refinement: every run of the bounded model is a run of the unbounded one (`babs` forgets the split of the
    untaken ranges into "still in the list" and "in the channel") — for all capacities, even 0. Hence every
    safety theorem of section 3 carries over. -/
theorem bounded_refines_unbounded (capF capJ start stop batch nf nm : Nat) (scriptOf : Nat → List Tok)
    (ws : List BWorker) :
    ∃ sched : List Worker, sched.length ≤ ws.length ∧
      babs (brun (binit capF capJ start stop batch nf nm scriptOf) ws)
        = run (init start stop batch nf nm scriptOf) sched := by
  have := brun_refines ws _ (binit_inv capF capJ start stop batch nf nm scriptOf)
  rw [babs_binit] at this
  exact this

/-- … in particular: at every moment of every bounded run every index of `[start, stop)` is in exactly one place
    and none is ever processed twice. -/
theorem bounded_invariant (capF capJ start stop batch nf nm : Nat) (scriptOf : Nat → List Tok) (hb : 1 ≤ batch)
    (ws : List BWorker) (a : Nat) :
    occ a (babs (brun (binit capF capJ start stop batch nf nm scriptOf) ws))
        = (if start ≤ a ∧ a < stop then 1 else 0)
    ∧ (brun (binit capF capJ start stop batch nf nm scriptOf) ws).st.processed.count a ≤ 1 := by
  obtain ⟨sched, _, h⟩ := bounded_refines_unbounded capF capJ start stop batch nf nm scriptOf ws
  have h2 := never_processed_twice start stop batch nf nm scriptOf hb sched a
  rw [← h] at h2
  rw [h]
  exact ⟨interleaving_invariant start stop batch nf nm scriptOf hb sched a, h2⟩

/-- Exactly once and the return value, bounded: when `Scan` has returned (the main goroutine is past
    `matcherWG.Wait()`), the processed multiset is exactly `[start, stop)` and the return value is `stop`. -/
theorem bounded_exactly_once (capF capJ start stop batch nf nm : Nat) (scriptOf : Nat → List Tok)
    (hb : 1 ≤ batch) (hle : start ≤ stop) (hnf : 1 ≤ nf) (hnm : 1 ≤ nm) (ws : List BWorker)
    (hfin : bfinished (brun (binit capF capJ start stop batch nf nm scriptOf) ws) = true) :
    (brun (binit capF capJ start stop batch nf nm scriptOf) ws).st.processed.Perm (List.range' start (stop - start))
    ∧ scanReturn start (brun (binit capF capJ start stop batch nf nm scriptOf) ws).st = stop := by
  have inv := brun_inv ws _ (binit_inv capF capJ start stop batch nf nm scriptOf)
  obtain ⟨sched, _, h⟩ := bounded_refines_unbounded capF capJ start stop batch nf nm scriptOf ws
  have hpc : (brun (binit capF capJ start stop batch nf nm scriptOf) ws).pc = .ret := by
    simpa [bfinished] using hfin
  have hf : finished (babs (brun (binit capF capJ start stop batch nf nm scriptOf) ws)) = true := by
    simp only [finished, Bool.and_eq_true]
    exact ⟨inv.fd (Or.inr hpc), inv.md hpc⟩
  rw [h] at hf
  have := interleaving_exactly_once start stop batch nf nm scriptOf hb hle hnf hnm sched hf
  rw [← h] at this
  exact this

/-- No reachable state is a deadlock: for all capacities ≥ 1, at least one fetcher and one matcher, every server
    script and every schedule, as long as `Scan` has not returned some thread (main goroutine, a fetcher or a
    matcher) can move — in particular a producer blocked on a full channel always has a consumer that can run. -/
theorem bounded_no_deadlock (capF capJ start stop batch nf nm : Nat) (scriptOf : Nat → List Tok)
    (hF : 1 ≤ capF) (hJ : 1 ≤ capJ) (hnf : 1 ≤ nf) (hnm : 1 ≤ nm) (ws : List BWorker)
    (h : bfinished (brun (binit capF capJ start stop batch nf nm scriptOf) ws) = false) :
    ∃ w ∈ bworkers (brun (binit capF capJ start stop batch nf nm scriptOf) ws),
      benabled w (brun (binit capF capJ start stop batch nf nm scriptOf) ws) = true := by
  have inv := brun_inv ws _ (binit_inv capF capJ start stop batch nf nm scriptOf)
  have hp := brun_params ws _ (binit_inv capF capJ start stop batch nf nm scriptOf)
  refine b_exists_enabled _ inv (by rw [hp.1]; exact hF) (by rw [hp.2.1]; exact hJ) ?_ ?_ h
  · rw [hp.2.2.1]; simp [binit, binitOn]; omega
  · rw [hp.2.2.2]; simp [binit, binitOn]; omega

example : bfinished (brun (binit 1 1 0 3 1 1 1 (fun _ => [])) [.main, .f 0]) = false := by
  simp [bfinished, brun, bstep, bstepMain, bstepF, binit, binitOn, ranges, stepF, Obj.new]

/-- Termination under fairness: every step taken by a thread that can move strictly decreases the measure `bmu`
    (remaining work: unserved script tokens and entries, entries in flight, threads not yet returned, ranges not
    yet sent); a thread that cannot move (blocked or returned) leaves the state unchanged. -/
theorem bounded_step_decreases (capF capJ start stop batch nf nm : Nat) (scriptOf : Nat → List Tok)
    (ws : List BWorker) (w : BWorker) :
    let b := brun (binit capF capJ start stop batch nf nm scriptOf) ws
    (benabled w b = true → bmu (bstep w b) < bmu b) ∧ (benabled w b = false → bstep w b = b) :=
  ⟨bstep_mu w _ (brun_inv ws _ (binit_inv capF capJ start stop batch nf nm scriptOf)), bstep_disabled w _⟩

/-- … so an execution in which every step is a real step has at most `bmu binit` steps. -/
theorem bounded_terminates (capF capJ start stop batch nf nm : Nat) (scriptOf : Nat → List Tok)
    (ws : List BWorker) (h : BAllEnabled (binit capF capJ start stop batch nf nm scriptOf) ws) :
    ws.length ≤ bmu (binit capF capJ start stop batch nf nm scriptOf) := by
  have := ballEnabled_length ws _ (binit_inv capF capJ start stop batch nf nm scriptOf) h
  omega

example : BAllEnabled (binit 1 1 0 3 1 1 1 (fun _ => [])) [.main, .f 0] := by
  simp [BAllEnabled, benabled, bstep, bstepMain, binit, binitOn, ranges, Obj.new]

/-- A fair schedule finishes: after any prefix, `bmu + 1` rounds of round-robin over all threads end with `Scan`
    returned (this is how the driver runs the bounded model; the hypothesis of `bounded_exactly_once` is
    satisfiable for every configuration with capacities, fetchers, matchers ≥ 1). -/
theorem bounded_round_robin_finishes (capF capJ start stop batch nf nm : Nat) (scriptOf : Nat → List Tok)
    (hF : 1 ≤ capF) (hJ : 1 ≤ capJ) (hnf : 1 ≤ nf) (hnm : 1 ≤ nm) (pre : List BWorker) :
    let b := brun (binit capF capJ start stop batch nf nm scriptOf) pre
    bfinished (broundRobin b (bmu b + 1)) = true := by
  intro b
  have inv := brun_inv pre _ (binit_inv capF capJ start stop batch nf nm scriptOf)
  have hp := brun_params pre _ (binit_inv capF capJ start stop batch nf nm scriptOf)
  refine broundRobin_finishes _ b inv (by rw [hp.1]; exact hF) (by rw [hp.2.1]; exact hJ) ?_ ?_ (Nat.le_succ _)
  · rw [hp.2.2.1]; simp [binit, binitOn]; omega
  · rw [hp.2.2.2]; simp [binit, binitOn]; omega

/-- The hypothesis "a matcher is running" of `bounded_no_deadlock` is necessary — this is the stall of a `Scan`
    whose matchers are started only after `fetcherWG.Wait()`: with no matcher running, capacity 1 and 3 entries
    the fetcher blocks on the full `jobs` channel and the main goroutine in `fetcherWG.Wait()`, for ever. -/
def stallState : BSt :=
  brun ⟨1, 1, [⟨0, 0, []⟩, ⟨1, 1, []⟩, ⟨2, 2, []⟩], .feed, ⟨[], [.idle], [], [], [], 0, []⟩⟩
    [.main, .f 0, .f 0, .f 0, .f 0, .main, .f 0, .f 0, .f 0, .main, .main]

theorem deadlock_when_no_matcher_runs :
    bfinished stallState = false ∧ (bworkers stallState).all (fun w => !benabled w stallState) = true := by
  decide

example : binit 1 1 0 3 1 1 0 (fun _ => [])
    = ⟨1, 1, [⟨0, 0, []⟩, ⟨1, 1, []⟩, ⟨2, 2, []⟩], .feed, ⟨[], [.idle], [], [], [], 0, []⟩⟩ := by
  simp [binit, binitOn, ranges, Obj.new]

/-! ### 8. facts extracted from the source of `Scan` (T1, `ZV.C17.Gen`, regenerated on every run) -/

/-- statement of `Scan` (as printed by the extractor) ↦ operation of the model's main goroutine -/
def MainOp.ofStmt (s : String) : Option MainOp :=
  if s = "reset certsProcessed" ∨ s = "reset precertsSeen" ∨ s = "reset unparsableEntries"
      ∨ s = "reset entriesWithNonFatalErrors" then some .resetCounter
  else if s = "make fetches" then some .makeFetches
  else if s = "make jobs" then some .makeJobs
  else if s = "go ticker" then some .goTicker
  else if s = "loop go matcherJob" then some .startMatchers
  else if s = "loop go fetcherJob" then some .startFetchers
  else if s = "loop send fetches" then some .feed
  else if s = "close fetches" then some .closeFetches
  else if s = "wait fetcherWG" then some .waitFetchers
  else if s = "close jobs" then some .closeJobs
  else if s = "wait matcherWG" then some .waitMatchers
  else if s = "stop ticker" then some .stopTicker
  else if s = "return" then some .ret
  else none

/-- The synchronisation statements of the real `Scan`, in source order, are exactly the program of the model's
    main goroutine (`mainProgram`: reset ×4, make ×2, ticker, start matchers, start fetchers, feed, close(fetches),
    fetcherWG.Wait, close(jobs), matcherWG.Wait, ticker.Stop, return), and there is no other synchronisation
    statement besides the two `WaitGroup.Add` calls next to the `go` statements. -/
theorem scan_order_is_model_order :
    Gen.scanOrder.filterMap MainOp.ofStmt = mainProgram
    ∧ Gen.scanOrder.all (fun s => (MainOp.ofStmt s).isSome || s == "loop add matcherWG" || s == "loop add fetcherWG")
        = true := by decide

/-- Both kinds of consumers are started BEFORE the first statement at which the main goroutine can block (the
    first `fetches <- r`, a `Wait`): whenever the producer blocks on a full channel, the consumers of
    `bounded_no_deadlock` are already running. -/
theorem consumers_started_before_producer_blocks :
    (((Gen.scanOrder.filterMap MainOp.ofStmt).takeWhile
        (fun o => !(o == .feed || o == .waitFetchers || o == .waitMatchers))).contains .startMatchers
    && ((Gen.scanOrder.filterMap MainOp.ofStmt).takeWhile
        (fun o => !(o == .feed || o == .waitFetchers || o == .waitMatchers))).contains .startFetchers) = true := by
  decide

/-- the channel capacities in the source satisfy the hypotheses of `bounded_no_deadlock` -/
theorem scan_capacities : 1 ≤ Gen.fetchesCap ∧ 1 ≤ Gen.jobsCap := by decide

/-- `bounded_no_deadlock` at the capacities written in the source -/
theorem scan_source_no_deadlock (start stop batch nf nm : Nat) (scriptOf : Nat → List Tok)
    (hnf : 1 ≤ nf) (hnm : 1 ≤ nm) (ws : List BWorker)
    (h : bfinished (brun (binit Gen.fetchesCap Gen.jobsCap start stop batch nf nm scriptOf) ws) = false) :
    ∃ w ∈ bworkers (brun (binit Gen.fetchesCap Gen.jobsCap start stop batch nf nm scriptOf) ws),
      benabled w (brun (binit Gen.fetchesCap Gen.jobsCap start stop batch nf nm scriptOf) ws) = true :=
  bounded_no_deadlock _ _ start stop batch nf nm scriptOf scan_capacities.1 scan_capacities.2 hnf hnm ws h

/-- Every syntactic access to one of the four counter fields in scanner.go goes through `sync/atomic`, except the
    plain READS in `Scan` after the last `Wait()` (final log lines and the return value, which happen after every
    worker has been joined; the only goroutine still alive, the ticker, only loads atomically). -/
theorem counter_accesses_atomic :
    Gen.counterAccesses.all (fun a => a.2.2.2.1 || (a.1 == "Scan" && a.2.2.1 == "read" && a.2.2.2.2)) = true := by
  decide

/-- the workers only ever ADD to the counters (the premise of `scan_return_leftover`), and `Scan` begins by
    resetting all four with atomic stores -/
theorem counters_workers_add_scan_resets :
    (Gen.counterAccesses.filter (fun a => !(a.1 == "Scan" || a.1 == "Scan.func"))).all
        (fun a => a.2.2.1 == "atomic.AddInt64") = true
    ∧ Gen.scanOrder.take 4 = ["reset certsProcessed", "reset precertsSeen", "reset unparsableEntries",
        "reset entriesWithNonFatalErrors"] := by decide

end ZV.C17
