import ZV.Model.C24
import ZV.Proofs.C24
/-!
  C24 — TLS endpoints negotiate correctly (version, suite, ALPN, downgrade sentinel).

  The tables (`Gen.*`) are regenerated from tls/common.go and tls/cipher_suites.go on every run, so the
  `decide` theorems below are re-checked against the code's current rows; the others hold for every
  configuration.  The liveness half ("a handshake is possible iff the model says so") is what the
  correspondence stream `c24 neg` establishes with real handshakes; it is not a theorem.
-/
namespace ZV.C24
open Gen

/-! ### version selection -/

/-- the library's version table is strictly descending (highest first) -/
theorem supportedVersions_desc : supportedVersions.Pairwise (· > ·) := by decide

/-- and contains exactly TLS 1.0 – 1.3 -/
theorem supportedVersions_are : supportedVersions = [VersionTLS13, VersionTLS12, VersionTLS11, VersionTLS10] := by decide

/-- **highest shared version**: whatever the four bounds, the version the server selects from the
    client's list is supported by both and no higher version is shared -/
theorem version_is_max_shared (cmin cmax smin smax v : Nat)
    (h : mutualVersion (configVersions supportedVersions smin smax) (configVersions supportedVersions cmin cmax) = some v) :
    v ∈ configVersions supportedVersions cmin cmax ∧ v ∈ configVersions supportedVersions smin smax ∧
    ∀ w, w ∈ configVersions supportedVersions cmin cmax → w ∈ configVersions supportedVersions smin smax → w ≤ v := by
  unfold mutualVersion at h
  have hmem := List.mem_of_find?_eq_some h
  have hp := List.find?_some h
  refine ⟨hmem, by simpa using hp, ?_⟩
  intro w hwc hws
  exact find?_desc_max (pairwise_filter_gt _ supportedVersions_desc) h w hwc (by simpa using hws)

/-- no version is selected exactly when none is shared -/
theorem version_none_iff (cmin cmax smin smax : Nat) :
    mutualVersion (configVersions supportedVersions smin smax) (configVersions supportedVersions cmin cmax) = none ↔
    ∀ w, w ∈ configVersions supportedVersions cmin cmax → w ∉ configVersions supportedVersions smin smax := by
  unfold mutualVersion
  rw [List.find?_eq_none]
  simp

/-! ### suite selection -/

/-- `selectCipherSuite` returns the FIRST id of the preference list that is implemented, passes the
    usability filter and is in the other side's list — "a suite both enabled, chosen by the documented
    preference rule" -/
theorem select_first_qualifying (ids sup : List Nat) (ok : SuiteRow → Bool) (r : SuiteRow)
    (h : selectCipherSuite ids sup ok = some r) :
    ∃ pre post, ids = pre ++ r.id :: post ∧ lookup implemented r.id = some r ∧ ok r = true ∧ sup.contains r.id = true ∧
      ∀ x ∈ pre, ∀ rx, lookup implemented x = some rx → (ok rx && sup.contains x) = false := by
  induction ids with
  | nil => simp [selectCipherSuite] at h
  | cons id rest ih =>
    simp only [selectCipherSuite] at h
    cases hl : lookup implemented id with
    | none =>
      simp only [hl] at h
      obtain ⟨pre, post, he, h1, h2, h3, h4⟩ := ih h
      refine ⟨id :: pre, post, by simp [he], h1, h2, h3, ?_⟩
      intro x hx rx hrx
      rcases List.mem_cons.mp hx with rfl | hx'
      · rw [hl] at hrx; exact absurd hrx (by simp)
      · exact h4 x hx' rx hrx
    | some row =>
      simp only [hl] at h
      by_cases hq : (ok row && sup.contains id) = true
      · simp only [hq, if_true, Option.some.injEq] at h
        subst h
        have hid : row.id = id := by
          have := List.find?_some hl
          simpa using this
        simp only [Bool.and_eq_true] at hq
        refine ⟨[], rest, by simp [hid], by rw [hid]; exact hl, hq.1, by rw [hid]; exact hq.2, by simp⟩
      · have hq' : (ok row && sup.contains id) = false := by simpa using hq
        simp only [hq', Bool.false_eq_true, if_false] at h
        obtain ⟨pre, post, he, h1, h2, h3, h4⟩ := ih h
        refine ⟨id :: pre, post, by simp [he], h1, h2, h3, ?_⟩
        intro x hx rx hrx
        rcases List.mem_cons.mp hx with rfl | hx'
        · rw [hl] at hrx
          simp only [Option.some.injEq] at hrx
          subst hrx; exact hq'
        · exact h4 x hx' rx hrx

/-- what "usable with the server's key" means for a key-exchange kind -/
def kaFitsKey (ka : String) (key : KeyType) (ecdheOk : Bool) : Bool :=
  match key with
  | .rsa => ka == "rsa" || ka == "dhe-rsa" || (ka == "ecdhe-rsa" && ecdheOk)
  | .ecdsa => ka == "ecdhe-ecdsa" && ecdheOk
  | .ed25519 => ka == "ecdhe-ecdsa" && ecdheOk

/-- **a selected suite is usable with the server's key** — for every row of the code's current
    `implementedCipherSuites` table, every key type, every negotiated version: if the server-side filter
    `cipherSuiteOk` lets the suite through, its key exchange fits the key (in particular no DSS suite,
    D17) and TLS 1.2-only suites are not chosen below TLS 1.2. -/
theorem suite_usable_with_key :
    ∀ r ∈ implemented, lookup implemented r.id = some r →
      ∀ key ∈ [KeyType.rsa, .ecdsa, .ed25519], ∀ v ∈ supportedVersions, ∀ e ∈ [true, false],
      cipherSuiteOk (facts v key e) r = true →
        kaFitsKey r.ka key e = true ∧ (hasFlag r.flags flagTLS12 = true → v ≥ VersionTLS12) := by
  decide

/-- and conversely every implemented suite whose key exchange fits the key is let through (so the
    liveness clause is not lost): non-export rows of the table -/
theorem usable_suite_is_ok :
    ∀ r ∈ implemented, lookup implemented r.id = some r →
      ∀ key ∈ [KeyType.rsa, .ecdsa, .ed25519], ∀ v ∈ supportedVersions, ∀ e ∈ [true, false],
      kaFitsKey r.ka key e = true → (hasFlag r.flags flagTLS12 = true → v ≥ VersionTLS12) →
        cipherSuiteOk (facts v key e) r = true := by
  decide

/-- the flag bits of every EFFECTIVE row (the first row with its id: the one `cipherSuiteByID` finds) agree
    with its key-exchange constructor -/
theorem table_flags_consistent :
    ∀ r ∈ implemented, lookup implemented r.id = some r →
      (hasFlag r.flags flagECDHE = (r.ka == "ecdhe-rsa" || r.ka == "ecdhe-ecdsa")) ∧
      (hasFlag r.flags flagECSign = (r.ka == "ecdhe-ecdsa")) ∧
      (hasFlag r.flags flagDSS = (r.ka == "dhe-dss")) := by
  decide

/-- every suite a client advertises without `ForceSuites` is implemented, with the same row -/
theorem advertised_are_implemented : ∀ r ∈ cipherSuites, lookup implemented r.id = some r := by decide

/-- the default lists only name implemented suites / TLS 1.3 suites -/
theorem defaults_known :
    (∀ id ∈ defaultCipherSuites, (lookup cipherSuites id).isSome = true) ∧
    (∀ id ∈ defaultCipherSuitesTLS13, isTLS13Suite id = true) ∧
    (∀ id ∈ cipherSuitesTLS13, id ∈ defaultCipherSuitesTLS13) := by decide

/-- `deprioritizeAES` only reorders -/
theorem deprio_perm (l r : List Nat) (h : deprio l = some r) : r.Perm l := by
  unfold deprio at h
  split at h
  · simp only [Option.some.injEq] at h
    subst h
    have := insertionSortRev_perm [] l
    simp only [List.append_nil] at this
    exact (List.reverse_perm _).trans (this.trans (List.reverse_perm _))
  · simp at h

/-! ### ALPN -/
theorem alpn_rule (protos pref : List Nat) (p : Nat) (h : mutualProtocol protos pref = some p) :
    p ∈ protos ∧ ∃ pre post, pref = pre ++ p :: post ∧ ∀ x ∈ pre, x ∉ protos := by
  unfold mutualProtocol at h
  obtain ⟨pre, post, hl, hv, hpre⟩ := find?_first h
  refine ⟨by simpa using hv, pre, post, hl, ?_⟩
  intro x hx
  have := hpre x hx
  simpa using this

/-! ### downgrade sentinel -/
theorem canary_iff (srvMax v : Nat) :
    serverCanary srvMax v ≠ .none ↔ (srvMax ≥ VersionTLS12 ∧ v < srvMax) := by
  unfold serverCanary
  by_cases h1 : srvMax ≥ VersionTLS12 <;> by_cases h2 : v < srvMax <;> simp [h1, h2] <;> split <;> simp

theorem canary_kind (srvMax v : Nat) (h : serverCanary srvMax v ≠ .none) :
    serverCanary srvMax v = (if v = VersionTLS12 then .c12 else .c11) := by
  unfold serverCanary at *
  split at h
  · split <;> simp_all
  · simp at h

/-- "a client supporting the higher version aborts": for all versions of the table, when the server
    could have gone higher (so the sentinel is present) and the client's maximum (TLS 1.2 or 1.3) is
    above the negotiated version, the client's check fires. -/
theorem client_aborts_on_canary :
    ∀ cliMax ∈ supportedVersions, ∀ srvMax ∈ supportedVersions, ∀ v ∈ supportedVersions,
      cliMax ≥ VersionTLS12 → v < cliMax → v < srvMax → srvMax ≥ VersionTLS12 →
        clientAborts cliMax v (serverCanary srvMax v) = true := by
  decide

/-- and never without a sentinel -/
theorem client_no_abort_without_canary (cliMax v : Nat) : clientAborts cliMax v .none = false := by
  simp [clientAborts]

/-! ### the assembled negotiation: a completed handshake has the highest shared version -/
theorem negotiate_version (c : Client) (s : Server) (o : Outcome) (h : negotiate c s = .done o) :
    o.vers ∈ configVersions supportedVersions c.minV c.maxV ∧ o.vers ∈ configVersions supportedVersions s.minV s.maxV ∧
    ∀ w, w ∈ configVersions supportedVersions c.minV c.maxV → w ∈ configVersions supportedVersions s.minV s.maxV → w ≤ o.vers := by
  unfold negotiate at h
  simp only at h
  split at h
  · simp at h
  · split at h
    · simp at h
    · rename_i v hv
      have hmax := version_is_max_shared c.minV c.maxV s.minV s.maxV v hv
      have : o.vers = v := by
        repeat' split at h
        all_goals first | (simp at h; done) | (simp only [Result.done.injEq] at h; rw [← h])
      rw [this]; exact hmax

/-! ### resumption across configuration changes

  `connect` is `negotiate` with the resumption decision of `loadSession` / `checkForResumption` in place; the client's
  cache content and BOTH configurations are arbitrary (in particular: changed since the session was established). -/

/-- the client presents a session only if its CURRENT configuration has the cache, still supports the session's
    version and still offers its suite (TLS 1.3: some suite with the same hash) -/
theorem loadSession_some (cv offer : List Nat) (u : Bool) (cache : Option Sess) (se : Sess)
    (h : loadSession cv offer u cache = some se) :
    u = true ∧ cache = some se ∧ se.vers ∈ cv ∧
    (se.vers ≠ VersionTLS13 → se.suite ∈ offer) ∧
    (se.vers = VersionTLS13 → ∃ id ∈ offer, isTLS13Suite id = true ∧ sameHash id se.suite = true) := by
  unfold loadSession at h
  cases u with
  | false => simp at h
  | true =>
    cases cache with
    | none => simp at h
    | some s0 =>
      simp only [Bool.not_true, Bool.false_eq_true, if_false] at h
      split at h
      · simp at h
      · rename_i hv
        have hv' : s0.vers ∈ cv := by simpa using hv
        split at h
        · rename_i hne
          have hne' : s0.vers ≠ VersionTLS13 := by simpa using hne
          split at h
          · rename_i hc
            simp only [Option.some.injEq] at h
            subst h
            simp only [Bool.and_eq_true] at hc
            exact ⟨rfl, rfl, hv', fun _ => by simpa using hc.1, fun he => absurd he hne'⟩
          · simp at h
        · rename_i h13
          have h13' : s0.vers = VersionTLS13 := by simpa using h13
          split at h
          · simp at h
          · split at h
            · rename_i hany
              simp only [Option.some.injEq] at h
              subst h
              refine ⟨rfl, rfl, hv', fun hne => absurd h13' hne, fun _ => ?_⟩
              rw [List.any_eq_true] at hany
              obtain ⟨id, hid, hp⟩ := hany
              simp only [Bool.and_eq_true] at hp
              exact ⟨id, hid, hp.1, hp.2⟩
            · simp at h

/-- **TLS ≤ 1.2 server**: a ticket is resumed only when it opens under a key the server lists NOW, for the version
    negotiated NOW, with a suite the client offers NOW and the server's CURRENT configuration enables and can use with
    its CURRENT key (seeded defect: the second list was the client's) -/
theorem checkResume12_sound (v : Nat) (offer : List Nat) (srv : Option (List Nat)) (f : Facts)
    (tk : Option (List Nat)) (p : Option Sess) (r : SuiteRow) (old : Bool)
    (h : checkResume12 v offer srv f tk p = some (r, old)) :
    ∃ se ks, p = some se ∧ tk = some ks ∧ se.key ∈ ks ∧ se.vers = v ∧ v ≠ VersionTLS13 ∧ r.id = se.suite ∧
      se.suite ∈ offer ∧ se.suite ∈ srv.getD defaultCipherSuites ∧
      lookup implemented se.suite = some r ∧ cipherSuiteOk f r = true ∧ old = (ks.head? != some se.key) := by
  unfold checkResume12 at h
  split at h
  · rename_i ks se
    split at h
    · simp at h
    · rename_i h13
      split at h
      · simp at h
      · rename_i hk
        split at h
        · simp at h
        · rename_i hv
          split at h
          · simp at h
          · rename_i ho
            split at h
            · simp at h
            · rename_i r' hsel
              simp only [Option.some.injEq, Prod.mk.injEq] at h
              obtain ⟨hr, hold⟩ := h
              subst hr
              obtain ⟨pre, post, he, h1, h2, h3, _⟩ := select_first_qualifying _ _ _ _ hsel
              have hid : r'.id = se.suite := by
                cases pre with
                | nil => simp at he; exact he.1.symm
                | cons a t =>
                  simp only [List.cons_append, List.cons.injEq] at he
                  have := congrArg List.length he.2
                  simp at this
              have hv' : v = se.vers := by simpa using hv
              refine ⟨se, ks, rfl, rfl, by simpa using hk, hv'.symm, ?_, hid, by simpa using ho, ?_, ?_, h2, hold.symm⟩
              · intro h; rw [hv'] at h; simp [h] at h13
              · rw [← hid]; simpa using h3
              · rw [← hid]; exact h1
  · simp at h

/-- **TLS 1.3 server**: a PSK is accepted only when it opens under a current key and was issued under a suite with
    the hash of the suite selected NOW (seeded defect: hash comparison dropped) -/
theorem checkResume13_sound (suite : Nat) (m : Bool) (tk : Option (List Nat)) (p : Option Sess)
    (h : checkResume13 suite m tk p = true) :
    ∃ se ks, p = some se ∧ tk = some ks ∧ m = true ∧ se.key ∈ ks ∧ se.vers = VersionTLS13 ∧ sameHash se.suite suite = true := by
  unfold checkResume13 at h
  split at h
  · rename_i ks se
    simp only [Bool.and_eq_true] at h
    exact ⟨se, ks, rfl, rfl, h.1.1.1.1, by simpa using h.1.1.2, by simpa using h.1.1.1.2, h.2⟩
  · simp at h

/-- without a presented session (no cache in the client's configuration, empty cache, or a session the client's
    current configuration no longer fits) the connection is exactly the full negotiation -/
theorem connect_not_presented (k : Conn) (cache : Option Sess)
    (h : loadSession (configVersions supportedVersions k.c.minV k.c.maxV)
          (clientOffer (configVersions supportedVersions k.c.minV k.c.maxV) k.c.suites k.c.force) k.useCache cache = none) :
    (connect k cache).res = negotiate k.c k.s ∧ (connect k cache).resumed = false := by
  have h12 : ∀ v offer srv f tk, checkResume12 v offer srv f tk none = none := by
    intro v offer srv f tk; unfold checkResume12; split <;> simp_all
  have h13 : ∀ suite m tk, checkResume13 suite m tk none = false := by
    intro suite m tk; unfold checkResume13; split <;> simp_all
  unfold connect negotiate
  simp only [h, h12, h13]
  repeat' split
  all_goals simp [failedWith_res, completed_res]

/-- **fallback, never failure**: whatever the client's cache holds, if the two CURRENT configurations can complete a
    full handshake then the connection completes, at the same (highest shared) version — a session that cannot be
    resumed costs a full handshake, not the connection -/
theorem connect_never_blocks (k : Conn) (cache : Option Sess) (o : Outcome) (h : negotiate k.c k.s = .done o) :
    ∃ o', (connect k cache).res = .done o' ∧ o'.vers = o.vers ∧ o'.alpn = o.alpn ∧ o'.canary = o.canary ∧
      ((connect k cache).resumed = false → o' = o) := by
  unfold negotiate at h
  unfold connect
  simp only at h ⊢
  repeat' split at h
  all_goals first
    | (simp at h; done)
    | (simp only [Result.done.injEq] at h
       subst h
       simp only [*, if_true, if_false, Bool.false_eq_true]
       first
         | exact ⟨_, (completed_res _ _ _ _ _).1, rfl, rfl, rfl, fun _ => rfl⟩
         | (split
            · try simp only [*, if_true, if_false, Bool.false_eq_true]
              refine ⟨_, (completed_res _ _ _ _ _).1, rfl, rfl, rfl, fun hr => ?_⟩
              rw [(completed_res _ _ _ _ _).2] at hr
              simp at hr
            · try simp only [*, if_true, if_false, Bool.false_eq_true]
              exact ⟨_, (completed_res _ _ _ _ _).1, rfl, rfl, rfl, fun _ => rfl⟩))

/-- **a resumed connection is consistent with BOTH current configurations and with the original session**: if the
    connection resumes then it completes, the client's current configuration uses the cache, the cached session was
    sealed under a key the server lists now, it has the version negotiated now, and
    * TLS ≤ 1.2: its suite is the connection's suite, the client offers it now and the server's current configuration
      enables it;
    * TLS 1.3: it was issued under a suite with the same hash as the suite selected now. -/
theorem connect_resumed_sound (k : Conn) (cache : Option Sess) (h : (connect k cache).resumed = true) :
    ∃ o se ks, (connect k cache).res = .done o ∧ cache = some se ∧ k.useCache = true ∧ k.tkeys = some ks ∧ se.key ∈ ks ∧
      se.vers = o.vers ∧
      (if o.vers = VersionTLS13 then sameHash se.suite o.suite = true
       else se.suite = o.suite ∧
            o.suite ∈ clientOffer (configVersions supportedVersions k.c.minV k.c.maxV) k.c.suites k.c.force ∧
            o.suite ∈ k.s.suites.getD defaultCipherSuites) := by
  generalize hc : connect k cache = out at h ⊢
  unfold connect at hc
  simp only at hc
  repeat' split at hc
  all_goals subst hc
  all_goals first
    | (simp [(failedWith_res _ _).2] at h; done)
    | (rw [(completed_res _ _ _ _ _).2] at h; simp at h; done)
    | skip
  all_goals first
    | (rw [(completed_res _ _ _ _ _).2] at h
       obtain ⟨se, ks, hp, htk, _, hk, hv, hh⟩ := checkResume13_sound _ _ _ _ h
       obtain ⟨hu, hcache, _, _, _⟩ := loadSession_some _ _ _ _ _ hp
       refine ⟨_, se, ks, (completed_res _ _ _ _ _).1, hcache, hu, htk, hk, ?_, ?_⟩
       · simp_all
       · simp_all)
    | (obtain ⟨se, ks, hp, htk, hk, hv, hne, hid, hoff, hsrv, _, _, _⟩ := checkResume12_sound _ _ _ _ _ _ _ _ (by assumption)
       obtain ⟨hu, hcache, _, _, _⟩ := loadSession_some _ _ _ _ _ hp
       refine ⟨_, se, ks, (completed_res _ _ _ _ _).1, hcache, hu, htk, hk, hv, ?_⟩
       simp only [if_neg hne]
       rw [hid]
       exact ⟨rfl, hoff, hsrv⟩)

/-! ### non-vacuity -/
example : negotiate { minV := 0, maxV := 771, suites := some [50, 47], force := true, curves := none, alpn := [] }
    { minV := 0, maxV := 0, suites := none, prefer := false, curves := none, alpn := [], key := .rsa, rand := .none }
    = .done { vers := 771, suite := 47, alpn := none, canary := .c12 } := by decide

/-- a TLS 1.2 client (cache on) against a server with ticket key 0 -/
def exConn (cs ss : List Nat) (tk : Option (List Nat)) : Conn :=
  { c := { minV := 0, maxV := 771, suites := some cs, force := false, curves := none, alpn := [] },
    s := { minV := 0, maxV := 771, suites := some ss, prefer := false, curves := none, alpn := [], key := .rsa, rand := .none },
    useCache := true, tkeys := tk }
def exConn13 (cs : List Nat) : Conn :=
  { c := { minV := 0, maxV := 0, suites := some cs, force := false, curves := none, alpn := [] },
    s := { minV := 0, maxV := 0, suites := none, prefer := false, curves := none, alpn := [], key := .rsa, rand := .none },
    useCache := true, tkeys := some [0] }
-- unchanged configurations: the second connection resumes (hypothesis of `connect_resumed_sound` is satisfiable)
example : (runSeq none [exConn [49199, 47] [49199, 47] (some [0]), exConn [49199, 47] [49199, 47] (some [0])]).map
    (fun o => (o.res, o.resumed, o.ev)) =
    [(.done { vers := 771, suite := 49199, alpn := none, canary := .none }, false, .put),
     (.done { vers := 771, suite := 49199, alpn := none, canary := .none }, true, .keep)] := by decide
-- the server's configuration drops the session's suite: full handshake with the remaining suite, not a failure
example : (runSeq none [exConn [49199, 47] [49199, 47] (some [0]), exConn [49199, 47] [47] (some [0])]).map
    (fun o => (o.res, o.resumed, o.ev)) =
    [(.done { vers := 771, suite := 49199, alpn := none, canary := .none }, false, .put),
     (.done { vers := 771, suite := 47, alpn := none, canary := .none }, false, .put)] := by decide
-- rotated ticket keys: resumed under the old key, re-issued under the new one
example : (runSeq none [exConn [47] [47] (some [0]), exConn [47] [47] (some [1, 0]), exConn [47] [47] (some [1])]).map
    (fun o => (o.resumed, o.ev)) = [(false, .put), (true, .put), (true, .keep)] := by decide
-- TLS 1.3: the client now puts a SHA-384 suite first; the SHA-256 PSK is skipped and a full handshake follows
example : (runSeq none [exConn13 [4865], exConn13 [4866, 4865], exConn13 [4866, 4865]]).map
    (fun o => (o.res, o.resumed)) =
    [(.done { vers := 772, suite := 4865, alpn := none, canary := .none }, false),
     (.done { vers := 772, suite := 4866, alpn := none, canary := .none }, false),
     (.done { vers := 772, suite := 4866, alpn := none, canary := .none }, true)] := by decide
example : checkResume13 4866 true (some [0]) (some { vers := 772, suite := 4866, key := 0 }) = true := by decide
example : (checkResume12 771 [47] (some [47]) (facts 771 .rsa true) (some [1, 0]) (some { vers := 771, suite := 47, key := 0 })).isSome = true := by decide
example : (loadSession [772, 771] [47, 4865] true (some { vers := 772, suite := 4867, key := 0 })).isSome = true := by decide
example : mutualVersion (configVersions supportedVersions 770 0) (configVersions supportedVersions 0 771) = some 771 := by decide

end ZV.C24
