import ZV.Model.C24
import ZV.Proofs.C24
import ZV.Proofs.C24Sort
/-!
  C24 — TLS endpoints negotiate correctly (version, suite, ALPN, downgrade sentinel).

  The tables (`Gen.*`) are regenerated from tls/common.go and tls/cipher_suites.go on every run, so the
  `decide` theorems below are re-checked against the code's current rows; the others hold for every
  configuration AND every content of the tables.

  The assembled function `negotiate` is covered completely: `negotiate_done_iff` / `negotiate_fail_iff` /
  `negotiate_unmodelled_iff` characterise its three results; `negotiate_version`, `negotiate_suite_sound`,
  `negotiate_suite_preference`, `negotiate_alpn_sound`, `negotiate_canary` are the clauses of the property for a
  completed handshake; `negotiate_completes_12` / `negotiate_completes_13` are the liveness clause on the model.
  That a REAL handshake completes exactly when (and with what) `negotiate` says is what the correspondence stream
  `c24 neg` establishes with real handshakes; that tie is not a theorem.
-/
namespace ZV.C24
open Gen

/-! ### version selection -/

/-- the library's version table is strictly descending (highest first) -/
theorem supportedVersions_desc : supportedVersions.Pairwise (· > ·) := by decide

/-- and contains exactly TLS 1.0 – 1.3 -/
theorem supportedVersions_are : supportedVersions = [VersionTLS13, VersionTLS12, VersionTLS11, VersionTLS10] := by decide

/-- **highest shared version**: whatever the four bounds, the version the server selects from the
    client's list is supported by both and no higher version is shared -/
theorem version_is_max_shared (cmin cmax smin smax v : Nat)
    (h : mutualVersion (configVersions supportedVersions smin smax) (configVersions supportedVersions cmin cmax) = some v) :
    v ∈ configVersions supportedVersions cmin cmax ∧ v ∈ configVersions supportedVersions smin smax ∧
    ∀ w, w ∈ configVersions supportedVersions cmin cmax → w ∈ configVersions supportedVersions smin smax → w ≤ v := by
  unfold mutualVersion at h
  have hmem := List.mem_of_find?_eq_some h
  have hp := List.find?_some h
  refine ⟨hmem, by simpa using hp, ?_⟩
  intro w hwc hws
  exact find?_desc_max (pairwise_filter_gt _ supportedVersions_desc) h w hwc (by simpa using hws)

/-- no version is selected exactly when none is shared -/
theorem version_none_iff (cmin cmax smin smax : Nat) :
    mutualVersion (configVersions supportedVersions smin smax) (configVersions supportedVersions cmin cmax) = none ↔
    ∀ w, w ∈ configVersions supportedVersions cmin cmax → w ∉ configVersions supportedVersions smin smax := by
  unfold mutualVersion
  rw [List.find?_eq_none]
  simp

/-! ### suite selection -/

/-- `selectCipherSuite` returns the FIRST id of the preference list that is implemented, passes the
    usability filter and is in the other side's list — "a suite both enabled, chosen by the documented
    preference rule" -/
theorem select_first_qualifying (ids sup : List Nat) (ok : SuiteRow → Bool) (r : SuiteRow)
    (h : selectCipherSuite ids sup ok = some r) :
    ∃ pre post, ids = pre ++ r.id :: post ∧ lookup implemented r.id = some r ∧ ok r = true ∧ sup.contains r.id = true ∧
      ∀ x ∈ pre, ∀ rx, lookup implemented x = some rx → (ok rx && sup.contains x) = false := by
  induction ids with
  | nil => simp [selectCipherSuite] at h
  | cons id rest ih =>
    simp only [selectCipherSuite] at h
    cases hl : lookup implemented id with
    | none =>
      simp only [hl] at h
      obtain ⟨pre, post, he, h1, h2, h3, h4⟩ := ih h
      refine ⟨id :: pre, post, by simp [he], h1, h2, h3, ?_⟩
      intro x hx rx hrx
      rcases List.mem_cons.mp hx with rfl | hx'
      · rw [hl] at hrx; exact absurd hrx (by simp)
      · exact h4 x hx' rx hrx
    | some row =>
      simp only [hl] at h
      by_cases hq : (ok row && sup.contains id) = true
      · simp only [hq, if_true, Option.some.injEq] at h
        subst h
        have hid : row.id = id := by
          have := List.find?_some hl
          simpa using this
        simp only [Bool.and_eq_true] at hq
        refine ⟨[], rest, by simp [hid], by rw [hid]; exact hl, hq.1, by rw [hid]; exact hq.2, by simp⟩
      · have hq' : (ok row && sup.contains id) = false := by simpa using hq
        simp only [hq', Bool.false_eq_true, if_false] at h
        obtain ⟨pre, post, he, h1, h2, h3, h4⟩ := ih h
        refine ⟨id :: pre, post, by simp [he], h1, h2, h3, ?_⟩
        intro x hx rx hrx
        rcases List.mem_cons.mp hx with rfl | hx'
        · rw [hl] at hrx
          simp only [Option.some.injEq] at hrx
          subst hrx; exact hq'
        · exact h4 x hx' rx hrx

/-- what "usable with the server's key" means for a key-exchange kind -/
def kaFitsKey (ka : String) (key : KeyType) (ecdheOk : Bool) : Bool :=
  match key with
  | .rsa => ka == "rsa" || ka == "dhe-rsa" || (ka == "ecdhe-rsa" && ecdheOk)
  | .ecdsa => ka == "ecdhe-ecdsa" && ecdheOk
  | .ed25519 => ka == "ecdhe-ecdsa" && ecdheOk

/-- **a selected suite is usable with the server's key** — for every row of the code's current
    `implementedCipherSuites` table, every key type, every negotiated version: if the server-side filter
    `cipherSuiteOk` lets the suite through, its key exchange fits the key (in particular no DSS suite,
    D17) and TLS 1.2-only suites are not chosen below TLS 1.2. -/
theorem suite_usable_with_key :
    ∀ r ∈ implemented, lookup implemented r.id = some r →
      ∀ key ∈ [KeyType.rsa, .ecdsa, .ed25519], ∀ v ∈ supportedVersions, ∀ e ∈ [true, false],
      cipherSuiteOk (facts v key e) r = true →
        kaFitsKey r.ka key e = true ∧ (hasFlag r.flags flagTLS12 = true → v ≥ VersionTLS12) := by
  decide

/-- and conversely every implemented suite whose key exchange fits the key is let through (so the
    liveness clause is not lost): non-export rows of the table -/
theorem usable_suite_is_ok :
    ∀ r ∈ implemented, lookup implemented r.id = some r →
      ∀ key ∈ [KeyType.rsa, .ecdsa, .ed25519], ∀ v ∈ supportedVersions, ∀ e ∈ [true, false],
      kaFitsKey r.ka key e = true → (hasFlag r.flags flagTLS12 = true → v ≥ VersionTLS12) →
        cipherSuiteOk (facts v key e) r = true := by
  decide

/-- the flag bits of every EFFECTIVE row (the first row with its id: the one `cipherSuiteByID` finds) agree
    with its key-exchange constructor -/
theorem table_flags_consistent :
    ∀ r ∈ implemented, lookup implemented r.id = some r →
      (hasFlag r.flags flagECDHE = (r.ka == "ecdhe-rsa" || r.ka == "ecdhe-ecdsa")) ∧
      (hasFlag r.flags flagECSign = (r.ka == "ecdhe-ecdsa")) ∧
      (hasFlag r.flags flagDSS = (r.ka == "dhe-dss")) := by
  decide

/-- every suite a client advertises without `ForceSuites` is implemented, with the same row -/
theorem advertised_are_implemented : ∀ r ∈ cipherSuites, lookup implemented r.id = some r := by decide

/-- the default lists only name implemented suites / TLS 1.3 suites -/
theorem defaults_known :
    (∀ id ∈ defaultCipherSuites, (lookup cipherSuites id).isSome = true) ∧
    (∀ id ∈ defaultCipherSuitesTLS13, isTLS13Suite id = true) ∧
    (∀ id ∈ cipherSuitesTLS13, id ∈ defaultCipherSuitesTLS13) := by decide

/-- `deprioritizeAES` only reorders -/
theorem deprio_perm (l r : List Nat) (h : deprio l = some r) : r.Perm l := by
  unfold deprio at h
  split at h
  · simp only [Option.some.injEq] at h
    subst h
    have := insertionSortRev_perm [] l
    simp only [List.append_nil] at this
    exact (List.reverse_perm _).trans (this.trans (List.reverse_perm _))
  · simp at h

/-! ### deprioritizeAES: what the insertion sort does to the order -/
/-- no id is in both tables behind the comparator (so `less` is a strict partial order); re-checked against the
    code's current `aesgcmCiphers` / `nonAESGCMAEADCiphers` maps -/
theorem aead_tables_disjoint : ∀ id ∈ nonAESGCMAEADCiphers, isAESGCM id = false := by decide

theorem nonAEAD_not_aesgcm (x : Nat) (h : nonAESGCMAEAD x = true) : isAESGCM x = false :=
  aead_tables_disjoint x (by simpa [nonAESGCMAEAD] using h)

/-- the comparator handed to sort.SliceStable, in words: `a` is a non-AES-GCM AEAD id and `b` an AES-GCM id -/
theorem less_iff (a b : Nat) : less a b = true ↔ a ∈ nonAESGCMAEADCiphers ∧ b ∈ aesgcmCiphers := by
  simp [less, nonAESGCMAEAD, isAESGCM]

/-- it is irreflexive, asymmetric and has no chains of length 2 (transitivity holds vacuously); incomparability is
    NOT transitive, which is why the result below is stated pairwise and not as "sorted" -/
theorem less_strict_partial_order :
    (∀ a, less a a = false) ∧ (∀ a b, less a b = true → less b a = false) ∧
    (∀ a b c, less a b = true → less b c = true → False) := by
  refine ⟨fun a => ?_, fun a b h => less_flip_false nonAEAD_not_aesgcm h, fun a b c h1 h2 => ?_⟩
  · cases h : nonAESGCMAEAD a with
    | false => simp [less, h]
    | true => simp [less, h, nonAEAD_not_aesgcm a h]
  · simp only [less, Bool.and_eq_true] at h1 h2
    have := nonAEAD_not_aesgcm b h2.1
    rw [h1.2] at this
    exact absurd this (by simp)

/-- inside the model exactly up to 20 ids (the lengths for which sort.SliceStable is one insertion sort) -/
theorem deprio_some_iff (l : List Nat) : (deprio l).isSome = true ↔ l.length ≤ 20 := by
  unfold deprio; split <;> simp [*]

theorem deprio_length (l r : List Nat) (h : deprio l = some r) : l.length ≤ 20 ∧ r.length = l.length :=
  ⟨(deprio_some_iff l).mp (by simp [h]), (deprio_perm l r h).length_eq⟩

theorem deprio_eq (l r : List Nat) (h : deprio l = some r) : r = (insertionSortRev [] l).reverse := by
  unfold deprio at h
  split at h
  · simpa using h.symm
  · simp at h

/-- **stability**: two ids whose later one is not `less` than the earlier one keep their order — in particular equal
    keys (any two ids of the same class, duplicates included) are never swapped.  `[a, b] <+ l` = some occurrence of `a`
    stands before some occurrence of `b` -/
theorem deprio_stable (l r : List Nat) (h : deprio l = some r) (a b : Nat)
    (hab : [a, b].Sublist l) (hn : less b a = false) : [a, b].Sublist r := by
  rw [deprio_eq l r h]
  have := (insertionSortRev_stable a b [] l).2.2 hab hn
  simpa using List.reverse_sublist.mpr this

/-- **the only thing it moves**: if `a` stands before `b` in the result but did not in the input, then `a` is a
    non-AES-GCM AEAD id and `b` an AES-GCM id -/
theorem deprio_moves_only_less (l r : List Nat) (h : deprio l = some r) (a b : Nat)
    (hab : [a, b].Sublist r) : [a, b].Sublist l ∨ less a b = true := by
  rw [deprio_eq l r h] at hab
  have h' : [b, a].Sublist (insertionSortRev [] l) := by
    have := List.reverse_sublist.mpr hab
    simpa using this
  rcases insertionSortRev_pairs a b [] l h' with h1 | ⟨h2, _⟩ | h3 | h4
  · have := h1.length_le; simp at this
  · simp at h2
  · exact Or.inl h3
  · exact Or.inr h4

/-- the result has no adjacent pair in the wrong order (an AES-GCM id immediately followed by a non-AES-GCM AEAD id);
    for NON-adjacent pairs this can fail (see the example below: the comparator is not a weak order), exactly as the
    Go comment says ("rearranging ADJACENT AEAD ciphers") -/
theorem deprio_no_adjacent_inversion (l r : List Nat) (h : deprio l = some r) (pre post : List Nat) (p q : Nat)
    (hr : r = pre ++ p :: q :: post) : less q p = false := by
  have hadj := insertionSortRev_adj nonAEAD_not_aesgcm [] l trivial
  have he : insertionSortRev [] l = post.reverse ++ q :: p :: pre.reverse := by
    have := congrArg List.reverse ((deprio_eq l r h).symm.trans hr)
    simpa using this
  rw [he] at hadj
  exact AdjRev_at _ _ _ _ hadj

/-- a list without such an adjacent pair is left alone -/
theorem deprio_fixed (l : List Nat) (hlen : l.length ≤ 20)
    (h : ∀ pre p q post, l = pre ++ p :: q :: post → less q p = false) : deprio l = some l := by
  unfold deprio
  simp only [hlen, if_true]
  rw [insertionSortRev_fixed l [] (by simp) h]
  simp

/-- `deprioritizeAES` is idempotent -/
theorem deprio_idem (l r : List Nat) (h : deprio l = some r) : deprio r = some r := by
  obtain ⟨h1, h2⟩ := deprio_length l r h
  exact deprio_fixed r (by omega) (fun pre p q post he => deprio_no_adjacent_inversion l r h pre post p q he)

/-! ### ALPN -/
theorem alpn_rule (protos pref : List Nat) (p : Nat) (h : mutualProtocol protos pref = some p) :
    p ∈ protos ∧ ∃ pre post, pref = pre ++ p :: post ∧ ∀ x ∈ pre, x ∉ protos := by
  unfold mutualProtocol at h
  obtain ⟨pre, post, hl, hv, hpre⟩ := find?_first h
  refine ⟨by simpa using hv, pre, post, hl, ?_⟩
  intro x hx
  have := hpre x hx
  simpa using this

/-! ### downgrade sentinel -/
theorem canary_iff (srvMax v : Nat) :
    serverCanary srvMax v ≠ .none ↔ (srvMax ≥ VersionTLS12 ∧ v < srvMax) := by
  unfold serverCanary
  by_cases h1 : srvMax ≥ VersionTLS12 <;> by_cases h2 : v < srvMax <;> simp [h1, h2] <;> split <;> simp

theorem canary_kind (srvMax v : Nat) (h : serverCanary srvMax v ≠ .none) :
    serverCanary srvMax v = (if v = VersionTLS12 then .c12 else .c11) := by
  unfold serverCanary at *
  split at h
  · split <;> simp_all
  · simp at h

/-- "a client supporting the higher version aborts": for all versions of the table, when the server
    could have gone higher (so the sentinel is present) and the client's maximum (TLS 1.2 or 1.3) is
    above the negotiated version, the client's check fires. -/
theorem client_aborts_on_canary :
    ∀ cliMax ∈ supportedVersions, ∀ srvMax ∈ supportedVersions, ∀ v ∈ supportedVersions,
      cliMax ≥ VersionTLS12 → v < cliMax → v < srvMax → srvMax ≥ VersionTLS12 →
        clientAborts cliMax v (serverCanary srvMax v) = true := by
  decide

/-- and never without a sentinel -/
theorem client_no_abort_without_canary (cliMax v : Nat) : clientAborts cliMax v .none = false := by
  simp [clientAborts]

/-! ### the assembled negotiation: a completed handshake has the highest shared version -/
theorem negotiate_version (c : Client) (s : Server) (o : Outcome) (h : negotiate c s = .done o) :
    o.vers ∈ configVersions supportedVersions c.minV c.maxV ∧ o.vers ∈ configVersions supportedVersions s.minV s.maxV ∧
    ∀ w, w ∈ configVersions supportedVersions c.minV c.maxV → w ∈ configVersions supportedVersions s.minV s.maxV → w ≤ o.vers := by
  unfold negotiate at h
  simp only at h
  split at h
  · simp at h
  · split at h
    · simp at h
    · rename_i v hv
      have hmax := version_is_max_shared c.minV c.maxV s.minV s.maxV v hv
      have : o.vers = v := by
        repeat' split at h
        all_goals first | (simp at h; done) | (simp only [Result.done.injEq] at h; rw [← h])
      rw [this]; exact hmax

/-! ### effective preference lists -/

/-- the pair (preference list, other side's list) that `pickCipherSuite` hands to `selectCipherSuite` -/
def prefLists12 (offer : List Nat) (srvSuites : Option (List Nat)) (prefer : Bool) : Option (List Nat × List Nat) :=
  let srv := srvSuites.getD defaultCipherSuites
  if prefer then
    if srvSuites.isNone && !aesgcmPreferred offer then (deprio srv).map (fun p => (p, offer))
    else some (srv, offer)
  else
    if !hasAESGCMHardwareSupport then (deprio offer).map (fun p => (p, srv))
    else some (offer, srv)

/-- the same pair in the TLS 1.3 server (`mutualCipherSuiteTLS13`) -/
def prefLists13 (offer : List Nat) (prefer : Bool) : Option (List Nat × List Nat) :=
  if prefer then
    if !aesgcmPreferred offer then (deprio defaultCipherSuitesTLS13).map (fun p => (p, offer))
    else some (defaultCipherSuitesTLS13, offer)
  else
    if !hasAESGCMHardwareSupport then (deprio offer).map (fun p => (p, defaultCipherSuitesTLS13))
    else some (offer, defaultCipherSuitesTLS13)

/-- `pickCipherSuite` is `selectCipherSuite` over that pair (definitional: re-checked whenever the model changes) -/
theorem pickCipherSuite_eq (offer : List Nat) (ss : Option (List Nat)) (prefer : Bool) (f : Facts) :
    pickCipherSuite offer ss prefer f =
      match prefLists12 offer ss prefer with
      | none => .unmodelled
      | some (pref, sup) =>
        match selectCipherSuite pref sup (cipherSuiteOk f) with
        | some r => .suite r
        | none => .noSuite := rfl

theorem pickTLS13_eq (offer : List Nat) (prefer : Bool) :
    pickTLS13 offer prefer =
      match prefLists13 offer prefer with
      | none => none
      | some (pref, sup) => some (pref.find? (fun id => sup.contains id && isTLS13Suite id)) := rfl

/-- which lists these are: the preference list is the server's list (`PreferServerCipherSuites`) or the client's
    offer, as configured or after `deprioritizeAES`; the other list is the other side's, untouched -/
theorem prefLists12_cases (offer : List Nat) (ss : Option (List Nat)) (prefer : Bool) (pref sup : List Nat)
    (h : prefLists12 offer ss prefer = some (pref, sup)) :
    (prefer = true ∧ sup = offer ∧
      (pref = ss.getD defaultCipherSuites ∨
       (ss = none ∧ aesgcmPreferred offer = false ∧ deprio defaultCipherSuites = some pref))) ∨
    (prefer = false ∧ sup = ss.getD defaultCipherSuites ∧
      (pref = offer ∨ (hasAESGCMHardwareSupport = false ∧ deprio offer = some pref))) := by
  unfold prefLists12 at h
  simp only at h
  cases prefer with
  | true =>
    simp only [if_true] at h
    split at h
    · rename_i hc
      simp only [Bool.and_eq_true, Option.isNone_iff_eq_none, Bool.not_eq_true'] at hc
      cases hd : deprio (ss.getD defaultCipherSuites) with
      | none => simp [hd] at h
      | some p =>
        simp only [hd, Option.map_some, Option.some.injEq, Prod.mk.injEq] at h
        refine Or.inl ⟨rfl, h.2.symm, Or.inr ⟨hc.1, hc.2, ?_⟩⟩
        rw [hc.1] at hd
        rw [← h.1]; exact hd
    · simp only [Option.some.injEq, Prod.mk.injEq] at h
      exact Or.inl ⟨rfl, h.2.symm, Or.inl h.1.symm⟩
  | false =>
    simp only [Bool.false_eq_true, if_false] at h
    split at h
    · rename_i hc
      cases hd : deprio offer with
      | none => simp [hd] at h
      | some p =>
        simp only [hd, Option.map_some, Option.some.injEq, Prod.mk.injEq] at h
        refine Or.inr ⟨rfl, h.2.symm, Or.inr ⟨by simpa using hc, ?_⟩⟩
        rw [← h.1]
    · simp only [Option.some.injEq, Prod.mk.injEq] at h
      exact Or.inr ⟨rfl, h.2.symm, Or.inl h.1.symm⟩

theorem prefLists13_cases (offer : List Nat) (prefer : Bool) (pref sup : List Nat)
    (h : prefLists13 offer prefer = some (pref, sup)) :
    (prefer = true ∧ sup = offer ∧
      (pref = defaultCipherSuitesTLS13 ∨
       (aesgcmPreferred offer = false ∧ deprio defaultCipherSuitesTLS13 = some pref))) ∨
    (prefer = false ∧ sup = defaultCipherSuitesTLS13 ∧
      (pref = offer ∨ (hasAESGCMHardwareSupport = false ∧ deprio offer = some pref))) := by
  unfold prefLists13 at h
  cases prefer with
  | true =>
    simp only [if_true] at h
    split at h
    · rename_i hc
      cases hd : deprio defaultCipherSuitesTLS13 with
      | none => simp [hd] at h
      | some p =>
        simp only [hd, Option.map_some, Option.some.injEq, Prod.mk.injEq] at h
        refine Or.inl ⟨rfl, h.2.symm, Or.inr ⟨by simpa using hc, ?_⟩⟩
        rw [← h.1]
    · simp only [Option.some.injEq, Prod.mk.injEq] at h
      exact Or.inl ⟨rfl, h.2.symm, Or.inl h.1.symm⟩
  | false =>
    simp only [Bool.false_eq_true, if_false] at h
    split at h
    · rename_i hc
      cases hd : deprio offer with
      | none => simp [hd] at h
      | some p =>
        simp only [hd, Option.map_some, Option.some.injEq, Prod.mk.injEq] at h
        refine Or.inr ⟨rfl, h.2.symm, Or.inr ⟨by simpa using hc, ?_⟩⟩
        rw [← h.1]
    · simp only [Option.some.injEq, Prod.mk.injEq] at h
      exact Or.inr ⟨rfl, h.2.symm, Or.inl h.1.symm⟩

/-- in every case: a reordering of one side's list, and the other side's list -/
theorem prefLists12_perm (offer : List Nat) (ss : Option (List Nat)) (prefer : Bool) (pref sup : List Nat)
    (h : prefLists12 offer ss prefer = some (pref, sup)) :
    pref.Perm (if prefer then ss.getD defaultCipherSuites else offer) ∧
    sup = (if prefer then offer else ss.getD defaultCipherSuites) := by
  rcases prefLists12_cases _ _ _ _ _ h with ⟨hp, hs, hc⟩ | ⟨hp, hs, hc⟩
  · subst hp
    refine ⟨?_, by simpa using hs⟩
    rcases hc with rfl | ⟨hss, _, hd⟩
    · simp
    · subst hss; simpa using deprio_perm _ _ hd
  · subst hp
    refine ⟨?_, by simpa using hs⟩
    rcases hc with rfl | ⟨_, hd⟩
    · simp
    · simpa using deprio_perm _ _ hd

theorem prefLists13_perm (offer : List Nat) (prefer : Bool) (pref sup : List Nat)
    (h : prefLists13 offer prefer = some (pref, sup)) :
    pref.Perm (if prefer then defaultCipherSuitesTLS13 else offer) ∧
    sup = (if prefer then offer else defaultCipherSuitesTLS13) := by
  rcases prefLists13_cases _ _ _ _ h with ⟨hp, hs, hc⟩ | ⟨hp, hs, hc⟩
  · subst hp
    refine ⟨?_, by simpa using hs⟩
    rcases hc with rfl | ⟨_, hd⟩
    · simp
    · simpa using deprio_perm _ _ hd
  · subst hp
    refine ⟨?_, by simpa using hs⟩
    rcases hc with rfl | ⟨_, hd⟩
    · simp
    · simpa using deprio_perm _ _ hd

/-- the lists are outside the model exactly when `deprioritizeAES` is applied to more than 20 ids -/
theorem prefLists12_none_iff (offer : List Nat) (ss : Option (List Nat)) (prefer : Bool) :
    prefLists12 offer ss prefer = none ↔
      (if prefer then ss = none ∧ aesgcmPreferred offer = false ∧ defaultCipherSuites.length > 20
       else hasAESGCMHardwareSupport = false ∧ offer.length > 20) := by
  unfold prefLists12 deprio
  cases prefer <;> cases ss <;> simp <;> split <;> simp_all <;> omega

theorem prefLists13_none_iff (offer : List Nat) (prefer : Bool) :
    prefLists13 offer prefer = none ↔
      (if prefer then aesgcmPreferred offer = false ∧ defaultCipherSuitesTLS13.length > 20
       else hasAESGCMHardwareSupport = false ∧ offer.length > 20) := by
  unfold prefLists13 deprio
  cases prefer <;> simp <;> split <;> simp_all <;> omega

/-- **a suite picked by the TLS ≤ 1.2 server is enabled on both sides and usable** -/
theorem pick_suite_sound (offer : List Nat) (ss : Option (List Nat)) (prefer : Bool) (f : Facts) (r : SuiteRow)
    (h : pickCipherSuite offer ss prefer f = .suite r) :
    r.id ∈ offer ∧ r.id ∈ ss.getD defaultCipherSuites ∧ lookup implemented r.id = some r ∧ cipherSuiteOk f r = true := by
  rw [pickCipherSuite_eq] at h
  split at h
  · simp at h
  · rename_i pref sup hl
    split at h
    · rename_i r' hsel
      simp only [Pick.suite.injEq] at h
      subst h
      obtain ⟨pre, post, he, h1, h2, h3, _⟩ := select_first_qualifying _ _ _ _ hsel
      obtain ⟨hperm, hsup⟩ := prefLists12_perm _ _ _ _ _ hl
      have hin : r'.id ∈ pref := by rw [he]; simp
      have hin' := hperm.mem_iff.mp hin
      have h3' : r'.id ∈ sup := by simpa using h3
      rw [hsup] at h3'
      cases prefer with
      | true => exact ⟨by simpa using h3', by simpa using hin', h1, h2⟩
      | false => exact ⟨by simpa using hin', by simpa using h3', h1, h2⟩
    · simp at h

/-- **… and it is the FIRST qualifying id of the effective preference list** -/
theorem pick_suite_first (offer : List Nat) (ss : Option (List Nat)) (prefer : Bool) (f : Facts) (r : SuiteRow)
    (h : pickCipherSuite offer ss prefer f = .suite r) :
    ∃ pref sup pre post, prefLists12 offer ss prefer = some (pref, sup) ∧ pref = pre ++ r.id :: post ∧
      ∀ x ∈ pre, ∀ rx, lookup implemented x = some rx → (cipherSuiteOk f rx && sup.contains x) = false := by
  rw [pickCipherSuite_eq] at h
  split at h
  · simp at h
  · rename_i pref sup hl
    split at h
    · rename_i r' hsel
      simp only [Pick.suite.injEq] at h
      subst h
      obtain ⟨pre, post, he, _, _, _, h4⟩ := select_first_qualifying _ _ _ _ hsel
      exact ⟨pref, sup, pre, post, hl, he, h4⟩
    · simp at h

/-- **no suite** exactly when (the lists are inside the model and) no id enabled on both sides is implemented and
    passes the server's usability filter — independent of all ordering -/
theorem pick_noSuite_iff (offer : List Nat) (ss : Option (List Nat)) (prefer : Bool) (f : Facts) :
    pickCipherSuite offer ss prefer f = .noSuite ↔
      prefLists12 offer ss prefer ≠ none ∧
      ∀ x ∈ offer, x ∈ ss.getD defaultCipherSuites → ∀ rx, lookup implemented x = some rx → cipherSuiteOk f rx = false := by
  rw [pickCipherSuite_eq]
  split
  · rename_i hl; simp [hl]
  · rename_i pref sup hl
    obtain ⟨hperm, hsup⟩ := prefLists12_perm _ _ _ _ _ hl
    have key : selectCipherSuite pref sup (cipherSuiteOk f) = none ↔
        ∀ x ∈ offer, x ∈ ss.getD defaultCipherSuites → ∀ rx, lookup implemented x = some rx → cipherSuiteOk f rx = false := by
      rw [select_none_iff]
      subst hsup
      cases prefer with
      | true =>
        simp only [if_true] at hperm ⊢
        constructor
        · intro hh x hx hs rx hrx
          have := hh x (hperm.mem_iff.mpr hs) rx hrx
          simpa [hx] using this
        · intro hh x hx rx hrx
          cases hc : offer.contains x with
          | false => simp
          | true => simp [hh x (by simpa using hc) (hperm.mem_iff.mp hx) rx hrx]
      | false =>
        simp only [Bool.false_eq_true, if_false] at hperm ⊢
        constructor
        · intro hh x hx hs rx hrx
          have := hh x (hperm.mem_iff.mpr hx) rx hrx
          simpa [hs] using this
        · intro hh x hx rx hrx
          cases hc : (ss.getD defaultCipherSuites).contains x with
          | false => simp
          | true => simp [hh x (hperm.mem_iff.mp hx) (by simpa using hc) rx hrx]
    split
    · rename_i r hsel
      simp only [reduceCtorEq, false_iff, not_and]
      intro _ hh
      rw [← key, hsel] at hh
      simp at hh
    · rename_i hsel
      simp only [true_iff]
      exact ⟨by simp [hl], key.mp hsel⟩

theorem pick_unmodelled_iff (offer : List Nat) (ss : Option (List Nat)) (prefer : Bool) (f : Facts) :
    pickCipherSuite offer ss prefer f = .unmodelled ↔ prefLists12 offer ss prefer = none := by
  rw [pickCipherSuite_eq]
  split
  · rename_i hl; simp [hl]
  · rename_i hl; simp only [hl]; split <;> simp

/-- **TLS 1.3**: the selected suite is offered by the client, is in the server's TLS 1.3 list and is a TLS 1.3 suite -/
theorem pick13_sound (offer : List Nat) (prefer : Bool) (id : Nat) (h : pickTLS13 offer prefer = some (some id)) :
    id ∈ offer ∧ id ∈ defaultCipherSuitesTLS13 ∧ isTLS13Suite id = true := by
  rw [pickTLS13_eq] at h
  split at h
  · simp at h
  · rename_i pref sup hl
    simp only [Option.some.injEq] at h
    obtain ⟨hperm, hsup⟩ := prefLists13_perm _ _ _ _ hl
    have hin := hperm.mem_iff.mp (List.mem_of_find?_eq_some h)
    have hp := List.find?_some h
    simp only [Bool.and_eq_true, List.contains_iff_mem] at hp
    rw [hsup] at hp
    cases prefer with
    | true => exact ⟨by simpa using hp.1, by simpa using hin, hp.2⟩
    | false => exact ⟨by simpa using hin, by simpa using hp.1, hp.2⟩

/-- … and it is the first such id of the effective preference list -/
theorem pick13_first (offer : List Nat) (prefer : Bool) (id : Nat) (h : pickTLS13 offer prefer = some (some id)) :
    ∃ pref sup pre post, prefLists13 offer prefer = some (pref, sup) ∧ pref = pre ++ id :: post ∧
      ∀ x ∈ pre, (sup.contains x && isTLS13Suite x) = false := by
  rw [pickTLS13_eq] at h
  split at h
  · simp at h
  · rename_i pref sup hl
    simp only [Option.some.injEq] at h
    obtain ⟨pre, post, he, _, hpre⟩ := find?_first h
    exact ⟨pref, sup, pre, post, hl, he, hpre⟩

/-- no TLS 1.3 suite exactly when none is shared (independent of all ordering) -/
theorem pick13_none_iff (offer : List Nat) (prefer : Bool) :
    pickTLS13 offer prefer = some none ↔
      prefLists13 offer prefer ≠ none ∧ ∀ x ∈ offer, x ∈ defaultCipherSuitesTLS13 → isTLS13Suite x = false := by
  rw [pickTLS13_eq]
  split
  · rename_i hl; simp [hl]
  · rename_i pref sup hl
    obtain ⟨hperm, hsup⟩ := prefLists13_perm _ _ _ _ hl
    subst hsup
    simp only [Option.some.injEq, List.find?_eq_none, ne_eq, hl, reduceCtorEq, not_false_eq_true, true_and]
    cases prefer with
    | true =>
      simp only [if_true] at hperm ⊢
      constructor
      · intro hh x hx hs
        have := hh x (hperm.mem_iff.mpr hs)
        simpa [hx] using this
      · intro hh x hx
        have := hh x
        have hx' := hperm.mem_iff.mp hx
        simp only [Bool.and_eq_true, List.contains_iff_mem, not_and, Bool.not_eq_true]
        intro ho; exact hh x ho hx'
    | false =>
      simp only [Bool.false_eq_true, if_false] at hperm ⊢
      constructor
      · intro hh x hx hs
        have := hh x (hperm.mem_iff.mpr hx)
        simpa [hs] using this
      · intro hh x hx
        have hx' := hperm.mem_iff.mp hx
        simp only [Bool.and_eq_true, List.contains_iff_mem, not_and, Bool.not_eq_true]
        intro ho; exact hh x hx' ho

/-! ### the assembled negotiation: suite, ALPN, sentinel, failure, liveness -/
/-- the client's / server's version list, the ClientHello's suite list, and the other inputs of `negotiate` -/
abbrev cvOf (c : Client) : List Nat := configVersions supportedVersions c.minV c.maxV
abbrev svOf (s : Server) : List Nat := configVersions supportedVersions s.minV s.maxV
abbrev offerOf (c : Client) : List Nat := clientOffer (cvOf c) c.suites c.force
/-- TLS_FALLBACK_SCSV offered although the server supports more than the client's hello asked for -/
abbrev scsvBad (c : Client) (s : Server) (v : Nat) : Bool :=
  (offerOf c).contains fallbackSCSV &&
    (if v == VersionTLS13 then v < maxSupported (svOf s) else min (maxSupported (cvOf c)) VersionTLS12 < maxSupported (svOf s))
abbrev alpnOf (c : Client) (s : Server) : Option Nat := if c.alpn.isEmpty then none else mutualProtocol c.alpn s.alpn
abbrev ecdheOkOf (c : Client) (s : Server) : Bool := (curvesOf c.curves).any (fun g => (curvesOf s.curves).contains g)
abbrev factsOf (c : Client) (s : Server) (v : Nat) : Facts := facts v s.key (ecdheOkOf c s)
/-- the sentinel the client sees in the last 8 bytes of the server random: the server's own rule, or a forged value -/
abbrev sentinelOf (s : Server) (v : Nat) : Canary :=
  match s.rand with
  | .none => serverCanary (maxSupported (svOf s)) v
  | x => x

/-- `negotiate`, restated with the names above -/
theorem negotiate_eq (c : Client) (s : Server) : negotiate c s =
    if (cvOf c).isEmpty then .fail else
    match mutualVersion (svOf s) (cvOf c) with
    | none => .fail
    | some v =>
      if v == VersionTLS13 then
        if scsvBad c s v then .fail else
        match pickTLS13 (offerOf c) s.prefer with
        | none => .unmodelled
        | some none => .fail
        | some (some id) =>
          if (curvesOf s.curves).any (fun g => (curvesOf c.curves).contains g) then
            .done { vers := v, suite := id, alpn := alpnOf c s, canary := .none }
          else .fail
      else
        match pickCipherSuite (offerOf c) s.suites s.prefer (factsOf c s v) with
        | .unmodelled => .unmodelled
        | .noSuite => .fail
        | .suite r =>
          if scsvBad c s v then .fail else
          if !exchangeWorks r s.key v then .fail else
          if clientAborts (maxSupported (cvOf c)) v (sentinelOf s v) then .fail
          else .done { vers := v, suite := r.id, alpn := alpnOf c s, canary := sentinelOf s v } := rfl

/-- **when and with what a negotiation completes** — every field of the outcome, both protocol generations -/
theorem negotiate_done_iff (c : Client) (s : Server) (o : Outcome) :
    negotiate c s = .done o ↔
      ∃ v, mutualVersion (svOf s) (cvOf c) = some v ∧ o.vers = v ∧ o.alpn = alpnOf c s ∧
        (if v = VersionTLS13 then
           scsvBad c s v = false ∧ pickTLS13 (offerOf c) s.prefer = some (some o.suite) ∧
           (curvesOf s.curves).any (fun g => (curvesOf c.curves).contains g) = true ∧ o.canary = .none
         else
           ∃ r, pickCipherSuite (offerOf c) s.suites s.prefer (factsOf c s v) = .suite r ∧ scsvBad c s v = false ∧
             exchangeWorks r s.key v = true ∧ clientAborts (maxSupported (cvOf c)) v (sentinelOf s v) = false ∧
             o.suite = r.id ∧ o.canary = sentinelOf s v) := by
  rw [negotiate_eq]
  obtain ⟨ov, os, oa, oc⟩ := o
  cases hv : mutualVersion (svOf s) (cvOf c) with
  | none => simp
  | some v =>
    simp only [mutualVersion_nonempty hv, Bool.false_eq_true, if_false, Option.some.injEq, exists_eq_left']
    generalize scsvBad c s v = sb
    generalize alpnOf c s = al
    generalize sentinelOf s v = sen
    by_cases h13 : v = VersionTLS13
    · subst h13
      simp only [beq_self_eq_true, if_true]
      generalize pickTLS13 (offerOf c) s.prefer = p13
      generalize (curvesOf s.curves).any (fun g => (curvesOf c.curves).contains g) = cu
      cases sb <;> cases cu <;> rcases p13 with _ | _ | id <;> simp <;> (constructor <;> (rintro ⟨rfl, rfl, rfl, rfl⟩; simp))
    · have hb : (v == VersionTLS13) = false := by simpa using h13
      simp only [hb, Bool.false_eq_true, if_false, h13]
      generalize pickCipherSuite (offerOf c) s.suites s.prefer (factsOf c s v) = pk
      cases pk with
      | unmodelled => simp
      | noSuite => simp
      | suite r =>
        simp only [Pick.suite.injEq, exists_eq_left']
        generalize exchangeWorks r s.key v = ex
        generalize clientAborts (maxSupported (cvOf c)) v sen = ab
        cases sb <;> cases ex <;> cases ab <;> simp <;> (constructor <;> (rintro ⟨rfl, rfl, rfl, rfl⟩; simp))

/-- **when a negotiation fails** (complete characterisation, both protocol generations):
    no shared version; or
    * TLS 1.3: TLS_FALLBACK_SCSV misuse ∨ no shared TLS 1.3 suite ∨ no shared group;
    * TLS ≤ 1.2: no id enabled on both sides that is implemented and usable with the server's key/curves/version ∨
      for the selected suite: SCSV misuse ∨ its key exchange cannot be carried out (DSS; Ed25519 below TLS 1.2) ∨ the
      client's downgrade check fires (only possible with a forged ServerRandom: `negotiate_abort_only_forged`) -/
theorem negotiate_fail_iff (c : Client) (s : Server) :
    negotiate c s = .fail ↔
      (∀ w, w ∈ cvOf c → w ∉ svOf s) ∨
      ∃ v, mutualVersion (svOf s) (cvOf c) = some v ∧
        (if v = VersionTLS13 then
           scsvBad c s v = true ∨
           (prefLists13 (offerOf c) s.prefer ≠ none ∧
             ∀ x ∈ offerOf c, x ∈ defaultCipherSuitesTLS13 → isTLS13Suite x = false) ∨
           ((∃ id, pickTLS13 (offerOf c) s.prefer = some (some id)) ∧
             (curvesOf s.curves).any (fun g => (curvesOf c.curves).contains g) = false)
         else
           (prefLists12 (offerOf c) s.suites s.prefer ≠ none ∧
             ∀ x ∈ offerOf c, x ∈ s.suites.getD defaultCipherSuites →
               ∀ rx, lookup implemented x = some rx → cipherSuiteOk (factsOf c s v) rx = false) ∨
           ∃ r, pickCipherSuite (offerOf c) s.suites s.prefer (factsOf c s v) = .suite r ∧
             (scsvBad c s v = true ∨ exchangeWorks r s.key v = false ∨
              clientAborts (maxSupported (cvOf c)) v (sentinelOf s v) = true)) := by
  rw [negotiate_eq, ← version_none_iff, ← pick13_none_iff]
  cases hv : mutualVersion (svOf s) (cvOf c) with
  | none => simp
  | some v =>
    simp only [mutualVersion_nonempty hv, Bool.false_eq_true, if_false, Option.some.injEq, exists_eq_left',
      reduceCtorEq, false_or, ← pick_noSuite_iff]
    generalize scsvBad c s v = sb
    generalize sentinelOf s v = sen
    by_cases h13 : v = VersionTLS13
    · subst h13
      simp only [beq_self_eq_true, if_true]
      generalize pickTLS13 (offerOf c) s.prefer = p13
      generalize (curvesOf s.curves).any (fun g => (curvesOf c.curves).contains g) = cu
      cases sb <;> cases cu <;> rcases p13 with _ | _ | id <;> simp
    · have hb : (v == VersionTLS13) = false := by simpa using h13
      simp only [hb, Bool.false_eq_true, if_false, h13]
      generalize pickCipherSuite (offerOf c) s.suites s.prefer (factsOf c s v) = pk
      cases pk with
      | unmodelled => simp
      | noSuite => simp
      | suite r =>
        simp only [Pick.suite.injEq, exists_eq_left', reduceCtorEq, false_or]
        generalize exchangeWorks r s.key v = ex
        generalize clientAborts (maxSupported (cvOf c)) v sen = ab
        cases sb <;> cases ex <;> cases ab <;> simp

/-- where the model itself gives up: exactly when `deprioritizeAES` would have to sort more than 20 ids -/
theorem negotiate_unmodelled_iff (c : Client) (s : Server) :
    negotiate c s = .unmodelled ↔
      ∃ v, mutualVersion (svOf s) (cvOf c) = some v ∧
        (if v = VersionTLS13 then scsvBad c s v = false ∧ prefLists13 (offerOf c) s.prefer = none
         else prefLists12 (offerOf c) s.suites s.prefer = none) := by
  rw [negotiate_eq]
  cases hv : mutualVersion (svOf s) (cvOf c) with
  | none => simp
  | some v =>
    simp only [mutualVersion_nonempty hv, Bool.false_eq_true, if_false, Option.some.injEq, exists_eq_left',
      ← pick_unmodelled_iff _ _ _ (factsOf c s v)]
    generalize scsvBad c s v = sb
    generalize sentinelOf s v = sen
    by_cases h13 : v = VersionTLS13
    · subst h13
      simp only [beq_self_eq_true, if_true, pickTLS13_eq]
      generalize prefLists13 (offerOf c) s.prefer = pl
      generalize (curvesOf s.curves).any (fun g => (curvesOf c.curves).contains g) = cu
      rcases pl with _ | ⟨pref, sup⟩
      · cases sb <;> simp
      · simp only
        generalize List.find? (fun id => sup.contains id && isTLS13Suite id) pref = fd
        cases sb <;> cases cu <;> cases fd <;> simp
    · have hb : (v == VersionTLS13) = false := by simpa using h13
      simp only [hb, Bool.false_eq_true, if_false, h13]
      generalize pickCipherSuite (offerOf c) s.suites s.prefer (factsOf c s v) = pk
      cases pk with
      | unmodelled => simp
      | noSuite => simp
      | suite r =>
        simp only [reduceCtorEq, iff_false]
        generalize exchangeWorks r s.key v = ex
        generalize clientAborts (maxSupported (cvOf c)) v sen = ab
        cases sb <;> cases ex <;> cases ab <;> simp

/-- **(1) the negotiated suite is enabled on both sides and usable**: it is in the client's ClientHello list; for
    TLS ≤ 1.2 it is in the server's configured-or-default list, implemented (`cipherSuiteByID` finds the row whose id
    it is), passes `cipherSuiteOk` for the server's key, the shared curves and the negotiated version, and its key
    exchange can be carried out; for TLS 1.3 it is in `defaultCipherSuitesTLS13` and a TLS 1.3 suite -/
theorem negotiate_suite_sound (c : Client) (s : Server) (o : Outcome) (h : negotiate c s = .done o) :
    o.suite ∈ offerOf c ∧
    (if o.vers = VersionTLS13 then o.suite ∈ defaultCipherSuitesTLS13 ∧ isTLS13Suite o.suite = true
     else o.suite ∈ s.suites.getD defaultCipherSuites ∧
       ∃ r, lookup implemented o.suite = some r ∧ r.id = o.suite ∧ cipherSuiteOk (factsOf c s o.vers) r = true ∧
         exchangeWorks r s.key o.vers = true) := by
  obtain ⟨v, _, hvers, _, hrest⟩ := (negotiate_done_iff c s o).mp h
  subst hvers
  split at hrest
  · rename_i h13
    obtain ⟨_, hp, _, _⟩ := hrest
    obtain ⟨h1, h2, h3⟩ := pick13_sound _ _ _ hp
    simp only [h13, if_true]
    exact ⟨h1, h2, h3⟩
  · rename_i h13
    obtain ⟨r, hp, _, hex, _, hid, _⟩ := hrest
    obtain ⟨h1, h2, h3, h4⟩ := pick_suite_sound _ _ _ _ _ hp
    simp only [h13, if_false]
    rw [hid]
    exact ⟨h1, h2, r, h3, rfl, h4, hex⟩

/-- **(2) chosen by the documented preference rule**: the suite is the FIRST qualifying id of the effective
    preference list `pref` — the client's offer, or the server's list under PreferServerCipherSuites, as configured or
    after the `deprioritizeAES` the code applies (`prefLists12_cases` / `prefLists13_cases` say which) — where
    qualifying means: in the other side's list `sup` and (≤ 1.2) implemented + `cipherSuiteOk`, (1.3) a TLS 1.3 suite -/
theorem negotiate_suite_preference (c : Client) (s : Server) (o : Outcome) (h : negotiate c s = .done o) :
    ∃ pref sup pre post, pref = pre ++ o.suite :: post ∧
      (if o.vers = VersionTLS13 then
         prefLists13 (offerOf c) s.prefer = some (pref, sup) ∧
         ∀ x ∈ pre, (sup.contains x && isTLS13Suite x) = false
       else
         prefLists12 (offerOf c) s.suites s.prefer = some (pref, sup) ∧
         ∀ x ∈ pre, ∀ rx, lookup implemented x = some rx →
           (cipherSuiteOk (factsOf c s o.vers) rx && sup.contains x) = false) := by
  obtain ⟨v, _, hvers, _, hrest⟩ := (negotiate_done_iff c s o).mp h
  subst hvers
  split at hrest
  · rename_i h13
    obtain ⟨_, hp, _, _⟩ := hrest
    obtain ⟨pref, sup, pre, post, hl, he, hpre⟩ := pick13_first _ _ _ hp
    exact ⟨pref, sup, pre, post, he, by simp only [h13, if_true]; exact ⟨hl, hpre⟩⟩
  · rename_i h13
    obtain ⟨r, hp, _, _, _, hid, _⟩ := hrest
    obtain ⟨pref, sup, pre, post, hl, he, hpre⟩ := pick_suite_first _ _ _ _ _ hp
    exact ⟨pref, sup, pre, post, by rw [hid]; exact he, by simp only [h13, if_false]; exact ⟨hl, hpre⟩⟩

/-- **(3a) ALPN**: the outcome's protocol is exactly `mutualProtocol` of the two lists (none when the client sent no
    extension): a protocol the client listed, and the first of the SERVER's list that the client lists -/
theorem negotiate_alpn_sound (c : Client) (s : Server) (o : Outcome) (h : negotiate c s = .done o) :
    o.alpn = (if c.alpn.isEmpty then none else mutualProtocol c.alpn s.alpn) ∧
    ∀ p, o.alpn = some p → p ∈ c.alpn ∧ ∃ pre post, s.alpn = pre ++ p :: post ∧ ∀ x ∈ pre, x ∉ c.alpn := by
  obtain ⟨v, _, _, hal, _⟩ := (negotiate_done_iff c s o).mp h
  refine ⟨hal, fun p hp => ?_⟩
  rw [hal] at hp
  simp only [alpnOf] at hp
  split at hp
  · simp at hp
  · exact alpn_rule _ _ _ hp

/-- **(3b) sentinel**: the outcome's sentinel is exactly what the server's rule `serverCanary` puts into a TLS ≤ 1.2
    ServerHello (or the forged ServerRandom value), none for TLS 1.3, and a completed negotiation never carries a
    sentinel the client's check would reject -/
theorem negotiate_canary (c : Client) (s : Server) (o : Outcome) (h : negotiate c s = .done o) :
    o.canary = (if o.vers = VersionTLS13 then .none else sentinelOf s o.vers) ∧
    clientAborts (maxSupported (cvOf c)) o.vers o.canary = false := by
  obtain ⟨v, _, hvers, _, hrest⟩ := (negotiate_done_iff c s o).mp h
  subst hvers
  split at hrest
  · rename_i h13
    obtain ⟨_, _, _, hc⟩ := hrest
    rw [hc]
    exact ⟨by simp only [h13, if_true], client_no_abort_without_canary _ _⟩
  · rename_i h13
    obtain ⟨r, _, _, _, hab, _, hc⟩ := hrest
    rw [hc]
    exact ⟨by simp only [h13, if_false], hab⟩

/-- **the server's own sentinel never makes the client of the negotiated connection abort**: the selected version is
    the highest shared one, so the sentinel is only present when the CLIENT's maximum is the negotiated version -/
theorem honest_sentinel_no_abort (cmin cmax smin smax v : Nat)
    (h : mutualVersion (configVersions supportedVersions smin smax) (configVersions supportedVersions cmin cmax) = some v) :
    clientAborts (maxSupported (configVersions supportedVersions cmin cmax)) v
      (serverCanary (maxSupported (configVersions supportedVersions smin smax)) v) = false := by
  obtain ⟨hvc, hvs, hmax⟩ := version_is_max_shared cmin cmax smin smax v h
  cases hab : clientAborts _ v (serverCanary _ v) with
  | false => rfl
  | true =>
    exfalso
    obtain ⟨hlt, hne⟩ := clientAborts_lt hab
    have hs := ((canary_iff _ _).mp hne).2
    have hcm := maxSupported_mem hvc
    have hsm := maxSupported_mem hvs
    by_cases hle : maxSupported (configVersions supportedVersions cmin cmax) ≤ maxSupported (configVersions supportedVersions smin smax)
    · have := hmax _ hcm (configVersions_convex _ _ _ v _ _ hvs hsm (configVersions_sub _ _ _ _ hcm) (Nat.le_of_lt hlt) hle)
      omega
    · have := hmax _ (configVersions_convex _ _ _ v _ _ hvc hcm (configVersions_sub _ _ _ _ hsm) (Nat.le_of_lt hs) (by omega)) hsm
      omega

/-- a suite that passed `cipherSuiteOk` (hence not DSS — table fact) can carry out its key exchange unless the key is
    Ed25519 and the version is below TLS 1.2 -/
theorem exchangeWorks_of_ok (r : SuiteRow) (f : Facts) (key : KeyType) (v : Nat)
    (hl : lookup implemented r.id = some r) (hok : cipherSuiteOk f r = true)
    (hed : ¬(key = .ed25519 ∧ v < VersionTLS12)) : exchangeWorks r key v = true := by
  have hmem : r ∈ implemented := List.mem_of_find?_eq_some hl
  have hdss := (table_flags_consistent r hmem hl).2.2
  have : hasFlag r.flags flagDSS = false := by
    unfold cipherSuiteOk at hok
    simp only [Bool.and_eq_true, Bool.not_eq_true'] at hok
    exact hok.1.2
  rw [this] at hdss
  unfold exchangeWorks
  simp only [← hdss, Bool.false_eq_true, if_false]
  split
  · rename_i hc
    simp only [Bool.and_eq_true, beq_iff_eq, decide_eq_true_eq] at hc
    exact absurd hc hed
  · rfl

/-- with fresh server randomness the client's downgrade check never fails a negotiation -/
theorem negotiate_abort_only_forged (c : Client) (s : Server) (v : Nat) (hr : s.rand = .none)
    (hv : mutualVersion (svOf s) (cvOf c) = some v) :
    clientAborts (maxSupported (cvOf c)) v (sentinelOf s v) = false := by
  have := honest_sentinel_no_abort c.minV c.maxV s.minV s.maxV v hv
  simpa only [sentinelOf, hr] using this

/-- **liveness, TLS ≤ 1.2** (the model-level half of "configurations that share a version and an implemented suite
    usable with the server's key complete the handshake"): highest shared version `v` ≤ 1.2, an id enabled on both sides
    that is implemented and passes `cipherSuiteOk`, no SCSV misuse, an honest ServerRandom, not (Ed25519 key below
    TLS 1.2), ≤ 20 ids to deprioritise — then the negotiation completes, at `v` -/
theorem negotiate_completes_12 (c : Client) (s : Server) (v : Nat)
    (hv : mutualVersion (svOf s) (cvOf c) = some v) (h13 : v ≠ VersionTLS13)
    (hshare : ∃ x ∈ offerOf c, x ∈ s.suites.getD defaultCipherSuites ∧
       ∃ rx, lookup implemented x = some rx ∧ cipherSuiteOk (factsOf c s v) rx = true)
    (hed : ¬(s.key = .ed25519 ∧ v < VersionTLS12))
    (hscsv : scsvBad c s v = false) (hr : s.rand = .none)
    (hm : prefLists12 (offerOf c) s.suites s.prefer ≠ none) :
    ∃ o, negotiate c s = .done o ∧ o.vers = v := by
  cases hn : negotiate c s with
  | done o =>
    obtain ⟨v', hv', ho, _⟩ := (negotiate_done_iff c s o).mp hn
    rw [hv] at hv'
    simp only [Option.some.injEq] at hv'
    exact ⟨o, rfl, by rw [ho, hv']⟩
  | unmodelled =>
    exfalso
    obtain ⟨v', hv', hrest⟩ := (negotiate_unmodelled_iff c s).mp hn
    rw [hv] at hv'
    simp only [Option.some.injEq] at hv'
    subst hv'
    simp only [h13, if_false] at hrest
    exact hm hrest
  | fail =>
    exfalso
    rcases (negotiate_fail_iff c s).mp hn with hno | ⟨v', hv', hrest⟩
    · obtain ⟨hvc, hvs, _⟩ := version_is_max_shared _ _ _ _ v hv
      exact hno v hvc hvs
    · rw [hv] at hv'
      simp only [Option.some.injEq] at hv'
      subst hv'
      simp only [h13, if_false] at hrest
      rcases hrest with ⟨_, hnone⟩ | ⟨r, hp, hbad⟩
      · obtain ⟨x, hx, hs, rx, hl, hok⟩ := hshare
        rw [hnone x hx hs rx hl] at hok
        exact absurd hok (by simp)
      · obtain ⟨_, _, hl, hok⟩ := pick_suite_sound _ _ _ _ _ hp
        rcases hbad with hb | hb | hb
        · rw [hscsv] at hb; exact absurd hb (by simp)
        · rw [exchangeWorks_of_ok r _ s.key v hl hok hed] at hb; exact absurd hb (by simp)
        · rw [negotiate_abort_only_forged c s v hr hv] at hb; exact absurd hb (by simp)

/-- **liveness, TLS 1.3**: a shared TLS 1.3 suite and a shared group suffice -/
theorem negotiate_completes_13 (c : Client) (s : Server)
    (hv : mutualVersion (svOf s) (cvOf c) = some VersionTLS13)
    (hshare : ∃ x ∈ offerOf c, x ∈ defaultCipherSuitesTLS13 ∧ isTLS13Suite x = true)
    (hcurve : (curvesOf s.curves).any (fun g => (curvesOf c.curves).contains g) = true)
    (hscsv : scsvBad c s VersionTLS13 = false)
    (hm : prefLists13 (offerOf c) s.prefer ≠ none) :
    ∃ o, negotiate c s = .done o ∧ o.vers = VersionTLS13 := by
  cases hn : negotiate c s with
  | done o =>
    obtain ⟨v', hv', ho, _⟩ := (negotiate_done_iff c s o).mp hn
    rw [hv] at hv'
    simp only [Option.some.injEq] at hv'
    exact ⟨o, rfl, by rw [ho, hv']⟩
  | unmodelled =>
    exfalso
    obtain ⟨v', hv', hrest⟩ := (negotiate_unmodelled_iff c s).mp hn
    rw [hv] at hv'
    simp only [Option.some.injEq] at hv'
    subst hv'
    simp only [if_true] at hrest
    exact hm hrest.2
  | fail =>
    exfalso
    rcases (negotiate_fail_iff c s).mp hn with hno | ⟨v', hv', hrest⟩
    · obtain ⟨hvc, hvs, _⟩ := version_is_max_shared _ _ _ _ _ hv
      exact hno _ hvc hvs
    · rw [hv] at hv'
      simp only [Option.some.injEq] at hv'
      subst hv'
      simp only [if_true] at hrest
      rcases hrest with hb | ⟨_, hnone⟩ | ⟨_, hb⟩
      · rw [hscsv] at hb; exact absurd hb (by simp)
      · obtain ⟨x, hx, hs, h3⟩ := hshare
        rw [hnone x hx hs] at h3
        exact absurd h3 (by simp)
      · rw [hcurve] at hb; exact absurd hb (by simp)

/-! ### resumption across configuration changes

  `connect` is `negotiate` with the resumption decision of `loadSession` / `checkForResumption` in place; the client's
  cache content and BOTH configurations are arbitrary (in particular: changed since the session was established). -/

/-- the client presents a session only if its CURRENT configuration has the cache, still supports the session's
    version and still offers its suite (TLS 1.3: some suite with the same hash) -/
theorem loadSession_some (cv offer : List Nat) (u : Bool) (cache : Option Sess) (se : Sess)
    (h : loadSession cv offer u cache = some se) :
    u = true ∧ cache = some se ∧ se.vers ∈ cv ∧
    (se.vers ≠ VersionTLS13 → se.suite ∈ offer) ∧
    (se.vers = VersionTLS13 → ∃ id ∈ offer, isTLS13Suite id = true ∧ sameHash id se.suite = true) := by
  unfold loadSession at h
  cases u with
  | false => simp at h
  | true =>
    cases cache with
    | none => simp at h
    | some s0 =>
      simp only [Bool.not_true, Bool.false_eq_true, if_false] at h
      split at h
      · simp at h
      · rename_i hv
        have hv' : s0.vers ∈ cv := by simpa using hv
        split at h
        · rename_i hne
          have hne' : s0.vers ≠ VersionTLS13 := by simpa using hne
          split at h
          · rename_i hc
            simp only [Option.some.injEq] at h
            subst h
            simp only [Bool.and_eq_true] at hc
            exact ⟨rfl, rfl, hv', fun _ => by simpa using hc.1, fun he => absurd he hne'⟩
          · simp at h
        · rename_i h13
          have h13' : s0.vers = VersionTLS13 := by simpa using h13
          split at h
          · simp at h
          · split at h
            · rename_i hany
              simp only [Option.some.injEq] at h
              subst h
              refine ⟨rfl, rfl, hv', fun hne => absurd h13' hne, fun _ => ?_⟩
              rw [List.any_eq_true] at hany
              obtain ⟨id, hid, hp⟩ := hany
              simp only [Bool.and_eq_true] at hp
              exact ⟨id, hid, hp.1, hp.2⟩
            · simp at h

/-- **TLS ≤ 1.2 server**: a ticket is resumed only when it opens under a key the server lists NOW, for the version
    negotiated NOW, with a suite the client offers NOW and the server's CURRENT configuration enables and can use with
    its CURRENT key (seeded defect: the second list was the client's) -/
theorem checkResume12_sound (v : Nat) (offer : List Nat) (srv : Option (List Nat)) (f : Facts)
    (tk : Option (List Nat)) (p : Option Sess) (r : SuiteRow) (old : Bool)
    (h : checkResume12 v offer srv f tk p = some (r, old)) :
    ∃ se ks, p = some se ∧ tk = some ks ∧ se.key ∈ ks ∧ se.vers = v ∧ v ≠ VersionTLS13 ∧ r.id = se.suite ∧
      se.suite ∈ offer ∧ se.suite ∈ srv.getD defaultCipherSuites ∧
      lookup implemented se.suite = some r ∧ cipherSuiteOk f r = true ∧ old = (ks.head? != some se.key) := by
  unfold checkResume12 at h
  split at h
  · rename_i ks se
    split at h
    · simp at h
    · rename_i h13
      split at h
      · simp at h
      · rename_i hk
        split at h
        · simp at h
        · rename_i hv
          split at h
          · simp at h
          · rename_i ho
            split at h
            · simp at h
            · rename_i r' hsel
              simp only [Option.some.injEq, Prod.mk.injEq] at h
              obtain ⟨hr, hold⟩ := h
              subst hr
              obtain ⟨pre, post, he, h1, h2, h3, _⟩ := select_first_qualifying _ _ _ _ hsel
              have hid : r'.id = se.suite := by
                cases pre with
                | nil => simp at he; exact he.1.symm
                | cons a t =>
                  simp only [List.cons_append, List.cons.injEq] at he
                  have := congrArg List.length he.2
                  simp at this
              have hv' : v = se.vers := by simpa using hv
              refine ⟨se, ks, rfl, rfl, by simpa using hk, hv'.symm, ?_, hid, by simpa using ho, ?_, ?_, h2, hold.symm⟩
              · intro h; rw [hv'] at h; simp [h] at h13
              · rw [← hid]; simpa using h3
              · rw [← hid]; exact h1
  · simp at h

/-- **TLS 1.3 server**: a PSK is accepted only when it opens under a current key and was issued under a suite with
    the hash of the suite selected NOW (seeded defect: hash comparison dropped) -/
theorem checkResume13_sound (suite : Nat) (m : Bool) (tk : Option (List Nat)) (p : Option Sess)
    (h : checkResume13 suite m tk p = true) :
    ∃ se ks, p = some se ∧ tk = some ks ∧ m = true ∧ se.key ∈ ks ∧ se.vers = VersionTLS13 ∧ sameHash se.suite suite = true := by
  unfold checkResume13 at h
  split at h
  · rename_i ks se
    simp only [Bool.and_eq_true] at h
    exact ⟨se, ks, rfl, rfl, h.1.1.1.1, by simpa using h.1.1.2, by simpa using h.1.1.1.2, h.2⟩
  · simp at h

/-- without a presented session (no cache in the client's configuration, empty cache, or a session the client's
    current configuration no longer fits) the connection is exactly the full negotiation -/
theorem connect_not_presented (k : Conn) (cache : Option Sess)
    (h : loadSession (configVersions supportedVersions k.c.minV k.c.maxV)
          (clientOffer (configVersions supportedVersions k.c.minV k.c.maxV) k.c.suites k.c.force) k.useCache cache = none) :
    (connect k cache).res = negotiate k.c k.s ∧ (connect k cache).resumed = false := by
  have h12 : ∀ v offer srv f tk, checkResume12 v offer srv f tk none = none := by
    intro v offer srv f tk; unfold checkResume12; split <;> simp_all
  have h13 : ∀ suite m tk, checkResume13 suite m tk none = false := by
    intro suite m tk; unfold checkResume13; split <;> simp_all
  unfold connect negotiate
  simp only [h, h12, h13]
  repeat' split
  all_goals simp [failedWith_res, completed_res]

/-- **fallback, never failure**: whatever the client's cache holds, if the two CURRENT configurations can complete a
    full handshake then the connection completes, at the same (highest shared) version — a session that cannot be
    resumed costs a full handshake, not the connection -/
theorem connect_never_blocks (k : Conn) (cache : Option Sess) (o : Outcome) (h : negotiate k.c k.s = .done o) :
    ∃ o', (connect k cache).res = .done o' ∧ o'.vers = o.vers ∧ o'.alpn = o.alpn ∧ o'.canary = o.canary ∧
      ((connect k cache).resumed = false → o' = o) := by
  unfold negotiate at h
  unfold connect
  simp only at h ⊢
  repeat' split at h
  all_goals first
    | (simp at h; done)
    | (simp only [Result.done.injEq] at h
       subst h
       simp only [*, if_true, if_false, Bool.false_eq_true]
       first
         | exact ⟨_, (completed_res _ _ _ _ _).1, rfl, rfl, rfl, fun _ => rfl⟩
         | (split
            · try simp only [*, if_true, if_false, Bool.false_eq_true]
              refine ⟨_, (completed_res _ _ _ _ _).1, rfl, rfl, rfl, fun hr => ?_⟩
              rw [(completed_res _ _ _ _ _).2] at hr
              simp at hr
            · try simp only [*, if_true, if_false, Bool.false_eq_true]
              exact ⟨_, (completed_res _ _ _ _ _).1, rfl, rfl, rfl, fun _ => rfl⟩))

/-- **a resumed connection is consistent with BOTH current configurations and with the original session**: if the
    connection resumes then it completes, the client's current configuration uses the cache, the cached session was
    sealed under a key the server lists now, it has the version negotiated now, and
    * TLS ≤ 1.2: its suite is the connection's suite, the client offers it now and the server's current configuration
      enables it;
    * TLS 1.3: it was issued under a suite with the same hash as the suite selected now. -/
theorem connect_resumed_sound (k : Conn) (cache : Option Sess) (h : (connect k cache).resumed = true) :
    ∃ o se ks, (connect k cache).res = .done o ∧ cache = some se ∧ k.useCache = true ∧ k.tkeys = some ks ∧ se.key ∈ ks ∧
      se.vers = o.vers ∧
      (if o.vers = VersionTLS13 then sameHash se.suite o.suite = true
       else se.suite = o.suite ∧
            o.suite ∈ clientOffer (configVersions supportedVersions k.c.minV k.c.maxV) k.c.suites k.c.force ∧
            o.suite ∈ k.s.suites.getD defaultCipherSuites) := by
  generalize hc : connect k cache = out at h ⊢
  unfold connect at hc
  simp only at hc
  repeat' split at hc
  all_goals subst hc
  all_goals first
    | (simp [(failedWith_res _ _).2] at h; done)
    | (rw [(completed_res _ _ _ _ _).2] at h; simp at h; done)
    | skip
  all_goals first
    | (rw [(completed_res _ _ _ _ _).2] at h
       obtain ⟨se, ks, hp, htk, _, hk, hv, hh⟩ := checkResume13_sound _ _ _ _ h
       obtain ⟨hu, hcache, _, _, _⟩ := loadSession_some _ _ _ _ _ hp
       refine ⟨_, se, ks, (completed_res _ _ _ _ _).1, hcache, hu, htk, hk, ?_, ?_⟩
       · simp_all
       · simp_all)
    | (obtain ⟨se, ks, hp, htk, hk, hv, hne, hid, hoff, hsrv, _, _, _⟩ := checkResume12_sound _ _ _ _ _ _ _ _ (by assumption)
       obtain ⟨hu, hcache, _, _, _⟩ := loadSession_some _ _ _ _ _ hp
       refine ⟨_, se, ks, (completed_res _ _ _ _ _).1, hcache, hu, htk, hk, hv, ?_⟩
       simp only [if_neg hne]
       rw [hid]
       exact ⟨rfl, hoff, hsrv⟩)

/-- **a connection that does not resume IS the full negotiation** (when that is inside the model), whatever the cache
    holds: every `negotiate_*` theorem above transfers to non-resumed connections of a sequence -/
theorem connect_full_is_negotiate (k : Conn) (cache : Option Sess) (hr : (connect k cache).resumed = false)
    (hm : negotiate k.c k.s ≠ .unmodelled) : (connect k cache).res = negotiate k.c k.s := by
  unfold connect at hr ⊢
  unfold negotiate at hm ⊢
  simp only at hr hm ⊢
  repeat' split
  all_goals first
    | (simp [failedWith_res, completed_res]; done)
    | (simp_all [failedWith_res, completed_res]; done)
    | skip

/-! ### non-vacuity -/
example : negotiate { minV := 0, maxV := 771, suites := some [50, 47], force := true, curves := none, alpn := [] }
    { minV := 0, maxV := 0, suites := none, prefer := false, curves := none, alpn := [], key := .rsa, rand := .none }
    = .done { vers := 771, suite := 47, alpn := none, canary := .c12 } := by decide

/-- a TLS 1.2 client (cache on) against a server with ticket key 0 -/
def exConn (cs ss : List Nat) (tk : Option (List Nat)) : Conn :=
  { c := { minV := 0, maxV := 771, suites := some cs, force := false, curves := none, alpn := [] },
    s := { minV := 0, maxV := 771, suites := some ss, prefer := false, curves := none, alpn := [], key := .rsa, rand := .none },
    useCache := true, tkeys := tk }
def exConn13 (cs : List Nat) : Conn :=
  { c := { minV := 0, maxV := 0, suites := some cs, force := false, curves := none, alpn := [] },
    s := { minV := 0, maxV := 0, suites := none, prefer := false, curves := none, alpn := [], key := .rsa, rand := .none },
    useCache := true, tkeys := some [0] }
-- unchanged configurations: the second connection resumes (hypothesis of `connect_resumed_sound` is satisfiable)
example : (runSeq none [exConn [49199, 47] [49199, 47] (some [0]), exConn [49199, 47] [49199, 47] (some [0])]).map
    (fun o => (o.res, o.resumed, o.ev)) =
    [(.done { vers := 771, suite := 49199, alpn := none, canary := .none }, false, .put),
     (.done { vers := 771, suite := 49199, alpn := none, canary := .none }, true, .keep)] := by decide
-- the server's configuration drops the session's suite: full handshake with the remaining suite, not a failure
example : (runSeq none [exConn [49199, 47] [49199, 47] (some [0]), exConn [49199, 47] [47] (some [0])]).map
    (fun o => (o.res, o.resumed, o.ev)) =
    [(.done { vers := 771, suite := 49199, alpn := none, canary := .none }, false, .put),
     (.done { vers := 771, suite := 47, alpn := none, canary := .none }, false, .put)] := by decide
-- rotated ticket keys: resumed under the old key, re-issued under the new one
example : (runSeq none [exConn [47] [47] (some [0]), exConn [47] [47] (some [1, 0]), exConn [47] [47] (some [1])]).map
    (fun o => (o.resumed, o.ev)) = [(false, .put), (true, .put), (true, .keep)] := by decide
-- TLS 1.3: the client now puts a SHA-384 suite first; the SHA-256 PSK is skipped and a full handshake follows
example : (runSeq none [exConn13 [4865], exConn13 [4866, 4865], exConn13 [4866, 4865]]).map
    (fun o => (o.res, o.resumed)) =
    [(.done { vers := 772, suite := 4865, alpn := none, canary := .none }, false),
     (.done { vers := 772, suite := 4866, alpn := none, canary := .none }, false),
     (.done { vers := 772, suite := 4866, alpn := none, canary := .none }, true)] := by decide
example : checkResume13 4866 true (some [0]) (some { vers := 772, suite := 4866, key := 0 }) = true := by decide
example : (checkResume12 771 [47] (some [47]) (facts 771 .rsa true) (some [1, 0]) (some { vers := 771, suite := 47, key := 0 })).isSome = true := by decide
example : (loadSession [772, 771] [47, 4865] true (some { vers := 772, suite := 4867, key := 0 })).isSome = true := by decide
example : mutualVersion (configVersions supportedVersions 770 0) (configVersions supportedVersions 0 771) = some 771 := by decide

/-! non-vacuity of the negotiation / deprioritisation theorems -/
def exC (maxV : Nat) (suites : List Nat) : Client :=
  { minV := 0, maxV := maxV, suites := some suites, force := false, curves := none, alpn := [7, 9] }
def exS (maxV : Nat) (prefer : Bool) (rand : Canary) : Server :=
  { minV := 0, maxV := maxV, suites := none, prefer := prefer, curves := none, alpn := [9, 7], key := .rsa, rand := rand }
-- TLS 1.3, client preference (ALPN follows the SERVER's order)
example : negotiate (exC 0 [47, 4865]) (exS 0 false .none) =
    .done { vers := 772, suite := 4865, alpn := some 9, canary := .none } := by decide
-- TLS 1.2 with PreferServerCipherSuites: the server's (deprioritised default) list decides; the server could have
-- gone higher, so the sentinel is present, and the TLS 1.2 client does not reject it
example : negotiate (exC 771 [47, 49199]) (exS 0 true .none) =
    .done { vers := 771, suite := 49199, alpn := some 9, canary := .c12 } := by decide
-- the failure causes of `negotiate_fail_iff`: no shared version / no shared usable suite (ECDSA suite, RSA key) /
-- FALLBACK_SCSV although the server supports more / a forged sentinel makes a TLS 1.3 client abort
example : negotiate { exC 770 [47] with minV := 769 } { exS 0 false .none with minV := 771 } = .fail := by decide
example : negotiate (exC 771 [49195]) (exS 0 false .none) = .fail := by decide
example : negotiate { exC 771 [47, 22016] with force := true } (exS 0 false .none) = .fail := by decide
example : negotiate (exC 0 [47]) (exS 771 false .c12) = .fail ∧
    negotiate (exC 0 [47]) (exS 771 false .none) = .done { vers := 771, suite := 47, alpn := some 9, canary := .none } := by decide
-- where the model gives up (only when this machine has no AES-GCM hardware support: then the offer is deprioritised)
example : hasAESGCMHardwareSupport = false →
    negotiate { exC 771 (List.replicate 21 47) with force := true } (exS 771 false .none) = .unmodelled := by decide
-- hypotheses of the liveness theorems
example : ∃ o, negotiate (exC 771 [49195, 47]) (exS 0 false .none) = .done o ∧ o.vers = 771 :=
  negotiate_completes_12 _ _ 771 (by decide) (by decide) ⟨47, by decide, by decide,
    { id := 47, flags := 0, ka := "rsa", kind := "cbc", keyLen := 16, macLen := 20, ivLen := 16 }, by decide, by decide⟩
    (by decide) (by decide) rfl (by decide)
example : ∃ o, negotiate (exC 0 [47, 4866]) (exS 0 true .none) = .done o ∧ o.vers = 772 :=
  negotiate_completes_13 _ _ (by decide) ⟨4866, by decide, by decide, by decide⟩ (by decide) (by decide) (by decide)
-- the preference lists and the two picks
example : prefLists12 [47, 49199] (some [49199, 47]) true = some ([49199, 47], [47, 49199]) := by decide
example : (prefLists13 [4865, 4867] true).isSome = true := by decide
example : (match pickCipherSuite [53, 47] (some [47, 53]) true (facts 771 .rsa true) with | .suite r => r.id == 47 | _ => false) = true := by decide
example : pickTLS13 [4866, 4865] true = some (some 4865) ∨ pickTLS13 [4866, 4865] true = some (some 4866) := by decide
example : pickCipherSuite [49195] none false (facts 771 .rsa true) = .noSuite := by decide
-- deprioritizeAES: ChaCha20 moves in front of an ADJACENT AES-GCM id …
example : deprio [49199, 52392, 47] = some [52392, 49199, 47] := by decide
-- … but not across an id of neither class: the result is not "all non-AES-GCM AEAD ids before all AES-GCM ids"
-- (`less 52392 49199` holds, the pair keeps its order) — the documented "adjacent" behaviour, no inversion is ADJACENT
example : deprio [49199, 47, 52392] = some [49199, 47, 52392] ∧ less 52392 49199 = true := by decide
example : [49199, 47].Sublist [49199, 52392, 47] ∧ less 47 49199 = false := by decide
-- a connection that presents a session but does not resume it (hypotheses of `connect_full_is_negotiate`)
example : (connect (exConn [49199, 47] [47] (some [0])) (some { vers := 771, suite := 49199, key := 0 })).resumed = false ∧
    negotiate (exConn [49199, 47] [47] (some [0])).c (exConn [49199, 47] [47] (some [0])).s ≠ .unmodelled := by decide

/-! ### one listener Config, `GetConfigForClient` per connection (`c24 lsn`)

  `readClientHello` takes the ticket keys from `originalConfig.ticketKeys(configForClient)`: whatever Config the
  callback returns, as long as it sets no keys of its own the LISTENER's keys serve the connection — so tickets issued on
  one connection decrypt on the next although every connection may get a brand-new Config. -/

/-- **the documented rule, first half**: a callback that is unset, returns nil, returns a fresh Clone of the listener's
    Config or returns any other Config WITHOUT ticket settings leaves the listener's own keys in use — explicit ones,
    or its one auto-managed key -/
theorem hook_keeps_listener_keys (l : KeyCfg) (h : Hook) :
    ticketKeys l (forClientCfg l h none) = ownKeys l := by
  cases h <;> simp only [forClientCfg, ticketKeys, ownKeys]
  all_goals (cases hd : l.disabled <;> cases hk : l.keys.isEmpty <;> simp [hd, hk])

/-- **second half**: explicit keys on the returned Config (tickets not disabled on it) are the connection's keys,
    whatever the listener's Config says -/
theorem hook_explicit_keys_win (l m : KeyCfg) (hd : m.disabled = false) (hk : m.keys.isEmpty = false) :
    ticketKeys l (forClientCfg l .fresh (some m)) = m.keys := by
  simp [forClientCfg, ticketKeys, hd, hk]

/-- the same for keys set on a Clone of a listener Config that does not disable tickets -/
theorem hook_clone_keys_win (l m : KeyCfg) (hl : l.disabled = false) (hd : m.disabled = false) (hk : m.keys.isEmpty = false) :
    ticketKeys l (forClientCfg l .clone (some m)) = m.keys := by
  simp [forClientCfg, ticketKeys, hl, hd, hk]

/-- a returned Config that disables tickets: no keys, and the flag in force says so -/
theorem hook_disabled (l m : KeyCfg) (h : Hook) (hh : h = .clone ∨ h = .fresh) (hd : m.disabled = true) :
    ticketKeys l (forClientCfg l h (some m)) = [] ∧ inForceDisabled l (forClientCfg l h (some m)) = true := by
  rcases hh with rfl | rfl <;> simp [forClientCfg, ticketKeys, inForceDisabled, hd]

/-- the connection a step amounts to does not depend on HOW the listener's Config stays in force: callback unset,
    returning nil, or returning a fresh Clone -/
theorem lstepConn_unset_nil_clone (ls : Server) (lk : KeyCfg) (st : LStep) (h : Hook)
    (hh : h = .unset ∨ h = .retNil ∨ h = .clone) :
    lstepConn ls lk { st with hook := h, pk := none } = lstepConn ls lk { st with hook := .unset, pk := none } := by
  have hk := hook_keeps_listener_keys lk
  rcases hh with rfl | rfl | rfl
  · rfl
  · rfl
  · have h1 := hk .clone
    have h2 := hk .unset
    simp only [lstepConn, h1, h2]
    simp [forClientCfg, inForceDisabled]

/-- … nor on whether a per-client Config with the listener's server fields and no ticket settings is returned instead,
    when the listener's Config has tickets on -/
theorem lstepConn_fresh_same (ls : Server) (lk : KeyCfg) (st : LStep) (hs : st.s = ls) (hl : lk.disabled = false) :
    lstepConn ls lk { st with hook := .fresh, pk := none } = lstepConn ls lk { st with hook := .unset, pk := none } := by
  have h1 := hook_keeps_listener_keys lk .fresh
  have h2 := hook_keeps_listener_keys lk .unset
  simp only [lstepConn, h1, h2]
  simp [forClientCfg, inForceDisabled, hs, hl]

/-- with tickets disabled, or enabled with at least one key, a listener connection IS `connect` (every `connect_*`
    theorem above transfers) -/
theorem lconnect_eq_connect (k : LConn) (cache : Option Sess) (h : k.disabled = true ∨ k.keys ≠ []) :
    lconnect k cache = connect { c := k.c, s := k.s, useCache := k.useCache,
                                 tkeys := if k.disabled then none else some k.keys } cache := by
  unfold lconnect
  cases hd : k.disabled
  · rcases h with h | h
    · simp [hd] at h
    · cases hk : k.keys with
      | nil => exact absurd hk h
      | cons a as => simp
  · simp

/-- tickets enabled but no key (listener Config disables tickets, the per-client Config does not and brings none):
    nothing resumes, and a client that asks for tickets (session cache configured) never gets a completed handshake —
    the code as it is (finding F-C24-tickets-on-without-keys) -/
theorem lconnect_no_keys (k : LConn) (cache : Option Sess) (hd : k.disabled = false) (hk : k.keys = []) :
    (lconnect k cache).resumed = false ∧ (k.useCache = true → ∀ o, (lconnect k cache).res ≠ .done o) := by
  have hr : (connect { c := k.c, s := k.s, useCache := k.useCache, tkeys := none } cache).resumed = false := by
    cases hres : (connect { c := k.c, s := k.s, useCache := k.useCache, tkeys := none } cache).resumed
    · rfl
    · obtain ⟨_, _, ks, _, _, _, htk, _⟩ := connect_resumed_sound _ _ hres
      simp at htk
  unfold lconnect
  simp only [hd, hk, Bool.false_eq_true, if_false]
  generalize connect { c := k.c, s := k.s, useCache := k.useCache, tkeys := none } cache = o at hr ⊢
  cases hres : o.res with
  | done r =>
    cases hu : k.useCache
    · simp [hr]
    · simp only [if_true]
      generalize loadSession _ _ _ _ = p
      cases p <;> simp [failedWith]
  | fail => simp [hr, hres]
  | unmodelled => simp [hr, hres]

/-- a listener with auto-managed keys whose callback returns a fresh Clone per connection (TLS 1.2, then TLS 1.3) -/
def exLStep (maxV : Nat) (cs : List Nat) (h : Hook) (pk : Option KeyCfg) : LStep :=
  { c := { minV := 0, maxV := maxV, suites := some cs, force := false, curves := none, alpn := [] },
    s := { minV := 0, maxV := 0, suites := none, prefer := false, curves := none, alpn := [], key := .rsa, rand := .none },
    useCache := true, hook := h, pk := pk }
def exAuto : KeyCfg := { disabled := false, keys := [] }
-- every connection after the first resumes, whatever mixture of callbacks keeps the listener's keys in use
example : ((runLsn (exLStep 771 [47] .unset none).s exAuto none
    [exLStep 771 [47] .clone none, exLStep 771 [47] .clone none, exLStep 771 [47] .fresh none, exLStep 771 [47] .retNil none]).map
    (fun o => o.resumed)) = [false, true, true, true] := by decide
example : ((runLsn (exLStep 0 [4865] .unset none).s exAuto none
    [exLStep 0 [4865] .fresh none, exLStep 0 [4865] .clone none, exLStep 0 [4865] .unset none]).map
    (fun o => o.resumed)) = [false, true, true] := by decide
-- keys of its own on the returned Config: a ticket sealed under the listener's key is not accepted there
example : ((runLsn (exLStep 771 [47] .unset none).s exAuto none
    [exLStep 771 [47] .clone none, exLStep 771 [47] .fresh (some { disabled := false, keys := [3] }),
     exLStep 771 [47] .fresh (some { disabled := false, keys := [3] })]).map
    (fun o => o.resumed)) = [false, false, true] := by decide
-- hypotheses of `lconnect_no_keys` / `hook_disabled` / `hook_explicit_keys_win` are satisfiable
example : (lstepConn (exLStep 771 [47] .unset none).s { disabled := true, keys := [] } (exLStep 771 [47] .fresh none)).disabled = false ∧
    (lstepConn (exLStep 771 [47] .unset none).s { disabled := true, keys := [] } (exLStep 771 [47] .fresh none)).keys = [] := by decide
example : (lconnect (lstepConn (exLStep 771 [47] .unset none).s { disabled := true, keys := [] } (exLStep 771 [47] .fresh none)) none).res = .fail := by decide
example : ({ disabled := true, keys := [] } : KeyCfg).disabled = true ∧ ({ disabled := false, keys := [3] } : KeyCfg).keys.isEmpty = false := by decide

end ZV.C24
