import ZV.Model.C24
import ZV.Proofs.C24
/-!
  C24 — TLS endpoints negotiate correctly (version, suite, ALPN, downgrade sentinel).

  The tables (`Gen.*`) are regenerated from tls/common.go and tls/cipher_suites.go on every run, so the
  `decide` theorems below are re-checked against the code's current rows; the others hold for every
  configuration.  The liveness half ("a handshake is possible iff the model says so") is what the
  correspondence stream `c24 neg` establishes with real handshakes; it is not a theorem.
-/
namespace ZV.C24
open Gen

/-! ### version selection -/

/-- the library's version table is strictly descending (highest first) -/
theorem supportedVersions_desc : supportedVersions.Pairwise (· > ·) := by decide

/-- and contains exactly TLS 1.0 – 1.3 -/
theorem supportedVersions_are : supportedVersions = [VersionTLS13, VersionTLS12, VersionTLS11, VersionTLS10] := by decide

/-- **highest shared version**: whatever the four bounds, the version the server selects from the
    client's list is supported by both and no higher version is shared -/
theorem version_is_max_shared (cmin cmax smin smax v : Nat)
    (h : mutualVersion (configVersions supportedVersions smin smax) (configVersions supportedVersions cmin cmax) = some v) :
    v ∈ configVersions supportedVersions cmin cmax ∧ v ∈ configVersions supportedVersions smin smax ∧
    ∀ w, w ∈ configVersions supportedVersions cmin cmax → w ∈ configVersions supportedVersions smin smax → w ≤ v := by
  unfold mutualVersion at h
  have hmem := List.mem_of_find?_eq_some h
  have hp := List.find?_some h
  refine ⟨hmem, by simpa using hp, ?_⟩
  intro w hwc hws
  exact find?_desc_max (pairwise_filter_gt _ supportedVersions_desc) h w hwc (by simpa using hws)

/-- no version is selected exactly when none is shared -/
theorem version_none_iff (cmin cmax smin smax : Nat) :
    mutualVersion (configVersions supportedVersions smin smax) (configVersions supportedVersions cmin cmax) = none ↔
    ∀ w, w ∈ configVersions supportedVersions cmin cmax → w ∉ configVersions supportedVersions smin smax := by
  unfold mutualVersion
  rw [List.find?_eq_none]
  simp

/-! ### suite selection -/

/-- `selectCipherSuite` returns the FIRST id of the preference list that is implemented, passes the
    usability filter and is in the other side's list — "a suite both enabled, chosen by the documented
    preference rule" -/
theorem select_first_qualifying (ids sup : List Nat) (ok : SuiteRow → Bool) (r : SuiteRow)
    (h : selectCipherSuite ids sup ok = some r) :
    ∃ pre post, ids = pre ++ r.id :: post ∧ lookup implemented r.id = some r ∧ ok r = true ∧ sup.contains r.id = true ∧
      ∀ x ∈ pre, ∀ rx, lookup implemented x = some rx → (ok rx && sup.contains x) = false := by
  induction ids with
  | nil => simp [selectCipherSuite] at h
  | cons id rest ih =>
    simp only [selectCipherSuite] at h
    cases hl : lookup implemented id with
    | none =>
      simp only [hl] at h
      obtain ⟨pre, post, he, h1, h2, h3, h4⟩ := ih h
      refine ⟨id :: pre, post, by simp [he], h1, h2, h3, ?_⟩
      intro x hx rx hrx
      rcases List.mem_cons.mp hx with rfl | hx'
      · rw [hl] at hrx; exact absurd hrx (by simp)
      · exact h4 x hx' rx hrx
    | some row =>
      simp only [hl] at h
      by_cases hq : (ok row && sup.contains id) = true
      · simp only [hq, if_true, Option.some.injEq] at h
        subst h
        have hid : row.id = id := by
          have := List.find?_some hl
          simpa using this
        simp only [Bool.and_eq_true] at hq
        refine ⟨[], rest, by simp [hid], by rw [hid]; exact hl, hq.1, by rw [hid]; exact hq.2, by simp⟩
      · have hq' : (ok row && sup.contains id) = false := by simpa using hq
        simp only [hq', Bool.false_eq_true, if_false] at h
        obtain ⟨pre, post, he, h1, h2, h3, h4⟩ := ih h
        refine ⟨id :: pre, post, by simp [he], h1, h2, h3, ?_⟩
        intro x hx rx hrx
        rcases List.mem_cons.mp hx with rfl | hx'
        · rw [hl] at hrx
          simp only [Option.some.injEq] at hrx
          subst hrx; exact hq'
        · exact h4 x hx' rx hrx

/-- what "usable with the server's key" means for a key-exchange kind -/
def kaFitsKey (ka : String) (key : KeyType) (ecdheOk : Bool) : Bool :=
  match key with
  | .rsa => ka == "rsa" || ka == "dhe-rsa" || (ka == "ecdhe-rsa" && ecdheOk)
  | .ecdsa => ka == "ecdhe-ecdsa" && ecdheOk
  | .ed25519 => ka == "ecdhe-ecdsa" && ecdheOk

/-- **a selected suite is usable with the server's key** — for every row of the code's current
    `implementedCipherSuites` table, every key type, every negotiated version: if the server-side filter
    `cipherSuiteOk` lets the suite through, its key exchange fits the key (in particular no DSS suite,
    D17) and TLS 1.2-only suites are not chosen below TLS 1.2. -/
theorem suite_usable_with_key :
    ∀ r ∈ implemented, lookup implemented r.id = some r →
      ∀ key ∈ [KeyType.rsa, .ecdsa, .ed25519], ∀ v ∈ supportedVersions, ∀ e ∈ [true, false],
      cipherSuiteOk (facts v key e) r = true →
        kaFitsKey r.ka key e = true ∧ (hasFlag r.flags flagTLS12 = true → v ≥ VersionTLS12) := by
  decide

/-- and conversely every implemented suite whose key exchange fits the key is let through (so the
    liveness clause is not lost): non-export rows of the table -/
theorem usable_suite_is_ok :
    ∀ r ∈ implemented, lookup implemented r.id = some r →
      ∀ key ∈ [KeyType.rsa, .ecdsa, .ed25519], ∀ v ∈ supportedVersions, ∀ e ∈ [true, false],
      kaFitsKey r.ka key e = true → (hasFlag r.flags flagTLS12 = true → v ≥ VersionTLS12) →
        cipherSuiteOk (facts v key e) r = true := by
  decide

/-- the flag bits of every EFFECTIVE row (the first row with its id: the one `cipherSuiteByID` finds) agree
    with its key-exchange constructor -/
theorem table_flags_consistent :
    ∀ r ∈ implemented, lookup implemented r.id = some r →
      (hasFlag r.flags flagECDHE = (r.ka == "ecdhe-rsa" || r.ka == "ecdhe-ecdsa")) ∧
      (hasFlag r.flags flagECSign = (r.ka == "ecdhe-ecdsa")) ∧
      (hasFlag r.flags flagDSS = (r.ka == "dhe-dss")) := by
  decide

/-- every suite a client advertises without `ForceSuites` is implemented, with the same row -/
theorem advertised_are_implemented : ∀ r ∈ cipherSuites, lookup implemented r.id = some r := by decide

/-- the default lists only name implemented suites / TLS 1.3 suites -/
theorem defaults_known :
    (∀ id ∈ defaultCipherSuites, (lookup cipherSuites id).isSome = true) ∧
    (∀ id ∈ defaultCipherSuitesTLS13, isTLS13Suite id = true) ∧
    (∀ id ∈ cipherSuitesTLS13, id ∈ defaultCipherSuitesTLS13) := by decide

/-- `deprioritizeAES` only reorders -/
theorem deprio_perm (l r : List Nat) (h : deprio l = some r) : r.Perm l := by
  unfold deprio at h
  split at h
  · simp only [Option.some.injEq] at h
    subst h
    have := insertionSortRev_perm [] l
    simp only [List.append_nil] at this
    exact (List.reverse_perm _).trans (this.trans (List.reverse_perm _))
  · simp at h

/-! ### ALPN -/
theorem alpn_rule (protos pref : List Nat) (p : Nat) (h : mutualProtocol protos pref = some p) :
    p ∈ protos ∧ ∃ pre post, pref = pre ++ p :: post ∧ ∀ x ∈ pre, x ∉ protos := by
  unfold mutualProtocol at h
  obtain ⟨pre, post, hl, hv, hpre⟩ := find?_first h
  refine ⟨by simpa using hv, pre, post, hl, ?_⟩
  intro x hx
  have := hpre x hx
  simpa using this

/-! ### downgrade sentinel -/
theorem canary_iff (srvMax v : Nat) :
    serverCanary srvMax v ≠ .none ↔ (srvMax ≥ VersionTLS12 ∧ v < srvMax) := by
  unfold serverCanary
  by_cases h1 : srvMax ≥ VersionTLS12 <;> by_cases h2 : v < srvMax <;> simp [h1, h2] <;> split <;> simp

theorem canary_kind (srvMax v : Nat) (h : serverCanary srvMax v ≠ .none) :
    serverCanary srvMax v = (if v = VersionTLS12 then .c12 else .c11) := by
  unfold serverCanary at *
  split at h
  · split <;> simp_all
  · simp at h

/-- "a client supporting the higher version aborts": for all versions of the table, when the server
    could have gone higher (so the sentinel is present) and the client's maximum (TLS 1.2 or 1.3) is
    above the negotiated version, the client's check fires. -/
theorem client_aborts_on_canary :
    ∀ cliMax ∈ supportedVersions, ∀ srvMax ∈ supportedVersions, ∀ v ∈ supportedVersions,
      cliMax ≥ VersionTLS12 → v < cliMax → v < srvMax → srvMax ≥ VersionTLS12 →
        clientAborts cliMax v (serverCanary srvMax v) = true := by
  decide

/-- and never without a sentinel -/
theorem client_no_abort_without_canary (cliMax v : Nat) : clientAborts cliMax v .none = false := by
  simp [clientAborts]

/-! ### the assembled negotiation: a completed handshake has the highest shared version -/
theorem negotiate_version (c : Client) (s : Server) (o : Outcome) (h : negotiate c s = .done o) :
    o.vers ∈ configVersions supportedVersions c.minV c.maxV ∧ o.vers ∈ configVersions supportedVersions s.minV s.maxV ∧
    ∀ w, w ∈ configVersions supportedVersions c.minV c.maxV → w ∈ configVersions supportedVersions s.minV s.maxV → w ≤ o.vers := by
  unfold negotiate at h
  simp only at h
  split at h
  · simp at h
  · split at h
    · simp at h
    · rename_i v hv
      have hmax := version_is_max_shared c.minV c.maxV s.minV s.maxV v hv
      have : o.vers = v := by
        repeat' split at h
        all_goals first | (simp at h; done) | (simp only [Result.done.injEq] at h; rw [← h])
      rw [this]; exact hmax

/-! ### non-vacuity -/
example : negotiate { minV := 0, maxV := 771, suites := some [50, 47], force := true, curves := none, alpn := [] }
    { minV := 0, maxV := 0, suites := none, prefer := false, curves := none, alpn := [], key := .rsa, rand := .none }
    = .done { vers := 771, suite := 47, alpn := none, canary := .c12 } := by decide
example : mutualVersion (configVersions supportedVersions 770 0) (configVersions supportedVersions 0 771) = some 771 := by decide

end ZV.C24
