import ZV.Model.C10
import ZV.Proofs.C10
import ZV.Proofs.C10Ext
import ZV.Proofs.C10First
/-!
  C10 — the PKI graph is determined by its certificate set.

  `graph_inv` : every sequence of `AddCert` / `AddRoot` from the empty graph runs without panic and
  ends in a graph satisfying `WF` (one node per (subject, SPKI), one edge per fingerprint, adjacency
  maps and `missingIssuerNode` agree with the edges, an issuer is a node with the issuer name whose key
  verifies the certificate, no issuer only if no such node) and `Hist` (nodes, edges and roots are
  exactly those of the operations performed).  The sentences of the property are unpacked below.
  `graph_order_independent` : permuting the operations gives the same graph up to the choice of
  issuer among several verifying nodes; `graph_order_independent_exact` : when at most one node can
  verify each certificate, issuers, adjacency sets and `missingIssuerNode` coincide as well.

  `V` (the signature relation) is arbitrary; `FpInj` says SHA-256 does not collide on the certificates
  of the history.
-/
namespace ZV.C10

/-! ### invariant from the empty graph, for every operation sequence -/

/-- `addOrPanic` never fires and `AddRoot` never dereferences a nil edge -/
theorem no_duplicate_edge_panic (V : Ver) (ops : List Op) : ∃ g, run V Graph.empty ops = .ok g := by
  obtain ⟨g, h, _⟩ := run_inv (V := V) ops (inv_empty V)
  exact ⟨g, h⟩

theorem graph_inv (V : Ver) (ops : List Op) (hfp : FpInj ops) :
    ∃ g, run V Graph.empty ops = .ok g ∧ WF V g ∧ Hist ops g := by
  obtain ⟨g, h, hinv, hh⟩ := run_hist (V := V) ops (inv_empty V) hist_empty (by simpa using hfp)
  exact ⟨g, h, hinv.wf, by simpa using hh⟩

/-- the structural part needs no assumption on fingerprints -/
theorem graph_wf (V : Ver) (ops : List Op) : ∃ g, run V Graph.empty ops = .ok g ∧ WF V g := by
  obtain ⟨g, h, hinv⟩ := run_inv (V := V) ops (inv_empty V)
  exact ⟨g, h, hinv.wf⟩

/-- structural invariant together with duplicate-freeness of the adjacency lists (used by C11) -/
theorem graph_wf_adj (V : Ver) (ops : List Op) :
    ∃ g, run V Graph.empty ops = .ok g ∧ WF V g ∧ AdjNodup g := by
  obtain ⟨g, h, hinv⟩ := run_inv (V := V) ops (inv_empty V)
  exact ⟨g, h, hinv.wf, hinv.adjNodup⟩

/-! ### the sentences of the property -/

/-- one node per distinct (subject, SPKI) pair of the inserted certificates -/
theorem one_node_per_subject_key {V : Ver} {ops : List Op} {g : Graph} (hfp : FpInj ops)
    (hr : run V Graph.empty ops = .ok g) :
    (g.nodes.map (·.key)).Nodup ∧ ∀ k, k ∈ g.nodes.map (·.key) ↔ ∃ op ∈ ops, op.cert.sk = k := by
  obtain ⟨g', hr', hwf, hh⟩ := graph_inv V ops hfp
  rw [hr] at hr'; cases hr'
  refine ⟨hwf.nodesNodup, fun k => ?_⟩
  rw [← hh.nodes k]; simp [List.mem_map]

/-- one edge per distinct certificate, and it carries that certificate -/
theorem one_edge_per_certificate {V : Ver} {ops : List Op} {g : Graph} (hfp : FpInj ops)
    (hr : run V Graph.empty ops = .ok g) :
    (g.edges.map (·.cert.fp)).Nodup ∧ (∀ op ∈ ops, ∃ e ∈ g.edges, e.cert = op.cert) ∧
      (∀ e ∈ g.edges, ∃ op ∈ ops, op.cert = e.cert) := by
  obtain ⟨g', hr', hwf, hh⟩ := graph_inv V ops hfp
  rw [hr] at hr'; cases hr'
  refine ⟨hwf.edgesNodup, ?_, hh.certs⟩
  intro op hop
  obtain ⟨e, he, hfpe⟩ := (hh.edges op.cert.fp).mpr ⟨op, hop, rfl⟩
  obtain ⟨o, ho, hc⟩ := hh.certs e he
  exact ⟨e, he, by rw [← hc]; exact hfp o ho op hop (by rw [hc]; exact hfpe)⟩

/-- roots are exactly the certificates ever passed to `AddRoot` -/
theorem roots_are_added_roots {V : Ver} {ops : List Op} {g : Graph} (hfp : FpInj ops)
    (hr : run V Graph.empty ops = .ok g) :
    ∀ e ∈ g.edges, e.root = true ↔ Op.root e.cert ∈ ops := by
  obtain ⟨g', hr', _, hh⟩ := graph_inv V ops hfp
  rw [hr] at hr'; cases hr'
  intro e he
  rw [hh.roots e he]
  constructor
  · rintro ⟨c, hc, hfpc⟩
    obtain ⟨o, ho, hoc⟩ := hh.certs e he
    have : c = e.cert := by
      have := hfp (Op.root c) hc o ho (by rw [hoc]; exact hfpc)
      rw [hoc] at this; exact this
    rw [← this]; exact hc
  · intro h; exact ⟨e.cert, h, rfl⟩

/-- each edge's issuer is a node with the certificate's issuer name whose key verifies it -/
theorem issuer_is_verifying_node {V : Ver} {ops : List Op} {g : Graph}
    (hr : run V Graph.empty ops = .ok g) :
    ∀ e ∈ g.edges, ∀ k, e.issuer = some k →
      (∃ n ∈ g.nodes, n.key = k) ∧ k.1 = e.cert.iss ∧ V k e.cert.fp = true := by
  obtain ⟨g', hr', hwf⟩ := graph_wf V ops
  rw [hr] at hr'; cases hr'
  intro e he k hk
  obtain ⟨h1, h2, h3⟩ := hwf.issuerSome e he k hk
  exact ⟨h3, h1, h2⟩

/-- an edge has no issuer exactly when no such node exists -/
theorem no_issuer_iff_no_verifying_node {V : Ver} {ops : List Op} {g : Graph}
    (hr : run V Graph.empty ops = .ok g) :
    ∀ e ∈ g.edges, e.issuer = none ↔ ¬ ∃ n ∈ g.nodes, n.key.1 = e.cert.iss ∧ V n.key e.cert.fp = true := by
  obtain ⟨g', hr', hwf⟩ := graph_wf V ops
  rw [hr] at hr'; cases hr'
  intro e he
  constructor
  · rintro hn ⟨n, hnn, hname, hv⟩
    rw [hwf.issuerNone e he hn n hnn hname] at hv; cases hv
  · intro hno
    cases hi : e.issuer with
    | none => rfl
    | some k =>
      exfalso
      obtain ⟨h1, h2, n, hn, h3⟩ := hwf.issuerSome e he k hi
      exact hno ⟨n, hn, by rw [h3]; exact h1, by rw [h3]; exact h2⟩

/-- the adjacency maps and `missingIssuerNode` are functions of the edges -/
theorem adjacency_agrees {V : Ver} {ops : List Op} {g : Graph} (hr : run V Graph.empty ops = .ok g) :
    (∀ n ∈ g.nodes, ∀ k fp, pmem n k fp ↔ ∃ e ∈ g.edges, e.cert.fp = fp ∧ e.child = n.key ∧ e.issuer = some k) ∧
    (∀ n ∈ g.nodes, ∀ k fp, cmem n k fp ↔ ∃ e ∈ g.edges, e.cert.fp = fp ∧ e.issuer = some n.key ∧ e.child = k) ∧
    (∀ name fp, mmem g name fp ↔ ∃ e ∈ g.edges, e.cert.fp = fp ∧ e.issuer = none ∧ e.cert.iss = name) := by
  obtain ⟨g', hr', hwf⟩ := graph_wf V ops
  rw [hr] at hr'; cases hr'
  exact ⟨hwf.parents, hwf.children, hwf.missing⟩

/-! ### order independence -/

/-- `e'` is `e`, except possibly for the choice among several verifying issuer nodes -/
def EdgeSim (V : Ver) (e e' : Edge) : Prop :=
  e'.cert = e.cert ∧ e'.child = e.child ∧ e'.root = e.root ∧
  (e'.issuer = e.issuer ∨
    ∃ k k', k ≠ k' ∧ e.issuer = some k ∧ e'.issuer = some k' ∧ k.1 = e.cert.iss ∧ k'.1 = e.cert.iss ∧
      V k e.cert.fp = true ∧ V k' e.cert.fp = true)

structure SubGraph (V : Ver) (g g' : Graph) : Prop where
  nodes : ∀ n ∈ g.nodes, ∃ n' ∈ g'.nodes, n'.key = n.key
  edges : ∀ e ∈ g.edges, ∃ e' ∈ g'.edges, EdgeSim V e e'
  missing : ∀ name fp, mmem g name fp → mmem g' name fp

def SameUpToIssuerChoice (V : Ver) (g g' : Graph) : Prop := SubGraph V g g' ∧ SubGraph V g' g

theorem subGraph_of_hist {V : Ver} {H H' : List Op} {g g' : Graph} (hfp : FpInj H)
    (hm : ∀ o, o ∈ H ↔ o ∈ H') (hw : WF V g) (hh : Hist H g) (hw' : WF V g') (hh' : Hist H' g') :
    SubGraph V g g' := by
  have hedge : ∀ e ∈ g.edges, ∃ e' ∈ g'.edges, EdgeSim V e e' := by
    intro e he
    obtain ⟨o, ho, hfo⟩ := (hh.edges e.cert.fp).mp ⟨e, he, rfl⟩
    obtain ⟨e', he', hfe'⟩ := (hh'.edges e.cert.fp).mpr ⟨o, (hm o).mp ho, hfo⟩
    obtain ⟨o1, ho1, hc1⟩ := hh.certs e he
    obtain ⟨o2, ho2, hc2⟩ := hh'.certs e' he'
    have hcert : e'.cert = e.cert := by
      rw [← hc1, ← hc2]
      exact hfp o2 ((hm o2).mpr ho2) o1 ho1 (by rw [hc1, hc2]; exact hfe')
    refine ⟨e', he', hcert, ?_, ?_, ?_⟩
    · rw [(hw'.child e' he').1, (hw.child e he).1, hcert]
    · have h1 := hh.roots e he
      have h2 := hh'.roots e' he'
      have : (∃ c, Op.root c ∈ H ∧ c.fp = e.cert.fp) ↔ (∃ c, Op.root c ∈ H' ∧ c.fp = e'.cert.fp) := by
        rw [hcert]
        constructor <;> rintro ⟨c, hc, hf⟩
        · exact ⟨c, (hm _).mp hc, hf⟩
        · exact ⟨c, (hm _).mpr hc, hf⟩
      rw [Bool.eq_iff_iff, h2, h1]; exact this.symm
    · cases hi : e.issuer with
      | none =>
        cases hi' : e'.issuer with
        | none => exact Or.inl rfl
        | some k' =>
          exfalso
          obtain ⟨h1, h2, n', hn', h3⟩ := hw'.issuerSome e' he' k' hi'
          obtain ⟨o3, ho3, hk3⟩ := (hh'.nodes k').mp ⟨n', hn', h3⟩
          obtain ⟨n, hn, hk⟩ := (hh.nodes k').mpr ⟨o3, (hm o3).mpr ho3, hk3⟩
          have := hw.issuerNone e he hi n hn (by rw [hk, ← hcert]; exact h1)
          rw [hk, ← hcert, h2] at this; cases this
      | some k =>
        obtain ⟨h1, h2, n, hn, h3⟩ := hw.issuerSome e he k hi
        cases hi' : e'.issuer with
        | none =>
          exfalso
          obtain ⟨o3, ho3, hk3⟩ := (hh.nodes k).mp ⟨n, hn, h3⟩
          obtain ⟨n', hn', hk'⟩ := (hh'.nodes k).mpr ⟨o3, (hm o3).mp ho3, hk3⟩
          have := hw'.issuerNone e' he' hi' n' hn' (by rw [hk', hcert]; exact h1)
          rw [hk', hcert, h2] at this; cases this
        | some k' =>
          obtain ⟨h1', h2', _⟩ := hw'.issuerSome e' he' k' hi'
          by_cases hkk : k = k'
          · exact Or.inl (by rw [hkk])
          · exact Or.inr ⟨k, k', hkk, rfl, rfl, h1, by rw [← hcert]; exact h1', h2, by rw [← hcert]; exact h2'⟩
  refine ⟨?_, hedge, ?_⟩
  · intro n hn
    obtain ⟨o, ho, hk⟩ := (hh.nodes n.key).mp ⟨n, hn, rfl⟩
    exact (hh'.nodes n.key).mpr ⟨o, (hm o).mp ho, hk⟩
  · intro name fp hmm
    obtain ⟨e, he, h1, h2, h3⟩ := (hw.missing name fp).mp hmm
    obtain ⟨e', he', hc, _, _, hiss⟩ := hedge e he
    refine (hw'.missing name fp).mpr ⟨e', he', by rw [hc]; exact h1, ?_, by rw [hc]; exact h3⟩
    rcases hiss with h | ⟨k, _, _, hk, _⟩
    · rw [h]; exact h2
    · rw [h2] at hk; cases hk

/-- any two insertion orders of the same certificates produce the same graph, except for which issuer
    is chosen when several nodes verify the same certificate -/
theorem graph_order_independent (V : Ver) (ops ops' : List Op) (hp : ops.Perm ops') (hfp : FpInj ops) :
    ∃ g g', run V Graph.empty ops = .ok g ∧ run V Graph.empty ops' = .ok g' ∧ SameUpToIssuerChoice V g g' := by
  have hm : ∀ o, o ∈ ops ↔ o ∈ ops' := fun o => hp.mem_iff
  have hfp' : FpInj ops' := hfp.mono (fun o ho => (hm o).mpr ho)
  obtain ⟨g, hr, hw, hh⟩ := graph_inv V ops hfp
  obtain ⟨g', hr', hw', hh'⟩ := graph_inv V ops' hfp'
  exact ⟨g, g', hr, hr', subGraph_of_hist hfp hm hw hh hw' hh',
    subGraph_of_hist hfp' (fun o => (hm o).symm) hw' hh' hw hh⟩

/-- at most one node of the graph can verify each certificate -/
def Unambiguous (V : Ver) (g : Graph) : Prop :=
  ∀ e ∈ g.edges, ∀ n ∈ g.nodes, ∀ n' ∈ g.nodes, n.key.1 = e.cert.iss → n'.key.1 = e.cert.iss →
    V n.key e.cert.fp = true → V n'.key e.cert.fp = true → n.key = n'.key

/-- without ambiguity the two graphs have the same edges (issuer included) and the same adjacency sets -/
theorem graph_order_independent_exact (V : Ver) (ops ops' : List Op) (hp : ops.Perm ops') (hfp : FpInj ops)
    {g g' : Graph} (hr : run V Graph.empty ops = .ok g) (hr' : run V Graph.empty ops' = .ok g')
    (hu : Unambiguous V g) :
    (∀ e ∈ g.edges, ∃ e' ∈ g'.edges, e' = e) ∧
    (∀ n ∈ g.nodes, ∃ n' ∈ g'.nodes, n'.key = n.key ∧ (∀ k fp, pmem n' k fp ↔ pmem n k fp) ∧
      (∀ k fp, cmem n' k fp ↔ cmem n k fp)) ∧
    (∀ name fp, mmem g name fp ↔ mmem g' name fp) := by
  obtain ⟨g1, g1', h1, h1', hs, hs'⟩ := graph_order_independent V ops ops' hp hfp
  rw [hr] at h1; cases h1
  rw [hr'] at h1'; cases h1'
  obtain ⟨_, _, hw⟩ := graph_wf V ops
  rename_i gx hrx
  rw [hr] at hrx; cases hrx
  obtain ⟨gy, hry, hw'⟩ := graph_wf V ops'
  rw [hr'] at hry; cases hry
  have hedges : ∀ e ∈ g.edges, ∃ e' ∈ g'.edges, e' = e := by
    intro e he
    obtain ⟨e', he', hc, hch, hro, hiss⟩ := hs.edges e he
    refine ⟨e', he', ?_⟩
    have hi : e'.issuer = e.issuer := by
      rcases hiss with h | ⟨k, k', hne, hk, hk', hn, hn', hv, hv'⟩
      · exact h
      · exfalso
        obtain ⟨_, _, n, hnn, hkn⟩ := hw.issuerSome e he k hk
        obtain ⟨_, _, n', hnn', hkn'⟩ := hw'.issuerSome e' he' k' hk'
        obtain ⟨n2, hn2, hk2⟩ := hs'.nodes n' hnn'
        apply hne
        have := hu e he n hnn n2 hn2 (by rw [hkn]; exact hn) (by rw [hk2, hkn']; exact hn')
          (by rw [hkn]; exact hv) (by rw [hk2, hkn']; exact hv')
        rw [hkn, hk2, hkn'] at this; exact this
    cases e; cases e'; simp_all
  have hedges' : ∀ e' ∈ g'.edges, e' ∈ g.edges := by
    intro e' he'
    obtain ⟨e, he, hc, _⟩ := hs'.edges e' he'
    obtain ⟨e2, he2, h2⟩ := hedges e he
    have : e2 = e' := edge_eq_of_fp hw'.edgesNodup he2 he' (by rw [h2, hc])
    rw [← this, h2]; exact he
  refine ⟨hedges, ?_, fun name fp => ⟨hs.missing name fp, hs'.missing name fp⟩⟩
  intro n hn
  obtain ⟨n', hn', hk⟩ := hs.nodes n hn
  refine ⟨n', hn', hk, ?_, ?_⟩
  · intro k fp
    rw [hw'.parents n' hn' k fp, hw.parents n hn k fp, hk]
    constructor
    · rintro ⟨e', he', h⟩; exact ⟨e', hedges' e' he', h⟩
    · rintro ⟨e, he, h⟩
      obtain ⟨e', he', rfl⟩ := hedges e he
      exact ⟨e', he', h⟩
  · intro k fp
    rw [hw'.children n' hn' k fp, hw.children n hn k fp, hk]
    constructor
    · rintro ⟨e', he', h⟩; exact ⟨e', hedges' e' he', h⟩
    · rintro ⟨e, he, h⟩
      obtain ⟨e', he', rfl⟩ := hedges e he
      exact ⟨e', he', h⟩


/-! ### which issuer is chosen -/

/-- The only freedom the property leaves is pinned down: after ANY operation sequence the issuer of every
    edge is the FIRST node in creation order (`g.nodes`) that has the certificate's issuer name and whose key
    verifies it, `nil` if there is none — whether the edge was linked by the direct search or by the
    dangling-edge fix-up.  (Implies `issuer_is_verifying_node` and `no_issuer_iff_no_verifying_node`.) -/
theorem issuer_is_first_verifying_node {V : Ver} {ops : List Op} {g : Graph}
    (hr : run V Graph.empty ops = .ok g) :
    ∀ e ∈ g.edges, e.issuer = firstVer V (g.nodes.map (·.key)) e.cert.iss e.cert.fp :=
  run_first ops (inv_empty V) (firstIss_empty V) hr

/-- "The PKI graph is determined by its certificate set": two histories with the same certificates and the
    same root certificates — any permutation, any number of duplicates, `AddCert c` before or after
    `AddRoot c` or not at all — give the same graph up to the choice among several verifying issuers. -/
theorem graph_determined_by_certificate_sets (V : Ver) (ops ops' : List Op) (hs : SameCerts ops ops')
    (hfp : FpInj ops) :
    ∃ g g', run V Graph.empty ops = .ok g ∧ run V Graph.empty ops' = .ok g' ∧ SameUpToIssuerChoice V g g' := by
  have hfp' : FpInj ops' := hfp.congrCerts hs
  obtain ⟨g, hr, hw, hh⟩ := graph_inv V ops hfp
  obtain ⟨g', hr', hw', hh'⟩ := graph_inv V ops' hfp'
  have hh2 : Hist ops g' := hh'.congrCerts hs.symm
  exact ⟨g, g', hr, hr', subGraph_of_hist hfp (fun _ => Iff.rfl) hw hh hw' hh2,
    subGraph_of_hist hfp (fun _ => Iff.rfl) hw' hh2 hw hh⟩

/-- … and if the two histories create the nodes in the same order, the graphs have exactly the same edges,
    issuers included (no ambiguity hypothesis). -/
theorem graph_determined_by_certificate_sets_and_node_order (V : Ver) (ops ops' : List Op)
    (hs : SameCerts ops ops') (hfp : FpInj ops) {g g' : Graph}
    (hr : run V Graph.empty ops = .ok g) (hr' : run V Graph.empty ops' = .ok g')
    (hord : g.nodes.map (·.key) = g'.nodes.map (·.key)) :
    (∀ e ∈ g.edges, e ∈ g'.edges) ∧ (∀ e ∈ g'.edges, e ∈ g.edges) := by
  obtain ⟨g1, g1', h1, h1', hsub, hsub'⟩ := graph_determined_by_certificate_sets V ops ops' hs hfp
  rw [hr] at h1; cases h1
  rw [hr'] at h1'; cases h1'
  have hfi := issuer_is_first_verifying_node hr
  have hfi' := issuer_is_first_verifying_node hr'
  constructor
  · intro e he
    obtain ⟨e', he', hc, hch, hro, _⟩ := hsub.edges e he
    have hi : e'.issuer = e.issuer := by rw [hfi e he, hfi' e' he', hc, hord]
    have : e' = e := by cases e; cases e'; simp_all
    rw [← this]; exact he'
  · intro e' he'
    obtain ⟨e, he, hc, hch, hro, _⟩ := hsub'.edges e' he'
    have hi : e.issuer = e'.issuer := by rw [hfi e he, hfi' e' he', hc, hord]
    have : e = e' := by cases e; cases e'; simp_all
    rw [← this]; exact he

/-! ### the public observers -/

/-- `IsRoot(c)` ⇔ `c` was ever passed to `AddRoot` -/
theorem isRoot_iff {V : Ver} {ops : List Op} {g : Graph} (c : Cert) (hfp : FpInj (Op.add c :: ops))
    (hr : run V Graph.empty ops = .ok g) : isRoot g c = true ↔ Op.root c ∈ ops := by
  have hfp0 : FpInj ops := hfp.mono (fun o ho => List.mem_cons_of_mem _ ho)
  obtain ⟨g', hr', hwf, hh⟩ := graph_inv V ops hfp0
  rw [hr] at hr'; cases hr'
  unfold isRoot
  cases hf : findEdge g.edges c.fp with
  | none =>
    simp only [Bool.false_eq_true, false_iff]
    intro hin
    obtain ⟨e, he, hfe⟩ := (hh.edges c.fp).mpr ⟨_, hin, rfl⟩
    have : (findEdge g.edges c.fp).isSome = true := findEdge_isSome_iff.mpr ⟨e, he, hfe⟩
    rw [hf] at this; cases this
  | some e =>
    simp only
    obtain ⟨he, hfe⟩ := findEdge_some hf
    rw [roots_are_added_roots hfp0 hr e he]
    obtain ⟨o, ho, hoc⟩ := hh.certs e he
    have : e.cert = c := by
      rw [← hoc]
      exact hfp o (List.mem_cons_of_mem _ ho) (Op.add c) List.mem_cons_self (by rw [hoc]; exact hfe)
    rw [this]

/-- `FindEdge(fingerprint of c) != nil` ⇔ `c` was inserted (by `AddCert` or `AddRoot`) -/
theorem findEdgeOk_iff {V : Ver} {ops : List Op} {g : Graph} (c : Cert) (hfp : FpInj (Op.add c :: ops))
    (hr : run V Graph.empty ops = .ok g) : findEdgeOk g c = true ↔ ∃ op ∈ ops, op.cert = c := by
  have hfp0 : FpInj ops := hfp.mono (fun o ho => List.mem_cons_of_mem _ ho)
  obtain ⟨g', hr', _, hh⟩ := graph_inv V ops hfp0
  rw [hr] at hr'; cases hr'
  unfold findEdgeOk
  rw [findEdge_isSome_iff, hh.edges c.fp]
  constructor
  · rintro ⟨o, ho, hfo⟩
    exact ⟨o, ho, hfp o (List.mem_cons_of_mem _ ho) (Op.add c) List.mem_cons_self hfo⟩
  · rintro ⟨o, ho, hc⟩
    exact ⟨o, ho, by rw [hc]⟩

/-- `FindNode(subject+key fingerprint of c) != nil` ⇔ some inserted certificate has the subject and key of `c` -/
theorem findNodeOk_iff {V : Ver} {ops : List Op} {g : Graph} (c : Cert) (hfp : FpInj ops)
    (hr : run V Graph.empty ops = .ok g) : findNodeOk g c = true ↔ ∃ op ∈ ops, op.cert.sk = c.sk := by
  obtain ⟨g', hr', _, hh⟩ := graph_inv V ops hfp
  rw [hr] at hr'; cases hr'
  unfold findNodeOk
  rw [findNode_isSome_iff, hh.nodes c.sk]

/-- `len(Nodes())` = number of distinct (subject, SPKI) pairs, `len(Edges())` = number of distinct certificates -/
theorem nodes_edges_count {V : Ver} {ops : List Op} {g : Graph} (hfp : FpInj ops)
    (hr : run V Graph.empty ops = .ok g) :
    nodesLen g = ((ops.map (·.cert.sk)).dedup).length ∧ edgesLen g = ((ops.map (·.cert.fp)).dedup).length := by
  obtain ⟨h1, h2⟩ := one_node_per_subject_key hfp hr
  obtain ⟨g', hr', hwf, hh⟩ := graph_inv V ops hfp
  rw [hr] at hr'; cases hr'
  constructor
  · unfold nodesLen
    rw [← List.length_map (f := (·.key))]
    apply List.Perm.length_eq
    rw [List.perm_ext_iff_of_nodup h1 (List.nodup_dedup _)]
    intro k
    rw [h2 k, List.mem_dedup, List.mem_map]
  · unfold edgesLen
    rw [← List.length_map (f := (·.cert.fp))]
    apply List.Perm.length_eq
    rw [List.perm_ext_iff_of_nodup hwf.edgesNodup (List.nodup_dedup _)]
    intro fp
    rw [List.mem_dedup, List.mem_map, List.mem_map]
    constructor
    · rintro ⟨e, he, hfe⟩
      obtain ⟨o, ho, hfo⟩ := (hh.edges fp).mp ⟨e, he, hfe⟩
      exact ⟨o, ho, hfo⟩
    · rintro ⟨o, ho, hfo⟩
      obtain ⟨e, he, hfe⟩ := (hh.edges fp).mpr ⟨o, ho, hfo⟩
      exact ⟨e, he, hfe⟩

/-! ### `AppendFromPEMErr` / `AppendFromPEM` -/

/-- For every graph, stream and `root` flag, `AppendFromPEMErr` is the `AddCert`/`AddRoot` sequence `pemOps` of
    the certificates of the stream (up to the first stretch of 64 KiB without a block), its first result the
    number of those certificates (duplicates counted), its second the number of unparsable blocks, its third
    non-nil exactly when the scanner gave up. -/
theorem appendFromPEMErr_is_run (V : Ver) (g : Graph) (items : List PemItem) (root : Bool) :
    appendFromPEMErr V g items root =
      match run V g (pemOps root items) with
      | .ok g' => .ok ⟨(pemCerts items).length, pemErrs items, pemTooLong items, g'⟩
      | _ => .panic := by
  unfold appendFromPEMErr
  rw [pemLoop_eq_run, pemCount_eq]
  cases run V g (pemOps root items) <;> simp

/-- On a graph built by any operations `ops0`, `AppendFromPEMErr` never panics, and the graph it leaves is the
    graph of the history `ops0 ++ pemOps root items` — so every theorem above applies to it. -/
theorem appendFromPEMErr_spec (V : Ver) (ops0 : List Op) (items : List PemItem) (root : Bool) :
    ∃ g0 g, run V Graph.empty ops0 = .ok g0 ∧
      appendFromPEMErr V g0 items root = .ok ⟨(pemCerts items).length, pemErrs items, pemTooLong items, g⟩ ∧
      run V Graph.empty (ops0 ++ pemOps root items) = .ok g := by
  obtain ⟨g0, h0, hinv0⟩ := run_inv (V := V) ops0 (inv_empty V)
  obtain ⟨g, h1, _⟩ := run_inv (V := V) (pemOps root items) hinv0
  refine ⟨g0, g, h0, ?_, ?_⟩
  · rw [appendFromPEMErr_is_run, h1]
  · rw [run_append, h0]; exact h1

/-- the deprecated wrapper returns the same count and leaves the same graph -/
theorem appendFromPEM_spec (V : Ver) (g0 : Graph) (items : List PemItem) (root : Bool) (o : PemOut)
    (h : appendFromPEMErr V g0 items root = .ok o) : appendFromPEM V g0 items root = .ok (o.count, o.g) := by
  unfold appendFromPEM
  rw [h]

/-- with `root = true` the `AddCert` call in the loop is redundant: the stream acts like `AddRoot` of each of its
    certificates -/
theorem pem_root_is_addRoot (V : Ver) (items : List PemItem) : ∀ {g : Graph}, Inv V g →
    run V g (pemOps true items) = run V g ((pemCerts items).map Op.root) := by
  induction items with
  | nil => intro g _; rfl
  | cons it rest ih =>
    intro g hinv
    cases it with
    | junk => exact ih hinv
    | bad => exact ih hinv
    | big => rfl
    | cert c =>
      obtain ⟨g1, hadd, hinv1, _, _⟩ := addCert_spec hinv c
      obtain ⟨g2, hroot, hinv2⟩ := step_inv hinv (Op.root c)
      simp only [step] at hroot
      have h2 : addRoot V g1 c = .ok g2 := by rw [addRoot_after_addCert hinv hadd]; exact hroot
      simp only [pemOps, pemCerts, if_true, List.cons_append, List.nil_append, List.map_cons, run, step, hadd, h2, hroot]
      exact ih hinv2

/-- the order of the blocks in the stream (and junk, unparsable blocks, repetitions) does not matter: two streams
    with the same certificates, appended with the same `root` flag to graphs with the same certificates, give the
    same graph up to the choice among several verifying issuers -/
theorem pem_stream_order_independent (V : Ver) (ops0 : List Op) (items items' : List PemItem) (root : Bool)
    (hsame : ∀ c, c ∈ pemCerts items ↔ c ∈ pemCerts items')
    (hfp : FpInj (ops0 ++ pemOps root items)) :
    ∃ g0 o o', run V Graph.empty ops0 = .ok g0 ∧ appendFromPEMErr V g0 items root = .ok o ∧
      appendFromPEMErr V g0 items' root = .ok o' ∧ SameUpToIssuerChoice V o.g o'.g := by
  have hs : SameCerts (ops0 ++ pemOps root items) (ops0 ++ pemOps root items') := by
    apply SameCerts.of_mem
    intro o
    simp only [List.mem_append, mem_pemOps]
    constructor
    · rintro (h | ⟨c, hc, h⟩)
      · exact Or.inl h
      · exact Or.inr ⟨c, (hsame c).mp hc, h⟩
    · rintro (h | ⟨c, hc, h⟩)
      · exact Or.inl h
      · exact Or.inr ⟨c, (hsame c).mpr hc, h⟩
  obtain ⟨g, g', hr, hr', hsim⟩ := graph_determined_by_certificate_sets V _ _ hs hfp
  obtain ⟨g0, g1, h0, h1, h2⟩ := appendFromPEMErr_spec V ops0 items root
  obtain ⟨g0', g1', h0', h1', h2'⟩ := appendFromPEMErr_spec V ops0 items' root
  rw [h0] at h0'; cases h0'
  rw [hr] at h2; cases h2
  rw [hr'] at h2'; cases h2'
  exact ⟨g0, _, _, h0, h1, h1', hsim⟩


/-! ### the hypotheses are satisfiable: a three-certificate chain inserted leaf first (two fix-ups) -/
namespace Ex
def r : Cert := { fp := 0, subj := 0, key := 0, iss := 0 }
def i : Cert := { fp := 1, subj := 1, key := 1, iss := 0 }
def l : Cert := { fp := 2, subj := 2, key := 2, iss := 1 }
/-- a second key for subject 0 that verifies `i` as well (two verifying nodes) -/
def r2 : Cert := { fp := 3, subj := 0, key := 9, iss := 0 }
def V : Ver := fun k fp => [((0, 0), 0), ((0, 0), 1), ((1, 1), 2), ((0, 9), 1), ((0, 0), 3)].contains (k, fp)
def ops : List Op := [.root r, .add i, .add l]
def ops' : List Op := [.add l, .add i, .add l, .root r]

example : FpInj ops := by unfold FpInj; decide
example : FpInj ops' := by unfold FpInj; decide
example : (ops ++ [Op.add l]).Perm ops' := by decide
/-- leaf first: `l` and `i` are registered in `missingIssuerNode` and fixed up when their issuers arrive -/
example : run V Graph.empty [Op.add l] =
    .ok { nodes := [⟨(2, 2), [], []⟩], edges := [⟨l, none, (2, 2), false⟩], missing := [(1, [2])] } := by decide
example : run V Graph.empty ops' = .ok
    { nodes := [⟨(2, 2), [], [((1, 1), [2])]⟩, ⟨(1, 1), [((2, 2), [2])], [((0, 0), [1])]⟩,
                ⟨(0, 0), [((0, 0), [0]), ((1, 1), [1])], [((0, 0), [0])]⟩],
      edges := [⟨l, some (1, 1), (2, 2), false⟩, ⟨i, some (0, 0), (1, 1), false⟩, ⟨r, some (0, 0), (0, 0), true⟩],
      missing := [] } := by decide
example : ∃ g, run V Graph.empty ops = .ok g ∧ Unambiguous V g := by
  refine ⟨_, rfl, ?_⟩
  unfold Unambiguous
  decide
/-- with `r2` both (0,0) and (0,9) verify `i`: the issuer of `i` depends on the order, nothing else does -/
example : ∃ g g', run V Graph.empty [Op.add r, Op.add r2, Op.add i] = .ok g ∧ run V Graph.empty [Op.add r2, Op.add i, Op.add r] = .ok g' ∧
    (∃ e ∈ g.edges, e.cert = i ∧ e.issuer = some (0, 0)) ∧ (∃ e ∈ g'.edges, e.cert = i ∧ e.issuer = some (0, 9)) := by
  refine ⟨_, _, rfl, rfl, ?_, ?_⟩ <;> decide
/-- first verifying node: with both (0,0) and (0,9) able to verify `i`, the issuer is whichever node was created first -/
example : firstVer V [(0, 9), (1, 1), (0, 0)] i.iss i.fp = some (0, 9) ∧ firstVer V [(0, 0), (0, 9), (1, 1)] i.iss i.fp = some (0, 0) := by
  decide
/-- same certificates, same roots, different multiplicities and forms -/
example : SameCerts ops [Op.add r, Op.add l, Op.root r, Op.add i, Op.add i] := by
  unfold SameCerts
  constructor
  · intro c
    constructor
    · rintro ⟨o, ho, rfl⟩
      simp only [ops, List.mem_cons, List.not_mem_nil, or_false] at ho
      rcases ho with rfl | rfl | rfl
      · exact ⟨Op.root r, by simp, rfl⟩
      · exact ⟨Op.add i, by simp, rfl⟩
      · exact ⟨Op.add l, by simp, rfl⟩
    · rintro ⟨o, ho, rfl⟩
      simp only [List.mem_cons, List.not_mem_nil, or_false] at ho
      rcases ho with rfl | rfl | rfl | rfl | rfl
      · exact ⟨Op.root r, by simp [ops], rfl⟩
      · exact ⟨Op.add l, by simp [ops], rfl⟩
      · exact ⟨Op.root r, by simp [ops], rfl⟩
      · exact ⟨Op.add i, by simp [ops], rfl⟩
      · exact ⟨Op.add i, by simp [ops], rfl⟩
  · intro c; simp [ops]
example : FpInj (Op.add r :: ops) := by unfold FpInj; decide
/-- same certificate sets and same node creation order (0,0) > (1,1) > (2,2): equal graphs -/
example : ∃ g g', run V Graph.empty ops = .ok g ∧ run V Graph.empty [Op.add r, Op.add i, Op.root r, Op.add l, Op.add i] = .ok g' ∧
    g.nodes.map (·.key) = g'.nodes.map (·.key) := ⟨_, _, rfl, rfl, by decide⟩
/-- a stream: junk, `i`, an unparsable block, `l`, `i` again, then 64 KiB of text, then `r` (never reached) -/
def stream : List PemItem := [.junk, .cert i, .bad, .cert l, .cert i, .big, .cert r]
example : appendFromPEMErr V Graph.empty stream false = .ok
    ⟨3, 1, true, { nodes := [⟨(1, 1), [((2, 2), [2])], []⟩, ⟨(2, 2), [], [((1, 1), [2])]⟩],
                   edges := [⟨i, none, (1, 1), false⟩, ⟨l, some (1, 1), (2, 2), false⟩], missing := [(0, [1])] }⟩ := by decide
example : FpInj ([Op.root r] ++ pemOps true stream) := by unfold FpInj; decide
example : ∀ c, c ∈ pemCerts stream ↔ c ∈ pemCerts [.cert l, .cert i] := by
  intro c; simp [pemCerts, stream]; tauto
example : Inv V Graph.empty := inv_empty V
example : ∃ o, appendFromPEMErr V Graph.empty stream true = .ok o ∧ isRoot o.g i = true ∧ isRoot o.g r = false :=
  ⟨_, rfl, by decide, by decide⟩
end Ex

end ZV.C10
