import ZV.Proofs.C02
/-!
  C02 — operations on any parsed certificate are total and deterministic: the theorems.

  Models: `ZV.Model.C02` (policy loop of the parser + certificate-policies JSON, purgeNameDuplicates,
  signature-check dispatch on a parsed key), tied to the Go code by the T2 streams `pol` and `names`
  (and, for the dispatch, by C01's `edkey` / `rsapub`).

  -- FULL (not proved here): `∀ cert, ParseCertificate accepts cert → json.Marshal / VerifyHostname /
  -- CollectAllNames / CertPool.AddCert / Graph.AddCert do not panic` for the complete JSON view and the
  -- pool / graph code. Proved: the three places where those operations index, dereference or call a
  -- primitive with a precondition on parser-produced data; everything else is explored by T3.
-/
namespace ZV.C02
open ZV.C01

/-! ### certificate policies JSON -/

/-- the parser gives every array exactly one entry per policy -/
theorem policies_arrays_aligned (ps : List PolicyIn) :
    let d := parsePolicies ps
    d.policyIds.length = ps.length ∧ d.cpsUri.length = ps.length ∧ d.explicitTexts.length = ps.length ∧
    d.noticeRefOrg.length = ps.length ∧ d.noticeRefNumbers.length = ps.length ∧ d.userNotices.length = ps.length :=
  parsePolicies_lengths ps

/-- `MarshalJSON` of the policies of ANY parsed certificate does not panic (every shape of policies,
    qualifiers and user notices) -/
theorem policies_json_no_panic (ps : List PolicyIn) : policiesJSON (parsePolicies ps) ≠ .panic :=
  policiesJSON_no_panic_of_wellFormed _ (parsePolicies_wellFormed ps)

/-- more generally for any data whose per-policy arrays are aligned -/
theorem policies_json_no_panic_of_aligned (d : PolData) (h : WellFormed d) : policiesJSON d ≠ .panic :=
  policiesJSON_no_panic_of_wellFormed d h

example : WellFormed (parsePolicies [{ cps := ["u"], notices := [{ text := some "a", ref := none }] }]) := by
  simp [WellFormed, parsePolicies]

/-- D6: the previous index logic (explicit-text position used for the notice-reference arrays) does
    panic on parser output: two notices with text, only the second with a reference -/
example : policiesJSONOld (parsePolicies [{ cps := [], notices :=
    [{ text := some "a", ref := none }, { text := some "b", ref := some ("org", [1]) }] }]) = .panic := by
  rfl

/-- and the current one lists both notices, each with its own fields -/
example : policiesJSON (parsePolicies [{ cps := [], notices :=
    [{ text := some "a", ref := none }, { text := some "b", ref := some ("org", [1]) }] }]) =
    .ok [(0, [(some "a", none), (some "b", some ("org", [1]))])] := by
  rfl

/-! ### deterministic name list -/

/-- the name list does not depend on the order in which the names were collected (Go: map iteration
    order) — any permutation of the input gives the same output -/
theorem names_deterministic {α : Type} [LinearOrder α] (l₁ l₂ : List α) (h : l₁.Perm l₂) : purge l₁ = purge l₂ :=
  eq_of_sorted_of_mem_iff _ _ (sorted_purge l₁) (sorted_purge l₂)
    (fun x => by rw [mem_purge, mem_purge]; exact h.mem_iff)

example : [3, 1, 2, 1].Perm [1, 1, 2, 3] := by decide

/-- it is strictly sorted (hence duplicate-free) and contains exactly the input names -/
theorem names_sorted_nodup {α : Type} [LinearOrder α] (l : List α) : (purge l).Pairwise (· < ·) := sorted_purge l

theorem names_complete {α : Type} [LinearOrder α] (l : List α) (x : α) : x ∈ purge l ↔ x ∈ l := mem_purge x l

/-! ### signature check against any candidate parent -/

/-- a parent key produced by `parsePublicKey` (RSA arm, either mode — including the negative or zero
    integers the permissive mode lets through) never makes `CheckSignatureFromKey` panic -/
theorem checkSig_rsa_parent_no_panic (perm : Bool) (n e : Int) (k : Key) (h : parseRsaKey perm n e = .ok k)
    (sigLen sig : Nat) : checkSig k sigLen sig ≠ .panic := by
  unfold parseRsaKey at h
  split at h
  · simp at h
  · simp at h; subst h; exact verify_no_panic _ _ _

example : parseRsaKey true (-35) (-1) = .ok (.rsa { n := some (-35), e := some (-1) }) := by decide

/-- the same for the Ed25519 / X25519 arms -/
theorem checkSig_ed_parent_no_panic (isEd : Bool) (keyLen : Nat) (pk : PubKey) (h : parseEdKey isEd keyLen = .ok pk)
    (sigLen sig : Nat) : checkSig (.ed pk) sigLen sig ≠ .panic := by
  rcases parseEdKey_ok_len _ _ _ h with ⟨l, hk⟩ | hk <;> subst hk <;> simp [checkSig, checkSigEd, ed25519Verify]

example : parseEdKey true 32 = .ok (.ed 32) := by decide

/-- keys of the remaining algorithms go to primitives without shape preconditions -/
theorem checkSig_other_no_panic (sigLen sig : Nat) : checkSig .other sigLen sig ≠ .panic := by
  simp [checkSig]

end ZV.C02
