import ZV.Proofs.C02
import ZV.Proofs.C02Names
import ZV.Proofs.C02Views
import ZV.Proofs.C02Cert
import ZV.Props.C09
import Mathlib.Data.Nat.Bitwise
/-!
  C02 — operations on any parsed certificate are total and deterministic: the theorems.

  Models: `ZV.Model.C02` (policy loop of the parser + certificate-policies JSON, purgeNameDuplicates,
  signature-check dispatch on a parsed key), `ZV.Model.C02Names` (isValidName, CollectAllNames, Redacted flag),
  `ZV.Model.C02Views` (orMask / GeneralSubtreeIP JSON, KeyUsage JSON, algorithm-name tables, JsonifyExtensions
  split, BasicConstraints view) and `ZV.Model.C09` (VerifyHostname), tied to the Go code by the T2 streams
  `pol`, `names`, `coll`, `jnames`, `vh`, `gsi`, `ku`, `kan`, `san`, `jx` (and, for the dispatch, by C01's
  `edkey` / `rsapub`).

  -- FULL (not proved here): `∀ cert, ParseCertificate accepts cert → json.Marshal / VerifyHostname /
  -- CollectAllNames / CertPool.AddCert / Graph.AddCert do not panic` for the complete JSON view and the
  -- pool / graph code. Proved: the places where those operations index, slice, look up a table or call a
  -- primitive with a precondition on parser-produced data, and what the names / unknown-extension lists
  -- contain; pkix.Name, key views, the remaining field copies and encoding/json are explored by T3.
-/
namespace ZV.C02
open ZV.C01

/-! ### certificate policies JSON -/

/-- the parser gives every array exactly one entry per policy -/
theorem policies_arrays_aligned (ps : List PolicyIn) :
    let d := parsePolicies ps
    d.policyIds.length = ps.length ∧ d.cpsUri.length = ps.length ∧ d.explicitTexts.length = ps.length ∧
    d.noticeRefOrg.length = ps.length ∧ d.noticeRefNumbers.length = ps.length ∧ d.userNotices.length = ps.length :=
  parsePolicies_lengths ps

/-- `MarshalJSON` of the policies of ANY parsed certificate does not panic (every shape of policies,
    qualifiers and user notices) -/
theorem policies_json_no_panic (ps : List PolicyIn) : policiesJSON (parsePolicies ps) ≠ .panic :=
  policiesJSON_no_panic_of_wellFormed _ (parsePolicies_wellFormed ps)

/-- more generally for any data whose per-policy arrays are aligned -/
theorem policies_json_no_panic_of_aligned (d : PolData) (h : WellFormed d) : policiesJSON d ≠ .panic :=
  policiesJSON_no_panic_of_wellFormed d h

example : WellFormed (parsePolicies [{ cps := ["u"], notices := [{ text := some "a", ref := none }] }]) := by
  simp [WellFormed, parsePolicies]

/-- D6: the previous index logic (explicit-text position used for the notice-reference arrays) does
    panic on parser output: two notices with text, only the second with a reference -/
example : policiesJSONOld (parsePolicies [{ cps := [], notices :=
    [{ text := some "a", ref := none }, { text := some "b", ref := some ("org", [1]) }] }]) = .panic := by
  rfl

/-- and the current one lists both notices, each with its own fields -/
example : policiesJSON (parsePolicies [{ cps := [], notices :=
    [{ text := some "a", ref := none }, { text := some "b", ref := some ("org", [1]) }] }]) =
    .ok [(0, [(some "a", none), (some "b", some ("org", [1]))])] := by
  rfl

/-! ### deterministic name list -/

/-- the name list does not depend on the order in which the names were collected (Go: map iteration
    order) — any permutation of the input gives the same output -/
theorem names_deterministic {α : Type} [LinearOrder α] (l₁ l₂ : List α) (h : l₁.Perm l₂) : purge l₁ = purge l₂ :=
  eq_of_sorted_of_mem_iff _ _ (sorted_purge l₁) (sorted_purge l₂)
    (fun x => by rw [mem_purge, mem_purge]; exact h.mem_iff)

example : [3, 1, 2, 1].Perm [1, 1, 2, 3] := by decide

/-- it is strictly sorted (hence duplicate-free) and contains exactly the input names -/
theorem names_sorted_nodup {α : Type} [LinearOrder α] (l : List α) : (purge l).Pairwise (· < ·) := sorted_purge l

theorem names_complete {α : Type} [LinearOrder α] (l : List α) (x : α) : x ∈ purge l ↔ x ∈ l := mem_purge x l


/-! ### CollectAllNames and the names part of the JSON view (model `ZV.Model.C02Names`, T2 `coll` / `jnames`)

  `isURL` stands for `util.IsURL` (regular expression + `url.Parse`, not modelled): every statement holds for EVERY
  predicate, so nothing about it is assumed. -/

/-- `isValidName` never panics — the slice expression `name[2:]` is only reached when the name has the two-byte
    prefix `?.` or `*.` — and is `util.IsURL` of the name with all leading `?.` / `*.` labels removed -/
theorem isValidName_total (isURL : Str → Bool) (name : Str) :
    isValidName isURL name = .ok (isURL (stripMarks name)) := isValidName_eq isURL name

theorem isValidName_no_panic (isURL : Str → Bool) (name : Str) : isValidName isURL name ≠ .panic := by
  rw [isValidName_eq]; simp

/-- `CollectAllNames` is total: for every certificate name data it returns a list (no panic, no error) -/
theorem collectAllNames_total (isURL : Str → Bool) (c : NameCert) :
    ∃ names, collectAllNames isURL c = .ok names := ⟨_, collectAllNames_eq isURL c⟩

/-- … which is strictly sorted in Go's string order, hence duplicate-free -/
theorem collectAllNames_sorted (isURL : Str → Bool) (c : NameCert) (names : List Str)
    (h : collectAllNames isURL c = .ok names) : names.Pairwise (· < ·) := by
  rw [collectAllNames_eq] at h
  cases h
  exact sorted_purge' strTotal _

theorem collectAllNames_nodup (isURL : Str → Bool) (c : NameCert) (names : List Str)
    (h : collectAllNames isURL c = .ok names) : names.Nodup := by
  have hs := collectAllNames_sorted isURL c names h
  unfold List.Nodup
  refine hs.imp ?_
  intro a b hlt e
  rw [e] at hlt
  exact strTotal.irrefl _ hlt

example : collectAllNames (fun s => s.length > 3)
    ⟨[97, 46, 98, 99], [[99, 111, 109], [97, 46, 98, 99]], [], []⟩ = .ok [[97, 46, 98, 99], [99, 111, 109]] := by
  rw [collectAllNames_eq]; decide

/-- … and contains exactly: the common name if valid; the DNS SANs that are valid or contain no dot; the URI SANs
    and IP SAN texts that `util.IsURL` accepts — nothing else, nothing missing -/
theorem collectAllNames_mem (isURL : Str → Bool) (c : NameCert) (names : List Str)
    (h : collectAllNames isURL c = .ok names) (x : Str) :
    x ∈ names ↔
      (x = c.commonName ∧ isURL (stripMarks x) = true) ∨
      (x ∈ c.dnsNames ∧ (isURL (stripMarks x) = true ∨ containsDot x = false)) ∨
      (x ∈ c.uris ∧ isURL x = true) ∨ (x ∈ c.ipTexts ∧ isURL x = true) := by
  rw [collectAllNames_eq] at h
  cases h
  rw [mem_purge', mem_candidates]
  simp [dnsKept]

/-- the output is independent of the order (and multiplicity) in which the SANs are listed — in particular of
    Go's map iteration order inside `purgeNameDuplicates`: certificates with the same common name and the same
    SETS of DNS / URI / IP names give the same list -/
theorem collectAllNames_order_independent (isURL : Str → Bool) (c₁ c₂ : NameCert)
    (hcn : c₁.commonName = c₂.commonName) (hd : ∀ x, x ∈ c₁.dnsNames ↔ x ∈ c₂.dnsNames)
    (hu : ∀ x, x ∈ c₁.uris ↔ x ∈ c₂.uris) (hi : ∀ x, x ∈ c₁.ipTexts ↔ x ∈ c₂.ipTexts) :
    collectAllNames isURL c₁ = collectAllNames isURL c₂ := by
  rw [collectAllNames_eq, collectAllNames_eq]
  congr 1
  apply eq_of_sorted_of_mem_iff' strTotal _ _ (sorted_purge' strTotal _) (sorted_purge' strTotal _)
  intro x
  rw [mem_purge', mem_purge', mem_candidates, mem_candidates, hcn, hd, hu, hi]

example : ∀ x, x ∈ ([[1], [2], [1]] : List Str) ↔ x ∈ ([[2], [1]] : List Str) := by
  intro x; simp; tauto

/-- the whole names view (names + `redacted`) is total, and `redacted` says exactly that some listed name starts
    with `?` -/
theorem namesView_total (isURL : Str → Bool) (c : NameCert) :
    ∃ names, namesView isURL c = .ok (names, redacted names) ∧ collectAllNames isURL c = .ok names := by
  refine ⟨purge (candidates isURL c), ?_, collectAllNames_eq isURL c⟩
  simp [namesView, collectAllNames_eq]

theorem redacted_iff (names : List Str) : redacted names = true ↔ ∃ n ∈ names, ∃ rest, n = 63 :: rest := by
  unfold redacted
  rw [List.any_eq_true]
  constructor
  · rintro ⟨n, hn, hq⟩
    refine ⟨n, hn, ?_⟩
    match n, hq with
    | x :: rest, hq => simp [hasPrefixQ] at hq; exact ⟨rest, by rw [hq]⟩
  · rintro ⟨n, hn, rest, rfl⟩
    exact ⟨_, hn, by simp [hasPrefixQ]⟩


/-! ### JSON sub-views with index / table / slice logic (model `ZV.Model.C02Views`, T2 `gsi` `ku` `kan` `san` `jx`)

  Every model here is a pure function of the parsed value, so "two calls give the same output" holds by
  construction; the theorems are about totality and about what the view says. -/

/-- zcrypto `orMask` never indexes out of range, for ANY address and mask lengths (the length guards suffice) -/
theorem orMask_no_panic (ip mask : Bytes) : orMask ip mask ≠ .panic := by
  rcases orMask_cases ip mask with h | ⟨_, h, _⟩ <;> simp [h]

/-- … and the guard `len(ip) != len(mask)` is what makes it so: the bare loop panics on every shorter mask -/
theorem orMask_loop_needs_guard (ip mask : Bytes) (h : mask.length < ip.length) : orLoop mask 0 ip = .panic :=
  orLoop_panic_of_short mask ip h

example : orLoop [0xff] 0 [10, 0, 0, 1] = .panic := orMask_loop_needs_guard _ _ (by decide)

/-- `(*GeneralSubtreeIP).MarshalJSON` is total for ANY `net.IPNet` (address and mask of any lengths, also the
    ones the parser never produces) -/
theorem subtreeIP_json_total (ip mask : Bytes) : ∃ v, subtreeIPView ip mask = .ok v := subtreeIPView_ok ip mask

theorem subtreeIP_json_no_panic (ip mask : Bytes) : subtreeIPView ip mask ≠ .panic := by
  obtain ⟨v, h⟩ := subtreeIPView_ok ip mask
  simp [h]

/-- on what the parser produces (address and mask of the same length 4 or 16) the view is either CIDR-only (mask
    not a prefix) or has begin, end and mask, each of the address length -/
theorem subtreeIP_json_parser_shape (ip mask : Bytes) (h : ip.length = mask.length) (h4 : ip.length = 4 ∨ ip.length = 16) :
    ∃ v, subtreeIPView ip mask = .ok v ∧
      ((v.begin = none ∧ v.end_ = none ∧ v.mask = none) ∨
       ((∃ b, v.begin = some b ∧ b.length = ip.length) ∧ (∃ e, v.end_ = some e ∧ e.length = ip.length) ∧ v.mask = some mask)) := by
  obtain ⟨e, he, hel⟩ := orMask_some_of_shape ip (invertMask mask) (by rw [invertMask_length]; exact h) h4
  have hb : ∃ b, ipMask ip mask = some b ∧ b.length = ip.length := by
    unfold ipMask
    have h1 : ¬ (mask.length = 16 ∧ ip.length = 4 ∧ (mask.take 12).all (· = 0xff) = true) := by omega
    have h2 : ¬ (mask.length = 4 ∧ ip.length = 16 ∧ ip.take 12 = v4InV6Prefix) := by omega
    simp only [h1, h2, if_false]
    simp [h]
  obtain ⟨b, hb, hbl⟩ := hb
  unfold subtreeIPView
  simp only
  split
  · exact ⟨_, rfl, Or.inl ⟨rfl, rfl, rfl⟩⟩
  · refine ⟨_, by rw [he], Or.inr ⟨⟨b, hb, hbl⟩, ⟨e, rfl, hel⟩, ?_⟩⟩
    have : mask.length = 4 ∨ mask.length = 16 := by omega
    simp [this]

example : subtreeIPView [192, 0, 2, 77] [255, 255, 255, 0] =
    .ok ⟨some ([192, 0, 2, 77], .inl 24), some [192, 0, 2, 0], some [192, 0, 2, 255], some [255, 255, 255, 0]⟩ := by decide

/-- `KeyUsage.MarshalJSON`: flag `i` of the view is bit `i` of the value, for every value -/
theorem keyUsage_flags (k : Nat) : (keyUsageView k).1 = (List.range 9).map (fun i => k.testBit i) := by
  unfold keyUsageView
  simp only
  apply List.map_congr_left
  intro i _
  rw [Nat.one_shiftLeft, Nat.and_two_pow]
  cases k.testBit i <;> simp [Nat.two_pow_pos]

theorem keyUsage_value (k : Nat) : (keyUsageView k).2 < 4294967296 ∧ (k < 4294967296 → (keyUsageView k).2 = k) := by
  unfold keyUsageView
  exact ⟨Nat.mod_lt _ (by decide), fun h => Nat.mod_eq_of_lt h⟩

/-- T1, whole generated table: `total_key_algorithms` does not exceed `len(keyAlgorithmNames)` and entry 0 (the
    clamp target) exists. Editing the table or the enumeration in zcrypto re-checks THIS theorem. -/
theorem keyAlgTable_covers : KeyAlgTableCovers := by
  unfold KeyAlgTableCovers
  decide

/-- `PublicKeyAlgorithm.String` never indexes `keyAlgorithmNames` out of range, for every integer value -/
theorem keyAlgName_no_panic (p : Int) : keyAlgName p ≠ .panic := by
  obtain ⟨s, h⟩ := keyAlgName_ok keyAlgTable_covers p
  simp [h]

/-- T1, whole generated table: every signature algorithm of the enumeration (1 … len-1) has a non-empty name, so
    `String()` never prints an empty name, and the table is not empty (entry 0 = unknown) -/
theorem algoName_table_named : 0 < Gen.algoName.length ∧ ∀ s ∈ Gen.algoName.drop 1, s.length ≠ 0 := by
  decide

/-- T1: the else-if chain of `JsonifyExtensions` tests sixteen pairwise different OIDs (no branch is dead), one per
    variable named in the source -/
theorem knownExtOids_table : Gen.knownExtOids.Nodup ∧ Gen.knownExtOids.length = 16 ∧
    Gen.knownExtOidVars.length = Gen.knownExtOids.length ∧ ∀ o ∈ Gen.knownExtOids, 2 ≤ o.length := by
  decide

/-- `SignatureAlgorithm.String` and the name of `jsonifySignatureAlgorithm` never index `algoName` out of range -/
theorem sigAlgName_no_panic (a : Int) : sigAlgString a ≠ .panic ∧ sigAlgJSONName a ≠ .panic := by
  obtain ⟨s, h⟩ := sigAlgString_ok a
  refine ⟨by simp [h], ?_⟩
  unfold sigAlgJSONName
  split
  · simp
  · simp [h]

/-- `JsonifyExtensions`: the unknown list is exactly the extensions whose OID is none of the sixteen known ones, in
    certificate order (nothing dropped, nothing duplicated) -/
theorem jsonify_unknown_exact (exts : List (List Nat)) :
    (jsonifySplit exts).2 = ((exts.zipIdx).filter (fun e => (knownExtOids.idxOf? e.1).isNone)).map (·.2) := by
  unfold jsonifySplit
  rw [jsonifySplit_fold_unknown]
  simp

/-- … and the view at position `k` of the chain is filled iff some extension carries the `k`-th known OID -/
theorem jsonify_known_exact (exts : List (List Nat)) (k : Nat) :
    k ∈ (jsonifySplit exts).1 ↔ ∃ oid ∈ exts, knownExtOids.idxOf? oid = some k := by
  unfold jsonifySplit
  rw [jsonifySplit_fold_known]
  simp only [List.not_mem_nil, false_or]
  constructor
  · rintro ⟨e, he, hk⟩
    exact ⟨e.1, (List.mem_zipIdx' he).2 ▸ List.getElem_mem _, hk⟩
  · rintro ⟨oid, ho, hk⟩
    obtain ⟨i, hi, rfl⟩ := List.getElem_of_mem ho
    exact ⟨(exts[i], i), by simp [List.mem_zipIdx_iff_getElem?, hi], hk⟩

example : jsonifySplit [[2, 5, 29, 19], [1, 2, 3], [2, 5, 29, 15], [2, 5, 29, 19]] = ([1, 0], [1]) := by decide

/-- the `BasicConstraints` view carries a path length iff `MaxPathLen > 0 || MaxPathLenZero` -/
theorem basicConstraints_pathlen_iff (isCA : Bool) (n : Int) (z : Bool) :
    ((basicConstraintsView isCA n z).2 = some n ↔ (n > 0 ∨ z = true)) ∧
    ((basicConstraintsView isCA n z).2 = none ↔ ¬ (n > 0 ∨ z = true)) := by
  unfold basicConstraintsView
  by_cases h : n > 0 ∨ z = true <;> simp [h]


/-! ### computed certificate-level fields (model `ZV.Model.C02Cert`, T2 `cf` / `rk`)

  All of these are total functions of the parsed value (no index, no partial operation), so totality and purity
  hold by construction; the theorems say what the values are. -/

/-- `Certificate.ValidityPeriod` (time.Time.Sub saturates) is the exact difference up to ±9223372036 s (≈ 292 years)
    and is clamped to that bound beyond it -/
theorem validityPeriod_exact_iff (nb na : Int) :
    (validityLength nb na = na - nb ↔ (-9223372036 ≤ na - nb ∧ na - nb ≤ 9223372036)) ∧
    -9223372036 ≤ validityLength nb na ∧ validityLength nb na ≤ 9223372036 := by
  unfold validityLength
  simp only
  split
  · omega
  · split <;> omega

/-- the `length` of the JSON view (computed by the promoted `(*validity).MarshalJSON` from the Unix times) and the
    parser's `ValidityPeriod` agree exactly on validities of at most ≈ 292 years -/
theorem validity_json_agrees_iff (nb na : Int) :
    validityLengthJSON nb na = validityLength nb na ↔ (-9223372036 ≤ na - nb ∧ na - nb ≤ 9223372036) := by
  have := (validityPeriod_exact_iff nb na).1
  unfold validityLengthJSON
  constructor
  · intro h; exact this.mp h.symm
  · intro h; exact (this.mpr h).symm

/-- OBSERVATION (replayed on the Go code by the `cf` boundary lines): for 1970-01-01 … 2262-04-11T23:47:17Z the JSON
    says 9223372037 and `Certificate.ValidityPeriod` says 9223372036 — `JSONValidity.ValidityPeriod` is never emitted -/
example : validityLengthJSON 0 9223372037 = 9223372037 ∧ validityLength 0 9223372037 = 9223372036 := by decide

/-- swapping the two dates negates both lengths -/
theorem validity_antisymm (nb na : Int) :
    validityLength na nb = - validityLength nb na ∧ validityLengthJSON na nb = - validityLengthJSON nb na := by
  unfold validityLength validityLengthJSON
  simp only
  constructor
  · split <;> split <;> (try split) <;> (try split) <;> omega
  · omega

/-- `(*big.Int).Bytes` as used for the RSA modulus: big-endian, no leading zero, and reads back to the magnitude -/
theorem rsaKeyView_modulus (n e : Int) :
    natOfBytes (rsaKeyView n e).1 = n.natAbs ∧ (rsaKeyView n e).1.head? ≠ some 0 ∧
    (rsaKeyView n e).2.2 = 8 * (rsaKeyView n e).1.length ∧ (rsaKeyView n e).2.1 = e := by
  unfold rsaKeyView
  exact ⟨natOfBytes_beBytes _, beBytes_head_ne_zero _, by simp [Nat.mul_comm], rfl⟩

/-- the sign of the modulus is lost in the view (permissive parsing lets negative moduli through) -/
theorem rsaKeyView_sign_lost (n e : Int) : (rsaKeyView (-n) e).1 = (rsaKeyView n e).1 := by
  unfold rsaKeyView; simp

/-- the fingerprints have the digest lengths (16 / 20 / 32 bytes) for every certificate, and depend on nothing but
    the raw pieces -/
theorem fingerprints_lengths (raw tbs spki subject : Bytes) :
    let f := fingerprints raw tbs spki subject
    f.md5.length = 16 ∧ f.sha1.length = 20 ∧ f.sha256.length = 32 ∧ f.spki.length = 32 ∧ f.tbs.length = 32 ∧
    f.spkiSubject.length = 32 := by
  simp only [fingerprints]
  exact ⟨ZV.C23.md5_length _, ZV.C23.sha1_length _, ZV.C23.sha256_length _, ZV.C23.sha256_length _,
    ZV.C23.sha256_length _, ZV.C23.sha256_length _⟩

-- FULL (not proved here): `intOfBytes (x :: rest) < 0 ↔ x.toNat ≥ 128` (sign of the serial number); the serial string is
-- only compared with the Go code by T2 `cf`.

/-! ### hostname verification (model and theorems of C09: `ZV.Model.C09`, T2 `c09 vh` / `mh` / `low` and `c02 vh`)

  C09 models `VerifyHostname`, `matchHostnames`, `toLowerCaseASCII` and `net.ParseIP` exactly and proves the matching
  rules; what C02 needs from it is totality on ANY certificate name data and ANY host string. -/

/-- `VerifyHostname` never panics (every index of `matchHostnames`, `h[0]`, `h[len(h)-1]`, `h[1:len(h)-1]` in range),
    for every certificate and every host -/
theorem verifyHostname_no_panic (c : ZV.C09.Cert) (h : ZV.C09.Str) : ZV.C09.verifyHostname c h ≠ .panic := by
  obtain ⟨v, hv⟩ := ZV.C09.verifyHostname_total c h
  simp [hv]

/-- `matchHostnames` never indexes `hostParts[i]` out of range, for every pattern and host -/
theorem matchHostnames_no_panic (pattern host : ZV.C09.Str) : ZV.C09.matchHostnames pattern host ≠ .panic := by
  obtain ⟨b, hb⟩ := ZV.C09.match_no_panic pattern host
  simp [hb]

/-! ### signature check against any candidate parent -/

/-- a parent key produced by `parsePublicKey` (RSA arm, either mode — including the negative or zero
    integers the permissive mode lets through) never makes `CheckSignatureFromKey` panic -/
theorem checkSig_rsa_parent_no_panic (perm : Bool) (n e : Int) (k : Key) (h : parseRsaKey perm n e = .ok k)
    (sigLen sig : Nat) : checkSig k sigLen sig ≠ .panic := by
  unfold parseRsaKey at h
  split at h
  · simp at h
  · simp at h; subst h; exact verify_no_panic _ _ _

example : parseRsaKey true (-35) (-1) = .ok (.rsa { n := some (-35), e := some (-1) }) := by decide

/-- the same for the Ed25519 / X25519 arms -/
theorem checkSig_ed_parent_no_panic (isEd : Bool) (keyLen : Nat) (pk : PubKey) (h : parseEdKey isEd keyLen = .ok pk)
    (sigLen sig : Nat) : checkSig (.ed pk) sigLen sig ≠ .panic := by
  rcases parseEdKey_ok_len _ _ _ h with ⟨l, hk⟩ | hk <;> subst hk <;> simp [checkSig, checkSigEd, ed25519Verify]

example : parseEdKey true 32 = .ok (.ed 32) := by decide

/-- keys of the remaining algorithms go to primitives without shape preconditions -/
theorem checkSig_other_no_panic (sigLen sig : Nat) : checkSig .other sigLen sig ≠ .panic := by
  simp [checkSig]

end ZV.C02
