import ZV.Model.C08
import ZV.Proofs.C08
/-!
  C08 — CertPool behaves as a fingerprint-keyed ordered set.

  Specification: every pool variable is described by its ADD HISTORY, the plain list of
  certificates handed to it (`AddCert c` appends `c`, `AppendCertsFromPEM` appends the
  certificates of the parseable blocks, `x.Sum(y)` starts from history(x) ++ history(y)).
  `pool_refines` shows that after ANY operation sequence the `certs` slice of the Go-shaped
  model is `dedupFp history` — the distinct-by-fingerprint certificates in first-insertion
  order (`dedupFp` keeps the head and drops later certificates with the same fingerprint;
  `dedupFp_nodup`, `dedupFp_mem_fps`, `dedupFp_sublist` in `ZV.Proofs.C08` characterise it) —
  and that the representation invariant `Inv` (index maps = indices computed from `certs`)
  holds.  The observers and `findVerifiedParents` are then characterised on every reachable pool.
-/
namespace ZV.C08

/-! ### add histories -/

abbrev Hist := Nat → Option (List Cert)

/-- the history of a nil pool variable is empty -/
def histOf : Option (List Cert) → List Cert
  | some l => l
  | none => []

/-- the history transformer of one operation (with the same nil-receiver panics as the code). -/
def histStep (A : Hist) : Op → Res Hist
  | .add r c =>
    match A r with
    | none => .panic
    | some l => .ok (setKey A r (some (l ++ [c])))
  | .pem r bs =>
    match A r with
    | none => if bs.any Option.isSome then .panic else .ok A
    | some l => .ok (setKey A r (some (l ++ pemCerts bs)))
  | .sum d a b =>
    .ok (setKey A d (some (histOf (A a) ++ histOf (A b))))

def histRun (A : Hist) : List Op → Res Hist
  | [] => .ok A
  | op :: ops =>
    match histStep A op with
    | .ok A' => histRun A' ops
    | .err => .err
    | .panic => .panic

def histInit : Hist := fun r => if r < 2 then some [] else none

/-- a pool variable agrees with its history -/
def Agrees (p : Option Pool) (l : Option (List Cert)) : Prop :=
  match p, l with
  | some p, some l => Inv p ∧ p.certs = dedupFp l
  | none, none => True
  | _, _ => False

def AllAgree (regs : Regs) (A : Hist) : Prop := ∀ r, Agrees (regs r) (A r)

theorem agree_init : AllAgree init histInit := by
  intro r
  unfold init histInit
  by_cases h : r < 2
  · simp only [h, if_true, Agrees]; exact ⟨inv_new, rfl⟩
  · simp only [h, if_false, Agrees]

theorem agrees_setKey (regs : Regs) (A : Hist) (h : AllAgree regs A) (r : Nat) (p : Pool) (l : List Cert)
    (hp : Inv p) (hc : p.certs = dedupFp l) : AllAgree (setKey regs r (some p)) (setKey A r (some l)) := by
  intro x
  unfold setKey
  by_cases e : x = r
  · simp only [e, if_true, Agrees]; exact ⟨hp, hc⟩
  · simp only [e, if_false]; exact h x

theorem optCerts_agrees (p : Option Pool) (l : Option (List Cert)) (h : Agrees p l) :
    dedupFp (optCerts p) = dedupFp (histOf l) ∧ optCerts p = dedupFp (histOf l) := by
  cases p <;> cases l <;> simp only [Agrees] at h
  · exact ⟨rfl, rfl⟩
  · simp only [optCerts]
    rw [h.2]
    exact ⟨dedupFp_of_nodup _ (dedupFp_nodup _), rfl⟩

/-- one operation preserves agreement (and panics exactly when the history transformer does). -/
theorem step_agrees (regs : Regs) (A : Hist) (op : Op) (h : AllAgree regs A) :
    (∃ regs' o A', step regs op = .ok (regs', o) ∧ histStep A op = .ok A' ∧ AllAgree regs' A') ∨
    (step regs op = .panic ∧ histStep A op = .panic) := by
  cases op with
  | add r c =>
    have hr := h r
    cases hp : regs r with
    | none =>
      cases hl : A r with
      | none => right; simp only [step, histStep, hp, hl]; exact ⟨trivial, trivial⟩
      | some l => rw [hp, hl] at hr; exact hr.elim
    | some p =>
      cases hl : A r with
      | none => rw [hp, hl] at hr; exact hr.elim
      | some l =>
        rw [hp, hl] at hr
        left
        have a := addCert_spec p c hr.1
        simp only [step, histStep, hp, hl]
        refine ⟨_, _, _, rfl, rfl, agrees_setKey regs A h r _ _ a.2 ?_⟩
        rw [a.1, hr.2, dedupFp_append]; rfl
  | pem r bs =>
    have hr := h r
    cases hp : regs r with
    | none =>
      cases hl : A r with
      | none =>
        simp only [step, histStep, hp, hl]
        by_cases hb : bs.any Option.isSome = true
        · right; simp only [hb, if_true]; exact ⟨trivial, trivial⟩
        · left; simp only [hb, Bool.false_eq_true, if_false]; exact ⟨_, _, _, rfl, rfl, h⟩
      | some l => rw [hp, hl] at hr; exact hr.elim
    | some p =>
      cases hl : A r with
      | none => rw [hp, hl] at hr; exact hr.elim
      | some l =>
        rw [hp, hl] at hr
        left
        have a := appendPEM_spec bs p hr.1
        simp only [step, histStep, hp, hl]
        refine ⟨_, _, _, rfl, rfl, agrees_setKey regs A h r _ _ a.2.1 ?_⟩
        rw [a.1, hr.2, dedupFp_append]
  | sum d a b =>
    left
    simp only [step, histStep]
    have s := sum_spec (regs a) (regs b)
    refine ⟨_, _, _, rfl, rfl, agrees_setKey regs A h d _ _ s.2 ?_⟩
    rw [s.1]
    have ea := optCerts_agrees _ _ (h a)
    have eb := optCerts_agrees _ _ (h b)
    rw [dedupFp_append, dedupFp_append, ea.1, eb.2, foldl_specAdd_dedup]

/-- REFINEMENT.  After any operation sequence (from any agreeing start, in particular the
    initial variables), the model either panics together with the history semantics (a write
    through a nil pool) or every pool variable satisfies the representation invariant and
    its `certs` is `dedupFp` of its add history. -/
theorem run_agrees (ops : List Op) (regs : Regs) (A : Hist) (h : AllAgree regs A) :
    (∃ regs' outs A', run regs ops = .ok (regs', outs) ∧ histRun A ops = .ok A' ∧ AllAgree regs' A') ∨
    (run regs ops = .panic ∧ histRun A ops = .panic) := by
  induction ops generalizing regs A with
  | nil => left; exact ⟨regs, [], A, rfl, rfl, h⟩
  | cons op ops ih =>
    unfold run histRun
    rcases step_agrees regs A op h with ⟨regs1, o, A1, e1, e2, h1⟩ | ⟨e1, e2⟩
    · rw [e1, e2]
      rcases ih regs1 A1 h1 with ⟨regs2, outs, A2, f1, f2, h2⟩ | ⟨f1, f2⟩
      · left; simp only [f1, f2]; exact ⟨_, _, _, rfl, rfl, h2⟩
      · right; simp only [f1, f2]; exact ⟨trivial, trivial⟩
    · right; rw [e1, e2]; exact ⟨rfl, rfl⟩

/-- `pool_refines`: abs (run ops) = dedupByFingerprint (adds ops), for all operation sequences. -/
theorem pool_refines (ops : List Op) :
    (run init ops).map (fun x => fun r => (x.1 r).map (·.certs)) =
    (histRun histInit ops).map (fun A => fun r => (A r).map dedupFp) := by
  rcases run_agrees ops init histInit agree_init with ⟨regs, outs, A, e1, e2, h⟩ | ⟨e1, e2⟩
  · rw [e1, e2]
    simp only [Res.map]
    congr 1
    funext r
    have := h r
    cases hp : regs r <;> cases hl : A r <;> simp only [hp, hl, Agrees] at this
    · rfl
    · simp [this.2]
  · rw [e1, e2]; rfl

/-! ### observers on a pool that agrees with history `l` -/

theorem size_spec (p : Pool) (l : List Cert) (h : Agrees (some p) (some l)) :
    size (some p) = (dedupFp l).length := by
  simp only [Agrees] at h; simp [size, h.2]

theorem certificates_spec (p : Pool) (l : List Cert) (h : Agrees (some p) (some l)) :
    certificates p = dedupFp l := by
  simp only [Agrees] at h; exact h.2

theorem subjects_spec (p : Pool) (l : List Cert) (h : Agrees (some p) (some l)) :
    subjects p = (dedupFp l).map (·.subject) := by
  simp only [Agrees] at h; simp [subjects, h.2]

/-- `Contains c` ⇔ a certificate with c's fingerprint was added at some point. -/
theorem contains_spec (p : Pool) (l : List Cert) (h : Agrees (some p) (some l)) (c : Cert) :
    contains (some p) c = true ↔ c.fp ∈ fps l := by
  simp only [Agrees] at h
  rw [← dedupFp_mem_fps, ← h.2]
  unfold contains
  simp only
  rw [h.1.sha]
  constructor
  · intro hs
    cases hf : p.certs.findIdx? (fun x => decide (x.fp = c.fp)) with
    | none => simp [hf] at hs
    | some n => exact findIdx?_some_mem _ _ n hf
  · intro hm
    cases hf : p.certs.findIdx? (fun x => decide (x.fp = c.fp)) with
    | none => exact absurd hm (findIdx?_none_not_mem _ _ hf)
    | some n => rfl

theorem contains_nil (c : Cert) : contains none c = false := rfl

/-- `s.Covers(q)` ⇔ every certificate added to `q` was (by fingerprint) added to `s`. -/
theorem covers_spec (p q : Pool) (l m : List Cert) (hp : Agrees (some p) (some l)) (hq : Agrees (some q) (some m)) :
    covers (some p) (some q) = true ↔ ∀ c ∈ m, c.fp ∈ fps l := by
  unfold covers
  simp only [List.all_eq_true]
  have hq' := hq
  simp only [Agrees] at hq'
  constructor
  · intro h c hc
    have : c.fp ∈ fps (dedupFp m) := (dedupFp_mem_fps m c.fp).mpr (List.mem_map.mpr ⟨c, hc, rfl⟩)
    obtain ⟨x, hx, ex⟩ := List.mem_map.mp this
    have := (contains_spec p l hp x).mp (h x (by rw [hq'.2]; exact hx))
    rw [ex] at this; exact this
  · intro h x hx
    rw [hq'.2] at hx
    apply (contains_spec p l hp x).mpr
    have hs := (dedupFp_sublist m).subset hx
    exact h x hs

/-- the characterisations hold on every pool reachable from the initial variables. -/
theorem reachable_agrees (ops : List Op) (regs : Regs) (outs : List Bool)
    (h : run init ops = .ok (regs, outs)) :
    ∃ A, histRun histInit ops = .ok A ∧ ∀ r, Agrees (regs r) (A r) := by
  rcases run_agrees ops init histInit agree_init with ⟨regs', outs', A, e1, e2, ha⟩ | ⟨e1, _⟩
  · rw [e1] at h; cases h; exact ⟨A, e2, ha⟩
  · rw [e1] at h; cases h

/-! ### parent lookup -/

/-- the candidate set of `findVerifiedParents`, read off `certs`: by key id when the child
    has an AKID and some member has that SKID, otherwise by issuer name. -/
def candidateOf (certs : List Cert) (child : Cert) (x : Cert) : Bool :=
  if child.akid ≠ 0 ∧ idxs (fun y => y.skid = child.akid) certs 0 ≠ [] then x.skid = child.akid
  else x.subject = child.issuer

/-- `parents_sound` (+ exactness): on a pool satisfying the representation invariant,
    `findVerifiedParents` does not panic and returns exactly the indices of the pool members
    that are lookup candidates for the child and whose signature check over the child passed;
    in particular only indices of pool members with `chk child member`. -/
theorem parents_sound (chk : Cert → Cert → Bool) (p : Pool) (h : Inv p) (child : Cert) :
    ∃ res, findVerifiedParents chk (some p) child = .ok res ∧
      ∀ i, i ∈ res.parents ↔ ∃ x, p.certs[i]? = some x ∧ candidateOf p.certs child x = true ∧ chk child x = true := by
  unfold findVerifiedParents
  simp only
  -- the candidate list is an index list computed from certs
  have hcand : ∀ i, i ∈ (if (if child.akid ≠ 0 then p.bySubjectKeyId child.akid else []).length = 0
        then p.byName child.issuer else (if child.akid ≠ 0 then p.bySubjectKeyId child.akid else [])) ↔
      ∃ x, p.certs[i]? = some x ∧ candidateOf p.certs child x = true := by
    intro i
    unfold candidateOf
    by_cases ha : child.akid = 0
    · simp only [ha, ne_eq, not_true_eq_false, if_false, List.length_nil, if_true, false_and]
      rw [h.name, mem_idxs]
      constructor
      · rintro ⟨j, x, e, g, q⟩; exact ⟨x, by simpa [e] using g, q⟩
      · rintro ⟨x, g, q⟩; exact ⟨i, x, by simp, g, q⟩
    · simp only [ne_eq, ha, not_false_eq_true, if_true, true_and]
      rw [h.skid]
      simp only [ha, if_false]
      by_cases hl : idxs (fun y => decide (y.skid = child.akid)) p.certs 0 = []
      · simp only [hl, List.length_nil, if_true, not_true_eq_false, if_false]
        rw [h.name, mem_idxs]
        constructor
        · rintro ⟨j, x, e, g, q⟩; exact ⟨x, by simpa [e] using g, q⟩
        · rintro ⟨x, g, q⟩; exact ⟨i, x, by simp, g, q⟩
      · have : ¬ (idxs (fun y => decide (y.skid = child.akid)) p.certs 0).length = 0 := by
          simpa [List.length_eq_zero_iff] using hl
        simp only [this, if_false, hl, not_false_eq_true, if_true]
        rw [mem_idxs]
        constructor
        · rintro ⟨j, x, e, g, q⟩; exact ⟨x, by simpa [e] using g, q⟩
        · rintro ⟨x, g, q⟩; exact ⟨i, x, by simp, g, q⟩
  obtain ⟨res, e, m⟩ := parentsLoop_spec chk p.certs child _ { parents := [], errCert := none, errNil := true }
    (fun i hi => by obtain ⟨x, hx, _⟩ := (hcand i).mp hi; exact ⟨x, hx⟩)
  refine ⟨res, e, ?_⟩
  intro i
  rw [m i]
  simp only [List.not_mem_nil, false_or]
  constructor
  · rintro ⟨hi, x, hx, hk⟩
    obtain ⟨y, hy, hc⟩ := (hcand i).mp hi
    rw [hx] at hy; cases hy
    exact ⟨x, hx, hc, hk⟩
  · rintro ⟨x, hx, hc, hk⟩
    exact ⟨(hcand i).mpr ⟨x, hx, hc⟩, x, hx, hk⟩

/-- a nil pool has no parents to offer. -/
theorem parents_nil (chk : Cert → Cert → Bool) (child : Cert) :
    findVerifiedParents chk none child = .ok { parents := [], errCert := none, errNil := true } := rfl

/-! ### pool variables hold values: an operation changes only its destination variable

    In particular the result of `Sum` shares nothing with its receiver or argument: whatever is done
    afterwards to any of the three pools leaves the observation of the other two unchanged.  The Go
    harness checks exactly this on the implementation by observing EVERY live pool after EVERY operation. -/

/-- the variable an operation writes -/
def Op.dst : Op → Nat
  | .add r _ => r
  | .pem r _ => r
  | .sum d _ _ => d

theorem step_frame (regs regs' : Regs) (op : Op) (o : Option Bool) (h : step regs op = .ok (regs', o))
    (x : Nat) (hx : x ≠ op.dst) : regs' x = regs x := by
  cases op with
  | add r c =>
    simp only [step] at h
    cases hr : regs r with
    | none => simp [hr] at h
    | some p =>
      simp only [hr, Res.ok.injEq, Prod.mk.injEq] at h
      rw [← h.1]; simp only [setKey, Op.dst] at hx ⊢; simp [hx]
  | pem r bs =>
    simp only [step] at h
    cases hr : regs r with
    | none =>
      simp only [hr] at h
      split at h
      · simp at h
      · simp only [Res.ok.injEq, Prod.mk.injEq] at h; rw [← h.1]
    | some p =>
      simp only [hr, Res.ok.injEq, Prod.mk.injEq] at h
      rw [← h.1]; simp only [setKey, Op.dst] at hx ⊢; simp [hx]
  | sum d a b =>
    simp only [step, Res.ok.injEq, Prod.mk.injEq] at h
    rw [← h.1]; simp only [setKey, Op.dst] at hx ⊢; simp [hx]

/-- a variable that no operation of the sequence writes keeps its pool, whatever happens to the others
    (e.g. the receiver and the argument of a `Sum` while the result is mutated, and vice versa). -/
theorem run_frame (ops : List Op) (regs regs' : Regs) (outs : List Bool) (h : run regs ops = .ok (regs', outs))
    (x : Nat) (hx : ∀ op ∈ ops, x ≠ op.dst) : regs' x = regs x := by
  induction ops generalizing regs regs' outs with
  | nil => simp only [run, Res.ok.injEq, Prod.mk.injEq] at h; rw [← h.1]
  | cons op ops ih =>
    simp only [run] at h
    cases hs : step regs op with
    | err => simp [hs] at h
    | panic => simp [hs] at h
    | ok v =>
      obtain ⟨r1, o⟩ := v
      simp only [hs] at h
      cases hr : run r1 ops with
      | err => simp [hr] at h
      | panic => simp [hr] at h
      | ok w =>
        obtain ⟨r2, os⟩ := w
        simp only [hr, Res.ok.injEq, Prod.mk.injEq] at h
        rw [← h.1, ih r1 r2 os hr (fun op' hm => hx op' (List.mem_cons_of_mem _ hm))]
        exact step_frame regs r1 op o hs x (hx op (List.mem_cons_self ..))

/-! ### non-vacuity -/

example : Agrees (init 0) (histInit 0) := agree_init 0

-- two certificates with the same fingerprint: the second AddCert is a no-op, Sum de-duplicates
example :
    let a : Cert := { uid := 0, fp := 1, subject := 1, issuer := 1, skid := 1, akid := 0 }
    let a' : Cert := { uid := 6, fp := 1, subject := 1, issuer := 1, skid := 1, akid := 0 }
    let b : Cert := { uid := 1, fp := 2, subject := 1, issuer := 1, skid := 0, akid := 1 }
    (histRun histInit [.add 0 a, .add 0 b, .add 1 a', .sum 2 1 0]).map (fun A => (A 2).map (fun l => (dedupFp l).map (·.uid)))
      = .ok (some [6, 1]) := by decide

-- Sum into variable 2, then mutate the RESULT: receiver 0 and argument 1 keep their pools
example (regs' : Regs) (outs : List Bool) (c : Cert)
    (h : run init [.sum 2 0 1, .add 2 c] = .ok (regs', outs)) : regs' 0 = init 0 ∧ regs' 1 = init 1 :=
  ⟨run_frame _ _ _ _ h 0 (by simp [Op.dst]), run_frame _ _ _ _ h 1 (by simp [Op.dst])⟩

end ZV.C08
