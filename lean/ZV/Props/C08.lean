import ZV.Model.C08
import ZV.Proofs.C08
/-!
  C08 — CertPool behaves as a fingerprint-keyed ordered set.

  Specification: every pool variable is described by its ADD HISTORY, the plain list of
  certificates handed to it (`AddCert c` appends `c`, `AppendCertsFromPEM` appends the
  certificates of the parseable blocks, `x.Sum(y)` starts from history(x) ++ history(y)).
  `pool_refines` shows that after ANY operation sequence the `certs` slice of the Go-shaped
  model is `dedupFp history` — the distinct-by-fingerprint certificates in first-insertion
  order (`dedupFp` keeps the head and drops later certificates with the same fingerprint;
  `dedupFp_nodup`, `dedupFp_mem_fps`, `dedupFp_sublist` in `ZV.Proofs.C08` characterise it) —
  and that the representation invariant `Inv` (index maps = indices computed from `certs`)
  holds.  The observers and `findVerifiedParents` are then characterised on every reachable pool
  (`observers_refine`: Size / Contains / Covers / Certificates / Subjects of ANY two pool variables, nil ones
  included, after ANY operation sequence, against the abstract ordered set `oset`).
  `appendPEM_is_addCerts` shows that the PEM loop (wrong type / headers / unparsable block are skipped, `ok` result)
  is exactly a sequence of `AddCert` calls, for every pool and every block list; `t1_*` are the T1 facts read
  from x509/cert_pool.go on every run.
-/
namespace ZV.C08

/-! ### add histories -/

abbrev Hist := Nat → Option (List Cert)

/-- the history of a nil pool variable is empty -/
def histOf : Option (List Cert) → List Cert
  | some l => l
  | none => []

/-- the history transformer of one operation (with the same nil-receiver panics as the code). -/
def histStep (A : Hist) : Op → Res Hist
  | .add r c =>
    match c with
    | none => .panic                      -- AddCert(nil)
    | some c =>
      match A r with
      | none => .panic
      | some l => .ok (setKey A r (some (l ++ [c])))
  | .pem r bs =>
    match A r with
    | none => if (pemCerts bs).isEmpty then .ok A else .panic
    | some l => .ok (setKey A r (some (l ++ pemCerts bs)))
  | .sum d a b =>
    .ok (setKey A d (some (histOf (A a) ++ histOf (A b))))

def histRun (A : Hist) : List Op → Res Hist
  | [] => .ok A
  | op :: ops =>
    match histStep A op with
    | .ok A' => histRun A' ops
    | .err => .err
    | .panic => .panic

def histInit : Hist := fun r => if r < 2 then some [] else none

/-- a pool variable agrees with its history -/
def Agrees (p : Option Pool) (l : Option (List Cert)) : Prop :=
  match p, l with
  | some p, some l => Inv p ∧ p.certs = dedupFp l
  | none, none => True
  | _, _ => False

def AllAgree (regs : Regs) (A : Hist) : Prop := ∀ r, Agrees (regs r) (A r)

theorem agree_init : AllAgree init histInit := by
  intro r
  unfold init histInit
  by_cases h : r < 2
  · simp only [h, if_true, Agrees]; exact ⟨inv_new, rfl⟩
  · simp only [h, if_false, Agrees]

theorem agrees_setKey (regs : Regs) (A : Hist) (h : AllAgree regs A) (r : Nat) (p : Pool) (l : List Cert)
    (hp : Inv p) (hc : p.certs = dedupFp l) : AllAgree (setKey regs r (some p)) (setKey A r (some l)) := by
  intro x
  unfold setKey
  by_cases e : x = r
  · simp only [e, if_true, Agrees]; exact ⟨hp, hc⟩
  · simp only [e, if_false]; exact h x

theorem optCerts_agrees (p : Option Pool) (l : Option (List Cert)) (h : Agrees p l) :
    dedupFp (optCerts p) = dedupFp (histOf l) ∧ optCerts p = dedupFp (histOf l) := by
  cases p <;> cases l <;> simp only [Agrees] at h
  · exact ⟨rfl, rfl⟩
  · simp only [optCerts]
    rw [h.2]
    exact ⟨dedupFp_of_nodup _ (dedupFp_nodup _), rfl⟩

/-- one operation preserves agreement (and panics exactly when the history transformer does). -/
theorem step_agrees (regs : Regs) (A : Hist) (op : Op) (h : AllAgree regs A) :
    (∃ regs' o A', step regs op = .ok (regs', o) ∧ histStep A op = .ok A' ∧ AllAgree regs' A') ∨
    (step regs op = .panic ∧ histStep A op = .panic) := by
  cases op with
  | add r c =>
    cases c with
    | none => right; simp only [step, addCertOpt, histStep]; exact ⟨trivial, trivial⟩
    | some c =>
    have hr := h r
    cases hp : regs r with
    | none =>
      cases hl : A r with
      | none => right; simp only [step, addCertOpt, histStep, hp, hl]; exact ⟨trivial, trivial⟩
      | some l => rw [hp, hl] at hr; exact hr.elim
    | some p =>
      cases hl : A r with
      | none => rw [hp, hl] at hr; exact hr.elim
      | some l =>
        rw [hp, hl] at hr
        left
        have a := addCert_spec p c hr.1
        simp only [step, addCertOpt, histStep, hp, hl]
        refine ⟨_, _, _, rfl, rfl, agrees_setKey regs A h r _ _ a.2 ?_⟩
        rw [a.1, hr.2, dedupFp_append]; rfl
  | pem r bs =>
    have hr := h r
    cases hp : regs r with
    | none =>
      cases hl : A r with
      | none =>
        simp only [step, appendCertsFromPEMOpt, histStep, hp, hl, any_accepted]
        by_cases hb : (pemCerts bs).isEmpty = true
        · left; simp only [hb, Bool.not_true, Bool.false_eq_true, if_false, if_true]
          refine ⟨_, _, _, rfl, rfl, ?_⟩
          intro x
          unfold setKey
          by_cases e : x = r
          · simp only [e, if_true, hl, Agrees]
          · simp only [e, if_false]; exact h x
        · right
          have : (pemCerts bs).isEmpty = false := by simpa using hb
          simp only [this, Bool.not_false, if_true, Bool.false_eq_true, if_false]; exact ⟨trivial, trivial⟩
      | some l => rw [hp, hl] at hr; exact hr.elim
    | some p =>
      cases hl : A r with
      | none => rw [hp, hl] at hr; exact hr.elim
      | some l =>
        rw [hp, hl] at hr
        left
        have a := appendPEM_spec bs p hr.1
        simp only [step, appendCertsFromPEMOpt, histStep, hp, hl]
        refine ⟨_, _, _, rfl, rfl, agrees_setKey regs A h r _ _ a.2.1 ?_⟩
        rw [a.1, hr.2, dedupFp_append]
  | sum d a b =>
    left
    simp only [step, histStep]
    have s := sum_spec (regs a) (regs b)
    refine ⟨_, _, _, rfl, rfl, agrees_setKey regs A h d _ _ s.2 ?_⟩
    rw [s.1]
    have ea := optCerts_agrees _ _ (h a)
    have eb := optCerts_agrees _ _ (h b)
    rw [dedupFp_append, dedupFp_append, ea.1, eb.2, foldl_specAdd_dedup]

/-- REFINEMENT.  After any operation sequence (from any agreeing start, in particular the
    initial variables), the model either panics together with the history semantics (a write
    through a nil pool) or every pool variable satisfies the representation invariant and
    its `certs` is `dedupFp` of its add history. -/
theorem run_agrees (ops : List Op) (regs : Regs) (A : Hist) (h : AllAgree regs A) :
    (∃ regs' outs A', run regs ops = .ok (regs', outs) ∧ histRun A ops = .ok A' ∧ AllAgree regs' A') ∨
    (run regs ops = .panic ∧ histRun A ops = .panic) := by
  induction ops generalizing regs A with
  | nil => left; exact ⟨regs, [], A, rfl, rfl, h⟩
  | cons op ops ih =>
    unfold run histRun
    rcases step_agrees regs A op h with ⟨regs1, o, A1, e1, e2, h1⟩ | ⟨e1, e2⟩
    · rw [e1, e2]
      rcases ih regs1 A1 h1 with ⟨regs2, outs, A2, f1, f2, h2⟩ | ⟨f1, f2⟩
      · left; simp only [f1, f2]; exact ⟨_, _, _, rfl, rfl, h2⟩
      · right; simp only [f1, f2]; exact ⟨trivial, trivial⟩
    · right; rw [e1, e2]; exact ⟨rfl, rfl⟩

/-- `pool_refines`: abs (run ops) = dedupByFingerprint (adds ops), for all operation sequences. -/
theorem pool_refines (ops : List Op) :
    (run init ops).map (fun x => fun r => (x.1 r).map (·.certs)) =
    (histRun histInit ops).map (fun A => fun r => (A r).map dedupFp) := by
  rcases run_agrees ops init histInit agree_init with ⟨regs, outs, A, e1, e2, h⟩ | ⟨e1, e2⟩
  · rw [e1, e2]
    simp only [Res.map]
    congr 1
    funext r
    have := h r
    cases hp : regs r <;> cases hl : A r <;> simp only [hp, hl, Agrees] at this
    · rfl
    · simp [this.2]
  · rw [e1, e2]; rfl

/-! ### observers on a pool that agrees with history `l` -/

theorem size_spec (p : Pool) (l : List Cert) (h : Agrees (some p) (some l)) :
    size (some p) = (dedupFp l).length := by
  simp only [Agrees] at h; simp [size, h.2]

theorem certificates_spec (p : Pool) (l : List Cert) (h : Agrees (some p) (some l)) :
    certificates p = dedupFp l := by
  simp only [Agrees] at h; exact h.2

theorem subjects_spec (p : Pool) (l : List Cert) (h : Agrees (some p) (some l)) :
    subjects p = (dedupFp l).map (·.subject) := by
  simp only [Agrees] at h; simp [subjects, h.2]

/-- `Contains c` ⇔ a certificate with c's fingerprint was added at some point. -/
theorem contains_spec (p : Pool) (l : List Cert) (h : Agrees (some p) (some l)) (c : Cert) :
    contains (some p) c = true ↔ c.fp ∈ fps l := by
  simp only [Agrees] at h
  rw [← dedupFp_mem_fps, ← h.2]
  unfold contains
  simp only
  rw [h.1.sha]
  constructor
  · intro hs
    cases hf : p.certs.findIdx? (fun x => decide (x.fp = c.fp)) with
    | none => simp [hf] at hs
    | some n => exact findIdx?_some_mem _ _ n hf
  · intro hm
    cases hf : p.certs.findIdx? (fun x => decide (x.fp = c.fp)) with
    | none => exact absurd hm (findIdx?_none_not_mem _ _ hf)
    | some n => rfl

theorem contains_nil (c : Cert) : contains none c = false := rfl

/-- `s.Covers(q)` ⇔ every certificate added to `q` was (by fingerprint) added to `s`. -/
theorem covers_spec (p q : Pool) (l m : List Cert) (hp : Agrees (some p) (some l)) (hq : Agrees (some q) (some m)) :
    covers (some p) (some q) = true ↔ ∀ c ∈ m, c.fp ∈ fps l := by
  unfold covers
  simp only [List.all_eq_true]
  have hq' := hq
  simp only [Agrees] at hq'
  constructor
  · intro h c hc
    have : c.fp ∈ fps (dedupFp m) := (dedupFp_mem_fps m c.fp).mpr (List.mem_map.mpr ⟨c, hc, rfl⟩)
    obtain ⟨x, hx, ex⟩ := List.mem_map.mp this
    have := (contains_spec p l hp x).mp (h x (by rw [hq'.2]; exact hx))
    rw [ex] at this; exact this
  · intro h x hx
    rw [hq'.2] at hx
    apply (contains_spec p l hp x).mpr
    have hs := (dedupFp_sublist m).subset hx
    exact h x hs

/-- the characterisations hold on every pool reachable from the initial variables. -/
theorem reachable_agrees (ops : List Op) (regs : Regs) (outs : List Bool)
    (h : run init ops = .ok (regs, outs)) :
    ∃ A, histRun histInit ops = .ok A ∧ ∀ r, Agrees (regs r) (A r) := by
  rcases run_agrees ops init histInit agree_init with ⟨regs', outs', A, e1, e2, ha⟩ | ⟨e1, _⟩
  · rw [e1] at h; cases h; exact ⟨A, e2, ha⟩
  · rw [e1] at h; cases h

/-! ### parent lookup -/

/-- the candidate set of `findVerifiedParents`, read off `certs`: by key id when the child
    has an AKID and some member has that SKID, otherwise by issuer name. -/
def candidateOf (certs : List Cert) (child : Cert) (x : Cert) : Bool :=
  if child.akid ≠ 0 ∧ idxs (fun y => y.skid = child.akid) certs 0 ≠ [] then x.skid = child.akid
  else x.subject = child.issuer

/-- `parents_sound` (+ exactness): on a pool satisfying the representation invariant,
    `findVerifiedParents` does not panic and returns exactly the indices of the pool members
    that are lookup candidates for the child and whose signature check over the child passed;
    in particular only indices of pool members with `chk child member`. -/
theorem parents_sound (chk : Cert → Cert → Bool) (p : Pool) (h : Inv p) (child : Cert) (v0 : Bool) :
    ∃ res, findVerifiedParents chk (some p) child v0 = .ok res ∧
      (∀ i, i ∈ res.parents ↔ ∃ x, p.certs[i]? = some x ∧ candidateOf p.certs child x = true ∧ chk child x = true) ∧
      -- side effect: the child's ValidSignature is set iff a parent was found, and never cleared
      res.valid = (v0 || !res.parents.isEmpty) := by
  unfold findVerifiedParents
  simp only
  -- the candidate list is an index list computed from certs
  have hcand : ∀ i, i ∈ (if (if child.akid ≠ 0 then p.bySubjectKeyId child.akid else []).length = 0
        then p.byName child.issuer else (if child.akid ≠ 0 then p.bySubjectKeyId child.akid else [])) ↔
      ∃ x, p.certs[i]? = some x ∧ candidateOf p.certs child x = true := by
    intro i
    unfold candidateOf
    by_cases ha : child.akid = 0
    · simp only [ha, ne_eq, not_true_eq_false, if_false, List.length_nil, if_true, false_and]
      rw [h.name, mem_idxs]
      constructor
      · rintro ⟨j, x, e, g, q⟩; exact ⟨x, by simpa [e] using g, q⟩
      · rintro ⟨x, g, q⟩; exact ⟨i, x, by simp, g, q⟩
    · simp only [ne_eq, ha, not_false_eq_true, if_true, true_and]
      rw [h.skid]
      simp only [ha, if_false]
      by_cases hl : idxs (fun y => decide (y.skid = child.akid)) p.certs 0 = []
      · simp only [hl, List.length_nil, if_true, not_true_eq_false, if_false]
        rw [h.name, mem_idxs]
        constructor
        · rintro ⟨j, x, e, g, q⟩; exact ⟨x, by simpa [e] using g, q⟩
        · rintro ⟨x, g, q⟩; exact ⟨i, x, by simp, g, q⟩
      · have : ¬ (idxs (fun y => decide (y.skid = child.akid)) p.certs 0).length = 0 := by
          simpa [List.length_eq_zero_iff] using hl
        simp only [this, if_false, hl, not_false_eq_true, if_true]
        rw [mem_idxs]
        constructor
        · rintro ⟨j, x, e, g, q⟩; exact ⟨x, by simpa [e] using g, q⟩
        · rintro ⟨x, g, q⟩; exact ⟨i, x, by simp, g, q⟩
  obtain ⟨res, e, m⟩ := parentsLoop_spec chk p.certs child _ { parents := [], errCert := none, errNil := true, valid := v0 }
    (fun i hi => by obtain ⟨x, hx, _⟩ := (hcand i).mp hi; exact ⟨x, hx⟩)
  refine ⟨res, e, ?_, parentsLoop_valid chk p.certs child v0 _ _ res (by simp) e⟩
  intro i
  rw [m i]
  simp only [List.not_mem_nil, false_or]
  constructor
  · rintro ⟨hi, x, hx, hk⟩
    obtain ⟨y, hy, hc⟩ := (hcand i).mp hi
    rw [hx] at hy; cases hy
    exact ⟨x, hx, hc, hk⟩
  · rintro ⟨x, hx, hc, hk⟩
    exact ⟨(hcand i).mpr ⟨x, hx, hc⟩, x, hx, hk⟩

/-- a nil pool has no parents to offer. -/
theorem parents_nil (chk : Cert → Cert → Bool) (child : Cert) (v0 : Bool) :
    findVerifiedParents chk none child v0 = .ok { parents := [], errCert := none, errNil := true, valid := v0 } := rfl

/-! ### pool variables hold values: an operation changes only its destination variable

    In particular the result of `Sum` shares nothing with its receiver or argument: whatever is done
    afterwards to any of the three pools leaves the observation of the other two unchanged.  The Go
    harness checks exactly this on the implementation by observing EVERY live pool after EVERY operation. -/

/-- the variable an operation writes -/
def Op.dst : Op → Nat
  | .add r _ => r
  | .pem r _ => r
  | .sum d _ _ => d

theorem step_frame (regs regs' : Regs) (op : Op) (o : Option Bool) (h : step regs op = .ok (regs', o))
    (x : Nat) (hx : x ≠ op.dst) : regs' x = regs x := by
  cases op with
  | add r c =>
    simp only [step] at h
    split at h <;> simp only [Res.ok.injEq, Prod.mk.injEq, reduceCtorEq] at h
    rw [← h.1]; simp only [setKey, Op.dst] at hx ⊢; simp [hx]
  | pem r bs =>
    simp only [step] at h
    split at h <;> simp only [Res.ok.injEq, Prod.mk.injEq, reduceCtorEq] at h
    rw [← h.1]; simp only [setKey, Op.dst] at hx ⊢; simp [hx]
  | sum d a b =>
    simp only [step, Res.ok.injEq, Prod.mk.injEq] at h
    rw [← h.1]; simp only [setKey, Op.dst] at hx ⊢; simp [hx]

/-- a variable that no operation of the sequence writes keeps its pool, whatever happens to the others
    (e.g. the receiver and the argument of a `Sum` while the result is mutated, and vice versa). -/
theorem run_frame (ops : List Op) (regs regs' : Regs) (outs : List Bool) (h : run regs ops = .ok (regs', outs))
    (x : Nat) (hx : ∀ op ∈ ops, x ≠ op.dst) : regs' x = regs x := by
  induction ops generalizing regs regs' outs with
  | nil => simp only [run, Res.ok.injEq, Prod.mk.injEq] at h; rw [← h.1]
  | cons op ops ih =>
    simp only [run] at h
    cases hs : step regs op with
    | err => simp [hs] at h
    | panic => simp [hs] at h
    | ok v =>
      obtain ⟨r1, o⟩ := v
      simp only [hs] at h
      cases hr : run r1 ops with
      | err => simp [hr] at h
      | panic => simp [hr] at h
      | ok w =>
        obtain ⟨r2, os⟩ := w
        simp only [hr, Res.ok.injEq, Prod.mk.injEq] at h
        rw [← h.1, ih r1 r2 os hr (fun op' hm => hx op' (List.mem_cons_of_mem _ hm))]
        exact step_frame regs r1 op o hs x (hx op (List.mem_cons_self ..))


/-! ### AppendCertsFromPEM is a sequence of AddCert calls -/

/-- which blocks pass the two `continue` tests of the loop: exactly the header-less blocks whose type is the
    literal the source compares with (T1 `pemBlockType`; `t1_pem_constants` pins it to "CERTIFICATE"). -/
theorem skipped_iff (b : Block) : b.skipped = false ↔ b.typ = "CERTIFICATE" ∧ b.nHeaders = 0 := by
  unfold Block.skipped
  have e1 : ZV.Generated.C08.pemBlockType = "CERTIFICATE" := by decide
  have e2 : ZV.Generated.C08.pemHeaderBound = 0 := by decide
  rw [e1, e2]
  simp

/-- a block contributes a certificate iff its type is CERTIFICATE, it has no headers and its bytes parse. -/
theorem accepted_iff (b : Block) (c : Cert) :
    b.accepted = some c ↔ b.typ = "CERTIFICATE" ∧ b.nHeaders = 0 ∧ b.parsed = some c := by
  unfold Block.accepted
  by_cases hs : b.skipped = true
  · have : ¬ (b.typ = "CERTIFICATE" ∧ b.nHeaders = 0) := fun h => by
      have := (skipped_iff b).mpr h; rw [hs] at this; cases this
    simp only [hs, if_true, reduceCtorEq, false_iff]
    intro h; exact this ⟨h.1, h.2.1⟩
  · have hf : b.skipped = false := by simpa using hs
    have := (skipped_iff b).mp hf
    simp [hf, this.1, this.2]

/-- THE PEM LOOP, for ALL pools and ALL block lists: `AppendCertsFromPEM` returns the pool obtained by calling
    `AddCert` on the accepted blocks' certificates in order, and `ok` = "some block was accepted". -/
theorem appendPEM_is_addCerts (s : Pool) (bs : List Block) :
    appendCertsFromPEM s bs = ((pemCerts bs).foldl addCert s, !(pemCerts bs).isEmpty) :=
  appendPEM_eq_addCerts bs s

/-- on a nil receiver the call panics iff some block is accepted (AddCert dereferences the receiver); otherwise it
    returns false and there is still no pool. -/
theorem appendPEM_nil (bs : List Block) :
    appendCertsFromPEMOpt none bs = if (pemCerts bs).isEmpty then .ok (none, false) else .panic := by
  unfold appendCertsFromPEMOpt
  simp only [any_accepted]
  cases (pemCerts bs).isEmpty <;> rfl

/-- skipped blocks are invisible: deleting them from the input changes neither the pool nor the result. -/
theorem appendPEM_skips (s : Pool) (bs : List Block) :
    appendCertsFromPEM s bs = appendCertsFromPEM s (bs.filter (fun b => b.accepted.isSome)) := by
  rw [appendPEM_is_addCerts, appendPEM_is_addCerts]
  have : pemCerts (bs.filter (fun b => b.accepted.isSome)) = pemCerts bs := by
    unfold pemCerts
    induction bs with
    | nil => rfl
    | cons b bs ih =>
      cases hb : b.accepted with
      | none => simp [hb, ih]
      | some c => simp [hb, ih]
  rw [this]

/-- AddCert(nil) panics whatever the receiver is (the test precedes every dereference), and a history containing it panics. -/
theorem addCert_nil_panics (s : Option Pool) : addCertOpt s none = .panic := rfl

theorem step_addCert_nil (regs : Regs) (r : Nat) : step regs (.add r none) = .panic := rfl

/-- the `ok` results of the AppendCertsFromPEM calls of a history depend on the block lists only -/
def opOut : Op → Option Bool
  | .pem _ bs => some (!(pemCerts bs).isEmpty)
  | _ => none

def pemOuts : List Op → List Bool
  | [] => []
  | op :: ops => (match opOut op with | some b => [b] | none => []) ++ pemOuts ops

theorem step_out (regs regs' : Regs) (op : Op) (o : Option Bool) (h : step regs op = .ok (regs', o)) : o = opOut op := by
  cases op with
  | add r c =>
    simp only [step] at h
    split at h <;> simp only [Res.ok.injEq, Prod.mk.injEq, reduceCtorEq] at h
    rw [← h.2]; rfl
  | pem r bs =>
    simp only [step] at h
    cases hr : regs r with
    | none =>
      rw [hr, appendPEM_nil] at h
      cases he : (pemCerts bs).isEmpty <;> simp only [he, Bool.false_eq_true, if_false, if_true, reduceCtorEq] at h
      simp only [Res.ok.injEq, Prod.mk.injEq] at h
      rw [← h.2]; simp [opOut, he]
    | some p =>
      simp only [hr, appendCertsFromPEMOpt, appendPEM_is_addCerts, Res.ok.injEq, Prod.mk.injEq] at h
      rw [← h.2]; rfl
  | sum d a b =>
    simp only [step, Res.ok.injEq, Prod.mk.injEq] at h
    rw [← h.2]; rfl

/-- every AppendCertsFromPEM call of ANY non-panicking history reports exactly "some block was accepted". -/
theorem run_outs (ops : List Op) (regs regs' : Regs) (outs : List Bool) (h : run regs ops = .ok (regs', outs)) :
    outs = pemOuts ops := by
  induction ops generalizing regs regs' outs with
  | nil => simp only [run, Res.ok.injEq, Prod.mk.injEq] at h; rw [← h.2]; rfl
  | cons op ops ih =>
    simp only [run] at h
    cases hs : step regs op with
    | err => simp [hs] at h
    | panic => simp [hs] at h
    | ok v =>
      obtain ⟨r1, o⟩ := v
      simp only [hs] at h
      cases hr : run r1 ops with
      | err => simp [hr] at h
      | panic => simp [hr] at h
      | ok w =>
        obtain ⟨r2, os⟩ := w
        simp only [hr, Res.ok.injEq, Prod.mk.injEq] at h
        rw [← h.2, ih r1 r2 os hr, step_out regs r1 op o hs]
        rfl

/-! ### all observers against the abstract ordered set, nil pools included -/

/-- the abstract value of a pool variable: the fingerprint-keyed ordered set of its add history (empty for nil) -/
def oset (l : Option (List Cert)) : List Cert := dedupFp (histOf l)

/-- the abstract set operations: insertion is `specAdd` (append unless the fingerprint is present), the union of
    `Sum` inserts the elements of the argument in order. -/
theorem oset_add (l : List Cert) (c : Cert) : oset (some (l ++ [c])) = specAdd (oset (some l)) c := by
  simp only [oset, histOf, dedupFp_append]; rfl

theorem oset_union (l m : Option (List Cert)) :
    oset (some (histOf l ++ histOf m)) = (oset m).foldl specAdd (oset l) := by
  simp only [oset, histOf, dedupFp_append, foldl_specAdd_dedup]

theorem oset_nodup (l : Option (List Cert)) : (fps (oset l)).Nodup := dedupFp_nodup _

theorem contains_eq (p : Option Pool) (l : Option (List Cert)) (h : Agrees p l) (c : Cert) :
    contains p c = decide (c.fp ∈ fps (oset l)) := by
  cases p with
  | none =>
    cases l with
    | none => simp [contains, oset, histOf, dedupFp, fps]
    | some l => exact h.elim
  | some p =>
    cases l with
    | none => exact h.elim
    | some l =>
      rw [Bool.eq_iff_iff, contains_spec p l h c, decide_eq_true_iff]
      simp only [oset, histOf]
      exact (dedupFp_mem_fps l c.fp).symm

/-- OBSERVERS: for two pool variables that agree with their histories (nil ones included) `Size`, `Contains`,
    `Covers`, `Certificates` and `Subjects` are the corresponding functions of the abstract ordered sets. -/
theorem observers_agree (p q : Option Pool) (l m : Option (List Cert)) (hp : Agrees p l) (hq : Agrees q m) (c : Cert) :
    size p = (oset l).length ∧
    contains p c = decide (c.fp ∈ fps (oset l)) ∧
    covers p q = (oset m).all (fun x => decide (x.fp ∈ fps (oset l))) ∧
    (∀ x, p = some x → certificates x = oset l ∧ subjects x = (oset l).map (·.subject)) := by
  refine ⟨?_, contains_eq p l hp c, ?_, ?_⟩
  · cases p <;> cases l <;> simp only [Agrees] at hp
    · simp [size, oset, histOf, dedupFp]
    · simp [size, oset, histOf, hp.2]
  · cases q with
    | none =>
      cases m with
      | none => simp [covers, oset, histOf, dedupFp]
      | some m => exact hq.elim
    | some q =>
      cases m with
      | none => exact hq.elim
      | some m =>
        simp only [Agrees] at hq
        simp only [covers, hq.2, oset, histOf]
        congr 1
        funext x
        exact contains_eq p l hp x
  · intro x hx
    subst hx
    cases l with
    | none => exact hp.elim
    | some l =>
      simp only [Agrees] at hp
      simp [certificates, subjects, oset, histOf, hp.2]

/-- REFINEMENT OF THE OBSERVERS.  After ANY operation sequence that does not panic, for ANY two pool variables
    `r`, `q` (equal or not, nil or not, results / receivers / arguments of earlier Sums alike) and any certificate:
    every observer returns what the abstract ordered sets of the add histories say, and the AppendCertsFromPEM
    results are `pemOuts`. -/
theorem observers_refine (ops : List Op) (regs : Regs) (outs : List Bool) (h : run init ops = .ok (regs, outs)) :
    ∃ A, histRun histInit ops = .ok A ∧ outs = pemOuts ops ∧ ∀ r q c,
      size (regs r) = (oset (A r)).length ∧
      contains (regs r) c = decide (c.fp ∈ fps (oset (A r))) ∧
      covers (regs r) (regs q) = (oset (A q)).all (fun x => decide (x.fp ∈ fps (oset (A r)))) ∧
      (∀ x, regs r = some x → certificates x = oset (A r) ∧ subjects x = (oset (A r)).map (·.subject)) := by
  obtain ⟨A, e, ha⟩ := reachable_agrees ops regs outs h
  exact ⟨A, e, run_outs ops init regs outs h, fun r q c => observers_agree _ _ _ _ (ha r) (ha q) c⟩

/-- `Sum`: for ANY receiver and argument satisfying the invariant (nil allowed, the same pool allowed) the result
    satisfies the invariant, holds the ordered union, covers both operands, and is covered by exactly the pools
    that cover both. -/
theorem sum_union (a b : Option Pool) :
    Inv (sum a b) ∧ (sum a b).certs = (optCerts b).foldl specAdd (dedupFp (optCerts a)) := by
  have := sum_spec a b
  exact ⟨this.2, by rw [this.1, dedupFp_append]⟩

/-- in `x.Sum(y)` the receiver's members keep their OBJECTS and POSITIONS (so indices into the receiver are valid in
    the result); the argument's members with new fingerprints follow, in the argument's order. -/
theorem sum_receiver_prefix (a : Pool) (b : Option Pool) (ha : Inv a) :
    (sum (some a) b).certs = a.certs ++ (dedupFp (optCerts b)).filter (fun c => decide (c.fp ∉ fps a.certs)) := by
  rw [(sum_union (some a) b).2, foldl_specAdd]
  simp only [optCerts, dedupFp_of_nodup _ ha.nodup]

/-- a nil receiver contributes nothing: the result is the argument, de-duplicated (a no-op on a pool satisfying Inv). -/
theorem sum_nil_receiver (b : Pool) (hb : Inv b) : (sum none (some b)).certs = b.certs := by
  rw [(sum_spec none (some b)).1]
  simp only [optCerts, List.nil_append, dedupFp_of_nodup _ hb.nodup]

/-! ### T1: facts read from x509/cert_pool.go on every run -/

/-- the literals of the AppendCertsFromPEM `continue` test and of the AddCert(nil) panic -/
theorem t1_pem_constants :
    ZV.Generated.C08.pemBlockType = "CERTIFICATE" ∧ ZV.Generated.C08.pemBlockTypeOp = "!=" ∧
    ZV.Generated.C08.pemHeaderOp = "!=" ∧ ZV.Generated.C08.pemHeaderBound = 0 ∧
    ZV.Generated.C08.addCertNilPanic = "adding nil Certificate to CertPool" ∧
    ZV.Generated.C08.shapeCounts = [1, 1, 1] := by decide

/-- every guard (`if` / loop header / `break` / `continue`) of x509/cert_pool.go, in source order, is the one the
    model mirrors: weakening, removing or adding a guard in the file changes the generated table and fails here. -/
theorem t1_guards : ZV.Generated.C08.guards = [
    ("findVerifiedParents", "if s == nil"),
    ("findVerifiedParents", "if len(cert.AuthorityKeyId) > 0"),
    ("findVerifiedParents", "if len(candidates) == 0"),
    ("findVerifiedParents", "range candidates"),
    ("findVerifiedParents", "if err == nil"),
    ("Contains", "if s == nil"),
    ("Covers", "if pool == nil"),
    ("Covers", "range pool.certs"),
    ("Covers", "if !s.Contains(c)"),
    ("Size", "if s == nil"),
    ("Sum", "if s != nil"),
    ("Sum", "range s.certs"),
    ("Sum", "if other != nil"),
    ("Sum", "range other.certs"),
    ("AddCert", "if cert == nil"),
    ("AddCert", "if ok"),
    ("AddCert", "if len(cert.SubjectKeyId) > 0"),
    ("AppendCertsFromPEM", "for len(pemCerts) > 0"),
    ("AppendCertsFromPEM", "if block == nil"),
    ("AppendCertsFromPEM", "break"),
    ("AppendCertsFromPEM", "if block.Type != \"CERTIFICATE\" || len(block.Headers) != 0"),
    ("AppendCertsFromPEM", "continue"),
    ("AppendCertsFromPEM", "if err != nil"),
    ("AppendCertsFromPEM", "continue"),
    ("Subjects", "range s.certs")] := by decide

/-- statement counts per function (an inserted or deleted statement in a modelled function shows here) -/
theorem t1_stmt_counts : ZV.Generated.C08.stmtCounts = [
    ("NewCertPool", 2), ("cert", 2), ("findVerifiedParents", 21), ("Contains", 6), ("Covers", 10),
    ("Certificates", 4), ("Size", 5), ("Sum", 13), ("AddCert", 18), ("AppendCertsFromPEM", 18), ("Subjects", 6)] := by decide

/-! ### non-vacuity -/

-- a reachable state with a nil variable (3), a Sum result (2) and PEM input with every kind of skipped block:
-- the hypotheses of `observers_refine` / `run_outs` / `reachable_agrees` are satisfiable
example :
    let a : Cert := { uid := 0, fp := 1, subject := 1, issuer := 1, skid := 1, akid := 0 }
    let b : Cert := { uid := 1, fp := 2, subject := 1, issuer := 1, skid := 0, akid := 1 }
    let blocks : List Block := [{ typ := "X509 CRL", nHeaders := 0, parsed := some a }, { typ := "CERTIFICATE", nHeaders := 1, parsed := some a },
      { typ := "CERTIFICATE", nHeaders := 0, parsed := none }, { typ := "CERTIFICATE", nHeaders := 0, parsed := some b }]
    (run init [.add 0 (some a), .pem 1 blocks, .pem 3 (blocks.take 3), .sum 2 0 1]).map (fun x => (x.2, (x.1 2).map (fun p => p.certs.map (·.uid)), (x.1 3).isSome))
      = .ok ([true, false], some [0, 1], false) := by decide

-- `parents_sound`: the invariant holds for the empty pool, and a pool with one verified parent sets ValidSignature
example : Inv newPool := inv_new
example :
    let r : Cert := { uid := 0, fp := 1, subject := 1, issuer := 1, skid := 1, akid := 0 }
    let c : Cert := { uid := 1, fp := 2, subject := 2, issuer := 1, skid := 0, akid := 1 }
    findVerifiedParents (fun _ _ => true) (some (addCert newPool r)) c false
      = .ok { parents := [0], errCert := none, errNil := true, valid := true } := by decide

-- `accepted_iff` / `skipped_iff`: a block that is accepted, and near misses that are not
example : (Block.mk "CERTIFICATE" 0 (some ⟨0, 1, 1, 1, 0, 0⟩)).accepted = some ⟨0, 1, 1, 1, 0, 0⟩ := by decide
example : (Block.mk "certificate" 0 (some ⟨0, 1, 1, 1, 0, 0⟩)).accepted = none ∧ (Block.mk "CERTIFICATE " 0 (some ⟨0, 1, 1, 1, 0, 0⟩)).accepted = none ∧
    (Block.mk "CERTIFICATE" 2 (some ⟨0, 1, 1, 1, 0, 0⟩)).accepted = none := by decide

-- AddCert(nil) in the middle of a history: the whole run panics
example (c : Cert) : run init [.add 0 (some c), .add 0 none, .add 1 (some c)] = .panic := by
  simp [run, step, addCertOpt, init]


example : Agrees (init 0) (histInit 0) := agree_init 0

-- two certificates with the same fingerprint: the second AddCert is a no-op, Sum de-duplicates
example :
    let a : Cert := { uid := 0, fp := 1, subject := 1, issuer := 1, skid := 1, akid := 0 }
    let a' : Cert := { uid := 6, fp := 1, subject := 1, issuer := 1, skid := 1, akid := 0 }
    let b : Cert := { uid := 1, fp := 2, subject := 1, issuer := 1, skid := 0, akid := 1 }
    (histRun histInit [.add 0 (some a), .add 0 (some b), .add 1 (some a'), .sum 2 1 0]).map (fun A => (A 2).map (fun l => (dedupFp l).map (·.uid)))
      = .ok (some [6, 1]) := by decide

-- Sum into variable 2, then mutate the RESULT: receiver 0 and argument 1 keep their pools
example (regs' : Regs) (outs : List Bool) (c : Cert)
    (h : run init [.sum 2 0 1, .add 2 (some c)] = .ok (regs', outs)) : regs' 0 = init 0 ∧ regs' 1 = init 1 :=
  ⟨run_frame _ _ _ _ h 0 (by simp [Op.dst]), run_frame _ _ _ _ h 1 (by simp [Op.dst])⟩

end ZV.C08
