import ZV.Model.C11
import ZV.Proofs.C10Inv
import ZV.Proofs.C11
import ZV.Proofs.C11Async
import ZV.Proofs.C11Ext
import ZV.Proofs.C10
/-!
  C11 — `WalkChains` on a certificate returns each path that starts at that certificate,
  follows issuer edges, stops at the first root edge, never re-enters a (subject, key) pair
  already in the chain, uses only CA certificates within path-length limits before the root,
  and has at most `maxIntermediateCount` certificates; it returns no other chains and no
  duplicates.

  `Paths V g c` is the declarative set of such paths.  It is written over `g.edges` only:
  the adjacency maps (`Node.parents`, Go maps whose iteration order is arbitrary) do not
  occur in it.  `walk_sound` + `walk_complete` : `walkChains V g c` enumerates exactly
  `Paths V g c`, for every graph satisfying the invariant `WF` (which `ZV.Proofs.C10` proves
  for every graph reachable by `AddCert` / `AddRoot`).
-/
namespace ZV.C11
open ZV.C10

/-! ### the declarative path set -/

/-- `rest` is a permitted continuation of the chain `soFar` whose last edge is `last` -/
def ValidExt (g : Graph) : List Cert → Edge → List Edge → Prop
  | _, last, [] => last.root = true                                 -- ends at a root edge
  | soFar, last, e :: rest =>
      last.root = false ∧                                           -- stops at the FIRST root edge
      soFar.length < maxIntermediateCount ∧                         -- at most 9 certificates
      e ∈ g.edges ∧
      (∃ k, last.issuer = some k ∧ e.child = k) ∧                   -- follows the issuer edge
      (∃ k', e.issuer = some k' ∧ skInChain k' soFar = false) ∧     -- issuer (subject,key) not yet in the chain
      canAddToChain e.cert e.root soFar = true ∧                    -- CA / path-length rule
      ValidExt g (soFar ++ [e.cert]) e rest

/-- the chains `WalkChains(c)` is documented to return -/
def Paths (V : Ver) (g : Graph) (c : Cert) (ch : List Cert) : Prop :=
  ∃ rest, ValidExt g [(startEdge V g c).cert] (startEdge V g c) rest ∧
    ch = (startEdge V g c).cert :: rest.map (·.cert)

/-! ### 1. length bound (no hypothesis at all) -/

theorem walk_len_le_max {V : Ver} {g : Graph} {c : Cert} {ch : List Cert}
    (h : ch ∈ walkChains V g c) : ch.length ≤ maxIntermediateCount := by
  unfold walkChains at h
  have := (walk_prefix_len _ _ _ _ h).2
  simp only [maxIntermediateCount, List.length_singleton] at this ⊢
  omega

/-- every returned chain starts with the certificate asked for (or the stored copy of it) -/
theorem walk_head {V : Ver} {g : Graph} {c : Cert} {ch : List Cert}
    (h : ch ∈ walkChains V g c) : ch.head? = some (startEdge V g c).cert := by
  unfold walkChains at h
  obtain ⟨t, ht⟩ := (walk_prefix_len _ _ _ _ h).1
  rw [ht]; rfl

/-! ### 2./3. the walk enumerates exactly `Paths` -/

theorem walk_sound_gen {V : Ver} {g : Graph} (wf : WF V g) :
    ∀ (fuel : Nat) (soFar : List Cert) (last : Edge) (ch : List Cert),
      fuel + soFar.length = maxIntermediateCount → ch ∈ walk g fuel soFar last →
      ∃ rest, ValidExt g soFar last rest ∧ ch = soFar ++ rest.map (·.cert) := by
  intro fuel
  induction fuel with
  | zero =>
    intro soFar last ch _ h
    cases hr : last.root with
    | true =>
      rw [mem_walk_root hr] at h
      exact ⟨[], by rw [ValidExt]; exact hr, by simp [h]⟩
    | false => rw [walk_zero hr] at h; cases h
  | succ fuel ih =>
    intro soFar last ch hlen h
    cases hr : last.root with
    | true =>
      rw [mem_walk_root hr] at h
      exact ⟨[], by rw [ValidExt]; exact hr, by simp [h]⟩
    | false =>
      obtain ⟨e, ⟨hemem, hlink, hsk, hcan⟩, he⟩ := mem_walk_step_mp wf hr h
      have hlen' : fuel + (soFar ++ [e.cert]).length = maxIntermediateCount := by
        simp only [List.length_append, List.length_singleton]; omega
      obtain ⟨rest, hv, hch⟩ := ih _ _ _ hlen' he
      refine ⟨e :: rest, ?_, by rw [hch]; simp⟩
      rw [ValidExt]
      exact ⟨hr, by omega, hemem, hlink, hsk, hcan, hv⟩

theorem walk_complete_gen {V : Ver} {g : Graph} (wf : WF V g) :
    ∀ (rest : List Edge) (fuel : Nat) (soFar : List Cert) (last : Edge),
      fuel + soFar.length = maxIntermediateCount →
      (∀ k, last.issuer = some k → ∃ n ∈ g.nodes, n.key = k) →
      ValidExt g soFar last rest →
      soFar ++ rest.map (·.cert) ∈ walk g fuel soFar last := by
  intro rest
  induction rest with
  | nil =>
    intro fuel soFar last _ _ hv
    rw [ValidExt] at hv
    rw [mem_walk_root hv]; simp
  | cons e rest ih =>
    intro fuel soFar last hlen hlast hv
    rw [ValidExt] at hv
    obtain ⟨hr, hlt, hemem, hlink, hsk, hcan, hv'⟩ := hv
    cases fuel with
    | zero => omega
    | succ fuel =>
      have hlen' : fuel + (soFar ++ [e.cert]).length = maxIntermediateCount := by
        simp only [List.length_append, List.length_singleton]; omega
      have hlast' : ∀ k, e.issuer = some k → ∃ n ∈ g.nodes, n.key = k :=
        fun k hk => (wf.issuerSome e hemem k hk).2.2
      have := ih fuel (soFar ++ [e.cert]) e hlen' hlast' hv'
      have h2 : soFar ++ (e :: rest).map (·.cert) = soFar ++ [e.cert] ++ rest.map (·.cert) := by
        simp
      rw [h2]
      exact mem_walk_step_mpr wf hr hlast ⟨hemem, hlink, hsk, hcan⟩ this

/-- the walk returns no other chains -/
theorem walk_sound {V : Ver} {g : Graph} {c : Cert} {ch : List Cert} (wf : WF V g)
    (h : ch ∈ walkChains V g c) : Paths V g c ch := by
  unfold walkChains at h
  obtain ⟨rest, hv, hch⟩ := walk_sound_gen wf _ _ _ _ (by rfl) h
  exact ⟨rest, hv, by rw [hch]; rfl⟩

/-- the walk returns each such path -/
theorem walk_complete {V : Ver} {g : Graph} {c : Cert} {ch : List Cert} (wf : WF V g)
    (h : Paths V g c ch) : ch ∈ walkChains V g c := by
  obtain ⟨rest, hv, hch⟩ := h
  unfold walkChains
  have := walk_complete_gen wf rest (maxIntermediateCount - 1) [(startEdge V g c).cert]
    (startEdge V g c) (by rfl) (startEdge_issuer_node wf c) hv
  rw [hch]
  exact this

theorem walk_iff_paths {V : Ver} {g : Graph} {c : Cert} {ch : List Cert} (wf : WF V g) :
    ch ∈ walkChains V g c ↔ Paths V g c ch :=
  ⟨walk_sound wf, walk_complete wf⟩

/-! ### 4. the iteration order of the adjacency maps does not matter -/

theorem validExt_congr {g g' : Graph} (he : g.edges = g'.edges) :
    ∀ (rest : List Edge) (soFar : List Cert) (last : Edge),
      ValidExt g soFar last rest ↔ ValidExt g' soFar last rest := by
  intro rest
  induction rest with
  | nil => intro soFar last; rw [ValidExt, ValidExt]
  | cons e rest ih =>
    intro soFar last
    rw [ValidExt, ValidExt, he, ih]

/-- two well-formed graphs with the same edges (nodes / adjacency lists in any order) and the
    same start edge give the same set of chains -/
theorem walk_order_independent {V : Ver} {g g' : Graph} {c : Cert} {ch : List Cert}
    (wf : WF V g) (wf' : WF V g') (he : g.edges = g'.edges)
    (hs : startEdge V g c = startEdge V g' c) :
    ch ∈ walkChains V g c ↔ ch ∈ walkChains V g' c := by
  rw [walk_iff_paths wf, walk_iff_paths wf']
  unfold Paths
  rw [hs]
  constructor
  · intro ⟨rest, hv, hch⟩; exact ⟨rest, (validExt_congr he _ _ _).mp hv, hch⟩
  · intro ⟨rest, hv, hch⟩; exact ⟨rest, (validExt_congr he _ _ _).mpr hv, hch⟩

/-! ### 5. readable consequences of `Paths` -/

theorem validExt_len {g : Graph} : ∀ (rest : List Edge) (soFar : List Cert) (last : Edge),
    soFar.length ≤ maxIntermediateCount → ValidExt g soFar last rest →
    soFar.length + rest.length ≤ maxIntermediateCount := by
  intro rest
  induction rest with
  | nil => intro soFar last h _; simpa using h
  | cons e rest ih =>
    intro soFar last _ hv
    rw [ValidExt] at hv
    obtain ⟨_, hlt, _, _, _, _, hv'⟩ := hv
    have := ih (soFar ++ [e.cert]) e (by simp only [List.length_append, List.length_singleton]; omega) hv'
    simp only [List.length_append, List.length_cons] at this ⊢
    omega

/-- at most the documented maximum length -/
theorem paths_len_le {V : Ver} {g : Graph} {c : Cert} {ch : List Cert} (h : Paths V g c ch) :
    ch.length ≤ maxIntermediateCount := by
  obtain ⟨rest, hv, hch⟩ := h
  have := validExt_len rest _ _ (by simp [maxIntermediateCount]) hv
  rw [hch]
  simp only [List.length_cons, List.length_map] at this ⊢
  omega

/-- the last edge of a path is a root edge -/
theorem validExt_last_root {g : Graph} : ∀ (rest : List Edge) (soFar : List Cert) (last : Edge),
    ValidExt g soFar last rest → ∀ pre a, last :: rest = pre ++ [a] → a.root = true := by
  intro rest
  induction rest with
  | nil =>
    intro soFar last hv pre a h
    rw [ValidExt] at hv
    cases pre with
    | nil => simp only [List.nil_append, List.cons.injEq, and_true] at h; rw [← h]; exact hv
    | cons p pre => simp at h
  | cons e rest ih =>
    intro soFar last hv pre a h
    rw [ValidExt] at hv
    cases pre with
    | nil => simp at h
    | cons p pre =>
      simp only [List.cons_append, List.cons.injEq] at h
      exact ih _ _ hv.2.2.2.2.2.2 pre a h.2

/-- every step of a path: the edge left is not a root (so the path stops at the FIRST root),
    the next edge is an edge of the graph whose head is the issuer node of the edge left,
    its own issuer's (subject, key) is not among the certificates before it, and the
    CA / path-length rule holds against the certificates before it.
    (`pfx ++ [last.cert]` is the chain built so far.) -/
theorem validExt_steps {g : Graph} : ∀ (rest : List Edge) (pfx : List Cert) (last : Edge),
    ValidExt g (pfx ++ [last.cert]) last rest →
    ∀ pre a b post, last :: rest = pre ++ a :: b :: post →
      a.root = false ∧ b ∈ g.edges ∧ (∃ k, a.issuer = some k ∧ b.child = k) ∧
      (∃ k', b.issuer = some k' ∧ skInChain k' (pfx ++ (pre ++ [a]).map (·.cert)) = false) ∧
      canAddToChain b.cert b.root (pfx ++ (pre ++ [a]).map (·.cert)) = true := by
  intro rest
  induction rest with
  | nil =>
    intro pfx last _ pre a b post h
    cases pre with
    | nil => simp at h
    | cons p pre => simp at h
  | cons e rest ih =>
    intro pfx last hv pre a b post h
    rw [ValidExt] at hv
    obtain ⟨hr, _, hemem, hlink, hsk, hcan, hv'⟩ := hv
    cases pre with
    | nil =>
      simp only [List.nil_append, List.cons.injEq] at h
      obtain ⟨rfl, rfl, _⟩ := h
      exact ⟨hr, hemem, hlink, by simpa using hsk, by simpa using hcan⟩
    | cons p pre =>
      simp only [List.cons_append, List.cons.injEq] at h
      obtain ⟨rfl, h⟩ := h
      have hv'' : ValidExt g ((pfx ++ [last.cert]) ++ [e.cert]) e rest := hv'
      have := ih (pfx ++ [last.cert]) e hv'' pre a b post h
      simpa using this

/-- `Paths`, read edge by edge: a returned chain is the certificate list of a sequence of edges
    `es` that begins with the start edge, whose last edge is a root edge, and in which every
    consecutive pair `a, b` satisfies: `a` is not a root, `b ∈ g.edges`, `b` hangs under the issuer
    node of `a`, the issuer of `b` is not the (subject, key) of a certificate before `b`, and `b`
    passes `canAddToChain` against the certificates before it. -/
theorem paths_edges {V : Ver} {g : Graph} {c : Cert} {ch : List Cert} (h : Paths V g c ch) :
    ∃ es : List Edge, ch = es.map (·.cert) ∧ es.head? = some (startEdge V g c) ∧
      (∀ pre a, es = pre ++ [a] → a.root = true) ∧
      (∀ pre a b post, es = pre ++ a :: b :: post →
        a.root = false ∧ b ∈ g.edges ∧ (∃ k, a.issuer = some k ∧ b.child = k) ∧
        (∃ k', b.issuer = some k' ∧ skInChain k' ((pre ++ [a]).map (·.cert)) = false) ∧
        canAddToChain b.cert b.root ((pre ++ [a]).map (·.cert)) = true) := by
  obtain ⟨rest, hv, hch⟩ := h
  refine ⟨startEdge V g c :: rest, by rw [hch]; rfl, rfl, validExt_last_root rest _ _ hv, ?_⟩
  intro pre a b post hd
  have := validExt_steps rest [] (startEdge V g c) (by simpa using hv) pre a b post hd
  simpa using this

/-- every certificate after the first is a CA certificate with valid basic constraints, except
    possibly the one on the final (root) edge -/
theorem canAdd_nonroot_isCA {c : Cert} {chain : List Cert}
    (h : canAddToChain c false chain = true) : c.bcValid = true ∧ c.isCA = true := by
  unfold canAddToChain at h
  cases hb : c.bcValid <;> cases ha : c.isCA <;> simp [hb, ha] at h ⊢

/-- What "never revisits a (subject, key) pair" means for this code.  The test in
    `continueWalking` is applied to the ISSUER node of the candidate edge against the chain
    WITHOUT the candidate certificate, so: two certificates of a returned chain that are at
    least two positions apart have different (subject, key) pairs.  (Adjacent certificates may
    share the pair: see the `exG2` example below.) -/
theorem paths_no_revisit {V : Ver} {g : Graph} {c : Cert} {ch : List Cert} (wf : WF V g)
    (h : Paths V g c ch) :
    ∀ pre x mid a y post, ch = pre ++ x :: (mid ++ a :: y :: post) → x.sk ≠ y.sk := by
  obtain ⟨es, hch, _, _, hstep⟩ := paths_edges h
  intro pre x mid a y post hdec
  -- transport the decomposition of `ch` to the edge list
  rw [hch] at hdec
  obtain ⟨epre, e1, rfl, rfl, h1⟩ := List.map_eq_append_iff.mp hdec
  obtain ⟨ex, e2, rfl, rfl, h2⟩ := List.map_eq_cons_iff.mp h1
  obtain ⟨emid, e3, rfl, rfl, h3⟩ := List.map_eq_append_iff.mp h2
  obtain ⟨ea, e4, rfl, rfl, h4⟩ := List.map_eq_cons_iff.mp h3
  obtain ⟨ey, epost, rfl, rfl, _⟩ := List.map_eq_cons_iff.mp h4
  have hne : epre ++ ex :: emid ≠ [] := by simp
  have hP := List.dropLast_concat_getLast hne
  generalize (epre ++ ex :: emid).dropLast = P at hP
  generalize (epre ++ ex :: emid).getLast hne = a0 at hP
  have e1 : epre ++ ex :: (emid ++ ea :: ey :: epost) = P ++ a0 :: ea :: (ey :: epost) := by
    have : epre ++ ex :: (emid ++ ea :: ey :: epost) = (epre ++ ex :: emid) ++ ea :: ey :: epost := by
      simp
    rw [this, ← hP]; simp
  have e2 : epre ++ ex :: (emid ++ ea :: ey :: epost) = (P ++ [a0]) ++ ea :: ey :: epost := by
    rw [e1]; simp
  obtain ⟨_, _, _, ⟨k', hk', hsk⟩, _⟩ := hstep P a0 ea (ey :: epost) e1
  obtain ⟨_, hy, ⟨k, hk, hyc⟩, _, _⟩ := hstep (P ++ [a0]) ea ey epost e2
  rw [hk'] at hk
  have hkk : k' = k := Option.some.inj hk
  have hxmem : ex.cert ∈ (P ++ [a0]).map (·.cert) := by
    rw [hP]; simp
  have := skInChain_false hsk hxmem
  rw [hkk, ← hyc, (wf.child ey hy).1] at this
  exact this

/-! ### 6. no duplicates -/

theorem walk_nodup {V : Ver} {g : Graph} {c : Cert} (wf : WF V g) (adj : AdjNodup g) :
    (walkChains V g c).Nodup := by
  unfold walkChains
  exact walk_nodup_aux wf adj _ _ _

/-! ### for every graph built by `AddCert` / `AddRoot` (no hypothesis on the graph left) -/

/-- on every graph reachable from the empty graph, `WalkChains` returns exactly the permitted paths,
    without duplicates and with at most 9 certificates each -/
theorem walk_reachable (V : Ver) (ops : List Op) {g : Graph} (hr : run V Graph.empty ops = .ok g) (c : Cert) :
    (∀ ch, ch ∈ walkChains V g c ↔ Paths V g c ch) ∧ (walkChains V g c).Nodup ∧
      ∀ ch ∈ walkChains V g c, ch.length ≤ maxIntermediateCount := by
  obtain ⟨g', hr', hinv⟩ := run_inv (V := V) ops (inv_empty V)
  rw [hr] at hr'; cases hr'
  exact ⟨fun ch => walk_iff_paths hinv.wf, walk_nodup hinv.wf hinv.adjNodup, fun ch h => walk_len_le_max h⟩

/-! ### 7. asynchronous delivery (`WalkChainsAsync` sends on a buffered channel, then closes it)

  Re-export of `ZV.C11.Async.async_delivers` (model and proof in `ZV.Proofs.C11Async`): for every
  channel capacity `cap ≥ 1`, every produced sequence and EVERY interleaving of producer and
  consumer steps, nothing is lost, duplicated or reordered; when no side can move the consumer
  has everything and the channel is closed; otherwise some side can move, and each move
  strictly decreases a measure (so at most `2 * items.length + 1` moves happen). -/

theorem async_delivers {α : Type} {cap : Nat} (hcap : 1 ≤ cap) (items : List α)
    (sched : List Async.Step) :
    let s := Async.run cap (Async.init items) sched
    s.received ++ s.buffer ++ s.remaining = items ∧
    (∃ t, items = s.received ++ t) ∧
    s.buffer.length ≤ cap ∧ (s.closed = true → s.remaining = []) ∧
    (Async.terminal cap s → s.received = items ∧ s.closed = true) ∧
    (¬ Async.terminal cap s → ∃ t, Async.enabled cap s t = true) ∧
    (∀ t, Async.enabled cap s t = true → Async.measure (Async.step cap s t) < Async.measure s) :=
  Async.async_delivers hcap items sched

theorem async_terminates {α : Type} {cap : Nat} (hcap : 1 ≤ cap) (items : List α)
    (sched : List Async.Step) (hen : Async.AllEnabled cap (Async.init items) sched) :
    sched.length ≤ 2 * items.length + 1 ∧
    (Async.terminal cap (Async.run cap (Async.init items) sched) →
      (Async.run cap (Async.init items) sched).received = items ∧
      (Async.run cap (Async.init items) sched).closed = true) :=
  Async.async_terminates hcap items sched hen

example : Async.AllEnabled 2 (Async.init [10, 20]) [.send, .send, .recv, .close, .recv] := by
  simp only [Async.AllEnabled]; decide
example : Async.terminal 1 (Async.run 1 (Async.init [10, 20]) [.send, .recv, .send, .recv, .close]) := by
  intro t; cases t <;> decide

/-! ### 8. histories on ONE graph: walks never change the graph

    `history` interleaves insertions and walks.  A walk event returns `walkChains` of the current graph and
    hands the SAME graph to the rest of the history (`history_walk_cons`); so the graph after a history is
    the graph built by its insertions alone (`history_final_graph`), repeating a walk returns the same
    chains (`history_walk_twice`), and every walk of a history that starts at the empty graph returns
    exactly the permitted paths of the graph built so far (`history_reachable`).  The Go harness checks
    the implementation against this with the canonical dump of the real graph after every event. -/

theorem history_walk_cons (V : Ver) (g : Graph) (c : Cert) (es : List Ev) :
    history V g (.walk c :: es) =
      match history V g es with
      | .ok rest => .ok ((g, some (walkChains V g c)) :: rest)
      | _ => .panic := by
  simp only [history, evStep]
  cases history V g es <;> rfl

theorem history_walk_twice (V : Ver) (g : Graph) (c : Cert) :
    history V g [.walk c, .walk c] =
      .ok [(g, some (walkChains V g c)), (g, some (walkChains V g c))] := by
  simp only [history, evStep]

/-- the insertions of a history -/
def insOps : List Ev → List Op
  | [] => []
  | .ins op :: es => op :: insOps es
  | .walk _ :: es => insOps es

/-- the graph of the last observation (`g` itself for the empty history) -/
def lastGraph : Graph → List (Graph × Option (List (List Cert))) → Graph
  | g, [] => g
  | _, x :: xs => lastGraph x.1 xs

/-- erasing the walks of a history does not change the graph it ends in -/
theorem history_final_graph (V : Ver) : ∀ (evs : List Ev) (g : Graph) (obs : List (Graph × Option (List (List Cert)))),
    history V g evs = .ok obs → run V g (insOps evs) = .ok (lastGraph g obs) := by
  intro evs
  induction evs with
  | nil =>
    intro g obs h
    simp only [history, Res.ok.injEq] at h
    subst h; rfl
  | cons e es ih =>
    intro g obs h
    cases e with
    | walk c =>
      rw [history_walk_cons] at h
      cases hr : history V g es with
      | ok rest =>
        simp only [hr, Res.ok.injEq] at h
        subst h
        simpa only [insOps, lastGraph] using ih g rest hr
      | err => simp [hr] at h
      | panic => simp [hr] at h
    | ins op =>
      simp only [history, evStep] at h
      cases hs : step V g op with
      | ok g1 =>
        simp only [hs] at h
        cases hr : history V g1 es with
        | ok rest =>
          simp only [hr, Res.ok.injEq] at h
          subst h
          simp only [insOps, run, hs, lastGraph]
          exact ih g1 rest hr
        | err => simp [hr] at h
        | panic => simp [hr] at h
      | err => simp [hs] at h
      | panic => simp [hs] at h

/-- every observation of a history keeps the graph invariant, a walk observation carries the graph it
    was started on unchanged and exactly the permitted paths of that graph -/
theorem history_inv (V : Ver) : ∀ (evs : List Ev) (g : Graph) (obs : List (Graph × Option (List (List Cert)))),
    C10.Inv V g → history V g evs = .ok obs →
    ∀ x ∈ obs, C10.Inv V x.1 ∧ ∀ chs, x.2 = some chs →
      ∃ c, chs = walkChains V x.1 c ∧ (∀ ch, ch ∈ chs ↔ Paths V x.1 c ch) ∧ chs.Nodup := by
  intro evs
  induction evs with
  | nil =>
    intro g obs _ h
    simp only [history, Res.ok.injEq] at h
    subst h
    intro x hx; cases hx
  | cons e es ih =>
    intro g obs hinv h
    cases e with
    | walk c =>
      rw [history_walk_cons] at h
      cases hr : history V g es with
      | ok rest =>
        simp only [hr, Res.ok.injEq] at h
        subst h
        intro x hx
        rcases List.mem_cons.mp hx with rfl | hx
        · refine ⟨hinv, fun chs hc => ?_⟩
          simp only [Option.some.injEq] at hc
          subst hc
          exact ⟨c, rfl, fun ch => walk_iff_paths hinv.wf, walk_nodup hinv.wf hinv.adjNodup⟩
        · exact ih g rest hinv hr x hx
      | err => simp [hr] at h
      | panic => simp [hr] at h
    | ins op =>
      simp only [history, evStep] at h
      cases hs : step V g op with
      | ok g1 =>
        simp only [hs] at h
        have hinv1 : C10.Inv V g1 := by
          obtain ⟨g', hr', hi⟩ := run_inv (V := V) [op] hinv
          simp only [run, hs, Res.ok.injEq] at hr'
          subst hr'; exact hi
        cases hr : history V g1 es with
        | ok rest =>
          simp only [hr, Res.ok.injEq] at h
          subst h
          intro x hx
          rcases List.mem_cons.mp hx with rfl | hx
          · exact ⟨hinv1, fun chs hc => by cases hc⟩
          · exact ih g1 rest hinv1 hr x hx
        | err => simp [hr] at h
        | panic => simp [hr] at h
      | err => simp [hs] at h
      | panic => simp [hs] at h

/-- histories that start at the empty graph -/
theorem history_reachable (V : Ver) (evs : List Ev) (obs : List (Graph × Option (List (List Cert))))
    (h : history V Graph.empty evs = .ok obs) :
    ∀ x ∈ obs, ∀ chs, x.2 = some chs →
      ∃ c, chs = walkChains V x.1 c ∧ (∀ ch, ch ∈ chs ↔ Paths V x.1 c ch) ∧ chs.Nodup :=
  fun x hx => (history_inv V evs Graph.empty obs (inv_empty V) h x hx).2


/-! ### 9. T1: the constants of `verifier/walk.go` (generated from the source on every run)

    `ZV.C11.Gen.*` is rewritten by `go/extract/c11` from the working tree; editing the constant, the channel
    default or a guard of `continueWalking` / `canAddToChain` / `WalkChainsAsync` in zcrypto breaks a theorem here. -/

theorem maxIntermediateCount_source : maxIntermediateCount = Gen.maxIntermediateCount := by decide
theorem chanCap_source : chanCap 0 = Gen.defaultChannelSize ∧ Gen.channelSizeGuard = "opt.ChannelSize<=0" := by decide
theorem walk_guards_source :
    Gen.walkGuards = ["lastEdge.root", "current==nil", "len(soFar)>=maxIntermediateCount", "targetNode!=nil",
      "soFar.SubjectAndKeyInChain(targetNode.SubjectAndKey)", "edge.root",
      "canAddToChain(edge.Certificate,certType,soFar)!=nil"] := by decide
theorem canAdd_guards_source :
    Gen.canAddGuards = ["certType==x509.CertificateTypeIntermediate&&(!c.BasicConstraintsValid||!c.IsCA)",
      "c.BasicConstraintsValid&&c.MaxPathLen>=0", "numIntermediates>c.MaxPathLen"] := by decide
theorem async_guards_source :
    Gen.asyncGuards = ["opt.ChannelSize<=0", "start==nil",
      "x509.CheckSignatureFromKey(identity.PublicKey,c.SignatureAlgorithm,c.RawTBSCertificate,c.Signature);err!=nil"] := by
  decide

/-- the length bound, over the generated constant -/
theorem walk_len_le_source {V : Ver} {g : Graph} {c : Cert} {ch : List Cert}
    (h : ch ∈ walkChains V g c) : ch.length ≤ Gen.maxIntermediateCount := by
  rw [← maxIntermediateCount_source]; exact walk_len_le_max h

/-! ### 10. `WalkChainsAsync` end to end: every channel size (also ≤ 0), every schedule

    `walkChainsAsync V g c n before` = (capacity of the channel, flag on `c`, chains sent).  The capacity is
    always ≥ 1 (the default replaces every `n ≤ 0`), so the delivery theorem applies for EVERY `n : Int`:
    under every interleaving the consumer holds a prefix of `walkChains V g c`, and when nothing can move it
    holds all of it and the channel is closed.  If the consumer abandons the channel the goroutine leaks
    (`async_abandoned`), unless everything fits into the buffer (`async_fits`). -/

theorem walkChainsAsync_delivers (V : Ver) (g : Graph) (c : Cert) (n : Int) (before : Bool)
    (sched : List Async.Step) :
    let o := walkChainsAsync V g c n before
    let s := Async.run o.cap (Async.init o.chains) sched
    1 ≤ o.cap ∧ (n ≤ 0 → o.cap = Gen.defaultChannelSize) ∧ (0 < n → (o.cap : Int) = n) ∧
    o.chains = walkChains V g c ∧
    (∃ t, walkChains V g c = s.received ++ t) ∧
    (Async.terminal o.cap s → s.received = walkChains V g c ∧ s.closed = true) ∧
    (¬ Async.terminal o.cap s → ∃ t, Async.enabled o.cap s t = true) := by
  intro o s
  obtain ⟨_, hpre, _, _, hterm, hlive, _⟩ := Async.async_delivers (chanCap_pos n) (walkChains V g c) sched
  exact ⟨chanCap_pos n, chanCap_default, chanCap_given, rfl, hpre, hterm, hlive⟩

/-- on every graph built by insertions: what is received at the end is exactly the permitted paths -/
theorem walkChainsAsync_reachable (V : Ver) (ops : List Op) {g : Graph} (hr : run V Graph.empty ops = .ok g)
    (c : Cert) (n : Int) (before : Bool) (sched : List Async.Step)
    (hterm : Async.terminal (chanCap n) (Async.run (chanCap n) (Async.init (walkChains V g c)) sched)) :
    (∀ ch, ch ∈ (Async.run (chanCap n) (Async.init (walkChains V g c)) sched).received ↔ Paths V g c ch) ∧
    (Async.run (chanCap n) (Async.init (walkChains V g c)) sched).received.Nodup ∧
    (Async.run (chanCap n) (Async.init (walkChains V g c)) sched).closed = true := by
  obtain ⟨_, _, _, _, _, ht, _⟩ := walkChainsAsync_delivers V g c n before sched
  obtain ⟨hrec, hcl⟩ := ht hterm
  obtain ⟨hiff, hnd, _⟩ := walk_reachable V ops hr c
  have hrec' : (Async.run (chanCap n) (Async.init (walkChains V g c)) sched).received = walkChains V g c := hrec
  rw [hrec']
  exact ⟨hiff, hnd, hcl⟩

theorem async_abandoned {α : Type} {cap : Nat} (hcap : 1 ≤ cap) (items : List α) (sched : List Async.Step)
    (h : sched.count .recv + cap < items.length) :
    (Async.run cap (Async.init items) sched).closed = false ∧
    (Async.run cap (Async.init items) sched).remaining ≠ [] :=
  Async.abandoned_not_closed hcap items sched h

theorem async_fits {α : Type} {cap : Nat} (items : List α) (h : items.length ≤ cap) :
    (Async.run cap (Async.init items) (List.replicate items.length Async.Step.send ++ [Async.Step.close])).closed = true ∧
    (Async.run cap (Async.init items) (List.replicate items.length Async.Step.send ++ [Async.Step.close])).buffer = items :=
  Async.fits_closes_without_consumer items h

example : ([Async.Step.send, .recv, .send] : List Async.Step).count .recv + 1 < [10, 20, 30].length := by decide
example : [10, 20].length ≤ 4 := by decide
example : Async.terminal (chanCap (-1)) (Async.run (chanCap (-1)) (Async.init (walkChains exV exG exL))
    [.send, .close, .recv]) := by
  intro t; cases t <;> decide

/-! ### 11. `canAddToChain`, start-edge synthesis, the `ValidSignature` flag -/

theorem canAdd_iff (c : Cert) (isRoot : Bool) (chain : List Cert) :
    canAddToChain c isRoot chain = true ↔
      (isRoot = false → c.bcValid = true ∧ c.isCA = true) ∧
      (c.bcValid = true → 0 ≤ c.maxPathLen → (chain.length : Int) - 1 ≤ c.maxPathLen) :=
  canAddToChain_iff c isRoot chain

theorem canAdd_eq_reason (c : Cert) (isRoot : Bool) (chain : List Cert) :
    canAddToChain c isRoot chain = (canAddReason c isRoot chain.length == 0) :=
  canAddToChain_eq_reason c isRoot chain

/-- the start edge: the stored edge if there is one; otherwise a fresh non-root edge whose issuer is the FIRST
    node with the issuer name that verifies the certificate (all earlier nodes fail), or none -/
theorem startEdge_spec (V : Ver) (g : Graph) (c : Cert) :
    (∀ e, findEdge g.edges c.fp = some e → startEdge V g c = e) ∧
    (findEdge g.edges c.fp = none →
      (startEdge V g c).cert = c ∧ (startEdge V g c).root = false ∧ (startEdge V g c).child = c.sk ∧
      (∀ k, (startEdge V g c).issuer = some k →
        k.1 = c.iss ∧ V k c.fp = true ∧ ∃ n pre post, n.key = k ∧ g.nodes = pre ++ n :: post ∧
          ∀ m ∈ pre, ¬ (m.key.1 = c.iss ∧ V m.key c.fp = true)) ∧
      ((startEdge V g c).issuer = none →
        (∀ m ∈ g.nodes, ¬ (m.key.1 = c.iss ∧ V m.key c.fp = true)) ∧ walkChains V g c = [])) := by
  refine ⟨fun e h => startEdge_in_graph h, fun he => ?_⟩
  rw [startEdge_synth he]
  refine ⟨rfl, rfl, rfl, ?_, ?_⟩
  · intro k hk
    cases hs : searchIssuer V g.nodes c.iss c.fp with
    | none => simp [hs] at hk
    | some n =>
      simp only [hs, Option.map_some, Option.some.injEq] at hk
      obtain ⟨h1, h2, pre, post, hd, hall⟩ := searchIssuer_spec hs
      subst hk
      exact ⟨h1, h2, n, pre, post, rfl, hd, hall⟩
  · intro hk
    cases hs : searchIssuer V g.nodes c.iss c.fp with
    | some n => simp [hs] at hk
    | none => exact ⟨searchIssuer_none hs, walkChains_no_issuer he hs⟩

/-- the synthesized start edge is a local value: the walk is a function of the graph that returns no graph
    (`history_walk_cons`), and `AddCert` of the same certificate would store exactly that edge when the
    (subject, key) node of the certificate already exists.
    -- FULL: for EVERY certificate not in the graph (also when its node is new and the fix-up loop runs),
    -- `walkChains V g1 c = walkChains V g c` where `addCert V g c = .ok g1`.  Not proved: it needs the walk to be
    -- insensitive to the fix-up of dangling edges under the new node (they are all blocked by the (subject,key)
    -- test because `c` heads the chain).  Compared on the real code as a T3 check at every `a<i>` token of a
    -- history whose certificate is not in the graph (tag `synth-vs-insert`). -/
theorem startEdge_is_addCert_edge_partial {V : Ver} {g g1 : Graph} {c : Cert}
    (hne : hasEdge g.edges c.fp = false) (hnode : hasNode g.nodes c.sk = true)
    (h : addCert V g c = .ok g1) :
    findEdge g1.edges c.fp = some (startEdge V g c) ∧ g1.edges = g.edges ++ [startEdge V g c] :=
  addCert_stores_startEdge_partial hne hnode h

theorem validSig_iff (V : Ver) (g : Graph) (c : Cert) (before : Bool) :
    (walkChainsAsync V g c 0 before).validSig = true ↔
      before = true ∨ (findEdge g.edges c.fp).isSome = true ∨
        ∃ n ∈ g.nodes, n.key.1 = c.iss ∧ V n.key c.fp = true :=
  validSigAfter_iff V g c before

/-- hypotheses of `startEdge_is_addCert_edge_partial`: the cross certificate `exA2` for the key (5,5) whose node
    exists after `exA1` -/
def exG3 : Graph := { nodes := [{ key := (5, 5), children := [], parents := [] }], edges := [], missing := [] }
example : hasEdge exG3.edges exA2.fp = false ∧ hasNode exG3.nodes exA2.sk = true ∧
    (match addCert exV2 exG3 exA2 with | .ok _ => true | _ => false) = true := by decide
example : findEdge exG.edges exL.fp = none ∧ (startEdge exV exG exL).issuer = some (2, 2) := by decide
example : (walkChainsAsync exV exG exL 0 false).validSig = true ∧ (walkChainsAsync exV exG exL 7 false).cap = 7 := by decide

/-! ### the hypotheses are satisfiable, the path set is inhabited

  `exG` (defined in `ZV.Proofs.C11`) is the graph built by `AddRoot(exR); AddCert(exI)`:
  a self-signed root and one intermediate; `exL` is a leaf issued by the intermediate that is
  not in the graph (so its walk starts from a synthesized edge).
  `ZV.Proofs.C10` proves `WF` for EVERY graph reachable by `AddCert` / `AddRoot`; the explicit
  proof `exG_wf` below is only the witness that the hypothesis is not vacuous. -/

example : run exV Graph.empty [.root exR, .add exI] = .ok exG := exG_reachable
example : ∃ V g, WF V g ∧ AdjNodup g ∧ g.edges ≠ [] := ⟨exV, exG, exG_wf, exG_adj, by decide⟩

/-- what the walk computes on the example -/
example : walkChains exV exG exI = [[exI, exR]] := by decide
example : walkChains exV exG exL = [[exL, exI, exR]] := by decide
example : walkChains exV exG exR = [[exR]] := by decide

/-- `Paths` is inhabited by non-trivial chains: in-graph start … -/
example : Paths exV exG exI [exI, exR] := by
  refine ⟨[exER], ?_, by decide⟩
  have hs : startEdge exV exG exI = exEI := by decide
  rw [hs, ValidExt, ValidExt]
  exact ⟨by decide, by decide, by decide, ⟨(1, 1), by decide, by decide⟩,
    ⟨(1, 1), by decide, by decide⟩, by decide, by decide⟩

/-- … and a start certificate that is not in the graph (two steps) -/
example : Paths exV exG exL [exL, exI, exR] := by
  refine ⟨[exEI, exER], ?_, by decide⟩
  have hs : startEdge exV exG exL =
      { cert := exL, issuer := some (2, 2), child := (3, 3), root := false } := by decide
  rw [hs, ValidExt, ValidExt, ValidExt]
  exact ⟨by decide, by decide, by decide, ⟨(2, 2), by decide, by decide⟩,
    ⟨(1, 1), by decide, by decide⟩, by decide,
    by decide, by decide, by decide, ⟨(1, 1), by decide, by decide⟩,
    ⟨(1, 1), by decide, by decide⟩, by decide, by decide⟩

/-- hypotheses of `walk_sound` / `walk_len_le_max` / `walk_head` -/
example : [exL, exI, exR] ∈ walkChains exV exG exL := by decide
/-- hypotheses of `walk_order_independent`: same edges, node list in another order -/
example : WF exV exG ∧ WF exV exG' ∧ exG.edges = exG'.edges ∧ exG.nodes ≠ exG'.nodes ∧
    startEdge exV exG exL = startEdge exV exG' exL :=
  ⟨exG_wf, exG'_wf, rfl, by decide, by decide⟩
/-- hypothesis of `canAdd_nonroot_isCA` -/
example : canAddToChain exI false [exL] = true := by decide
/-- the length lemmas' hypotheses -/
example : ValidExt exG [exI] exEI [exER] := by
  rw [ValidExt, ValidExt]
  exact ⟨by decide, by decide, by decide, ⟨(1, 1), by decide, by decide⟩,
    ⟨(1, 1), by decide, by decide⟩, by decide, by decide⟩

/-- The limit of the loop test (see `paths_no_revisit`): in `exG2` the key (5,5) has a self-issued
    non-root certificate `exA1` and a cross-certificate `exA2` from the root.  The walk from the
    leaf `exM` returns, besides `[exM, exA2, exR]`, the chain `[exM, exA1, exA2, exR]` in which
    two ADJACENT certificates have the same (subject, key). -/
example : walkChains exV2 exG2 exM = [[exM, exA1, exA2, exR], [exM, exA2, exR]] := by decide
example : run exV2 Graph.empty [.root exR, .add exA1, .add exA2] = .ok exG2 := exG2_reachable
example : exA1.sk = exA2.sk := by decide

/-- a history: insert, walk an out-of-graph leaf twice, walk an in-graph certificate; the graph stays `exG` -/
example : (history exV Graph.empty [.ins (.root exR), .ins (.add exI), .walk exL, .walk exL, .walk exI]).map
      (fun obs => obs.map (fun x => (x.1 == exG, x.2))) =
    .ok [(false, none), (true, none), (true, some [[exL, exI, exR]]), (true, some [[exL, exI, exR]]),
         (true, some [[exI, exR]])] := by decide

/-- the decomposition hypothesis of `paths_no_revisit` on a returned chain -/
example : [exL, exI, exR] = [] ++ exL :: ([] ++ exI :: exR :: []) ∧ exL.sk ≠ exR.sk := by decide

end ZV.C11
