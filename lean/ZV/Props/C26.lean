import ZV.Proofs.C26
import ZV.Proofs.C26Vectors
import ZV.Generated.C26
/-!
# C26 — TLS key derivation matches the RFC definitions

`ZV.Model.C26` has two halves: the Go code function by function (`pHash` with its buffer-filling loop,
`prf10`, `prf12`, `keysFromMasterSecret`, `ekmFromMasterSecret`, `expandLabel` with the cryptobyte
builder, …) and, independently, the RFC texts (`RFC.P_hash`, `RFC.PRF10`, `RFC.HkdfLabel`,
`RFC.HKDF_Expand_Label`, `RFC.TLS_Exporter`, …).  The theorems below say the first half computes the
second, FOR EVERY HASH FUNCTION: the primitives are arbitrary functions, the only hypothesis is that an
HMAC has a fixed positive output length.
-/
namespace ZV.C26
open RFC

/-- a keyed MAC with fixed output length `L > 0` -/
def FixedLen (hmac : Hmac) (L : Nat) : Prop := 0 < L ∧ ∀ k m, (hmac k m).length = L

/-- a toy MAC with 2-byte output, to show the hypotheses are satisfiable and the statements non-trivial -/
def toyHmac : Hmac := fun k m => [UInt8.ofNat (k.length + m.length), (k ++ m).foldl (· + ·) 7]

example : FixedLen toyHmac 2 := ⟨by decide, fun _ _ => rfl⟩
example : pHash toyHmac 5 [1, 2] [3] = [5, 29, 5, 43, 5] := by decide
example : (P_hash toyHmac [1, 2] [3] 3).take 5 = [5, 29, 5, 43, 5] := by decide
example : (P_hash toyHmac [1, 2] [3] 7).take 5 = [5, 29, 5, 43, 5] := by decide




/-! ## TLS 1.0 – 1.2 -/

/-- The buffer-filling loop of `pHash` returns exactly the first `n` bytes of the RFC's
`P_hash(secret, seed) = HMAC(secret, A(1)+seed) + HMAC(secret, A(2)+seed) + …`, for every output
length `n` (any number `K` of RFC blocks covering `n` bytes). -/
theorem pHash_eq_rfc {hmac : Hmac} {L : Nat} (hm : FixedLen hmac L) (n : Nat) (secret seed : Bytes)
    (K : Nat) (hK : n ≤ K * L) :
    pHash hmac n secret seed = (P_hash hmac secret seed K).take n :=
  pHash_eq_take hm.1 hm.2 n secret seed K hK

/-- `pHash` fills the whole buffer: the output has the requested length. -/
theorem pHash_fills {hmac : Hmac} {L : Nat} (hm : FixedLen hmac L) (n : Nat) (secret seed : Bytes) :
    (pHash hmac n secret seed).length = n :=
  pHash_length hm.1 hm.2 n secret seed

/-- the number of blocks is irrelevant as long as they cover `n` bytes, so "the first `n` bytes of
P_hash" is well defined -/
theorem P_hash_take_indep {hmac : Hmac} {L : Nat} (hm : FixedLen hmac L) (secret seed : Bytes)
    (n k1 k2 : Nat) (h1 : n ≤ k1 * L) (h2 : n ≤ k2 * L) :
    (P_hash hmac secret seed k1).take n = (P_hash hmac secret seed k2).take n :=
  P_hash_take_eq hm.2 secret seed n k1 k2 h1 h2

/-- `splitPreMasterSecret` is the RFC 2246 split: both halves have `ceil(len/2)` bytes, S1 is a prefix,
S2 a suffix (they share the middle byte when the length is odd). -/
theorem split_is_rfc (secret : Bytes) :
    splitPreMasterSecret secret = (S1 secret, S2 secret)
    ∧ (S1 secret).length = (secret.length + 1) / 2 ∧ (S2 secret).length = (secret.length + 1) / 2 := by
  refine ⟨split_eq_rfc secret, ?_, ?_⟩ <;> simp [S1, S2, ceilHalf] <;> omega

/-- TLS 1.0/1.1: `prf10` = `P_MD5(S1, label+seed) XOR P_SHA-1(S2, label+seed)`, first `n` bytes. -/
theorem prf10_eq_rfc (P : Prims) {L1 L2 : Nat} (h1 : FixedLen P.hmacMD5 L1) (h2 : FixedLen P.hmacSHA1 L2)
    (n : Nat) (secret label seed : Bytes) (k1 k2 : Nat) (hk1 : n ≤ k1 * L1) (hk2 : n ≤ k2 * L2) :
    prf10 P n secret label seed = PRF10 P.hmacMD5 P.hmacSHA1 secret label seed k1 k2 n := by
  unfold prf10 PRF10
  rw [split_eq_rfc, xorInto_eq_rfc]
  simp only
  rw [pHash_eq_rfc h1 n _ _ k1 hk1, pHash_eq_rfc h2 n _ _ k2 hk2]

/-- TLS 1.2: `prf12(hash)` = `P_hash(secret, label+seed)`, first `n` bytes. -/
theorem prf12_eq_rfc {hmac : Hmac} {L : Nat} (hm : FixedLen hmac L) (n : Nat) (secret label seed : Bytes)
    (K : Nat) (hK : n ≤ K * L) :
    prf12 hmac n secret label seed = PRF12 hmac secret label seed K n :=
  pHash_eq_rfc hm n secret (label ++ seed) K hK

/-- every PRF output has the requested length -/
theorem prf10_length (P : Prims) {L1 L2 : Nat} (h1 : FixedLen P.hmacMD5 L1) (h2 : FixedLen P.hmacSHA1 L2)
    (n : Nat) (secret label seed : Bytes) : (prf10 P n secret label seed).length = n := by
  unfold prf10 xorInto
  simp [pHash_fills h1, pHash_fills h2]

theorem prf12_length {hmac : Hmac} {L : Nat} (hm : FixedLen hmac L) (n : Nat) (secret label seed : Bytes) :
    (prf12 hmac n secret label seed).length = n := pHash_fills hm n secret _

/-- version dispatch: TLS 1.0/1.1 → the MD5/SHA-1 PRF; TLS 1.2 → P_SHA384 for the `_SHA384` suites and
P_SHA256 otherwise; anything else is a panic (never a silently wrong PRF). -/
theorem prf_dispatch (P : Prims) (version : Nat) (sha384 : Bool) :
    prfAndHashForVersion P version sha384 =
      if version = 0x0301 ∨ version = 0x0302 then .ok (prf10 P, .none)
      else if version = 0x0303 then
        (if sha384 then .ok (prf12 P.hmacSHA384, .sha384) else .ok (prf12 P.hmacSHA256, .sha256))
      else .panic := rfl

/-- RFC 5246 §8.1: `master_secret = PRF(pre_master_secret, "master secret", ClientHello.random +
ServerHello.random)[0..47]` (TLS 1.2, SHA-256 suites; the other versions are analogous by `prf_dispatch`). -/
theorem master_eq_rfc (P : Prims) {L : Nat} (hm : FixedLen P.hmacSHA256 L) (pms cr sr : Bytes) (K : Nat)
    (hK : 48 ≤ K * L) :
    masterFromPreMasterSecret P 0x0303 false pms cr sr
      = .ok (PRF12 P.hmacSHA256 pms (ascii "master secret") (cr ++ sr) K 48) := by
  simp only [masterFromPreMasterSecret, prfForVersion, prfAndHashForVersion, VersionTLS10, VersionTLS11,
    VersionTLS12, Res.map, masterSecretLength, masterSecretLabel]
  simp [prf12_eq_rfc hm 48 pms _ (cr ++ sr) K hK]

theorem master_eq_rfc_tls10 (P : Prims) {L1 L2 : Nat} (h1 : FixedLen P.hmacMD5 L1) (h2 : FixedLen P.hmacSHA1 L2)
    (pms cr sr : Bytes) (k1 k2 : Nat) (hk1 : 48 ≤ k1 * L1) (hk2 : 48 ≤ k2 * L2) :
    masterFromPreMasterSecret P 0x0301 true pms cr sr
      = .ok (PRF10 P.hmacMD5 P.hmacSHA1 pms (ascii "master secret") (cr ++ sr) k1 k2 48) := by
  simp only [masterFromPreMasterSecret, prfForVersion, prfAndHashForVersion, VersionTLS10, VersionTLS11,
    VersionTLS12, Res.map, masterSecretLength, masterSecretLabel]
  simp [prf10_eq_rfc P h1 h2 48 pms _ (cr ++ sr) k1 k2 hk1 hk2]

/-- Key-block splitting: whenever the key block is the concatenation of six strings of lengths
`macLen, macLen, keyLen, keyLen, ivLen, ivLen`, the six slices taken by `keysFromMasterSecret` are exactly
these consecutive segments, in the RFC 5246 §6.3 order (client MAC, server MAC, client key, server key,
client IV, server IV). -/
theorem keyblock_split (p1 p2 p3 p4 p5 p6 : Bytes) (macLen keyLen ivLen : Nat)
    (h1 : p1.length = macLen) (h2 : p2.length = macLen) (h3 : p3.length = keyLen)
    (h4 : p4.length = keyLen) (h5 : p5.length = ivLen) (h6 : p6.length = ivLen) :
    sliceKeys (p1 ++ (p2 ++ (p3 ++ (p4 ++ (p5 ++ p6))))) macLen keyLen ivLen = ⟨p1, p2, p3, p4, p5, p6⟩ :=
  sliceKeys_segments p1 p2 p3 p4 p5 p6 macLen keyLen ivLen h1 h2 h3 h4 h5 h6

example : sliceKeys [1, 2, 3, 4, 5, 6, 7, 8] 1 2 1 = ⟨[1], [2], [3, 4], [5, 6], [7], [8]⟩ := by decide

/-- … and conversely the slices always partition the key block (nothing lost, nothing reordered) and have
the requested lengths, for a key block of the length the code asks the PRF for. -/
theorem keyblock_partition (km : Bytes) (macLen keyLen ivLen : Nat)
    (hlen : km.length = 2 * macLen + 2 * keyLen + 2 * ivLen) :
    let k := sliceKeys km macLen keyLen ivLen
    k.clientMAC ++ k.serverMAC ++ k.clientKey ++ k.serverKey ++ k.clientIV ++ k.serverIV = km
    ∧ k.clientMAC.length = macLen ∧ k.serverMAC.length = macLen
    ∧ k.clientKey.length = keyLen ∧ k.serverKey.length = keyLen
    ∧ k.clientIV.length = ivLen ∧ k.serverIV.length = ivLen := by
  simp only [sliceKeys]
  refine ⟨?_, ?_, ?_, ?_, ?_, ?_, ?_⟩
  · rw [List.take_of_length_le (l := List.drop ivLen _) (by simp; omega)]
    simp only [List.append_assoc, List.take_append_drop]
  all_goals (simp; omega)

/-- RFC 5246 §6.3: `key_block = PRF(master_secret, "key expansion", server_random + client_random)` of
length `2·mac + 2·key + 2·iv`, then sliced (TLS 1.2, SHA-256 suites). -/
theorem keys_eq_rfc (P : Prims) {L : Nat} (hm : FixedLen P.hmacSHA256 L) (ms cr sr : Bytes)
    (macLen keyLen ivLen K : Nat) (hK : 2 * macLen + 2 * keyLen + 2 * ivLen ≤ K * L) :
    keysFromMasterSecret P 0x0303 false ms cr sr macLen keyLen ivLen
      = .ok (sliceKeys (PRF12 P.hmacSHA256 ms (ascii "key expansion") (sr ++ cr) K
              (2 * macLen + 2 * keyLen + 2 * ivLen)) macLen keyLen ivLen) := by
  simp only [keysFromMasterSecret, keyBlock, prfForVersion, prfAndHashForVersion, VersionTLS10, VersionTLS11,
    VersionTLS12, Res.map, keyExpansionLabel]
  simp [prf12_eq_rfc hm _ ms _ (sr ++ cr) K hK]

/-- all four MACs the Go code instantiates have fixed positive output lengths -/
def FixedPrims (P : Prims) : Prop :=
  (∃ L, FixedLen P.hmacMD5 L) ∧ (∃ L, FixedLen P.hmacSHA1 L) ∧ (∃ L, FixedLen P.hmacSHA256 L) ∧ (∃ L, FixedLen P.hmacSHA384 L)

example : FixedPrims ⟨toyHmac, toyHmac, toyHmac, toyHmac, id, id, id, id⟩ :=
  ⟨⟨2, by decide, fun _ _ => rfl⟩, ⟨2, by decide, fun _ _ => rfl⟩, ⟨2, by decide, fun _ _ => rfl⟩, ⟨2, by decide, fun _ _ => rfl⟩⟩

/-- For EVERY version and suite flag for which a PRF exists: the PRF selected by `prfForVersion` returns
exactly the requested number of bytes. -/
theorem prfForVersion_length (P : Prims) (hP : FixedPrims P) (version : Nat) (sha384 : Bool)
    (prf : Nat → Bytes → Bytes → Bytes → Bytes) (h : prfForVersion P version sha384 = .ok prf)
    (n : Nat) (secret label seed : Bytes) : (prf n secret label seed).length = n := by
  obtain ⟨⟨L1, h1⟩, ⟨L2, h2⟩, ⟨L3, h3⟩, ⟨L4, h4⟩⟩ := hP
  unfold prfForVersion prfAndHashForVersion at h
  by_cases hv : version = VersionTLS10 ∨ version = VersionTLS11
  · rw [if_pos hv] at h; simp only [Res.map, Res.ok.injEq] at h; subst h
    exact prf10_length P h1 h2 n secret label seed
  · rw [if_neg hv] at h
    by_cases hv2 : version = VersionTLS12
    · rw [if_pos hv2] at h
      cases sha384 with
      | true => simp only [Res.map, if_true, Res.ok.injEq] at h; subst h; exact prf12_length h4 n secret label seed
      | false =>
        simp only [Res.map, Bool.false_eq_true, if_false, Res.ok.injEq] at h; subst h
        exact prf12_length h3 n secret label seed
    · rw [if_neg hv2] at h; simp [Res.map] at h

/-- For EVERY version, suite flag and length triple: whenever `keysFromMasterSecret` returns keys, the six
parts have exactly the requested lengths and their concatenation is the PRF key block
`PRF(master_secret, "key expansion", server_random + client_random)` of length `2·mac + 2·key + 2·iv`. -/
theorem keys_partition_all_versions (P : Prims) (hP : FixedPrims P) (version : Nat) (sha384 : Bool)
    (ms cr sr : Bytes) (macLen keyLen ivLen : Nat) (k : Keys)
    (h : keysFromMasterSecret P version sha384 ms cr sr macLen keyLen ivLen = .ok k) :
    ∃ prf, prfForVersion P version sha384 = .ok prf
      ∧ k.clientMAC ++ k.serverMAC ++ k.clientKey ++ k.serverKey ++ k.clientIV ++ k.serverIV
          = prf (2 * macLen + 2 * keyLen + 2 * ivLen) ms keyExpansionLabel (sr ++ cr)
      ∧ k.clientMAC.length = macLen ∧ k.serverMAC.length = macLen
      ∧ k.clientKey.length = keyLen ∧ k.serverKey.length = keyLen
      ∧ k.clientIV.length = ivLen ∧ k.serverIV.length = ivLen := by
  unfold keysFromMasterSecret keyBlock at h
  cases hp : prfForVersion P version sha384 with
  | ok prf =>
    rw [hp] at h
    simp only [Res.map, Res.ok.injEq] at h
    refine ⟨prf, rfl, ?_⟩
    have hlen := prfForVersion_length P hP version sha384 prf hp
      (2 * macLen + 2 * keyLen + 2 * ivLen) ms keyExpansionLabel (sr ++ cr)
    have := keyblock_partition _ macLen keyLen ivLen hlen
    rw [h] at this
    exact this
  | err => rw [hp] at h; simp [Res.map] at h
  | panic => rw [hp] at h; simp [Res.map] at h

/-- RFC 5246 §7.4.9 / RFC 2246 §7.4.9: `verify_data = PRF(master_secret, finished_label,
Hash(handshake_messages))[0..11]`, with `MD5(..) + SHA-1(..)` before TLS 1.2. -/
theorem finished_eq_rfc_tls12 (P : Prims) {L : Nat} (hm : FixedLen P.hmacSHA256 L) (ms msgs : Bytes) (K : Nat)
    (hK : 12 ≤ K * L) :
    clientSum P 0x0303 false ms msgs
        = .ok (PRF12 P.hmacSHA256 ms (ascii "client finished") (P.sha256 msgs) K 12)
    ∧ serverSum P 0x0303 false ms msgs
        = .ok (PRF12 P.hmacSHA256 ms (ascii "server finished") (P.sha256 msgs) K 12) := by
  simp only [clientSum, serverSum, finishedVerify, finishedSum, prfForVersion, prfAndHashForVersion,
    VersionTLS10, VersionTLS11, VersionTLS12, Res.map, finishedVerifyLength, clientFinishedLabel,
    serverFinishedLabel]
  simp [prf12_eq_rfc hm 12 ms _ _ K hK]

theorem finished_eq_rfc_tls10 (P : Prims) {L1 L2 : Nat} (h1 : FixedLen P.hmacMD5 L1) (h2 : FixedLen P.hmacSHA1 L2)
    (ms msgs : Bytes) (k1 k2 : Nat) (hk1 : 12 ≤ k1 * L1) (hk2 : 12 ≤ k2 * L2) :
    clientSum P 0x0302 false ms msgs
        = .ok (PRF10 P.hmacMD5 P.hmacSHA1 ms (ascii "client finished") (P.md5 msgs ++ P.sha1 msgs) k1 k2 12)
    ∧ serverSum P 0x0302 false ms msgs
        = .ok (PRF10 P.hmacMD5 P.hmacSHA1 ms (ascii "server finished") (P.md5 msgs ++ P.sha1 msgs) k1 k2 12) := by
  simp only [clientSum, serverSum, finishedVerify, finishedSum, prfForVersion, prfAndHashForVersion,
    VersionTLS10, VersionTLS11, VersionTLS12, Res.map, finishedVerifyLength, clientFinishedLabel,
    serverFinishedLabel]
  simp [prf10_eq_rfc P h1 h2 12 ms _ _ k1 k2 hk1 hk2]

/-- RFC 5705 §4: for a non-reserved label and an encodable context the exporter is
`PRF(master_secret, label, client_random + server_random [+ uint16(len context) + context])[length]`
— the context is length-prefixed exactly when one is given (an empty context is not the same as none). -/
theorem exporter_eq_rfc (P : Prims) {L : Nat} (hm : FixedLen P.hmacSHA256 L) (ms cr sr label : Bytes)
    (context : Option Bytes) (length K : Nat) (hlabel : label ∉ ekmReserved)
    (hctx : ∀ c, context = some c → c.length < 65536) (hK : length ≤ K * L) :
    ekmFromMasterSecret P 0x0303 false ms cr sr label context length
      = .ok (PRF12 P.hmacSHA256 ms label (exporterSeed cr sr context) K length) := by
  unfold ekmFromMasterSecret
  rw [if_neg (by simpa using hlabel)]
  cases context with
  | none =>
    simp only [prfForVersion, prfAndHashForVersion, VersionTLS10, VersionTLS11, VersionTLS12, Res.map, exporterSeed]
    simp [prf12_eq_rfc hm length ms label _ K hK]
  | some c =>
    have hc := hctx c rfl
    simp only [prfForVersion, prfAndHashForVersion, VersionTLS10, VersionTLS11, VersionTLS12, Res.map, exporterSeed]
    rw [if_neg (by omega)]
    simp [prf12_eq_rfc hm length ms label _ K hK, lenPrefix16_eq_rfc, opaque16, List.append_assoc]

example : (ascii "EXPORTER-x" : Bytes) ∉ ekmReserved := by decide

/-- the four labels of the TLS PRF itself are refused, as is a context that does not fit `uint16` -/
theorem exporter_refuses (P : Prims) (v : Nat) (f : Bool) (ms cr sr label : Bytes) (context : Option Bytes) (length : Nat) :
    (label ∈ ekmReserved → ekmFromMasterSecret P v f ms cr sr label context length = .err)
    ∧ (label ∉ ekmReserved → ∀ c, context = some c → 65536 ≤ c.length →
        ekmFromMasterSecret P v f ms cr sr label context length = .err) := by
  constructor
  · intro h; unfold ekmFromMasterSecret; rw [if_pos (by simpa using h)]
  · intro h c hc hlen; subst hc; unfold ekmFromMasterSecret; rw [if_neg (by simpa using h)]
    simp only; rw [if_pos (by omega)]

/-! ## TLS 1.3 -/

/-- the inputs HKDF-Expand-Label can encode: `"tls13 " + label` is an `opaque<7..255>`, the context an
`opaque<0..255>`, the length a `uint16` and at most `255·HashLen` (RFC 5869) -/
def ValidExpand (H : Hash13) (label context : Bytes) (length : Nat) : Prop :=
  label.length + 6 ≤ 255 ∧ context.length ≤ 255 ∧ length ≤ 255 * H.size ∧ length < 65536

example : ValidExpand ⟨fun _ _ => [], fun _ => [], 32⟩ (ascii "key") [] 16 := by
  unfold ValidExpand; decide

/-- HkdfLabel byte layout produced by the cryptobyte builder: two big-endian length bytes, one byte
`6 + |label|`, the ASCII bytes `tls13 `, the label, one byte `|context|`, the context; total length
`2 + 1 + 6 + |label| + 1 + |context|`; it is the RFC 8446 §7.1 `HkdfLabel` structure. -/
theorem hkdfLabel_layout (label context : Bytes) (length : Nat)
    (hl : label.length + 6 ≤ 255) (hc : context.length ≤ 255) (hn : length < 65536) :
    hkdfLabel label context length
      = some ([UInt8.ofNat (length / 256), UInt8.ofNat (length % 256), UInt8.ofNat (6 + label.length)]
              ++ [0x74, 0x6c, 0x73, 0x31, 0x33, 0x20] ++ label ++ [UInt8.ofNat context.length] ++ context)
    ∧ hkdfLabel label context length = some (HkdfLabel length label context)
    ∧ (HkdfLabel length label context).length = 10 + label.length + context.length := by
  have h6 : tls13Prefix = [0x74, 0x6c, 0x73, 0x31, 0x33, 0x20] := by decide
  have hp : (ascii "tls13 " : Bytes) = [0x74, 0x6c, 0x73, 0x31, 0x33, 0x20] := by decide
  have hlen : (ascii "tls13 " ++ label).length = 6 + label.length := by rw [hp]; simp; omega
  have hrfc : hkdfLabel label context length = some (HkdfLabel length label context) := by
    unfold hkdfLabel addUint8LengthPrefixed
    rw [if_neg (by simp [h6]; omega), if_neg (by omega)]
    simp only [addUint16_eq_rfc length hn, HkdfLabel, opaque8, h6, hp]
  refine ⟨?_, hrfc, ?_⟩
  · rw [hrfc]
    simp only [HkdfLabel, opaque8, RFC.uint16, hlen]
    simp only [hp, List.append_assoc, List.cons_append, List.nil_append]
  · simp only [HkdfLabel, opaque8, RFC.uint16, List.length_append, List.length_cons, hlen, List.length_nil]
    omega

/-- a label or context that does not fit its one-byte length prefix poisons the builder (the Go code then panics) -/
theorem hkdfLabel_none_iff (label context : Bytes) (length : Nat) :
    hkdfLabel label context length = none ↔ (255 < label.length + 6 ∨ 255 < context.length) := by
  have h6 : tls13Prefix.length = 6 := by decide
  unfold hkdfLabel addUint8LengthPrefixed
  by_cases h1 : 255 < label.length + 6 <;> by_cases h2 : 255 < context.length <;>
    simp [h6, h1, h2, Nat.add_comm] <;> omega

/-- RFC 8446 §7.1: `expandLabel = HKDF-Expand-Label(Secret, Label, Context, Length)` on every encodable input … -/
theorem expandLabel_eq_rfc (H : Hash13) (secret label context : Bytes) (length : Nat)
    (hv : ValidExpand H label context length) :
    expandLabel H secret label context length = .ok (HKDF_Expand_Label H secret label context length) := by
  obtain ⟨hl, hc, hn, hn16⟩ := hv
  unfold expandLabel HKDF_Expand_Label
  rw [(hkdfLabel_layout label context length hl hc hn16).2.1]
  simp only
  rw [hkdfExpandRead_eq_rfc H secret _ length hn]

/-- … and a panic (never a wrong or truncated secret) exactly on the inputs that cannot be encoded or
exceed the HKDF output limit. -/
theorem expandLabel_panics_iff (H : Hash13) (secret label context : Bytes) (length : Nat) :
    expandLabel H secret label context length = .panic
      ↔ (255 < label.length + 6 ∨ 255 < context.length ∨ 255 * H.size < length) := by
  unfold expandLabel
  cases hlab : hkdfLabel label context length with
  | none =>
    have := (hkdfLabel_none_iff label context length).mp hlab
    simp only; constructor
    · intro _; rcases this with h | h
      · exact Or.inl h
      · exact Or.inr (Or.inl h)
    · intro _; trivial
  | some info =>
    have hne : ¬ (255 < label.length + 6 ∨ 255 < context.length) := by
      intro h; have := (hkdfLabel_none_iff label context length).mpr h; rw [this] at hlab; cases hlab
    simp only
    by_cases hn : 255 * H.size < length
    · rw [hkdfExpandRead_none H secret info length hn]; simp [hn]
    · rw [hkdfExpandRead_eq_rfc H secret info length (by omega)]
      simp only
      constructor
      · intro h; cases h
      · intro h; rcases h with h | h | h
        · exact absurd (Or.inl h) hne
        · exact absurd (Or.inr h) hne
        · exact absurd h hn

/-- `Derive-Secret(Secret, Label, Messages) = HKDF-Expand-Label(Secret, Label, Transcript-Hash(Messages), Hash.length)`;
a `nil` transcript is the hash of the empty string. -/
theorem deriveSecret_eq_rfc (H : Hash13) (secret label : Bytes) (transcript : Option Bytes)
    (hh : ∀ m, (H.hash m).length = H.size) (hs : H.size ≤ 255) (hl : label.length + 6 ≤ 255) :
    deriveSecret H secret label transcript = .ok (Derive_Secret H secret label (transcript.getD [])) := by
  unfold deriveSecret Derive_Secret
  have hv : ∀ m, ValidExpand H label (H.hash m) H.size := by
    intro m; refine ⟨hl, by rw [hh]; exact hs, ?_, by omega⟩
    calc H.size = 1 * H.size := (Nat.one_mul _).symm
      _ ≤ 255 * H.size := Nat.mul_le_mul_right _ (by decide)
  cases transcript with
  | none => simpa using expandLabel_eq_rfc H secret label (H.hash []) H.size (hv [])
  | some m => simpa using expandLabel_eq_rfc H secret label (H.hash m) H.size (hv m)

/-- RFC 8446 §7.3: `trafficKey` = (`HKDF-Expand-Label(Secret, "key", "", key_length)`,
`HKDF-Expand-Label(Secret, "iv", "", 12)`). -/
theorem trafficKey_eq_rfc (H : Hash13) (keyLen : Nat) (secret : Bytes) (hk : keyLen ≤ 255 * H.size)
    (hk16 : keyLen < 65536) (hs : 12 ≤ 255 * H.size) :
    trafficKey H keyLen secret = .ok (write_key H secret keyLen, write_iv H secret 12) := by
  unfold trafficKey write_key write_iv
  have hkey : (keyLabel : Bytes).length = 3 := by decide
  have hiv : (ivLabel : Bytes).length = 2 := by decide
  rw [expandLabel_eq_rfc H secret keyLabel [] keyLen ⟨by rw [hkey]; decide, by decide, hk, hk16⟩]
  simp only [aeadNonceLength]
  rw [expandLabel_eq_rfc H secret ivLabel [] 12 ⟨by rw [hiv]; decide, by decide, hs, by decide⟩]
  rfl

/-- RFC 8446 §4.4.4: `verify_data = HMAC(HKDF-Expand-Label(BaseKey, "finished", "", Hash.length), Transcript-Hash)`. -/
theorem finished13_eq_rfc (H : Hash13) (baseKey msgs : Bytes) (hs : H.size < 65536) :
    finishedHash13 H baseKey msgs = .ok (verify_data13 H baseKey msgs) := by
  unfold finishedHash13 verify_data13
  have hf : (finishedLabel : Bytes).length = 8 := by decide
  rw [expandLabel_eq_rfc H baseKey finishedLabel [] H.size ⟨by rw [hf]; decide, by decide, ?_, hs⟩]
  · rfl
  · calc H.size = 1 * H.size := (Nat.one_mul _).symm
      _ ≤ 255 * H.size := Nat.mul_le_mul_right _ (by decide)

/-- RFC 8446 §7.5: `exportKeyingMaterial` = `TLS-Exporter(label, context_value, key_length)` with
`exporter_master_secret = Derive-Secret(Master Secret, "exp master", transcript)`. -/
theorem exporter13_eq_rfc (H : Hash13) (masterSecret msgs label context : Bytes) (length : Nat)
    (hh : ∀ m, (H.hash m).length = H.size) (hs : H.size ≤ 255) (hl : label.length + 6 ≤ 255)
    (hn : length ≤ 255 * H.size) (hn16 : length < 65536) :
    exportKeyingMaterial H masterSecret msgs label context length
      = .ok (TLS_Exporter H masterSecret msgs label context length) := by
  unfold exportKeyingMaterial TLS_Exporter
  have he : (exporterLabel : Bytes).length = 10 := by decide
  have hx : (exporterExpandLabel : Bytes).length = 8 := by decide
  rw [deriveSecret_eq_rfc H masterSecret exporterLabel (some msgs) hh hs (by rw [he]; decide)]
  simp only [Option.getD]
  rw [deriveSecret_eq_rfc H _ label none hh hs hl]
  simp only [Option.getD]
  rw [expandLabel_eq_rfc H _ exporterExpandLabel (H.hash context) length
    ⟨by rw [hx]; decide, by rw [hh]; exact hs, hn, hn16⟩]
  rfl


/-! ## every protocol version and every suite (no restriction to TLS 1.2 / SHA-256) -/

/-- `some b ↦ ok b`, `none ↦ panic`: the Go code panics exactly where the RFCs define no PRF -/
def ofOpt {α : Type} : Option α → Res α
  | some a => .ok a
  | none => .panic

/-- For EVERY version and suite flag: `prfForVersion` selects exactly the PRF the RFC of that version defines
(RFC 2246 §5 for 1.0/1.1, RFC 5246 §5 with SHA-256 / SHA-384 for 1.2) and panics exactly for the versions that have none. -/
theorem prfForVersion_spec (P : Prims) (hP : FixedPrims P) (v : Nat) (f : Bool) :
    (∃ prf, prfForVersion P v f = .ok prf ∧ ∀ n s l sd, RFC.PRF P v f s l sd n = some (prf n s l sd))
    ∨ (prfForVersion P v f = .panic ∧ ∀ n s l sd, RFC.PRF P v f s l sd n = none) := by
  obtain ⟨⟨L1, h1⟩, ⟨L2, h2⟩, ⟨L3, h3⟩, ⟨L4, h4⟩⟩ := hP
  unfold prfForVersion prfAndHashForVersion RFC.PRF
  simp only [VersionTLS10, VersionTLS11, VersionTLS12]
  by_cases hv : v = 0x0301 ∨ v = 0x0302
  · left
    refine ⟨prf10 P, by simp [hv, Res.map], ?_⟩
    intro n s l sd
    rw [if_pos hv]
    rw [prf10_eq_rfc P h1 h2 n s l sd n n (Nat.le_mul_of_pos_right n h1.1) (Nat.le_mul_of_pos_right n h2.1)]
  · by_cases hv2 : v = 0x0303
    · left
      cases f with
      | true =>
        refine ⟨prf12 P.hmacSHA384, by simp [hv, hv2, Res.map], ?_⟩
        intro n s l sd
        rw [if_neg hv, if_pos hv2]; simp only [if_true]
        rw [prf12_eq_rfc h4 n s l sd n (Nat.le_mul_of_pos_right n h4.1)]
      | false =>
        refine ⟨prf12 P.hmacSHA256, by simp [hv, hv2, Res.map], ?_⟩
        intro n s l sd
        rw [if_neg hv, if_pos hv2]; simp only [Bool.false_eq_true, if_false]
        rw [prf12_eq_rfc h3 n s l sd n (Nat.le_mul_of_pos_right n h3.1)]
    · right
      exact ⟨by simp [hv, hv2, Res.map], fun _ _ _ _ => by rw [if_neg hv, if_neg hv2]⟩

/-- RFC 2246 / 5246 §8.1 for EVERY version and suite: `master_secret = PRF(pre_master_secret, "master secret",
ClientHello.random + ServerHello.random)[0..47]`. -/
theorem master_eq_rfc_all (P : Prims) (hP : FixedPrims P) (v : Nat) (f : Bool) (pms cr sr : Bytes) :
    masterFromPreMasterSecret P v f pms cr sr
      = ofOpt (RFC.PRF P v f pms (ascii "master secret") (cr ++ sr) 48) := by
  rcases prfForVersion_spec P hP v f with ⟨prf, hp, hr⟩ | ⟨hp, hr⟩
  · simp only [masterFromPreMasterSecret, hp, hr, ofOpt, masterSecretLength, masterSecretLabel]
  · simp only [masterFromPreMasterSecret, hp, hr, ofOpt]

/-- RFC 2246 / 5246 §6.3 for EVERY version, suite flag and length triple: the keys are the slices of
`PRF(master_secret, "key expansion", server_random + client_random)` of length `2·mac + 2·key + 2·iv`. -/
theorem keys_eq_rfc_all (P : Prims) (hP : FixedPrims P) (v : Nat) (f : Bool) (ms cr sr : Bytes) (mac key iv : Nat) :
    keysFromMasterSecret P v f ms cr sr mac key iv
      = (ofOpt (RFC.PRF P v f ms (ascii "key expansion") (sr ++ cr) (2 * mac + 2 * key + 2 * iv))).map
          (fun kb => sliceKeys kb mac key iv) := by
  rcases prfForVersion_spec P hP v f with ⟨prf, hp, hr⟩ | ⟨hp, hr⟩
  · simp only [keysFromMasterSecret, keyBlock, hp, hr, ofOpt, Res.map, keyExpansionLabel]
  · simp only [keysFromMasterSecret, keyBlock, hp, hr, ofOpt, Res.map]

/-- the handshake hash `finishedHash.Sum` for EVERY version: MD5 ‖ SHA-1 before TLS 1.2, the suite's PRF hash in TLS 1.2 -/
theorem finishedSum_eq_rfc (P : Prims) (v : Nat) (f : Bool) (msgs : Bytes)
    (hv : v = 0x0301 ∨ v = 0x0302 ∨ v = 0x0303) :
    finishedSum P v f msgs = .ok (RFC.Handshake_Hash P v f msgs) := by
  rcases hv with h | h | h <;> subst h <;> cases f <;>
    simp [finishedSum, prfAndHashForVersion, VersionTLS10, VersionTLS11, VersionTLS12, RFC.Handshake_Hash]

/-- RFC 2246 / 5246 §7.4.9 for EVERY version and suite: `verify_data = PRF(master_secret, finished_label,
Hash(handshake_messages))[0..11]`, label "client finished" for `clientSum`, "server finished" for `serverSum`. -/
theorem finished_eq_rfc_all (P : Prims) (hP : FixedPrims P) (v : Nat) (f : Bool) (ms msgs : Bytes)
    (hv : v = 0x0301 ∨ v = 0x0302 ∨ v = 0x0303) :
    clientSum P v f ms msgs
        = ofOpt (RFC.PRF P v f ms (ascii "client finished") (RFC.Handshake_Hash P v f msgs) 12)
    ∧ serverSum P v f ms msgs
        = ofOpt (RFC.PRF P v f ms (ascii "server finished") (RFC.Handshake_Hash P v f msgs) 12) := by
  have hsum := finishedSum_eq_rfc P v f msgs hv
  rcases prfForVersion_spec P hP v f with ⟨prf, hp, hr⟩ | ⟨hp, hr⟩
  · simp only [clientSum, serverSum, finishedVerify, hp, hr, hsum, ofOpt, finishedVerifyLength,
      clientFinishedLabel, serverFinishedLabel, and_self]
  · simp only [clientSum, serverSum, finishedVerify, hp, hr, hsum, ofOpt, and_self]

example : (0x0302 : Nat) = 0x0301 ∨ (0x0302 : Nat) = 0x0302 ∨ (0x0302 : Nat) = 0x0303 := by decide

/-- outside TLS 1.0–1.2 there is no Finished computation: the code panics (never a made-up verify_data) -/
theorem finished_panics_other_versions (P : Prims) (v : Nat) (f : Bool) (ms msgs : Bytes)
    (hv : ¬ (v = 0x0301 ∨ v = 0x0302 ∨ v = 0x0303)) :
    clientSum P v f ms msgs = .panic ∧ serverSum P v f ms msgs = .panic := by
  have h1 : ¬ (v = VersionTLS10 ∨ v = VersionTLS11) := fun h => hv (by
    simp only [VersionTLS10, VersionTLS11] at h; rcases h with h | h
    · exact Or.inl h
    · exact Or.inr (Or.inl h))
  have h2 : ¬ v = VersionTLS12 := fun h => hv (Or.inr (Or.inr h))
  simp [clientSum, serverSum, finishedVerify, prfForVersion, prfAndHashForVersion, h1, h2, Res.map]

/-- RFC 5705 §4 for EVERY version and suite -/
theorem exporter_eq_rfc_all (P : Prims) (hP : FixedPrims P) (v : Nat) (f : Bool) (ms cr sr label : Bytes)
    (context : Option Bytes) (length : Nat) (hlabel : label ∉ ekmReserved)
    (hctx : ∀ c, context = some c → c.length < 65536) :
    ekmFromMasterSecret P v f ms cr sr label context length
      = ofOpt (RFC.PRF P v f ms label (exporterSeed cr sr context) length) := by
  unfold ekmFromMasterSecret
  rw [if_neg (by simpa using hlabel)]
  cases context with
  | none =>
    rcases prfForVersion_spec P hP v f with ⟨prf, hp, hr⟩ | ⟨hp, hr⟩ <;>
      simp only [hp, hr, ofOpt, exporterSeed]
  | some c =>
    have hc := hctx c rfl
    simp only
    rw [if_neg (by omega)]
    rcases prfForVersion_spec P hP v f with ⟨prf, hp, hr⟩ | ⟨hp, hr⟩ <;>
      simp only [hp, hr, ofOpt, exporterSeed, lenPrefix16_eq_rfc, opaque16, List.append_assoc]

/-! ### the suite table (T1) -/

/-- (MAC key, cipher key, fixed IV) lengths of the key block per suite, from the RFCs that define the suites:
RC4_128_SHA 20/16/0 (RFC 2246, 4492), 3DES_EDE_CBC_SHA 20/24/8, AES_128/256_CBC_SHA 20/16|32/16 (RFC 3268, 4492),
AES_*_CBC_SHA256 32/·/16 (RFC 5246, 5289), AES_*_GCM 0/16|32/4 (RFC 5288, 5289: salt = 4-byte implicit nonce),
CHACHA20_POLY1305 0/32/12 (RFC 7905). -/
def rfcSuiteLens (id : Nat) : Option (Nat × Nat × Nat) :=
  if [0x0005, 0x0066, 0xC007, 0xC011].contains id then some (20, 16, 0)
  else if [0x000A, 0x0013, 0x0016, 0xC008, 0xC012].contains id then some (20, 24, 8)
  else if [0x002F, 0x0032, 0x0033, 0xC009, 0xC013].contains id then some (20, 16, 16)
  else if [0x0035, 0x0038, 0x0039, 0xC00A, 0xC014].contains id then some (20, 32, 16)
  else if [0x003C, 0x0040, 0x0067, 0xC023, 0xC027].contains id then some (32, 16, 16)
  else if [0x003D, 0x006A, 0x006B].contains id then some (32, 32, 16)
  else if [0x009C, 0x009E, 0x00A2, 0xC02B, 0xC02F].contains id then some (0, 16, 4)
  else if [0x009D, 0x009F, 0x00A3, 0xC02C, 0xC030].contains id then some (0, 32, 4)
  else if [0xCCA8, 0xCCA9, 0xCCAA].contains id then some (0, 32, 12)
  else none

/-- T1: EVERY row of `implementedCipherSuites` carries the RFC's key-block lengths and the RFC's PRF hash flag,
and the flag column agrees with the older `suites` dump -/
theorem suite_lengths_eq_rfc :
    (∀ row ∈ ZV.Generated.C26.suiteRows,
      rfcSuiteLens row.1 = some (row.2.1, row.2.2.1, row.2.2.2.1) ∧ row.2.2.2.2 = rfcSHA384Suites.contains row.1)
    ∧ ZV.Generated.C26.suiteRows.map (fun r => (r.1, r.2.2.2.2)) = ZV.Generated.C26.suites := by decide

/-- T1: the handshake passes the suite's own three lengths, in the order (macLen, keyLen, ivLen), and the hello randoms
in the order (client, server) on both sides -/
theorem key_calls_eq : ZV.Generated.C26.keyCalls = [
    ("handshake_client.go", "doFullHandshake", "master:c.vers,hs.suite,hs.preMasterSecret,hs.hello.random,hs.serverHello.random"),
    ("handshake_client.go", "establishKeys", "c.vers,hs.suite,hs.masterSecret,hs.hello.random,hs.serverHello.random,hs.suite.macLen,hs.suite.keyLen,hs.suite.ivLen"),
    ("handshake_server.go", "doFullHandshake", "master:c.vers,hs.suite,hs.preMasterSecret,hs.clientHello.random,hs.hello.random"),
    ("handshake_server.go", "establishKeys", "c.vers,hs.suite,hs.masterSecret,hs.clientHello.random,hs.hello.random,hs.suite.macLen,hs.suite.keyLen,hs.suite.ivLen")] := by
  decide

/-- For EVERY suite of the generated table, every version and all secrets: whenever `establishKeys` produces keys, the
six parts have the RFC lengths of that suite, and their concatenation (client MAC, server MAC, client key, server key,
client IV, server IV) is exactly the RFC key block `PRF(master_secret, "key expansion", server_random + client_random)`
of length `2·mac + 2·key + 2·iv` — nothing lost, nothing reordered, nothing beyond the block. -/
theorem keys_partition_every_suite (P : Prims) (hP : FixedPrims P) (version : Nat)
    (row : Nat × Nat × Nat × Nat × Bool) (hrow : row ∈ ZV.Generated.C26.suiteRows)
    (ms cr sr : Bytes) (k : Keys) (h : establishKeys P version row ms cr sr = .ok k) :
    rfcSuiteLens row.1 = some (k.clientMAC.length, k.clientKey.length, k.clientIV.length)
    ∧ k.serverMAC.length = k.clientMAC.length ∧ k.serverKey.length = k.clientKey.length
    ∧ k.serverIV.length = k.clientIV.length
    ∧ RFC.PRF P version row.2.2.2.2 ms (ascii "key expansion") (sr ++ cr)
        (2 * row.2.1 + 2 * row.2.2.1 + 2 * row.2.2.2.1)
      = some (k.clientMAC ++ k.serverMAC ++ k.clientKey ++ k.serverKey ++ k.clientIV ++ k.serverIV) := by
  unfold establishKeys at h
  obtain ⟨prf, hp, hcat, l1, l2, l3, l4, l5, l6⟩ :=
    keys_partition_all_versions P hP version row.2.2.2.2 ms cr sr row.2.1 row.2.2.1 row.2.2.2.1 k h
  have hrfc := (suite_lengths_eq_rfc.1 row hrow).1
  refine ⟨by rw [l1, l3, l5]; exact hrfc, by rw [l1, l2], by rw [l3, l4], by rw [l5, l6], ?_⟩
  rcases prfForVersion_spec P hP version row.2.2.2.2 with ⟨prf', hp', hr⟩ | ⟨hp', _⟩
  · rw [hp] at hp'; cases hp'
    rw [hr, hcat]; rfl
  · rw [hp] at hp'; cases hp'

example : ((0xC02F, 0, 16, 4, false) : Nat × Nat × Nat × Nat × Bool) ∈ ZV.Generated.C26.suiteRows := by decide


/-! ### the two suite tables (`cipherSuites`, `implementedCipherSuites`) and the lookup the handshakes go through -/

/-- T1: who reads which table. Key derivation only ever sees rows obtained through `cipherSuiteByID`
(`mutualCipherSuite`, `selectCipherSuite`, `aesgcmPreferred`), which ranges over `implementedCipherSuites`;
`cipherSuites` is read by `makeClientHello` and the default suite list (id and flags only). -/
theorem suite_table_uses_eq : ZV.Generated.C26.suiteTableUses = [
    ("cipher_suites.go", "selectCipherSuite", "call:cipherSuiteByID"),
    ("cipher_suites.go", "mutualCipherSuite", "call:cipherSuiteByID"),
    ("cipher_suites.go", "cipherSuiteByID", "implementedCipherSuites"),
    ("common.go", "initDefaultCipherSuites", "cipherSuites"),
    ("common.go", "initDefaultCipherSuites", "cipherSuites"),
    ("common.go", "aesgcmPreferred", "call:cipherSuiteByID"),
    ("handshake_client.go", "marshal", "implementedCipherSuites"),
    ("handshake_client.go", "makeClientHello", "cipherSuites"),
    ("handshake_client.go", "loadSession", "call:mutualCipherSuite"),
    ("handshake_client.go", "pickCipherSuite", "call:mutualCipherSuite")] := by decide

/-- T1: how the two tables relate, exactly.
(1) `cipherSuites` is, row for row and with the full flags word, the PREFIX of `implementedCipherSuites`; hence for
every advertised id the first match `cipherSuiteByID` returns IS the advertised row.
(2) `implementedCipherSuites` lists some ids a second time further down (rows that `cipherSuiteByID` can never return);
any two rows with the same id, in either table, have identical (macLen, keyLen, ivLen) and identical SHA-384 flag — i.e.
the same key-derivation shape — and their flags words differ at most in the bits
suiteECSign (2), suiteDefaultOff (16), suiteECDSA (32), suiteNoDTLS (64) (mask 114, disjoint from suiteSHA384).
So they do NOT agree on the full flags word (e.g. 0xC007: 19 in the first listing, 97 in the second), but they agree on
everything key derivation reads. -/
theorem suite_tables_agree :
    ZV.Generated.C26.tableImplemented.take ZV.Generated.C26.tableAdvertised.length = ZV.Generated.C26.tableAdvertised
    ∧ (∀ r ∈ ZV.Generated.C26.tableAdvertised, cipherSuiteByID ZV.Generated.C26.tableImplemented r.1 = some r)
    ∧ (∀ r ∈ ZV.Generated.C26.tableAdvertised ++ ZV.Generated.C26.tableImplemented,
       ∀ r' ∈ ZV.Generated.C26.tableAdvertised ++ ZV.Generated.C26.tableImplemented, r.1 = r'.1 →
        rowKeyShape ZV.Generated.C26.suiteSHA384Bit r = rowKeyShape ZV.Generated.C26.suiteSHA384Bit r'
        ∧ r.2.2.2.2 ||| 114 = r'.2.2.2.2 ||| 114)
    ∧ 114 &&& ZV.Generated.C26.suiteSHA384Bit = 0 := by
  have agree : ∀ (A B : List SuiteRow) (p : SuiteRow → SuiteRow → Prop) [∀ a b, Decidable (p a b)],
      (A.all fun r => B.all fun r' => decide (p r r')) = true → ∀ r ∈ A, ∀ r' ∈ B, p r r' := by
    intro A B p _ h r hr r' hr'
    exact of_decide_eq_true (List.all_eq_true.mp (List.all_eq_true.mp h r hr) r' hr')
  refine ⟨by decide, ?_, agree _ _ _ (by decide), by decide⟩
  have h : (ZV.Generated.C26.tableAdvertised.all fun r =>
      decide (cipherSuiteByID ZV.Generated.C26.tableImplemented r.1 = some r)) = true := by decide
  intro r hr
  exact of_decide_eq_true (List.all_eq_true.mp h r hr)

/-- T1: the key-derivation view of the full-flags dump is the `suiteRows` table the theorems above speak about
(with the tree's own `suiteSHA384` bit), and the advertised table has the RFC lengths as well -/
theorem suite_tables_shape :
    ZV.Generated.C26.tableImplemented.map (rowKeyShape ZV.Generated.C26.suiteSHA384Bit) = ZV.Generated.C26.suiteRows
    ∧ (∀ r ∈ ZV.Generated.C26.tableAdvertised,
        rfcSuiteLens r.1 = some (r.2.1, r.2.2.1, r.2.2.2.1)
        ∧ rowSHA384 ZV.Generated.C26.suiteSHA384Bit r = rfcSHA384Suites.contains r.1) := by decide

/-- `cipherSuiteByID` over ANY table returns a row of that table with the requested id -/
theorem cipherSuiteByID_spec (table : List SuiteRow) (id : Nat) (r : SuiteRow)
    (h : cipherSuiteByID table id = some r) : r ∈ table ∧ r.1 = id := by
  unfold cipherSuiteByID at h
  exact ⟨List.mem_of_find?_eq_some h, by simpa using List.find?_some h⟩

theorem mutualCipherSuite_spec (table : List SuiteRow) (have_ : List Nat) (want : Nat) (r : SuiteRow)
    (h : mutualCipherSuite table have_ want = some r) : want ∈ have_ ∧ r ∈ table ∧ r.1 = want := by
  unfold mutualCipherSuite at h
  by_cases hc : have_.contains want = true
  · rw [if_pos hc] at h
    exact ⟨by simpa using hc, cipherSuiteByID_spec table want r h⟩
  · rw [if_neg hc] at h; cases h

/-- Whatever suite the handshake obtains (`hs.suite = mutualCipherSuite(offered, chosen)` on the client,
`cipherSuiteByID` in `selectCipherSuite` on the server) from the table the tree actually reads: `establishKeys` with
that row yields keys of the suite's RFC lengths whose concatenation is the RFC key block, for every version and secret. -/
theorem keys_partition_looked_up_suite (P : Prims) (hP : FixedPrims P) (version : Nat) (have_ : List Nat) (want : Nat)
    (r : SuiteRow) (hr : mutualCipherSuite ZV.Generated.C26.tableImplemented have_ want = some r)
    (ms cr sr : Bytes) (k : Keys)
    (h : establishKeys P version (rowKeyShape ZV.Generated.C26.suiteSHA384Bit r) ms cr sr = .ok k) :
    rfcSuiteLens want = some (k.clientMAC.length, k.clientKey.length, k.clientIV.length)
    ∧ k.serverMAC.length = k.clientMAC.length ∧ k.serverKey.length = k.clientKey.length
    ∧ k.serverIV.length = k.clientIV.length
    ∧ RFC.PRF P version (rfcSHA384Suites.contains want) ms (ascii "key expansion") (sr ++ cr)
        (2 * k.clientMAC.length + 2 * k.clientKey.length + 2 * k.clientIV.length)
      = some (k.clientMAC ++ k.serverMAC ++ k.clientKey ++ k.serverKey ++ k.clientIV ++ k.serverIV) := by
  obtain ⟨_, hmem, hid⟩ := mutualCipherSuite_spec _ _ _ _ hr
  have hrow : rowKeyShape ZV.Generated.C26.suiteSHA384Bit r ∈ ZV.Generated.C26.suiteRows := by
    rw [← suite_tables_shape.1]; exact List.mem_map_of_mem hmem
  have hflag := (suite_lengths_eq_rfc.1 _ hrow).2
  have hlens := (suite_lengths_eq_rfc.1 _ hrow).1
  obtain ⟨a, b, c, d, e⟩ := keys_partition_every_suite P hP version _ hrow ms cr sr k h
  have hid' : (rowKeyShape ZV.Generated.C26.suiteSHA384Bit r).1 = want := hid
  rw [hid'] at a hflag hlens
  refine ⟨a, b, c, d, ?_⟩
  rw [a] at hlens
  simp only [Option.some.injEq, Prod.mk.injEq] at hlens
  rw [← hflag, hlens.1, hlens.2.1, hlens.2.2]
  exact e

example : mutualCipherSuite ZV.Generated.C26.tableImplemented [0x002F, 0xC02F] 0xC02F = some (0xC02F, 0, 16, 4, 5) := by
  decide

/-! ## TLS 1.3: label encoding is injective, and the schedule as the handshake wires it -/

theorem uint8_ofNat_inj {a b : Nat} (ha : a < 256) (hb : b < 256) (h : UInt8.ofNat a = UInt8.ofNat b) : a = b := by
  have := congrArg UInt8.toNat h
  simp at this
  omega

/-- HkdfLabel is an injective encoding of (length, label, context) on the encodable domain: two HKDF-Expand-Label
calls get the same `info` string only if they agree on all three, so distinct labels (or the same label with distinct
contexts / lengths) can never collide. -/
theorem hkdfLabel_injective (l l' c c' : Bytes) (n n' : Nat) (x : Bytes) (hn : n < 65536) (hn' : n' < 65536)
    (h : hkdfLabel l c n = some x) (h' : hkdfLabel l' c' n' = some x) : l = l' ∧ c = c' ∧ n = n' := by
  have hb : ¬ (255 < l.length + 6 ∨ 255 < c.length) := fun hh => by
    rw [(hkdfLabel_none_iff l c n).mpr hh] at h; cases h
  have hb' : ¬ (255 < l'.length + 6 ∨ 255 < c'.length) := fun hh => by
    rw [(hkdfLabel_none_iff l' c' n').mpr hh] at h'; cases h'
  have e := (hkdfLabel_layout l c n (by omega) (by omega) hn).1
  have e' := (hkdfLabel_layout l' c' n' (by omega) (by omega) hn').1
  rw [h] at e; rw [h'] at e'
  have := e.symm.trans e'
  simp only [Option.some.injEq, List.cons_append, List.nil_append, List.append_assoc, List.cons.injEq] at this
  obtain ⟨a1, a2, a3, _, _, _, _, _, _, rest⟩ := this
  have hl : l.length = l'.length := by
    have := uint8_ofNat_inj (by omega) (by omega) a3; omega
  have ⟨e1, e2⟩ := List.append_inj rest hl
  simp only [List.cons.injEq] at e2
  have h1 := uint8_ofNat_inj (by omega) (by omega) a1
  have h2 := uint8_ofNat_inj (by omega) (by omega) a2
  exact ⟨e1, e2.2, by omega⟩

example : hkdfLabel (ascii "key") [] 16 ≠ hkdfLabel (ascii "iv") [] 16 := by decide

/-- the hash of a TLS 1.3 suite behaves like one: digests have `size ≤ 255` bytes, and HMAC zero-pads its key
(RFC 2104 §2), so the absent salt `nil` and the RFC's salt "0" (`size` zero bytes) are the same key -/
structure GoodHash13 (H : Hash13) : Prop where
  hh : ∀ m, (H.hash m).length = H.size
  hs : H.size ≤ 255
  hpad : ∀ m, H.hmac [] m = H.hmac (List.replicate H.size 0) m

example : GoodHash13 ⟨fun _ _ => [1], fun _ => [2], 1⟩ := ⟨fun _ => rfl, by decide, fun _ => rfl⟩

/-- the executable HMAC of the driver zero-pads its key -/
theorem real_hmac_pad (a : ZV.Hash.HashAlg) (h : a.outSize ≤ a.blockSize) (m : Bytes) :
    ZV.Hash.hmac a [] m = ZV.Hash.hmac a (List.replicate a.outSize 0) m := by
  have hk : ZV.Hash.hmacKeyBlock a [] = ZV.Hash.hmacKeyBlock a (List.replicate a.outSize 0) := by
    unfold ZV.Hash.hmacKeyBlock
    have h1 : ¬ (([] : Bytes).length > a.blockSize) := by simp
    have h2 : ¬ ((List.replicate a.outSize (0 : UInt8)).length > a.blockSize) := by simp; omega
    rw [if_neg h1, if_neg h2]
    simp only [List.length_nil, List.length_replicate, List.nil_append, List.replicate_append_replicate]
    congr 1; omega
  unfold ZV.Hash.hmac
  rw [hk]

/-- RFC 8446 §7.1: `Early Secret = HKDF-Extract(0, PSK or 0)` -/
theorem earlySecret_eq_rfc (H : Hash13) (hH : GoodHash13 H) (psk : Option Bytes) :
    earlySecret H psk = Early_Secret H psk := by
  unfold earlySecret extract Early_Secret HKDF_Extract zeros
  cases psk <;> simp [hH.hpad]

/-- RFC 8446 §4.6.1: the ticket PSK is `HKDF-Expand-Label(resumption_master_secret, "resumption", ticket_nonce, Hash.length)` -/
theorem ticketPSK_eq_rfc (H : Hash13) (hs : H.size < 65536) (res nonce : Bytes) (hn : nonce.length ≤ 255) :
    ticketPSK H res nonce = .ok (Ticket_PSK H res nonce) := by
  unfold ticketPSK Ticket_PSK
  have hl : (resumptionPskLabel : Bytes).length = 10 := by decide
  exact expandLabel_eq_rfc H res resumptionPskLabel nonce H.size
    ⟨by rw [hl]; decide, hn, by calc H.size = 1 * H.size := (Nat.one_mul _).symm
                                  _ ≤ 255 * H.size := Nat.mul_le_mul_right _ (by decide), hs⟩

/-- … and a nonce that does not fit `opaque ticket_nonce<0..255>` makes the code panic, never derive a wrong PSK -/
theorem ticketPSK_panics_iff (H : Hash13) (hs : 0 < H.size) (res nonce : Bytes) :
    ticketPSK H res nonce = .panic ↔ 255 < nonce.length := by
  unfold ticketPSK
  rw [expandLabel_panics_iff]
  have hl : (resumptionPskLabel : Bytes).length = 10 := by decide
  rw [hl]
  constructor
  · intro h; rcases h with h | h | h
    · omega
    · exact h
    · exfalso
      have : H.size ≤ 255 * H.size := by
        calc H.size = 1 * H.size := (Nat.one_mul _).symm
          _ ≤ 255 * H.size := Nat.mul_le_mul_right _ (by decide)
      omega
  · intro h; exact Or.inr (Or.inl h)

/-- RFC 8446 §4.2.11.2: the PSK binder of a resumed ClientHello -/
theorem pskBinder_eq_rfc (H : Hash13) (hH : GoodHash13 H) (psk truncatedHello : Bytes) :
    pskBinder H psk truncatedHello = .ok (PSK_Binder H psk truncatedHello) := by
  unfold pskBinder PSK_Binder
  have hl : (resumptionBinderLabel : Bytes).length = 10 := by decide
  rw [deriveSecret_eq_rfc H _ resumptionBinderLabel none hH.hh hH.hs (by rw [hl]; decide)]
  simp only [Res.bind, Option.getD]
  rw [finished13_eq_rfc H _ _ (by have := hH.hs; omega), earlySecret_eq_rfc H hH]
  rfl

/-- RFC 8446 §7.1, the middle of the schedule exactly as `establishHandshakeKeys` / `sendServerParameters` wire it:
`Handshake Secret = HKDF-Extract(Derive-Secret(Early Secret, "derived", ""), (EC)DHE)`,
`client/server_handshake_traffic_secret = Derive-Secret(Handshake Secret, "c/s hs traffic", ClientHello…ServerHello)`,
`Master Secret = HKDF-Extract(Derive-Secret(Handshake Secret, "derived", ""), 0)` — for every early secret, share and transcript. -/
theorem establishHandshakeKeys_eq_rfc (H : Hash13) (hH : GoodHash13 H) (early sharedKey msgs : Bytes) :
    establishHandshakeKeys H early sharedKey msgs = .ok
      ⟨Derive_Secret H (Handshake_Secret H early sharedKey) (ascii "c hs traffic") msgs,
       Derive_Secret H (Handshake_Secret H early sharedKey) (ascii "s hs traffic") msgs,
       Master_Secret H (Handshake_Secret H early sharedKey)⟩ := by
  unfold establishHandshakeKeys
  have hd : (derivedLabel : Bytes).length = 7 := by decide
  have hc : (clientHandshakeTrafficLabel : Bytes).length = 12 := by decide
  have hsv : (serverHandshakeTrafficLabel : Bytes).length = 12 := by decide
  rw [deriveSecret_eq_rfc H early derivedLabel none hH.hh hH.hs (by rw [hd]; decide)]
  simp only [Res.bind]
  rw [deriveSecret_eq_rfc H _ clientHandshakeTrafficLabel (some msgs) hH.hh hH.hs (by rw [hc]; decide),
    deriveSecret_eq_rfc H _ serverHandshakeTrafficLabel (some msgs) hH.hh hH.hs (by rw [hsv]; decide),
    deriveSecret_eq_rfc H _ derivedLabel none hH.hh hH.hs (by rw [hd]; decide)]
  rfl

/-- `client/server_application_traffic_secret_0 = Derive-Secret(Master Secret, "c/s ap traffic", ClientHello…server Finished)` -/
theorem applicationSecrets_eq_rfc (H : Hash13) (hH : GoodHash13 H) (master msgs : Bytes) :
    applicationSecrets H master msgs = .ok
      ⟨Derive_Secret H master (ascii "c ap traffic") msgs, Derive_Secret H master (ascii "s ap traffic") msgs⟩ := by
  unfold applicationSecrets
  have hc : (clientApplicationTrafficLabel : Bytes).length = 12 := by decide
  have hsv : (serverApplicationTrafficLabel : Bytes).length = 12 := by decide
  rw [deriveSecret_eq_rfc H _ clientApplicationTrafficLabel (some msgs) hH.hh hH.hs (by rw [hc]; decide)]
  simp only [Res.bind]
  rw [deriveSecret_eq_rfc H _ serverApplicationTrafficLabel (some msgs) hH.hh hH.hs (by rw [hsv]; decide)]
  rfl

/-- `resumption_master_secret = Derive-Secret(Master Secret, "res master", ClientHello…client Finished)` -/
theorem resumptionSecret_eq_rfc (H : Hash13) (hH : GoodHash13 H) (master msgs : Bytes) :
    resumptionSecret H master msgs = .ok (Derive_Secret H master (ascii "res master") msgs) := by
  unfold resumptionSecret
  have hc : (resumptionLabel : Bytes).length = 10 := by decide
  rw [deriveSecret_eq_rfc H _ resumptionLabel (some msgs) hH.hh hH.hs (by rw [hc]; decide)]
  rfl

/-- the whole chain of a resumed connection: ticket → PSK → early secret → handshake secrets, in RFC terms -/
theorem resumed_schedule_eq_rfc (H : Hash13) (hH : GoodHash13 H) (res nonce sharedKey msgs psk : Bytes)
    (hpsk : ticketPSK H res nonce = .ok psk) (hn : nonce.length ≤ 255) :
    psk = Ticket_PSK H res nonce
    ∧ establishHandshakeKeys H (earlySecret H (some psk)) sharedKey msgs = .ok
      ⟨Derive_Secret H (Handshake_Secret H (Early_Secret H (some (Ticket_PSK H res nonce))) sharedKey) (ascii "c hs traffic") msgs,
       Derive_Secret H (Handshake_Secret H (Early_Secret H (some (Ticket_PSK H res nonce))) sharedKey) (ascii "s hs traffic") msgs,
       Master_Secret H (Handshake_Secret H (Early_Secret H (some (Ticket_PSK H res nonce))) sharedKey)⟩ := by
  rw [ticketPSK_eq_rfc H (by have := hH.hs; omega) res nonce hn] at hpsk
  cases hpsk
  exact ⟨rfl, by rw [establishHandshakeKeys_eq_rfc H hH, earlySecret_eq_rfc H hH]⟩

example : ticketPSK ⟨fun _ _ => [1], fun _ => [2], 1⟩ [5] [6] = .ok [1] := by decide

/-- T1: the model's TLS 1.3 labels are the tree's label constants -/
theorem model_labels13 :
    [("resumptionBinderLabel", resumptionBinderLabel), ("clientHandshakeTrafficLabel", clientHandshakeTrafficLabel),
     ("serverHandshakeTrafficLabel", serverHandshakeTrafficLabel),
     ("clientApplicationTrafficLabel", clientApplicationTrafficLabel),
     ("serverApplicationTrafficLabel", serverApplicationTrafficLabel), ("exporterLabel", exporterLabel),
     ("resumptionLabel", resumptionLabel), ("trafficUpdateLabel", trafficUpdateLabel)].all
      (fun p => (ZV.Generated.C26.labels.map (fun q => (q.1, ascii q.2))).contains p) = true
    ∧ derivedLabel = ascii "derived" ∧ resumptionPskLabel = ascii "resumption"
    ∧ tls13Prefix = ascii "tls13 " ∧ ZV.Generated.C26.hkdfLabelPrefix = ["tls13 "] := by decide

/-- T1: the TLS 1.3 schedule as the handshake code wires it — every deriveSecret / expandLabel / extract / finishedHash
call of the handshake files with its label literal, in source order, is the RFC 8446 §7.1 / §4.2.11.2 / §4.6.1 / §7.2
sequence on both sides (a changed, swapped or dropped label re-checks this theorem) -/
theorem schedule_calls_eq_rfc : ZV.Generated.C26.scheduleCalls = [
  ("handshake_client.go", "loadSession", "expandLabel", "resumption"),
  ("handshake_client.go", "loadSession", "extract", "-"),
  ("handshake_client.go", "loadSession", "deriveSecret", "res binder"),
  ("handshake_client.go", "loadSession", "finishedHash", "-"),
  ("handshake_client_tls13.go", "processHelloRetryRequest", "finishedHash", "-"),
  ("handshake_client_tls13.go", "establishHandshakeKeys", "extract", "-"),
  ("handshake_client_tls13.go", "establishHandshakeKeys", "extract", "-"),
  ("handshake_client_tls13.go", "establishHandshakeKeys", "deriveSecret", "derived"),
  ("handshake_client_tls13.go", "establishHandshakeKeys", "deriveSecret", "c hs traffic"),
  ("handshake_client_tls13.go", "establishHandshakeKeys", "deriveSecret", "s hs traffic"),
  ("handshake_client_tls13.go", "establishHandshakeKeys", "extract", "-"),
  ("handshake_client_tls13.go", "establishHandshakeKeys", "deriveSecret", "derived"),
  ("handshake_client_tls13.go", "readServerFinished", "finishedHash", "-"),
  ("handshake_client_tls13.go", "readServerFinished", "deriveSecret", "c ap traffic"),
  ("handshake_client_tls13.go", "readServerFinished", "deriveSecret", "s ap traffic"),
  ("handshake_client_tls13.go", "readServerFinished", "exportKeyingMaterial", "-"),
  ("handshake_client_tls13.go", "sendClientFinished", "finishedHash", "-"),
  ("handshake_client_tls13.go", "sendClientFinished", "deriveSecret", "res master"),
  ("handshake_server_tls13.go", "checkForResumption", "expandLabel", "resumption"),
  ("handshake_server_tls13.go", "checkForResumption", "extract", "-"),
  ("handshake_server_tls13.go", "checkForResumption", "deriveSecret", "res binder"),
  ("handshake_server_tls13.go", "checkForResumption", "finishedHash", "-"),
  ("handshake_server_tls13.go", "sendServerParameters", "extract", "-"),
  ("handshake_server_tls13.go", "sendServerParameters", "extract", "-"),
  ("handshake_server_tls13.go", "sendServerParameters", "deriveSecret", "derived"),
  ("handshake_server_tls13.go", "sendServerParameters", "deriveSecret", "c hs traffic"),
  ("handshake_server_tls13.go", "sendServerParameters", "deriveSecret", "s hs traffic"),
  ("handshake_server_tls13.go", "sendServerFinished", "finishedHash", "-"),
  ("handshake_server_tls13.go", "sendServerFinished", "extract", "-"),
  ("handshake_server_tls13.go", "sendServerFinished", "deriveSecret", "derived"),
  ("handshake_server_tls13.go", "sendServerFinished", "deriveSecret", "c ap traffic"),
  ("handshake_server_tls13.go", "sendServerFinished", "deriveSecret", "s ap traffic"),
  ("handshake_server_tls13.go", "sendServerFinished", "exportKeyingMaterial", "-"),
  ("handshake_server_tls13.go", "sendSessionTickets", "finishedHash", "-"),
  ("handshake_server_tls13.go", "sendSessionTickets", "deriveSecret", "res master"),
  ("conn.go", "handleKeyUpdate", "nextTrafficSecret", "-"),
  ("conn.go", "handleKeyUpdate", "nextTrafficSecret", "-")] := by decide


/-! ## T1: the constants and table columns of the tree (re-extracted on every run) -/

/-- the label constants of tls/prf.go and tls/key_schedule.go are the RFC strings
(RFC 5246 §7.4.9, §8.1, §6.3; RFC 8446 §7.1, §7.2, §7.5, §4.2.11.2) -/
theorem labels_eq_rfc : ZV.Generated.C26.labels = [
    ("clientApplicationTrafficLabel", "c ap traffic"),
    ("clientFinishedLabel", "client finished"),
    ("clientHandshakeTrafficLabel", "c hs traffic"),
    ("exporterLabel", "exp master"),
    ("keyExpansionLabel", "key expansion"),
    ("masterSecretLabel", "master secret"),
    ("resumptionBinderLabel", "res binder"),
    ("resumptionLabel", "res master"),
    ("serverApplicationTrafficLabel", "s ap traffic"),
    ("serverFinishedLabel", "server finished"),
    ("serverHandshakeTrafficLabel", "s hs traffic"),
    ("trafficUpdateLabel", "traffic upd")] := by decide

/-- which label each key-schedule function passes to `expandLabel` / `deriveSecret`, the `"tls13 "` prefix,
the reserved exporter labels, and the Finished labels per side -/
theorem label_uses_eq_rfc :
    ZV.Generated.C26.labelCalls = [
      ("deriveSecret", "expandLabel", "<label>"),
      ("nextTrafficSecret", "expandLabel", "traffic upd"),
      ("trafficKey", "expandLabel", "key"),
      ("trafficKey", "expandLabel", "iv"),
      ("finishedHash", "expandLabel", "finished"),
      ("exportKeyingMaterial", "deriveSecret", "exp master"),
      ("exportKeyingMaterial", "deriveSecret", "<label>"),
      ("exportKeyingMaterial", "expandLabel", "exporter")]
    ∧ ZV.Generated.C26.hkdfLabelPrefix = ["tls13 "]
    ∧ ZV.Generated.C26.ekmReserved = ["client finished", "server finished", "master secret", "key expansion"]
    ∧ ZV.Generated.C26.prfLabelUses = [
      ("masterFromPreMasterSecret", "master secret"),
      ("keysFromMasterSecret", "key expansion"),
      ("clientSum", "client finished"),
      ("serverSum", "server finished")] := by decide

/-- the model's label constants are the same strings (so the theorems above speak about the tree's labels) -/
theorem model_labels :
    masterSecretLabel = (ascii "master secret") ∧ keyExpansionLabel = (ascii "key expansion")
    ∧ clientFinishedLabel = (ascii "client finished") ∧ serverFinishedLabel = (ascii "server finished")
    ∧ trafficUpdateLabel = (ascii "traffic upd") ∧ exporterLabel = (ascii "exp master")
    ∧ ekmReserved = (ZV.Generated.C26.ekmReserved.map ascii) := by decide

theorem lengths_eq_rfc : ZV.Generated.C26.lengths =
    [("aeadNonceLength", 12), ("finishedVerifyLength", 12), ("masterSecretLength", 48)]
    ∧ masterSecretLength = 48 ∧ finishedVerifyLength = 12 ∧ aeadNonceLength = 12 := by decide

/-- every implemented TLS ≤ 1.2 suite carries the SHA-384 flag iff the RFCs (5288, 5289) define it with
the SHA-384 PRF -/
theorem suite_prf_hash_eq_rfc :
    ∀ row ∈ ZV.Generated.C26.suites, row.2 = rfcSHA384Suites.contains row.1 := by decide

/-- the TLS 1.3 suite table (AEAD key length, hash) is RFC 8446 B.4, no more, no less -/
theorem suites13_eq_rfc :
    (∀ row ∈ ZV.Generated.C26.suites13, row ∈ rfcSuites13)
    ∧ (∀ row ∈ rfcSuites13, row ∈ ZV.Generated.C26.suites13) := by decide

end ZV.C26
