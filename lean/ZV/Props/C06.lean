import ZV.Proofs.C06
/-!
  C06 — certificate metadata is a faithful function of the DER bytes.
  All theorems are about `parseCert` / `Cert.meta` of `ZV.Model.C06`, the model of
  `x509.ParseCertificate` that T2 ties to the Go code on every accepted certificate of the stream.
-/
namespace ZV.C06
open ZV ZV.Der

/-- **Raw fields are sub-slices at element boundaries.**  For every input the model accepts:
    `Raw` is the whole input; `RawTBSCertificate`, `RawIssuer`, `RawSubject`, `RawSubjectPublicKeyInfo`
    are `bs.extract i j` where `i` is the sum of the outer header lengths and of the full lengths of the
    preceding sibling elements (`offTbs`, `offIssuer`, `offSubject`, `offSPKI`) and `j - i` the element's own
    full length. -/
theorem raw_fields_are_subslices (bs : Bytes) (c : Cert) (h : parseCert bs = .ok c) :
    c.raw.full = bs ∧
    c.rawTBS = bs.extract c.offTbs (c.offTbs + c.rawTBS.length) ∧
    c.rawIssuer = bs.extract c.offIssuer (c.offIssuer + c.rawIssuer.length) ∧
    c.rawSubject = bs.extract c.offSubject (c.offSubject + c.rawSubject.length) ∧
    c.rawSPKI = bs.extract c.offSPKI (c.offSPKI + c.rawSPKI.length) := by
  obtain ⟨h0, hb, hb2, tail, after, l1, l2, t2, lay, hbs⟩ := parseCert_layout h
  refine ⟨h0, ?_, ?_, ?_, ?_⟩
  · have := extract_mid hb c.tbsE.full after
    rw [← hbs, l1] at this
    exact this.symm
  · have e : bs = (hb ++ hb2 ++ c.tbs.verRaw ++ c.tbs.serial.full ++ c.tbs.sigalg.full) ++ c.tbs.issuer.full
        ++ (c.tbs.validity.full ++ c.tbs.subject.full ++ c.tbs.spki.full ++ tail ++ after) := by
      rw [hbs, t2, lay]; simp
    have := extract_mid (hb ++ hb2 ++ c.tbs.verRaw ++ c.tbs.serial.full ++ c.tbs.sigalg.full) c.tbs.issuer.full
      (c.tbs.validity.full ++ c.tbs.subject.full ++ c.tbs.spki.full ++ tail ++ after)
    rw [← e] at this
    simp only [List.length_append, l1, l2] at this
    simpa [Cert.rawIssuer, Cert.offIssuer, Cert.offTbsBody] using this.symm
  · have e : bs = (hb ++ hb2 ++ c.tbs.verRaw ++ c.tbs.serial.full ++ c.tbs.sigalg.full ++ c.tbs.issuer.full
        ++ c.tbs.validity.full) ++ c.tbs.subject.full ++ (c.tbs.spki.full ++ tail ++ after) := by
      rw [hbs, t2, lay]; simp
    have := extract_mid (hb ++ hb2 ++ c.tbs.verRaw ++ c.tbs.serial.full ++ c.tbs.sigalg.full ++ c.tbs.issuer.full
        ++ c.tbs.validity.full) c.tbs.subject.full (c.tbs.spki.full ++ tail ++ after)
    rw [← e] at this
    simp only [List.length_append, l1, l2] at this
    simpa [Cert.rawSubject, Cert.offSubject, Cert.offIssuer, Cert.offTbsBody] using this.symm
  · have e : bs = (hb ++ hb2 ++ c.tbs.verRaw ++ c.tbs.serial.full ++ c.tbs.sigalg.full ++ c.tbs.issuer.full
        ++ c.tbs.validity.full ++ c.tbs.subject.full) ++ c.tbs.spki.full ++ (tail ++ after) := by
      rw [hbs, t2, lay]; simp
    have := extract_mid (hb ++ hb2 ++ c.tbs.verRaw ++ c.tbs.serial.full ++ c.tbs.sigalg.full ++ c.tbs.issuer.full
        ++ c.tbs.validity.full ++ c.tbs.subject.full) c.tbs.spki.full (tail ++ after)
    rw [← e] at this
    simp only [List.length_append, l1, l2] at this
    simpa [Cert.rawSPKI, Cert.offSPKI, Cert.offSubject, Cert.offIssuer, Cert.offTbsBody] using this.symm

/-- **Fingerprints are the named hashes of those sub-slices of the input.** -/
theorem fingerprints_def (bs : Bytes) (c : Cert) (h : parseCert bs = .ok c) :
    c.meta.fpMD5 = Hash.md5 bs ∧ c.meta.fpSHA1 = Hash.sha1 bs ∧ c.meta.fpSHA256 = Hash.sha256 bs ∧
    c.meta.tbsFp = Hash.sha256 (bs.extract c.offTbs (c.offTbs + c.rawTBS.length)) ∧
    c.meta.spkiFp = Hash.sha256 (bs.extract c.offSPKI (c.offSPKI + c.rawSPKI.length)) ∧
    c.meta.spkiSubjectFp = Hash.sha256 (bs.extract c.offSPKI (c.offSPKI + c.rawSPKI.length)
                              ++ bs.extract c.offSubject (c.offSubject + c.rawSubject.length)) := by
  obtain ⟨h0, h1, _, h3, h4⟩ := raw_fields_are_subslices bs c h
  simp only [Cert.meta, h0]
  refine ⟨trivial, trivial, trivial, ?_, ?_, ?_⟩
  · rw [← h1]
  · rw [← h4]
  · rw [← h4, ← h3]

/-- **The accepted input is determined by `Raw`** (so also by what the three certificate fingerprints hash): two
    accepted byte strings with the same `Raw` are the same byte string.  In particular `der ++ suffix` with a
    non-empty suffix is never accepted with the `Raw` of `der` (trailing bytes, white space included, are not
    silently dropped). -/
theorem raw_determines_input (a b : Bytes) (c d : Cert) (ha : parseCert a = .ok c) (hb : parseCert b = .ok d)
    (h : c.raw.full = d.raw.full) : a = b := by
  rw [← (raw_fields_are_subslices a c ha).1, ← (raw_fields_are_subslices b d hb).1]
  exact h

theorem suffix_not_dropped (der suffix : Bytes) (c d : Cert) (h1 : parseCert der = .ok c)
    (h2 : parseCert (der ++ suffix) = .ok d) (hs : suffix ≠ []) : d.raw.full ≠ c.raw.full := by
  intro h
  have := raw_determines_input _ _ _ _ h2 h1 h
  exact hs (List.append_right_eq_self.mp this)

/-- `Version` is the encoded version plus one (on Go's 64-bit int; the only wrapping value is MaxInt64). -/
theorem version_def (c : Cert) (h : c.tbs.version ≠ 9223372036854775807) :
    c.meta.version = c.tbs.version + 1 := by
  show versionPlusOne c.tbs.version = _
  unfold versionPlusOne
  rw [if_neg h]

/-- `SelfSigned` ⇔ issuer bytes = subject bytes ∧ the signature verifies under the certificate's own key. -/
theorem selfsigned_iff (c : Cert) (verified : Bool) :
    selfSigned c.meta verified = true ↔ (c.rawIssuer = c.rawSubject ∧ verified = true) := by
  have e : c.meta.issuerEqSubject = (c.rawSubject == c.rawIssuer) := rfl
  unfold selfSigned
  rw [e, Bool.and_eq_true, beq_iff_eq]
  constructor
  · intro h; exact ⟨h.1.symm, h.2⟩
  · intro h; exact ⟨h.1.symm, h.2⟩

/-- inserting an element the filter drops does not change the filtered list — at ANY position. -/
theorem filter_insertAt {α} (p : α → Bool) (x : α) (hx : p x = false) (i : Nat) (l : List α) :
    (insertAt i x l).filter p = l.filter p := by
  unfold insertAt
  rw [List.filter_append, List.filter_cons, hx]
  simp only [Bool.false_eq_true, if_false]
  rw [← List.filter_append, List.take_append_drop]

/-- **CT invariance on the filter + re-encoding.**  Inserting a CT poison or SCT-list extension at any
    position `i` of the extension list (also `i` beyond the end ⇒ appended; also into the empty list) leaves
    the no-CT TBS encoding — hence `FingerprintNoCT` — unchanged.  The re-encoding always emits the `[3]`
    wrapper (`A3 02 30 00` when nothing is left), which is what makes the empty case agree. -/
theorem noct_invariant (pre : Bytes) (exts : List Ext) (ct : Ext) (hct : isCT ct = true) (i : Nat) :
    noCTBytes pre (insertAt i ct exts) = noCTBytes pre exts ∧
    Hash.sha256 (noCTBytes pre (insertAt i ct exts)) = Hash.sha256 (noCTBytes pre exts) := by
  have h : (insertAt i ct exts).filter notCT = exts.filter notCT :=
    filter_insertAt notCT ct (by simp [notCT, hct]) i exts
  simp [noCTBytes, h]

/-- removing is the same statement read right to left: a list and the list with all CT extensions removed
    have the same no-CT encoding. -/
theorem noct_remove (pre : Bytes) (exts : List Ext) :
    noCTBytes pre (exts.filter notCT) = noCTBytes pre exts := by
  simp [noCTBytes, List.filter_filter]

/-- a certificate that carries only CT extensions and one that carries none have the same no-CT encoding,
    and it ends in the empty extensions field `A3 02 30 00`. -/
theorem noct_only_ct (pre : Bytes) (exts : List Ext) (h : ∀ x ∈ exts, isCT x = true) :
    noCTBytes pre exts = noCTBytes pre [] ∧
    noCTBytes pre [] = writeTLV 0x30 (pre ++ [0xA3, 0x02, 0x30, 0x00]) := by
  have : exts.filter notCT = [] := by
    rw [List.filter_eq_nil_iff]; intro x hx; simp [notCT, h x hx]
  constructor
  · simp [noCTBytes, this]
  · simp [noCTBytes, extsFlat, writeTLV, encLen]

example : isCT ⟨[], oidPoison, true, [5, 0]⟩ = true := by decide
example : isCT ⟨[], oidSCTList, false, [4, 2, 0, 0]⟩ = true := by decide

end ZV.C06
