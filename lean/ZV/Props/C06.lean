import ZV.Proofs.C06Multi
import ZV.Model.C06Tbs
import ZV.Generated.C06
/-!
  C06 — certificate metadata is a faithful function of the DER bytes.
  All theorems are about `parseCert` / `Cert.meta` of `ZV.Model.C06`, the model of
  `x509.ParseCertificate` that T2 ties to the Go code on every accepted certificate of the stream.

  Sections: (a) every accepted input — Raw fields are sub-slices, fingerprints hash them / the whole input,
  trailing bytes rejected, SelfSigned; (b) CT invariance on the extension LIST (filter + re-encoding);
  (c) parser ∘ canonical encoder (`parseTbs_encTbs`, `parseCert_encCert_encTbs`, `meta_encCert`);
  (d) CT invariance at BYTE level (`noct_invariant_bytes`, `noct_parses`, …); (e) which accepted certificates
  are canonical encodings (`accepted_canonical_iff`) and the CT theorem for those (`noct_invariant_accepted`).
-/
namespace ZV.C06
open ZV ZV.Der

/-- **Raw fields are sub-slices at element boundaries.**  For every input the model accepts:
    `Raw` is the whole input; `RawTBSCertificate`, `RawIssuer`, `RawSubject`, `RawSubjectPublicKeyInfo`
    are `bs.extract i j` where `i` is the sum of the outer header lengths and of the full lengths of the
    preceding sibling elements (`offTbs`, `offIssuer`, `offSubject`, `offSPKI`) and `j - i` the element's own
    full length. -/
theorem raw_fields_are_subslices (bs : Bytes) (c : Cert) (h : parseCert bs = .ok c) :
    c.raw.full = bs ∧
    c.rawTBS = bs.extract c.offTbs (c.offTbs + c.rawTBS.length) ∧
    c.rawIssuer = bs.extract c.offIssuer (c.offIssuer + c.rawIssuer.length) ∧
    c.rawSubject = bs.extract c.offSubject (c.offSubject + c.rawSubject.length) ∧
    c.rawSPKI = bs.extract c.offSPKI (c.offSPKI + c.rawSPKI.length) := by
  obtain ⟨h0, hb, hb2, tail, after, l1, l2, t2, lay, hbs⟩ := parseCert_layout h
  refine ⟨h0, ?_, ?_, ?_, ?_⟩
  · have := extract_mid hb c.tbsE.full after
    rw [← hbs, l1] at this
    exact this.symm
  · have e : bs = (hb ++ hb2 ++ c.tbs.verRaw ++ c.tbs.serial.full ++ c.tbs.sigalg.full) ++ c.tbs.issuer.full
        ++ (c.tbs.validity.full ++ c.tbs.subject.full ++ c.tbs.spki.full ++ tail ++ after) := by
      rw [hbs, t2, lay]; simp
    have := extract_mid (hb ++ hb2 ++ c.tbs.verRaw ++ c.tbs.serial.full ++ c.tbs.sigalg.full) c.tbs.issuer.full
      (c.tbs.validity.full ++ c.tbs.subject.full ++ c.tbs.spki.full ++ tail ++ after)
    rw [← e] at this
    simp only [List.length_append, l1, l2] at this
    simpa [Cert.rawIssuer, Cert.offIssuer, Cert.offTbsBody] using this.symm
  · have e : bs = (hb ++ hb2 ++ c.tbs.verRaw ++ c.tbs.serial.full ++ c.tbs.sigalg.full ++ c.tbs.issuer.full
        ++ c.tbs.validity.full) ++ c.tbs.subject.full ++ (c.tbs.spki.full ++ tail ++ after) := by
      rw [hbs, t2, lay]; simp
    have := extract_mid (hb ++ hb2 ++ c.tbs.verRaw ++ c.tbs.serial.full ++ c.tbs.sigalg.full ++ c.tbs.issuer.full
        ++ c.tbs.validity.full) c.tbs.subject.full (c.tbs.spki.full ++ tail ++ after)
    rw [← e] at this
    simp only [List.length_append, l1, l2] at this
    simpa [Cert.rawSubject, Cert.offSubject, Cert.offIssuer, Cert.offTbsBody] using this.symm
  · have e : bs = (hb ++ hb2 ++ c.tbs.verRaw ++ c.tbs.serial.full ++ c.tbs.sigalg.full ++ c.tbs.issuer.full
        ++ c.tbs.validity.full ++ c.tbs.subject.full) ++ c.tbs.spki.full ++ (tail ++ after) := by
      rw [hbs, t2, lay]; simp
    have := extract_mid (hb ++ hb2 ++ c.tbs.verRaw ++ c.tbs.serial.full ++ c.tbs.sigalg.full ++ c.tbs.issuer.full
        ++ c.tbs.validity.full ++ c.tbs.subject.full) c.tbs.spki.full (tail ++ after)
    rw [← e] at this
    simp only [List.length_append, l1, l2] at this
    simpa [Cert.rawSPKI, Cert.offSPKI, Cert.offSubject, Cert.offIssuer, Cert.offTbsBody] using this.symm

/-- **Fingerprints are the named hashes of those sub-slices of the input.** -/
theorem fingerprints_def (bs : Bytes) (c : Cert) (h : parseCert bs = .ok c) :
    c.meta.fpMD5 = Hash.md5 bs ∧ c.meta.fpSHA1 = Hash.sha1 bs ∧ c.meta.fpSHA256 = Hash.sha256 bs ∧
    c.meta.tbsFp = Hash.sha256 (bs.extract c.offTbs (c.offTbs + c.rawTBS.length)) ∧
    c.meta.spkiFp = Hash.sha256 (bs.extract c.offSPKI (c.offSPKI + c.rawSPKI.length)) ∧
    c.meta.spkiSubjectFp = Hash.sha256 (bs.extract c.offSPKI (c.offSPKI + c.rawSPKI.length)
                              ++ bs.extract c.offSubject (c.offSubject + c.rawSubject.length)) := by
  obtain ⟨h0, h1, _, h3, h4⟩ := raw_fields_are_subslices bs c h
  simp only [Cert.meta, h0]
  refine ⟨trivial, trivial, trivial, ?_, ?_, ?_⟩
  · rw [← h1]
  · rw [← h4]
  · rw [← h4, ← h3]

/-- **The accepted input is determined by `Raw`** (so also by what the three certificate fingerprints hash): two
    accepted byte strings with the same `Raw` are the same byte string.  In particular `der ++ suffix` with a
    non-empty suffix is never accepted with the `Raw` of `der` (trailing bytes, white space included, are not
    silently dropped). -/
theorem raw_determines_input (a b : Bytes) (c d : Cert) (ha : parseCert a = .ok c) (hb : parseCert b = .ok d)
    (h : c.raw.full = d.raw.full) : a = b := by
  rw [← (raw_fields_are_subslices a c ha).1, ← (raw_fields_are_subslices b d hb).1]
  exact h

theorem suffix_not_dropped (der suffix : Bytes) (c d : Cert) (h1 : parseCert der = .ok c)
    (h2 : parseCert (der ++ suffix) = .ok d) (hs : suffix ≠ []) : d.raw.full ≠ c.raw.full := by
  intro h
  have := raw_determines_input _ _ _ _ h2 h1 h
  exact hs (List.append_right_eq_self.mp this)

/-- `Version` is the encoded version plus one (on Go's 64-bit int; the only wrapping value is MaxInt64). -/
theorem version_def (c : Cert) (h : c.tbs.version ≠ 9223372036854775807) :
    c.meta.version = c.tbs.version + 1 := by
  show versionPlusOne c.tbs.version = _
  unfold versionPlusOne
  rw [if_neg h]

/-- `SelfSigned` ⇔ issuer bytes = subject bytes ∧ the signature verifies under the certificate's own key. -/
theorem selfsigned_iff (c : Cert) (verified : Bool) :
    selfSigned c.meta verified = true ↔ (c.rawIssuer = c.rawSubject ∧ verified = true) := by
  have e : c.meta.issuerEqSubject = (c.rawSubject == c.rawIssuer) := rfl
  unfold selfSigned
  rw [e, Bool.and_eq_true, beq_iff_eq]
  constructor
  · intro h; exact ⟨h.1.symm, h.2⟩
  · intro h; exact ⟨h.1.symm, h.2⟩

/-- inserting an element the filter drops does not change the filtered list — at ANY position. -/
theorem filter_insertAt {α} (p : α → Bool) (x : α) (hx : p x = false) (i : Nat) (l : List α) :
    (insertAt i x l).filter p = l.filter p := by
  unfold insertAt
  rw [List.filter_append, List.filter_cons, hx]
  simp only [Bool.false_eq_true, if_false]
  rw [← List.filter_append, List.take_append_drop]

/-- **CT invariance on the filter + re-encoding.**  Inserting a CT poison or SCT-list extension at any
    position `i` of the extension list (also `i` beyond the end ⇒ appended; also into the empty list) leaves
    the no-CT TBS encoding — hence `FingerprintNoCT` — unchanged.  The re-encoding always emits the `[3]`
    wrapper (`A3 02 30 00` when nothing is left), which is what makes the empty case agree. -/
theorem noct_invariant (pre : Bytes) (exts : List Ext) (ct : Ext) (hct : isCT ct = true) (i : Nat) :
    noCTBytes pre (insertAt i ct exts) = noCTBytes pre exts ∧
    Hash.sha256 (noCTBytes pre (insertAt i ct exts)) = Hash.sha256 (noCTBytes pre exts) := by
  have h : (insertAt i ct exts).filter notCT = exts.filter notCT :=
    filter_insertAt notCT ct (by simp [notCT, hct]) i exts
  simp [noCTBytes, h]

/-- removing is the same statement read right to left: a list and the list with all CT extensions removed
    have the same no-CT encoding. -/
theorem noct_remove (pre : Bytes) (exts : List Ext) :
    noCTBytes pre (exts.filter notCT) = noCTBytes pre exts := by
  simp [noCTBytes, List.filter_filter]

/-- a certificate that carries only CT extensions and one that carries none have the same no-CT encoding,
    and it ends in the empty extensions field `A3 02 30 00`. -/
theorem noct_only_ct (pre : Bytes) (exts : List Ext) (h : ∀ x ∈ exts, isCT x = true) :
    noCTBytes pre exts = noCTBytes pre [] ∧
    noCTBytes pre [] = writeTLV 0x30 (pre ++ [0xA3, 0x02, 0x30, 0x00]) := by
  have : exts.filter notCT = [] := by
    rw [List.filter_eq_nil_iff]; intro x hx; simp [notCT, h x hx]
  constructor
  · simp [noCTBytes, this]
  · simp [noCTBytes, extsFlat, writeTLV, encLen]

example : isCT ⟨[], oidPoison, true, [5, 0]⟩ = true := by decide
example : isCT ⟨[], oidSCTList, false, [4, 2, 0, 0]⟩ = true := by decide

/-! ## Fingerprints cover the whole accepted input -/

/-- **The certificate fingerprints are hashes of the ENTIRE accepted input.**  Whatever byte string `bs`
    the parser accepts, `Raw` is `bs` (all of it, nothing stripped) and FingerprintMD5 / FingerprintSHA1 /
    FingerprintSHA256 are `md5 bs`, `sha1 bs`, `sha256 bs`. -/
theorem fingerprints_cover_input (bs : Bytes) (c : Cert) (h : parseCert bs = .ok c) :
    c.raw.full = bs ∧ c.raw.full.length = bs.length ∧
    c.meta.fpMD5 = Hash.md5 bs ∧ c.meta.fpSHA1 = Hash.sha1 bs ∧ c.meta.fpSHA256 = Hash.sha256 bs := by
  have h0 := (parseCert_layout h).1
  simp only [Cert.meta, h0]
  exact ⟨trivial, trivial, trivial, trivial, trivial⟩

/-- the same for an input assembled as prefix ‖ DER ‖ suffix (the shape of the T2 `wrap` lines): if it is
    accepted at all, the fingerprints hash all three parts. -/
theorem fingerprints_cover_wrapped (p der s : Bytes) (c : Cert) (h : parseCert (p ++ der ++ s) = .ok c) :
    c.raw.full = p ++ der ++ s ∧ c.meta.fpMD5 = Hash.md5 (p ++ der ++ s) ∧
    c.meta.fpSHA1 = Hash.sha1 (p ++ der ++ s) ∧ c.meta.fpSHA256 = Hash.sha256 (p ++ der ++ s) := by
  obtain ⟨a, _, b, c', d⟩ := fingerprints_cover_input _ c h
  exact ⟨a, b, c', d⟩

/-- **Trailing bytes are rejected, not dropped**: an accepted certificate followed by ANY non-empty suffix
    (white space, zero bytes, a second certificate, …) is an error.  (Stronger than `suffix_not_dropped`.) -/
theorem trailing_rejected (der suffix : Bytes) (c : Cert) (h : parseCert der = .ok c) (hs : suffix ≠ []) :
    parseCert (der ++ suffix) = .err := by
  unfold parseCert at h
  rw [bind_ok] at h; obtain ⟨⟨ce, rest⟩, hc, h⟩ := h
  split at h
  · cases h
  · rename_i hrest
    have hre : rest = [] := by simpa using hrest
    subst hre
    obtain ⟨hi, _⟩ := field_some_isElem (someElem_field_nil hc)
    unfold parseCert
    rw [someElem_field_isElem false suffix hi, res_bind_ok]
    have : (!suffix.isEmpty) = true := by cases suffix with
      | nil => exact absurd rfl hs
      | cons _ _ => rfl
    simp only [this, if_true]

/-! ## SelfSigned, byte level -/

/-- `SelfSigned` ⇔ the issuer slice of the INPUT equals its subject slice ∧ the signature verifies. -/
theorem selfsigned_bytes (bs : Bytes) (c : Cert) (h : parseCert bs = .ok c) (verified : Bool) :
    selfSigned c.meta verified = true ↔
      (bs.extract c.offIssuer (c.offIssuer + c.rawIssuer.length)
        = bs.extract c.offSubject (c.offSubject + c.rawSubject.length) ∧ verified = true) := by
  obtain ⟨_, _, h2, h3, _⟩ := raw_fields_are_subslices bs c h
  rw [selfsigned_iff, ← h2, ← h3]

/-! ## The parser on canonically encoded certificates -/

/-- **`parseTbs ∘ encTbs`.**  For all field encodings that are single elements of the expected tags
    (`wfFields`: decidable — strict-DER header, exact length, tag/class/constructed bit as `parseField` wants
    them, version fits int64, serial minimal, unique ids valid BIT STRINGs), every list of extensions each of
    which is one SEQUENCE element that `parseExt` decodes to itself (`wfExt`), and total size < 2^31, the TBS
    contents `version? ‖ serial ‖ sigalg ‖ issuer ‖ validity ‖ subject ‖ spki ‖ uid1? ‖ uid2? ‖ [3]{SEQ{exts}}?`
    are parsed back to exactly these fields, `pre` = everything before the `[3]` wrapper, and `exts`. -/
theorem parseTbs_encTbs (f : TbsFields) (exts : List Ext) (hf : wfFields f = true)
    (hx : exts.all wfExt = true) (hl : (encTbsBody f exts).length < 2147483648) :
    parseTbs (encTbsBody f exts) =
      .ok ⟨verInt f.version, encVersion f.version, elemAt f.serial, elemAt f.sigalg, elemAt f.issuer,
           elemAt f.validity, elemAt f.subject, elemAt f.spki, encTbsPre f, exts⟩ :=
  parseTbs_encTbsBody f exts hf (by simpa using hx) hl

/-- **`parseCert ∘ encCert ∘ encTbs`**: the certificate assembled from well-formed pieces is accepted and
    decoded to exactly those pieces. -/
theorem parseCert_encCert_encTbs (f : TbsFields) (exts : List Ext) (sa sv : Bytes)
    (h : wfCert f exts sa sv = true) :
    parseCert (encCert (encTbs f exts) sa sv) =
      .ok ⟨elemOf 0x30 (encTbs f exts ++ sa ++ sv), elemOf 0x30 (encTbsBody f exts),
           ⟨verInt f.version, encVersion f.version, elemAt f.serial, elemAt f.sigalg, elemAt f.issuer,
            elemAt f.validity, elemAt f.subject, elemAt f.spki, encTbsPre f, exts⟩,
           elemAt sa, elemAt sv⟩ := by
  obtain ⟨hf, hx, hs, hl⟩ := (wfCert_iff f exts sa sv).mp h
  exact parseCert_encCert f exts sa sv hf hx hs hl

/-- **The metadata of a canonically encoded certificate, as a function of what was encoded**: every Raw field
    is the corresponding encoder argument, every fingerprint the hash of it, Version the encoded integer + 1,
    the no-CT bytes the re-encoding of the encoder's own `pre` and the filtered extension list, and
    SelfSigned ⇔ issuer encoding = subject encoding ∧ verified. -/
theorem meta_encCert (f : TbsFields) (exts : List Ext) (sa sv : Bytes) (h : wfCert f exts sa sv = true) :
    ∃ c, parseCert (encCert (encTbs f exts) sa sv) = .ok c ∧
      c.raw.full = encCert (encTbs f exts) sa sv ∧ c.rawTBS = encTbs f exts ∧
      c.rawIssuer = f.issuer ∧ c.rawSubject = f.subject ∧ c.rawSPKI = f.spki ∧
      c.tbs.exts = exts ∧ c.tbs.pre = encTbsPre f ∧
      c.meta.version = versionPlusOne (verInt f.version) ∧
      c.meta.tbsFp = Hash.sha256 (encTbs f exts) ∧ c.meta.spkiFp = Hash.sha256 f.spki ∧
      c.meta.spkiSubjectFp = Hash.sha256 (f.spki ++ f.subject) ∧
      c.noCT = noCTBytes (encTbsPre f) exts ∧ c.meta.noCTFp = Hash.sha256 (noCTBytes (encTbsPre f) exts) ∧
      (∀ verified, selfSigned c.meta verified = true ↔ (f.issuer = f.subject ∧ verified = true)) := by
  refine ⟨_, parseCert_encCert_encTbs f exts sa sv h, ?_⟩
  obtain ⟨hf, _, _, _⟩ := (wfCert_iff f exts sa sv).mp h
  obtain ⟨_, _, _, _, hiss, _, hsub, hspki, _, _⟩ := (wfFields_iff f).mp hf
  have e1 := isElem_full hiss
  have e2 := isElem_full hsub
  have e3 := isElem_full hspki
  refine ⟨rfl, rfl, e1, e2, e3, rfl, rfl, rfl, rfl, ?_, ?_, rfl, rfl, ?_⟩
  · show Hash.sha256 (elemAt f.spki).full = _
    rw [e3]
  · show Hash.sha256 ((elemAt f.spki).full ++ (elemAt f.subject).full) = _
    rw [e3, e2]
  · intro verified
    rw [selfsigned_iff]
    show ((elemAt f.issuer).full = (elemAt f.subject).full ∧ _) ↔ _
    rw [e1, e2]

/-- **Edge cases of the `[3] EXPLICIT` field** (zcrypto 51a5052 semantics), after any well-formed fields:
    a zero-length wrapper `A3 00` is an error; a wrapper announcing content with nothing after it (`A3 02`) is an
    error ("explicit tag has no child"); a wrapper whose content is not a SEQUENCE (`A3 02 05 00`) is NOT an error —
    the field takes its default (no extensions), nothing is consumed (`pre` is unchanged) and the bytes are
    ignored as trailing data; the empty SEQUENCE `A3 02 30 00` is accepted with no extensions. -/
theorem explicit_field_edge_cases (f : TbsFields) (hf : wfFields f = true) (hl : (encTbsPre f).length < 2147483648) :
    parseTbs (encTbsPre f ++ [0xA3, 0x00]) = .err ∧
    parseTbs (encTbsPre f ++ [0xA3, 0x02]) = .err ∧
    parseTbs (encTbsPre f ++ [0xA3, 0x02, 0x05, 0x00]) =
      .ok ⟨verInt f.version, encVersion f.version, elemAt f.serial, elemAt f.sigalg, elemAt f.issuer,
           elemAt f.validity, elemAt f.subject, elemAt f.spki, encTbsPre f, []⟩ ∧
    parseTbs (encTbsPre f ++ [0xA3, 0x02, 0x30, 0x00]) =
      .ok ⟨verInt f.version, encVersion f.version, elemAt f.serial, elemAt f.sigalg, elemAt f.issuer,
           elemAt f.validity, elemAt f.subject, elemAt f.spki, encTbsPre f, []⟩ := by
  have sw : ∀ (k : Nat) (n : UInt8) (r : Bytes), n.toNat < 128 → k ≠ 3 → startsWithout k (0xA3 :: n :: r) := by
    intro k n r hn hk
    refine Or.inr ⟨⟨2, true, 3, n.toNat⟩, r, ?_, ?_⟩
    · simp [readHdr, readLen, hn]
    · simp; omega
  refine ⟨?_, ?_, ?_, ?_⟩
  · rw [parseTbs_tail f _ hf hl (sw 1 0 [] (by decide) (by decide)) (sw 2 0 [] (by decide) (by decide))]
    rfl
  · rw [parseTbs_tail f _ hf hl (sw 1 2 [] (by decide) (by decide)) (sw 2 2 [] (by decide) (by decide))]
    rfl
  · rw [parseTbs_tail f _ hf hl (sw 1 2 _ (by decide) (by decide)) (sw 2 2 _ (by decide) (by decide))]
    rfl
  · rw [parseTbs_tail f _ hf hl (sw 1 2 _ (by decide) (by decide)) (sw 2 2 _ (by decide) (by decide))]
    rfl

/-- `Version` wraps exactly at MaxInt64 (Go's `int` addition). -/
theorem version_wraps (c : Cert) (h : c.tbs.version = 9223372036854775807) :
    c.meta.version = -9223372036854775808 := by
  show versionPlusOne c.tbs.version = _
  rw [h]; rfl

/-! ## CT invariance at BYTE level -/

/-- **End-to-end CT invariance.**  Take any canonically encoded certificate
    `encCert (encTbs f exts) sa sv` and any well-formed CT extension `ct` (poison or SCT list: `isCT`), insert its
    encoding at ANY position `i` of the extension list (also beyond the end ⇒ appended, also into the EMPTY list,
    where the `[3]` wrapper appears in the bytes) and re-assemble the certificate.  Both byte strings are accepted
    by `parseCert`, the parsed extension lists are `exts` and `insertAt i ct exts`, and the byte string
    `FingerprintNoCT` hashes — hence the fingerprint — is the same for both. -/
theorem noct_invariant_bytes (f : TbsFields) (exts : List Ext) (ct : Ext) (i : Nat) (sa sv : Bytes)
    (h : wfCert f (insertAt i ct exts) sa sv = true) (hct : isCT ct = true) :
    ∃ c c', parseCert (encCert (encTbs f exts) sa sv) = .ok c ∧
      parseCert (encCert (encTbs f (insertAt i ct exts)) sa sv) = .ok c' ∧
      c.tbs.exts = exts ∧ c'.tbs.exts = insertAt i ct exts ∧
      c'.noCT = c.noCT ∧ c'.meta.noCTFp = c.meta.noCTFp := by
  obtain ⟨hf, hx, hs, hl⟩ := (wfCert_iff _ _ _ _).mp h
  have hx0 : ∀ x ∈ exts, wfExt x = true := by
    intro x hm
    apply hx
    unfold insertAt
    rw [List.mem_append, List.mem_cons]
    rw [← List.take_append_drop i exts, List.mem_append] at hm
    rcases hm with hm | hm
    · exact Or.inl hm
    · exact Or.inr (Or.inr hm)
  have hl0 := Nat.lt_of_le_of_lt (encCert_size_mono f i ct exts sa sv) hl
  have h0 : wfCert f exts sa sv = true := (wfCert_iff _ _ _ _).mpr ⟨hf, hx0, hs, hl0⟩
  obtain ⟨c, pc, _, _, _, _, _, xc, _, _, _, _, _, nc, fc, _⟩ := meta_encCert f exts sa sv h0
  obtain ⟨c', pc', _, _, _, _, _, xc', _, _, _, _, _, nc', fc', _⟩ := meta_encCert f (insertAt i ct exts) sa sv h
  have hn := noct_invariant (encTbsPre f) exts ct hct i
  exact ⟨c, c', pc, pc', xc, xc', by rw [nc, nc', hn.1], by rw [fc, fc', hn.1]⟩

/-- the `wfCert` hypothesis of `noct_invariant_bytes`, from the base certificate: it suffices that the base is
    well-formed, the CT extension is, and the LARGER certificate stays below 2^31 octets. -/
theorem wfCert_insertAt (f : TbsFields) (exts : List Ext) (ct : Ext) (i : Nat) (sa sv : Bytes)
    (h : wfCert f exts sa sv = true) (hw : wfExt ct = true)
    (hl : (encTbs f (insertAt i ct exts) ++ sa ++ sv).length < 2147483648) :
    wfCert f (insertAt i ct exts) sa sv = true := by
  obtain ⟨hf, hx, hs, _⟩ := (wfCert_iff _ _ _ _).mp h
  refine (wfCert_iff _ _ _ _).mpr ⟨hf, ?_, hs, hl⟩
  intro x hm
  unfold insertAt at hm
  rw [List.mem_append, List.mem_cons] at hm
  rcases hm with hm | hm | hm
  · exact hx x (List.mem_of_mem_take hm)
  · rw [hm]; exact hw
  · exact hx x (List.mem_of_mem_drop hm)

/-- **What the no-CT bytes are.**  For a canonically encoded certificate they are the canonical TBS encoding
    of the same fields with the CT extensions removed and the `[3]` field always written:
    `encTbs {f with wrapEmpty := true} (exts.filter notCT)`.  So they equal `encTbs f (exts.filter notCT)` — the TBS
    of the CT-free twin — whenever a non-CT extension remains or `f` writes the empty field anyway, and they end
    in `A3 02 30 00` when nothing remains (the one case where a twin encoded WITHOUT the field differs). -/
theorem noct_is_encTbs_filtered (f : TbsFields) (exts : List Ext) :
    noCTBytes (encTbsPre f) exts = encTbs { f with wrapEmpty := true } (exts.filter notCT) ∧
    ((exts.filter notCT ≠ [] ∨ f.wrapEmpty = true) → noCTBytes (encTbsPre f) exts = encTbs f (exts.filter notCT)) ∧
    (exts.filter notCT = [] → noCTBytes (encTbsPre f) exts = writeTLV 0x30 (encTbsPre f ++ [0xA3, 0x02, 0x30, 0x00])) := by
  refine ⟨?_, ?_, ?_⟩
  · simp only [noCTBytes, encTbs, encTbsBody, encExtsField_wraps (Or.inr rfl : wraps true _)]
    rfl
  · intro hne
    simp only [noCTBytes, encTbs, encTbsBody, encExtsField_wraps (hne : wraps _ _)]
  · intro he
    simp [noCTBytes, he, extsFlat, writeTLV, encLen]

/-- **The no-CT bytes are themselves a TBS**: a SEQUENCE whose contents `parseTbs` accepts, decoding to the
    SAME fields and `pre`, and to exactly the extension list with the CT extensions removed (`[]` included, read
    back from `A3 02 30 00`).  Hence re-deriving the no-CT bytes from them gives the same bytes (idempotence). -/
theorem noct_parses (f : TbsFields) (exts : List Ext) (hf : wfFields f = true) (hx : exts.all wfExt = true)
    (hl : (noCTBytes (encTbsPre f) exts).length < 2147483648) :
    ∃ body, noCTBytes (encTbsPre f) exts = writeTLV 0x30 body ∧
      parseTbs body = .ok ⟨verInt f.version, encVersion f.version, elemAt f.serial, elemAt f.sigalg,
        elemAt f.issuer, elemAt f.validity, elemAt f.subject, elemAt f.spki, encTbsPre f, exts.filter notCT⟩ ∧
      noCTBytes (encTbsPre f) (exts.filter notCT) = noCTBytes (encTbsPre f) exts := by
  refine ⟨encTbsPre f ++ writeTLV 0xA3 (writeTLV 0x30 (extsFlat (exts.filter notCT))), rfl, ?_, noct_remove _ _⟩
  apply parseTbs_wrapped f _ hf
  · intro x hm
    have hx' : ∀ x ∈ exts, wfExt x = true := by simpa using hx
    exact hx' x (List.mem_filter.mp hm).1
  · have := length_le_writeTLV 0x30 (encTbsPre f ++ writeTLV 0xA3 (writeTLV 0x30 (extsFlat (exts.filter notCT))))
    unfold noCTBytes at hl
    omega

/-- so a canonically encoded certificate without CT extensions whose `[3]` field is present (at least one
    extension, or the empty field `A3 02 30 00` as `CreateCertificate` writes it) has
    `FingerprintNoCT = sha256 RawTBSCertificate`. -/
theorem noct_eq_tbs (f : TbsFields) (exts : List Ext) (sa sv : Bytes) (h : wfCert f exts sa sv = true)
    (hne : exts ≠ [] ∨ f.wrapEmpty = true) (hno : ∀ x ∈ exts, isCT x = false) :
    ∃ c, parseCert (encCert (encTbs f exts) sa sv) = .ok c ∧ c.noCT = c.rawTBS ∧ c.meta.noCTFp = c.meta.tbsFp := by
  obtain ⟨c, pc, _, rt, _, _, _, _, _, _, tf, _, _, nc, fc, _⟩ := meta_encCert f exts sa sv h
  have hfil : exts.filter notCT = exts := by
    rw [List.filter_eq_self]; intro x hx; simp [notCT, hno x hx]
  have := (noct_is_encTbs_filtered f exts).2.1 (by rw [hfil]; exact hne)
  rw [hfil] at this
  exact ⟨c, pc, by rw [nc, rt, this], by rw [fc, tf, this]⟩

/-- a canonically written CT extension (any criticality, any value below the size bound) is a well-formed CT
    extension — the `ct` of `noct_invariant_bytes` ranges over all of these (and over every other encoding
    `parseExt` accepts with one of the two OIDs). -/
theorem ct_ext_wf (critical : Bool) (value : Bytes) (hl : value.length < 2147483000) :
    wfExt (mkExt oidPoison critical value) = true ∧ isCT (mkExt oidPoison critical value) = true ∧
    wfExt (mkExt oidSCTList critical value) = true ∧ isCT (mkExt oidSCTList critical value) = true := by
  have b1 := (encLen_length value.length).2
  have hb : ∀ oid : Bytes, oid.length = 10 → (extBody oid critical value).length < 2147483648 := by
    intro oid ho
    have b0 := (encLen_length 10).2
    have b2 := (encLen_length 1).2
    unfold extBody
    cases critical <;>
    · simp only [List.length_append, writeTLV_length, if_true, Bool.false_eq_true, if_false, List.length_nil,
        List.length_singleton, ho]
      omega
  exact ⟨wfExt_mkExt _ _ _ validOID_poison (hb _ rfl), isCT_mkExt_poison _ _,
         wfExt_mkExt _ _ _ validOID_sctList (hb _ rfl), isCT_mkExt_sctList _ _⟩

/-! ## Which accepted certificates are canonically encoded -/

/-- **The two outer headers of every accepted certificate are canonical DER**: the input is `30 len body` and
    RawTBSCertificate is `30 len body` with the minimal length field `encLen` writes (no alternative length
    encodings are accepted), both bodies shorter than 2^31. -/
theorem accepted_outer_canonical (bs : Bytes) (c : Cert) (h : parseCert bs = .ok c) :
    bs = writeTLV 0x30 c.raw.body ∧ c.rawTBS = writeTLV 0x30 c.tbsE.body ∧
    c.raw.body.length < 2147483648 ∧ c.tbsE.body.length < 2147483648 := by
  unfold parseCert at h
  rw [bind_ok] at h; obtain ⟨⟨ce, rest⟩, hc, h⟩ := h
  split at h
  · cases h
  · rename_i hrest
    rw [bind_ok] at h; obtain ⟨⟨tbsE, r1⟩, htbsE, h⟩ := h
    rw [bind_ok] at h; obtain ⟨tbs, _, h⟩ := h
    rw [bind_ok] at h; obtain ⟨⟨sa, r2⟩, _, h⟩ := h
    rw [bind_ok] at h; obtain ⟨⟨sv, r3⟩, _, h⟩ := h
    rw [bind_ok] at h; obtain ⟨_, _, h⟩ := h
    simp only [Res.ok.injEq] at h
    subst h
    have hre : rest = [] := by simpa using hrest
    subst hre
    obtain ⟨c1, ci, ca⟩ := someElem_inv hc
    obtain ⟨_, ti, ta⟩ := someElem_inv htbsE
    obtain ⟨cc, cl⟩ := seq_canonical ci
    obtain ⟨tc, tl⟩ := seq_canonical ti
    rw [ca] at cc cl
    rw [ta] at tc tl
    simp only [List.append_nil] at c1
    exact ⟨by rw [c1]; exact cc, tc, cl, tl⟩

/-- **Exactly the accepted certificates of canonical shape are images of the encoder.**  `bs` is accepted with
    `Cert.shapeOK` (decidable on the parse result: no trailing elements after the signature, TBS contents = the
    consumed fields followed by the canonical `[3]` field of the parsed extension list, `[0]` wrapper of
    consistent length) **iff** `bs = encCert (encTbs f exts) sigalg sig` for arguments satisfying `wfCert`. -/
theorem accepted_canonical_iff (bs : Bytes) :
    (∃ c, parseCert bs = .ok c ∧ c.shapeOK = true) ↔
    (∃ f exts sa sv, wfCert f exts sa sv = true ∧ bs = encCert (encTbs f exts) sa sv) := by
  constructor
  · rintro ⟨c, h, hs⟩
    obtain ⟨f, hw, hb, _⟩ := accepted_is_encoded h hs
    exact ⟨f, _, _, _, hw, hb⟩
  · rintro ⟨f, exts, sa, sv, hw, hb⟩
    rw [hb]
    exact shapeOK_encCert f exts sa sv hw

/-- **CT invariance for accepted certificates.**  Let `bs` be ANY accepted input of canonical shape, with parse
    result `c`.  Then `bs` is `encCert (encTbs f c.exts) c.sigalg c.sigval` for some field encodings `f`, and for
    every well-formed CT extension `ct` and position `i` the re-assembled certificate with `ct` inserted at `i`
    (size still < 2^31) is accepted, has extension list `insertAt i ct c.exts`, the same Raw issuer / subject /
    SPKI, and the SAME no-CT bytes and FingerprintNoCT as `bs`. -/
theorem noct_invariant_accepted (bs : Bytes) (c : Cert) (h : parseCert bs = .ok c) (hs : c.shapeOK = true)
    (ct : Ext) (i : Nat) (hw : wfExt ct = true) (hct : isCT ct = true) :
    ∃ f, bs = encCert (encTbs f c.tbs.exts) c.sigalg.full c.sigval.full ∧
      ((encTbs f (insertAt i ct c.tbs.exts) ++ c.sigalg.full ++ c.sigval.full).length < 2147483648 →
        ∃ c', parseCert (encCert (encTbs f (insertAt i ct c.tbs.exts)) c.sigalg.full c.sigval.full) = .ok c' ∧
          c'.tbs.exts = insertAt i ct c.tbs.exts ∧
          c'.rawIssuer = c.rawIssuer ∧ c'.rawSubject = c.rawSubject ∧ c'.rawSPKI = c.rawSPKI ∧
          c'.noCT = c.noCT ∧ c'.meta.noCTFp = c.meta.noCTFp) := by
  obtain ⟨f, hwf, hb, hpre, _, _, hi, _, hsu, hsp⟩ := accepted_is_encoded h hs
  refine ⟨f, hb, ?_⟩
  intro hl
  have hwf' := wfCert_insertAt f c.tbs.exts ct i _ _ hwf hw hl
  obtain ⟨c', pc', _, _, ri, rs, rp, xc', _, _, _, _, _, nc', fc', _⟩ :=
    meta_encCert f (insertAt i ct c.tbs.exts) _ _ hwf'
  have hn := noct_invariant (encTbsPre f) c.tbs.exts ct hct i
  have e1 : c.noCT = noCTBytes (encTbsPre f) c.tbs.exts := by rw [Cert.noCT, hpre]
  have e2 : c.meta.noCTFp = Hash.sha256 (noCTBytes (encTbsPre f) c.tbs.exts) := by
    show Hash.sha256 (noCTBytes c.tbs.pre c.tbs.exts) = _
    rw [hpre]
  refine ⟨c', pc', xc', ?_, ?_, ?_, by rw [nc', e1, hn.1], by rw [fc', e2, hn.1]⟩
  · rw [ri, hi]; rfl
  · rw [rs, hsu]; rfl
  · rw [rp, hsp]; rfl

/-! ### the hypotheses are satisfiable -/

/-- a small v3 certificate skeleton: version 2, serial 1, empty SEQUENCEs for the unparsed fields, a subject
    unique id, one basicConstraints extension -/
def exFields : TbsFields :=
  { version := some [0x02, 0x01, 0x02], serial := [0x02, 0x01, 0x01], sigalg := [0x30, 0x00],
    issuer := [0x30, 0x00], validity := [0x30, 0x00], subject := [0x30, 0x00], spki := [0x30, 0x00],
    issuerUID := none, subjectUID := some [0x82, 0x02, 0x00, 0x55], wrapEmpty := false }
def exBC : Ext := mkExt [0x55, 0x1d, 0x13] true [0x30, 0x00]
def exPoison : Ext := mkExt oidPoison true [0x05, 0x00]
def exSCT : Ext := mkExt oidSCTList false [0x04, 0x02, 0x00, 0x00]

example : wfCert exFields [exBC] [0x30, 0x00] [0x03, 0x02, 0x00, 0x01] = true := by decide
example : wfCert exFields (insertAt 0 exPoison [exBC]) [0x30, 0x00] [0x03, 0x02, 0x00, 0x01] = true := by decide
example : wfCert exFields (insertAt 5 exSCT [exBC]) [0x30, 0x00] [0x03, 0x02, 0x00, 0x01] = true := by decide
/-- the empty extension list: the `[3]` wrapper appears only in the variant -/
example : wfCert exFields (insertAt 0 exPoison []) [0x30, 0x00] [0x03, 0x02, 0x00, 0x01] = true := by decide
example : encExtsField false [] = [] ∧ encExtsField false (insertAt 0 exPoison []) ≠ [] := by decide
/-- … and the variant where the base certificate carries the empty field `A3 02 30 00` -/
example : wfCert { exFields with wrapEmpty := true } (insertAt 0 exSCT []) [0x30, 0x00] [0x03, 0x02, 0x00, 0x01] = true ∧
    encExtsField true [] = [0xA3, 0x02, 0x30, 0x00] := by decide
example : isCT exPoison = true ∧ isCT exSCT = true ∧ isCT exBC = false := by decide
example : wfFields exFields = true ∧ [exBC].all wfExt = true ∧ (encTbsBody exFields [exBC]).length < 2147483648 := by
  decide
example : ∃ c, parseCert (encCert (encTbs exFields [exBC]) [0x30, 0x00] [0x03, 0x02, 0x00, 0x01]) = .ok c :=
  ⟨_, parseCert_encCert_encTbs _ _ _ _ (by decide)⟩
example : (noCTBytes (encTbsPre exFields) [exPoison, exBC, exSCT]).length < 2147483648 := by decide
example : [exPoison, exBC, exSCT].filter notCT = [exBC] ∧ [exPoison, exSCT].filter notCT = [] := by decide
example : ∃ c, parseCert (encCert (encTbs exFields [exBC]) [0x30, 0x00] [0x03, 0x02, 0x00, 0x01]) = .ok c ∧
    c.shapeOK = true := shapeOK_encCert _ _ _ _ (by decide)
example : wfExt exPoison = true ∧ wfExt exSCT = true := by decide
example : (encTbsPre exFields).length < 2147483648 := by decide
example : [exBC] ≠ [] ∧ (∀ x ∈ [exBC], isCT x = false) := by decide
example : ([0x05, 0x00] : Bytes).length < 2147483000 := by decide
example : (encTbs exFields (insertAt 0 exPoison [exBC]) ++ [0x30, 0x00] ++ [0x03, 0x02, 0x00, 0x01]).length < 2147483648 := by
  decide
/-- the byte-level CT theorem, instantiated: no extensions at all vs. a lone poison extension -/
example : ∃ c c', parseCert (encCert (encTbs exFields []) [0x30, 0x00] [0x03, 0x02, 0x00, 0x01]) = .ok c ∧
    parseCert (encCert (encTbs exFields (insertAt 0 exPoison [])) [0x30, 0x00] [0x03, 0x02, 0x00, 0x01]) = .ok c' ∧
    c'.noCT = c.noCT := by
  obtain ⟨c, c', h1, h2, _, _, h3, _⟩ :=
    noct_invariant_bytes exFields [] exPoison 0 [0x30, 0x00] [0x03, 0x02, 0x00, 0x01] (by decide) (by decide)
  exact ⟨c, c', h1, h2, h3⟩
example : ([0x30, 0x00] : Bytes) ≠ [] := by decide


/-! ## (f) The bundle entry point `ParseCertificates`

`parseCerts` (ZV.Model.C06Multi) is the model of `x509.ParseCertificates`; T2 compares it with the Go function on every
`bundle` line.  The theorems say that a bundle is parsed certificate by certificate, each exactly as `ParseCertificate`
parses it on its own bytes: nothing carries over from one certificate of a bundle to the next, and the position in the
bundle is irrelevant. -/

theorem parseCert_iff_head (bs : Bytes) (c : Cert) :
    parseCert bs = .ok c ↔ parseCertHead bs = .ok (c, []) := by
  rw [parseCert_eq_elem]
  unfold parseCertHead
  constructor
  · intro h
    rw [bind_ok] at h; obtain ⟨⟨ce, rest⟩, hc, h⟩ := h
    split at h
    · cases h
    · rename_i hrest
      have hre : rest = [] := by simpa using hrest
      subst hre
      rw [hc, res_bind_ok, h]; rfl
  · intro h
    rw [bind_ok] at h; obtain ⟨⟨ce, rest⟩, hc, h⟩ := h
    rw [bind_ok] at h; obtain ⟨x, hx, h⟩ := h
    simp at h
    obtain ⟨h1, h2⟩ := h
    subst h1; subst h2
    rw [hc, res_bind_ok]
    simpa using hx

theorem parseCertHead_append (der rest : Bytes) (c : Cert) (h : parseCert der = .ok c) :
    parseCertHead (der ++ rest) = .ok (c, rest) := by
  rw [parseCert_eq_elem] at h
  rw [bind_ok] at h; obtain ⟨⟨ce, r⟩, hc, h⟩ := h
  split at h
  · cases h
  · rename_i hrest
    have hre : r = [] := by simpa using hrest
    subst hre
    obtain ⟨hi, he⟩ := field_some_isElem (someElem_field_nil hc)
    unfold parseCertHead
    rw [someElem_field_isElem false rest hi, res_bind_ok, he]
    simp only at h
    rw [h]; rfl

theorem parseCerts_nil : parseCerts [] = .ok [] := rfl

theorem parseCerts_cons (der rest : Bytes) (c : Cert) (h : parseCert der = .ok c) :
    parseCerts (der ++ rest) = (parseCerts rest).bind fun cs => .ok (c :: cs) := by
  have hne : der ≠ [] := by
    intro e; subst e
    have := parseCertHead_rest_lt ((parseCert_iff_head _ _).1 h)
    simp at this
  unfold parseCerts
  cases hl : (der ++ rest).length with
  | zero =>
    have : der ++ rest = [] := List.eq_nil_of_length_eq_zero hl
    simp at this; exact absurd this.1 hne
  | succ n =>
    have hne' : (der ++ rest).isEmpty = false := by
      cases der with
      | nil => exact absurd rfl hne
      | cons _ _ => rfl
    simp only [parseCertsFuel, hne', Bool.false_eq_true, if_false]
    rw [parseCertHead_append der rest c h, res_bind_ok]
    simp only
    rw [parseCertsFuel_fuel n rest.length rest (by simp at hl; have := List.length_pos_iff.mpr hne; omega) (Nat.le_refl _)]


/-- what the head parser returns is a certificate that `ParseCertificate` accepts on its own bytes, and the input is
    those bytes followed by the rest -/
theorem parseCertHead_sound {bs : Bytes} {c : Cert} {rest : Bytes} (h : parseCertHead bs = .ok (c, rest)) :
    bs = c.raw.full ++ rest ∧ parseCert c.raw.full = .ok c := by
  unfold parseCertHead at h
  rw [bind_ok] at h; obtain ⟨⟨ce, r⟩, hc, h⟩ := h
  rw [bind_ok] at h; obtain ⟨x, hx, h⟩ := h
  simp at h
  obtain ⟨h1, h2⟩ := h
  subst h1; subst h2
  obtain ⟨hbs, hi, he⟩ := someElem_inv hc
  have hraw : x.raw = ce := by
    unfold parseCertElem at hx
    rw [bind_ok] at hx; obtain ⟨_, _, hx⟩ := hx
    rw [bind_ok] at hx; obtain ⟨_, _, hx⟩ := hx
    rw [bind_ok] at hx; obtain ⟨_, _, hx⟩ := hx
    rw [bind_ok] at hx; obtain ⟨_, _, hx⟩ := hx
    rw [bind_ok] at hx; obtain ⟨_, _, hx⟩ := hx
    injection hx with hx
    rw [← hx]
  rw [hraw]
  refine ⟨hbs, ?_⟩
  rw [parseCert_iff_head]
  have := someElem_field_isElem false [] hi
  rw [List.append_nil, he] at this
  unfold parseCertHead
  rw [this, res_bind_ok, hx]; rfl

/-- **A bundle parses to the list of the individual parses.**  If every `dᵢ` is accepted by `ParseCertificate` with
    result `cᵢ`, then `ParseCertificates (d₁ ‖ … ‖ dₙ)` is accepted with exactly `[c₁, …, cₙ]` — for every n, every
    order, every mixture of certificates (with / without version, unique ids, extensions). -/
theorem parseCerts_bundle : ∀ (ps : List (Bytes × Cert)), (∀ p ∈ ps, parseCert p.1 = .ok p.2) →
    parseCerts (ps.map (·.1)).flatten = .ok (ps.map (·.2)) := by
  intro ps
  induction ps with
  | nil => intro _; exact parseCerts_nil
  | cons p tl ih =>
    intro h
    rw [List.map_cons, List.flatten_cons, parseCerts_cons _ _ _ (h p (List.mem_cons_self ..)),
      ih (fun q hq => h q (List.mem_cons_of_mem _ hq))]
    rfl

/-- a single certificate through the bundle entry point -/
theorem parseCerts_single (der : Bytes) (c : Cert) (h : parseCert der = .ok c) : parseCerts der = .ok [c] := by
  have := parseCerts_bundle [(der, c)] (by simpa using h)
  simpa using this

theorem parseCertsFuel_sound : ∀ (n : Nat) (bs : Bytes) (cs : List Cert), parseCertsFuel n bs = .ok cs →
    bs = (cs.map (·.raw.full)).flatten ∧ ∀ c ∈ cs, parseCert c.raw.full = .ok c := by
  intro n
  induction n with
  | zero =>
    intro bs cs h
    simp only [parseCertsFuel] at h
    split at h
    · rename_i he
      injection h with h; subst h
      exact ⟨by simpa using he, by simp⟩
    · cases h
  | succ n ih =>
    intro bs cs h
    simp only [parseCertsFuel] at h
    split at h
    · rename_i he
      injection h with h; subst h
      exact ⟨by simpa using he, by simp⟩
    · rw [bind_ok] at h; obtain ⟨⟨c, rest⟩, hh, h⟩ := h
      rw [bind_ok] at h; obtain ⟨cs', hrec, h⟩ := h
      injection h with h; subst h
      obtain ⟨hbs, hc⟩ := parseCertHead_sound hh
      obtain ⟨hr, hall⟩ := ih rest cs' hrec
      refine ⟨?_, ?_⟩
      · rw [hbs, List.map_cons, List.flatten_cons, ← hr]
      · intro x hx
        cases hx with
        | head => exact hc
        | tail _ hm => exact hall x hm

/-- **Converse.**  Whatever `ParseCertificates` accepts is the concatenation of the `Raw` fields of the certificates it
    returns, and each returned certificate is what `ParseCertificate` returns for its own `Raw` bytes — so all
    metadata of a certificate in a bundle (`Cert.meta`: Raw fields, fingerprints, Version, no-CT bytes,
    issuer==subject) is `(parseCert Raw).meta`, a function of that certificate's bytes alone. -/
theorem parseCerts_sound (bs : Bytes) (cs : List Cert) (h : parseCerts bs = .ok cs) :
    bs = (cs.map (·.raw.full)).flatten ∧ ∀ c ∈ cs, parseCert c.raw.full = .ok c :=
  parseCertsFuel_sound _ _ _ h

/-- position independence: a certificate `der` (accepted alone with result `c`) placed after any accepted bundle `pre`
    and before any accepted bundle `post` comes out as the same `c` — whatever precedes or follows it. -/
theorem bundle_position_independent (pre post : List (Bytes × Cert)) (der : Bytes) (c : Cert)
    (hpre : ∀ p ∈ pre, parseCert p.1 = .ok p.2) (h : parseCert der = .ok c)
    (hpost : ∀ p ∈ post, parseCert p.1 = .ok p.2) :
    parseCerts ((pre.map (·.1)).flatten ++ der ++ (post.map (·.1)).flatten)
      = .ok (pre.map (·.2) ++ c :: post.map (·.2)) := by
  have := parseCerts_bundle (pre ++ (der, c) :: post) (by
    intro p hp
    rcases List.mem_append.mp hp with hp | hp
    · exact hpre p hp
    · cases hp with
      | head => exact h
      | tail _ hm => exact hpost p hm)
  simpa using this

example : ∃ cs, parseCerts (encCert (encTbs exFields [exBC]) [0x30, 0x00] [0x03, 0x02, 0x00, 0x01] ++
      encCert (encTbs exFields []) [0x30, 0x00] [0x03, 0x02, 0x00, 0x01]) = .ok cs ∧ cs.length = 2 := by
  obtain ⟨a, ha⟩ : ∃ c, parseCert (encCert (encTbs exFields [exBC]) [0x30, 0x00] [0x03, 0x02, 0x00, 0x01]) = .ok c :=
    ⟨_, parseCert_encCert_encTbs _ _ _ _ (by decide)⟩
  obtain ⟨b, hb⟩ : ∃ c, parseCert (encCert (encTbs exFields []) [0x30, 0x00] [0x03, 0x02, 0x00, 0x01]) = .ok c :=
    ⟨_, parseCert_encCert_encTbs _ _ _ _ (by decide)⟩
  refine ⟨[a, b], ?_, rfl⟩
  have := parseCerts_bundle [(_, a), (_, b)] (by
    intro p hp
    simp at hp
    rcases hp with hp | hp <;> subst hp
    · exact ha
    · exact hb)
  simp only [List.map_cons, List.map_nil, List.flatten_cons, List.flatten_nil, List.append_nil] at this
  exact this

/-! ## (g) `ParseTBSCertificate`, Validity / ValidityPeriod, the inner AlgorithmIdentifier, generated OIDs -/

/-- **`ParseTBSCertificate ∘ RawTBSCertificate`.**  For EVERY certificate `ParseCertificate` accepts,
    `ParseTBSCertificate` accepts its `RawTBSCertificate` and decodes exactly the same TBS element and the same
    `tbsCertificate` (all fields, extension list, consumed prefix): both entry points share `parseTbs`. -/
theorem parseTbsCert_of_parseCert (bs : Bytes) (c : Cert) (h : parseCert bs = .ok c) :
    parseTbsCert c.rawTBS = .ok (c.tbsE, c.tbs) := by
  unfold parseCert at h
  rw [bind_ok] at h; obtain ⟨⟨ce, rest⟩, hc, h⟩ := h
  split at h
  · cases h
  · rw [bind_ok] at h; obtain ⟨⟨tbsE, r1⟩, htbsE, h⟩ := h
    rw [bind_ok] at h; obtain ⟨tbs, htbs, h⟩ := h
    rw [bind_ok] at h; obtain ⟨⟨sa, r2⟩, _, h⟩ := h
    rw [bind_ok] at h; obtain ⟨⟨sv, r3⟩, _, h⟩ := h
    rw [bind_ok] at h; obtain ⟨_, _, h⟩ := h
    simp only [Res.ok.injEq] at h
    subst h
    simp only at htbsE htbs
    obtain ⟨_, hi, he⟩ := someElem_inv htbsE
    have s := someElem_field_isElem false [] hi
    rw [List.append_nil, he] at s
    unfold parseTbsCert Cert.rawTBS
    simp only
    rw [s, res_bind_ok]
    simp only [List.isEmpty_nil, Bool.not_true, Bool.false_eq_true, if_false]
    rw [htbs, res_bind_ok]

/-- **What `ParseTBSCertificate` reports is what `ParseCertificate` reports for the TBS-derived fields**, stated on
    the INPUT bytes: for every accepted `bs`, the slice `bs[offTbs, offTbs+len)` is accepted by
    `ParseTBSCertificate`, and the `certificate` value it builds (`Raw = RawTBSCertificate = that slice`) has the same
    RawIssuer / RawSubject / RawSubjectPublicKeyInfo, Version, SPKI / TBS / no-CT / SPKI-subject fingerprints,
    issuer = subject bit, NotBefore / NotAfter / ValidityPeriod / SignatureAlgorithmOID (`tbsInfo`); its three
    certificate fingerprints are the hashes of the TBS slice (so its SHA-256 is the TBSCertificateFingerprint). -/
theorem parseTBS_agrees_with_parseCert (bs : Bytes) (c : Cert) (h : parseCert bs = .ok c) :
    parseTbsCert (bs.extract c.offTbs (c.offTbs + c.rawTBS.length)) = .ok (c.tbsE, c.tbs) ∧
    (let x := tbsAsCert c.tbsE c.tbs
     x.raw.full = c.rawTBS ∧ x.rawTBS = c.rawTBS ∧ x.rawIssuer = c.rawIssuer ∧ x.rawSubject = c.rawSubject ∧
     x.rawSPKI = c.rawSPKI ∧ x.meta.version = c.meta.version ∧ x.meta.spkiFp = c.meta.spkiFp ∧
     x.meta.tbsFp = c.meta.tbsFp ∧ x.meta.noCTFp = c.meta.noCTFp ∧ x.meta.spkiSubjectFp = c.meta.spkiSubjectFp ∧
     x.meta.issuerEqSubject = c.meta.issuerEqSubject ∧ tbsInfo x.tbs = tbsInfo c.tbs ∧
     x.meta.fpMD5 = Hash.md5 c.rawTBS ∧ x.meta.fpSHA1 = Hash.sha1 c.rawTBS ∧ x.meta.fpSHA256 = c.meta.tbsFp) := by
  obtain ⟨_, h1, _⟩ := raw_fields_are_subslices bs c h
  rw [← h1]
  exact ⟨parseTbsCert_of_parseCert bs c h, rfl, rfl, rfl, rfl, rfl, rfl, rfl, rfl, rfl, rfl, rfl, rfl, rfl, rfl, rfl⟩

/-- the offsets `ParseTBSCertificate`'s raw fields have inside ITS `Raw` are the certificate's offsets shifted by the
    offset of the TBS inside the certificate -/
theorem tbs_offsets_shift (c : Cert) :
    c.offIssuer = c.offTbs + tbsOffIssuer c.tbsE c.tbs ∧ c.offSubject = c.offTbs + tbsOffSubject c.tbsE c.tbs ∧
    c.offSPKI = c.offTbs + tbsOffSPKI c.tbsE c.tbs := by
  simp only [Cert.offIssuer, Cert.offSubject, Cert.offSPKI, Cert.offTbsBody, Cert.offTbs, tbsOffIssuer, tbsOffSubject,
    tbsOffSPKI]
  omega

/-- `ParseTBSCertificate` rejects an accepted TBS followed by any non-empty suffix. -/
theorem parseTbsCert_trailing_rejected (t suffix : Bytes) (e : Elem) (tbs : Tbs) (h : parseTbsCert t = .ok (e, tbs))
    (hs : suffix ≠ []) : parseTbsCert (t ++ suffix) = .err := by
  unfold parseTbsCert at h
  rw [bind_ok] at h; obtain ⟨⟨ce, rest⟩, hc, h⟩ := h
  split at h
  · cases h
  · rename_i hrest
    have hre : rest = [] := by simpa using hrest
    subst hre
    obtain ⟨hi, _⟩ := field_some_isElem (someElem_field_nil hc)
    unfold parseTbsCert
    rw [someElem_field_isElem false suffix hi, res_bind_ok]
    have : (!suffix.isEmpty) = true := by cases suffix with
      | nil => exact absurd rfl hs
      | cons _ _ => rfl
    simp only [this, if_true]

/-- the hypothesis of the `parseTbsCert` theorems is satisfiable: the TBS of the example certificate is accepted -/
example : ∃ e tbs, parseTbsCert (encTbs exFields [exBC]) = .ok (e, tbs) := by
  obtain ⟨c, hc⟩ : ∃ c, parseCert (encCert (encTbs exFields [exBC]) [0x30, 0x00] [0x03, 0x02, 0x00, 0x01]) = .ok c :=
    ⟨_, parseCert_encCert_encTbs _ _ _ _ (by decide)⟩
  have h := parseTbsCert_of_parseCert _ c hc
  have hr : c.rawTBS = encTbs exFields [exBC] := by
    have := parseCert_encCert_encTbs exFields [exBC] [0x30, 0x00] [0x03, 0x02, 0x00, 0x01] (by decide)
    rw [this] at hc
    injection hc with hc
    rw [← hc]; rfl
  rw [hr] at h
  exact ⟨_, _, h⟩

/-- `Raw` of `ParseTBSCertificate`'s result is its whole input. -/
theorem parseTbsCert_raw (t : Bytes) (e : Elem) (tbs : Tbs) (h : parseTbsCert t = .ok (e, tbs)) :
    (tbsAsCert e tbs).raw.full = t ∧ (tbsAsCert e tbs).rawTBS = t := by
  unfold parseTbsCert at h
  rw [bind_ok] at h; obtain ⟨⟨ce, rest⟩, hc, h⟩ := h
  split at h
  · cases h
  · rename_i hrest
    have hre : rest = [] := by simpa using hrest
    subst hre
    rw [bind_ok] at h; obtain ⟨tb, _, h⟩ := h
    simp only [Res.ok.injEq, Prod.mk.injEq] at h
    obtain ⟨h1, h2⟩ := h
    subst h1; subst h2
    have := (someElem_inv hc).1
    simp only [List.append_nil] at this
    exact ⟨this.symm, this.symm⟩

/-! ### ValidityPeriod = NotAfter − NotBefore in seconds, saturating like `time.Duration` -/

/-- **ValidityPeriod, exact range.**  For whole-second times (every strict DER time) whose distance fits a
    `Duration` (|Δ| ≤ 9223372036 s ≈ 292 years), `ValidityPeriod = NotAfter.Unix() − NotBefore.Unix()` (negative when
    the certificate ends before it begins). -/
theorem validityPeriod_exact (nb na : Time.GoTime) (h0 : nb.nsec = 0) (h1 : na.nsec = 0)
    (hlo : -9223372036 ≤ na.unix - nb.unix) (hhi : na.unix - nb.unix ≤ 9223372036) :
    validityPeriod nb na = na.unix - nb.unix := by
  simp only [validityPeriod, timeSub, maxDuration, minDuration, h0, h1]
  split <;> split <;> (try split) <;> omega

/-- **ValidityPeriod saturates** beyond ±292 years (`Time.Sub` returns `maxDuration` / `minDuration`). -/
theorem validityPeriod_saturates (nb na : Time.GoTime) (h0 : nb.nsec = 0) (h1 : na.nsec = 0) :
    (na.unix - nb.unix > 9223372036 → validityPeriod nb na = 9223372036) ∧
    (na.unix - nb.unix < -9223372036 → validityPeriod nb na = -9223372036) := by
  simp only [validityPeriod, timeSub, maxDuration, minDuration, h0, h1]
  constructor <;> intro h <;> split <;> split <;> (try split) <;> omega

/-- for ALL pairs of times the reported period lies in [−9223372036, 9223372036] -/
theorem validityPeriod_bounded (nb na : Time.GoTime) :
    -9223372036 ≤ validityPeriod nb na ∧ validityPeriod nb na ≤ 9223372036 := by
  have hc : -9223372036854775808 ≤ timeSub na nb ∧ timeSub na nb ≤ 9223372036854775807 := by
    simp only [timeSub, maxDuration, minDuration]
    constructor <;> (repeat' split) <;> omega
  simp only [validityPeriod]
  generalize timeSub na nb = c at hc
  constructor <;> split <;> omega

example : validityPeriod ⟨0, 0, 0⟩ ⟨86400, 0, 0⟩ = 86400 := by decide
example : validityPeriod ⟨-62167219200, 0, 0⟩ ⟨253402300799, 0, 0⟩ = 9223372036 := by decide
example : validityPeriod ⟨253402300799, 0, 0⟩ ⟨-62167219200, 0, 0⟩ = -9223372036 := by decide
example : (-9223372036 : Int) ≤ (86400 : Int) - 0 ∧ (86400 : Int) - 0 ≤ 9223372036 := by decide

/-- `tbsInfo` reads NotBefore / NotAfter / ValidityPeriod off the Validity element and the OID off the INNER
    AlgorithmIdentifier, and nothing else: two certificates with the same two elements report the same values. -/
theorem tbsInfo_depends_on (a b : Tbs) (hv : a.validity = b.validity) (hs : a.sigalg = b.sigalg) :
    tbsInfo a = tbsInfo b := by
  unfold tbsInfo; rw [hv, hs]

/-- the period reported with an accepted certificate is the saturating difference of the two reported times -/
theorem tbsInfo_period (tbs : Tbs) (i : TbsInfo) (h : tbsInfo tbs = .ok i) :
    -9223372036 ≤ i.period ∧ i.period ≤ 9223372036 ∧
    ∃ nb na, parseValidity tbs.validity.body = .ok (nb, na) ∧ i.notBefore = nb.unix ∧ i.notAfter = na.unix ∧
      i.period = validityPeriod nb na := by
  unfold tbsInfo at h
  rw [bind_ok] at h; obtain ⟨⟨nb, na⟩, hv, h⟩ := h
  rw [bind_ok] at h; obtain ⟨o, _, h⟩ := h
  simp only [Res.ok.injEq] at h
  subst h
  exact ⟨(validityPeriod_bounded nb na).1, (validityPeriod_bounded nb na).2, nb, na, hv, rfl, rfl, rfl⟩

/-! ### T1: the filter OIDs and the source of SignatureAlgorithmOID, over the generated definitions -/

/-- the identifiers `parseCertificate`'s filter loop skips are, in order, the CT poison and the SCT list OID the model
    uses (`isCT`), as DER contents octets — re-checked whenever the zcrypto tree changes. -/
theorem ctFilter_generated : ZV.Generated.C06.ctFilter.map (·.2.2) = [oidPoison, oidSCTList] := by decide

theorem isCT_generated (x : Ext) : isCT x = (ZV.Generated.C06.ctFilter.map (·.2.2)).contains x.oid := by
  rw [ctFilter_generated]
  simp only [isCT, List.contains, List.elem]
  cases x.oid == oidPoison <;> cases x.oid == oidSCTList <;> rfl

/-- arcs and contents octets of every generated row agree (the model's OID decoder on the octets gives the arcs,
    the shared encoder on the arcs gives the octets) -/
theorem ctFilter_rows_consistent :
    ∀ r ∈ ZV.Generated.C06.ctFilter, parseOID r.2.2 = .ok r.2.1 ∧ encOID r.2.1 = some r.2.2 := by decide

/-- `SignatureAlgorithmOID` is assigned from the INNER AlgorithmIdentifier (what `tbsInfo` models). -/
theorem sigAlgOID_source_generated :
    ZV.Generated.C06.sigAlgOIDSource = "in.TBSCertificate.SignatureAlgorithm.Algorithm" := by decide

end ZV.C06
