import ZV.Model.C16
import ZV.Proofs.Wire
import ZV.Proofs.C16
import ZV.Proofs.C16Rd
/-!
  C16 — CT structures serialise canonically and verify soundly.

  Serialisers: `serializeSCT` / `marshalDS` model the Go functions; the Merkle tree leaf and the certificate
  chains have no serialiser in zcrypto, their encoders are the RFC 6962 formats `leafFmt.ser`, `chainFmt.ser`,
  `precertChainFmt.ser` (layout theorems `leaf_ser_x509` … pin them to bytes).  Decoders are the Go readers.
-/
namespace ZV.C16
open ZV.Wire

/-! ### round trips -/

/-- SerializeSCT output deserialises to the same SCT, consuming everything (reader semantics: any tail is left) -/
theorem sct_roundtrip (s : SCT) (bs tail : Bytes) (hid : s.logID.length = 32) (h : serializeSCT s = .ok bs) :
    deserializeSCT (bs ++ tail) = .ok (s, tail) := by
  rw [serializeSCT_eq s hid] at h
  exact lawful_sct.rt s bs tail h

theorem ds_roundtrip (ds : DS) (bs tail : Bytes) (h : marshalDS ds = .ok bs) :
    unmarshalDS (bs ++ tail) = .ok (ds, tail) := by
  rw [marshalDS_eq] at h
  exact lawful_ds.rt ds bs tail h

theorem leaf_roundtrip (l : Leaf) (bs : Bytes) (h : leafFmt.ser l = .ok bs) :
    readMerkleTreeLeaf bs = .ok (l, []) := lawful_leaf.roundtrip l bs h

theorem chain_roundtrip (certs : List Bytes) (bs : Bytes) (h : chainFmt.ser certs = .ok bs) :
    unmarshalX509Chain bs = .ok (certs, []) := lawful_chain.roundtrip certs bs h

theorem precert_chain_roundtrip (certs : List Bytes) (bs : Bytes) (h : precertChainFmt.ser certs = .ok bs) :
    unmarshalPrecertChain bs = .ok (certs, []) := lawful_precertChain.roundtrip certs bs h

/-! ### "fails with an error or round-trips" (D14: false before the fix for |signature| > 65535) -/

theorem ds_ser_err_or_roundtrip (ds : DS) :
    marshalDS ds = .err ∨ ∃ bs, marshalDS ds = .ok bs ∧ unmarshalDS bs = .ok (ds, []) := by
  rw [marshalDS_eq]; exact lawful_ds.err_or_roundtrip ds

theorem sct_ser_err_or_roundtrip (s : SCT) (hid : s.logID.length = 32) :
    serializeSCT s = .err ∨ ∃ bs, serializeSCT s = .ok bs ∧ deserializeSCT bs = .ok (s, []) := by
  rw [serializeSCT_eq s hid]; exact lawful_sct.err_or_roundtrip s

theorem leaf_ser_err_or_roundtrip (l : Leaf) :
    leafFmt.ser l = .err ∨ ∃ bs, leafFmt.ser l = .ok bs ∧ readMerkleTreeLeaf bs = .ok (l, []) :=
  lawful_leaf.err_or_roundtrip l

theorem chain_ser_err_or_roundtrip (certs : List Bytes) :
    chainFmt.ser certs = .err ∨ ∃ bs, chainFmt.ser certs = .ok bs ∧ unmarshalX509Chain bs = .ok (certs, []) :=
  lawful_chain.err_or_roundtrip certs

/-- the error is exactly the over-long signature -/
theorem ds_ser_err_iff (ds : DS) : marshalDS ds = .err ↔ ds.sig.length > 65535 := by
  simp only [marshalDS, marshalDSHere]
  by_cases h : ds.sig.length > 65535 <;> simp [h]

theorem sct_ser_err_iff (s : SCT) :
    serializeSCT s = .err ↔ s.version ≠ 0 ∨ s.ext.length > 65535 ∨ s.sig.sig.length > 65535 := by
  simp only [serializeSCT, serializeSCTHere, serializedLength, marshalDSHere]
  by_cases hv : s.version = 0
  · by_cases he : s.ext.length > 65535
    · simp [hv, he]
    · by_cases hs : s.sig.sig.length > 65535 <;> simp [hv, he, hs]
  · have : (s.version != 0) = true := by simpa using hv
    simp [this, hv]

/-! ### lengths and layouts -/

/-- the number of bytes SerializeSCT produces is what SerializedLength reports -/
theorem sct_len (s : SCT) (bs : Bytes) (hid : s.logID.length = 32) (h : serializeSCT s = .ok bs) :
    serializedLength s = .ok bs.length := by
  simp only [serializeSCT, serializeSCTHere, serializedLength, marshalDSHere] at h ⊢
  by_cases hv : s.version = 0
  · simp only [hv] at h ⊢
    by_cases he : s.ext.length > 65535
    · simp [he] at h
    · by_cases hs : s.sig.sig.length > 65535
      · simp [he, hs] at h
      · simp [he, hs] at h
        subst h
        simp [beBytes_length, hid]
        omega
  · have : (s.version != 0) = true := by simpa using hv
    simp [this] at h

/-- byte layout of a serialised SCT (RFC 6962 §3.2) -/
theorem sct_ser_layout (s : SCT) (bs : Bytes) (h : serializeSCT s = .ok bs) :
    bs = [0] ++ s.logID ++ be8 s.timestamp.toNat ++ be2 s.ext.length ++ s.ext ++
          [s.sig.hash, s.sig.alg] ++ be2 s.sig.sig.length ++ s.sig.sig := by
  simp only [serializeSCT, serializeSCTHere, serializedLength, marshalDSHere] at h
  by_cases hv : s.version = 0
  · simp only [hv] at h
    by_cases he : s.ext.length > 65535
    · simp [he] at h
    · by_cases hs : s.sig.sig.length > 65535
      · simp [he, hs] at h
      · simp [he, hs] at h
        subst h
        simp [beBytes8, beBytes2]
  · have : (s.version != 0) = true := by simpa using hv
    simp [this] at h

/-- RFC 6962 §3.2: the digitally-signed input of an SCT over an X.509 entry -/
def rfcCertInput (ts : Nat) (cert ext : Bytes) : Bytes :=
  [0] ++ [0] ++ be8 ts ++ [0, 0] ++ be3 cert.length ++ cert ++ be2 ext.length ++ ext
/-- … over a precertificate entry -/
def rfcPrecertInput (ts : Nat) (ikh tbs ext : Bytes) : Bytes :=
  [0] ++ [0] ++ be8 ts ++ [0, 1] ++ ikh ++ be3 tbs.length ++ tbs ++ be2 ext.length ++ ext
/-- RFC 6962 §3.5: the digitally-signed input of an STH -/
def rfcSTHInput (ts size : Nat) (root : Bytes) : Bytes :=
  [0] ++ [1] ++ be8 ts ++ be8 size ++ root

/-- SerializeSCTSignatureInput succeeds exactly on V1 SCTs over timestamped X.509 / precert entries within the
    RFC's size bounds, and then yields the RFC 6962 concatenation byte for byte. -/
theorem sct_input_layout (version : UInt8) (ts : UInt64) (e : GoLeaf) (bs : Bytes) :
    sctSignatureInput version ts e = .ok bs ↔
      version = 0 ∧ e.leafType = 0 ∧ e.ext.length ≤ 65535 ∧
      ((e.entryType = 0 ∧ 1 ≤ e.x509.length ∧ e.x509.length ≤ 16777215 ∧ bs = rfcCertInput ts.toNat e.x509 e.ext) ∨
       (e.entryType = 1 ∧ 1 ≤ e.tbs.length ∧ e.tbs.length ≤ 16777215 ∧ bs = rfcPrecertInput ts.toNat e.ikh e.tbs e.ext)) := by
  unfold sctSignatureInput
  by_cases hv : version = 0
  rotate_left
  · have : (version != 0) = true := by simpa using hv
    simp [this, hv]
  by_cases hl : e.leafType = 0
  rotate_left
  · have : (e.leafType != 0) = true := by simpa using hl
    simp [this, hv, hl]
  simp only [hv, hl, bne_self_eq_false, Bool.false_eq_true, if_false, true_and]
  by_cases h0 : e.entryType = 0
  · have h01 : ¬ e.entryType = 1 := by rw [h0]; decide
    simp only [h0, beq_self_eq_true, if_true, certSCTInput, checkCert, checkExt, writeVarBytes, opaque3_ser, opaque2_ser_lt]
    by_cases hc0 : e.x509.length = 0
    · simp [hc0]
    by_cases hc1 : e.x509.length > 16777215
    · simp [hc0, hc1]; omega
    by_cases he : e.ext.length > 65535
    · simp [hc0, hc1, he]; omega
    have hc2 : e.x509.length < 16777216 := by omega
    have he2 : e.ext.length < 65536 := by omega
    simp [hc0, hc1, he, hc2, he2, rfcCertInput, beBytes8, beBytes2, be2]
    constructor
    · intro h; exact ⟨by omega, by omega, by omega, h.symm⟩
    · intro h; exact h.2.2.2.symm
  · by_cases h1 : e.entryType = 1
    · have h10 : (e.entryType == 0) = false := by rw [h1]; decide
      simp only [h1, h10, Bool.false_eq_true, if_false, beq_self_eq_true, if_true, precertSCTInput, checkCert, checkExt,
        writeVarBytes, opaque3_ser, opaque2_ser_lt]
      by_cases hc0 : e.tbs.length = 0
      · simp [hc0]
      by_cases hc1 : e.tbs.length > 16777215
      · simp [hc0, hc1]; omega
      by_cases he : e.ext.length > 65535
      · simp [hc0, hc1, he]; omega
      have hc2 : e.tbs.length < 16777216 := by omega
      have he2 : e.ext.length < 65536 := by omega
      simp [hc0, hc1, he, hc2, he2, rfcPrecertInput, beBytes8, beBytes2, be2]
      constructor
      · intro h; exact ⟨by omega, by omega, by omega, h.symm⟩
      · intro h; exact h.2.2.2.symm
    · have h00 : (e.entryType == 0) = false := by simpa using h0
      have h11 : (e.entryType == 1) = false := by simpa using h1
      simp [h00, h11, h0, h1]

theorem sth_input_layout (s : STH) (bs : Bytes) :
    sthSignatureInput s = .ok bs ↔ s.version = 0 ∧ bs = rfcSTHInput s.timestamp.toNat s.treeSize.toNat s.rootHash := by
  unfold sthSignatureInput rfcSTHInput
  by_cases hv : s.version = 0
  · simp [hv, beBytes8]
    exact ⟨fun h => h.symm, fun h => h.symm⟩
  · have : (s.version != 0) = true := by simpa using hv
    simp [this, hv]

/-- layout of the RFC leaf encoding that ReadMerkleTreeLeaf inverts (X.509 entry) -/
theorem leaf_ser_x509 (ts : UInt64) (cert ext : Bytes) (hc : cert.length < 16777216) (he : ext.length < 65536) :
    leafFmt.ser ⟨0, 0, ts, .x509 cert, ext⟩ =
      .ok ([0] ++ [0] ++ be8 ts.toNat ++ [0, 0] ++ be3 cert.length ++ cert ++ be2 ext.length ++ ext) := by
  simp [leafFmt, iso, pair, Wire.guard, dep, entryBody, piso, Entry.tag, u8_ser, u64_ser, opaque3_ser, opaque2_ser_lt, hc, he,
    u16, uintBE, beBytes8, beBytes2, be2]

theorem leaf_ser_precert (ts : UInt64) (ikh tbs ext : Bytes) (hk : ikh.length = 32) (hc : tbs.length < 16777216)
    (he : ext.length < 65536) :
    leafFmt.ser ⟨0, 0, ts, .precert ikh tbs, ext⟩ =
      .ok ([0] ++ [0] ++ be8 ts.toNat ++ [0, 1] ++ ikh ++ be3 tbs.length ++ tbs ++ be2 ext.length ++ ext) := by
  simp [leafFmt, iso, pair, Wire.guard, dep, entryBody, piso, Entry.tag, u8_ser, u64_ser, opaque3_ser, opaque2_ser_lt, hc, he,
    u16, uintBE, beBytes8, beBytes2, be2, bytesN, hk]

/-! ### the verifier's decision logic (signature primitives abstract) -/

/-- "its signature by the log key covers that input": SHA-256 hash id, and the primitive of the key's own type
    applied to the SHA-256 digest of exactly that input -/
def sigValid (p : Prims) (data : Bytes) (sig : DS) : Prop :=
  sig.hash = 4 ∧
  ((sig.alg = 1 ∧ p.kind = .rsa ∧ p.rsaVerify (ZV.Hash.sha256 data) sig.sig = true) ∨
   (sig.alg = 3 ∧ p.kind = .ecdsa ∧ p.ecdsaVerify (ZV.Hash.sha256 data) sig.sig = true))

theorem u8_toNat_ne {b c : UInt8} (h : b ≠ c) : b.toNat ≠ c.toNat := fun e => h (UInt8.toNat_inj.mp e)

theorem u8_beq_lit (b c : UInt8) (n : Nat) (hc : c.toNat = n) : (b.toNat == n) = (b == c) := by
  subst hc
  by_cases e : b = c
  · subst e; simp
  · have := u8_toNat_ne e
    rw [beq_eq_false_iff_ne.mpr this, beq_eq_false_iff_ne.mpr e]

/-- verifySignature with the generated enum values unfolded to the RFC 5246 numbers -/
theorem verifySignature_lit (p : Prims) (data : Bytes) (sig : DS) :
    verifySignature p data sig =
      if sig.hash != 4 then .err
      else if sig.alg == 1 then
        (match p.kind with
         | .rsa => if p.rsaVerify (ZV.Hash.sha256 data) sig.sig then .ok () else .err
         | .ecdsa => .err)
      else if sig.alg == 3 then
        (match p.kind with
         | .ecdsa => if p.ecdsaVerify (ZV.Hash.sha256 data) sig.sig then .ok () else .err
         | .rsa => .err)
      else .err := by
  unfold verifySignature
  have e4 := u8_beq_lit sig.hash 4 4 (by decide)
  have e1 := u8_beq_lit sig.alg 1 1 (by decide)
  have e3 := u8_beq_lit sig.alg 3 3 (by decide)
  simp only [bne, Gen.hashSHA256, Gen.sigRSA, Gen.sigECDSA, e4, e1, e3]
  rfl

theorem verify_iff (p : Prims) (data : Bytes) (sig : DS) :
    verifySignature p data sig = .ok () ↔ sigValid p data sig := by
  rw [verifySignature_lit]
  unfold sigValid
  by_cases hh : sig.hash = 4
  rotate_left
  · have : (sig.hash != 4) = true := by simpa using hh
    simp [this, hh]
  simp only [hh, bne_self_eq_false, Bool.false_eq_true, if_false, true_and]
  by_cases h1 : sig.alg = 1
  · have h13 : ¬ (1 : UInt8) = 3 := by decide
    simp only [h1, beq_self_eq_true, if_true, h13, false_and, or_false, true_and]
    cases p.kind <;> by_cases hv : p.rsaVerify (ZV.Hash.sha256 data) sig.sig = true <;> simp [hv]
  · have h1' : (sig.alg == 1) = false := by simpa using h1
    by_cases h3 : sig.alg = 3
    · simp only [h1', Bool.false_eq_true, if_false, h3, beq_self_eq_true, if_true, h1, false_and, false_or, true_and]
      have : ¬ (3 : UInt8) = 1 := by decide
      simp only [this, false_and, false_or]
      cases p.kind <;> by_cases hv : p.ecdsaVerify (ZV.Hash.sha256 data) sig.sig = true <;> simp [hv]
    · have h3' : (sig.alg == 3) = false := by simpa using h3
      simp [h1', h3', h1, h3]

/-- VerifySCTSignature accepts exactly when the signature input is defined and the log key's signature covers it -/
theorem verify_sct_iff (p : Prims) (version : UInt8) (ts : UInt64) (sig : DS) (e : GoLeaf) :
    verifySCT p version ts sig e = .ok () ↔
      ∃ data, sctSignatureInput version ts e = .ok data ∧ sigValid p data sig := by
  unfold verifySCT
  cases h : sctSignatureInput version ts e with
  | ok data => simp [verify_iff]
  | err => simp
  | panic => simp

theorem verify_sth_iff (p : Prims) (s : STH) (sig : DS) :
    verifySTH p s sig = .ok () ↔ ∃ data, sthSignatureInput s = .ok data ∧ sigValid p data sig := by
  unfold verifySTH
  cases h : sthSignatureInput s with
  | ok data => simp [verify_iff]
  | err => simp
  | panic => simp


/-! ### NewSignatureVerifier: which log keys get a verifier -/

/-- RFC 6962 §2.1.4 key compliance as coded: RSA of at least `minRSABits` (2048, T1) bits, or ECDSA on the
    standard library's P-256 -/
def compliant : Key → Prop
  | .rsa (some bits) => Gen.minRSABits ≤ bits
  | .ecdsa (some c) => c = .p256
  | _ => False

/-- a key whose inspected fields can be read without a nil dereference -/
def wellFormed : Key → Prop
  | .rsa none | .rsaNil | .ecdsa none | .ecdsaNil => False
  | _ => True

def keyKind : Key → Option KeyKind
  | .rsa _ | .rsaNil => some .rsa
  | .ecdsa _ | .ecdsaNil => some .ecdsa
  | .other => none

/-- with the switch off (the only value the package can have: the variable is unexported and never assigned)
    a verifier is created exactly for compliant keys, and it holds a key of that kind -/
theorem nsv_ok_iff (k : Key) (kk : KeyKind) :
    newSignatureVerifier false k = .ok kk ↔ compliant k ∧ keyKind k = some kk := by
  cases k with
  | rsa b =>
    cases b with
    | none => simp [newSignatureVerifier, compliant]
    | some bits =>
      by_cases h : bits < Gen.minRSABits
      · simp [newSignatureVerifier, compliant, keyKind, h]; omega
      · simp [newSignatureVerifier, compliant, keyKind, h]
        intro _; omega
  | rsaNil => simp [newSignatureVerifier, compliant]
  | ecdsa c =>
    cases c with
    | none => simp [newSignatureVerifier, compliant]
    | some c => cases c <;> simp [newSignatureVerifier, compliant, keyKind]
  | ecdsaNil => simp [newSignatureVerifier, compliant]
  | other => simp [newSignatureVerifier, compliant]

/-- with the switch on, every well-formed RSA / ECDSA key is taken; other types never are -/
theorem nsv_allow_ok_iff (k : Key) (kk : KeyKind) :
    newSignatureVerifier true k = .ok kk ↔ wellFormed k ∧ keyKind k = some kk := by
  cases k with
  | rsa b =>
    cases b with
    | none => simp [newSignatureVerifier, wellFormed]
    | some bits => by_cases h : bits < Gen.minRSABits <;> simp [newSignatureVerifier, wellFormed, keyKind, h]
  | rsaNil => simp [newSignatureVerifier, wellFormed]
  | ecdsa c =>
    cases c with
    | none => simp [newSignatureVerifier, wellFormed]
    | some c => cases c <;> simp [newSignatureVerifier, wellFormed, keyKind]
  | ecdsaNil => simp [newSignatureVerifier, wellFormed]
  | other => simp [newSignatureVerifier, wellFormed, keyKind]

/-- NewSignatureVerifier panics exactly on the four nil shapes -/
theorem nsv_panic_iff (allow : Bool) (k : Key) : newSignatureVerifier allow k = .panic ↔ ¬ wellFormed k := by
  cases k with
  | rsa b =>
    cases b with
    | none => simp [newSignatureVerifier, wellFormed]
    | some bits => by_cases h : bits < Gen.minRSABits <;> cases allow <;> simp [newSignatureVerifier, wellFormed, h]
  | rsaNil => simp [newSignatureVerifier, wellFormed]
  | ecdsa c =>
    cases c with
    | none => simp [newSignatureVerifier, wellFormed]
    | some c => cases c <;> cases allow <;> simp [newSignatureVerifier, wellFormed]
  | ecdsaNil => simp [newSignatureVerifier, wellFormed]
  | other => simp [newSignatureVerifier, wellFormed]

/-- end to end: a verifier obtained for log key `k` accepts an SCT exactly when the key is compliant and the
    signature — made with the primitive of that key's kind over the SHA-256 digest of the RFC 6962 input — verifies -/
theorem nsv_verify_sct_iff (k : Key) (kk : KeyKind) (rv ev : Bytes → Bytes → Bool) (version : UInt8) (ts : UInt64)
    (sig : DS) (e : GoLeaf) (hk : newSignatureVerifier false k = .ok kk) :
    verifySCT ⟨kk, rv, ev⟩ version ts sig e = .ok () ↔
      compliant k ∧ ∃ data, sctSignatureInput version ts e = .ok data ∧ sigValid ⟨kk, rv, ev⟩ data sig := by
  rw [verify_sct_iff]
  have := (nsv_ok_iff k kk).mp hk
  exact ⟨fun h => ⟨this.1, h⟩, fun h => h.2⟩

/-! ### T1: the constants the models are written with are the ones in the tree -/

theorem gen_prefix_sizes :
    Gen.certificateLengthBytes = 3 ∧ Gen.preCertificateLengthBytes = 3 ∧ Gen.certificateChainLengthBytes = 3 ∧
    Gen.extensionsLengthBytes = 2 ∧ Gen.signatureLengthBytes = 2 ∧
    Gen.xSignatureLengthBytes = Gen.signatureLengthBytes ∧ Gen.xExtensionsLengthBytes = Gen.extensionsLengthBytes := by decide

/-- the size limits are exactly what the length prefixes can express, so a checked value always serialises -/
theorem gen_limits_fit :
    Gen.maxCertificateLength = 256 ^ Gen.certificateLengthBytes - 1 ∧
    Gen.maxExtensionsLength = 256 ^ Gen.extensionsLengthBytes - 1 := by decide

theorem gen_enums :
    Gen.v1 = 0 ∧ Gen.xV1 = 0 ∧ Gen.x509LogEntryType = 0 ∧ Gen.precertLogEntryType = 1 ∧ Gen.timestampedEntryLeafType = 0 ∧
    Gen.certificateTimestampSignatureType = 0 ∧ Gen.treeHashSignatureType = 1 ∧
    Gen.hashSHA256 = 4 ∧ Gen.sigRSA = 1 ∧ Gen.sigECDSA = 3 ∧ Gen.issuerKeyHashLength = 32 ∧ Gen.sha256HashLength = 32 ∧
    Gen.minRSABits = 2048 := by decide

/-- SerializedLength's literal part is the fixed part of the SCT format: version, log id, timestamp and the two
    length prefixes plus the two algorithm bytes -/
theorem gen_sct_fixed_len :
    Gen.sctFixedLen = 1 + Gen.sha256HashLength + 8 + Gen.extensionsLengthBytes + 2 + Gen.signatureLengthBytes ∧
    Gen.sctVarTerms = 2 ∧ ∀ s : SCT, s.version = 0 → serializedLength s = .ok (Gen.sctFixedLen + s.ext.length + s.sig.sig.length) := by
  refine ⟨by decide, by decide, ?_⟩
  intro s hv
  simp [serializedLength, hv, Gen.sctFixedLen]
  omega

/-- the two packages name the DigitallySigned algorithm ids identically -/
theorem gen_twin_names :
    Gen.hashNames.all (fun r => r.2.1 == r.2.2) = true ∧ Gen.sigNames.all (fun r => r.2.1 == r.2.2) = true := by decide

theorem checkCert_gen (c : Bytes) : checkCert c = (decide (1 ≤ c.length) && decide (c.length ≤ Gen.maxCertificateLength)) := by
  simp only [checkCert, Gen.maxCertificateLength]
  by_cases h0 : c.length = 0
  · simp [h0]
  · by_cases h1 : c.length > 16777215
    · have : ¬ c.length ≤ 16777215 := by omega
      simp [h0, h1, this]
    · have : c.length ≤ 16777215 := by omega
      have h3 : 1 ≤ c.length := by omega
      simp [h0, h1, this, h3]

/-! ### SerializeSCTHere / marshalDigitallySignedHere with a caller-supplied buffer -/

/-- a buffer changes nothing but the ErrNotEnoughBuffer case -/
theorem sct_here (s : SCT) (n : Nat) (hv : s.version = 0) :
    serializeSCTHere s (some n) =
      if n < 47 + s.ext.length + s.sig.sig.length then .err else serializeSCT s := by
  simp only [serializeSCT, serializeSCTHere, serializedLength, hv]
  by_cases h : n < 47 + s.ext.length + s.sig.sig.length
  · have : n < 1 + 32 + 8 + 2 + s.ext.length + 2 + 2 + s.sig.sig.length := by omega
    simp [h, this]
  · have : ¬ n < 1 + 32 + 8 + 2 + s.ext.length + 2 + 2 + s.sig.sig.length := by omega
    simp [h, this]

theorem ds_here (ds : DS) (n : Nat) :
    marshalDSHere ds (some n) = if ds.sig.length > 65535 then .err else if n < 4 + ds.sig.length then .err else marshalDS ds := by
  simp only [marshalDS, marshalDSHere]
  by_cases h : ds.sig.length > 65535
  · simp [h]
  · by_cases h2 : n < 4 + ds.sig.length
    · have : n < 2 + 2 + ds.sig.length := by omega
      simp [h, h2, this]
    · have : ¬ n < 2 + 2 + ds.sig.length := by omega
      simp [h, h2, this]

/-! ### the reader layer: any chunking of the same bytes gives the same result -/

/-- io.ReadFull on a failure-free reader holding at least n bytes returns the first n, whatever the chunking,
    and leaves exactly the rest -/
theorem readFull_chunking (s : Script) (n : Nat) (hs : noFail s = true) (hn : n ≤ (flat s).length) :
    (readFull s n []).1 = .ok ((flat s).take n) ∧ flat (readFull s n []).2 = (flat s).drop n := by
  have := readFull_ok s n [] hs hn
  exact ⟨by simpa using this.1, this.2.1⟩

/-- … and on fewer bytes fails with io.EOF when there are none and io.ErrUnexpectedEOF otherwise -/
theorem readFull_short_class (s : Script) (n : Nat) (hs : noFail s = true) (hn : (flat s).length < n) :
    (readFull s n []).1 = .fail (if (flat s).isEmpty then .eof else .uexp) := by
  have := readFull_short s n [] hs hn
  simpa using this

/-- readVarBytes on a bytes.Reader = the wire engine's opaque<…> parser; its only io.EOF is a missing or partial
    length field, a short body is the distinct "short read" error -/
theorem readVarBytesB_classes (k : Nat) (bs : Bytes) (hk : 0 < k) (hk8 : k ≤ 8) :
    erase (readVarBytesB k bs) = (opaqueBE k).par bs ∧
    (readVarBytesB k bs = .fail .eof ↔ bs.length < k) ∧
    (readVarBytesB k bs = .fail .short ↔ k ≤ bs.length ∧ bs.length - k < beVal (bs.take k)) := by
  refine ⟨readVarBytesB_erase k bs hk hk8, ?_, ?_⟩
  · have h1 : ¬ k > 8 := by omega
    have h2 : ¬ k = 0 := by omega
    simp only [readVarBytesB, h1, h2, if_false]
    by_cases hl : bs.length < k
    · simp [hl]
    · by_cases hb : bs.length - k < beVal (bs.take k) <;> simp [hl, hb, List.length_drop]
  · have h1 : ¬ k > 8 := by omega
    have h2 : ¬ k = 0 := by omega
    simp only [readVarBytesB, h1, h2, if_false]
    by_cases hl : bs.length < k
    · simp [hl]; omega
    · by_cases hb : bs.length - k < beVal (bs.take k)
      · simp [hl, hb, List.length_drop]; omega
      · simp [hl, hb, List.length_drop]

/-- the error-class loop of readASN1CertList is the loop the chain decoder model uses -/
theorem certLoop_refines (bs : Bytes) : erase (certLoopB 3 bs) = parseEntries 3 bs :=
  certLoopB_erase 3 bs (by decide) (by decide)

/-! ### unknown entry types -/

/-- every LogEntryType other than x509_entry / precert_entry is rejected by the leaf reader, whatever follows -/
theorem leaf_unknown_type (ts : UInt64) (t : UInt16) (tail : Bytes) (h0 : t ≠ 0) (h1 : t ≠ 1) (bs : Bytes)
    (ht : u16.ser t = .ok bs) :
    readMerkleTreeLeaf ([0] ++ [0] ++ beBytes 8 ts.toNat ++ bs ++ tail) = .err := by
  have r1 := lawful_u8.rt 0 [0] ([0] ++ beBytes 8 ts.toNat ++ bs ++ tail) (u8_ser 0)
  have r2 := lawful_u8.rt 0 [0] (beBytes 8 ts.toNat ++ bs ++ tail) (u8_ser 0)
  have r3 := lawful_u64.rt ts _ (bs ++ tail) (u64_ser ts)
  have r4 := lawful_u16.rt t bs tail ht
  have e0 : (t == 0) = false := by simpa using h0
  have e1 : (t == 1) = false := by simpa using h1
  simp only [List.append_assoc] at r1 r2 r3 ⊢
  simp only [readMerkleTreeLeaf, leafFmt, iso, pair, Wire.guard, dep]
  rw [r1]
  simp only [beq_self_eq_true, if_true]
  rw [r2]
  simp only [beq_self_eq_true, if_true]
  rw [r3]
  simp only []
  rw [r4]
  simp [entryBody, e0, e1, fail]

/-! ### decoders are total and never read beyond their input -/

theorem decoders_no_panic (bs : Bytes) :
    deserializeSCT bs ≠ .panic ∧ unmarshalDS bs ≠ .panic ∧ readMerkleTreeLeaf bs ≠ .panic ∧
    unmarshalX509Chain bs ≠ .panic ∧ unmarshalPrecertChain bs ≠ .panic :=
  ⟨lawful_sct.parNoPanic bs, lawful_ds.parNoPanic bs, lawful_leaf.parNoPanic bs, lawful_chain.parNoPanic bs,
   lawful_precertChain.parNoPanic bs⟩

/-! ### non-vacuity -/
example : ∃ s : SCT, s.logID.length = 32 ∧ ∃ bs, serializeSCT s = .ok bs :=
  ⟨⟨0, List.replicate 32 7, 5, [1, 2], ⟨4, 3, [9]⟩⟩, by decide, _, rfl⟩
example : ∃ ds bs, marshalDS ds = .ok bs := ⟨⟨4, 3, [1, 2, 3]⟩, _, rfl⟩
example : ∃ l bs, leafFmt.ser l = .ok bs ∧ bs.length = 21 :=
  ⟨⟨0, 0, 5, .x509 [1, 2, 3], [7]⟩, _, leaf_ser_x509 5 [1, 2, 3] [7] (by decide) (by decide), by simp [be8, be3, be2]⟩
example : (chainFmt.ser [[1, 2], [], [3]]).isOk = true := by decide
example : (precertChainFmt.ser [[1, 2], [3]]).isOk = true := by decide
example : ∃ p data sig, sigValid p data sig := ⟨⟨.ecdsa, fun _ _ => false, fun _ _ => true⟩, [], ⟨4, 3, []⟩, by simp [sigValid]⟩
example : ∃ ds : DS, ds.sig.length > 65535 :=
  ⟨⟨4, 3, List.replicate 65536 0⟩, by show (List.replicate 65536 (0 : UInt8)).length > 65535; rw [List.length_replicate]; decide⟩

example : ∃ k kk, newSignatureVerifier false k = .ok kk := ⟨.ecdsa (some .p256), .ecdsa, by decide⟩
example : ∃ k, compliant k ∧ keyKind k = some .rsa := ⟨.rsa (some 2048), by simp [compliant, Gen.minRSABits], rfl⟩
example : ∃ k, wellFormed k ∧ ¬ compliant k := ⟨.ecdsa (some .copy), trivial, by simp [compliant]⟩
example : ∃ s : Script, noFail s = true ∧ 3 ≤ (flat s).length := ⟨[.data [1], .data [], .data [2, 3, 4]], by decide, by decide⟩
example : ∃ s : Script, noFail s = true ∧ (flat s).length < 3 := ⟨[.data [1]], by decide, by decide⟩
example : ∃ (t : UInt16) (bs : Bytes), t ≠ 0 ∧ t ≠ 1 ∧ u16.ser t = .ok bs := ⟨2, [0, 2], by decide, by decide, by decide⟩
example : ∃ s : SCT, s.version = 0 := ⟨⟨0, [], 0, [], ⟨4, 3, []⟩⟩, rfl⟩

end ZV.C16
