import ZV.Model.C16
import ZV.Proofs.Wire
import ZV.Proofs.C16
/-!
  C16 — CT structures serialise canonically and verify soundly.

  Serialisers: `serializeSCT` / `marshalDS` model the Go functions; the Merkle tree leaf and the certificate
  chains have no serialiser in zcrypto, their encoders are the RFC 6962 formats `leafFmt.ser`, `chainFmt.ser`,
  `precertChainFmt.ser` (layout theorems `leaf_ser_x509` … pin them to bytes).  Decoders are the Go readers.
-/
namespace ZV.C16
open ZV.Wire

/-! ### round trips -/

/-- SerializeSCT output deserialises to the same SCT, consuming everything (reader semantics: any tail is left) -/
theorem sct_roundtrip (s : SCT) (bs tail : Bytes) (hid : s.logID.length = 32) (h : serializeSCT s = .ok bs) :
    deserializeSCT (bs ++ tail) = .ok (s, tail) := by
  rw [serializeSCT_eq s hid] at h
  exact lawful_sct.rt s bs tail h

theorem ds_roundtrip (ds : DS) (bs tail : Bytes) (h : marshalDS ds = .ok bs) :
    unmarshalDS (bs ++ tail) = .ok (ds, tail) := by
  rw [marshalDS_eq] at h
  exact lawful_ds.rt ds bs tail h

theorem leaf_roundtrip (l : Leaf) (bs : Bytes) (h : leafFmt.ser l = .ok bs) :
    readMerkleTreeLeaf bs = .ok (l, []) := lawful_leaf.roundtrip l bs h

theorem chain_roundtrip (certs : List Bytes) (bs : Bytes) (h : chainFmt.ser certs = .ok bs) :
    unmarshalX509Chain bs = .ok (certs, []) := lawful_chain.roundtrip certs bs h

theorem precert_chain_roundtrip (certs : List Bytes) (bs : Bytes) (h : precertChainFmt.ser certs = .ok bs) :
    unmarshalPrecertChain bs = .ok (certs, []) := lawful_precertChain.roundtrip certs bs h

/-! ### "fails with an error or round-trips" (D14: false before the fix for |signature| > 65535) -/

theorem ds_ser_err_or_roundtrip (ds : DS) :
    marshalDS ds = .err ∨ ∃ bs, marshalDS ds = .ok bs ∧ unmarshalDS bs = .ok (ds, []) := by
  rw [marshalDS_eq]; exact lawful_ds.err_or_roundtrip ds

theorem sct_ser_err_or_roundtrip (s : SCT) (hid : s.logID.length = 32) :
    serializeSCT s = .err ∨ ∃ bs, serializeSCT s = .ok bs ∧ deserializeSCT bs = .ok (s, []) := by
  rw [serializeSCT_eq s hid]; exact lawful_sct.err_or_roundtrip s

theorem leaf_ser_err_or_roundtrip (l : Leaf) :
    leafFmt.ser l = .err ∨ ∃ bs, leafFmt.ser l = .ok bs ∧ readMerkleTreeLeaf bs = .ok (l, []) :=
  lawful_leaf.err_or_roundtrip l

theorem chain_ser_err_or_roundtrip (certs : List Bytes) :
    chainFmt.ser certs = .err ∨ ∃ bs, chainFmt.ser certs = .ok bs ∧ unmarshalX509Chain bs = .ok (certs, []) :=
  lawful_chain.err_or_roundtrip certs

/-- the error is exactly the over-long signature -/
theorem ds_ser_err_iff (ds : DS) : marshalDS ds = .err ↔ ds.sig.length > 65535 := by
  simp only [marshalDS, marshalDSHere]
  by_cases h : ds.sig.length > 65535 <;> simp [h]

theorem sct_ser_err_iff (s : SCT) :
    serializeSCT s = .err ↔ s.version ≠ 0 ∨ s.ext.length > 65535 ∨ s.sig.sig.length > 65535 := by
  simp only [serializeSCT, serializeSCTHere, serializedLength, marshalDSHere]
  by_cases hv : s.version = 0
  · by_cases he : s.ext.length > 65535
    · simp [hv, he]
    · by_cases hs : s.sig.sig.length > 65535 <;> simp [hv, he, hs]
  · have : (s.version != 0) = true := by simpa using hv
    simp [this, hv]

/-! ### lengths and layouts -/

/-- the number of bytes SerializeSCT produces is what SerializedLength reports -/
theorem sct_len (s : SCT) (bs : Bytes) (hid : s.logID.length = 32) (h : serializeSCT s = .ok bs) :
    serializedLength s = .ok bs.length := by
  simp only [serializeSCT, serializeSCTHere, serializedLength, marshalDSHere] at h ⊢
  by_cases hv : s.version = 0
  · simp only [hv] at h ⊢
    by_cases he : s.ext.length > 65535
    · simp [he] at h
    · by_cases hs : s.sig.sig.length > 65535
      · simp [he, hs] at h
      · simp [he, hs] at h
        subst h
        simp [beBytes_length, hid]
        omega
  · have : (s.version != 0) = true := by simpa using hv
    simp [this] at h

/-- byte layout of a serialised SCT (RFC 6962 §3.2) -/
theorem sct_ser_layout (s : SCT) (bs : Bytes) (h : serializeSCT s = .ok bs) :
    bs = [0] ++ s.logID ++ be8 s.timestamp.toNat ++ be2 s.ext.length ++ s.ext ++
          [s.sig.hash, s.sig.alg] ++ be2 s.sig.sig.length ++ s.sig.sig := by
  simp only [serializeSCT, serializeSCTHere, serializedLength, marshalDSHere] at h
  by_cases hv : s.version = 0
  · simp only [hv] at h
    by_cases he : s.ext.length > 65535
    · simp [he] at h
    · by_cases hs : s.sig.sig.length > 65535
      · simp [he, hs] at h
      · simp [he, hs] at h
        subst h
        simp [beBytes8, beBytes2]
  · have : (s.version != 0) = true := by simpa using hv
    simp [this] at h

/-- RFC 6962 §3.2: the digitally-signed input of an SCT over an X.509 entry -/
def rfcCertInput (ts : Nat) (cert ext : Bytes) : Bytes :=
  [0] ++ [0] ++ be8 ts ++ [0, 0] ++ be3 cert.length ++ cert ++ be2 ext.length ++ ext
/-- … over a precertificate entry -/
def rfcPrecertInput (ts : Nat) (ikh tbs ext : Bytes) : Bytes :=
  [0] ++ [0] ++ be8 ts ++ [0, 1] ++ ikh ++ be3 tbs.length ++ tbs ++ be2 ext.length ++ ext
/-- RFC 6962 §3.5: the digitally-signed input of an STH -/
def rfcSTHInput (ts size : Nat) (root : Bytes) : Bytes :=
  [0] ++ [1] ++ be8 ts ++ be8 size ++ root

/-- SerializeSCTSignatureInput succeeds exactly on V1 SCTs over timestamped X.509 / precert entries within the
    RFC's size bounds, and then yields the RFC 6962 concatenation byte for byte. -/
theorem sct_input_layout (version : UInt8) (ts : UInt64) (e : GoLeaf) (bs : Bytes) :
    sctSignatureInput version ts e = .ok bs ↔
      version = 0 ∧ e.leafType = 0 ∧ e.ext.length ≤ 65535 ∧
      ((e.entryType = 0 ∧ 1 ≤ e.x509.length ∧ e.x509.length ≤ 16777215 ∧ bs = rfcCertInput ts.toNat e.x509 e.ext) ∨
       (e.entryType = 1 ∧ 1 ≤ e.tbs.length ∧ e.tbs.length ≤ 16777215 ∧ bs = rfcPrecertInput ts.toNat e.ikh e.tbs e.ext)) := by
  unfold sctSignatureInput
  by_cases hv : version = 0
  rotate_left
  · have : (version != 0) = true := by simpa using hv
    simp [this, hv]
  by_cases hl : e.leafType = 0
  rotate_left
  · have : (e.leafType != 0) = true := by simpa using hl
    simp [this, hv, hl]
  simp only [hv, hl, bne_self_eq_false, Bool.false_eq_true, if_false, true_and]
  by_cases h0 : e.entryType = 0
  · have h01 : ¬ e.entryType = 1 := by rw [h0]; decide
    simp only [h0, beq_self_eq_true, if_true, certSCTInput, checkCert, checkExt, writeVarBytes, opaque3_ser, opaque2_ser_lt]
    by_cases hc0 : e.x509.length = 0
    · simp [hc0]
    by_cases hc1 : e.x509.length > 16777215
    · simp [hc0, hc1]; omega
    by_cases he : e.ext.length > 65535
    · simp [hc0, hc1, he]; omega
    have hc2 : e.x509.length < 16777216 := by omega
    have he2 : e.ext.length < 65536 := by omega
    simp [hc0, hc1, he, hc2, he2, rfcCertInput, beBytes8, beBytes2, be2]
    constructor
    · intro h; exact ⟨by omega, by omega, by omega, h.symm⟩
    · intro h; exact h.2.2.2.symm
  · by_cases h1 : e.entryType = 1
    · have h10 : (e.entryType == 0) = false := by rw [h1]; decide
      simp only [h1, h10, Bool.false_eq_true, if_false, beq_self_eq_true, if_true, precertSCTInput, checkCert, checkExt,
        writeVarBytes, opaque3_ser, opaque2_ser_lt]
      by_cases hc0 : e.tbs.length = 0
      · simp [hc0]
      by_cases hc1 : e.tbs.length > 16777215
      · simp [hc0, hc1]; omega
      by_cases he : e.ext.length > 65535
      · simp [hc0, hc1, he]; omega
      have hc2 : e.tbs.length < 16777216 := by omega
      have he2 : e.ext.length < 65536 := by omega
      simp [hc0, hc1, he, hc2, he2, rfcPrecertInput, beBytes8, beBytes2, be2]
      constructor
      · intro h; exact ⟨by omega, by omega, by omega, h.symm⟩
      · intro h; exact h.2.2.2.symm
    · have h00 : (e.entryType == 0) = false := by simpa using h0
      have h11 : (e.entryType == 1) = false := by simpa using h1
      simp [h00, h11, h0, h1]

theorem sth_input_layout (s : STH) (bs : Bytes) :
    sthSignatureInput s = .ok bs ↔ s.version = 0 ∧ bs = rfcSTHInput s.timestamp.toNat s.treeSize.toNat s.rootHash := by
  unfold sthSignatureInput rfcSTHInput
  by_cases hv : s.version = 0
  · simp [hv, beBytes8]
    exact ⟨fun h => h.symm, fun h => h.symm⟩
  · have : (s.version != 0) = true := by simpa using hv
    simp [this, hv]

/-- layout of the RFC leaf encoding that ReadMerkleTreeLeaf inverts (X.509 entry) -/
theorem leaf_ser_x509 (ts : UInt64) (cert ext : Bytes) (hc : cert.length < 16777216) (he : ext.length < 65536) :
    leafFmt.ser ⟨0, 0, ts, .x509 cert, ext⟩ =
      .ok ([0] ++ [0] ++ be8 ts.toNat ++ [0, 0] ++ be3 cert.length ++ cert ++ be2 ext.length ++ ext) := by
  simp [leafFmt, iso, pair, Wire.guard, dep, entryBody, piso, Entry.tag, u8_ser, u64_ser, opaque3_ser, opaque2_ser_lt, hc, he,
    u16, uintBE, beBytes8, beBytes2, be2]

theorem leaf_ser_precert (ts : UInt64) (ikh tbs ext : Bytes) (hk : ikh.length = 32) (hc : tbs.length < 16777216)
    (he : ext.length < 65536) :
    leafFmt.ser ⟨0, 0, ts, .precert ikh tbs, ext⟩ =
      .ok ([0] ++ [0] ++ be8 ts.toNat ++ [0, 1] ++ ikh ++ be3 tbs.length ++ tbs ++ be2 ext.length ++ ext) := by
  simp [leafFmt, iso, pair, Wire.guard, dep, entryBody, piso, Entry.tag, u8_ser, u64_ser, opaque3_ser, opaque2_ser_lt, hc, he,
    u16, uintBE, beBytes8, beBytes2, be2, bytesN, hk]

/-! ### the verifier's decision logic (signature primitives abstract) -/

/-- "its signature by the log key covers that input": SHA-256 hash id, and the primitive of the key's own type -/
def sigValid (p : Prims) (data : Bytes) (sig : DS) : Prop :=
  sig.hash = 4 ∧
  ((sig.alg = 1 ∧ p.kind = .rsa ∧ p.rsaVerify data sig.sig = true) ∨
   (sig.alg = 3 ∧ p.kind = .ecdsa ∧ p.ecdsaVerify data sig.sig = true))

theorem verify_iff (p : Prims) (data : Bytes) (sig : DS) :
    verifySignature p data sig = .ok () ↔ sigValid p data sig := by
  unfold verifySignature sigValid
  by_cases hh : sig.hash = 4
  rotate_left
  · have : (sig.hash != 4) = true := by simpa using hh
    simp [this, hh]
  simp only [hh, bne_self_eq_false, Bool.false_eq_true, if_false, true_and]
  by_cases h1 : sig.alg = 1
  · have h13 : ¬ (1 : UInt8) = 3 := by decide
    simp only [h1, beq_self_eq_true, if_true, h13, false_and, or_false, true_and]
    cases p.kind <;> by_cases hv : p.rsaVerify data sig.sig = true <;> simp [hv]
  · have h1' : (sig.alg == 1) = false := by simpa using h1
    by_cases h3 : sig.alg = 3
    · simp only [h1', Bool.false_eq_true, if_false, h3, beq_self_eq_true, if_true, h1, false_and, false_or, true_and]
      have : ¬ (3 : UInt8) = 1 := by decide
      simp only [this, false_and, false_or]
      cases p.kind <;> by_cases hv : p.ecdsaVerify data sig.sig = true <;> simp [hv]
    · have h3' : (sig.alg == 3) = false := by simpa using h3
      simp [h1', h3', h1, h3]

/-- VerifySCTSignature accepts exactly when the signature input is defined and the log key's signature covers it -/
theorem verify_sct_iff (p : Prims) (version : UInt8) (ts : UInt64) (sig : DS) (e : GoLeaf) :
    verifySCT p version ts sig e = .ok () ↔
      ∃ data, sctSignatureInput version ts e = .ok data ∧ sigValid p data sig := by
  unfold verifySCT
  cases h : sctSignatureInput version ts e with
  | ok data => simp [verify_iff]
  | err => simp
  | panic => simp

theorem verify_sth_iff (p : Prims) (s : STH) (sig : DS) :
    verifySTH p s sig = .ok () ↔ ∃ data, sthSignatureInput s = .ok data ∧ sigValid p data sig := by
  unfold verifySTH
  cases h : sthSignatureInput s with
  | ok data => simp [verify_iff]
  | err => simp
  | panic => simp

/-! ### decoders are total and never read beyond their input -/

theorem decoders_no_panic (bs : Bytes) :
    deserializeSCT bs ≠ .panic ∧ unmarshalDS bs ≠ .panic ∧ readMerkleTreeLeaf bs ≠ .panic ∧
    unmarshalX509Chain bs ≠ .panic ∧ unmarshalPrecertChain bs ≠ .panic :=
  ⟨lawful_sct.parNoPanic bs, lawful_ds.parNoPanic bs, lawful_leaf.parNoPanic bs, lawful_chain.parNoPanic bs,
   lawful_precertChain.parNoPanic bs⟩

/-! ### non-vacuity -/
example : ∃ s : SCT, s.logID.length = 32 ∧ ∃ bs, serializeSCT s = .ok bs :=
  ⟨⟨0, List.replicate 32 7, 5, [1, 2], ⟨4, 3, [9]⟩⟩, by decide, _, rfl⟩
example : ∃ ds bs, marshalDS ds = .ok bs := ⟨⟨4, 3, [1, 2, 3]⟩, _, rfl⟩
example : ∃ l bs, leafFmt.ser l = .ok bs ∧ bs.length = 21 :=
  ⟨⟨0, 0, 5, .x509 [1, 2, 3], [7]⟩, _, leaf_ser_x509 5 [1, 2, 3] [7] (by decide) (by decide), by simp [be8, be3, be2]⟩
example : (chainFmt.ser [[1, 2], [], [3]]).isOk = true := by decide
example : (precertChainFmt.ser [[1, 2], [3]]).isOk = true := by decide
example : ∃ p data sig, sigValid p data sig := ⟨⟨.ecdsa, fun _ _ => false, fun _ _ => true⟩, [], ⟨4, 3, []⟩, by simp [sigValid]⟩
example : ∃ ds : DS, ds.sig.length > 65535 :=
  ⟨⟨4, 3, List.replicate 65536 0⟩, by show (List.replicate 65536 (0 : UInt8)).length > 65535; rw [List.length_replicate]; decide⟩

end ZV.C16
