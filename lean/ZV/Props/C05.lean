import ZV.Proofs.C05
/-!
  C05 — revocation entries of v2 revocation lists: the reason-code synthesis rule and the CRL-number rule of
  `x509.CreateRevocationList`, on the model `ZV.Model.C05` whose entry encoder and parser are tied to the Go code
  by T2 (encoded bytes of every entry list and the parsed (serial, time, reason, #extensions) vectors).
-/
namespace ZV.C05
open ZV ZV.Der

/-- abstract view of the parser's reason scan: the LAST reasonCode extension wins (each one overwrites). -/
def scanReasonA : List EExt → Option Int → (EExt → Option Int) → Option Int
  | [], acc, _ => acc
  | x :: xs, acc, dec => if x.oid = reasonOID then scanReasonA xs (dec x) dec else scanReasonA xs acc dec

/-- the extra extensions other than reasonCode survive, in order. -/
theorem extras_preserved (e : Entry) :
    (synthExts e).filter (fun x => x.oid != reasonOID) = e.extras.filter (fun x => x.oid != reasonOID) := by
  unfold synthExts
  rw [List.filter_append, List.filter_filter]
  cases h : normReason e.reason <;> simp [reasonExt]

/-- **Reason-code synthesis**: whatever reasonCode extensions the caller supplied (any number, any position, any
    value), the entry carries exactly the synthesised one when `ReasonCode` is non-nil and non-zero, and none
    otherwise. -/
theorem only_synth_reason (e : Entry) :
    (synthExts e).filter (fun x => x.oid == reasonOID) =
      (match normReason e.reason with
       | none => []
       | some n => [reasonExt n]) := by
  unfold synthExts
  rw [List.filter_append]
  have h1 : (e.extras.filter (fun x => x.oid != reasonOID)).filter (fun x => x.oid == reasonOID) = [] := by
    rw [List.filter_filter, List.filter_eq_nil_iff]
    intro x _; simp
  rw [h1]
  cases h : normReason e.reason <;> simp [reasonExt]

/-- the synthesised extension sits after all surviving extras. -/
theorem synth_reason_last (e : Entry) (n : Int) (h : normReason e.reason = some n) :
    synthExts e = e.extras.filter (fun x => x.oid != reasonOID) ++ [reasonExt n] := by
  simp [synthExts, h]

/-- zero and nil are the same on the wire; everything else is kept. -/
theorem normReason_table (r : Option Int) :
    normReason r = none ↔ (r = none ∨ r = some 0) := by
  cases r with
  | none => simp [normReason]
  | some n => by_cases h : n = 0 <;> simp [normReason, h]

/-- **entry_roundtrip (reason code)**: scanning the extension list the encoder receives — with any decoder that
    reads back the synthesised value — yields the normalised `ReasonCode`, for EVERY list of extra extensions,
    including ones that carry user-supplied reasonCode extensions with contradicting values. -/
theorem entry_roundtrip_reason (e : Entry) (dec : EExt → Option Int)
    (hdec : ∀ n, normReason e.reason = some n → dec (reasonExt n) = some n) :
    scanReasonA (synthExts e) none dec = normReason e.reason := by
  have key : ∀ (l : List EExt) (acc : Option Int), (∀ x ∈ l, x.oid ≠ reasonOID) → scanReasonA l acc dec = acc := by
    intro l
    induction l with
    | nil => intro acc _; rfl
    | cons x xs ih =>
      intro acc hx
      have : x.oid ≠ reasonOID := hx x List.mem_cons_self
      simp only [scanReasonA, this, if_false]
      exact ih acc (fun y hy => hx y (List.mem_cons_of_mem _ hy))
  have app : ∀ (l1 l2 : List EExt) (acc : Option Int), (∀ x ∈ l1, x.oid ≠ reasonOID) →
      scanReasonA (l1 ++ l2) acc dec = scanReasonA l2 acc dec := by
    intro l1
    induction l1 with
    | nil => intro l2 acc _; rfl
    | cons x xs ih =>
      intro l2 acc hx
      have : x.oid ≠ reasonOID := hx x List.mem_cons_self
      simp only [List.cons_append, scanReasonA, this, if_false]
      exact ih l2 acc (fun y hy => hx y (List.mem_cons_of_mem _ hy))
  unfold synthExts
  rw [app _ _ _ (by intro x hx; have := (List.mem_filter.mp hx).2; simpa using this)]
  cases h : normReason e.reason with
  | none => rfl
  | some n => simp [scanReasonA, reasonExt]; exact hdec n h

set_option maxRecDepth 1000000 in
theorem enum_all :
    (List.range 128).all (fun n => decide (parseEnum (reasonExt (n : Int)).value = .ok (n : Int))) = true := by
  decide

/-- the concrete decoder of the model reads back every synthesised reason code 0..127 (RFC 5280 uses 1..10). -/
theorem enum_roundtrip (n : Nat) (h : n < 128) : parseEnum (reasonExt (n : Int)).value = .ok (n : Int) := by
  have := enum_all
  rw [List.all_eq_true] at this
  simpa using this n (List.mem_range.mpr h)

/-- the model's own decoder of a reasonCode extension value -/
def decM (x : EExt) : Option Int := match parseEnum x.value with | .ok n => some n | _ => none

/-- `entry_roundtrip` with the model's decoder, for every reason code in 0..127 (nil allowed) and every list of
    extra extensions. -/
theorem entry_roundtrip_reason_model (e : Entry) (h : ∀ n, e.reason = some n → 0 ≤ n ∧ n < 128) :
    scanReasonA (synthExts e) none decM = normReason e.reason := by
  apply entry_roundtrip_reason
  intro n hn
  have hr : e.reason = some n := by
    cases hre : e.reason with
    | none => simp [normReason, hre] at hn
    | some m =>
      simp only [normReason, hre] at hn
      split at hn
      · cases hn
      · simp at hn; simp [hn]
  obtain ⟨h0, h1⟩ := h n hr
  have e1 : ((n.toNat : Nat) : Int) = n := by omega
  have := enum_roundtrip n.toNat (by omega)
  rw [e1] at this
  simp [decM, this]

/-- **revlist_entries_roundtrip (reason codes)**: entry by entry, for any list of entries with reason codes 0..127. -/
theorem revlist_entries_roundtrip_reason (es : List Entry)
    (h : ∀ e ∈ es, ∀ n, e.reason = some n → 0 ≤ n ∧ n < 128) :
    es.map (fun e => scanReasonA (synthExts e) none decM) = es.map (fun e => normReason e.reason) := by
  apply List.map_congr_left
  intro e he
  exact entry_roundtrip_reason_model e (h e he)

/-- **CRL number rule**: `CreateRevocationList` accepts a number iff its absolute value is below 2^159
    (at most 20 octets, and the top bit clear when there are exactly 20). -/
theorem crl_number_rule (n : Int) : crlNumberOk n = true ↔ n.natAbs < 2 ^ 159 := by
  unfold crlNumberOk absOctets
  by_cases h0 : n = 0
  · subst h0; simp
  · have hne : n.natAbs ≠ 0 := by omega
    simp only [h0, if_false]
    have h160 : n.natAbs.log2 < 160 ↔ n.natAbs < 2 ^ 160 := Nat.log2_lt hne
    have h159 : n.natAbs.log2 < 159 ↔ n.natAbs < 2 ^ 159 := Nat.log2_lt hne
    have h152 : n.natAbs.log2 < 152 ↔ n.natAbs < 2 ^ 152 := Nat.log2_lt hne
    have hdiv : 128 ≤ n.natAbs / 2 ^ 152 ↔ 2 ^ 159 ≤ n.natAbs := by
      rw [Nat.le_div_iff_mul_le (Nat.pos_of_ne_zero (by decide))]
    by_cases hA : n.natAbs.log2 / 8 + 1 > 20 <;> by_cases hB : n.natAbs.log2 / 8 + 1 = 20 <;>
      by_cases hC : n.natAbs / 2 ^ 152 ≥ 128 <;> simp [hA, hB, hC]
    all_goals omega

example : ∀ n, (⟨5, [], some 4, [⟨reasonOID, false, [0x0a, 0x01, 0x09]⟩]⟩ : Entry).reason = some n → 0 ≤ n ∧ n < 128 := by
  intro n h; simp at h; omega

end ZV.C05
