import ZV.Proofs.C05
import ZV.Proofs.C05ListTop
import ZV.Model.C05Csr
/-!
  C05 — revocation entries of v2 revocation lists: the reason-code synthesis rule and the CRL-number rule of
  `x509.CreateRevocationList`, on the model `ZV.Model.C05` whose entry encoder and parser are tied to the Go code
  by T2 (encoded bytes of every entry list and the parsed (serial, time, reason, #extensions) vectors).
-/
namespace ZV.C05
open ZV ZV.Der ZV.C06 ZV.C04

/-- the extra extensions other than reasonCode survive, in order. -/
theorem extras_preserved (e : Entry) :
    (synthExts e).filter (fun x => x.oid != reasonOID) = e.extras.filter (fun x => x.oid != reasonOID) := by
  unfold synthExts
  rw [List.filter_append, List.filter_filter]
  cases h : normReason e.reason <;> simp [reasonExt]

/-- **Reason-code synthesis**: whatever reasonCode extensions the caller supplied (any number, any position, any
    value), the entry carries exactly the synthesised one when `ReasonCode` is non-nil and non-zero, and none
    otherwise. -/
theorem only_synth_reason (e : Entry) :
    (synthExts e).filter (fun x => x.oid == reasonOID) =
      (match normReason e.reason with
       | none => []
       | some n => [reasonExt n]) := by
  unfold synthExts
  rw [List.filter_append]
  have h1 : (e.extras.filter (fun x => x.oid != reasonOID)).filter (fun x => x.oid == reasonOID) = [] := by
    rw [List.filter_filter, List.filter_eq_nil_iff]
    intro x _; simp
  rw [h1]
  cases h : normReason e.reason <;> simp [reasonExt]

/-- the synthesised extension sits after all surviving extras. -/
theorem synth_reason_last (e : Entry) (n : Int) (h : normReason e.reason = some n) :
    synthExts e = e.extras.filter (fun x => x.oid != reasonOID) ++ [reasonExt n] := by
  simp [synthExts, h]

/-- zero and nil are the same on the wire; everything else is kept. -/
theorem normReason_table (r : Option Int) :
    normReason r = none ↔ (r = none ∨ r = some 0) := by
  cases r with
  | none => simp [normReason]
  | some n => by_cases h : n = 0 <;> simp [normReason, h]

/-- **entry_roundtrip (reason code)**: scanning the extension list the encoder receives — with any decoder that
    reads back the synthesised value — yields the normalised `ReasonCode`, for EVERY list of extra extensions,
    including ones that carry user-supplied reasonCode extensions with contradicting values. -/
theorem entry_roundtrip_reason (e : Entry) (dec : EExt → Option Int)
    (hdec : ∀ n, normReason e.reason = some n → dec (reasonExt n) = some n) :
    scanReasonA (synthExts e) none dec = normReason e.reason := scanReasonA_synth e dec hdec

set_option maxRecDepth 1000000 in
theorem enum_all :
    (List.range 128).all (fun n => decide (parseEnum (reasonExt (n : Int)).value = .ok (n : Int))) = true := by
  decide

/-- the concrete decoder of the model reads back every synthesised reason code 0..127 (RFC 5280 uses 1..10). -/
theorem enum_roundtrip (n : Nat) (h : n < 128) : parseEnum (reasonExt (n : Int)).value = .ok (n : Int) := by
  have := enum_all
  rw [List.all_eq_true] at this
  simpa using this n (List.mem_range.mpr h)

/-- `entry_roundtrip` with the model's decoder, for every reason code in 0..127 (nil allowed) and every list of
    extra extensions. -/
theorem entry_roundtrip_reason_model (e : Entry) (h : ∀ n, e.reason = some n → 0 ≤ n ∧ n < 128) :
    scanReasonA (synthExts e) none decM = normReason e.reason := by
  apply entry_roundtrip_reason
  intro n hn
  have hr : e.reason = some n := by
    cases hre : e.reason with
    | none => simp [normReason, hre] at hn
    | some m =>
      simp only [normReason, hre] at hn
      split at hn
      · cases hn
      · simp at hn; simp [hn]
  obtain ⟨h0, h1⟩ := h n hr
  have e1 : ((n.toNat : Nat) : Int) = n := by omega
  have := enum_roundtrip n.toNat (by omega)
  rw [e1] at this
  simp [decM, this]

/-- **revlist_entries_roundtrip (reason codes)**: entry by entry, for any list of entries with reason codes 0..127. -/
theorem revlist_entries_roundtrip_reason (es : List Entry)
    (h : ∀ e ∈ es, ∀ n, e.reason = some n → 0 ≤ n ∧ n < 128) :
    es.map (fun e => scanReasonA (synthExts e) none decM) = es.map (fun e => normReason e.reason) := by
  apply List.map_congr_left
  intro e he
  exact entry_roundtrip_reason_model e (h e he)

/-- **CRL number rule**: `CreateRevocationList` accepts a number iff its absolute value is below 2^159
    (at most 20 octets, and the top bit clear when there are exactly 20). -/
theorem crl_number_rule (n : Int) : crlNumberOk n = true ↔ n.natAbs < 2 ^ 159 := by
  unfold crlNumberOk absOctets
  by_cases h0 : n = 0
  · subst h0; simp
  · have hne : n.natAbs ≠ 0 := by omega
    simp only [h0, if_false]
    have h160 : n.natAbs.log2 < 160 ↔ n.natAbs < 2 ^ 160 := Nat.log2_lt hne
    have h159 : n.natAbs.log2 < 159 ↔ n.natAbs < 2 ^ 159 := Nat.log2_lt hne
    have h152 : n.natAbs.log2 < 152 ↔ n.natAbs < 2 ^ 152 := Nat.log2_lt hne
    have hdiv : 128 ≤ n.natAbs / 2 ^ 152 ↔ 2 ^ 159 ≤ n.natAbs := by
      rw [Nat.le_div_iff_mul_le (Nat.pos_of_ne_zero (by decide))]
    by_cases hA : n.natAbs.log2 / 8 + 1 > 20 <;> by_cases hB : n.natAbs.log2 / 8 + 1 = 20 <;>
      by_cases hC : n.natAbs / 2 ^ 152 ≥ 128 <;> simp [hA, hB, hC]
    all_goals omega

example : ∀ n, (⟨5, [], some 4, [⟨reasonOID, false, [0x0a, 0x01, 0x09]⟩]⟩ : Entry).reason = some n → 0 ≤ n ∧ n < 128 := by
  intro n h; simp at h; omega

/-! ### byte level -/

/-- **DER INTEGER, any size**: `parseBigInt (encBigInt v) = v` for EVERY integer — `encBigInt` writes the minimal
    two's-complement octets (serial numbers, ENUMERATED reason codes, CRL numbers). -/
theorem bigint_roundtrip (v : Int) : parseBigInt (encBigInt v) = .ok v := parseBigInt_encBigInt v

/-- the ENUMERATED decoder reads back EVERY synthesised reason code (not only 0..127); the only side condition is
    that the contents fit a DER length. -/
theorem enum_roundtrip_all (n : Int) (hl : (encBigInt n).length < 2147483648) :
    parseEnum (reasonExt n).value = .ok n := parseEnum_reasonExt n hl

example : (encBigInt (-129)).length < 2147483648 ∧ encBigInt (-129) = [0xff, 0x7f] := by decide

/-- `entry_roundtrip_reason_model` without the 0..127 restriction. -/
theorem entry_roundtrip_reason_any (e : Entry) (h : ∀ n, e.reason = some n → (encBigInt n).length < 2147483648) :
    scanReasonA (synthExts e) none decM = normReason e.reason := by
  apply entry_roundtrip_reason
  intro n hn
  have hr : e.reason = some n := by
    cases hre : e.reason with
    | none => simp [normReason, hre] at hn
    | some m =>
      simp only [normReason, hre] at hn
      split at hn
      · cases hn
      · simp at hn; simp [hn]
  simp [decM, parseEnum_reasonExt n (h n hr)]

example : ∀ n, (⟨5, [], some (-70000), []⟩ : Entry).reason = some n → (encBigInt n).length < 2147483648 := by
  intro n h; simp at h; subst h; decide

/-- revocation time: the UTCTime / GeneralizedTime element the encoder writes is read back to the same 14 digits,
    for every well-formed time (the century of a UTCTime is restored from the two-digit year). -/
theorem time_roundtrip (t : Bytes) (h : validTime t = true) :
    ∃ tag body, encTime t = writeTLV tag body ∧ timeDigits (elemOf tag body) = .ok t := by
  obtain ⟨tag, body, h1, _, _, h2⟩ := encTime_decode t h
  exact ⟨tag, body, h1, h2⟩

/-- "20491231235959" (UTCTime) and "20500101000000" (GeneralizedTime) -/
example : validTime [0x32, 0x30, 0x34, 0x39, 0x31, 0x32, 0x33, 0x31, 0x32, 0x33, 0x35, 0x39, 0x35, 0x39] = true ∧
    validTime [0x32, 0x30, 0x35, 0x30, 0x30, 0x31, 0x30, 0x31, 0x30, 0x30, 0x30, 0x30, 0x30, 0x30] = true := by
  decide

/-- entry extension codec: `parseExtension` on the SEQUENCE `encExtension` writes returns (OID contents, critical,
    value), for every extension whose OID is in the reader's domain. -/
theorem extension_roundtrip (x : EExt) (b : Bytes) (h : encExtension x = some b) (hok : oidOk x.oid = true)
    (hlen : b.length < 2147483648) :
    b = writeTLV 0x30 (extBody x) ∧ encOID x.oid = some (oidC x) ∧
      parseEExt (elemOf 0x30 (extBody x)) = .ok (oidC x, x.critical, x.value) := by
  obtain ⟨h1, h2⟩ := encExtension_eq h
  subst h2
  have := writeTLV_length_ge 0x30 (extBody x)
  exact ⟨rfl, h1, parseEExt_build x (validOID_encOID h1 hok) (by omega)⟩

example : encExtension ⟨[2, 5, 29, 24], true, [0x18, 0]⟩ = some [0x30, 0x0c, 6, 3, 0x55, 0x1d, 0x18, 1, 1, 0xff, 4, 2, 0x18, 0]
    ∧ oidOk [2, 5, 29, 24] = true := by decide

/-- the arc-level reason theorems lifted to bytes: the parser's scan over (OID contents, critical, value) triples,
    comparing content octets with those of 2.5.29.21, computes the arc-level last-wins scan. -/
theorem reason_scan_bytes (l : List EExt) (acc : Option Int)
    (h1 : ∀ x ∈ l, encOID x.oid = some (oidC x) ∧ (x.oid = reasonOID ∨ oidOk x.oid = true))
    (h2 : ∀ x ∈ l, x.oid = reasonOID → ∃ n, parseEnum x.value = .ok n) :
    scanReason roB (l.map triple) acc = .ok (scanReasonA l acc decM) ∧ encOID reasonOID = some roB :=
  ⟨scanReason_lift l acc h1 h2, encOID_reason⟩

/-- **entry_roundtrip (bytes)**: `parseEntry (encEntry e) = e` — serial ANY integer, the 14-digit time, the reason
    normalised (nil and 0 → nil, any other integer kept, user-supplied reasonCode extensions ignored), and the number
    of extensions that of the synthesised list — for every entry of the domain `Entry.ok` (well-formed time; OIDs of
    the non-reasonCode extras within the reader's MaxInt32 limit) whose encoding is shorter than 2^31 octets. -/
theorem entry_roundtrip_bytes (e : Entry) (bs : Bytes) (h : encEntry e = some bs) (hok : e.ok = true)
    (hlen : bs.length < 2147483648) :
    ∃ el, readElem bs = .ok (el, []) ∧ el.full = bs ∧ parseEntry el = .ok e.parsed :=
  parseEntry_encEntry e bs h hok hlen

/-- **revlist_entries_roundtrip (bytes)**: `parseEntries (encEntries es) = es.map parsed`. -/
theorem revlist_entries_roundtrip_bytes (es : List Entry) (bs : Bytes) (h : encEntries es = some bs)
    (hok : ∀ e ∈ es, e.ok = true) (hlen : ∀ e ∈ es, ∀ b, encEntry e = some b → b.length < 2147483648) :
    parseEntries bs = .ok (es.map Entry.parsed) := parseEntries_encEntries es bs h hok hlen

/-- an entry with a negative multi-octet serial, a GeneralizedTime date, a contradicting user-supplied reasonCode
    extension, a critical extra extension and a large reason code -/
def sampleEntry : Entry :=
  ⟨-123456789012345678901234567890, [0x32, 0x30, 0x35, 0x30, 0x30, 0x31, 0x30, 0x31, 0x30, 0x30, 0x30, 0x30, 0x30, 0x30], some 300,
    [⟨reasonOID, false, [0x0a, 0x01, 0x09]⟩, ⟨[2, 5, 29, 24], true, [0x18, 0]⟩]⟩

example : sampleEntry.ok = true ∧ (encEntry sampleEntry).isSome = true ∧
    (match encEntry sampleEntry with | some b => decide (b.length < 2147483648) | none => false) = true ∧
    sampleEntry.parsed = ⟨-123456789012345678901234567890,
      [0x32, 0x30, 0x35, 0x30, 0x30, 0x31, 0x30, 0x31, 0x30, 0x30, 0x30, 0x30, 0x30, 0x30], some 300, 2⟩ := by
  decide

/-- the cRLNumber value of an accepted number parses back to the number. -/
theorem crl_number_roundtrip (n : Int) (h : crlNumberOk n = true) :
    crlNumberExt n = .ok (writeTLV 0x02 (encBigInt n)) ∧
    (someElem (field (.univ 2 false) false (writeTLV 0x02 (encBigInt n)))).bind (fun e => parseBigInt e.1.body) = .ok n := by
  have hl := (encBigInt_length n).2
  have hlog : n.natAbs.log2 < 159 := by
    by_cases h0 : n.natAbs = 0
    · rw [h0]; decide
    · exact (Nat.log2_lt h0).mpr ((crl_number_rule n).mp h)
  refine ⟨by simp [crlNumberExt, h, tlv], ?_⟩
  rw [field_tlv_end _ _ _ _ (by decide) (by omega) (by simp [Want.ok, hdrOf])]
  simp [someElem, Res.bind, parseBigInt_encBigInt]

example : crlNumberOk (2 ^ 159 - 1) = true := by decide

/-! ### list level: `CreateRevocationList` → `ParseRevocationList` (model `ZV.Model.C05List`, T2 ops `c05 rlist`, `c05 rlp`) -/

/-- **UTCTime / GeneralizedTime choice**: a time is written as UTCTime exactly for the years 1950..2049 and as
    GeneralizedTime for the other years 0..9999; a year outside 0..9999 is refused. -/
theorem time_choice (t : GoTime) (tb : Bytes) (h : encTimeG t = .ok tb) :
    (1950 ≤ t.year ∧ t.year < 2050 ∧ tb = writeTLV 0x17 (Time.utcText t)) ∨
    ((t.year < 1950 ∨ 2050 ≤ t.year) ∧ 0 ≤ t.year ∧ t.year ≤ 9999 ∧ tb = writeTLV 0x18 (Time.genText t)) :=
  encTimeG_eq t tb h

/-- **update / revocation time round trip**: the element written for a time (forced to UTC) is read back by the
    cryptobyte `parseTime` (time.Parse + re-serialisation test, century restored for UTCTime) as the same second. -/
theorem list_time_roundtrip (t : GoTime) (tb rest : Bytes) (h : encTimeG (utc t) = .ok tb) :
    parseTimeCB (tb ++ rest) = .ok (secOf t, rest) := (parseTimeCB_encTimeG t tb rest h).1

/-- 2049-12-31T23:59:59Z (UTCTime), 2050-01-01T00:00:00Z (GeneralizedTime), year 10000 (refused) -/
example : (encTimeG ⟨2524607999, 0, 0⟩).isOk = true ∧ (encTimeG ⟨2524608000, 0, 0⟩).isOk = true ∧
    encTimeG ⟨253402300800, 0, 0⟩ = .err := by decide

/-- **entry round trip with the real time parser**: `parseEntryT (encEntryT e) = e` (serial, second, normalised
    reason, the synthesised extension list itself) for every entry of the decidable domain `EntryT.okT`. -/
theorem entryT_roundtrip (e : EntryT) (bs rest : Bytes) (h : encEntryT e = .ok bs) (hok : e.okT = true)
    (hlen : bs.length < 2147483648) :
    parseEntryT (bs ++ rest) = .ok (⟨bs, e.serial, secOf e.time, normReason e.reason, e.synth.map triple⟩, rest) := by
  obtain ⟨tb, h1, h2, h3⟩ := encEntryT_eq h
  subst h2
  have := writeTLV_length_ge 0x30 (entryBodyT e tb)
  exact parseEntryT_build e tb rest h1 h3 hok (by omega)

/-- the guards of `CreateRevocationList`: a list is created only for an issuer with the crlSign bit and a subject
    key id, `NextUpdate` not before `ThisUpdate`, and a non-nil number below 2^159 in absolute value. -/
theorem create_guards (sigAI : Bytes) (iss : IssuerC) (t : RLTmpl) (tbs : Bytes) (h : createTBS sigAI iss t = .ok tbs) :
    iss.crlSign = true ∧ iss.ski.isEmpty = false ∧ before t.nextUpdate t.thisUpdate = false ∧
      ∃ n, t.number = some n ∧ n.natAbs < 2 ^ 159 := by
  obtain ⟨n, _, _, hn, hok, _⟩ := createTBS_eq h
  unfold createTBS at h
  split at h
  · cases h
  split at h
  · cases h
  split at h
  · cases h
  rename_i c1 c2 c3
  exact ⟨by simpa using c1, by simpa using c2, by simpa using c3, n, hn, (crl_number_rule n).mp hok⟩

/-- **revlist_roundtrip**: for every template, issuer, signature AlgorithmIdentifier and signature for which the model
    of `CreateRevocationList` succeeds — inside the decidable domain `RLDom` (entries in `EntryT.okT`; list-level extras
    that do not repeat authorityKeyIdentifier / cRLNumber), with an AlgorithmIdentifier `parseAI` accepts and an issuer
    subject `parseName` accepts — the model of `ParseRevocationList` accepts the DER and reports: the TBS bytes, the
    signature bits, the issuer's subject bytes verbatim, `ThisUpdate` and `NextUpdate` to the second in UTC (`NextUpdate`
    absent iff it was the zero time), every entry in order (raw bytes, serial, revocation second, normalised reason, its
    extension list), the template's `Number`, the AKI built from the issuer's subject key id, and the list-level
    extensions AKI, number, extras in order. -/
theorem revlist_roundtrip (sigAI : Bytes) (iss : IssuerC) (t : RLTmpl) (sig der : Bytes)
    (h : createRL sigAI iss t sig = .ok der) (hai : aiOk sigAI = true) (hiss : issuerOk iss.subject = true)
    (hdom : RLDom t = true) (hlen : der.length < 2147483648) :
    ∃ n tbs alg, t.number = some n ∧ createTBS sigAI iss t = .ok tbs ∧
      parseRL der = .ok ⟨tbs, alg, sig, iss.subject, secOf t.thisUpdate, t.parsedNext, t.parsedEntries, some n,
        some (buildAKI iss.ski), (listExts iss n t).map triple⟩ := by
  obtain ⟨n, tbs, alg, a, _, b, c⟩ := parseRL_createRL sigAI iss t sig der h hai hiss hdom hlen
  exact ⟨n, tbs, alg, a, b, c⟩

/-- Ed25519 AlgorithmIdentifier, issuer "CN=zv CA ed25519, O=ZV", thisUpdate 2049-12-31T23:59:59Z, nextUpdate
    2050-01-01T00:00:00Z, number 2^159-1, one entry (negative serial, 1950-01-01T00:00:00Z, reason 1, a critical extra and a
    user-supplied reasonCode extension), one list-level extra -/
def sampleAI : Bytes := [0x30, 0x05, 0x06, 0x03, 0x2b, 0x65, 0x70]
def sampleIssuer : IssuerC :=
  ⟨[0x30, 0x25, 0x31, 0x16, 0x30, 0x14, 0x06, 0x03, 0x55, 0x04, 0x03, 0x13, 0x0d, 0x7a, 0x76, 0x20, 0x43, 0x41, 0x20, 0x65, 0x64, 0x32,
    0x35, 0x35, 0x31, 0x39, 0x31, 0x0b, 0x30, 0x09, 0x06, 0x03, 0x55, 0x04, 0x0a, 0x13, 0x02, 0x5a, 0x56], [1, 2, 3, 4, 7], true⟩
def sampleTmpl : RLTmpl :=
  ⟨⟨2524607999, 0, 5⟩, ⟨2524608000, 0, 0⟩, some (2 ^ 159 - 1),
   [⟨-300, ⟨-631152000, 0, 0⟩, some 1, [⟨[2, 5, 29, 24], true, [0x18, 0]⟩, ⟨reasonOID, false, [0x0a, 0x01, 0x09]⟩]⟩],
   [⟨[1, 3, 9999, 7], false, [1]⟩]⟩

set_option maxRecDepth 100000 in
example : (createRL sampleAI sampleIssuer sampleTmpl [0xab, 0xcd]).isOk = true ∧ aiOk sampleAI = true ∧
    issuerOk sampleIssuer.subject = true ∧ RLDom sampleTmpl = true ∧
    (match createRL sampleAI sampleIssuer sampleTmpl [0xab, 0xcd] with | .ok der => decide (der.length < 2147483648) | _ => false) = true ∧
    sampleTmpl.entries.all EntryT.okT = true := by decide


/-! ### CSR: `CreateCertificateRequest` → `ParseCertificateRequest` (model `ZV.Model.C05Csr`, T2 ops `c05 csrm`, `c05 csrp`, `c05 xsch`) -/
namespace Csr
open ZV.C18

/-- the request carries the caller's ExtraExtensions, in order, after at most one generated extension -/
theorem csr_extras_kept (t : CsrTmpl) : ∃ pre, csrExts t = pre ++ t.extras ∧ pre.length ≤ 1 := by
  unfold csrExts
  split
  · exact ⟨_, rfl, by simp⟩
  · exact ⟨[], rfl, by simp⟩

/-- **SAN generation rule**: a subjectAltName extension (non-critical, value `marshalSANs`) is generated, in front, iff the
    template has a DNS name, e-mail address or IP address AND ExtraExtensions has no subjectAltName of its own — a
    caller-supplied subjectAltName overrides the name fields. -/
theorem csr_san_rule (t : CsrTmpl) :
    csrExts t = (if hasSANs t = true ∧ t.extras.all (fun x => x.oid != oidSAN) = true
                 then [⟨oidSAN, false, buildSAN t.dns t.email t.ips⟩] else []) ++ t.extras := by
  unfold csrExts
  have h : inExtra oidSAN (t.extras.map fun x => (⟨x.oid, x.critical, x.value⟩ : C04.Ext)) =
      !(t.extras.all (fun x => x.oid != oidSAN)) := by
    unfold inExtra
    induction t.extras with
    | nil => rfl
    | cons x xs ih => simp only [List.map_cons, List.any_cons, List.all_cons, ih, bne, Bool.not_and, Bool.not_not]
  rw [h]
  by_cases a : hasSANs t = true <;> by_cases b : t.extras.all (fun x => x.oid != oidSAN) = true <;> simp [a, b]

/-- no SAN fields and no ExtraExtensions: the attributes field is present and empty -/
theorem csr_no_extensions (spki : Bytes) (t : CsrTmpl) (h1 : hasSANs t = false) (h2 : t.extras = []) :
    createCSRInfo spki t = .ok (tlv 0x30 ([2, 1, 0] ++ (t.subject ++ (spki ++ [0xA0, 0])))) := by
  simp [createCSRInfo, csrExts, h1, h2, encAttrs, tlv, writeTLV, encLen]

/-- the Critical flag never reaches the encoding: two templates that differ only in Critical flags give the same request -/
theorem csr_critical_not_encoded (spki : Bytes) (t : CsrTmpl) :
    createCSRInfo spki { t with extras := t.extras.map fun x => { x with critical := false } } = createCSRInfo spki t := by
  have hm : ∀ l : List EExt, (l.map fun x => { x with critical := false }).mapM encAtv = l.mapM encAtv := by
    intro l
    induction l with
    | nil => rfl
    | cons x xs ih => simp only [List.map_cons, List.mapM_cons, ih]; rfl
  have hx : csrExts { t with extras := t.extras.map fun x => { x with critical := false } } =
      (csrExts t).map fun x => { x with critical := false } := by
    rw [csr_san_rule, csr_san_rule]
    have : (t.extras.map fun x => ({ x with critical := false } : EExt)).all (fun x => x.oid != oidSAN) =
        t.extras.all (fun x => x.oid != oidSAN) := by simp [List.all_map, Function.comp_def]
    by_cases c : (hasSANs t = true ∧ (t.extras.all fun x => x.oid != oidSAN) = true)
    · have c' : hasSANs { t with extras := t.extras.map fun x => { x with critical := false } } = true ∧
          ((t.extras.map fun x => ({ x with critical := false } : EExt)).all fun x => x.oid != oidSAN) = true := by
        rw [this]; exact c
      rw [if_pos c', if_pos c]; rfl
    · have c' : ¬ (hasSANs { t with extras := t.extras.map fun x => { x with critical := false } } = true ∧
          ((t.extras.map fun x => ({ x with critical := false } : EExt)).all fun x => x.oid != oidSAN) = true) := by
        rw [this]; exact c
      rw [if_neg c', if_neg c]; rfl
  unfold createCSRInfo encAttrs
  rw [hx, hm]
  simp

/-- issuer-style subject "CN=zv CA ed25519, O=ZV", an Ed25519 key -/
def sampleSPKI : Bytes :=
  [0x30, 0x2a, 0x30, 0x05, 0x06, 0x03, 0x2b, 0x65, 0x70, 0x03, 0x21, 0x00, 1, 2, 3, 4, 5, 6, 7, 8, 9, 10, 11, 12, 13, 14, 15, 16,
   17, 18, 19, 20, 21, 22, 23, 24, 25, 26, 27, 28, 29, 30, 31, 32]
def sampleCsr (dns email ips : List Bytes) (extras : List EExt) : Res PCSR :=
  match createCSR sampleAI sampleSPKI ⟨sampleIssuer.subject, dns, email, ips, extras⟩ [0xab] with
  | .ok der => parseCSR der
  | _ => .err
def exts (r : Res PCSR) : List PX := match r with | .ok c => c.exts | _ => []
def sans (r : Res PCSR) : SANs := match r with | .ok c => c.sans | _ => {}

set_option maxRecDepth 1000000 in
/-- **finding D34 on the model** (`d34_critical_dropped`): a request created with a CRITICAL extra extension parses back with
    `Critical = false` — the extension travels as `AttributeTypeAndValue{Type, Value}`, which has no place for the flag. -/
theorem d34_critical_dropped :
    exts (sampleCsr [] [] [] [⟨[1, 3, 9999, 1], true, [1]⟩]) = [⟨[1, 3, 9999, 1], false, [1]⟩] := by decide

set_option maxRecDepth 1000000 in
/-- FULL: `csr_roundtrip` — for EVERY template (Attributes empty, RawSubject a valid Name, IP addresses of 4 or 16 octets,
    extra-extension OIDs within MaxInt32) `parseCSR (createCSR … t sig) = .ok ⟨0, t.subject, sig, (csrExts t).map (critical := false),
    SANs of t (IPs through To4) or those of the last caller-supplied subjectAltName⟩`.
    Proved here: the list-level rules for all templates (`csr_extras_kept`, `csr_san_rule`, `csr_no_extensions`,
    `csr_critical_not_encoded`) and the byte-level round trip through `ZV.C18.unmarshal` on the named shapes below;
    missing for the general statement: lemmas that run `ZV.C18.unmarshal` symbolically over the DerLite writer's output
    (or the create side restated as `ZV.C18.marshal`, so that `unmarshal_marshal` of C18 applies to each of the four
    nested Unmarshal calls). -/
theorem csr_roundtrip_partial :
    -- nothing requested
    sampleCsr [] [] [] [] = .ok ⟨0, sampleIssuer.subject, ([0xab], 8), [], {}⟩ ∧
    -- SAN only: DNS, e-mail, IPv4, IPv4-in-IPv6 (written in 4 octets), IPv6
    sampleCsr [[0x61, 0x2e, 0x62]] [[0x78, 0x40, 0x79]] [[10, 0, 0, 1], [0, 0, 0, 0, 0, 0, 0, 0, 0, 0, 0xff, 0xff, 1, 2, 3, 4],
        [0x20, 1, 0, 0, 0, 0, 0, 0, 0, 0, 0, 0, 0, 0, 0, 9]] [] =
      .ok ⟨0, sampleIssuer.subject, ([0xab], 8),
        [⟨[2, 5, 29, 17], false, buildSAN [[0x61, 0x2e, 0x62]] [[0x78, 0x40, 0x79]] [[10, 0, 0, 1], [1, 2, 3, 4],
          [0x20, 1, 0, 0, 0, 0, 0, 0, 0, 0, 0, 0, 0, 0, 0, 9]]⟩],
        ⟨[[0x61, 0x2e, 0x62]], [[0x78, 0x40, 0x79]], [[10, 0, 0, 1], [1, 2, 3, 4], [0x20, 1, 0, 0, 0, 0, 0, 0, 0, 0, 0, 0, 0, 0, 0, 9]]⟩⟩ ∧
    -- extras only, in order, values kept (an empty value too)
    exts (sampleCsr [] [] [] [⟨[1, 3, 9999, 2], false, []⟩, ⟨[2, 5, 29, 2147483647], false, [9, 9]⟩]) =
      [⟨[1, 3, 9999, 2], false, []⟩, ⟨[2, 5, 29, 2147483647], false, [9, 9]⟩] ∧
    -- SAN fields and extras: the generated subjectAltName comes first
    (exts (sampleCsr [[0x61]] [] [] [⟨[1, 3, 9999, 2], false, [7]⟩])).map (·.oid) = [[2, 5, 29, 17], [1, 3, 9999, 2]] ∧
    -- a caller-supplied subjectAltName overrides the name fields: no generated extension, the parsed names are the caller's
    sans (sampleCsr [[0x61]] [] [] [⟨[2, 5, 29, 17], false, [0x30, 3, 0x82, 1, 0x7a]⟩]) = ⟨[[0x7a]], [], []⟩ := by
  decide

end Csr


/-! ### legacy `Certificate.CreateCRL` (create side; model `ZV.C05.Legacy`, T2 op `c05 crlm`) -/
namespace Legacy

/-- **legacy entries = v2 entries on the common domain**: an entry without reason code whose extensions contain no
    reasonCode extension is written by `CreateCRL` exactly as `CreateRevocationList` writes it — so `entryT_roundtrip` and
    `list_time_roundtrip` (same `encTimeG`) apply to the legacy path's entries and update times as they stand. -/
theorem legacy_entry_eq_v2 (e : CRLEntry) (h : e.exts.all (fun x => x.oid != reasonOID) = true) :
    encCRLEntry e = encEntryT ⟨e.serial, e.time, none, e.exts⟩ := by
  have hs : EntryT.synth ⟨e.serial, e.time, none, e.exts⟩ = e.exts := by
    simp only [EntryT.synth, synthExts, normReason, List.append_nil]
    exact List.filter_eq_self.mpr (fun x hx => List.all_eq_true.mp h x hx)
  unfold encCRLEntry encEntryT
  rw [hs]
  rfl

example : (⟨5, ⟨0, 0, 0⟩, [⟨[2, 5, 29, 24], true, [0x18, 0]⟩]⟩ : CRLEntry).exts.all (fun x => x.oid != reasonOID) = true := by decide

/-- the legacy path always writes the `revokedCertificates` field (empty SEQUENCE for no entries) and no cRLNumber; without a
    subject key id there is no extensions field at all -/
theorem legacy_empty_shape (sigAI name : Bytes) (now expiry : GoTime) (tu nu : Bytes)
    (h1 : encTimeG (utc now) = .ok tu) (h2 : encNextUpdate expiry = .ok nu) :
    createLegacyTBS sigAI name [] [] now expiry =
      .ok (tlv 0x30 (tlv 0x02 [1] ++ (sigAI ++ (name ++ (tu ++ (nu ++ [0x30, 0])))))) := by
  simp [createLegacyTBS, mapRes, bind_ok, h1, h2, tlv, writeTLV, encLen]

example : (encTimeG (utc ⟨0, 0, 0⟩)).isOk = true ∧ (encNextUpdate ⟨-62135596800, 0, 0⟩) = .ok [] := by decide

end Legacy

end ZV.C05
