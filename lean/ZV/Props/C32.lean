import ZV.Model.C32
import ZV.Proofs.C32
/-!
  C32 — TLS endpoints survive arbitrary peer behaviour.

  Proved here, for EVERY byte stream and every reader state, about the model of the record reader's framing loop
  (readRecordOrCCS + retryReadRecord + readHandshake, no cipher yet — the state in which an arbitrary peer talks to us):

  * `reader_total`              one call of the record reader never panics (every index expression is guarded), and either
                                returns an error or has consumed at least one whole record (≥ 5 bytes); the consumed byte
                                count is exactly the advance of the stream.
  * `useless_records_bounded`   the consecutive-useless-record counter never exceeds `maxUselessRecords` after a successful read
                                (so at most 16 warning alerts / TLS 1.3 CCS records are skipped in a row).
  * `handshake_buffer_bounded`  readHandshake never panics; a delivered message has at most 4 + maxHandshake bytes and the
                                reassembly buffer always stays below 4 + maxHandshake + maxPlaintext bytes.
  * `handshake_progress`        every delivered message took ≥ 4 bytes out of the stream+buffer: the loop terminates.
  and, for EVERY record length, record content and result of the cryptographic primitives, about the model of
  `halfConn.decrypt` + `extractPadding` (stream, CBC with implicit / explicit IV, AEAD with explicit / implicit nonce,
  TLS 1.3; the decrypted bytes and the MAC / tag verdict are inputs of the model, no cryptography is modelled):

  * `decrypt_no_panic`          no slice, index or modulus expression of decrypt can fail: a protected record of any length
                                (0 included) and any content is answered with a plaintext or an alert, never a panic.
  * `cbc_short_record_rejected` a CBC record shorter than explicit IV + MAC + one padding byte — the empty record in
                                particular — is answered with bad_record_mac before anything is sliced.
  * `aead_short_record_rejected` an AEAD record shorter than its explicit nonce is answered with bad_record_mac.
  * `mac_delivers_only_authenticated` the MAC tail hands out a plaintext only when the MAC comparison succeeded.
  The state machines on top of the reader, the message parsers and the cryptography of the encrypted phase are NOT
  modelled: they are explored by the T3 matrix (every position of genuine transcripts in the thorough tier, structured
  forgeries with consistent framing).
  -- FULL (not proved): `skx_parse_no_panic` for the ServerKeyExchange / ClientKeyExchange parameter parsers with raw
  -- index expressions; their accept/reject behaviour is modelled (Option-valued) and T2-tied under C28, and flips at
  -- every position of those messages are part of the T3 matrix here.
-/
namespace ZV.C32

theorem reader_total (vers : Nat) (st : St) (s : Bytes) :
    readRecord vers st s ≠ .panic ∧
    ∀ st' rest, readRecord vers st s = .ok st' rest →
      rest.length + 5 ≤ s.length ∧ st'.pos - st.pos = s.length - rest.length ∧ st.pos ≤ st'.pos := by
  have h := readRecord_good vers st s
  constructor
  · intro hp; rw [hp] at h; exact h
  · intro st' rest he
    rw [he] at h
    exact ⟨h.1, h.2.1, h.2.2.1⟩

theorem useless_records_bounded (vers : Nat) (st : St) (s : Bytes) (h0 : st.retry ≤ maxUselessRecords)
    (st' : St) (rest : Bytes) (he : readRecord vers st s = .ok st' rest) :
    st'.retry ≤ maxUselessRecords := by
  have h := readRecord_good vers st s
  rw [he] at h
  have := h.2.2.2.1
  rw [Nat.max_eq_right h0] at this
  exact this

theorem record_adds_at_most_maxPlaintext (vers : Nat) (st : St) (s : Bytes) (st' : St) (rest : Bytes)
    (he : readRecord vers st s = .ok st' rest) :
    st.hand.length < st'.hand.length ∧ st'.hand.length ≤ st.hand.length + maxPlaintext := by
  have h := readRecord_good vers st s
  rw [he] at h
  exact ⟨h.2.2.2.2.1, h.2.2.2.2.2⟩

theorem handshake_buffer_bounded (vers : Nat) (st : St) (s : Bytes) (h0 : st.hand.length < bufBound) :
    readHandshake vers st s ≠ .panic ∧
    (∀ t len st' rest, readHandshake vers st s = .msg t len st' rest →
        len ≤ 4 + maxHandshake ∧ st'.hand.length < bufBound ∧ st'.retry ≤ max st.retry maxUselessRecords) ∧
    (∀ st', readHandshake vers st s = .complex st' → st'.hand.length < bufBound) := by
  have h := readHandshake_good vers st s h0
  refine ⟨?_, ?_, ?_⟩
  · intro hp; rw [hp] at h; exact h
  · intro t len st' rest he
    rw [he] at h
    exact ⟨h.2.1, h.2.2.1, h.2.2.2.2⟩
  · intro st' he
    rw [he] at h
    exact h.1

theorem handshake_progress (vers : Nat) (st : St) (s : Bytes) (h0 : st.hand.length < bufBound)
    (t len : Nat) (st' : St) (rest : Bytes) (he : readHandshake vers st s = .msg t len st' rest) :
    4 ≤ len ∧ rest.length ≤ s.length := by
  have h := readHandshake_good vers st s h0
  rw [he] at h
  exact ⟨h.1, h.2.2.2.1⟩

/-- the hypotheses are satisfiable (initial state) and the success case is inhabited -/
example : ∃ st' rest, readRecord 0x0303 ⟨[], 0, 0⟩ [22, 3, 3, 0, 1, 14] = .ok st' rest := by
  refine ⟨⟨[14], 0, 6⟩, [], ?_⟩
  unfold readRecord
  simp [maxCiphertext, maxCiphertextTLS13, maxPlaintext]
example : (⟨[], 0, 0⟩ : St).retry ≤ maxUselessRecords := by decide
example : (⟨[], 0, 0⟩ : St).hand.length < bufBound := by decide

theorem decrypt_no_panic (hc : HC) (hwf : hc.WF) (typ : Nat) (payload dec : Bytes) (auth : Bool) :
    decrypt hc typ payload dec auth ≠ .panic :=
  decrypt_ne_panic hc hwf typ payload dec auth

theorem cbc_short_record_rejected (hc : HC) (hwf : hc.WF) (hk : hc.kind = .cbc) (typ : Nat) (payload dec : Bytes) (auth : Bool)
    (hccs : ¬ (hc.vers = 0x0304 ∧ typ = 20))
    (hlen : payload.length < explicitNonceLen hc + hc.macSize + 1) :
    decrypt hc typ payload dec auth = .alert alertBadRecordMAC := by
  obtain ⟨hb, hm⟩ := hwf hk
  unfold decrypt
  rw [if_neg hccs]
  simp only [hk]
  have hnm : ¬ (¬ hc.hasMac = true) := by simp [hm]
  rw [if_neg hnm]
  have hru : roundUp (hc.macSize + 1) hc.block = .ok (hc.macSize + 1 + (hc.block - (hc.macSize + 1) % hc.block) % hc.block) := by
    unfold roundUp; rw [if_neg]; omega
  rw [hru]
  simp only
  rw [if_pos]
  right
  omega

theorem aead_short_record_rejected (hc : HC) (hk : hc.kind = .aead) (typ : Nat) (payload dec : Bytes) (auth : Bool)
    (hccs : ¬ (hc.vers = 0x0304 ∧ typ = 20)) (hlen : payload.length < hc.nonce) :
    decrypt hc typ payload dec auth = .alert alertBadRecordMAC := by
  unfold decrypt
  rw [if_neg hccs]
  simp only [hk]
  rw [if_pos]
  simp [explicitNonceLen, hk, hlen]

theorem mac_delivers_only_authenticated (hc : HC) (typ pl : Nat) (payload : Bytes) (padLen : Nat) (good auth : Bool) (t n : Nat)
    (hm : hc.hasMac = true) (h : macPart hc typ pl payload padLen good auth = .plain t n) : auth = true :=
  macPart_plain_auth hc typ pl payload padLen good auth t n hm h

/-- the hypotheses are satisfiable: AES-128-CBC-SHA at TLS 1.2 is well-formed, and its EMPTY record is short -/
example : (⟨.cbc, 0x0303, 16, 0, 0, true, 20⟩ : HC).WF := fun _ => ⟨by decide, rfl⟩
example : ([] : Bytes).length < explicitNonceLen ⟨.cbc, 0x0303, 16, 0, 0, true, 20⟩ + 20 + 1 := by decide
example : decrypt ⟨.cbc, 0x0303, 16, 0, 0, true, 20⟩ 23 [] [] false = .alert alertBadRecordMAC :=
  cbc_short_record_rejected _ (fun _ => ⟨by decide, rfl⟩) rfl 23 [] [] false (by decide) (by decide)
example : ([] : Bytes).length < (⟨.aead, 0x0303, 0, 8, 16, false, 0⟩ : HC).nonce := by decide

end ZV.C32