import ZV.Model.C32
import ZV.Proofs.C32
import ZV.Model.C32Kx
import ZV.Proofs.C32Kx
/-!
  C32 — TLS endpoints survive arbitrary peer behaviour.

  Proved here, for EVERY byte stream and every reader state, about the model of the record reader's framing loop
  (readRecordOrCCS + retryReadRecord + readHandshake, no cipher yet — the state in which an arbitrary peer talks to us):

  * `reader_total`              one call of the record reader never panics (every index expression is guarded), and either
                                returns an error or has consumed at least one whole record (≥ 5 bytes); the consumed byte
                                count is exactly the advance of the stream.
  * `useless_records_bounded`   the consecutive-useless-record counter never exceeds `maxUselessRecords` after a successful read
                                (so at most 16 warning alerts / TLS 1.3 CCS records are skipped in a row).
  * `handshake_buffer_bounded`  readHandshake never panics; a delivered message has at most 4 + maxHandshake bytes and the
                                reassembly buffer always stays below 4 + maxHandshake + maxPlaintext bytes.
  * `handshake_progress`        every delivered message took ≥ 4 bytes out of the stream+buffer: the loop terminates.
  and, for EVERY record length, record content and result of the cryptographic primitives, about the model of
  `halfConn.decrypt` + `extractPadding` (stream, CBC with implicit / explicit IV, AEAD with explicit / implicit nonce,
  TLS 1.3; the decrypted bytes and the MAC / tag verdict are inputs of the model, no cryptography is modelled):

  * `decrypt_no_panic`          no slice, index or modulus expression of decrypt can fail: a protected record of any length
                                (0 included) and any content is answered with a plaintext or an alert, never a panic.
  * `cbc_short_record_rejected` a CBC record shorter than explicit IV + MAC + one padding byte — the empty record in
                                particular — is answered with bad_record_mac before anything is sliced.
  * `aead_short_record_rejected` an AEAD record shorter than its explicit nonce is answered with bad_record_mac.
  * `mac_delivers_only_authenticated` the MAC tail hands out a plaintext only when the MAC comparison succeeded.
  and, for EVERY message (any bytes, any length), every protocol version and every client configuration, about the model
  of the key-exchange parameter parsers of tls/key_agreement.go (ZV.Model.C32Kx: serverKeyExchangeMsg.unmarshal +
  ecdheKeyAgreement.processServerKeyExchange; + dheKeyAgreement.processServerKeyExchange + verifyParameters;
  clientKeyExchangeMsg.unmarshal + processClientKeyExchange of the RSA, ECDHE and DHE key agreements) in which every Go
  index expression and every slice expression is a partial operation that yields `.panic` when out of range:

  * `skx_parse_no_panic`        the ECDHE ServerKeyExchange parser never panics (curve type, curve id, point length, share,
                                2-byte algorithm at TLS 1.2, 2-byte length, signature: every access is behind a guard).
  * `skx_dhe_parse_no_panic`    the DHE ServerKeyExchange parser (p, g, Ys, signature block incl. the hash-id lookup of
                                verifyParameters) never panics — unconditionally, for every client (signature, hash) list.
                                (False before the fix of F-C32-skx-hash-lookup, commit "fix: ServerKeyExchange signing/
                                verification returns an error instead of panicking …": the model of the old code panicked
                                on a configured pair whose hash id has no entry in `supportedHashFunc`.)
  * `skx_dhe_unknown_hash_is_error`  the lookup failure is an error: at TLS ≥ 1.2 an accepted DHE message names a hash id
                                with an entry in `supportedHashFunc` (1..6), whatever the client configured;
                                `skx_hash_lookup_rejected`: the former crashing input is refused.
  * `skx_sig_guard_load_bearing` without the `len(sig) < 2` guards the signature tail does panic (non-vacuity).
  * `ckx_parse_no_panic`        the three ClientKeyExchange parsers (RSA encrypted pre-master secret with its 2-byte length,
                                ECDHE point with its 1-byte length, DHE Yc) never panic.
  * `skx_consumes_all` / `skx_dhe_consumes_all` / `ckx_consumes_all`   consumption: an accepted message is EXACTLY the
                                concatenation header ‖ fields with every length prefix equal to the length of its field —
                                no byte is skipped, none is read twice, nothing trails; share ≤ 255 bytes, signature /
                                parameters ≤ 65535 bytes; the DHE share satisfies 0 < Ys < p; the signed DHE parameters are
                                the body without the signature block.
  * `dhe_parser_guarantees_modulus` / `dhe_gen_panics_iff` / `dhe_client_step_no_panic` (+ `…_verified`)   the step BEHIND
                                the parser: generateClientKeyExchange hands `ka.p` to crypto/rand.Int, which panics on a
                                bound ≤ 0 — the step panics exactly when p = 0; the parser (0 < Ys < p) guarantees p ≥ 2, for
                                the verifying and for the InsecureSkipVerify client (`skx_dhe_skipverify_no_panic`: dropping
                                the signature verdict lets no panic through either), so no accepted ServerKeyExchange makes
                                the client step panic, whatever exponent is drawn. The margin is exactly 2
                                (`dhe_modulus_two_accepted`): a bound `p - k`, k ≥ 2, handed to rand.Int is NOT covered.
  * `dhe_ckx_roundtrip`         the ClientKeyExchange the client then sends (2-byte length ‖ Yc, Yc = g^x mod p, any x) is
                                accepted by the server-side parser for the same modulus exactly when Yc ≠ 0 and parsed
                                back to Yc; the pre-master secret is Ys^x mod p.
  The state machines on top of the reader, the other message parsers and the cryptography of the encrypted phase are
  NOT modelled: they are explored by the T3 matrix (every position of genuine transcripts in the thorough tier,
  structured forgeries with consistent framing).
-/
namespace ZV.C32

theorem reader_total (vers : Nat) (st : St) (s : Bytes) :
    readRecord vers st s ≠ .panic ∧
    ∀ st' rest, readRecord vers st s = .ok st' rest →
      rest.length + 5 ≤ s.length ∧ st'.pos - st.pos = s.length - rest.length ∧ st.pos ≤ st'.pos := by
  have h := readRecord_good vers st s
  constructor
  · intro hp; rw [hp] at h; exact h
  · intro st' rest he
    rw [he] at h
    exact ⟨h.1, h.2.1, h.2.2.1⟩

theorem useless_records_bounded (vers : Nat) (st : St) (s : Bytes) (h0 : st.retry ≤ maxUselessRecords)
    (st' : St) (rest : Bytes) (he : readRecord vers st s = .ok st' rest) :
    st'.retry ≤ maxUselessRecords := by
  have h := readRecord_good vers st s
  rw [he] at h
  have := h.2.2.2.1
  rw [Nat.max_eq_right h0] at this
  exact this

theorem record_adds_at_most_maxPlaintext (vers : Nat) (st : St) (s : Bytes) (st' : St) (rest : Bytes)
    (he : readRecord vers st s = .ok st' rest) :
    st.hand.length < st'.hand.length ∧ st'.hand.length ≤ st.hand.length + maxPlaintext := by
  have h := readRecord_good vers st s
  rw [he] at h
  exact ⟨h.2.2.2.2.1, h.2.2.2.2.2⟩

theorem handshake_buffer_bounded (vers : Nat) (st : St) (s : Bytes) (h0 : st.hand.length < bufBound) :
    readHandshake vers st s ≠ .panic ∧
    (∀ t len st' rest, readHandshake vers st s = .msg t len st' rest →
        len ≤ 4 + maxHandshake ∧ st'.hand.length < bufBound ∧ st'.retry ≤ max st.retry maxUselessRecords) ∧
    (∀ st', readHandshake vers st s = .complex st' → st'.hand.length < bufBound) := by
  have h := readHandshake_good vers st s h0
  refine ⟨?_, ?_, ?_⟩
  · intro hp; rw [hp] at h; exact h
  · intro t len st' rest he
    rw [he] at h
    exact ⟨h.2.1, h.2.2.1, h.2.2.2.2⟩
  · intro st' he
    rw [he] at h
    exact h.1

theorem handshake_progress (vers : Nat) (st : St) (s : Bytes) (h0 : st.hand.length < bufBound)
    (t len : Nat) (st' : St) (rest : Bytes) (he : readHandshake vers st s = .msg t len st' rest) :
    4 ≤ len ∧ rest.length ≤ s.length := by
  have h := readHandshake_good vers st s h0
  rw [he] at h
  exact ⟨h.1, h.2.2.2.1⟩

/-- the hypotheses are satisfiable (initial state) and the success case is inhabited -/
example : ∃ st' rest, readRecord 0x0303 ⟨[], 0, 0⟩ [22, 3, 3, 0, 1, 14] = .ok st' rest := by
  refine ⟨⟨[14], 0, 6⟩, [], ?_⟩
  unfold readRecord
  simp [maxCiphertext, maxCiphertextTLS13, maxPlaintext]
example : (⟨[], 0, 0⟩ : St).retry ≤ maxUselessRecords := by decide
example : (⟨[], 0, 0⟩ : St).hand.length < bufBound := by decide

theorem decrypt_no_panic (hc : HC) (hwf : hc.WF) (typ : Nat) (payload dec : Bytes) (auth : Bool) :
    decrypt hc typ payload dec auth ≠ .panic :=
  decrypt_ne_panic hc hwf typ payload dec auth

theorem cbc_short_record_rejected (hc : HC) (hwf : hc.WF) (hk : hc.kind = .cbc) (typ : Nat) (payload dec : Bytes) (auth : Bool)
    (hccs : ¬ (hc.vers = 0x0304 ∧ typ = 20))
    (hlen : payload.length < explicitNonceLen hc + hc.macSize + 1) :
    decrypt hc typ payload dec auth = .alert alertBadRecordMAC := by
  obtain ⟨hb, hm⟩ := hwf hk
  unfold decrypt
  rw [if_neg hccs]
  simp only [hk]
  have hnm : ¬ (¬ hc.hasMac = true) := by simp [hm]
  rw [if_neg hnm]
  have hru : roundUp (hc.macSize + 1) hc.block = .ok (hc.macSize + 1 + (hc.block - (hc.macSize + 1) % hc.block) % hc.block) := by
    unfold roundUp; rw [if_neg]; omega
  rw [hru]
  simp only
  rw [if_pos]
  right
  omega

theorem aead_short_record_rejected (hc : HC) (hk : hc.kind = .aead) (typ : Nat) (payload dec : Bytes) (auth : Bool)
    (hccs : ¬ (hc.vers = 0x0304 ∧ typ = 20)) (hlen : payload.length < hc.nonce) :
    decrypt hc typ payload dec auth = .alert alertBadRecordMAC := by
  unfold decrypt
  rw [if_neg hccs]
  simp only [hk]
  rw [if_pos]
  simp [explicitNonceLen, hk, hlen]

theorem mac_delivers_only_authenticated (hc : HC) (typ pl : Nat) (payload : Bytes) (padLen : Nat) (good auth : Bool) (t n : Nat)
    (hm : hc.hasMac = true) (h : macPart hc typ pl payload padLen good auth = .plain t n) : auth = true :=
  macPart_plain_auth hc typ pl payload padLen good auth t n hm h

/-- the hypotheses are satisfiable: AES-128-CBC-SHA at TLS 1.2 is well-formed, and its EMPTY record is short -/
example : (⟨.cbc, 0x0303, 16, 0, 0, true, 20⟩ : HC).WF := fun _ => ⟨by decide, rfl⟩
example : ([] : Bytes).length < explicitNonceLen ⟨.cbc, 0x0303, 16, 0, 0, true, 20⟩ + 20 + 1 := by decide
example : decrypt ⟨.cbc, 0x0303, 16, 0, 0, true, 20⟩ 23 [] [] false = .alert alertBadRecordMAC :=
  cbc_short_record_rejected _ (fun _ => ⟨by decide, rfl⟩) rfl 23 [] [] false (by decide) (by decide)
example : ([] : Bytes).length < (⟨.aead, 0x0303, 0, 8, 16, false, 0⟩ : HC).nonce := by decide

/-! ## key-exchange parameter parsers -/

/-- ECDHE ServerKeyExchange: no message, version, suite, certificate key or client list makes the parser panic -/
theorem skx_parse_no_panic (c : EcdheCtx) (msg : Bytes) : ecdheSKXMsg c msg ≠ .panic := by
  unfold ecdheSKXMsg
  rcases skxUnmarshal_spec msg with ⟨_, h⟩ | ⟨_, h⟩
  · rw [h]; simp
  · rw [h]
    simp only
    rcases ecdheSKX_spec c (msg.drop 4) with he | ⟨_, _, _, _, _, _, _, _, _, _, _, _, _, _, _, _, _, _, hok⟩
    · rw [he]; simp
    · rw [hok]; simp

/-- DHE ServerKeyExchange: no message, version, suite signature or client (signature, hash) list makes the parser panic -/
theorem skx_dhe_parse_no_panic (c : DheCtx) (msg : Bytes) : dheSKXMsg c msg ≠ .panic := by
  unfold dheSKXMsg
  rcases skxUnmarshal_spec msg with ⟨_, h⟩ | ⟨_, h⟩
  · rw [h]; simp
  · rw [h]
    simp only
    rcases dheSKX_spec c (msg.drop 4) with he |
      ⟨_, _, _, _, _, _, _, _, _, _, _, _, _, _, _, _, _, _, _, _, _, _, _, hok⟩
    · rw [he]; simp
    · rw [hok]; simp

/-- the hash-id lookup failure is an ERROR: whatever pairs the client configured, a DHE ServerKeyExchange that is
    parsed to the end at TLS ≥ 1.2 names a hash with an entry in `supportedHashFunc` -/
theorem skx_dhe_unknown_hash_is_error (c : DheCtx) (msg : Bytes) (o : DheSkx) (h : dheSKXMsg c msg = .ok o)
    (hv : c.vers ≥ versionTLS12) : hashKnown o.hashId = true := by
  unfold dheSKXMsg at h
  rcases skxUnmarshal_spec msg with ⟨_, hu⟩ | ⟨_, hu⟩
  · rw [hu] at h; cases h
  rw [hu] at h
  simp only at h
  rcases dheSKX_spec c (msg.drop 4) with he |
    ⟨_, _, _, _, _, _, _, _, _, _, _, _, _, hid, _, _, _, _, _, _, _, h12, _, hok⟩
  · rw [he] at h; cases h
  rw [hok] at h
  cases h
  obtain ⟨hb, _, _, rfl, _, _, hk⟩ := h12 hv
  exact hk

/-- the former counter-example (finding F-C32-skx-hash-lookup, fixed): a client whose Config.SignatureAndHashes contains
    (RSA, hash 0) REFUSES this 17-byte DHE_RSA ServerKeyExchange at TLS 1.2 (p = 0x17, g = 5, Ys = 8, algorithm bytes
    00 01, empty signature) instead of panicking.  Same line on the Go code: `c32 kx dskx 771 0 1:0,1:4 …` -/
theorem skx_hash_lookup_rejected : dheSKXMsg ⟨0x0303, signatureRSA, [(1, 0), (1, 4)]⟩
    [0x0c, 0, 0, 0x0d, 0, 1, 0x17, 0, 1, 5, 0, 1, 8, 0, 1, 0, 0] = .err := by decide
/-- … while a known hash at TLS 1.2 is parsed -/
example : (dheSKXMsg ⟨0x0303, signatureRSA, [(1, 0), (1, 4)]⟩
    [0x0c, 0, 0, 0x0d, 0, 1, 0x17, 0, 1, 5, 0, 1, 8, 4, 1, 0, 0]).isOk = true := by decide
example : (dheSKXMsg ⟨0x0303, signatureRSA, defaultSKXSignatureAlgorithms⟩
    [12, 0, 0, 14, 0, 1, 0x17, 0, 1, 5, 0, 1, 8, 4, 1, 0, 1, 9]).isOk = true ∧ (0x0303 : Nat) ≥ versionTLS12 := by decide

/-- the guards are load-bearing (the no-panic theorems are not vacuous): handed a signature block shorter than two bytes —
    what the `len(sig) < 2` checks of processServerKeyExchange exclude — the tail of the ECDHE parser DOES panic -/
theorem skx_sig_guard_load_bearing (c : EcdheCtx) (curve : Nat) (pub : Bytes) (t h : Nat) (sig : Bytes)
    (hs : sig.length < 2) (hr : (decide (t = signaturePKCS1v15) || decide (t = signatureRSAPSS)) = c.isRSA) :
    ecdheSigTail c curve pub t h sig = .panic := by
  unfold ecdheSigTail
  rw [if_neg (by simp [hr])]
  match sig, hs with
  | [], _ => rfl
  | [_], _ => rfl

example : ([7] : Bytes).length < 2 := by decide

/-- ClientKeyExchange (RSA / ECDHE / DHE): no message makes the server-side parser panic -/
theorem ckx_parse_no_panic (k : CkxKind) (msg : Bytes) : ckxMsg k msg ≠ .panic := by
  unfold ckxMsg
  rcases ckxUnmarshal_spec msg with h | ⟨_, _, _, _, ct, _, _, h⟩
  · rw [h]; simp
  · rw [h]
    simp only
    cases k with
    | rsa =>
      simp only
      rcases rsaCKX_spec ct with he | ⟨_, _, _, _, _, hok⟩
      · rw [he]; simp
      · rw [hok]; simp
    | ecdhe ok =>
      simp only
      rcases ecdheCKX_spec ok ct with he | ⟨_, _, _, _, _, hok⟩
      · rw [he]; simp
      · rw [hok]; simp
    | dhe p =>
      simp only
      rcases dheCKX_spec p ct with he | ⟨_, _, _, _, _, _, _, hok⟩
      · rw [he]; simp
      · rw [hok]; simp

/-- consumption, ECDHE ServerKeyExchange: an accepted message is exactly
    header(4) ‖ 03 ‖ curve(2) ‖ len(1) ‖ share ‖ [algorithm(2) at TLS ≥ 1.2] ‖ len(2) ‖ signature -/
theorem skx_consumes_all (c : EcdheCtx) (msg : Bytes) (o : EcdheSkx) (h : ecdheSKXMsg c msg = .ok o) :
    ∃ hdr c1 c2 pl algB l1 l2,
      msg = hdr ++ 3 :: c1 :: c2 :: pl :: (o.pub ++ (algB ++ l1 :: l2 :: o.sig)) ∧ hdr.length = 4 ∧
      o.curve = be16 c1 c2 ∧ curveSupported o.curve = true ∧ pl.toNat = o.pub.length ∧ be16 l1 l2 = o.sig.length ∧
      algB.length = (if c.vers ≥ versionTLS12 then 2 else 0) ∧
      (∀ a b, algB = [a, b] → typeAndHash (be16 a b) = some (o.sigType, o.hashId) ∧ c.clientSigAlgs.contains (be16 a b) = true) ∧
      msg.length = 4 + 4 + o.pub.length + algB.length + 2 + o.sig.length ∧
      o.pub.length ≤ 255 ∧ o.sig.length ≤ 65535 := by
  unfold ecdheSKXMsg at h
  rcases skxUnmarshal_spec msg with ⟨_, hu⟩ | ⟨h4, hu⟩
  · rw [hu] at h; cases h
  rw [hu] at h
  simp only at h
  rcases ecdheSKX_spec c (msg.drop 4) with he | ⟨c1, c2, pl, pub, algB, l1, l2, raw, t, hh, hkey, hpl, hl, hcs, _, h12, h10, _, hok⟩
  · rw [he] at h; cases h
  rw [hok] at h
  cases h
  have hm : msg = msg.take 4 ++ 3 :: c1 :: c2 :: pl :: (pub ++ (algB ++ l1 :: l2 :: raw)) := by
    rw [← hkey, List.take_append_drop]
  have halg : algB.length = (if c.vers ≥ versionTLS12 then 2 else 0) := by
    by_cases hv : c.vers ≥ versionTLS12
    · obtain ⟨a, b, rfl, _, _⟩ := h12 hv; simp [hv]
    · obtain ⟨rfl, _⟩ := h10 (by omega); simp [hv]
  have hplb := pl.toNat_lt
  have hlb := be16_lt l1 l2
  refine ⟨msg.take 4, c1, c2, pl, algB, l1, l2, hm, by rw [List.length_take]; omega, rfl, hcs, hpl, hl, halg, ?_, ?_,
    by simp only; omega, by simp only; omega⟩
  · intro a b hab
    by_cases hv : c.vers ≥ versionTLS12
    · obtain ⟨a', b', e, hta, hc⟩ := h12 hv
      rw [hab] at e
      simp only [List.cons.injEq, and_true] at e
      obtain ⟨rfl, rfl⟩ := e
      exact ⟨hta, hc⟩
    · obtain ⟨e, _⟩ := h10 (by omega)
      rw [hab] at e; cases e
  · have := congrArg List.length hm
    simp only [List.length_append, List.length_cons, List.length_take] at this
    simp only
    omega

/-- consumption, DHE ServerKeyExchange: an accepted message is exactly
    header(4) ‖ len‖p ‖ len‖g ‖ len‖Ys ‖ [hash, signature at TLS ≥ 1.2] ‖ len(2) ‖ signature,
    0 < Ys < p, and the signed parameters are the body up to the signature block -/
theorem skx_dhe_consumes_all (c : DheCtx) (msg : Bytes) (o : DheSkx)
    (h : dheSKXMsg c msg = .ok o) :
    ∃ hdr a1 a2 b1 b2 c1 c2 algB l1 l2,
      msg = hdr ++ a1 :: a2 :: (o.p ++ b1 :: b2 :: (o.g ++ c1 :: c2 :: (o.ys ++ (algB ++ l1 :: l2 :: o.sig)))) ∧
      hdr.length = 4 ∧ be16 a1 a2 = o.p.length ∧ be16 b1 b2 = o.g.length ∧ be16 c1 c2 = o.ys.length ∧
      be16 l1 l2 = o.sig.length ∧ 0 < natOf o.ys ∧ natOf o.ys < natOf o.p ∧
      o.params = a1 :: a2 :: (o.p ++ b1 :: b2 :: (o.g ++ c1 :: c2 :: o.ys)) ∧
      algB.length = (if c.vers ≥ versionTLS12 then 2 else 0) ∧
      (∀ hb sb, algB = [hb, sb] → o.hashId = hb.toNat ∧ sb.toNat = c.sigType ∧ (c.sigType, hb.toNat) ∈ c.clientSigHashes) ∧
      msg.length = 4 + 6 + o.p.length + o.g.length + o.ys.length + algB.length + 2 + o.sig.length ∧
      o.p.length ≤ 65535 ∧ o.g.length ≤ 65535 ∧ o.ys.length ≤ 65535 ∧ o.sig.length ≤ 65535 := by
  unfold dheSKXMsg at h
  rcases skxUnmarshal_spec msg with ⟨_, hu⟩ | ⟨h4, hu⟩
  · rw [hu] at h; cases h
  rw [hu] at h
  simp only at h
  rcases dheSKX_spec c (msg.drop 4) with he |
    ⟨a1, a2, p, b1, b2, g, c1, c2, ys, algB, l1, l2, raw, hid, hkey, hp, hg, hy, hl, hy0, hyp, h12, h10, hok⟩
  · rw [he] at h; cases h
  rw [hok] at h
  cases h
  have hm : msg = msg.take 4 ++ a1 :: a2 :: (p ++ b1 :: b2 :: (g ++ c1 :: c2 :: (ys ++ (algB ++ l1 :: l2 :: raw)))) := by
    rw [← hkey, List.take_append_drop]
  have halg : algB.length = (if c.vers ≥ versionTLS12 then 2 else 0) := by
    by_cases hv : c.vers ≥ versionTLS12
    · obtain ⟨a, b, rfl, _⟩ := h12 hv; simp [hv]
    · obtain ⟨rfl, _⟩ := h10 (by omega); simp [hv]
  have b1' := be16_lt a1 a2
  have b2' := be16_lt b1 b2
  have b3' := be16_lt c1 c2
  have b4' := be16_lt l1 l2
  refine ⟨msg.take 4, a1, a2, b1, b2, c1, c2, algB, l1, l2, hm, by rw [List.length_take]; omega, hp, hg, hy, hl, hy0, hyp,
    rfl, halg, ?_, ?_, by simp only; omega, by simp only; omega, by simp only; omega, by simp only; omega⟩
  · intro hb sb hab
    by_cases hv : c.vers ≥ versionTLS12
    · obtain ⟨h', s', e, hh, hs, hmem, _⟩ := h12 hv
      rw [hab] at e
      simp only [List.cons.injEq, and_true] at e
      obtain ⟨rfl, rfl⟩ := e
      exact ⟨hh, hs, hmem⟩
    · obtain ⟨e, _⟩ := h10 (by omega)
      rw [hab] at e; cases e
  · have := congrArg List.length hm
    simp only [List.length_append, List.length_cons, List.length_take] at this
    simp only
    omega

/-! ## the client step behind the DHE parser -/

/-- an InsecureSkipVerify client (the signature verdict is dropped): still no panic, for every message -/
theorem skx_dhe_skipverify_no_panic (c : DheCtx) (msg : Bytes) : dheSKXSkipVerifyMsg c msg ≠ .panic := by
  unfold dheSKXSkipVerifyMsg
  rcases skxUnmarshal_spec msg with ⟨_, h⟩ | ⟨_, h⟩
  · rw [h]; simp
  · rw [h]
    simp only
    rcases dheSKXSkipVerify_spec c (msg.drop 4) with he | ⟨_, _, _, _, _, _, _, _, _, _, _, _, _, _, _, _, hok⟩
    · rw [he]; simp
    · rw [hok]; simp

/-- WHAT THE PARSER GUARANTEES about the group it hands on: 0 < Ys < p, hence p ≥ 2, and fields of at most 65535 bytes -/
theorem dhe_parser_guarantees_modulus (c : DheCtx) (msg p g ys : Bytes)
    (h : dheSKXSkipVerifyMsg c msg = .ok (p, g, ys)) :
    0 < natOf ys ∧ natOf ys < natOf p ∧ 2 ≤ natOf p ∧ p.length ≤ 65535 := by
  unfold dheSKXSkipVerifyMsg at h
  rcases skxUnmarshal_spec msg with ⟨_, hu⟩ | ⟨_, hu⟩
  · rw [hu] at h; cases h
  rw [hu] at h
  simp only at h
  rcases dheSKXSkipVerify_spec c (msg.drop 4) with he | ⟨a1, a2, p', _, _, g', _, _, ys', _, _, hp, _, _, h0, hlt, hok⟩
  · rw [he] at h; cases h
  rw [hok] at h
  cases h
  have := be16_lt a1 a2
  exact ⟨h0, hlt, by omega, by omega⟩

/-- WHAT THE CLIENT STEP NEEDS: `rand.Int(rand, p)` panics exactly when p ≤ 0; nothing else in generateClientKeyExchange can -/
theorem dhe_gen_panics_iff (p g ys : Bytes) (x : Nat) : dheGenCKX p g ys x = .panic ↔ natOf p = 0 := by
  unfold dheGenCKX
  by_cases h : natOf p = 0
  · rw [if_pos h]; simp [h]
  · rw [if_neg h]; simp [h]

/-- the load-bearing direction, concretely: p = 0 (a zero-length dh_p) would make the step panic — the range guard on Ys
    is what keeps it out -/
example : dheGenCKX [] [2] [1] 5 = .panic := by decide

/-- no ServerKeyExchange an InsecureSkipVerify client accepts makes generateClientKeyExchange panic, whatever exponent
    is drawn -/
theorem dhe_client_step_no_panic (c : DheCtx) (msg p g ys : Bytes)
    (h : dheSKXSkipVerifyMsg c msg = .ok (p, g, ys)) (x : Nat) : dheGenCKX p g ys x ≠ .panic := by
  have := dhe_parser_guarantees_modulus c msg p g ys h
  rw [Ne, dhe_gen_panics_iff]
  omega

/-- the same for the verifying client -/
theorem dhe_client_step_no_panic_verified (c : DheCtx) (msg : Bytes) (o : DheSkx)
    (h : dheSKXMsg c msg = .ok o) (x : Nat) : dheGenCKX o.p o.g o.ys x ≠ .panic := by
  obtain ⟨_, _, _, _, _, _, _, _, _, _, _, _, _, _, _, _, h0, hlt, _⟩ := skx_dhe_consumes_all c msg o h
  rw [Ne, dhe_gen_panics_iff]
  omega

/-- the margin is exactly 2: p = 2 (g = 1, Ys = 1) IS accepted — so the guarantee does not cover a bound `p - k`, k ≥ 2 -/
theorem dhe_modulus_two_accepted :
    dheSKXSkipVerifyMsg ⟨0x0301, signatureRSA, defaultSKXSignatureAlgorithms⟩
      [12, 0, 0, 9, 0, 1, 2, 0, 1, 1, 0, 1, 1] = .ok ([2], [1], [1]) := by decide
example : (dheSKXMsg ⟨0x0301, signatureRSA, defaultSKXSignatureAlgorithms⟩
    [12, 0, 0, 12, 0, 1, 3, 0, 1, 2, 0, 1, 1, 0, 1, 9]).isOk = true := by decide

/-- the ClientKeyExchange produced behind an accepted ServerKeyExchange is well-formed: whatever exponent x is drawn, the
    server-side parser for the same modulus accepts `type ‖ len24 ‖ len16 ‖ Yc` exactly when Yc = g^x mod p ≠ 0 and reads Yc
    back; the pre-master secret is the number Ys^x mod p -/
theorem dhe_ckx_roundtrip (c : DheCtx) (msg p g ys : Bytes) (h : dheSKXSkipVerifyMsg c msg = .ok (p, g, ys))
    (x : Nat) (t a b d : UInt8) :
    ∃ ct pms, dheGenCKX p g ys x = .ok (ct, pms) ∧ natOf pms = natOf ys ^ x % natOf p ∧
      (be24 a b d = ct.length → natOf g ^ x % natOf p ≠ 0 →
        ckxMsg (.dhe p) (t :: a :: b :: d :: ct) = .ok (bytesOfNat (natOf g ^ x % natOf p))) := by
  obtain ⟨_, _, h2, hl⟩ := dhe_parser_guarantees_modulus c msg p g ys h
  exact dheGenCKX_roundtrip p g ys x hl (by omega) t a b d

example : (dheSKXSkipVerifyMsg ⟨0x0303, signatureRSA, defaultSKXSignatureAlgorithms⟩
    [12, 0, 0, 9, 0, 1, 0x17, 0, 1, 5, 0, 1, 8]).isOk = true := by decide

/-- consumption, ClientKeyExchange: an accepted message is exactly  type ‖ len(3) ‖ len ‖ field  (RSA: 2-byte length +
    encrypted pre-master secret; ECDHE: 1-byte length + point, which was a valid share; DHE: 2-byte length + Yc, 0 < Yc < p) -/
theorem ckx_consumes_all (k : CkxKind) (msg n : Bytes) (h : ckxMsg k msg = .ok n) :
    ∃ t a b c, be24 a b c + 4 = msg.length ∧
      match k with
      | .rsa => ∃ x y, msg = t :: a :: b :: c :: x :: y :: n ∧ be16 x y = n.length
      | .ecdhe ok => ∃ x, msg = t :: a :: b :: c :: x :: n ∧ x.toNat = n.length ∧ ok = true
      | .dhe p => ∃ x y, msg = t :: a :: b :: c :: x :: y :: n ∧ be16 x y = n.length ∧ 0 < natOf n ∧ natOf n < natOf p := by
  unfold ckxMsg at h
  rcases ckxUnmarshal_spec msg with hu | ⟨t, a, b, c, ct, rfl, hl, hu⟩
  · rw [hu] at h; cases h
  rw [hu] at h
  simp only at h
  refine ⟨t, a, b, c, by simp only [List.length_cons]; omega, ?_⟩
  cases k with
  | rsa =>
    simp only at h ⊢
    rcases rsaCKX_spec ct with he | ⟨x, y, n', rfl, hn, hok⟩
    · rw [he] at h; cases h
    · rw [hok] at h; cases h; exact ⟨x, y, rfl, hn⟩
  | ecdhe ok =>
    simp only at h ⊢
    rcases ecdheCKX_spec ok ct with he | ⟨x, n', rfl, hn, hk, hok⟩
    · rw [he] at h; cases h
    · rw [hok] at h; cases h; exact ⟨x, rfl, hn, hk⟩
  | dhe p =>
    simp only at h ⊢
    rcases dheCKX_spec p ct with he | ⟨x, y, n', rfl, hn, h0, hp, hok⟩
    · rw [he] at h; cases h
    · rw [hok] at h; cases h; exact ⟨x, y, rfl, hn, h0, hp⟩

/-- the hypotheses are satisfiable: an X25519 ECDHE_RSA ServerKeyExchange at TLS 1.2 (1-byte share for brevity — the model
    takes the verdict on the share as an input), a DHE one, and the three ClientKeyExchange forms are accepted -/
example : (ecdheSKXMsg ⟨0x0303, true, .rsa, [0x0804], true⟩ [12, 0, 0, 10, 3, 0, 29, 1, 9, 8, 4, 0, 1, 7]).isOk = true := by decide
example : (ecdheSKXMsg ⟨0x0301, false, .ecdsa, [], true⟩ [12, 0, 0, 8, 3, 0, 23, 1, 9, 0, 1, 7]).isOk = true := by decide
example : (dheSKXMsg ⟨0x0303, signatureRSA, defaultSKXSignatureAlgorithms⟩
    [12, 0, 0, 14, 0, 1, 0x17, 0, 1, 5, 0, 1, 8, 4, 1, 0, 1, 9]).isOk = true := by decide
example : ckxMsg .rsa [16, 0, 0, 4, 0, 2, 7, 8] = .ok [7, 8] := by decide
example : ckxMsg (.ecdhe true) [16, 0, 0, 3, 2, 7, 8] = .ok [7, 8] := by decide
example : ckxMsg (.dhe [0x17]) [16, 0, 0, 3, 0, 1, 8] = .ok [8] := by decide

end ZV.C32