import ZV.Model.C32
import ZV.Proofs.C32
/-!
  C32 — TLS endpoints survive arbitrary peer behaviour.

  Proved here, for EVERY byte stream and every reader state, about the model of the record reader's framing loop
  (readRecordOrCCS + retryReadRecord + readHandshake, no cipher yet — the state in which an arbitrary peer talks to us):

  * `reader_total`              one call of the record reader never panics (every index expression is guarded), and either
                                returns an error or has consumed at least one whole record (≥ 5 bytes); the consumed byte
                                count is exactly the advance of the stream.
  * `useless_records_bounded`   the consecutive-useless-record counter never exceeds `maxUselessRecords` after a successful read
                                (so at most 16 warning alerts / TLS 1.3 CCS records are skipped in a row).
  * `handshake_buffer_bounded`  readHandshake never panics; a delivered message has at most 4 + maxHandshake bytes and the
                                reassembly buffer always stays below 4 + maxHandshake + maxPlaintext bytes.
  * `handshake_progress`        every delivered message took ≥ 4 bytes out of the stream+buffer: the loop terminates.
  The state machines on top of the reader, the message parsers and the encrypted phase are NOT modelled: they are
  explored by the T3 corruption matrix (every position of genuine transcripts in the thorough tier).
  -- FULL (not proved): `skx_parse_no_panic` for the ServerKeyExchange / ClientKeyExchange parameter parsers with raw
  -- index expressions; their accept/reject behaviour is modelled (Option-valued) and T2-tied under C28, and flips at
  -- every position of those messages are part of the T3 matrix here.
-/
namespace ZV.C32

theorem reader_total (vers : Nat) (st : St) (s : Bytes) :
    readRecord vers st s ≠ .panic ∧
    ∀ st' rest, readRecord vers st s = .ok st' rest →
      rest.length + 5 ≤ s.length ∧ st'.pos - st.pos = s.length - rest.length ∧ st.pos ≤ st'.pos := by
  have h := readRecord_good vers st s
  constructor
  · intro hp; rw [hp] at h; exact h
  · intro st' rest he
    rw [he] at h
    exact ⟨h.1, h.2.1, h.2.2.1⟩

theorem useless_records_bounded (vers : Nat) (st : St) (s : Bytes) (h0 : st.retry ≤ maxUselessRecords)
    (st' : St) (rest : Bytes) (he : readRecord vers st s = .ok st' rest) :
    st'.retry ≤ maxUselessRecords := by
  have h := readRecord_good vers st s
  rw [he] at h
  have := h.2.2.2.1
  rw [Nat.max_eq_right h0] at this
  exact this

theorem record_adds_at_most_maxPlaintext (vers : Nat) (st : St) (s : Bytes) (st' : St) (rest : Bytes)
    (he : readRecord vers st s = .ok st' rest) :
    st.hand.length < st'.hand.length ∧ st'.hand.length ≤ st.hand.length + maxPlaintext := by
  have h := readRecord_good vers st s
  rw [he] at h
  exact ⟨h.2.2.2.2.1, h.2.2.2.2.2⟩

theorem handshake_buffer_bounded (vers : Nat) (st : St) (s : Bytes) (h0 : st.hand.length < bufBound) :
    readHandshake vers st s ≠ .panic ∧
    (∀ t len st' rest, readHandshake vers st s = .msg t len st' rest →
        len ≤ 4 + maxHandshake ∧ st'.hand.length < bufBound ∧ st'.retry ≤ max st.retry maxUselessRecords) ∧
    (∀ st', readHandshake vers st s = .complex st' → st'.hand.length < bufBound) := by
  have h := readHandshake_good vers st s h0
  refine ⟨?_, ?_, ?_⟩
  · intro hp; rw [hp] at h; exact h
  · intro t len st' rest he
    rw [he] at h
    exact ⟨h.2.1, h.2.2.1, h.2.2.2.2⟩
  · intro st' he
    rw [he] at h
    exact h.1

theorem handshake_progress (vers : Nat) (st : St) (s : Bytes) (h0 : st.hand.length < bufBound)
    (t len : Nat) (st' : St) (rest : Bytes) (he : readHandshake vers st s = .msg t len st' rest) :
    4 ≤ len ∧ rest.length ≤ s.length := by
  have h := readHandshake_good vers st s h0
  rw [he] at h
  exact ⟨h.1, h.2.2.2.1⟩

/-- the hypotheses are satisfiable (initial state) and the success case is inhabited -/
example : ∃ st' rest, readRecord 0x0303 ⟨[], 0, 0⟩ [22, 3, 3, 0, 1, 14] = .ok st' rest := by
  refine ⟨⟨[14], 0, 6⟩, [], ?_⟩
  unfold readRecord
  simp [maxCiphertext, maxCiphertextTLS13, maxPlaintext]
example : (⟨[], 0, 0⟩ : St).retry ≤ maxUselessRecords := by decide
example : (⟨[], 0, 0⟩ : St).hand.length < bufBound := by decide

end ZV.C32
