import ZV.Proofs.C01
import ZV.Proofs.C01Asn1
import ZV.Proofs.C01Alloc
import ZV.Proofs.C01Bridge
import ZV.Proofs.C01Ec
import ZV.Props.C15
import ZV.Props.C16
import ZV.Props.C30
import ZV.Props.C32
/-!
  C01 — parsers of untrusted bytes never panic, hang or over-allocate: the theorems.

  All statements are about the executable models of `ZV.Model.C01` (tied to the Go code by the T2
  streams `tl b128 il seqof cba cbe cblp sst crlset onecrle edkey rsapub`). In the models every Go
  index / slice expression is `idx` / `slice` (out of range = `Res.panic`), the preconditions of the
  primitives (`ed25519.Verify`, `math/big`) are explicit `Res.panic` branches, and every loop is a
  total Lean function, so *termination is part of the definition being accepted* and "no panic" is
  what is proved below, for every input and both parsing modes.

  The reflective `parseField` engine of `encoding/asn1` (on which every x509 / OCSP parser is built) is
  covered through the deep-embedded model `ZV.Model.C18` (tied to the Go code by the C18 and C20
  correspondence streams): see the last section. `ZV.Model.C18` works on suffixes (`bytes[offset:]`) and
  takes lists apart by pattern matching, so an out-of-range index cannot be WRITTEN in it: its `Res.panic`
  arms only propagate. What carries the content there is therefore (a) the bridge theorems — the suffix-style
  header reader and counting loop of `ZV.Model.C18` ARE the index-explicit ones of `ZV.Model.C01` —, (b) the
  in-bounds theorems — every `take` / `drop` of the engine is guarded, the content slice has exactly the
  announced length —, (c) consumption / progress, (d) the fuel of the two fuelled loops is never what stops
  them, and (e) the linear allocation bound.

  -- FULL (not proved here): the same for the parts of `encoding/asn1` outside `ZV.Model.C18`
  -- (`time.Time`, `interface{}`, `RawContent`, int8/int16), for the TLS / CT grammars and the other
  -- cryptobyte readers. Those are explored by T3 only (see tools/props/C01.json).
-/
namespace ZV.C01

/-! ### encoding/asn1 header reader (`parseBase128Int`, `parseTagAndLength`, `invalidLength`) -/

/-- the base-128 tag reader never indexes out of range, whatever the offset -/
theorem der_base128_no_panic (bs : Bytes) (off : Nat) : parseBase128Int bs off ≠ .panic :=
  b128Loop_no_panic bs 0 0 off

/-- … and what it returns lies strictly beyond the start, inside the input, and fits an int32 -/
theorem der_base128_consumed (bs : Bytes) (off r o : Nat) (h : parseBase128Int bs off = .ok (r, o)) :
    off < o ∧ o ≤ bs.length ∧ r ≤ 2147483647 :=
  b128Loop_consumed bs 0 0 off r o h

example : parseBase128Int [0x81, 0x00] 0 = .ok (128, 2) := by
  simp [parseBase128Int, b128Loop, idx]; decide

/-- `parseTagAndLength` never panics: both parsing modes, every byte string, every offset -/
theorem der_header_no_panic (perm : Bool) (bs : Bytes) (off : Nat) : parseTagAndLength perm bs off ≠ .panic :=
  parseTagAndLength_no_panic perm bs off

/-- an accepted header consumes at least two bytes, stays inside the input, and its length field is
    < 2^31 (so `offset + length` cannot overflow where the callers add them) -/
theorem der_header_consumed (perm : Bool) (bs : Bytes) (off : Nat) (t : TL) (o : Nat)
    (h : parseTagAndLength perm bs off = .ok (t, o)) : off + 2 ≤ o ∧ o ≤ bs.length ∧ t.len < 2147483648 :=
  parseTagAndLength_consumed perm bs off t o h

example : parseTagAndLength false [0x30, 0x82, 0x01, 0x00] 0 = .ok (⟨0, 16, 256, true⟩, 4) := by decide

/-- the permissive switch only relaxes: whatever strict mode accepts, permissive mode accepts with the same result -/
theorem der_header_strict_le_permissive (bs : Bytes) (off : Nat) (r : TL × Nat)
    (h : parseTagAndLength false bs off = .ok r) : parseTagAndLength true bs off = .ok r :=
  parseTagAndLength_strict_perm bs off r h

/-- and it really is a relaxation (non-minimal long form) -/
example : parseTagAndLength false [0x04, 0x81, 0x05] 0 = .err ∧
    parseTagAndLength true [0x04, 0x81, 0x05] 0 = .ok (⟨0, 4, 5, false⟩, 3) := by decide

/-- `invalidLength` = false really means the element lies inside the slice -/
theorem der_invalidLength_sound (o l s : Nat) (h : invalidLength o l s = false) : o + l ≤ s :=
  invalidLength_false h

example : invalidLength 2 3 5 = false := by decide

/-- the wrapping int64 expression of the Go code and the mathematical one agree on every pair of
    non-negative int64 arguments — the overflow arm `offset+length < offset` closes the hole -/
theorem der_invalidLength_wraps (o l s : Nat) (ho : o < 9223372036854775808) (hl : l < 9223372036854775808) :
    invalidLengthInt o l s = invalidLength o l s :=
  invalidLength_eq_int o l s ho hl

example : invalidLengthInt 9223372036854775807 1 100 = true := by decide

/-! ### the element loop (`parseSequenceOf`) and `Unmarshal` into `[]RawValue` -/

/-- the counting loop of `parseSequenceOf` never panics; its recursion is on `len - offset`, accepted
    by Lean because every accepted header advances (`der_header_consumed`): the loop cannot spin -/
theorem der_seqof_loop_no_panic (perm : Bool) (bs : Bytes) (off n : Nat) : countElems perm bs off n ≠ .panic :=
  countElems_no_panic perm bs off n

/-- allocation of the element loop: the element count it hands to `reflect.MakeSlice` is at most half
    the number of content bytes -/
theorem der_seqof_count_linear (perm : Bool) (bs : Bytes) (m : Nat) (h : countElems perm bs 0 0 = .ok m) :
    2 * m ≤ bs.length := by
  have := (countElems_bound perm bs 0 0 m h).1
  omega

example : countElems false [0x05, 0x00] 0 0 = .ok 1 := by
  have hd : parseTagAndLength false [0x05, 0x00] 0 = .ok (⟨0, 5, 0, false⟩, 2) := by decide
  rw [countElems]
  simp only [List.length_cons, List.length_nil, Nat.zero_lt_succ, dite_true, Nat.reduceAdd]
  split
  · rename_i t o hp
    rw [hd] at hp
    simp at hp
    obtain ⟨h1, h2⟩ := hp
    subst h1 h2
    simp [invalidLength]
    rw [countElems]
    simp
  · rename_i hp; rw [hd] at hp; simp at hp
  · rename_i hp; rw [hd] at hp; simp at hp

theorem der_unmarshal_rawseq_no_panic (perm : Bool) (bs : Bytes) : unmarshalRawSeq perm bs ≠ .panic :=
  unmarshalRawSeq_no_panic perm bs

/-! ### cryptobyte `readASN1` -/

/-- `readASN1` never reaches its `panic("cryptobyte: internal error")` nor an out-of-range slice,
    including for lengths near 2^32 (the `headerLen+len32 < len32` guard) -/
theorem cb_readASN1_no_panic (s : Bytes) (skipHeader : Bool) : cbReadASN1 s skipHeader ≠ .panic :=
  cbReadASN1_no_panic s skipHeader

/-- what it hands out and what it leaves never exceed the input, and it always consumes ≥ 2 bytes -/
theorem cb_readASN1_consumed (s : Bytes) (skip : Bool) (tag : UInt8) (out rest : Bytes)
    (h : cbReadASN1 s skip = .ok (tag, out, rest)) :
    out.length + rest.length ≤ s.length ∧ rest.length + 2 ≤ s.length :=
  cbReadASN1_consumed s skip tag out rest h

example : cbReadASN1 [0x04, 0x01, 0xaa, 0xbb] true = .ok (0x04, [0xaa], [0xbb]) := by decide
/-- the uint32 overflow case is an error, not a wrap-around -/
example : cbReadASN1 [0x04, 0x84, 0xff, 0xff, 0xff, 0xfb, 0x00] true = .err := by decide

/-! ### Microsoft SST -/

/-- `microsoft.parse` is total for every input and every behaviour of the certificate parser -/
theorem sst_parse_total (certOK : Bytes → Bool) (bs : Bytes) : sstParse certOK bs ≠ .panic :=
  sstParse_no_panic certOK bs

/-- and the buffers it allocates (`make([]byte, len)` + the decoder buffer of `binary.Read`) are
    bounded by twice the input length -/
theorem sst_parse_alloc (certOK : Bytes → Bool) (bs : Bytes) (n a : Nat) (h : sstParse certOK bs = .ok (n, a)) :
    a ≤ 2 * bs.length :=
  sstParse_alloc certOK bs n a h

example : sstParse (fun _ => true) [0,0,0,0, 0x43,0x45,0x52,0x54, 32,0,0,0, 1,0,0,0, 2,0,0,0, 7,7] = .ok (1, 4) := by
  simp [sstParse, rdU32, le32, sstLoop, sstPost]

/-! ### Google CRLSet -/

theorem crlset_parse_total (headerOK : Bool) (bs : Bytes) : crlsetParse headerOK bs ≠ .panic :=
  crlsetParse_no_panic headerOK bs

/-- allocation (with the unit costs of the model: 128 per issuer entry, 64 + 2·len per serial) is at
    most 64 bytes per input byte -/
theorem crlset_parse_alloc (headerOK : Bool) (bs : Bytes) (k n a : Nat)
    (h : crlsetParse headerOK bs = .ok (k, n, a)) : a ≤ 64 * bs.length :=
  crlsetParse_alloc headerOK bs k n a h

example : crlsetParse true [2, 0, 0x7b, 0x7d] = .ok (0, 0, 0) := by
  simp [crlsetParse, idx, slice, crlLoop]

/-! ### Mozilla OneCRL -/

theorem onecrl_entry_no_panic (r : Rec) : entryUnmarshal r ≠ .panic := entryUnmarshal_no_panic r

/-- `mozilla.Parse` never dereferences a missing issuer: any list of records, including `null` ones -/
theorem onecrl_parse_no_panic (recs : List Rec) : onecrlParse recs ≠ .panic := onecrlParse_no_panic recs

/-! ### post-parse steps with primitive preconditions -/

/-- a key accepted by `parsePublicKey` (Ed25519 / X25519 arms) never makes the signature check panic:
    this covers the self-signature test inside `ParseCertificate` and any later child check -/
theorem selfsig_ed25519_no_panic (isEd : Bool) (keyLen sigLen : Nat) : edKeyFlow isEd keyLen sigLen ≠ .panic :=
  edKeyFlow_no_panic isEd keyLen sigLen

/-- the precondition is real: the verifier panics on a 31-byte key (what D3 allowed through) -/
example : ed25519Verify 31 64 = .panic := by decide

/-- RSA verification (PKCS#1 v1.5 and PSS share the skeleton) on ANY key — nil, zero, negative
    modulus or exponent — returns -/
theorem rsa_verify_no_panic (p : RsaPub) (sigLen sig : Nat) : verify p sigLen sig ≠ .panic :=
  verify_no_panic p sigLen sig

theorem rsa_encrypt_no_panic (p : RsaPub) (msgLen : Nat) : encryptPKCS1v15 p msgLen ≠ .panic :=
  encryptPKCS1v15_no_panic p msgLen

/-- without the `checkPub` guard the same skeleton panics (D8): negative exponent, signature not
    coprime to the modulus; or a nil modulus -/
example : verifyUnguarded { n := some 35, e := some (-1) } 1 0 = .panic := by decide
example : verifyUnguarded { n := none, e := some 3 } 0 0 = .panic := by decide

/-! ### the reflective `parseField` engine of encoding/asn1 (`ZV.Model.C18`)

  `C18.unmarshal perm schema params bytes` is `asn1.UnmarshalWithParams` for the Go type `schema` (a deep
  embedding of `reflect.Type`: the theorems quantify over EVERY type built from int / int32 / Enumerated /
  *big.Int / bool / Flag / ObjectIdentifier / BitString / []byte / string / RawValue / struct / []T, every
  field-parameter set, every byte string, both parsing modes).

  Termination is by construction: `parseField` / `parseFields` are structural recursions on the schema (the
  recursion depth of the Go code is the nesting depth of the Go type, not of the input), `parseElems` on the
  element count, every primitive on its input list; the two fuelled loops (`countElems`, `parseArcs`) are
  shown below never to run out of fuel. Lean accepted these definitions without `partial`. -/

/-- **no panic**: `Unmarshal` into any modelled Go type, any parameters, any bytes, both modes -/
theorem asn1_unmarshal_no_panic (perm : Bool) (s : C18.Schema) (p : C18.Params) (bs : Bytes) :
    C18.unmarshal perm s p bs ≠ .panic :=
  (C01Asn1.engine_np perm s).1 p bs

/-- … and the field loop of the struct arm -/
theorem asn1_fields_no_panic (perm : Bool) (fs : C18.Schema) (bs : Bytes) : C18.parseFields perm fs bs ≠ .panic :=
  (C01Asn1.engine_np perm fs).2 bs

/-- … and every arm of the type switch on its own (content parsers: OID, BIT STRING, INTEGER ×3, BOOLEAN, strings) -/
theorem asn1_primitives_no_panic (perm : Bool) (s : C18.Schema) (utag : Nat) (t : C18.TL) (inner full : Bytes) :
    C18.parsePrim perm s utag t inner full ≠ .panic :=
  C01Asn1.parsePrim_np perm s utag t inner full

/-- **never reads past the input**: what `Unmarshal` returns as `rest` is a suffix of what it was given -/
theorem asn1_unmarshal_consumed (perm : Bool) (s : C18.Schema) (p : C18.Params) (bs : Bytes) (v : C18.Val) (rest : Bytes)
    (h : C18.unmarshal perm s p bs = .ok (v, rest)) : rest <:+ bs :=
  ((C01Asn1.engine_consumed perm s).1 p bs v rest h).suffix

/-- progress: either nothing was consumed (an absent OPTIONAL element took its default) or a whole element of at
    least two bytes was -/
theorem asn1_unmarshal_progress (perm : Bool) (s : C18.Schema) (p : C18.Params) (bs : Bytes) (v : C18.Val) (rest : Bytes)
    (h : C18.unmarshal perm s p bs = .ok (v, rest)) : rest = bs ∨ rest.length + 2 ≤ bs.length := by
  rcases (C01Asn1.engine_consumed perm s).1 p bs v rest h with h | h
  · exact Or.inl h
  · exact Or.inr h.2

/-- the model threads the remaining suffix instead of an offset (`offset = len(bytes) - len(rest)`); the offset
    is monotone along the field loop: after each field the remainder is a suffix of the previous one -/
theorem asn1_fields_offsets_monotone (perm : Bool) (p : C18.Params) (s rest : C18.Schema) (bs : Bytes) (vs : C18.Val) (r' : Bytes)
    (h : C18.parseFields perm (.fcons p s rest) bs = .ok (vs, r')) :
    ∃ v r ws, C18.parseField perm s p bs = .ok (v, r) ∧ C18.parseFields perm rest r = .ok (ws, r') ∧
      vs = .vcons v ws ∧ r' <:+ r ∧ r <:+ bs := by
  simp only [C18.parseFields] at h
  split at h
  · rename_i v r h1
    split at h
    · rename_i ws r2 h2
      simp only [Res.ok.injEq, Prod.mk.injEq] at h
      refine ⟨v, r, ws, h1, ?_, h.1.symm, ?_, ((C01Asn1.engine_consumed perm s).1 p bs v r h1).suffix⟩
      · rw [← h.2]; exact h2
      · rw [← h.2]; exact (C01Asn1.engine_consumed perm rest).2 r ws r2 h2
    · cases h
    · cases h
  · cases h
  · cases h

example : C18.parseFields false (.fcons {} .bool (.fcons {} .octets .fnil)) [0x01, 0x01, 0xff, 0x04, 0x00, 0x09] =
    .ok (.vcons (.bool true) (.vcons (.bytes []) .vnil), [0x09]) := by decide

/-- **every slice of the engine is in range**: when the stages in front of the type switch accept an element, the
    input is `header ++ content ++ rest` with at least two header bytes, the content slice
    `bytes[offset : offset+t.length]` has exactly the announced length (the model's `take` did not truncate), and
    that length is below 2^31 (`offset + length` cannot overflow) -/
theorem asn1_element_in_bounds (perm : Bool) (s : C18.Schema) (p : C18.Params) (bs : Bytes) (t : C18.TL) (utag : Nat)
    (inner rest : Bytes) (h : C18.parsePre perm s p bs = .go t utag inner rest) :
    (inner ++ rest) <:+ bs ∧ (inner ++ rest).length + 2 ≤ bs.length ∧ inner.length = t.len ∧ t.len < 2147483648 := by
  obtain ⟨h1, h2, _, h4⟩ := C01Asn1.parsePre_go perm s p bs t utag inner rest h
  exact ⟨h1.1, h1.2, h2, h4⟩

/-- the header reader of the engine: no panic, ≥ 2 bytes consumed, class < 4, tag and length below 2^31 -/
theorem asn1_header_consumed (perm : Bool) (bs : Bytes) (t : C18.TL) (r : Bytes) (h : C18.parseTL perm bs = .ok (t, r)) :
    r <:+ bs ∧ r.length + 2 ≤ bs.length ∧ t.cls < 4 ∧ t.tag ≤ 2147483647 ∧ t.len < 2147483648 := by
  obtain ⟨h1, h2⟩ := C01Asn1.parseTL_adv perm bs t r h
  exact ⟨h1.1, h1.2, h2⟩

example : C18.parseTL false [0x30, 0x82, 0x01, 0x00, 0x07] = .ok (⟨0, 16, 256, true⟩, [0x07]) := by decide

/-- **bridge**: the suffix-style header reader of the engine model IS the index-explicit reader of `ZV.Model.C01`
    (where every `bytes[i]` is a panic-on-out-of-range `idx`), at every offset: `rest = bytes[offset':]`.
    The two models are tied to the Go code by different T2 streams (`c01 tl` and C18/C20). -/
theorem asn1_header_same_function (perm : Bool) (bs : Bytes) (off : Nat) :
    C18.parseTL perm (bs.drop off) = C01Asn1.liftTL bs (parseTagAndLength perm bs off) :=
  C01Asn1.header_bridge perm bs off

/-- **bridge**: the same for the counting loop of `parseSequenceOf` (element type matching any tag): the loop of
    `ZV.Model.C01`, whose "header did not advance" arm is an explicit `panic`, is the fuelled loop of the engine
    model whenever the fuel is at least the number of remaining bytes (the engine passes `len(bytes)`) -/
theorem asn1_seqof_same_function (perm : Bool) (et : Nat) (ec : Bool) (bs : Bytes) (hbs : bs.length < 9223372036854775808)
    (off n fuel : Nat) (hf : bs.length - off ≤ fuel) :
    countElems perm bs off n = C01Asn1.addN n (C18.countElems perm true et ec fuel (bs.drop off)) :=
  C01Asn1.seqof_bridge perm et ec bs hbs off n fuel hf

example : ([0x05, 0x00] : Bytes).length < 9223372036854775808 ∧ ([0x05, 0x00] : Bytes).length - 0 ≤ 2 := by decide

/-- the element count handed to `reflect.MakeSlice` is at most half the content bytes — for EVERY element type -/
theorem asn1_seqof_count_linear (perm ma : Bool) (et : Nat) (ec : Bool) (fuel : Nat) (bs : Bytes) (n : Nat)
    (h : C18.countElems perm ma et ec fuel bs = .ok n) : 2 * n ≤ bs.length :=
  C01Asn1.countElems_bound perm ma et ec fuel bs n h

example : C18.countElems false true 0 false 4 [0x05, 0x00, 0x01, 0x00] = .ok 2 := by decide

/-- the fuel of the counting loop is never what stops it: any fuel ≥ the input length gives the same answer
    (the engine passes `len(bytes)`; every iteration consumes at least two bytes) -/
theorem asn1_seqof_fuel_unreachable (perm ma : Bool) (et : Nat) (ec : Bool) (f g : Nat) (bs : Bytes)
    (hf : bs.length ≤ f) (hg : bs.length ≤ g) :
    C18.countElems perm ma et ec f bs = C18.countElems perm ma et ec g bs :=
  C01Asn1.countElems_fuel perm ma et ec f g bs hf hg

example : ([0x05, 0x00, 0x01, 0x00] : Bytes).length ≤ 4 ∧ ([0x05, 0x00, 0x01, 0x00] : Bytes).length ≤ 100 := by decide

/-- the same for the sub-identifier loop of `parseObjectIdentifier` -/
theorem asn1_oid_fuel_unreachable (f g : Nat) (bs : Bytes) (hf : bs.length ≤ f) (hg : bs.length ≤ g) :
    C18.parseArcs f bs = C18.parseArcs g bs :=
  C01Asn1.parseArcs_fuel f g bs hf hg

example : ([0x2a, 0x03] : Bytes).length ≤ 2 ∧ ([0x2a, 0x03] : Bytes).length ≤ 7 := by decide

/-- an OBJECT IDENTIFIER has at most `len(bytes)+1` arcs (the Go code allocates exactly `make([]int, len(bytes)+1)`) -/
theorem asn1_oid_arcs_linear (bs : Bytes) (l : List Int) (h : C18.parseOID bs = .ok (.oid l)) : l.length ≤ bs.length + 1 :=
  C01Asn1.parseOID_bound bs l h

example : C18.parseOID [0x2a, 0x86, 0x48] = .ok (.oid [1, 2, 840]) := by decide

/-- **allocation is linear in the bytes consumed**: the decoded value (one unit per node, the bytes of every string /
    BIT STRING / RawValue incl. FullBytes, the arcs of every OID, the limbs of every integer) is bounded by
    `aC schema + |default| + bC schema · (bytes consumed)`, `aC` / `bC` computed from the Go type alone -/
theorem asn1_unmarshal_alloc_linear (perm : Bool) (s : C18.Schema) (p : C18.Params) (bs : Bytes) (v : C18.Val) (rest : Bytes)
    (h : C18.unmarshal perm s p bs = .ok (v, rest)) :
    C01Asn1.vsize v ≤ C01Asn1.aC s + C01Asn1.dflt p + C01Asn1.bC s * (bs.length - rest.length) :=
  (C01Asn1.engine_size perm s).1 p bs v rest h

/-! #### instances: certificate-shaped Go types -/

/-- `x509.certificate` (RawContent dropped, Validity kept raw): never panics, never reads past the input, and the
    decoded certificate is at most `148 + 17·|input|` units -/
theorem asn1_certificate_safe (perm : Bool) (bs : Bytes) :
    C18.unmarshal perm C01Asn1.certificate {} bs ≠ .panic ∧
    ∀ v rest, C18.unmarshal perm C01Asn1.certificate {} bs = .ok (v, rest) →
      rest <:+ bs ∧ C01Asn1.vsize v ≤ 148 + 17 * bs.length := by
  refine ⟨asn1_unmarshal_no_panic _ _ _ _, fun v rest h => ⟨asn1_unmarshal_consumed _ _ _ _ _ _ h, ?_⟩⟩
  have h1 := asn1_unmarshal_alloc_linear _ _ _ _ _ _ h
  have ea : C01Asn1.aC C01Asn1.certificate = 148 := by decide
  have eb : C01Asn1.bC C01Asn1.certificate = 17 := by decide
  have ed : C01Asn1.dflt {} = 0 := rfl
  rw [ea, eb, ed] at h1
  have : 17 * (bs.length - rest.length) ≤ 17 * bs.length := Nat.mul_le_mul_left _ (Nat.sub_le _ _)
  omega

/-- the hypothesis is satisfiable: a 49-byte v3 certificate skeleton followed by two stray bytes is accepted and
    the stray bytes come back as `rest` -/
example : (match C18.unmarshal false C01Asn1.certificate {} (C01Asn1.miniCert ++ [0xde, 0xad]) with
    | .ok (_, rest) => some rest | _ => none) = some [0xde, 0xad] := by decide

/-- `pkix.AlgorithmIdentifier`, `[]pkix.Extension`, `pkix.RDNSequence` (SEQUENCE OF SET OF SEQUENCE) -/
theorem asn1_pkix_instances_safe (perm : Bool) (bs : Bytes) :
    C18.unmarshal perm C01Asn1.algId {} bs ≠ .panic ∧
    C18.unmarshal perm (.seqOf false C01Asn1.extension) {} bs ≠ .panic ∧
    C18.unmarshal perm C01Asn1.rdnSequence {} bs ≠ .panic ∧
    C18.unmarshal perm C01Asn1.tbsCertificate {} bs ≠ .panic :=
  ⟨asn1_unmarshal_no_panic _ _ _ _, asn1_unmarshal_no_panic _ _ _ _, asn1_unmarshal_no_panic _ _ _ _,
   asn1_unmarshal_no_panic _ _ _ _⟩

/-- sha256WithRSAEncryption with NULL parameters, one trailing byte -/
example : C18.unmarshal false C01Asn1.algId {}
      [0x30, 0x0d, 0x06, 0x09, 0x2a, 0x86, 0x48, 0x86, 0xf7, 0x0d, 0x01, 0x01, 0x0b, 0x05, 0x00, 0x77] =
    .ok (.vcons (.oid [1, 2, 840, 113549, 1, 1, 11]) (.vcons (.raw 0 5 false [] [5, 0]) .vnil), [0x77]) := by decide

/-- a name `CN=hi`: two nested element loops, the allocation bound with the constants of the type -/
example : ∀ v rest, C18.unmarshal false C01Asn1.rdnSequence {}
      [0x30, 0x0d, 0x31, 0x0b, 0x30, 0x09, 0x06, 0x03, 0x55, 0x04, 0x03, 0x0c, 0x02, 0x68, 0x69] = .ok (v, rest) →
    C01Asn1.vsize v ≤ 1 + 15 * 15 := by
  intro v rest h
  have h1 := asn1_unmarshal_alloc_linear _ _ _ _ _ _ h
  have ea : C01Asn1.aC C01Asn1.rdnSequence = 1 := by decide
  have eb : C01Asn1.bC C01Asn1.rdnSequence = 15 := by decide
  have ed : C01Asn1.dflt {} = 0 := rfl
  rw [ea, eb, ed] at h1
  have : 15 * (15 - rest.length) ≤ 15 * 15 := Nat.mul_le_mul_left _ (Nat.sub_le _ _)
  simp only [List.length_cons, List.length_nil] at h1
  omega

/-- an absent OPTIONAL element consumes nothing (left arm of `asn1_unmarshal_progress`) … -/
example : C18.unmarshal false .bool { optional := true } [0x02, 0x01, 0x05] = .ok (.bool false, [0x02, 0x01, 0x05]) := by
  decide
/-- … a present one at least two bytes (right arm) -/
example : C18.unmarshal false .octets {} [0x04, 0x00, 0x05] = .ok (.bytes [], [0x05]) := by decide

/-- an accepted element, split as `asn1_element_in_bounds` says -/
example : C18.parsePre false .octets {} [0x04, 0x02, 0xaa, 0xbb, 0xcc] =
    .go { cls := 0, tag := 4, len := 2, compound := false } 4 [0xaa, 0xbb] [0xcc] := by rfl


/-! ### x509.parseECPrivateKey: the code AFTER `asn1.Unmarshal` succeeded (x509/sec1.go; T2 stream `c01 ecpriv`) -/
open ZV.TlsWire (beNat) in
/-- the zero-stripping loop `for len(pk) > size { if pk[0] != 0 {…}; pk = pk[1:] }` never indexes or slices out of range,
    for every buffer size and every OCTET STRING -/
theorem x509_ecStrip_no_panic (size : Nat) (pk : Bytes) : ecStrip size pk ≠ .panic := ecStrip_no_panic size pk

open ZV.TlsWire (beNat) in
/-- what the loop hands on fits the buffer (so the low index `len(privateKey)-len(pk)` of the copy is not negative),
    is a suffix of the input and denotes the same integer -/
theorem x509_ecStrip_fits (size : Nat) (pk p : Bytes) (h : ecStrip size pk = .ok p) :
    p.length ≤ size ∧ p <:+ pk ∧ beNat p = beNat pk := ecStrip_ok size pk p h

example : ecStrip 2 [0, 0, 1, 2] = .ok [1, 2] := by
  simp [ecStrip_cons]

/-- the whole post-processing never panics: every order, every buffer size, every OCTET STRING -/
theorem x509_parseECPrivateKey_post_no_panic (order size : Nat) (pk : Bytes) : ecPrivPost order size pk ≠ .panic := by
  unfold ecPrivPost
  simp only
  split
  · simp
  · split
    · rename_i p hp
      have := (ecStrip_ok size pk p hp).1
      simp [this]
    · simp
    · rename_i hp
      exact absurd hp (ecStrip_no_panic size pk)

/-- … and so does `parseECPrivateKey` after Unmarshal, for every version, curve index and OCTET STRING -/
theorem x509_parseECPrivateKey_no_panic (version curve : Nat) (pk : Bytes) : ecPrivParse version curve pk ≠ .panic := by
  unfold ecPrivParse
  split
  · simp
  · split
    · simp
    · exact x509_parseECPrivateKey_post_no_panic _ _ pk

open ZV.TlsWire (beNat) in
/-- an accepted key: D < N, the buffer handed to `ScalarBaseMult` has EXACTLY `size` bytes (the `make` size: the
    allocation does not depend on the attacker's length) and is the big-endian encoding of D -/
theorem x509_parseECPrivateKey_buffer (order size : Nat) (pk : Bytes) (k : Nat) (buf : Bytes)
    (h : ecPrivPost order size pk = .ok (k, buf)) : k = beNat pk ∧ k < order ∧ buf.length = size ∧ beNat buf = k := by
  unfold ecPrivPost at h
  simp only at h
  split at h
  · cases h
  · rename_i hk
    split at h
    · rename_i p hp
      obtain ⟨h1, _, h3⟩ := ecStrip_ok size pk p hp
      simp only [h1, if_true] at h
      cases h
      refine ⟨rfl, by omega, ?_, ?_⟩
      · simp; omega
      · rw [beNat_replicate_zero, h3]
    · cases h
    · cases h

example : ecPrivPost 1000 2 [0, 0, 7] = .ok (7, [0, 7]) := by
  simp [ecPrivPost, ecStrip_cons, ZV.TlsWire.beNat]

open ZV.TlsWire (beNat) in
/-- when the order fits the buffer (`N ≤ 256^size`, true of every named curve: `x509_curves_fit`) the post-processing
    rejects EXACTLY the values `≥ N`: the error `x509: invalid private key length` of the loop is unreachable behind the
    `k.Cmp(curveOrder) >= 0` check (dead code, not a defect) -/
theorem x509_parseECPrivateKey_err_iff (order size : Nat) (pk : Bytes) (hfit : order ≤ 256 ^ size) :
    ecPrivPost order size pk = .err ↔ order ≤ beNat pk := by
  unfold ecPrivPost
  simp only
  constructor
  · intro h
    split at h
    · assumption
    · rename_i hk
      split at h
      · split at h <;> cases h
      · rename_i he
        have := ecStrip_err size pk he
        omega
      · cases h
  · intro h
    simp [h]

example : (115792089210356248762697446949407573529996955224135760342422259061068512044369 : Nat) ≤ 256 ^ 32 := by decide

/-- T1: the orders of the four named curves (read from crypto/elliptic at check time) fit their buffers and are
    positive; the version constant is the one of the source -/
theorem x509_curves_fit :
    (∀ c ∈ Gen.curves, 0 < c.2.2 ∧ c.2.2 ≤ 256 ^ ((c.2.1 + 7) / 8) ∧ 256 ^ ((c.2.1 + 7) / 8 - 1) ≤ c.2.2) ∧
    Gen.curves.map (·.1) = ["P-224", "P-256", "P-384", "P-521"] ∧ Gen.ecPrivKeyVersion = 1 := by decide

open ZV.TlsWire (beNat) in
/-- for the real curves: `parseECPrivateKey` (version 1, known curve) fails iff the value is `≥ N` -/
theorem x509_parseECPrivateKey_named_err_iff (curve : Nat) (pk : Bytes) (n size : Nat) (hc : ecCurve curve = some (n, size)) :
    ecPrivParse Gen.ecPrivKeyVersion curve pk = .err ↔ n ≤ beNat pk := by
  have hfit : n ≤ 256 ^ size := by
    unfold ecCurve at hc
    split at hc
    · rename_i nm bits n' hg
      cases hc
      have hm : (nm, bits, n) ∈ Gen.curves := List.mem_of_getElem? hg
      exact (x509_curves_fit.1 _ hm).2.1
    · cases hc
  unfold ecPrivParse
  simp only [ne_eq, not_true_eq_false, if_false, hc]
  exact x509_parseECPrivateKey_err_iff n size pk hfit

example : ∃ n size, ecCurve 1 = some (n, size) := ⟨_, _, rfl⟩

/-! ### cryptobyte `read` / `readLengthPrefixed`: in bounds -/

/-- `(*String).read(n)`: what is returned is exactly the first `n` bytes and the rest — nothing beyond the input -/
theorem cb_read_in_bounds (s : Bytes) (n : Int) (v r : Bytes) (h : cbRead s n = some (v, r)) :
    s = v ++ r ∧ (v.length : Int) = n := by
  unfold cbRead at h
  split at h
  · cases h
  · rename_i hn
    cases h
    refine ⟨(List.take_append_drop _ _).symm, ?_⟩
    simp
    omega

example : cbRead [1, 2, 3] 2 = some ([1, 2], [3]) := by decide

/-- `readLengthPrefixed`: prefix ++ child ++ rest is the input (ReadUint8/16/24LengthPrefixed) -/
theorem cb_readLengthPrefixed_in_bounds (s : Bytes) (lenLen : Nat) (child rest : Bytes)
    (h : cbReadLengthPrefixed s lenLen = some (child, rest)) :
    ∃ pre, pre.length = lenLen ∧ s = pre ++ child ++ rest := by
  unfold cbReadLengthPrefixed at h
  split at h
  · cases h
  · rename_i lb s1 h1
    obtain ⟨e1, l1⟩ := cb_read_in_bounds _ _ _ _ h1
    obtain ⟨e2, _⟩ := cb_read_in_bounds _ _ _ _ h
    refine ⟨lb, by omega, ?_⟩
    rw [e1, e2, List.append_assoc]

example : cbReadLengthPrefixed [2, 9, 8, 7] 1 = some ([9, 8], [7]) := by decide

/-! ### composition: parser entry points owned by other packages' models (corollaries; the models are tied to the Go
    code by the owning package's T2 stream) -/

theorem ct_deserializeSCT_no_panic (bs : Bytes) : ZV.C16.deserializeSCT bs ≠ .panic := (ZV.C16.decoders_no_panic bs).1
theorem ct_unmarshalDigitallySigned_no_panic (bs : Bytes) : ZV.C16.unmarshalDS bs ≠ .panic := (ZV.C16.decoders_no_panic bs).2.1
theorem ct_readMerkleTreeLeaf_no_panic (bs : Bytes) : ZV.C16.readMerkleTreeLeaf bs ≠ .panic := (ZV.C16.decoders_no_panic bs).2.2.1
theorem ct_unmarshalX509ChainArray_no_panic (bs : Bytes) : ZV.C16.unmarshalX509Chain bs ≠ .panic :=
  (ZV.C16.decoders_no_panic bs).2.2.2.1
theorem ct_unmarshalPrecertChainArray_no_panic (bs : Bytes) : ZV.C16.unmarshalPrecertChain bs ≠ .panic :=
  (ZV.C16.decoders_no_panic bs).2.2.2.2

/-- the C15 model of google.Parse (a second, independent model of the same function) -/
theorem crlset_parse_no_panic_c15 (inp : Bytes) (h : ZV.C15.Hdr) : ZV.C15.csParse inp h ≠ .panic :=
  ZV.C15.crlset_parse_no_panic inp h
/-- the C15 model of mozilla.Parse -/
theorem onecrl_parse_no_panic_c15 (recs : List ZV.C15.Rec) (ntbl : Bytes → Option ZV.C15.Str) :
    ZV.C15.ocParse recs ntbl ≠ .panic := ZV.C15.onecrl_parse_no_panic recs ntbl

/-- the TLS record reader behind `Conn.Read` (C32): never panics, consumes at least a header, never past the input -/
theorem tls_readRecord_no_panic (vers : Nat) (st : ZV.C32.St) (s : Bytes) : ZV.C32.readRecord vers st s ≠ .panic :=
  (ZV.C32.reader_total vers st s).1
/-- the key-exchange parsers run on ServerKeyExchange / ClientKeyExchange bodies (C32) -/
theorem tls_serverKeyExchange_ecdhe_parse_no_panic (c : ZV.C32.EcdheCtx) (msg : Bytes) : ZV.C32.ecdheSKXMsg c msg ≠ .panic :=
  ZV.C32.skx_parse_no_panic c msg
theorem tls_serverKeyExchange_dhe_parse_no_panic (c : ZV.C32.DheCtx) (msg : Bytes) : ZV.C32.dheSKXMsg c msg ≠ .panic :=
  ZV.C32.skx_dhe_parse_no_panic c msg
theorem tls_clientKeyExchange_parse_no_panic (k : ZV.C32.CkxKind) (msg : Bytes) : ZV.C32.ckxMsg k msg ≠ .panic :=
  ZV.C32.ckx_parse_no_panic k msg

/-- The TLS handshake-message models of C30 are `Option`-valued total functions over `ZV.TlsWire` (every `take` / `drop`
    sits behind a length comparison in the combinator, proved lawful once in `ZV.Proofs.TlsWire`): they have NO panic
    outcome, so "returns a value or an error" holds BY TYPE and the content is carried by C30's T2 stream (a panicking Go
    `unmarshal` prints `panic`, which no model output equals). The named statements below pin each entry point to its
    model; they are trivial on purpose and are marked `.byType` in the table. -/
theorem optOutcome {α} (o : Option α) : o = none ∨ ∃ v, o = some v := by
  cases o <;> simp

theorem tls_certificate_unmarshal_total (bs : Bytes) : ZV.C30.certificate.par bs = none ∨ ∃ v, ZV.C30.certificate.par bs = some v := optOutcome _
theorem tls_certificateTLS13_unmarshal_total (bs : Bytes) : ZV.C30.certificateTLS13.par bs = none ∨ ∃ v, ZV.C30.certificateTLS13.par bs = some v := optOutcome _
theorem tls_certificateRequest_unmarshal_total (hasSig : Bool) (bs : Bytes) : (ZV.C30.certificateRequest hasSig).par bs = none ∨ ∃ v, (ZV.C30.certificateRequest hasSig).par bs = some v := optOutcome _
theorem tls_certificateRequestTLS13_unmarshal_total (bs : Bytes) : ZV.C30.certificateRequestTLS13.par bs = none ∨ ∃ v, ZV.C30.certificateRequestTLS13.par bs = some v := optOutcome _
theorem tls_certificateStatus_unmarshal_total (bs : Bytes) : ZV.C30.certificateStatus.par bs = none ∨ ∃ v, ZV.C30.certificateStatus.par bs = some v := optOutcome _
theorem tls_certificateVerify_unmarshal_total (hasSig : Bool) (bs : Bytes) : (ZV.C30.certificateVerify hasSig).par bs = none ∨ ∃ v, (ZV.C30.certificateVerify hasSig).par bs = some v := optOutcome _
theorem tls_clientHello_unmarshal_total (bs : Bytes) : ZV.C30.clientHello.par bs = none ∨ ∃ v, ZV.C30.clientHello.par bs = some v := optOutcome _
theorem tls_clientKeyExchange_unmarshal_total (bs : Bytes) : ZV.C30.clientKeyExchange.par bs = none ∨ ∃ v, ZV.C30.clientKeyExchange.par bs = some v := optOutcome _
theorem tls_encryptedExtensions_unmarshal_total (bs : Bytes) : ZV.C30.encryptedExtensions.par bs = none ∨ ∃ v, ZV.C30.encryptedExtensions.par bs = some v := optOutcome _
theorem tls_endOfEarlyData_unmarshal_total (bs : Bytes) : ZV.C30.endOfEarlyData.par bs = none ∨ ∃ v, ZV.C30.endOfEarlyData.par bs = some v := optOutcome _
theorem tls_finished_unmarshal_total (bs : Bytes) : ZV.C30.finished.par bs = none ∨ ∃ v, ZV.C30.finished.par bs = some v := optOutcome _
theorem tls_helloRequest_unmarshal_total (bs : Bytes) : ZV.C30.helloRequest.par bs = none ∨ ∃ v, ZV.C30.helloRequest.par bs = some v := optOutcome _
theorem tls_keyUpdate_unmarshal_total (bs : Bytes) : ZV.C30.keyUpdate.par bs = none ∨ ∃ v, ZV.C30.keyUpdate.par bs = some v := optOutcome _
theorem tls_newSessionTicket_unmarshal_total (bs : Bytes) : ZV.C30.newSessionTicket.par bs = none ∨ ∃ v, ZV.C30.newSessionTicket.par bs = some v := optOutcome _
theorem tls_newSessionTicketTLS13_unmarshal_total (bs : Bytes) : ZV.C30.newSessionTicketTLS13.par bs = none ∨ ∃ v, ZV.C30.newSessionTicketTLS13.par bs = some v := optOutcome _
theorem tls_serverHelloDone_unmarshal_total (bs : Bytes) : ZV.C30.serverHelloDone.par bs = none ∨ ∃ v, ZV.C30.serverHelloDone.par bs = some v := optOutcome _
theorem tls_serverHello_unmarshal_total (bs : Bytes) : ZV.C30.serverHello.par bs = none ∨ ∃ v, ZV.C30.serverHello.par bs = some v := optOutcome _
theorem tls_serverKeyExchange_unmarshal_total (bs : Bytes) : ZV.C30.serverKeyExchange.par bs = none ∨ ∃ v, ZV.C30.serverKeyExchange.par bs = some v := optOutcome _
theorem tls_sessionState_unmarshal_total (bs : Bytes) : ZV.C30.sessionState.par bs = none ∨ ∃ v, ZV.C30.sessionState.par bs = some v := optOutcome _
theorem tls_sessionStateTLS13_unmarshal_total (bs : Bytes) : ZV.C30.sessionStateTLS13.par bs = none ∨ ∃ v, ZV.C30.sessionStateTLS13.par bs = some v := optOutcome _

/-! ### entry-point accounting (T1): every parser entry point found in the source is covered or listed as T3 only -/

inductive Cover where
  /-- no-panic / in-bounds theorem of this file, on the named model -/
  | proved (thm model : String)
  /-- proved for the named part only; the rest is T3 -/
  | partly (thm model rest : String)
  /-- the owning model is `Option`-valued (no panic outcome): total by type, tie = owning package's T2 -/
  | byType (thm model : String)
  /-- explored only (recover + watchdog + allocation meter) -/
  | t3 (why : String)
  deriving DecidableEq, Repr

def coverTable : List (String × Cover) := [
  ("cryptobyte String.ReadASN1", .partly "cb_readASN1_no_panic" "ZV.Model.C01" "readASN1 core proved; the tag comparison after it is T3"),
  ("cryptobyte String.ReadASN1BitString", .t3 "ASN.1 value reader on top of readASN1: T3 only"),
  ("cryptobyte String.ReadASN1BitStringAsBytes", .t3 "ASN.1 value reader on top of readASN1: T3 only"),
  ("cryptobyte String.ReadASN1Boolean", .t3 "ASN.1 value reader on top of readASN1: T3 only"),
  ("cryptobyte String.ReadASN1Bytes", .t3 "ASN.1 value reader on top of readASN1: T3 only"),
  ("cryptobyte String.ReadASN1Element", .partly "cb_readASN1_no_panic" "ZV.Model.C01" "readASN1 core proved; the tag comparison after it is T3"),
  ("cryptobyte String.ReadASN1Enum", .t3 "ASN.1 value reader on top of readASN1: T3 only"),
  ("cryptobyte String.ReadASN1GeneralizedTime", .t3 "ASN.1 value reader on top of readASN1: T3 only"),
  ("cryptobyte String.ReadASN1Int64WithTag", .t3 "ASN.1 value reader on top of readASN1: T3 only"),
  ("cryptobyte String.ReadASN1Integer", .t3 "ASN.1 value reader on top of readASN1: T3 only"),
  ("cryptobyte String.ReadASN1ObjectIdentifier", .t3 "ASN.1 value reader on top of readASN1: T3 only"),
  ("cryptobyte String.ReadASN1UTCTime", .t3 "ASN.1 value reader on top of readASN1: T3 only"),
  ("cryptobyte String.ReadAnyASN1", .proved "cb_readASN1_no_panic" "ZV.Model.C01"),
  ("cryptobyte String.ReadAnyASN1Element", .proved "cb_readASN1_no_panic" "ZV.Model.C01"),
  ("cryptobyte String.ReadBytes", .proved "cb_read_in_bounds" "ZV.Model.C01"),
  ("cryptobyte String.ReadOptionalASN1", .t3 "ASN.1 value reader on top of readASN1: T3 only"),
  ("cryptobyte String.ReadOptionalASN1Boolean", .t3 "ASN.1 value reader on top of readASN1: T3 only"),
  ("cryptobyte String.ReadOptionalASN1Integer", .t3 "ASN.1 value reader on top of readASN1: T3 only"),
  ("cryptobyte String.ReadOptionalASN1OctetString", .t3 "ASN.1 value reader on top of readASN1: T3 only"),
  ("cryptobyte String.ReadUint16", .proved "cb_read_in_bounds" "ZV.Model.C01"),
  ("cryptobyte String.ReadUint16LengthPrefixed", .proved "cb_readLengthPrefixed_in_bounds" "ZV.Model.C01"),
  ("cryptobyte String.ReadUint24", .proved "cb_read_in_bounds" "ZV.Model.C01"),
  ("cryptobyte String.ReadUint24LengthPrefixed", .proved "cb_readLengthPrefixed_in_bounds" "ZV.Model.C01"),
  ("cryptobyte String.ReadUint32", .proved "cb_read_in_bounds" "ZV.Model.C01"),
  ("cryptobyte String.ReadUint8", .proved "cb_read_in_bounds" "ZV.Model.C01"),
  ("cryptobyte String.ReadUint8LengthPrefixed", .proved "cb_readLengthPrefixed_in_bounds" "ZV.Model.C01"),
  ("ct DeserializeSCT", .proved "ct_deserializeSCT_no_panic" "ZV.Model.C16"),
  ("ct DigitallySigned.UnmarshalJSON", .t3 "JSON layer (encoding/json drives it): T3 only"),
  ("ct ReadMerkleTreeLeaf", .proved "ct_readMerkleTreeLeaf_no_panic" "ZV.Model.C16"),
  ("ct ReadTimestampedEntryInto", .partly "ct_readMerkleTreeLeaf_no_panic" "ZV.Model.C16" "reached through ReadMerkleTreeLeaf only; direct calls T3"),
  ("ct SHA256Hash.UnmarshalJSON", .t3 "JSON layer (encoding/json drives it): T3 only"),
  ("ct UnmarshalDigitallySigned", .proved "ct_unmarshalDigitallySigned_no_panic" "ZV.Model.C16"),
  ("ct UnmarshalPrecertChainArray", .proved "ct_unmarshalPrecertChainArray_no_panic" "ZV.Model.C16"),
  ("ct UnmarshalX509ChainArray", .proved "ct_unmarshalX509ChainArray_no_panic" "ZV.Model.C16"),
  ("ct/x509 ParseCRL", .t3 "ct/x509 fork, code around the asn1 engine: T3 only"),
  ("ct/x509 ParseCertificate", .t3 "ct/x509 fork, code around the asn1 engine: T3 only"),
  ("ct/x509 ParseCertificates", .t3 "ct/x509 fork, code around the asn1 engine: T3 only"),
  ("ct/x509 ParseDERCRL", .t3 "ct/x509 fork, code around the asn1 engine: T3 only"),
  ("ct/x509 ParseECPrivateKey", .t3 "ct/x509 fork, code around the asn1 engine: T3 only"),
  ("ct/x509 ParsePKCS1PrivateKey", .t3 "ct/x509 fork, code around the asn1 engine: T3 only"),
  ("ct/x509 ParsePKCS8PrivateKey", .t3 "ct/x509 fork, code around the asn1 engine: T3 only"),
  ("ct/x509 ParsePKIXPublicKey", .t3 "ct/x509 fork, code around the asn1 engine: T3 only"),
  ("ct/x509 ParseTBSCertificate", .t3 "ct/x509 fork, code around the asn1 engine: T3 only"),
  ("encoding/asn1 Unmarshal", .proved "asn1_unmarshal_no_panic" "ZV.Model.C18"),
  ("encoding/asn1 UnmarshalWithParams", .proved "asn1_unmarshal_no_panic" "ZV.Model.C18"),
  ("tls CipherSuiteID.UnmarshalJSON", .t3 "JSON layer (encoding/json drives it): T3 only"),
  ("tls ClientAuthType.UnmarshalJSON", .t3 "JSON layer (encoding/json drives it): T3 only"),
  ("tls CompressionMethod.UnmarshalJSON", .t3 "JSON layer (encoding/json drives it): T3 only"),
  ("tls Conn.Read", .proved "tls_readRecord_no_panic" "ZV.C32.readRecord"),
  ("tls CurveID.UnmarshalJSON", .t3 "JSON layer (encoding/json drives it): T3 only"),
  ("tls KeyShareExtension.UnmarshalJSON", .t3 "JSON layer (encoding/json drives it): T3 only"),
  ("tls PointFormat.UnmarshalJSON", .t3 "JSON layer (encoding/json drives it): T3 only"),
  ("tls SignatureAndHash.UnmarshalJSON", .t3 "JSON layer (encoding/json drives it): T3 only"),
  ("tls TLSVersion.UnmarshalJSON", .t3 "JSON layer (encoding/json drives it): T3 only"),
  ("tls atLeastReader.Read", .t3 "io.Reader adapter, no parsing: T3 only (through Conn.Read)"),
  ("tls certificateMsg.unmarshal", .byType "tls_certificate_unmarshal_total" "ZV.C30.certificate"),
  ("tls certificateMsgTLS13.unmarshal", .byType "tls_certificateTLS13_unmarshal_total" "ZV.C30.certificateTLS13"),
  ("tls certificateRequestMsg.unmarshal", .byType "tls_certificateRequest_unmarshal_total" "ZV.C30.certificateRequest"),
  ("tls certificateRequestMsgTLS13.unmarshal", .byType "tls_certificateRequestTLS13_unmarshal_total" "ZV.C30.certificateRequestTLS13"),
  ("tls certificateStatusMsg.unmarshal", .byType "tls_certificateStatus_unmarshal_total" "ZV.C30.certificateStatus"),
  ("tls certificateVerifyMsg.unmarshal", .byType "tls_certificateVerify_unmarshal_total" "ZV.C30.certificateVerify"),
  ("tls clientHelloMsg.unmarshal", .byType "tls_clientHello_unmarshal_total" "ZV.C30.clientHello"),
  ("tls clientKeyExchangeMsg.unmarshal", .byType "tls_clientKeyExchange_unmarshal_total" "ZV.C30.clientKeyExchange"),
  ("tls encryptedExtensionsMsg.unmarshal", .byType "tls_encryptedExtensions_unmarshal_total" "ZV.C30.encryptedExtensions"),
  ("tls endOfEarlyDataMsg.unmarshal", .byType "tls_endOfEarlyData_unmarshal_total" "ZV.C30.endOfEarlyData"),
  ("tls finishedMsg.unmarshal", .byType "tls_finished_unmarshal_total" "ZV.C30.finished"),
  ("tls helloRequestMsg.unmarshal", .byType "tls_helloRequest_unmarshal_total" "ZV.C30.helloRequest"),
  ("tls keyUpdateMsg.unmarshal", .byType "tls_keyUpdate_unmarshal_total" "ZV.C30.keyUpdate"),
  ("tls newSessionTicketMsg.unmarshal", .byType "tls_newSessionTicket_unmarshal_total" "ZV.C30.newSessionTicket"),
  ("tls newSessionTicketMsgTLS13.unmarshal", .byType "tls_newSessionTicketTLS13_unmarshal_total" "ZV.C30.newSessionTicketTLS13"),
  ("tls serverHelloDoneMsg.unmarshal", .byType "tls_serverHelloDone_unmarshal_total" "ZV.C30.serverHelloDone"),
  ("tls serverHelloMsg.unmarshal", .byType "tls_serverHello_unmarshal_total" "ZV.C30.serverHello"),
  ("tls serverKeyExchangeMsg.unmarshal", .byType "tls_serverKeyExchange_unmarshal_total" "ZV.C30.serverKeyExchange"),
  ("tls sessionState.unmarshal", .byType "tls_sessionState_unmarshal_total" "ZV.C30.sessionState"),
  ("tls sessionStateTLS13.unmarshal", .byType "tls_sessionStateTLS13_unmarshal_total" "ZV.C30.sessionStateTLS13"),
  ("x509 Certificate.UnmarshalJSON", .t3 "JSON layer (encoding/json drives it): T3 only"),
  ("x509 CertificateFingerprint.UnmarshalJSON", .t3 "JSON layer (encoding/json drives it): T3 only"),
  ("x509 CertificateType.UnmarshalJSON", .t3 "JSON layer (encoding/json drives it): T3 only"),
  ("x509 ExtendedKeyUsageExtension.UnmarshalJSON", .t3 "JSON layer (encoding/json drives it): T3 only"),
  ("x509 GeneralNames.UnmarshalJSON", .t3 "JSON layer (encoding/json drives it): T3 only"),
  ("x509 GeneralSubtreeIP.UnmarshalJSON", .t3 "JSON layer (encoding/json drives it): T3 only"),
  ("x509 JSONCertificate.UnmarshalJSON", .t3 "JSON layer (encoding/json drives it): T3 only"),
  ("x509 JSONCertificateWithRaw.ParseRaw", .t3 "JSON layer (encoding/json drives it): T3 only"),
  ("x509 KeyUsage.UnmarshalJSON", .t3 "JSON layer (encoding/json drives it): T3 only"),
  ("x509 NameConstraints.UnmarshalJSON", .t3 "JSON layer (encoding/json drives it): T3 only"),
  ("x509 ParseCRL", .t3 "x509 code around the asn1 engine (extension, name, key post-processing): T3 only"),
  ("x509 ParseCertificate", .t3 "x509 code around the asn1 engine (extension, name, key post-processing): T3 only"),
  ("x509 ParseCertificateRequest", .t3 "x509 code around the asn1 engine (extension, name, key post-processing): T3 only"),
  ("x509 ParseCertificates", .t3 "x509 code around the asn1 engine (extension, name, key post-processing): T3 only"),
  ("x509 ParseDERCRL", .t3 "x509 code around the asn1 engine (extension, name, key post-processing): T3 only"),
  ("x509 ParseECPrivateKey", .partly "x509_parseECPrivateKey_post_no_panic" "ZV.Model.C01Ec + ZV.Model.C18" "engine (asn1_unmarshal_no_panic) + post-processing proved; ScalarBaseMult and the optional PublicKey field T3"),
  ("x509 ParsePKCS1PrivateKey", .t3 "x509 code around the asn1 engine (extension, name, key post-processing): T3 only"),
  ("x509 ParsePKCS1PublicKey", .t3 "x509 code around the asn1 engine (extension, name, key post-processing): T3 only"),
  ("x509 ParsePKCS8PrivateKey", .t3 "x509 code around the asn1 engine (extension, name, key post-processing): T3 only"),
  ("x509 ParsePKIXPublicKey", .partly "selfsig_ed25519_no_panic" "ZV.Model.C01" "Ed25519/X25519 arm only; RSA/DSA/ECDSA arms are modelled in ZV.C20.X.parsePublicKey (T2-tied by C20) without a Lean no-panic theorem"),
  ("x509 ParseRevocationList", .t3 "x509 code around the asn1 engine (extension, name, key post-processing): T3 only"),
  ("x509 ParseTBSCertificate", .t3 "x509 code around the asn1 engine (extension, name, key post-processing): T3 only"),
  ("x509 PublicKeyAlgorithm.UnmarshalJSON", .t3 "JSON layer (encoding/json drives it): T3 only"),
  ("x509 QCStatements.Parse", .t3 "x509 code around the asn1 engine (extension, name, key post-processing): T3 only"),
  ("x509 SignatureAlgorithm.UnmarshalJSON", .t3 "JSON layer (encoding/json drives it): T3 only"),
  ("x509 validity.UnmarshalJSON", .t3 "JSON layer (encoding/json drives it): T3 only"),
  ("x509/ct DeserializeSCT", .proved "ct_deserializeSCT_no_panic" "ZV.Model.C16"),
  ("x509/ct DigitallySigned.UnmarshalJSON", .t3 "JSON layer (encoding/json drives it): T3 only"),
  ("x509/ct SHA256Hash.UnmarshalJSON", .t3 "JSON layer (encoding/json drives it): T3 only"),
  ("x509/ct UnmarshalDigitallySigned", .proved "ct_unmarshalDigitallySigned_no_panic" "ZV.Model.C16"),
  ("x509/revocation/google Parse", .proved "crlset_parse_total" "ZV.Model.C01 + ZV.Model.C15 (crlset_parse_no_panic_c15)"),
  ("x509/revocation/google ZipReader.ReadAt", .t3 "io.ReaderAt adapter over a byte slice: T3 only"),
  ("x509/revocation/microsoft Parse", .proved "sst_parse_total" "ZV.Model.C01"),
  ("x509/revocation/mozilla Entry.UnmarshalJSON", .proved "onecrl_entry_no_panic" "ZV.Model.C01"),
  ("x509/revocation/mozilla Parse", .proved "onecrl_parse_no_panic" "ZV.Model.C01 + ZV.Model.C15 (onecrl_parse_no_panic_c15)"),
  ("x509/revocation/ocsp ParseRequest", .t3 "OCSP code around the asn1 engine: T3 only"),
  ("x509/revocation/ocsp ParseResponse", .t3 "OCSP code around the asn1 engine: T3 only"),
  ("x509/revocation/ocsp ParseResponseForCert", .t3 "OCSP code around the asn1 engine: T3 only")]

/-- every theorem name the table cites exists (elaboration fails otherwise) -/
def coverTheorems : List Lean.Name := [
  ``asn1_unmarshal_no_panic,
  ``cb_readASN1_no_panic,
  ``cb_readLengthPrefixed_in_bounds,
  ``cb_read_in_bounds,
  ``crlset_parse_total,
  ``ct_deserializeSCT_no_panic,
  ``ct_readMerkleTreeLeaf_no_panic,
  ``ct_unmarshalDigitallySigned_no_panic,
  ``ct_unmarshalPrecertChainArray_no_panic,
  ``ct_unmarshalX509ChainArray_no_panic,
  ``onecrl_entry_no_panic,
  ``onecrl_parse_no_panic,
  ``selfsig_ed25519_no_panic,
  ``sst_parse_total,
  ``tls_certificateRequestTLS13_unmarshal_total,
  ``tls_certificateRequest_unmarshal_total,
  ``tls_certificateStatus_unmarshal_total,
  ``tls_certificateTLS13_unmarshal_total,
  ``tls_certificateVerify_unmarshal_total,
  ``tls_certificate_unmarshal_total,
  ``tls_clientHello_unmarshal_total,
  ``tls_clientKeyExchange_unmarshal_total,
  ``tls_encryptedExtensions_unmarshal_total,
  ``tls_endOfEarlyData_unmarshal_total,
  ``tls_finished_unmarshal_total,
  ``tls_helloRequest_unmarshal_total,
  ``tls_keyUpdate_unmarshal_total,
  ``tls_newSessionTicketTLS13_unmarshal_total,
  ``tls_newSessionTicket_unmarshal_total,
  ``tls_readRecord_no_panic,
  ``tls_serverHelloDone_unmarshal_total,
  ``tls_serverHello_unmarshal_total,
  ``tls_serverKeyExchange_unmarshal_total,
  ``tls_sessionStateTLS13_unmarshal_total,
  ``tls_sessionState_unmarshal_total,
  ``x509_parseECPrivateKey_post_no_panic]

/-- the table lists EXACTLY the entry points the go/ast scan finds in the anchored packages (same order): adding a
    parser to zcrypto makes this fail until it is accounted for -/
theorem entrypoints_accounted : coverTable.map (·.1) = Gen.entryPoints := by decide

/-- how many are covered by a theorem (fully / partly / by type) and how many are T3 only -/
theorem entrypoints_census :
    (coverTable.filter (fun e => match e.2 with | .proved .. => true | _ => false)).length = 24 ∧
    (coverTable.filter (fun e => match e.2 with | .partly .. => true | _ => false)).length = 5 ∧
    (coverTable.filter (fun e => match e.2 with | .byType .. => true | _ => false)).length = 20 ∧
    (coverTable.filter (fun e => match e.2 with | .t3 .. => true | _ => false)).length = 64 := by decide

end ZV.C01
