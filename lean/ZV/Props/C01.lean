import ZV.Proofs.C01
/-!
  C01 — parsers of untrusted bytes never panic, hang or over-allocate: the theorems.

  All statements are about the executable models of `ZV.Model.C01` (tied to the Go code by the T2
  streams `tl b128 il seqof cba cbe cblp sst crlset onecrle edkey rsapub`). In the models every Go
  index / slice expression is `idx` / `slice` (out of range = `Res.panic`), the preconditions of the
  primitives (`ed25519.Verify`, `math/big`) are explicit `Res.panic` branches, and every loop is a
  total Lean function, so *termination is part of the definition being accepted* and "no panic" is
  what is proved below, for every input and both parsing modes.

  -- FULL (not proved here): `∀ perm schema bs, unmarshal perm schema bs ≠ .panic` for the whole
  -- reflective `parseField` engine and every instance (certificate, CSR, CRL, OCSP, keys), and the
  -- same for the TLS / CT grammars. Proved: the header/length readers every one of those parsers is
  -- built on, the element loop, the cryptobyte reader, the revocation-set parsers, and the post-parse
  -- steps with primitive preconditions. The rest is explored by T3 only (see tools/props/C01.json).
-/
namespace ZV.C01

/-! ### encoding/asn1 header reader (`parseBase128Int`, `parseTagAndLength`, `invalidLength`) -/

/-- the base-128 tag reader never indexes out of range, whatever the offset -/
theorem der_base128_no_panic (bs : Bytes) (off : Nat) : parseBase128Int bs off ≠ .panic :=
  b128Loop_no_panic bs 0 0 off

/-- … and what it returns lies strictly beyond the start, inside the input, and fits an int32 -/
theorem der_base128_consumed (bs : Bytes) (off r o : Nat) (h : parseBase128Int bs off = .ok (r, o)) :
    off < o ∧ o ≤ bs.length ∧ r ≤ 2147483647 :=
  b128Loop_consumed bs 0 0 off r o h

example : parseBase128Int [0x81, 0x00] 0 = .ok (128, 2) := by
  simp [parseBase128Int, b128Loop, idx]; decide

/-- `parseTagAndLength` never panics: both parsing modes, every byte string, every offset -/
theorem der_header_no_panic (perm : Bool) (bs : Bytes) (off : Nat) : parseTagAndLength perm bs off ≠ .panic :=
  parseTagAndLength_no_panic perm bs off

/-- an accepted header consumes at least two bytes, stays inside the input, and its length field is
    < 2^31 (so `offset + length` cannot overflow where the callers add them) -/
theorem der_header_consumed (perm : Bool) (bs : Bytes) (off : Nat) (t : TL) (o : Nat)
    (h : parseTagAndLength perm bs off = .ok (t, o)) : off + 2 ≤ o ∧ o ≤ bs.length ∧ t.len < 2147483648 :=
  parseTagAndLength_consumed perm bs off t o h

example : parseTagAndLength false [0x30, 0x82, 0x01, 0x00] 0 = .ok (⟨0, 16, 256, true⟩, 4) := by decide

/-- the permissive switch only relaxes: whatever strict mode accepts, permissive mode accepts with the same result -/
theorem der_header_strict_le_permissive (bs : Bytes) (off : Nat) (r : TL × Nat)
    (h : parseTagAndLength false bs off = .ok r) : parseTagAndLength true bs off = .ok r :=
  parseTagAndLength_strict_perm bs off r h

/-- and it really is a relaxation (non-minimal long form) -/
example : parseTagAndLength false [0x04, 0x81, 0x05] 0 = .err ∧
    parseTagAndLength true [0x04, 0x81, 0x05] 0 = .ok (⟨0, 4, 5, false⟩, 3) := by decide

/-- `invalidLength` = false really means the element lies inside the slice -/
theorem der_invalidLength_sound (o l s : Nat) (h : invalidLength o l s = false) : o + l ≤ s :=
  invalidLength_false h

example : invalidLength 2 3 5 = false := by decide

/-- the wrapping int64 expression of the Go code and the mathematical one agree on every pair of
    non-negative int64 arguments — the overflow arm `offset+length < offset` closes the hole -/
theorem der_invalidLength_wraps (o l s : Nat) (ho : o < 9223372036854775808) (hl : l < 9223372036854775808) :
    invalidLengthInt o l s = invalidLength o l s :=
  invalidLength_eq_int o l s ho hl

example : invalidLengthInt 9223372036854775807 1 100 = true := by decide

/-! ### the element loop (`parseSequenceOf`) and `Unmarshal` into `[]RawValue` -/

/-- the counting loop of `parseSequenceOf` never panics; its recursion is on `len - offset`, accepted
    by Lean because every accepted header advances (`der_header_consumed`): the loop cannot spin -/
theorem der_seqof_loop_no_panic (perm : Bool) (bs : Bytes) (off n : Nat) : countElems perm bs off n ≠ .panic :=
  countElems_no_panic perm bs off n

/-- allocation of the element loop: the element count it hands to `reflect.MakeSlice` is at most half
    the number of content bytes -/
theorem der_seqof_count_linear (perm : Bool) (bs : Bytes) (m : Nat) (h : countElems perm bs 0 0 = .ok m) :
    2 * m ≤ bs.length := by
  have := (countElems_bound perm bs 0 0 m h).1
  omega

example : countElems false [0x05, 0x00] 0 0 = .ok 1 := by
  have hd : parseTagAndLength false [0x05, 0x00] 0 = .ok (⟨0, 5, 0, false⟩, 2) := by decide
  rw [countElems]
  simp only [List.length_cons, List.length_nil, Nat.zero_lt_succ, dite_true, Nat.reduceAdd]
  split
  · rename_i t o hp
    rw [hd] at hp
    simp at hp
    obtain ⟨h1, h2⟩ := hp
    subst h1 h2
    simp [invalidLength]
    rw [countElems]
    simp
  · rename_i hp; rw [hd] at hp; simp at hp
  · rename_i hp; rw [hd] at hp; simp at hp

theorem der_unmarshal_rawseq_no_panic (perm : Bool) (bs : Bytes) : unmarshalRawSeq perm bs ≠ .panic :=
  unmarshalRawSeq_no_panic perm bs

/-! ### cryptobyte `readASN1` -/

/-- `readASN1` never reaches its `panic("cryptobyte: internal error")` nor an out-of-range slice,
    including for lengths near 2^32 (the `headerLen+len32 < len32` guard) -/
theorem cb_readASN1_no_panic (s : Bytes) (skipHeader : Bool) : cbReadASN1 s skipHeader ≠ .panic :=
  cbReadASN1_no_panic s skipHeader

/-- what it hands out and what it leaves never exceed the input, and it always consumes ≥ 2 bytes -/
theorem cb_readASN1_consumed (s : Bytes) (skip : Bool) (tag : UInt8) (out rest : Bytes)
    (h : cbReadASN1 s skip = .ok (tag, out, rest)) :
    out.length + rest.length ≤ s.length ∧ rest.length + 2 ≤ s.length :=
  cbReadASN1_consumed s skip tag out rest h

example : cbReadASN1 [0x04, 0x01, 0xaa, 0xbb] true = .ok (0x04, [0xaa], [0xbb]) := by decide
/-- the uint32 overflow case is an error, not a wrap-around -/
example : cbReadASN1 [0x04, 0x84, 0xff, 0xff, 0xff, 0xfb, 0x00] true = .err := by decide

/-! ### Microsoft SST -/

/-- `microsoft.parse` is total for every input and every behaviour of the certificate parser -/
theorem sst_parse_total (certOK : Bytes → Bool) (bs : Bytes) : sstParse certOK bs ≠ .panic :=
  sstParse_no_panic certOK bs

/-- and the buffers it allocates (`make([]byte, len)` + the decoder buffer of `binary.Read`) are
    bounded by twice the input length -/
theorem sst_parse_alloc (certOK : Bytes → Bool) (bs : Bytes) (n a : Nat) (h : sstParse certOK bs = .ok (n, a)) :
    a ≤ 2 * bs.length :=
  sstParse_alloc certOK bs n a h

example : sstParse (fun _ => true) [0,0,0,0, 0x43,0x45,0x52,0x54, 32,0,0,0, 1,0,0,0, 2,0,0,0, 7,7] = .ok (1, 4) := by
  simp [sstParse, rdU32, le32, sstLoop, sstPost]

/-! ### Google CRLSet -/

theorem crlset_parse_total (headerOK : Bool) (bs : Bytes) : crlsetParse headerOK bs ≠ .panic :=
  crlsetParse_no_panic headerOK bs

/-- allocation (with the unit costs of the model: 128 per issuer entry, 64 + 2·len per serial) is at
    most 64 bytes per input byte -/
theorem crlset_parse_alloc (headerOK : Bool) (bs : Bytes) (k n a : Nat)
    (h : crlsetParse headerOK bs = .ok (k, n, a)) : a ≤ 64 * bs.length :=
  crlsetParse_alloc headerOK bs k n a h

example : crlsetParse true [2, 0, 0x7b, 0x7d] = .ok (0, 0, 0) := by
  simp [crlsetParse, idx, slice, crlLoop]

/-! ### Mozilla OneCRL -/

theorem onecrl_entry_no_panic (r : Rec) : entryUnmarshal r ≠ .panic := entryUnmarshal_no_panic r

/-- `mozilla.Parse` never dereferences a missing issuer: any list of records, including `null` ones -/
theorem onecrl_parse_no_panic (recs : List Rec) : onecrlParse recs ≠ .panic := onecrlParse_no_panic recs

/-! ### post-parse steps with primitive preconditions -/

/-- a key accepted by `parsePublicKey` (Ed25519 / X25519 arms) never makes the signature check panic:
    this covers the self-signature test inside `ParseCertificate` and any later child check -/
theorem selfsig_ed25519_no_panic (isEd : Bool) (keyLen sigLen : Nat) : edKeyFlow isEd keyLen sigLen ≠ .panic :=
  edKeyFlow_no_panic isEd keyLen sigLen

/-- the precondition is real: the verifier panics on a 31-byte key (what D3 allowed through) -/
example : ed25519Verify 31 64 = .panic := by decide

/-- RSA verification (PKCS#1 v1.5 and PSS share the skeleton) on ANY key — nil, zero, negative
    modulus or exponent — returns -/
theorem rsa_verify_no_panic (p : RsaPub) (sigLen sig : Nat) : verify p sigLen sig ≠ .panic :=
  verify_no_panic p sigLen sig

theorem rsa_encrypt_no_panic (p : RsaPub) (msgLen : Nat) : encryptPKCS1v15 p msgLen ≠ .panic :=
  encryptPKCS1v15_no_panic p msgLen

/-- without the `checkPub` guard the same skeleton panics (D8): negative exponent, signature not
    coprime to the modulus; or a nil modulus -/
example : verifyUnguarded { n := some 35, e := some (-1) } 1 0 = .panic := by decide
example : verifyUnguarded { n := none, e := some 3 } 0 0 = .panic := by decide

end ZV.C01
