import ZV.Model.C25
import ZV.Proofs.C25
import ZV.Proofs.C25Read
import ZV.Generated.C25
/-!
  C25 — TLS application data arrives intact or not at all: theorems about the model `ZV.Model.C25`
  of tls/conn.go (extractPadding, halfConn.encrypt/decrypt, maxPayloadSizeForWrite, writeRecordLocked,
  readRecordOrCCS) and tls/cipher_suites.go (nonce wrappers, tls10MAC). Cryptographic primitives are
  parameters; their laws (`StreamLaws`, `CbcLaws`, `AeadLaws`, `MacLaws`) are hypotheses, and every
  hypothesis is shown satisfiable by the toy primitives the correspondence check runs with.
-/
namespace ZV.C25

/-! ### record sizing -/

theorem growPayload_le (pb pkt : Int) : (growPayload pb pkt).1 ≤ 2 ^ 14 := by
  unfold growPayload maxPlaintext
  split
  · simp
  · simp only []
    split
    · simp
    · simp only []; omega

/-- no record produced by the write path carries more than 2^14 plaintext bytes: the size chosen by
    `maxPayloadSizeForWrite` never exceeds `maxPlaintext`, whatever the connection state. -/
theorem maxPayload_le_2_14 {σ} (c : Conn σ) (typ : UInt8) :
    (maxPayloadSizeForWrite c typ).1 ≤ 2 ^ 14 := by
  unfold maxPayloadSizeForWrite
  split
  · simp [maxPlaintext]
  · split
    · simp [maxPlaintext]
    · exact growPayload_le _ _

/-! ### extractPadding -/

theorem extractPadding_nil : extractPadding [] = (0, 0) := rfl

/-- **padding_spec** -/
theorem padding_spec (p : Bytes) (hlen : p.length ≤ 2^31) :
    extractPadding p =
      match p.getLast? with
      | none => (0, 0)
      | some n => if validPadding p n then (n.toNat + 1, 255) else (1, 0) := by
  cases h : p.getLast? with
  | none =>
    have : p = [] := List.getLast?_eq_none_iff.mp h
    subst this; rfl
  | some n => exact extractPadding_cons p n h hlen

theorem padding_iff (p : Bytes) (hlen : p.length ≤ 2^31) (k : Nat) :
    extractPadding p = (k + 1, 255) ↔
      k < 256 ∧ k + 1 ≤ p.length ∧ ∀ b ∈ p.drop (p.length - (k + 1)), b.toNat = k := by
  rw [padding_spec p hlen]
  cases h : p.getLast? with
  | none =>
    have : p = [] := List.getLast?_eq_none_iff.mp h
    subst this
    simp
  | some n =>
    have hn : n.toNat < 256 := n.toNat_lt
    simp only
    by_cases hv : validPadding p n
    · simp only [hv, if_true, Prod.mk.injEq, and_true, Nat.add_right_cancel_iff]
      constructor
      · intro e; subst e
        exact ⟨hn, hv.1, fun b hb => by rw [hv.2 b hb]⟩
      · rintro ⟨_, h2, h3⟩
        have hne : p ≠ [] := by intro e; subst e; simp at h
        have hmem : n ∈ p.drop (p.length - (k + 1)) := by
          have hl := List.getLast?_eq_some_getLast hne
          rw [hl] at h
          simp only [Option.some.injEq] at h
          rw [← h, ← List.getLast_drop (l := p) (i := p.length - (k+1)) (by simp; omega)]
          exact List.getLast_mem _
        exact h3 n hmem
    · simp only [hv, if_false, Prod.mk.injEq]
      constructor
      · rintro ⟨_, h⟩; exact absurd h (by decide)
      · rintro ⟨h1, h2, h3⟩
        exfalso; apply hv
        have hne : p ≠ [] := by intro e; subst e; simp at h
        have hmem : n ∈ p.drop (p.length - (k + 1)) := by
          have hl := List.getLast?_eq_some_getLast hne
          rw [hl] at h
          simp only [Option.some.injEq] at h
          rw [← h, ← List.getLast_drop (l := p) (i := p.length - (k+1)) (by simp; omega)]
          exact List.getLast_mem _
        have hk : n.toNat = k := h3 n hmem
        refine ⟨by omega, ?_⟩
        intro b hb
        rw [hk] at hb
        exact UInt8.toNat_inj.mp (by rw [h3 b hb, hk])

/-! ### sequence numbers -/

/-- `incSeq` adds one to the big-endian value and keeps the length; -/
theorem incSeq_ok (seq seq' : Bytes) (h : incSeq seq = .ok seq') :
    beNat seq' = beNat seq + 1 ∧ seq'.length = seq.length := by
  unfold incSeq at h
  cases hr : incSeqRev seq.reverse with
  | none => simp [hr] at h
  | some r =>
    simp only [hr, Res.ok.injEq] at h
    subst h
    obtain ⟨h1, h2⟩ := incSeqRev_some _ _ hr
    simp [beNat, h1, h2]

/-- … and panics exactly on the all-ones sequence number (never wraps silently, never errs). -/
theorem incSeq_panic_iff (seq : Bytes) : incSeq seq = .panic ↔ ∀ b ∈ seq, b = 255 := by
  unfold incSeq
  cases hr : incSeqRev seq.reverse with
  | none => simp only [true_iff]; intro b hb; exact (incSeqRev_none _).mp hr b (List.mem_reverse.mpr hb)
  | some r =>
    simp only [reduceCtorEq, false_iff]
    intro hall
    have := (incSeqRev_none seq.reverse).mpr (fun b hb => hall b (List.mem_reverse.mp hb))
    rw [this] at hr; simp at hr

/-! ### AEAD nonces and additional data -/

/-- prefix-nonce construction (TLS 1.2 AES-GCM): `fixed[0:4] ‖ seq` — distinct sequence numbers give
    distinct nonces. -/
theorem nonce_injective_prefix (fixed s s' : Bytes) (hf : fixed.length = 12) (hs : s.length = 8)
    (hs' : s'.length = 8) (e : prefixNonce fixed s = prefixNonce fixed s') : s = s' := by
  unfold prefixNonce at e
  rw [copyInto_eq _ s (by simp [hf, hs]), copyInto_eq _ s' (by simp [hf, hs'])] at e
  exact List.append_cancel_left e

/-- xor-nonce construction (ChaCha20-Poly1305, TLS 1.3): `iv ⊕ (0⁴ ‖ seq)` — distinct sequence numbers
    give distinct nonces. -/
theorem nonce_injective_xor (mask s s' : Bytes) (hm : mask.length = 12) (hs : s.length = 8)
    (hs' : s'.length = 8) (e : xorNonce mask s = xorNonce mask s') : s = s' := by
  unfold xorNonce at e
  exact xorInto_inj _ s s' (by simp [hm, hs]) (by simp [hm, hs']) (List.append_cancel_left e)

/-- additional data / MAC input header of TLS ≤ 1.2: `seq ‖ type ‖ version ‖ length` is 13 bytes and
    determines each of its fields. -/
theorem ad_layout (seq seq' : Bytes) (t v1 v2 t' v1' v2' : UInt8) (n n' : Int)
    (hs : seq.length = 8) (hs' : seq'.length = 8) :
    (seq ++ [t, v1, v2] ++ be16 n).length = 13 ∧
    (seq ++ [t, v1, v2] ++ be16 n = seq' ++ [t', v1', v2'] ++ be16 n' →
      seq = seq' ∧ t = t' ∧ v1 = v1' ∧ v2 = v2' ∧ be16 n = be16 n') := by
  constructor
  · simp [be16, hs]
  · intro e
    rw [List.append_assoc, List.append_assoc] at e
    have h := List.append_inj e (by rw [hs, hs'])
    obtain ⟨h1, h2⟩ := h
    simp only [List.cons_append, List.nil_append, List.cons.injEq] at h2
    exact ⟨h1, h2.1, h2.2.1, h2.2.2.1, h2.2.2.2⟩

/-! ### decrypt ∘ encrypt = id, per protection mode (laws `StreamLaws`, `CbcLaws`, `AeadLaws`, `MacLaws`:
    see ZV.Proofs.C25; each is proved there for the toy primitives — `toy_stream_laws`, `toy_cbc_laws`
    (from `toy_block_laws` via `cbcOf_laws`: CBC over ANY invertible block function), `toy_prefix_laws`,
    `toy_xor_laws`, `hmac_sha1_laws`) -/

/-- **stream cipher + MAC**: what `encrypt` writes at sequence number `seq` and stream state `st`,
    `decrypt` at the same sequence number and state returns unchanged, with the same content type;
    afterwards both sides hold the same incremented sequence number and stream state. -/
theorem decrypt_encrypt_stream {σ} (xor : σ → Bytes → Bytes × σ) (mac : Mac)
    (hx : StreamLaws xor) (hm : MacLaws mac)
    (v : Nat) (hv : v ≠ VersionTLS13) (st : σ) (seq seq' : Bytes) (hs : incSeq seq = .ok seq')
    (typ v1 v2 : UInt8) (p rand : Bytes) :
    ∃ rec st',
      encrypt ⟨v, .stream xor mac, st, seq⟩ ([typ, v1, v2] ++ be16 p.length) p rand
        = .ok (rec, ⟨v, .stream xor mac, st', seq'⟩, rand) ∧
      decrypt ⟨v, .stream xor mac, st, seq⟩ rec = .ok (p, typ, ⟨v, .stream xor mac, st', seq'⟩) := by
  let m := mac.sum (seq ++ [typ, v1, v2, UInt8.ofNat (p.length / 256), UInt8.ofNat p.length] ++ p)
  refine ⟨[typ, v1, v2] ++ be16 ((xor st p).1 ++ (xor (xor st p).2 m).1).length ++
      ((xor st p).1 ++ (xor (xor st p).2 m).1), (xor (xor st p).2 m).2, ?_, ?_⟩
  · simp only [be16_nat, encrypt, List.cons_append, List.nil_append, tls10MAC, finishEncrypt, hs]
    rfl
  · have hdec : xor st ((xor st p).1 ++ (xor (xor st p).2 m).1) = (p ++ m, (xor (xor st p).2 m).2) := by
      rw [hx.append, hx.invol]
      simp only
      rw [hx.invol]
    have hv' : (v == VersionTLS13) = false := by simpa using hv
    simp only [be16_nat, decrypt, List.cons_append, List.nil_append, hv', Bool.false_and,
      Bool.false_eq_true, if_false, hdec, decrypt13_other v hv]
    have := decryptMac_ok mac hm seq [typ, v1, v2] p []
    simp only [List.append_nil, List.length_nil, be16_nat, List.cons_append, List.nil_append] at this
    rw [this]
    simp only [hs]

/-- **AEAD, TLS ≤ 1.2** (prefix-nonce AES-GCM with its explicit nonce, xor-nonce ChaCha20): `decrypt`
    at the same sequence number returns what `encrypt` was given. -/
theorem decrypt_encrypt_aead12 {σ} (a : Aead) (ha : AeadLaws a) (v : Nat) (hv : v ≠ VersionTLS13) (st : σ)
    (seq seq' : Bytes) (hs : incSeq seq = .ok seq') (typ v1 v2 : UInt8) (p rand : Bytes)
    (hr : a.explicitNonceLen < 16 ∨ a.explicitNonceLen ≤ rand.length) :
    ∃ rec rand',
      encrypt ⟨v, .aead a, st, seq⟩ ([typ, v1, v2] ++ be16 p.length) p rand
        = .ok (rec, ⟨v, .aead a, st, seq'⟩, rand') ∧
      decrypt ⟨v, .aead a, st, seq⟩ rec = .ok (p, typ, ⟨v, .aead a, st, seq'⟩) := by
  obtain ⟨rand', he⟩ := encrypt_aead12_eq a v hv st seq seq' hs typ v1 v2
    (UInt8.ofNat (p.length / 256)) (UInt8.ofNat p.length) p rand hr
  rw [be16_nat p.length]
  refine ⟨_, rand', he, ?_⟩
  rw [be16_nat]
  exact decrypt_aead12_sealed a ha v hv st seq seq' hs typ v1 v2 _ _ p _
    (aeadExplicitNonce_length a seq rand hr)

/-- **TLS 1.3** (xor-nonce AEAD, inner content type, outer type application_data, record length in the
    additional data): `decrypt` at the same sequence number returns the payload and the inner type. -/
theorem decrypt_encrypt_tls13 {σ} (a : Aead) (ha : AeadLaws a) (he : a.explicitNonceLen = 0) (st : σ)
    (seq seq' : Bytes) (hs : incSeq seq = .ok seq') (typ v1 v2 : UInt8) (ht : typ ≠ 0)
    (p rand : Bytes) (hp : p.length ≤ maxPlaintext) :
    ∃ rec,
      encrypt ⟨VersionTLS13, .aead a, st, seq⟩ ([typ, v1, v2] ++ be16 p.length) p rand
        = .ok (rec, ⟨VersionTLS13, .aead a, st, seq'⟩, rand) ∧
      rec.head? = some recordTypeApplicationData ∧
      decrypt ⟨VersionTLS13, .aead a, st, seq⟩ rec = .ok (p, typ, ⟨VersionTLS13, .aead a, st, seq'⟩) := by
  have hl : (a.sealFn seq (p ++ [typ])
      (recordTypeApplicationData :: v1 :: v2 :: be16 (↑p.length + 1 + ↑a.overhead))).length
      = p.length + 1 + a.overhead := by rw [ha.seal_length]; simp
  have hcast : ((p.length : Int) + 1 + (a.overhead : Int)) = ((p.length + 1 + a.overhead : Nat) : Int) := by
    push_cast; rfl
  refine ⟨[recordTypeApplicationData, v1, v2] ++ be16 ((a.sealFn seq (p ++ [typ])
      (recordTypeApplicationData :: v1 :: v2 :: be16 (↑p.length + 1 + ↑a.overhead))).length : Nat) ++
      a.sealFn seq (p ++ [typ])
      (recordTypeApplicationData :: v1 :: v2 :: be16 (↑p.length + 1 + ↑a.overhead)), ?_, ?_, ?_⟩
  · simp only [be16_nat, encrypt, List.cons_append, List.nil_append, he, Nat.lt_irrefl, gt_iff_lt,
      decide_false, Bool.false_and, Bool.false_eq_true, if_false, List.length_nil, beq_self_eq_true,
      if_true, finishEncrypt, hs]
  · simp
  · rw [hcast] at hl
    simp only [hl, hcast, be16_nat, List.cons_append, List.nil_append]
    have hccs : (recordTypeApplicationData == recordTypeChangeCipherSpec) = false := by decide
    simp only [decrypt, beq_self_eq_true, Bool.true_and, hccs, Bool.false_eq_true, if_false,
      explicitNonceLen, he, List.take_zero, List.length_nil, if_true, List.drop_zero,
      Nat.not_lt_zero, recordHeaderLen, List.take_succ_cons, List.take_nil]
    simp only [ha.seal_length, List.length_append, List.length_cons, List.length_nil, Nat.zero_add]
    rw [ha.open_seal]
    simp only [decrypt13_inner typ ht p hp, hs]

/-- **CBC + MAC, TLS 1.0 / SSL 3.0 record format (implicit IV)**: the chaining value left by the
    previous record is the IV; reader and writer in the same chaining state `st` and at the same
    sequence number ⇒ `decrypt (encrypt p) = p`, and both end in the same chaining state again. -/
theorem decrypt_encrypt_cbc10 {σ} (enc dec : Cbc σ) (ok : σ → Prop) (hc : CbcLaws enc dec ok) (mac : Mac)
    (hm : MacLaws mac) (hbs : 0 < enc.blockSize) (hbs' : enc.blockSize ≤ 256)
    (v : Nat) (hv : v < VersionTLS11) (st : σ) (hok : ok st) (seq seq' : Bytes) (hs : incSeq seq = .ok seq')
    (typ v1 v2 : UInt8) (p rand : Bytes) (hlen : p.length + mac.size + 256 ≤ 2^31) :
    ∃ rec st',
      encrypt ⟨v, .cbc enc mac, st, seq⟩ ([typ, v1, v2] ++ be16 p.length) p rand
        = .ok (rec, ⟨v, .cbc enc mac, st', seq'⟩, rand) ∧ ok st' ∧
      decrypt ⟨v, .cbc dec mac, st, seq⟩ rec = .ok (p, typ, ⟨v, .cbc dec mac, st', seq'⟩) := by
  have hv11 : ¬ (v ≥ VersionTLS11) := by omega
  have hv13 : v ≠ VersionTLS13 := by unfold VersionTLS11 at hv; unfold VersionTLS13; omega
  have henc := encrypt_cbc_eq enc mac hbs v st seq seq' hs typ v1 v2 (UInt8.ofNat (p.length / 256))
    (UInt8.ofNat p.length) p rand (fun h => absurd h hv11)
  have hiv : cbcExplicitIV v enc.blockSize rand = [] := by simp [cbcExplicitIV, hv11]
  rw [be16_nat p.length]
  simp only [hv11, if_false] at henc
  refine ⟨_, _, henc, ?_, ?_⟩
  · rw [hiv]; simpa using hc.crypt_ok st _ hok (cbcPlain_length_mod _ hbs _ _)
  · rw [be16_nat]
    exact decrypt_cbc_core enc dec ok hc mac hm hbs hbs' v hv13 st seq seq' hs typ v1 v2 _ _ p _ hlen
      (by simp [hiv, hv11]) (by rw [hiv]; simpa using hok)

/-- **CBC + MAC, TLS ≥ 1.1 (explicit IV)**: the IV is one block read from `rand` and sent in front
    of the ciphertext; the reader installs it with `SetIV`, so only the sequence number has to agree. -/
theorem decrypt_encrypt_cbc11 {σ} (enc dec : Cbc σ) (ok : σ → Prop) (hc : CbcLaws enc dec ok) (mac : Mac)
    (hm : MacLaws mac) (hbs : 0 < enc.blockSize) (hbs' : enc.blockSize ≤ 256)
    (v : Nat) (hv : v ≥ VersionTLS11) (hv13 : v ≠ VersionTLS13) (st : σ) (seq seq' : Bytes)
    (hs : incSeq seq = .ok seq') (typ v1 v2 : UInt8) (p rand : Bytes) (hrand : enc.blockSize ≤ rand.length)
    (hlen : p.length + mac.size + 256 ≤ 2^31) :
    ∃ rec st',
      encrypt ⟨v, .cbc enc mac, st, seq⟩ ([typ, v1, v2] ++ be16 p.length) p rand
        = .ok (rec, ⟨v, .cbc enc mac, st', seq'⟩, rand.drop enc.blockSize) ∧
      (rec.drop 5).take enc.blockSize = rand.take enc.blockSize ∧
      decrypt ⟨v, .cbc dec mac, st, seq⟩ rec = .ok (p, typ, ⟨v, .cbc dec mac, st', seq'⟩) := by
  have henc := encrypt_cbc_eq enc mac hbs v st seq seq' hs typ v1 v2 (UInt8.ofNat (p.length / 256))
    (UInt8.ofNat p.length) p rand (fun _ => hrand)
  have hiv : cbcExplicitIV v enc.blockSize rand = rand.take enc.blockSize := by simp [cbcExplicitIV, hv]
  have hivl : (cbcExplicitIV v enc.blockSize rand).length = enc.blockSize := by rw [hiv]; simp; omega
  rw [be16_nat p.length]
  simp only [hv, if_true] at henc
  refine ⟨_, _, henc, ?_, ?_⟩
  · rw [be16_nat]
    simp only [List.cons_append, List.nil_append, List.drop_succ_cons, List.drop_zero]
    rw [List.take_left' hivl, hiv]
  · rw [be16_nat]
    exact decrypt_cbc_core enc dec ok hc mac hm hbs hbs' v hv13 st seq seq' hs typ v1 v2 _ _ p _ hlen
      (by simp [hivl, hv]) (by simp only [hivl, hbs, gt_iff_lt, if_true]; exact hc.setIV_ok _ _ hivl)

/-! ### fragmentation (writeRecordLocked) and the read-side length check -/

theorem writeLoop_spec {σ} (c : Conn σ) (typ : UInt8) (data rand : Bytes) (n : Nat) (acc facc : List Bytes) :
    ∀ (w : WriteOut σ), writeLoop c typ data rand n acc facc = .ok w →
    ∃ fs, w.frags = facc.reverse ++ fs ∧ fs.flatten = data ∧ (∀ f ∈ fs, 1 ≤ f.length ∧ f.length ≤ 2 ^ 14) ∧
      w.n = n + data.length ∧ w.records.length = acc.length + fs.length := by
  fun_induction writeLoop c typ data rand n acc facc with
  | case1 c rand n acc facc =>
    intro w h
    simp only [Res.ok.injEq] at h; subst h
    exact ⟨[], by simp⟩
  | case2 => intro w h; simp at h
  | case3 c rand n acc facc hd tl maxPayload pkts hmp hm vers rec hc' rand' sent m hdr henc ih =>
    intro w h
    simp only [] at h
    simp only [hdr, m, vers, dite_eq_ite] at henc
    rw [henc] at h
    simp only [] at h
    obtain ⟨fs, h1, h2, h3, h4, h5⟩ := ih w h
    have hmdef : m = if (hd :: tl).length > maxPayload.toNat then maxPayload.toNat else (hd :: tl).length := rfl
    have hmax : maxPayload ≤ 2 ^ 14 := by
      have := maxPayload_le_2_14 c typ
      rw [hmp] at this; exact this
    have hm1 : 1 ≤ m := by
      rw [hmdef]; split <;> simp only [List.length_cons] at * <;> omega
    have hm2 : m ≤ 2 ^ 14 := by
      rw [hmdef]; split <;> simp only [List.length_cons] at * <;> omega
    have hm3 : m ≤ (hd :: tl).length := by
      rw [hmdef]; split <;> simp only [List.length_cons] at * <;> omega
    refine ⟨(hd :: tl).take m :: fs, ?_, ?_, ?_, ?_, ?_⟩
    · rw [h1]; simp
    · simp only [List.flatten_cons, h2, List.take_append_drop]
    · intro f hf
      simp only [List.mem_cons] at hf
      rcases hf with hf | hf
      · subst hf; simp only [List.length_take]; omega
      · exact h3 f hf
    · rw [h4]; simp only [List.length_drop]; omega
    · rw [h5]; simp; omega
  | case4 c rand n acc facc hd tl maxPayload pkts hmp hm vers m hdr henc =>
    intro w h; simp only [] at h; simp only [hdr, m, vers, dite_eq_ite] at henc; rw [henc] at h; simp at h
  | case5 c rand n acc facc hd tl maxPayload pkts hmp hm vers m hdr henc =>
    intro w h; simp only [] at h; simp only [hdr, m, vers, dite_eq_ite] at henc; rw [henc] at h; simp at h

/-- **fragment_concat / fragment_le**: whatever `Write` hands to `writeRecordLocked`, the plaintext
    fragments the loop encrypts concatenate to exactly the input, each is non-empty and at most 2^14
    bytes, one record is produced per fragment, and the returned count is the input length. -/
theorem fragment_concat_le {σ} (c : Conn σ) (typ : UInt8) (data rand : Bytes) (w : WriteOut σ)
    (h : writeRecordLocked c typ data rand = .ok w) :
    w.frags.flatten = data ∧ (∀ f ∈ w.frags, 1 ≤ f.length ∧ f.length ≤ 2 ^ 14) ∧
      w.n = data.length ∧ w.records.length = w.frags.length := by
  unfold writeRecordLocked at h
  cases hw : writeLoop c typ data rand 0 [] [] with
  | ok w' =>
    rw [hw] at h
    simp only at h
    split at h
    · simp at h
    · simp only [Res.ok.injEq] at h; subst h
      obtain ⟨fs, h1, h2, h3, h4, h5⟩ := writeLoop_spec c typ data rand 0 [] [] w' hw
      simp only [List.reverse_nil, List.nil_append] at h1
      rw [h1]
      exact ⟨h2, h3, by omega, by simpa using h5⟩
  | err => rw [hw] at h; simp at h
  | panic => rw [hw] at h; simp at h

/-! ### an accepted record that is not the honest one is a MAC / AEAD forgery -/

/-- the MAC input `seq ‖ type ‖ version ‖ length ‖ payload` determines every field -/
theorem mac_input_injective (s s2 : Bytes) (hs : s.length = 8) (hs2 : s2.length = 8)
    (t v1 v2 t2 w1 w2 : UInt8) (p p2 : Bytes)
    (e : s ++ ([t, v1, v2] ++ be16 p.length) ++ p = s2 ++ ([t2, w1, w2] ++ be16 p2.length) ++ p2) :
    s = s2 ∧ t = t2 ∧ v1 = w1 ∧ v2 = w2 ∧ p = p2 := by
  simp only [List.append_assoc] at e
  obtain ⟨h1, h2⟩ := List.append_inj e (by rw [hs, hs2])
  simp only [be16, List.cons_append, List.nil_append, List.cons.injEq] at h2
  exact ⟨h1, h2.1, h2.2.1, h2.2.2.1, h2.2.2.2.2.2⟩

/-- **tamper_needs_forgery, stream cipher + MAC.** If `decrypt` at sequence number `seq` accepts a
    record — any record: modified, replayed, reordered, injected — then (a) the content type is the
    header's, (b) the decrypted payload is `p' ‖ tag ‖ …` where `p'` is exactly what is delivered and
    `tag` is the MAC over `seq ‖ type ‖ version ‖ len(p') ‖ p'`; and (c) that MAC input coincides with
    the MAC input of an honest `encrypt` call (sequence number `s2`, type `t2`, payload `p2`) only if
    `s2 = seq`, `t2 = typ` and `p2 = p'`. So delivering anything else than the record written at this
    very sequence number needs a valid tag on an input the writer never authenticated. -/
theorem tamper_needs_forgery_stream {σ} (xor : σ → Bytes → Bytes × σ) (mac : Mac)
    (v : Nat) (hv : v ≠ VersionTLS13) (st : σ) (seq : Bytes) (hsq : seq.length = 8)
    (typ v1 v2 l1 l2 : UInt8) (payload p' : Bytes) (t' : UInt8) (hc' : HalfConn σ)
    (h : decrypt ⟨v, .stream xor mac, st, seq⟩ (typ :: v1 :: v2 :: l1 :: l2 :: payload) = .ok (p', t', hc')) :
    t' = typ ∧
    (xor st payload).1.take p'.length = p' ∧
    ((xor st payload).1.drop p'.length).take mac.size
      = mac.sum (seq ++ ([typ, v1, v2] ++ be16 p'.length) ++ p') ∧
    ∀ (s2 : Bytes) (t2 w1 w2 : UInt8) (p2 : Bytes), s2.length = 8 →
      s2 ++ ([t2, w1, w2] ++ be16 p2.length) ++ p2 = seq ++ ([typ, v1, v2] ++ be16 p'.length) ++ p' →
      s2 = seq ∧ t2 = typ ∧ w1 = v1 ∧ w2 = v2 ∧ p2 = p' := by
  have hv' : (v == VersionTLS13) = false := by simpa using hv
  simp only [decrypt, hv', Bool.false_and, Bool.false_eq_true, if_false, decrypt13_other v hv] at h
  cases hm : decryptMac mac seq [typ, v1, v2] (xor st payload).1 0 255 with
  | ok pt =>
    rw [hm] at h
    simp only at h
    cases hi : incSeq seq with
    | ok s' =>
      rw [hi] at h
      simp only [Res.ok.injEq, Prod.mk.injEq] at h
      obtain ⟨h1, h2, _⟩ := h
      subst h1; subst h2
      obtain ⟨a1, _, a3, _⟩ := decryptMac_accept mac seq [typ, v1, v2] _ 0 255 pt hm
      exact ⟨rfl, a1.symm, a3, fun s2 t2 w1 w2 p2 hs2 e =>
        mac_input_injective s2 seq hs2 hsq t2 w1 w2 typ v1 v2 p2 pt e⟩
    | err => rw [hi] at h; simp at h
    | panic => rw [hi] at h; simp at h
  | err => rw [hm] at h; simp at h
  | panic => rw [hm] at h; simp at h

/-- **tamper_needs_forgery, CBC + MAC** (implicit or explicit IV): an accepted record decrypts to
    `p' ‖ tag ‖ padding` with `tag = MAC(seq ‖ type ‖ version ‖ len(p') ‖ p')` for exactly the delivered
    `p'` and with `extractPadding` reporting good padding; the MAC input equals an honest one only for
    the same sequence number, type and payload. -/
theorem tamper_needs_forgery_cbc {σ} (c : Cbc σ) (mac : Mac)
    (v : Nat) (hv : v ≠ VersionTLS13) (st : σ) (seq : Bytes) (hsq : seq.length = 8)
    (typ v1 v2 l1 l2 : UInt8) (payload p' : Bytes) (t' : UInt8) (hc' : HalfConn σ)
    (h : decrypt ⟨v, .cbc c mac, st, seq⟩ (typ :: v1 :: v2 :: l1 :: l2 :: payload) = .ok (p', t', hc')) :
    t' = typ ∧
    (cbcDecrypted c v st payload).take p'.length = p' ∧
    ((cbcDecrypted c v st payload).drop p'.length).take mac.size
      = mac.sum (seq ++ ([typ, v1, v2] ++ be16 p'.length) ++ p') ∧
    (extractPadding (cbcDecrypted c v st payload)).2.toNat % 2 = 1 ∧
    ∀ (s2 : Bytes) (t2 w1 w2 : UInt8) (p2 : Bytes), s2.length = 8 →
      s2 ++ ([t2, w1, w2] ++ be16 p2.length) ++ p2 = seq ++ ([typ, v1, v2] ++ be16 p'.length) ++ p' →
      s2 = seq ∧ t2 = typ ∧ w1 = v1 ∧ w2 = v2 ∧ p2 = p' := by
  have hv' : (v == VersionTLS13) = false := by simpa using hv
  have fin : ∀ (pl : Bytes) (pt : Bytes),
      decryptMac mac seq [typ, v1, v2] pl (extractPadding pl).1 (extractPadding pl).2 = .ok pt →
      pl.take pt.length = pt ∧
      (pl.drop pt.length).take mac.size = mac.sum (seq ++ ([typ, v1, v2] ++ be16 pt.length) ++ pt) ∧
      (extractPadding pl).2.toNat % 2 = 1 ∧
      ∀ (s2 : Bytes) (t2 w1 w2 : UInt8) (p2 : Bytes), s2.length = 8 →
        s2 ++ ([t2, w1, w2] ++ be16 p2.length) ++ p2 = seq ++ ([typ, v1, v2] ++ be16 pt.length) ++ pt →
        s2 = seq ∧ t2 = typ ∧ w1 = v1 ∧ w2 = v2 ∧ p2 = pt := by
    intro pl pt hm
    obtain ⟨a1, _, a3, a4⟩ := decryptMac_accept mac seq [typ, v1, v2] _ _ _ pt hm
    exact ⟨a1.symm, a3, a4, fun s2 t2 w1 w2 p2 hs2 e =>
      mac_input_injective s2 seq hs2 hsq t2 w1 w2 typ v1 v2 p2 pt e⟩
  unfold cbcDecrypted
  by_cases h11 : v ≥ VersionTLS11
  · simp only [decrypt, hv', Bool.false_and, Bool.false_eq_true, if_false, explicitNonceLen, h11, if_true,
      decrypt13_other v hv] at h
    simp only [h11, if_true]
    split at h
    · simp at h
    · split at h
      · rename_i pt hm
        split at h
        · simp only [Res.ok.injEq, Prod.mk.injEq] at h
          obtain ⟨h1, h2, _⟩ := h
          subst h1; subst h2
          exact ⟨rfl, fin _ _ hm⟩
        · simp at h
      · simp at h
      · simp at h
  · simp only [decrypt, hv', Bool.false_and, Bool.false_eq_true, if_false, explicitNonceLen, h11,
      decrypt13_other v hv] at h
    simp only [h11, if_false]
    split at h
    · simp at h
    · split at h
      · rename_i pt hm
        split at h
        · simp only [Res.ok.injEq, Prod.mk.injEq] at h
          obtain ⟨h1, h2, _⟩ := h
          subst h1; subst h2
          exact ⟨rfl, fin _ _ hm⟩
        · simp at h
      · simp at h
      · simp at h

/-- **tamper_needs_forgery, AEAD in TLS ≤ 1.2.** If `decrypt` at sequence number `seq` accepts a
    record whose header length field matches its payload (as `readRecordOrCCS` guarantees), then `Open`
    succeeded on the triple (nonce, ciphertext, additional data) determined by `seq` and the record; and
    that triple coincides with the triple sealed by ANY honest `encrypt` call — any sequence number `s2`,
    type, version bytes, payload, randomness — only if `s2 = seq` and the honest record is bit for bit
    the accepted one. Hence a modified, dropped, duplicated or reordered record that is accepted is a
    ciphertext forgery against the AEAD: a valid (nonce, ciphertext, AD) never produced by `Seal`. -/
theorem tamper_needs_forgery_aead12 {σ} (a : Aead) (v : Nat) (hv : v ≠ VersionTLS13) (st : σ) (seq : Bytes)
    (hsq : seq.length = 8) (typ v1 v2 l1 l2 : UInt8) (payload p' : Bytes) (t' : UInt8) (hc' : HalfConn σ)
    (hl : [l1, l2] = be16 payload.length)
    (h : decrypt ⟨v, .aead a, st, seq⟩ (typ :: v1 :: v2 :: l1 :: l2 :: payload) = .ok (p', t', hc')) :
    t' = typ ∧
    a.openFn (readerNonce a seq payload) (payload.drop a.explicitNonceLen) (readerAD12 a seq typ v1 v2 payload)
      = some p' ∧
    ∀ (st2 : σ) (s2 s2' : Bytes) (t2 w1 w2 : UInt8) (p2 rand2 : Bytes), s2.length = 8 →
      incSeq s2 = .ok s2' → (a.explicitNonceLen < 16 ∨ a.explicitNonceLen ≤ rand2.length) →
      ∀ rec2 hc2 rand2',
      encrypt ⟨v, .aead a, st2, s2⟩ ([t2, w1, w2] ++ be16 p2.length) p2 rand2 = .ok (rec2, hc2, rand2') →
      (readerNonce a seq payload, payload.drop a.explicitNonceLen, readerAD12 a seq typ v1 v2 payload) =
        ((if (aeadExplicitNonce a s2 rand2).length == 0 then s2 else aeadExplicitNonce a s2 rand2),
         a.sealFn (if (aeadExplicitNonce a s2 rand2).length == 0 then s2 else aeadExplicitNonce a s2 rand2) p2
           (s2 ++ [t2, w1, w2, UInt8.ofNat (p2.length / 256), UInt8.ofNat p2.length]),
         s2 ++ [t2, w1, w2, UInt8.ofNat (p2.length / 256), UInt8.ofNat p2.length]) →
      s2 = seq ∧ rec2 = typ :: v1 :: v2 :: l1 :: l2 :: payload := by
  obtain ⟨a1, a2, a3⟩ := accept_implies_open12 a v hv st seq typ v1 v2 l1 l2 payload p' t' hc' h
  refine ⟨a1, a3, ?_⟩
  intro st2 s2 s2' t2 w1 w2 p2 rand2 hs2 hinc hr rec2 hc2 rand2' henc htriple
  obtain ⟨rand3, heq⟩ := encrypt_aead12_eq a v hv st2 s2 s2' hinc t2 w1 w2
    (UInt8.ofNat (p2.length / 256)) (UInt8.ofNat p2.length) p2 rand2 hr
  rw [be16_nat] at henc
  simp only [List.cons_append, List.nil_append] at henc heq
  rw [heq] at henc
  simp only [Res.ok.injEq, Prod.mk.injEq] at henc
  obtain ⟨hrec, _, _⟩ := henc
  simp only [Prod.mk.injEq] at htriple
  obtain ⟨hn, hct, had⟩ := htriple
  have hen2 := aeadExplicitNonce_length a s2 rand2 hr
  generalize aeadExplicitNonce a s2 rand2 = en2 at *
  -- additional data: sequence number, type, version
  unfold readerAD12 at had
  have had' : seq ++ ([typ, v1, v2] ++ be16 (((payload.drop a.explicitNonceLen).length : Int) - a.overhead))
      = s2 ++ [t2, w1, w2, UInt8.ofNat (p2.length / 256), UInt8.ofNat p2.length] := by
    rw [← had]; simp
  obtain ⟨hs, hrest⟩ := List.append_inj had' (by rw [hsq, hs2])
  simp only [be16, List.cons_append, List.nil_append, List.cons.injEq] at hrest
  obtain ⟨ht, hw1, hw2, _⟩ := hrest
  -- explicit nonce
  have hen : payload.take a.explicitNonceLen = en2 := by
    unfold readerNonce at hn
    by_cases h0 : a.explicitNonceLen = 0
    · rw [h0]; rw [h0] at hen2
      simp [List.eq_nil_of_length_eq_zero hen2]
    · have l1' : (payload.take a.explicitNonceLen).length = a.explicitNonceLen := by
        rw [List.length_take]; omega
      have b1 : ((payload.take a.explicitNonceLen).length == 0) = false := by
        rw [l1']; exact beq_false_of_ne h0
      have b2 : (en2.length == 0) = false := by rw [hen2]; exact beq_false_of_ne h0
      rw [b1, b2] at hn
      simpa using hn
  refine ⟨hs.symm, ?_⟩
  rw [← hrec, ← hct, ← hen, List.take_append_drop, ← ht, ← hw1, ← hw2]
  have : be16 (payload.length : Nat) = [l1, l2] := hl.symm
  simp only [this, List.cons_append, List.nil_append]

/-- what the TLS 1.3 inner-plaintext scan returns: the inner plaintext is `p' ‖ t' ‖ 0…0` with
    `t' ≠ 0`, or it is empty (then the outer type and no data are returned). -/
theorem decrypt13_spec (typ : UInt8) (inner p' : Bytes) (t' : UInt8)
    (h : decrypt13 VersionTLS13 typ inner = .ok (t', p')) :
    typ = recordTypeApplicationData ∧ inner.length ≤ maxPlaintext + 1 ∧
    ((inner = [] ∧ p' = [] ∧ t' = typ) ∨ (t' ≠ 0 ∧ ∃ k, inner = p' ++ [t'] ++ List.replicate k 0)) := by
  unfold decrypt13 at h
  simp only [beq_self_eq_true, if_true] at h
  split at h
  · simp at h
  · rename_i htyp
    split at h
    · simp at h
    · rename_i hlen
      have htyp' : typ = recordTypeApplicationData := by simpa using htyp
      refine ⟨htyp', by omega, ?_⟩
      split at h
      · simp only [Res.ok.injEq, Prod.mk.injEq] at h
        left; exact ⟨rfl, h.2.symm, h.1.symm⟩
      · rename_i x xs
        split at h
        · simp at h
        · rename_i t rest hs
          simp only [Res.ok.injEq, Prod.mk.injEq] at h
          obtain ⟨h1, h2⟩ := h
          subst h1; subst h2
          obtain ⟨hne, k, hk⟩ := strip13Rev_spec _ _ _ hs
          right
          refine ⟨hne, k, ?_⟩
          have := congrArg List.reverse hk
          simpa using this

/-- **tamper_needs_forgery, TLS 1.3.** An accepted protected record (outer type ≠ change_cipher_spec,
    which TLS 1.3 passes through unauthenticated for middlebox compatibility and `readRecordOrCCS`
    then drops) has outer type application_data, `Open` succeeded under nonce = sequence number and
    additional data = the record header, and the inner plaintext is `p' ‖ t' ‖ 0…0`. The (nonce,
    ciphertext, AD) triple equals the one sealed by an honest `encrypt` at sequence number `s2` only if
    `s2 = seq` and the honest record is bit for bit the accepted one. -/
theorem tamper_needs_forgery_tls13 {σ} (a : Aead) (he : a.explicitNonceLen = 0) (st : σ) (seq : Bytes)
    (typ v1 v2 l1 l2 : UInt8) (hccs : typ ≠ recordTypeChangeCipherSpec)
    (payload p' : Bytes) (t' : UInt8) (hc' : HalfConn σ) (hl : [l1, l2] = be16 payload.length)
    (h : decrypt ⟨VersionTLS13, .aead a, st, seq⟩ (typ :: v1 :: v2 :: l1 :: l2 :: payload) = .ok (p', t', hc')) :
    typ = recordTypeApplicationData ∧
    (∃ inner, a.openFn seq payload [typ, v1, v2, l1, l2] = some inner ∧
      ((inner = [] ∧ p' = [] ∧ t' = typ) ∨ (t' ≠ 0 ∧ ∃ k, inner = p' ++ [t'] ++ List.replicate k 0))) ∧
    ∀ (st2 : σ) (s2 s2' : Bytes) (t2 w1 w2 : UInt8) (p2 rand2 : Bytes), incSeq s2 = .ok s2' →
      ∀ rec2 hc2 rand2',
      encrypt ⟨VersionTLS13, .aead a, st2, s2⟩ ([t2, w1, w2] ++ be16 p2.length) p2 rand2 = .ok (rec2, hc2, rand2') →
      (seq, payload, [typ, v1, v2, l1, l2]) =
        (s2, a.sealFn s2 (p2 ++ [t2])
              ([recordTypeApplicationData, w1, w2] ++ be16 ((p2.length : Int) + 1 + a.overhead)),
         [recordTypeApplicationData, w1, w2] ++ be16 ((p2.length : Int) + 1 + a.overhead)) →
      s2 = seq ∧ rec2 = typ :: v1 :: v2 :: l1 :: l2 :: payload := by
  have hccs' : (typ == recordTypeChangeCipherSpec) = false := by simpa using hccs
  simp only [decrypt, beq_self_eq_true, Bool.true_and, hccs', Bool.false_eq_true, if_false,
    explicitNonceLen, he, List.take_zero, List.length_nil, if_true, List.drop_zero,
    Nat.not_lt_zero, recordHeaderLen, List.take_succ_cons, List.take_nil] at h
  split at h
  · simp at h
  · rename_i inner hopen
    split at h
    · rename_i t'' p'' hd13
      split at h
      · simp only [Res.ok.injEq, Prod.mk.injEq] at h
        obtain ⟨h1, h2, _⟩ := h
        subst h1; subst h2
        obtain ⟨b1, _, b3⟩ := decrypt13_spec typ inner _ _ hd13
        refine ⟨b1, ⟨inner, hopen, b3⟩, ?_⟩
        intro st2 s2 s2' t2 w1 w2 p2 rand2 hinc rec2 hc2 rand2' henc htriple
        simp only [be16_nat, encrypt, List.cons_append, List.nil_append, he, Nat.lt_irrefl, gt_iff_lt,
          decide_false, Bool.false_and, Bool.false_eq_true, if_false, List.length_nil, beq_self_eq_true,
          if_true, finishEncrypt, hinc, Res.ok.injEq, Prod.mk.injEq] at henc
        obtain ⟨hrec, _, _⟩ := henc
        simp only [Prod.mk.injEq, List.cons_append, List.nil_append] at htriple
        obtain ⟨hs, hct, hhdr⟩ := htriple
        refine ⟨hs.symm, ?_⟩
        rw [← hrec, ← hct]
        simp only [List.cons.injEq] at hhdr
        obtain ⟨e1, e2, e3, _⟩ := hhdr
        rw [be16_nat] at hl
        simp only [List.cons.injEq, and_true] at hl
        rw [← b1, ← e2, ← e3, ← hl.1, ← hl.2]
      · simp at h
    · simp at h
    · simp at h

theorem fragment_concat {σ} (c : Conn σ) (typ : UInt8) (data rand : Bytes) (w : WriteOut σ)
    (h : writeRecordLocked c typ data rand = .ok w) : w.frags.flatten = data :=
  (fragment_concat_le c typ data rand w h).1

theorem fragment_le {σ} (c : Conn σ) (typ : UInt8) (data rand : Bytes) (w : WriteOut σ)
    (h : writeRecordLocked c typ data rand = .ok w) : ∀ f ∈ w.frags, 1 ≤ f.length ∧ f.length ≤ 2 ^ 14 :=
  (fragment_concat_le c typ data rand w h).2.1

/-- **record-length check on the read path**: whatever bytes arrive, application data handed to the
    caller by one `readRecordOrCCS` call is non-empty and at most 2^14 bytes. -/
theorem read_le_2_14 {σ} (c : Conn σ) (raw : Bytes) (input : Bytes) (c' : Conn σ) (rest : Bytes) :
    readRecord c raw = .data input c' rest → 1 ≤ input.length ∧ input.length ≤ 2 ^ 14 := by
  fun_induction readRecord c raw <;> intro h <;> simp_all +zetaDelta [maxPlaintext]
  all_goals first
    | omega
    | (rename_i ih; split at h <;> first
        | (exact ih h)
        | (simp at h)
        | (cases input <;> simp_all))
    | (cases input <;> simp_all)

/-! ### transport segmentation (readFromUntil / atLeastReader), for ALL segmentations -/

/-- **no byte lost, duplicated or reordered by readFromUntil**, whatever chunks the transport's `Read`
    returns (any sizes, empty reads included): it either returns with at least `n` bytes buffered and
    `rawInput ++ (transport still to come)` unchanged, or it has moved the whole transport into
    `rawInput` and reports io.ErrUnexpectedEOF — exactly when fewer than `n` bytes exist in total. -/
theorem transport_no_loss (raw : Bytes) (n : Nat) (chunks : List Bytes) :
    (∃ raw' cs', readFromUntil raw n chunks = (raw', cs', none) ∧
        raw' ++ cs'.flatten = raw ++ chunks.flatten ∧ n ≤ raw'.length) ∨
    (readFromUntil raw n chunks = (raw ++ chunks.flatten, [], some .unexpectedEOF) ∧
        (raw ++ chunks.flatten).length < n) :=
  readFromUntil_cases raw n chunks

/-- **record framing is a function of the byte stream alone**: the record `fetch` cuts off (or the
    error it reports) is the one `fetchS` computes from `rawInput ++ transport` without any transport. -/
theorem fetch_chunking_independent {σ} (c : Conn σ) (raw : Bytes) (chunks : List Bytes) :
    absF (fetch c raw chunks) = fetchS c (raw ++ chunks.flatten) :=
  fetch_eq_fetchS c raw chunks

/-- **one readRecordOrCCS call, any two segmentations of the same bytes** (same connection state, same
    `rawInput ++ transport`): same result — delivered data / handshake / cipher change / error class —
    and again the same connection state and the same bytes to come. -/
theorem readRecordOrCCS_chunking_independent {σ} (a b : RState σ) (e : Bool) (hc : a.core = b.core)
    (ht : a.raw ++ a.chunks.flatten = b.raw ++ b.chunks.flatten) :
    (readRecordOrCCS a e = none ∧ readRecordOrCCS b e = none) ∨
    (∃ a' b' o, readRecordOrCCS a e = some (a', o) ∧ readRecordOrCCS b e = some (b', o) ∧ a'.core = b'.core ∧
      (a'.core.inErr = none → a'.raw ++ a'.chunks.flatten = b'.raw ++ b'.chunks.flatten)) := by
  rcases readLoop_sim e (maxUselessRecords + 1) a b ⟨hc, fun _ => ht⟩ with h | ⟨a', b', o, h1, h2, h3⟩
  · left; exact h
  · right; exact ⟨a', b', o, h1, h2, h3.1, h3.2⟩

/-- **the central statement, read side: for ANY split of the byte stream into transport reads** the
    application data delivered by any number `n` of `readRecord` calls (the loop of `Conn.Read`) and the
    error that ends it are those obtained with all bytes in memory. -/
theorem read_chunking_independent {σ} (n : Nat) (k : RCore σ) (raw : Bytes) (chunks : List Bytes) :
    readAll n ⟨k, raw, chunks⟩ = readAll n ⟨k, raw ++ chunks.flatten, []⟩ :=
  readAll_sim n _ _ ⟨rfl, fun _ => by simp⟩

/-- … in particular any two segmentations of the same stream deliver the same. -/
theorem read_any_two_chunkings {σ} (n : Nat) (k : RCore σ) (cs cs' : List Bytes) (h : cs.flatten = cs'.flatten) :
    readAll n ⟨k, [], cs⟩ = readAll n ⟨k, [], cs'⟩ := by
  rw [read_chunking_independent, read_chunking_independent n k [] cs', h]

/-! ### what is delivered, and what an authentication failure does -/

/-- **nothing is delivered from a record that fails authentication**: if `decrypt` rejects the record
    (MAC, padding, AEAD tag, length, TLS 1.3 inner plaintext), readRecordOrCCS delivers nothing, sends the
    alert `decryptAlert` names and stores the error. -/
theorem reject_delivers_nothing {σ} (k : RCore σ) (e : Bool) (r : Bytes) (h : decrypt k.c.hc r = .err) :
    process k e r = .done { k with inErr := some (.localAlert (decryptAlert k.c.hc r)) }
      (.err (.localAlert (decryptAlert k.c.hc r))) :=
  process_decrypt_err k e r h

/-- **delivered data is exactly the plaintext of a record `decrypt` accepted** at the current read
    state, of inner type application_data, after the handshake, 1 to 2^14 bytes long — so by the
    `tamper_needs_forgery_*` theorems it is the data of the honest record at this sequence number, or a
    MAC/AEAD forgery. -/
theorem delivered_is_authenticated {σ} (k k' : RCore σ) (e : Bool) (r d : Bytes)
    (h : process k e r = .done k' (.data d)) :
    e = false ∧ k.c.handshakeComplete = true ∧
    (∃ hc', decrypt k.c.hc r = .ok (d, recordTypeApplicationData, hc') ∧ k'.c.hc = hc') ∧
    1 ≤ d.length ∧ d.length ≤ 2 ^ 14 ∧ k'.input = d := by
  obtain ⟨h1, h2, h3, h4, h5, h6, _⟩ := process_data k k' e r d h
  exact ⟨h1, h2, h3, h4, by simpa [maxPlaintext] using h5, h6⟩

/-- **errors are sticky**: every error readRecordOrCCS reports is stored in `c.in.err` … -/
theorem error_is_stored {σ} (k k' : RCore σ) (e : Bool) (r : Bytes) (er : ErrK)
    (h : process k e r = .done k' (.err er)) : k'.inErr = some er :=
  process_err k k' e r er h

/-- … and with a stored error every later call returns it without touching the transport or the state. -/
theorem stored_error_returned {σ} (s : RState σ) (e : Bool) (er : ErrK) (h : s.core.inErr = some er) :
    readRecordOrCCS s e = some (s, .err er) := by
  simp [readRecordOrCCS, readLoop, readStep, h]

/-- a call with undelivered application data is refused -/
theorem pending_input_refused {σ} (s : RState σ) (e : Bool) (h : s.core.inErr = none) (hi : s.core.input ≠ []) :
    ∃ s', readRecordOrCCS s e = some (s', .err .pendingInput) := by
  have : (s.core.input.length != 0) = true := by
    cases hl : s.core.input with
    | nil => exact absurd hl hi
    | cons _ _ => simp
  simp [readRecordOrCCS, readLoop, readStep, h, this]

/-! ### which alert for which failure -/

/-- below TLS 1.3 every failure of `decrypt` is reported as bad_record_mac: a short record, bad CBC
    padding and a bad MAC are indistinguishable by the alert. -/
theorem decryptAlert_le12 {σ} (hc : HalfConn σ) (r : Bytes) (hv : hc.version ≠ VersionTLS13) :
    decryptAlert hc r = alertBadRecordMAC := by
  unfold decryptAlert
  split
  · split
    · rfl
    · rw [decrypt13_other _ hv]
    · simp only []
      split
      · rfl
      · split
        · rfl
        · rw [decrypt13_other _ hv]
    · simp only []
      split
      · rfl
      · rw [decrypt13_other _ hv]
  · rfl

/-- in every version the alert of a failing decrypt is one of bad_record_mac, unexpected_message,
    record_overflow -/
theorem decryptAlert_mem {σ} (hc : HalfConn σ) (r : Bytes) :
    decryptAlert hc r = alertBadRecordMAC ∨ decryptAlert hc r = alertUnexpectedMessage ∨
      decryptAlert hc r = alertRecordOverflow := by
  have h13 : ∀ t p, decrypt13Alert t p = alertUnexpectedMessage ∨ decrypt13Alert t p = alertRecordOverflow := by
    intro t p; unfold decrypt13Alert; split
    · left; rfl
    · split
      · right; rfl
      · left; rfl
  unfold decryptAlert
  split
  · split
    · left; rfl
    · split
      · left; rfl
      · right; exact h13 _ _
    · simp only []
      split
      · left; rfl
      · split
        · left; rfl
        · split
          · left; rfl
          · right; exact h13 _ _
    · simp only []
      split
      · left; rfl
      · split
        · left; rfl
        · right; exact h13 _ _
  · left; rfl

/-- T1: the model's constants are the ones in the tree (tls/common.go, tls/conn.go, tls/alert.go),
    re-extracted on every run -/
theorem constants_match_tree :
    maxPlaintext = Gen.maxPlaintext ∧ maxCiphertext = Gen.maxCiphertext ∧
    maxCiphertextTLS13 = Gen.maxCiphertextTLS13 ∧ recordHeaderLen = Gen.recordHeaderLen ∧
    maxUselessRecords = Gen.maxUselessRecords ∧ tcpMSSEstimate = Gen.tcpMSSEstimate ∧
    recordSizeBoostThreshold = Gen.recordSizeBoostThreshold ∧
    recordTypeChangeCipherSpec.toNat = Gen.recordTypeChangeCipherSpec ∧ recordTypeAlert.toNat = Gen.recordTypeAlert ∧
    recordTypeHandshake.toNat = Gen.recordTypeHandshake ∧ recordTypeApplicationData.toNat = Gen.recordTypeApplicationData ∧
    VersionTLS10 = Gen.versionTLS10 ∧ VersionTLS11 = Gen.versionTLS11 ∧ VersionTLS12 = Gen.versionTLS12 ∧
    VersionTLS13 = Gen.versionTLS13 := by decide

/-- T1: the alert numbers the model uses are the values of the named constants of tls/alert.go -/
theorem alerts_match_tree :
    Gen.alertValue "AlertCloseNotify" = some alertCloseNotify ∧
    Gen.alertValue "AlertUnexpectedMessage" = some alertUnexpectedMessage ∧
    Gen.alertValue "AlertBadRecordMAC" = some alertBadRecordMAC ∧
    Gen.alertValue "AlertRecordOverflow" = some alertRecordOverflow ∧
    Gen.alertValue "AlertDecodeError" = some alertDecodeError ∧
    Gen.alertValue "AlertProtocolVersion" = some alertProtocolVersion ∧
    Gen.alertValue "AlertInternalError" = some alertInternalError ∧
    Gen.alertLevelWarning = alertLevelWarning.toNat ∧ Gen.alertLevelError = alertLevelError.toNat := by decide

/-- T1 (go/ast): the alerts named at the `sendAlert` / `return …, Alert…` sites of readRecordOrCCS,
    retryReadRecord, decrypt and changeCipherSpec in the tree are, site by site in source order, the ones
    the model sends there. -/
theorem alert_sites_match_tree :
    Gen.alertSites "readRecordOrCCS" =
      ["AlertProtocolVersion", "AlertProtocolVersion", "AlertRecordOverflow", "err", "AlertRecordOverflow",
       "AlertUnexpectedMessage", "AlertUnexpectedMessage", "AlertUnexpectedMessage", "AlertUnexpectedMessage",
       "AlertUnexpectedMessage", "AlertDecodeError", "AlertUnexpectedMessage", "AlertUnexpectedMessage", "err",
       "AlertUnexpectedMessage", "AlertUnexpectedMessage"] ∧
    Gen.alertSites "retryReadRecord" = ["AlertUnexpectedMessage"] ∧
    Gen.alertSites "decrypt" =
      ["AlertBadRecordMAC", "AlertBadRecordMAC", "AlertBadRecordMAC", "AlertUnexpectedMessage", "AlertRecordOverflow",
       "AlertUnexpectedMessage", "AlertBadRecordMAC", "AlertBadRecordMAC"] ∧
    Gen.alertSites "changeCipherSpec" = ["AlertInternalError"] := by decide

/-! ### the cipher change (read side and write side) and the retry bound -/

/-- `halfConn.changeCipherSpec`: only below TLS 1.3 and with a pending cipher; the sequence number
    restarts at zero (same length), the pending cipher and its state are installed. -/
theorem changeCipherSpec_resets_seq {σ} (hc hc2 : HalfConn σ) (next : Option (Cipher σ × σ))
    (h : changeCipherSpec hc next = some hc2) :
    (∀ b ∈ hc2.seq, b = 0) ∧ hc2.seq.length = hc.seq.length ∧ hc.version ≠ VersionTLS13 ∧
    hc2.version = hc.version ∧ ∃ st, next = some (hc2.cipher, st) ∧ hc2.st = st :=
  changeCipherSpec_spec hc hc2 next h

/-- **read side**: a cipher change happens only when it is expected, below TLS 1.3, on an accepted
    record of type change_cipher_spec with body `[1]`; afterwards the pending cipher is consumed and the
    read sequence number is zero. -/
theorem read_cipher_change {σ} (k k' : RCore σ) (e : Bool) (r : Bytes) (h : process k e r = .done k' .ccs) :
    e = true ∧ k.c.vers ≠ VersionTLS13 ∧ k'.next = none ∧ (∀ b ∈ k'.c.hc.seq, b = 0) ∧
    ∃ d hc', decrypt k.c.hc r = .ok (d, recordTypeChangeCipherSpec, hc') ∧ d = [1] ∧
      changeCipherSpec hc' k.next = some k'.c.hc :=
  process_ccs k k' e r h

/-- **limit on consecutive non-advancing records**: every dropped record (warning alert, empty
    application data, TLS 1.3 change_cipher_spec) increments `retryCount`, and the count never exceeds
    `maxUselessRecords` = 16 … -/
theorem ignored_record_counts {σ} (k k' : RCore σ) (e : Bool) (r : Bytes) (h : process k e r = .retry k') :
    k'.c.retryCount = k.c.retryCount + 1 ∧ k'.c.retryCount ≤ 16 :=
  process_retry k k' e r h

theorem readStep_retry_counts {σ} (s s' : RState σ) (e : Bool) (h : readStep s e = .retry s') :
    s'.core.c.retryCount = s.core.c.retryCount + 1 ∧ s'.core.c.retryCount ≤ 16 := by
  unfold readStep at h
  split at h
  · cases h
  · split at h
    · cases h
    · split at h
      · cases h
      · rename_i rec rest cs hf
        cases hp : process s.core e rec with
        | done k o => rw [hp] at h; cases h
        | retry k => rw [hp] at h; cases h; exact process_retry _ _ _ _ hp
        | panic => rw [hp] at h; cases h

/-- … hence the fuel of `readLoop` is never the reason for its result: any two amounts of fuel that
    cover the remaining `maxUselessRecords + 1 - retryCount` passes give the same result
    (`readRecordOrCCS` uses `maxUselessRecords + 1`). -/
theorem readLoop_fuel {σ} (e : Bool) (f1 : Nat) : ∀ (f2 : Nat) (s : RState σ), 1 ≤ f1 → 1 ≤ f2 →
    17 ≤ f1 + s.core.c.retryCount → 17 ≤ f2 + s.core.c.retryCount → readLoop e f1 s = readLoop e f2 s := by
  induction f1 with
  | zero => intro f2 s h; omega
  | succ n ih =>
    intro f2 s _ h2 h3 h4
    cases f2 with
    | zero => omega
    | succ m =>
      unfold readLoop
      cases hs : readStep s e with
      | done s' o => rfl
      | panic => rfl
      | retry s' =>
        simp only []
        obtain ⟨r1, r2⟩ := readStep_retry_counts s s' e hs
        exact ih m s' (by omega) (by omega) (by omega) (by omega)

/-- **write side** (`writeRecordLocked` with a pending cipher): the fragments still concatenate to the
    input; after a ChangeCipherSpec record below TLS 1.3 the pending cipher is installed with sequence
    number zero, and if none is pending an internal_error alert `[2, 80]` is what goes out. -/
theorem write_cipher_change {σ} (c : Conn σ) (next : Option (Cipher σ × σ)) (typ : UInt8) (data rand : Bytes)
    (we : WriteEnd σ) (h : writeRecordLockedN c next typ data rand = .ok we) :
    match we with
    | .plain w => writeLoop c typ data rand 0 [] [] = .ok w ∧
        ¬ (typ = recordTypeChangeCipherSpec ∧ c.vers ≠ VersionTLS13)
    | .switched w => typ = recordTypeChangeCipherSpec ∧ c.vers ≠ VersionTLS13 ∧ w.frags.flatten = data ∧
        (∀ b ∈ w.conn.hc.seq, b = 0) ∧ ∃ st, next = some (w.conn.hc.cipher, st) ∧ w.conn.hc.st = st
    | .ccsFailed w al => typ = recordTypeChangeCipherSpec ∧ c.vers ≠ VersionTLS13 ∧ w.frags.flatten = data ∧
        changeCipherSpec w.conn.hc next = none ∧
        al = writeLoop w.conn recordTypeAlert [2, 80] w.rand 0 [] [] := by
  unfold writeRecordLockedN at h
  cases hw : writeLoop c typ data rand 0 [] [] with
  | ok w =>
    rw [hw] at h
    simp only at h
    obtain ⟨fs, h1, h2, -⟩ := writeLoop_spec c typ data rand 0 [] [] w hw
    simp only [List.reverse_nil, List.nil_append] at h1
    split at h
    · rename_i hcond
      have hcond' : typ = recordTypeChangeCipherSpec ∧ c.vers ≠ VersionTLS13 := by simpa using hcond
      cases hcs : changeCipherSpec w.conn.hc next with
      | some hc2 =>
        rw [hcs] at h
        cases h
        obtain ⟨a1, _, _, _, st, a5, a6⟩ := changeCipherSpec_spec _ _ _ hcs
        exact ⟨hcond'.1, hcond'.2, by rw [h1]; exact h2, a1, st, a5, a6⟩
      | none =>
        rw [hcs] at h
        cases h
        exact ⟨hcond'.1, hcond'.2, by rw [h1]; exact h2, hcs, rfl⟩
    · rename_i hcond
      cases h
      exact ⟨rfl, by simpa using hcond⟩
  | err => rw [hw] at h; cases h
  | panic => rw [hw] at h; cases h

/-- **Conn.Write, including the TLS 1.0 1/n-1 split**: however `Write` cuts its argument into
    `writeRecordLocked` calls, the plaintext fragments concatenate to exactly the argument, each is 1 to
    2^14 bytes, the returned count is the argument's length; and when the split applies (TLS 1.0, block
    cipher, more than one byte, mitigation not disabled) the first record carries exactly one byte. -/
theorem connWrite_spec {σ} (c : Conn σ) (dis : Bool) (b rand : Bytes) (n : Nat) (w1 : Option (WriteOut σ))
    (w2 : WriteOut σ) (h : connWrite c dis b rand = .ok (n, w1, w2)) :
    n = b.length ∧
    ((match w1 with | some w => w.frags | none => []) ++ w2.frags).flatten = b ∧
    (∀ f ∈ (match w1 with | some w => w.frags | none => []) ++ w2.frags, 1 ≤ f.length ∧ f.length ≤ 2 ^ 14) ∧
    ((b.length > 1 ∧ c.vers = VersionTLS10 ∧ dis = false ∧ isCbc c.hc.cipher = true) →
      ∃ w, w1 = some w ∧ w.frags = [b.take 1]) := by
  unfold connWrite at h
  split at h
  · rename_i hcond
    cases h1 : writeRecordLocked c recordTypeApplicationData (b.take 1) rand with
    | ok x1 =>
      rw [h1] at h
      simp only at h
      cases h2 : writeRecordLocked x1.conn recordTypeApplicationData (b.drop 1) x1.rand with
      | ok x2 =>
        rw [h2] at h
        simp only [Res.ok.injEq, Prod.mk.injEq] at h
        obtain ⟨hn, hw1, hw2⟩ := h
        subst hn; subst hw1; subst hw2
        obtain ⟨a1, a2, a3, a4⟩ := fragment_concat_le _ _ _ _ _ h1
        obtain ⟨b1, b2, b3, b4⟩ := fragment_concat_le _ _ _ _ _ h2
        have hb : 1 < b.length := by simp at hcond; exact hcond.1.1.1
        refine ⟨by rw [b3]; simp; omega, ?_, ?_, ?_⟩
        · show (x1.frags ++ x2.frags).flatten = b
          rw [List.flatten_append, a1, b1, List.take_append_drop]
        · intro f hf
          simp only [List.mem_append] at hf
          rcases hf with hf | hf
          · exact a2 f hf
          · exact b2 f hf
        · intro _
          refine ⟨x1, rfl, ?_⟩
          -- one fragment: flatten = take 1 (length 1), every fragment non-empty
          have hl : (b.take 1).length = 1 := by simp; omega
          have hlen := congrArg List.length a1
          cases hfr : x1.frags with
          | nil => rw [hfr] at hlen; simp only [List.flatten_nil, List.length_nil] at hlen; omega
          | cons f tl =>
            cases tl with
            | nil => rw [hfr] at a1; simp only [List.flatten_cons, List.flatten_nil, List.append_nil] at a1; rw [a1]
            | cons g tl2 =>
              rw [hfr] at hlen a2
              simp only [List.flatten_cons, List.length_append] at hlen
              have hf := (a2 f (by simp)).1
              have hg := (a2 g (by simp)).1
              omega
      | err => rw [h2] at h; cases h
      | panic => rw [h2] at h; cases h
    | err => rw [h1] at h; cases h
    | panic => rw [h1] at h; cases h
  · rename_i hcond
    cases h1 : writeRecordLocked c recordTypeApplicationData b rand with
    | ok x =>
      rw [h1] at h
      simp only [Res.ok.injEq, Prod.mk.injEq] at h
      obtain ⟨hn, hw1, hw2⟩ := h
      subst hn; subst hw1; subst hw2
      obtain ⟨a1, a2, a3, a4⟩ := fragment_concat_le _ _ _ _ _ h1
      refine ⟨a3, by simpa using a1, by simpa using a2, ?_⟩
      intro ⟨c1, c2, c3, c4⟩
      exfalso; apply hcond
      simp [c1, c2, c3, c4]
    | err => rw [h1] at h; cases h
    | panic => rw [h1] at h; cases h


section examples
open Toy
/-! ### the hypotheses are satisfiable: instantiation with the toy primitives of the correspondence check -/

def seq0 : Bytes := [0, 0, 0, 0, 0, 0, 1, 255]
def seq1 : Bytes := [0, 0, 0, 0, 0, 0, 2, 0]
example : incSeq seq0 = .ok seq1 := by decide
example : incSeq [255, 255, 255, 255, 255, 255, 255, 255] = .panic := by decide
example : beNat seq0 = 511 ∧ beNat seq1 = 512 := by decide

example : extractPadding [7, 7, 2, 2, 2] = (3, 255) ∧ extractPadding [7, 7, 2, 1, 2] = (1, 0) ∧
    extractPadding [9] = (1, 0) ∧ extractPadding [0] = (1, 255) := by decide

/-- stream + MAC round trip, hypotheses instantiated: toy XOR stream, HMAC-SHA1 -/
example := decrypt_encrypt_stream (streamXor [1, 2, 3]) (hmacMac ZV.Hash.HashAlg.sha1 [9]) (toy_stream_laws _)
    (hmac_sha1_laws _) 0x0303 (by decide) ⟨5, []⟩ seq0 seq1 (by decide) 23 3 3 [10, 20, 30] []

/-- AEAD TLS 1.2 round trip: real prefix-nonce wrapper around the toy AEAD -/
example := decrypt_encrypt_aead12 (σ := St)
    (prefixNonceAEAD (toyAead [1, 2] 16) [1, 2, 3, 4, 0, 0, 0, 0, 0, 0, 0, 0]) (toy_prefix_laws _ _ _)
    0x0303 (by decide) ⟨0, []⟩ seq0 seq1 (by decide) 23 3 3 [10, 20] [] (Or.inl (by decide))

/-- TLS 1.3 round trip: real xor-nonce wrapper around the toy AEAD -/
example := decrypt_encrypt_tls13 (σ := St)
    (xorNonceAEAD (toyAead [1, 2] 16) [1, 2, 3, 4, 5, 6, 7, 8, 9, 10, 11, 12]) (toy_xor_laws _ _ _) rfl
    ⟨0, []⟩ seq0 seq1 (by decide) 23 3 3 (by decide) [10, 20] [] (by decide)

/-- CBC round trips with the toy block cipher in (model) CBC mode, HMAC-SHA1 -/
example := decrypt_encrypt_cbc10 (toyCbc [1, 2, 3, 4, 5, 6, 7, 8] false) (toyCbc [1, 2, 3, 4, 5, 6, 7, 8] true) _
    (toy_cbc_laws _ (by decide)) (hmacMac ZV.Hash.HashAlg.sha1 [9]) (hmac_sha1_laws _) (by decide) (by decide)
    0x0301 (by decide) ⟨0, [8, 7, 6, 5, 4, 3, 2, 1]⟩ (by decide) seq0 seq1 (by decide) 23 3 1 [10, 20] [] (by decide)

example := decrypt_encrypt_cbc11 (toyCbc [1, 2, 3, 4, 5, 6, 7, 8] false) (toyCbc [1, 2, 3, 4, 5, 6, 7, 8] true) _
    (toy_cbc_laws _ (by decide)) (hmacMac ZV.Hash.HashAlg.sha1 [9]) (hmac_sha1_laws _) (by decide) (by decide)
    0x0303 (by decide) (by decide) ⟨0, []⟩ seq0 seq1 (by decide) 23 3 3 [10, 20] (List.replicate 8 7)
    (by decide) (by decide)

/-- the acceptance hypothesis of the tamper theorems is satisfiable (identity stream, empty MAC) -/
example : decrypt (σ := Unit) ⟨0x0303, .stream (fun s b => (b, s)) ⟨0, fun _ => []⟩, (), seq0⟩ [23, 3, 3, 0, 1, 42]
    = .ok ([42], 23, ⟨0x0303, .stream (fun s b => (b, s)) ⟨0, fun _ => []⟩, (), seq1⟩) := by
  simp [decrypt, decrypt13, decryptMac, tls10MAC, incSeq, incSeqRev, seq0, seq1, VersionTLS13,
    recordTypeChangeCipherSpec]

/-- transport theorems instantiated: a 9-byte stream in three chunks (one empty), header then body -/
example : readFromUntil [] 5 [[23, 3], [], [3, 0, 1, 42], [9]] = ([23, 3, 3, 0, 1, 42], [[9]], none) := by decide
example : readFromUntil [23] 5 [[3, 3]] = ([23, 3, 3], [], some .unexpectedEOF) := by decide
def plainConn : Conn Unit :=
  { vers := 0x0303, haveVers := true, handshakeComplete := true, dynamicRecordSizingDisabled := false,
    buffering := false, bytesSent := 0, packetsSent := 0, retryCount := 0,
    hc := ⟨0x0303, .stream (fun s b => (b, s)) ⟨0, fun _ => []⟩, (), seq0⟩, hand := [] }
example : absF (fetch plainConn [] [[23, 3], [], [3, 0, 1, 42], [9]]) = .record [23, 3, 3, 0, 1, 42] [9] := by
  rw [fetch_chunking_independent]; decide
/-- `delivered_is_authenticated` / `read_cipher_change` / `ignored_record_counts`: hypotheses satisfiable -/
example : (match process ⟨plainConn, none, none, []⟩ false [23, 3, 3, 0, 1, 42] with
    | .done _ (.data d) => d == [42] | _ => false) = true := by decide
example : (match process ⟨plainConn, some (.stream (fun s b => (b, s)) ⟨0, fun _ => []⟩, ()), none, []⟩ true
    [20, 3, 3, 0, 1, 1] with | .done k .ccs => k.c.hc.seq == [0, 0, 0, 0, 0, 0, 0, 0] | _ => false) = true := by decide
example : (match process ⟨plainConn, none, none, []⟩ false [23, 3, 3, 0, 0] with
    | .retry k => k.c.retryCount == 1 | _ => false) = true := by decide
example : decrypt plainConn.hc [23, 3, 3, 0, 0] ≠ .err := by
  simp [plainConn, decrypt, decrypt13, decryptMac, tls10MAC, incSeq, incSeqRev, seq0, VersionTLS13,
    recordTypeChangeCipherSpec]
/-- `reject_delivers_nothing`: a rejected record exists (MAC of one byte that does not match) -/
example : decrypt (σ := Unit) ⟨0x0303, .stream (fun s b => (b, s)) ⟨1, fun _ => [7]⟩, (), seq0⟩ [23, 3, 3, 0, 2, 42, 8]
    = .err := by
  simp [decrypt, decrypt13, decryptMac, tls10MAC, VersionTLS13, recordTypeChangeCipherSpec]
example : changeCipherSpec (σ := Unit) ⟨0x0303, .null, (), seq0⟩ (some (.stream (fun s b => (b, s)) ⟨0, fun _ => []⟩, ()))
    ≠ none := by simp [changeCipherSpec, VersionTLS13]

end examples

end ZV.C25
