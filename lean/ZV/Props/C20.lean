import ZV.Model.C20
import ZV.Proofs.C20
import ZV.Generated.C20
import ZV.Model.C18Time
import ZV.Proofs.C20X4
/-!
  C20 — permissive parsing is a conservative extension of strict parsing.

  `perm_extends` (the asn1 level, for ALL schemas, parameters and byte strings): if the strict parser accepts, the
  permissive parser accepts with the identical value and the identical rest.  Proof: induction over the schema;
  every `AllowPermissiveParsing` branch of the model only removes a rejection.

  `inventory_accounted` (T1): the syntactic uses of `AllowPermissiveParsing` in asn1.go and x509.go, extracted from the
  current tree, are exactly the sites the verification accounts for; a new, moved or re-shaped use breaks it.
  The x509 level (second half of this file): every site of the flag in x509.go has a Lean model (`ZV.Model.C20X`) and a
  `perm_extends_<site>` theorem; `perm_extends_parseCertificate` composes them for the result fields they feed, with
  finding D31 (keyUsage / basicConstraints / self-signature) as the explicit, proved exception.  `ParseCertificate` as a
  whole (outer Unmarshal, names, validity, …) is still checked by the T3 oracle only (see tools/props/C20.json).
-/
namespace ZV.C20
open ZV.C18

/-- **C20, asn1 level**: strict success implies permissive success with the identical `(value, rest)`;
    for every Go type (schema), every field-parameter string and every input. -/
theorem perm_extends (s : Schema) (p : Params) (bs : Bytes) (r : Val × Bytes)
    (h : unmarshal false s p bs = .ok r) : unmarshal true s p bs = .ok r :=
  (perm_both s).1 p bs r h

/-- permissive mode "only turns some strict-mode failures into successes": it never fails where strict succeeds
    (contrapositive form) -/
theorem perm_err_strict_not_ok (s : Schema) (p : Params) (bs : Bytes)
    (h : unmarshal true s p bs = .err) : ∀ r, unmarshal false s p bs ≠ .ok r := by
  intro r hr
  rw [perm_extends s p bs r hr] at h
  cases h

/-- the extension is proper: some input is rejected strictly and accepted permissively (non-minimal length, `@` in a
    PrintableString, non-minimal INTEGER) — so `perm_extends` is not vacuous in either direction -/
theorem perm_strictly_more :
    unmarshal false .int64 {} [2, 0x81, 1, 5] = .err ∧ unmarshal true .int64 {} [2, 0x81, 1, 5] = .ok (.int 5, []) ∧
    unmarshal false .str {} [0x13, 1, 0x40] = .err ∧ unmarshal true .str {} [0x13, 1, 0x40] = .ok (.bytes [0x40], []) ∧
    unmarshal false .bigint {} [2, 2, 0, 5] = .err ∧ unmarshal true .bigint {} [2, 2, 0, 5] = .ok (.int 5, []) := by
  decide

example : unmarshal false (.struct (.fcons {} .int64 (.fcons {} .str .fnil))) {} [0x30, 6, 2, 1, 5, 0x13, 1, 0x41]
    = .ok (.vcons (.int 5) (.vcons (.bytes [0x41]) .vnil), []) := by decide

/-- **T1**: the uses of `AllowPermissiveParsing` found in the current tree are exactly the accounted ones. -/
theorem inventory_accounted : ZV.Generated.C20.permissiveSites = accountedSites := by decide

/-- the accounted list is the union of the three classes described in `ZV.Model.C20` -/
theorem accounted_split : ∀ x ∈ accountedSites, x ∈ modelledSites ∨ x ∈ timeSites ∨ x ∈ x509Sites := by decide

/-- every modelled asn1.go site is a strict-only guard (`if !AllowPermissiveParsing { reject }`) -/
theorem modelled_are_strict_guards : ∀ x ∈ modelledSites ++ timeSites, x.2.2.2 = "strict-guard" := by decide

theorem decl_is_default_false : ZV.Generated.C20.permissiveDecl = "var AllowPermissiveParsing = false" := by decide

/-! ## time.Time (the two `timeSites`; models `ZV.Model.Time`, `ZV.Model.C18Time`) -/

/-- `parseUTCTime`: the permissive mode only skips the re-serialisation test -/
theorem perm_extends_utctime (s : Bytes) (t : ZV.Time.GoTime) (h : ZV.Time.EA.parseUTCTime false s = .ok t) :
    ZV.Time.EA.parseUTCTime true s = .ok t := by
  unfold ZV.Time.EA.parseUTCTime at h ⊢
  cases hmin : ZV.Time.parse ZV.Time.layoutUTCMin s with
  | some r =>
    simp only [hmin] at h ⊢
    split at h
    · simp at h
    · simpa [ZV.Time.EA.reserialises] using h
  | none =>
    cases hsec : ZV.Time.parse ZV.Time.layoutUTCSec s with
    | some r =>
      simp only [hmin, hsec] at h ⊢
      split at h
      · simp at h
      · simpa [ZV.Time.EA.reserialises] using h
    | none => simp [hmin, hsec] at h

/-- `parseGeneralizedTime` -/
theorem perm_extends_gentime (s : Bytes) (t : ZV.Time.GoTime) (h : ZV.Time.EA.parseGeneralizedTime false s = .ok t) :
    ZV.Time.EA.parseGeneralizedTime true s = .ok t := by
  unfold ZV.Time.EA.parseGeneralizedTime at h ⊢
  cases hp : ZV.Time.parse ZV.Time.layoutGen s with
  | some r =>
    simp only [hp] at h ⊢
    split at h
    · simp at h
    · simpa [ZV.Time.EA.reserialises] using h
  | none => simp [hp] at h

/-- the extension is proper for time values too: `+0000` instead of `Z`, a fractional second, a sign in the year -/
theorem perm_strictly_more_time :
    ZV.Time.EA.parseGeneralizedTime false [0x32, 0x30, 0x32, 0x34, 0x30, 0x31, 0x30, 0x31, 0x30, 0x30, 0x30, 0x30, 0x30, 0x30, 0x2b, 0x30, 0x30, 0x30, 0x30] = .err ∧
    ZV.Time.EA.parseGeneralizedTime true [0x32, 0x30, 0x32, 0x34, 0x30, 0x31, 0x30, 0x31, 0x30, 0x30, 0x30, 0x30, 0x30, 0x30, 0x2b, 0x30, 0x30, 0x30, 0x30] =
      .ok { unix := 1704067200, off := 0 } ∧
    ZV.Time.EA.parseUTCTime false [0x2b, 0x35, 0x30, 0x31, 0x30, 0x31, 0x30, 0x30, 0x30, 0x30, 0x5a] = .err ∧
    ZV.Time.EA.parseUTCTime true [0x2b, 0x35, 0x30, 0x31, 0x30, 0x31, 0x30, 0x30, 0x30, 0x30, 0x5a] =
      .ok { unix := 1104537600, off := 0 } := by decide +kernel

/-- a bare `time.Time` with any field parameters: strict success implies permissive success with the identical
    `(value, rest)` (headers through `perm_both`'s `parseTL`, contents through the two lemmas above) -/
theorem perm_extends_time_field (p : Params) (bs : Bytes) (r : ZV.Time.GoTime × Bytes)
    (h : TimeField.parseTimeField false p bs = .ok r) : TimeField.parseTimeField true p bs = .ok r := by
  unfold TimeField.parseTimeField at h ⊢
  split at h
  · rename_i he; simp only [he, if_true]; exact h
  · rename_i he
    simp only [he, if_false]
    cases hp : parseTL false bs with
    | err => simp [hp] at h
    | panic => simp [hp] at h
    | ok x =>
      obtain ⟨t0, r0⟩ := x
      rw [parseTL_perm bs _ hp]
      simp only [hp] at h ⊢
      obtain ⟨hf, hc, hd⟩ := explicitStage_perm TimeField.anyPlainType p t0 r0
      cases hes : explicitStage false TimeField.anyPlainType p t0 r0 with
      | err => simp [hes] at h
      | dflt => rw [hd hes]; simpa [hes] using h
      | flag r' => simp [hes] at h
      | cont t r' =>
        rw [hc t r' hes]
        simp only [hes] at h ⊢
        split at h
        · rename_i hm; simp only [hm, if_true]; exact h
        · rename_i hm
          simp only [hm, if_false]
          split at h
          · simp at h
          · rename_i hl
            simp only [hl, if_false]
            cases hb : ZV.Time.EA.parseTimeBody false (TimeField.timeSubstTag p t) (List.take t.len r') with
            | err => simp [hb] at h
            | panic => simp [hb] at h
            | ok v =>
              have hb' : ZV.Time.EA.parseTimeBody true (TimeField.timeSubstTag p t) (List.take t.len r') = .ok v := by
                unfold ZV.Time.EA.parseTimeBody at hb ⊢
                split
                · rename_i h23; simp only [h23, if_true] at hb; exact perm_extends_utctime _ _ hb
                · rename_i h23; simp only [h23, if_false] at hb; exact perm_extends_gentime _ _ hb
              simp only [hb] at h
              simp only [hb']
              exact h

/-! ## x509 level: the sites of the flag in `x509/x509.go` (models `ZV.Model.C20X`, T2 ops `c20 xpk / xgn / xpc / xsch`)

  Every theorem has the form "strict = ok v → permissive = ok v" for ALL inputs.  For the element functions of loops the
  result is `(accumulators, continue?)`; `(r, true)` is the non-error outcome.  Opaque sub-parsers are universally
  quantified under `X.Sub.Conservative` (each sub-parser is itself conservative), the non-RSA arms of `parsePublicKey`
  under the same hypothesis `hother`. -/

/-- the trivially conservative sub-parsers (hypotheses of the theorems below are satisfiable) -/
def subExample : X.Sub := { tor := fun _ _ => none, sct := fun _ _ => (0, true), qcParse := fun _ _ => some () }
example : subExample.Conservative := ⟨fun _ _ h => h, fun _ _ h => h, fun _ h => h⟩

/-- SITE parsePublicKey/0 — the RSA arm -/
theorem perm_extends_parsePublicKeyRSA (bs : Bytes) (k : X.Key) (h : X.parsePublicKeyRSA false bs = .ok k) :
    X.parsePublicKeyRSA true bs = .ok k := X.parsePublicKeyRSA_perm bs k h

/-- SITE parsePublicKey/0 — `parsePublicKey`, ALL arms (RSA, DSA, ECDSA with the named-curve lookup, Ed25519, X25519,
    unknown algorithm), for all algorithm numbers, key bytes and parameter bytes; `ecOk` (the point decoding of
    `elliptic.Unmarshal`) is any predicate of the curve and the bytes.  Only the RSA arm reads the flag; DSA and ECDSA
    depend on the mode through `asn1.Unmarshal` alone, the remaining arms not at all. -/
theorem perm_extends_parsePublicKey (ecOk : Nat → Bytes → Bool) (algo : Nat) (bs ps : Bytes) (k : X.Key)
    (h : X.parsePublicKey ecOk false algo bs ps = .ok k) : X.parsePublicKey ecOk true algo bs ps = .ok k :=
  X.parsePublicKey_perm ecOk algo bs ps k h

/-- the non-RSA arms have mode-dependent inputs too (DSA: a public value with a non-minimally encoded length) -/
theorem perm_strictly_more_parsePublicKeyDSA :
    X.parsePublicKey (fun _ _ => true) false 2 [2, 0x81, 1, 5] [0x30, 9, 2, 1, 7, 2, 1, 3, 2, 1, 2] = .err ∧
    X.parsePublicKey (fun _ _ => true) true 2 [2, 0x81, 1, 5] [0x30, 9, 2, 1, 7, 2, 1, 3, 2, 1, 2] = .ok (.dsa 5 7 3 2) := by decide

example : X.parsePublicKey (fun _ _ => true) false 3 [4, 1, 2] [6, 5, 43, 129, 4, 0, 34] = .ok (.ecdsa 2 [4, 1, 2]) := by decide
example : X.parsePublicKey (fun _ _ => true) false 2 [2, 1, 5] [0x30, 9, 2, 1, 7, 2, 1, 3, 2, 1, 2] = .ok (.dsa 5 7 3 2) := by decide

example : X.parsePublicKeyRSA false [0x30, 6, 2, 1, 5, 2, 1, 3] = .ok (.rsa 5 3) := by decide

/-- proper extension: modulus 0 is rejected strictly and accepted permissively -/
theorem perm_strictly_more_parsePublicKey :
    X.parsePublicKeyRSA false [0x30, 6, 2, 1, 0, 2, 1, 3] = .err ∧
    X.parsePublicKeyRSA true [0x30, 6, 2, 1, 0, 2, 1, 3] = .ok (.rsa 0 3) := by decide

/-- SITES parseGeneralNames/0 … /4 — the body of `switch v.Tag` -/
theorem perm_extends_gnElem (v : Val) (tag : Nat) (inner full : Bytes) (acc r : X.GN)
    (h : X.gnElem false v tag inner full acc = (r, true)) : X.gnElem true v tag inner full acc = (r, true) :=
  X.gnElem_perm v tag inner full acc r h

/-- `parseGeneralNames` as a whole: strict success implies permissive success with identical lists
    (and an empty `failedToParse`, which only the permissive branches fill) -/
theorem perm_extends_parseGeneralNames (value : Bytes) (r : X.GN) (h : X.parseGeneralNames false value = (r, true)) :
    X.parseGeneralNames true value = (r, true) := X.parseGeneralNames_perm value r h

example : X.parseGeneralNames false [0x30, 6, 0x87, 4, 192, 168, 0, 1] = ({ ip := [[192, 168, 0, 1]] }, true) := by decide

/-- proper extension: an iPAddress of length 1 (SITE parseGeneralNames/3) -/
theorem perm_strictly_more_parseGeneralNames :
    (X.parseGeneralNames false [0x30, 3, 0x87, 1, 5]).2 = false ∧
    X.parseGeneralNames true [0x30, 3, 0x87, 1, 5] = ({ failed := [.raw 2 7 false [5] [0x87, 1, 5]] }, true) := by decide

/-- SITES parseCertificate/3 … /6 -/
theorem perm_extends_ncPermitted (st : Val) (acc r : List X.NCE) (h : X.ncPermitted false st acc = (r, true)) :
    X.ncPermitted true st acc = (r, true) := X.ncPermitted_perm st acc r h
/-- SITES parseCertificate/7 … /10 -/
theorem perm_extends_ncExcluded (st : Val) (acc r : List X.NCE) (h : X.ncExcluded false st acc = (r, true)) :
    X.ncExcluded true st acc = (r, true) := X.ncExcluded_perm st acc r h
/-- SITE parseCertificate/12 -/
theorem perm_extends_dpLoop (f : Nat) (bs : Bytes) (acc r : List Bytes) (h : X.dpLoop false f bs acc = (r, true)) :
    X.dpLoop true f bs acc = (r, true) := X.dpLoop_perm f bs acc r h
/-- SITE parseCertificate/17 -/
theorem perm_extends_qualNotice (qid : List Int) (qfull : Bytes) (acc r : X.Pol) (h : X.qualNotice false qid qfull acc = (r, true)) :
    X.qualNotice true qid qfull acc = (r, true) := X.qualNotice_perm qid qfull acc r h
/-- SITE parseCertificate/18 -/
theorem perm_extends_qualCPS (qid : List Int) (qfull : Bytes) (acc r : X.Pol) (h : X.qualCPS false qid qfull acc = (r, true)) :
    X.qualCPS true qid qfull acc = (r, true) := X.qualCPS_perm qid qfull acc r h

/-- ALL sites of parseCertificate (0 … 25): one iteration of the extension loop -/
theorem perm_extends_extStep (sub : X.Sub) (hs : sub.Conservative) (e : X.Ext) (out o : X.Cert)
    (h : X.extStep sub false e out = .ok o) : X.extStep sub true e out = .ok o := X.extStep_perm sub hs e out o h

/-- SITE parseCertificate/20, sub-parser modelled: `parseSignedCertificateTimestampList` (framing loop + the one
    `asn1.Unmarshal`; `ct.DeserializeSCT` is any predicate `deser`) is conservative — so for `X.subWithSCT` the SCT
    component of `X.Sub.Conservative` is proved, not assumed -/
theorem perm_extends_parseSCTList (deser : Nat → Bytes → Bool) (v : Bytes) (n : Nat)
    (h : X.parseSCTList deser false v = (n, true)) : X.parseSCTList deser true v = (n, true) := X.parseSCTList_perm deser v n h

example : X.parseSCTList (fun _ _ => true) false [4, 5, 0, 3, 0, 1, 9] = (1, true) := by decide

theorem perm_strictly_more_parseSCTList :
    X.parseSCTList (fun _ _ => true) false [4, 0x81, 5, 0, 3, 0, 1, 9] = (0, false) ∧
    X.parseSCTList (fun _ _ => true) true [4, 0x81, 5, 0, 3, 0, 1, 9] = (1, true) := by decide

/-- the certificate-level theorems with the SCT list modelled: only Tor and QCStatements.Parse remain assumed -/
theorem perm_extends_parseExts_sct (deser : Nat → Bytes → Bool) (tor : Bool → Bytes → Option Nat) (qc : Bool → Bytes → Option Unit)
    (ht : ∀ v n, tor false v = some n → tor true v = some n) (hq : ∀ v, qc false v = some () → qc true v = some ())
    (es : List X.Ext) (out o : X.Cert) (h : X.parseExts (X.subWithSCT deser tor qc) false es out = .ok o) :
    X.parseExts (X.subWithSCT deser tor qc) true es out = .ok o :=
  X.parseExts_perm _ (X.subWithSCT_conservative deser tor qc ht hq) es out o h

example : ∀ v n, (fun (_ : Bool) (_ : Bytes) => (none : Option Nat)) false v = some n →
    (fun (_ : Bool) (_ : Bytes) => (none : Option Nat)) true v = some n := fun _ _ h => h

/-- **T1**: the EKU table the model reads (`ekuKnownOIDs`, the keys of `ekuConstants` extracted with go/ast) is well
    formed (every key is a dotted OID — no `-1` placeholder), as long as its count says, and `extKeyUsageFromOID` is
    still the plain map lookup by `oid.String()` the model's `ekuIsKnown` stands for -/
theorem eku_table_pinned :
    (∀ o ∈ ZV.Generated.C20.ekuKnownOIDs, ∀ a ∈ o, 0 ≤ a) ∧
    ZV.Generated.C20.ekuKnownOIDs.length = ZV.Generated.C20.ekuKnownCount ∧ 0 < ZV.Generated.C20.ekuKnownCount ∧
    ZV.Generated.C20.extKeyUsageFromOIDBody = "s := oid.String(); eku, ok = ekuConstants[s]; return" := by decide

/-- serverAuth is known, an arbitrary private arc is not (the split of `X.ekuSplit`) -/
example : X.ekuSplit (.vcons (.oid [1, 3, 6, 1, 5, 5, 7, 3, 1]) (.vcons (.oid [1, 2, 3]) .vnil)) (0, []) = (1, [.oid [1, 2, 3]]) := by decide

/-- the extension loop -/
theorem perm_extends_parseExts (sub : X.Sub) (hs : sub.Conservative) (es : List X.Ext) (out o : X.Cert)
    (h : X.parseExts sub false es out = .ok o) : X.parseExts sub true es out = .ok o := X.parseExts_perm sub hs es out o h

example : X.extStep subExample false ⟨[2, 5, 29, 14], false, [4, 2, 7, 8]⟩ {} = .ok { ski := .bytes [7, 8] } := by decide

/-- proper extension at the certificate level: a malformed precertificate poison (SITE parseCertificate/21) and a
    subjectKeyId whose length is not minimally encoded (SITE parseCertificate/15 over SITE asn1 parseTagAndLength/0) -/
theorem perm_strictly_more_extStep :
    X.extStep subExample false ⟨X.oidPoison, true, [5, 1, 0]⟩ {} = .err ∧
    X.extStep subExample true ⟨X.oidPoison, true, [5, 1, 0]⟩ {} = .ok {} ∧
    X.extStep subExample false ⟨[2, 5, 29, 14], false, [4, 0x81, 1, 7]⟩ {} = .err ∧
    X.extStep subExample true ⟨[2, 5, 29, 14], false, [4, 0x81, 1, 7]⟩ {} = .ok { ski := .bytes [7] } := by decide

/-- **C20, certificate level, composed**: for the result fields of `X.Cert` — PublicKey, the SAN / IAN lists and
    FailedToParseNames, name constraints, CRL distribution points, authority / subject key ids, extended key usages,
    policies, AIA, SCT count, IsPrecert, Tor descriptors, CABF organisation id, QCStatements — strict success implies
    permissive success with the identical value.  EXCEPTION (finding D31, below): KeyUsage, BasicConstraints*, SelfSigned /
    ValidationLevel are not fields of `X.Cert`. -/
theorem perm_extends_parseCertificate (ecOk : Nat → Bytes → Bool) (sub : X.Sub) (hs : sub.Conservative)
    (algo : Nat) (keyData paramsFull : Bytes) (exts : List X.Ext) (c : X.Cert)
    (h : X.parseCertificate ecOk sub false algo keyData paramsFull exts = .ok c) :
    X.parseCertificate ecOk sub true algo keyData paramsFull exts = .ok c := by
  unfold X.parseCertificate at h ⊢
  cases hk : X.parsePublicKey ecOk false algo keyData paramsFull with
  | ok k =>
    rw [X.parsePublicKey_perm ecOk algo keyData paramsFull k hk]
    simp only [hk] at h ⊢
    exact X.parseExts_perm sub hs exts _ c h
  | err => simp [hk] at h
  | panic => simp [hk] at h

example : X.parseCertificate (fun _ _ => true) subExample false 1 [0x30, 6, 2, 1, 5, 2, 1, 3] [] [⟨[2, 5, 29, 14], false, [4, 1, 9]⟩]
    = .ok { key := some (.rsa 5 3), ski := .bytes [9] } := by decide

/-- **finding D31 carried as the explicit exception**: the keyUsage step swallows the asn1 error in both modes, so a
    body that only the permissive mode can read (non-minimal length) gives two DIFFERENT successful results -/
example : X.kuStep false [3, 0x81, 2, 5, 0xa0] (.bits [] 0) = .bits [] 0 ∧
    X.kuStep true [3, 0x81, 2, 5, 0xa0] (.bits [] 0) = .bits [0xa0] 3 := by decide

theorem d31_keyUsage_not_conservative : ∃ v ku, X.kuStep false v ku ≠ X.kuStep true v ku :=
  ⟨[3, 0x81, 2, 5, 0xa0], .bits [] 0, by decide⟩

/-! ### every x509.go site of the inventory has a named model and theorem -/

/-- a site of the flag, the Lean function that models the enclosing decision, and its conservativity statement with proof -/
structure SiteModel where
  site : Site
  model : String
  thm : String
  stmt : Prop
  proof : stmt

def ExtStmt (oid : List Int) : Prop :=
  ∀ (sub : X.Sub), sub.Conservative → ∀ (e : X.Ext) (out o : X.Cert), e.id = oid →
    X.extStep sub false e out = .ok o → X.extStep sub true e out = .ok o
theorem extStmt (oid : List Int) : ExtStmt oid := fun sub hs e out o _ h => X.extStep_perm sub hs e out o h

def GnStmt (tag : Nat) : Prop :=
  ∀ (v : Val) (inner full : Bytes) (acc r : X.GN), X.gnElem false v tag inner full acc = (r, true) → X.gnElem true v tag inner full acc = (r, true)
theorem gnStmt (tag : Nat) : GnStmt tag := fun v inner full acc r h => X.gnElem_perm v tag inner full acc r h

def NcpStmt : Prop := ∀ st acc r, X.ncPermitted false st acc = (r, true) → X.ncPermitted true st acc = (r, true)
def NcxStmt : Prop := ∀ st acc r, X.ncExcluded false st acc = (r, true) → X.ncExcluded true st acc = (r, true)

def pcSite (n : Nat) (pol : String) (oid : List Int) : SiteModel :=
  ⟨("x509.go", "parseCertificate", n, pol), "X.extStep", "perm_extends_extStep", ExtStmt oid, extStmt oid⟩
def ncpSite (n : Nat) (pol : String) : SiteModel :=
  ⟨("x509.go", "parseCertificate", n, pol), "X.ncPermitted", "perm_extends_ncPermitted", NcpStmt, X.ncPermitted_perm⟩
def ncxSite (n : Nat) (pol : String) : SiteModel :=
  ⟨("x509.go", "parseCertificate", n, pol), "X.ncExcluded", "perm_extends_ncExcluded", NcxStmt, X.ncExcluded_perm⟩
def gnSite (n : Nat) (pol : String) (tag : Nat) : SiteModel :=
  ⟨("x509.go", "parseGeneralNames", n, pol), "X.gnElem", "perm_extends_gnElem", GnStmt tag, gnStmt tag⟩

def siteModels : List SiteModel := [
  ⟨("x509.go", "parsePublicKey", 0, "strict-guard"), "X.parsePublicKey", "perm_extends_parsePublicKey",
    ∀ ecOk algo bs ps k, X.parsePublicKey ecOk false algo bs ps = .ok k → X.parsePublicKey ecOk true algo bs ps = .ok k,
    X.parsePublicKey_perm⟩,
  gnSite 0 "perm-guard/on-error" 0, gnSite 1 "perm-guard/on-error" 4, gnSite 2 "perm-guard/on-error" 5,
  gnSite 3 "other:if-else/perm-then/else-rejects" 7, gnSite 4 "perm-guard/on-error" 8,
  pcSite 0 "perm-guard/on-error" [2, 5, 29, 17], pcSite 1 "perm-guard/on-error" [2, 5, 29, 18],
  pcSite 2 "perm-guard/on-error" [2, 5, 29, 30],
  ncpSite 3 "perm-guard/on-error", ncpSite 4 "perm-guard/on-error", ncpSite 5 "strict-guard", ncpSite 6 "perm-guard/on-error",
  ncxSite 7 "perm-guard/on-error", ncxSite 8 "perm-guard/on-error", ncxSite 9 "strict-guard", ncxSite 10 "perm-guard/on-error",
  pcSite 11 "perm-guard/on-error" [2, 5, 29, 31],
  ⟨("x509.go", "parseCertificate", 12, "perm-guard/on-error"), "X.dpLoop", "perm_extends_dpLoop",
    ∀ f bs acc r, X.dpLoop false f bs acc = (r, true) → X.dpLoop true f bs acc = (r, true), X.dpLoop_perm⟩,
  pcSite 13 "perm-guard/on-error" [2, 5, 29, 35], pcSite 14 "strict-guard" [2, 5, 29, 37],
  pcSite 15 "perm-guard/on-error" [2, 5, 29, 14], pcSite 16 "perm-guard/on-error" [2, 5, 29, 32],
  ⟨("x509.go", "parseCertificate", 17, "strict-guard"), "X.qualNotice", "perm_extends_qualNotice",
    ∀ qid qfull acc r, X.qualNotice false qid qfull acc = (r, true) → X.qualNotice true qid qfull acc = (r, true), X.qualNotice_perm⟩,
  ⟨("x509.go", "parseCertificate", 18, "strict-guard"), "X.qualCPS", "perm_extends_qualCPS",
    ∀ qid qfull acc r, X.qualCPS false qid qfull acc = (r, true) → X.qualCPS true qid qfull acc = (r, true), X.qualCPS_perm⟩,
  pcSite 19 "perm-guard/on-error" X.oidAIA, pcSite 20 "perm-guard/on-error" X.oidSCT, pcSite 21 "strict-guard" X.oidPoison,
  pcSite 22 "perm-guard/on-error" X.oidTor, pcSite 23 "perm-guard/on-error" X.oidCABF,
  pcSite 24 "perm-guard/on-error" X.oidQC, pcSite 25 "perm-guard/on-error" X.oidQC]

/-- **T1 link**: every `x509.go` entry of the inventory extracted from the current tree is the site of exactly the
    named models above (each of which carries its proved conservativity statement); a new, moved or re-shaped use of the
    flag in x509.go breaks this theorem until a model and a theorem are supplied for it -/
theorem x509_sites_modelled :
    (ZV.Generated.C20.permissiveSites.filter (fun s => s.1 == "x509.go")) = siteModels.map (·.site) := by decide

/-- and they are the `x509Sites` of the accounted inventory -/
theorem x509_sites_are_accounted : siteModels.map (·.site) = x509Sites := by decide

end ZV.C20
