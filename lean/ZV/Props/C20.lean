import ZV.Model.C20
import ZV.Proofs.C20
import ZV.Generated.C20
import ZV.Model.C18Time
/-!
  C20 — permissive parsing is a conservative extension of strict parsing.

  `perm_extends` (the asn1 level, for ALL schemas, parameters and byte strings): if the strict parser accepts, the
  permissive parser accepts with the identical value and the identical rest.  Proof: induction over the schema;
  every `AllowPermissiveParsing` branch of the model only removes a rejection.

  `inventory_accounted` (T1): the syntactic uses of `AllowPermissiveParsing` in asn1.go and x509.go, extracted from the
  current tree, are exactly the sites the verification accounts for; a new, moved or re-shaped use breaks it.
  The certificate level (`ParseCertificate`) is checked by the T3 oracle only (see tools/props/C20.json).
-/
namespace ZV.C20
open ZV.C18

theorem perm_both (s : Schema) :
    (∀ p bs r, parseField false s p bs = .ok r → parseField true s p bs = .ok r) ∧
    (∀ bs r, parseFields false s bs = .ok r → parseFields true s bs = .ok r) := by
  induction s with
  | struct fs ih =>
    refine ⟨?_, fun bs r h => by simp [parseFields] at h⟩
    intro p bs r h
    simp only [parseField] at h ⊢
    by_cases hb : bs.isEmpty = true
    · rw [if_pos hb] at h ⊢; exact h
    · rw [if_neg hb] at h ⊢
      obtain ⟨hf, hg, hd⟩ := parsePre_perm (.struct fs) p bs
      cases hp : parsePre false (.struct fs) p bs with
      | err => simp [hp] at h
      | dflt => rw [hd hp]; simpa [hp] using h
      | flag r' => rw [hf r' hp]; simpa [hp] using h
      | go t u inner rest =>
        rw [hg t u inner rest hp]
        simp only [hp] at h ⊢
        cases hfs : parseFields false fs inner with
        | ok x => rw [ih.2 _ _ hfs]; simpa [hfs] using h
        | err => simp [hfs] at h
        | panic => simp [hfs] at h
  | seqOf sn e ih =>
    refine ⟨?_, fun bs r h => by simp [parseFields] at h⟩
    intro p bs r h
    simp only [parseField] at h ⊢
    by_cases hb : bs.isEmpty = true
    · rw [if_pos hb] at h ⊢; exact h
    · rw [if_neg hb] at h ⊢
      obtain ⟨hf, hg, hd⟩ := parsePre_perm (.seqOf sn e) p bs
      cases hp : parsePre false (.seqOf sn e) p bs with
      | err => simp [hp] at h
      | dflt => rw [hd hp]; simpa [hp] using h
      | flag r' => rw [hf r' hp]; simpa [hp] using h
      | go t u inner rest =>
        rw [hg t u inner rest hp]
        simp only [hp] at h ⊢
        cases hu : univ e with
        | none => simp [hu] at h
        | some x =>
          obtain ⟨ma, et, ec⟩ := x
          simp only [hu] at h ⊢
          cases hc : countElems false ma et ec inner.length inner with
          | err => simp [hc] at h
          | panic => simp [hc] at h
          | ok n =>
            rw [countElems_perm _ _ _ _ _ _ hc]
            simp only [hc] at h ⊢
            cases hpe : parseElems (fun b => parseField false e {} b) n inner with
            | ok vs =>
              rw [parseElems_perm _ (fun b => parseField true e {} b) (fun bs r hh => ih.1 {} bs r hh) n inner vs hpe]
              simpa [hpe] using h
            | err => simp [hpe] at h
            | panic => simp [hpe] at h
  | fnil =>
    refine ⟨fun p bs r h => by simp [parseField] at h, fun bs r h => ?_⟩
    simpa [parseFields] using h
  | fcons p s rest ihs ihr =>
    refine ⟨fun p bs r h => by simp [parseField] at h, fun bs r h => ?_⟩
    simp only [parseFields] at h ⊢
    cases h1 : parseField false s p bs with
    | ok x =>
      obtain ⟨v, r1⟩ := x
      rw [ihs.1 _ _ _ h1]
      simp only [h1] at h ⊢
      cases h2 : parseFields false rest r1 with
      | ok y => rw [ihr.2 _ _ h2]; simpa [h2] using h
      | err => simp [h2] at h
      | panic => simp [h2] at h
    | err => simp [h1] at h
    | panic => simp [h1] at h
  | _ =>
    refine ⟨?_, fun bs r h => by simp [parseFields] at h⟩
    intro p bs r h
    simp only [parseField] at h ⊢
    exact primField_perm _ p bs r h

/-- **C20, asn1 level**: strict success implies permissive success with the identical `(value, rest)`;
    for every Go type (schema), every field-parameter string and every input. -/
theorem perm_extends (s : Schema) (p : Params) (bs : Bytes) (r : Val × Bytes)
    (h : unmarshal false s p bs = .ok r) : unmarshal true s p bs = .ok r :=
  (perm_both s).1 p bs r h

/-- permissive mode "only turns some strict-mode failures into successes": it never fails where strict succeeds
    (contrapositive form) -/
theorem perm_err_strict_not_ok (s : Schema) (p : Params) (bs : Bytes)
    (h : unmarshal true s p bs = .err) : ∀ r, unmarshal false s p bs ≠ .ok r := by
  intro r hr
  rw [perm_extends s p bs r hr] at h
  cases h

/-- the extension is proper: some input is rejected strictly and accepted permissively (non-minimal length, `@` in a
    PrintableString, non-minimal INTEGER) — so `perm_extends` is not vacuous in either direction -/
theorem perm_strictly_more :
    unmarshal false .int64 {} [2, 0x81, 1, 5] = .err ∧ unmarshal true .int64 {} [2, 0x81, 1, 5] = .ok (.int 5, []) ∧
    unmarshal false .str {} [0x13, 1, 0x40] = .err ∧ unmarshal true .str {} [0x13, 1, 0x40] = .ok (.bytes [0x40], []) ∧
    unmarshal false .bigint {} [2, 2, 0, 5] = .err ∧ unmarshal true .bigint {} [2, 2, 0, 5] = .ok (.int 5, []) := by
  decide

example : unmarshal false (.struct (.fcons {} .int64 (.fcons {} .str .fnil))) {} [0x30, 6, 2, 1, 5, 0x13, 1, 0x41]
    = .ok (.vcons (.int 5) (.vcons (.bytes [0x41]) .vnil), []) := by decide

/-- **T1**: the uses of `AllowPermissiveParsing` found in the current tree are exactly the accounted ones. -/
theorem inventory_accounted : ZV.Generated.C20.permissiveSites = accountedSites := by decide

/-- the accounted list is the union of the three classes described in `ZV.Model.C20` -/
theorem accounted_split : ∀ x ∈ accountedSites, x ∈ modelledSites ∨ x ∈ timeSites ∨ x ∈ x509Sites := by decide

/-- every modelled asn1.go site is a strict-only guard (`if !AllowPermissiveParsing { reject }`) -/
theorem modelled_are_strict_guards : ∀ x ∈ modelledSites ++ timeSites, x.2.2.2 = "strict-guard" := by decide

theorem decl_is_default_false : ZV.Generated.C20.permissiveDecl = "var AllowPermissiveParsing = false" := by decide

/-! ## time.Time (the two `timeSites`; models `ZV.Model.Time`, `ZV.Model.C18Time`) -/

/-- `parseUTCTime`: the permissive mode only skips the re-serialisation test -/
theorem perm_extends_utctime (s : Bytes) (t : ZV.Time.GoTime) (h : ZV.Time.EA.parseUTCTime false s = .ok t) :
    ZV.Time.EA.parseUTCTime true s = .ok t := by
  unfold ZV.Time.EA.parseUTCTime at h ⊢
  cases hmin : ZV.Time.parse ZV.Time.layoutUTCMin s with
  | some r =>
    simp only [hmin] at h ⊢
    split at h
    · simp at h
    · simpa [ZV.Time.EA.reserialises] using h
  | none =>
    cases hsec : ZV.Time.parse ZV.Time.layoutUTCSec s with
    | some r =>
      simp only [hmin, hsec] at h ⊢
      split at h
      · simp at h
      · simpa [ZV.Time.EA.reserialises] using h
    | none => simp [hmin, hsec] at h

/-- `parseGeneralizedTime` -/
theorem perm_extends_gentime (s : Bytes) (t : ZV.Time.GoTime) (h : ZV.Time.EA.parseGeneralizedTime false s = .ok t) :
    ZV.Time.EA.parseGeneralizedTime true s = .ok t := by
  unfold ZV.Time.EA.parseGeneralizedTime at h ⊢
  cases hp : ZV.Time.parse ZV.Time.layoutGen s with
  | some r =>
    simp only [hp] at h ⊢
    split at h
    · simp at h
    · simpa [ZV.Time.EA.reserialises] using h
  | none => simp [hp] at h

/-- the extension is proper for time values too: `+0000` instead of `Z`, a fractional second, a sign in the year -/
theorem perm_strictly_more_time :
    ZV.Time.EA.parseGeneralizedTime false [0x32, 0x30, 0x32, 0x34, 0x30, 0x31, 0x30, 0x31, 0x30, 0x30, 0x30, 0x30, 0x30, 0x30, 0x2b, 0x30, 0x30, 0x30, 0x30] = .err ∧
    ZV.Time.EA.parseGeneralizedTime true [0x32, 0x30, 0x32, 0x34, 0x30, 0x31, 0x30, 0x31, 0x30, 0x30, 0x30, 0x30, 0x30, 0x30, 0x2b, 0x30, 0x30, 0x30, 0x30] =
      .ok { unix := 1704067200, off := 0 } ∧
    ZV.Time.EA.parseUTCTime false [0x2b, 0x35, 0x30, 0x31, 0x30, 0x31, 0x30, 0x30, 0x30, 0x30, 0x5a] = .err ∧
    ZV.Time.EA.parseUTCTime true [0x2b, 0x35, 0x30, 0x31, 0x30, 0x31, 0x30, 0x30, 0x30, 0x30, 0x5a] =
      .ok { unix := 1104537600, off := 0 } := by decide +kernel

/-- a bare `time.Time` with any field parameters: strict success implies permissive success with the identical
    `(value, rest)` (headers through `perm_both`'s `parseTL`, contents through the two lemmas above) -/
theorem perm_extends_time_field (p : Params) (bs : Bytes) (r : ZV.Time.GoTime × Bytes)
    (h : TimeField.parseTimeField false p bs = .ok r) : TimeField.parseTimeField true p bs = .ok r := by
  unfold TimeField.parseTimeField at h ⊢
  split at h
  · rename_i he; simp only [he, if_true]; exact h
  · rename_i he
    simp only [he, if_false]
    cases hp : parseTL false bs with
    | err => simp [hp] at h
    | panic => simp [hp] at h
    | ok x =>
      obtain ⟨t0, r0⟩ := x
      rw [parseTL_perm bs _ hp]
      simp only [hp] at h ⊢
      obtain ⟨hf, hc, hd⟩ := explicitStage_perm TimeField.anyPlainType p t0 r0
      cases hes : explicitStage false TimeField.anyPlainType p t0 r0 with
      | err => simp [hes] at h
      | dflt => rw [hd hes]; simpa [hes] using h
      | flag r' => simp [hes] at h
      | cont t r' =>
        rw [hc t r' hes]
        simp only [hes] at h ⊢
        split at h
        · rename_i hm; simp only [hm, if_true]; exact h
        · rename_i hm
          simp only [hm, if_false]
          split at h
          · simp at h
          · rename_i hl
            simp only [hl, if_false]
            cases hb : ZV.Time.EA.parseTimeBody false (TimeField.timeSubstTag p t) (List.take t.len r') with
            | err => simp [hb] at h
            | panic => simp [hb] at h
            | ok v =>
              have hb' : ZV.Time.EA.parseTimeBody true (TimeField.timeSubstTag p t) (List.take t.len r') = .ok v := by
                unfold ZV.Time.EA.parseTimeBody at hb ⊢
                split
                · rename_i h23; simp only [h23, if_true] at hb; exact perm_extends_utctime _ _ hb
                · rename_i h23; simp only [h23, if_false] at hb; exact perm_extends_gentime _ _ hb
              simp only [hb] at h
              simp only [hb']
              exact h

end ZV.C20
