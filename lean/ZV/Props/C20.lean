import ZV.Model.C20
import ZV.Proofs.C20
import ZV.Generated.C20
/-!
  C20 — permissive parsing is a conservative extension of strict parsing.

  `perm_extends` (the asn1 level, for ALL schemas, parameters and byte strings): if the strict parser accepts, the
  permissive parser accepts with the identical value and the identical rest.  Proof: induction over the schema;
  every `AllowPermissiveParsing` branch of the model only removes a rejection.

  `inventory_accounted` (T1): the syntactic uses of `AllowPermissiveParsing` in asn1.go and x509.go, extracted from the
  current tree, are exactly the sites the verification accounts for; a new, moved or re-shaped use breaks it.
  The certificate level (`ParseCertificate`) is checked by the T3 oracle only (see tools/props/C20.json).
-/
namespace ZV.C20
open ZV.C18

theorem perm_both (s : Schema) :
    (∀ p bs r, parseField false s p bs = .ok r → parseField true s p bs = .ok r) ∧
    (∀ bs r, parseFields false s bs = .ok r → parseFields true s bs = .ok r) := by
  induction s with
  | struct fs ih =>
    refine ⟨?_, fun bs r h => by simp [parseFields] at h⟩
    intro p bs r h
    simp only [parseField] at h ⊢
    by_cases hb : bs.isEmpty = true
    · rw [if_pos hb] at h ⊢; exact h
    · rw [if_neg hb] at h ⊢
      obtain ⟨hf, hg, hd⟩ := parsePre_perm (.struct fs) p bs
      cases hp : parsePre false (.struct fs) p bs with
      | err => simp [hp] at h
      | dflt => rw [hd hp]; simpa [hp] using h
      | flag r' => rw [hf r' hp]; simpa [hp] using h
      | go t u inner rest =>
        rw [hg t u inner rest hp]
        simp only [hp] at h ⊢
        cases hfs : parseFields false fs inner with
        | ok x => rw [ih.2 _ _ hfs]; simpa [hfs] using h
        | err => simp [hfs] at h
        | panic => simp [hfs] at h
  | seqOf sn e ih =>
    refine ⟨?_, fun bs r h => by simp [parseFields] at h⟩
    intro p bs r h
    simp only [parseField] at h ⊢
    by_cases hb : bs.isEmpty = true
    · rw [if_pos hb] at h ⊢; exact h
    · rw [if_neg hb] at h ⊢
      obtain ⟨hf, hg, hd⟩ := parsePre_perm (.seqOf sn e) p bs
      cases hp : parsePre false (.seqOf sn e) p bs with
      | err => simp [hp] at h
      | dflt => rw [hd hp]; simpa [hp] using h
      | flag r' => rw [hf r' hp]; simpa [hp] using h
      | go t u inner rest =>
        rw [hg t u inner rest hp]
        simp only [hp] at h ⊢
        cases hu : univ e with
        | none => simp [hu] at h
        | some x =>
          obtain ⟨ma, et, ec⟩ := x
          simp only [hu] at h ⊢
          cases hc : countElems false ma et ec inner.length inner with
          | err => simp [hc] at h
          | panic => simp [hc] at h
          | ok n =>
            rw [countElems_perm _ _ _ _ _ _ hc]
            simp only [hc] at h ⊢
            cases hpe : parseElems (fun b => parseField false e {} b) n inner with
            | ok vs =>
              rw [parseElems_perm _ (fun b => parseField true e {} b) (fun bs r hh => ih.1 {} bs r hh) n inner vs hpe]
              simpa [hpe] using h
            | err => simp [hpe] at h
            | panic => simp [hpe] at h
  | fnil =>
    refine ⟨fun p bs r h => by simp [parseField] at h, fun bs r h => ?_⟩
    simpa [parseFields] using h
  | fcons p s rest ihs ihr =>
    refine ⟨fun p bs r h => by simp [parseField] at h, fun bs r h => ?_⟩
    simp only [parseFields] at h ⊢
    cases h1 : parseField false s p bs with
    | ok x =>
      obtain ⟨v, r1⟩ := x
      rw [ihs.1 _ _ _ h1]
      simp only [h1] at h ⊢
      cases h2 : parseFields false rest r1 with
      | ok y => rw [ihr.2 _ _ h2]; simpa [h2] using h
      | err => simp [h2] at h
      | panic => simp [h2] at h
    | err => simp [h1] at h
    | panic => simp [h1] at h
  | _ =>
    refine ⟨?_, fun bs r h => by simp [parseFields] at h⟩
    intro p bs r h
    simp only [parseField] at h ⊢
    exact primField_perm _ p bs r h

/-- **C20, asn1 level**: strict success implies permissive success with the identical `(value, rest)`;
    for every Go type (schema), every field-parameter string and every input. -/
theorem perm_extends (s : Schema) (p : Params) (bs : Bytes) (r : Val × Bytes)
    (h : unmarshal false s p bs = .ok r) : unmarshal true s p bs = .ok r :=
  (perm_both s).1 p bs r h

/-- permissive mode "only turns some strict-mode failures into successes": it never fails where strict succeeds
    (contrapositive form) -/
theorem perm_err_strict_not_ok (s : Schema) (p : Params) (bs : Bytes)
    (h : unmarshal true s p bs = .err) : ∀ r, unmarshal false s p bs ≠ .ok r := by
  intro r hr
  rw [perm_extends s p bs r hr] at h
  cases h

/-- the extension is proper: some input is rejected strictly and accepted permissively (non-minimal length, `@` in a
    PrintableString, non-minimal INTEGER) — so `perm_extends` is not vacuous in either direction -/
theorem perm_strictly_more :
    unmarshal false .int64 {} [2, 0x81, 1, 5] = .err ∧ unmarshal true .int64 {} [2, 0x81, 1, 5] = .ok (.int 5, []) ∧
    unmarshal false .str {} [0x13, 1, 0x40] = .err ∧ unmarshal true .str {} [0x13, 1, 0x40] = .ok (.bytes [0x40], []) ∧
    unmarshal false .bigint {} [2, 2, 0, 5] = .err ∧ unmarshal true .bigint {} [2, 2, 0, 5] = .ok (.int 5, []) := by
  decide

example : unmarshal false (.struct (.fcons {} .int64 (.fcons {} .str .fnil))) {} [0x30, 6, 2, 1, 5, 0x13, 1, 0x41]
    = .ok (.vcons (.int 5) (.vcons (.bytes [0x41]) .vnil), []) := by decide

/-- **T1**: the uses of `AllowPermissiveParsing` found in the current tree are exactly the accounted ones. -/
theorem inventory_accounted : ZV.Generated.C20.permissiveSites = accountedSites := by decide

/-- the accounted list is the union of the three classes described in `ZV.Model.C20` -/
theorem accounted_split : ∀ x ∈ accountedSites, x ∈ modelledSites ∨ x ∈ timeSites ∨ x ∈ x509Sites := by decide

/-- every modelled asn1.go site is a strict-only guard (`if !AllowPermissiveParsing { reject }`) -/
theorem modelled_are_strict_guards : ∀ x ∈ modelledSites ++ timeSites, x.2.2.2 = "strict-guard" := by decide

theorem decl_is_default_false : ZV.Generated.C20.permissiveDecl = "var AllowPermissiveParsing = false" := by decide

end ZV.C20
