import ZV.Model.C13
import ZV.Proofs.C13
/-!
  C13 — OCSP messages round-trip and bind to the issuer's signature.

  All theorems are about `parse` (= `ParseResponseForCert` after ASN.1 decoding, see ZV.Model.C13) for an
  ARBITRARY signature primitive `verify` and arbitrary key / byte-string types; `parse … none issuer` is
  `ParseResponse`.  What the code guarantees, exactly:
  * with an issuer, acceptance implies the response signature verifies under the issuer key, or under the key
    of the FIRST embedded certificate whose own signature verifies under the issuer key.  Nothing else is
    checked about the embedded certificate (no OCSP-signing EKU, no validity period, no responder-id match);
    further embedded certificates are ignored;
  * with a nil issuer and no embedded certificate NO signature is checked at all (`accept_nil_issuer`).
-/
namespace ZV.C13
variable {K B : Type} (verify : K → Nat → B → B → Bool)

/-- **binding to the issuer's signature**: accepted with an issuer ⇒ the response signature verifies
    under the issuer, directly, or through the first embedded certificate, which the issuer signed. -/
theorem resp_accept_implies_sig (inp : Input K B) (cert : Option Int) (ik : K) (o : Out K B)
    (h : parse verify inp cert (some ik) = .ok o) :
    (inp.certs = [] ∧ o.certificate = none ∧ verify ik inp.alg inp.tbs inp.sig = true) ∨
    (∃ e rest, inp.certs = some e :: rest ∧ o.certificate = some e ∧
      verify e.key inp.alg inp.tbs inp.sig = true ∧ verify ik e.alg e.tbs e.sig = true) :=
  checkSigs_issuer verify inp ik o.certificate ((parse_ok_iff verify inp cert (some ik) o).mp h).sigs

/-- what is (not) guaranteed when the caller passes a nil issuer: only an embedded certificate, if any,
    is used; without one nothing is verified. -/
theorem accept_nil_issuer (inp : Input K B) (cert : Option Int) (o : Out K B)
    (h : parse verify inp cert none = .ok o) :
    (inp.certs = [] ∧ o.certificate = none) ∨
    (∃ e rest, inp.certs = some e :: rest ∧ o.certificate = some e ∧ verify e.key inp.alg inp.tbs inp.sig = true) :=
  checkSigs_nil_issuer verify inp o.certificate ((parse_ok_iff verify inp cert none o).mp h).sigs

/-- **tampering is rejected** (no embedded certificate): whatever bytes arrive as TBSResponseData and
    signature, if they do not verify under the issuer key the response is not accepted. -/
theorem tamper_rejected (inp : Input K B) (cert : Option Int) (ik : K)
    (hno : inp.certs = []) (hbad : verify ik inp.alg inp.tbs inp.sig = false) :
    ∀ o, parse verify inp cert (some ik) ≠ .ok o := by
  intro o h
  rcases resp_accept_implies_sig verify inp cert ik o h with ⟨_, _, hv⟩ | ⟨e, rest, hc, _⟩
  · rw [hbad] at hv; cases hv
  · rw [hno] at hc; cases hc

/-- **tampering is rejected** (embedded responder certificate): a response is refused when its signature
    does not verify under the embedded key, when the embedded certificate (TBS, signature) does not verify under
    the issuer key, or when the embedded certificate does not parse. -/
theorem tamper_rejected_embedded (inp : Input K B) (cert : Option Int) (ik : K) (c : Option (ECert K B))
    (rest : List (Option (ECert K B))) (hc : inp.certs = c :: rest)
    (hbad : ∀ e, c = some e → verify e.key inp.alg inp.tbs inp.sig = false ∨ verify ik e.alg e.tbs e.sig = false) :
    ∀ o, parse verify inp cert (some ik) ≠ .ok o := by
  intro o h
  rcases resp_accept_implies_sig verify inp cert ik o h with ⟨hn, _⟩ | ⟨e, rest', hc', _, hv1, hv2⟩
  · rw [hn] at hc; cases hc
  · rw [hc] at hc'
    injection hc' with h1 _
    rcases hbad e h1 with hb | hb
    · rw [hb] at hv1; cases hv1
    · rw [hb] at hv2; cases hv2

/-- only the first embedded certificate matters ("ignore all but the first"). -/
theorem embedded_rest_ignored (inp : Input K B) (cert : Option Int) (issuer : Option K)
    (c : Option (ECert K B)) (r1 r2 : List (Option (ECert K B))) :
    parse verify { inp with certs := c :: r1 } cert issuer = parse verify { inp with certs := c :: r2 } cert issuer := by
  simp [parse, checkSigs]

/-- **ParseResponseForCert returns the first single response whose serial matches** (and it is a
    member of the response, at the reported position). -/
theorem forcert_first_match (inp : Input K B) (s : Int) (issuer : Option K) (o : Out K B)
    (h : parse verify inp (some s) issuer = .ok o) :
    inp.singles[o.idx]? = some o.single ∧ o.single.serial = s ∧
    ∀ j, j < o.idx → ∀ y, inp.singles[j]? = some y → y.serial ≠ s := by
  have hs := ((parse_ok_iff verify inp (some s) issuer o).mp h).sel
  simp only [selectSingle] at hs
  split at hs
  · rename_i r hf
    cases hs
    have := findSerial_spec s inp.singles 0 o.idx o.single hf
    simpa using this.2
  · cases hs

/-- the Go `Responses[0]` is never evaluated on an empty slice. -/
theorem parse_never_panics (inp : Input K B) (cert : Option Int) (issuer : Option K) :
    parse verify inp cert issuer ≠ .panic := by
  unfold parse
  repeat' split
  all_goals first | (intro h; cases h; done) | skip
  rename_i hcnt _ hsel
  cases cert with
  | some s => simp only [selectSingle] at hsel; split at hsel <;> cases hsel
  | none =>
    cases hl : inp.singles with
    | nil => simp [hl] at hcnt
    | cons x t => simp [selectSingle, hl] at hsel

/-- no single response carries the certificate's serial ⇒ error. -/
theorem forcert_none_match (inp : Input K B) (s : Int) (issuer : Option K)
    (hnone : ∀ x ∈ inp.singles, x.serial ≠ s) : parse verify inp (some s) issuer = .err := by
  cases hp : parse verify inp (some s) issuer with
  | err => rfl
  | panic => exact absurd hp (parse_never_panics verify inp (some s) issuer)
  | ok o =>
    obtain ⟨hm, hser, _⟩ := forcert_first_match verify inp s issuer o hp
    exact absurd hser (hnone _ (List.mem_of_getElem? hm))

/-- `cert == nil` (ParseResponse): accepted only when the response holds exactly one single response, which
    is the one returned. -/
theorem nil_cert_single (inp : Input K B) (issuer : Option K) (o : Out K B)
    (h : parse verify inp none issuer = .ok o) : inp.singles = [o.single] ∧ o.idx = 0 := by
  have a := (parse_ok_iff verify inp none issuer o).mp h
  have hc := a.count
  have hs := a.sel
  simp only [selectSingle] at hs
  cases hl : inp.singles with
  | nil => simp [hl] at hs
  | cons x t =>
    simp only [hl, Res.ok.injEq, Prod.mk.injEq] at hs
    obtain ⟨hi, hx⟩ := hs
    simp only [hl, List.length_cons] at hc
    have ht : t = [] := by
      cases t with
      | nil => rfl
      | cons y u => simp at hc
    rw [ht, hx]
    exact ⟨rfl, hi.symm⟩

/-- status mapping: CHOICE arm [0] ⇒ good; else [2] ⇒ unknown; else revoked, carrying the decoded
    RevocationTime and reason; plus the other acceptance conditions of the selected single response. -/
theorem accepted_status (inp : Input K B) (cert : Option Int) (issuer : Option K) (o : Out K B)
    (h : parse verify inp cert issuer = .ok o) :
    inp.status = 0 ∧ inp.typeOk = true ∧ o.single.critical = false ∧ o.single.hash ≠ 0 ∧
    (o.status = .good ↔ o.single.good = true) ∧
    (o.status = .unknown ↔ (o.single.good = false ∧ o.single.unknown = true)) ∧
    (∀ t r, o.status = .revoked t r →
      o.single.good = false ∧ o.single.unknown = false ∧ t = o.single.revokedAt ∧ r = o.single.reason) := by
  have a := (parse_ok_iff verify inp cert issuer o).mp h
  refine ⟨a.status, a.type, a.crit, a.hash, ?_, ?_, ?_⟩
  all_goals (rw [a.st]; unfold statusOf)
  · cases o.single.good <;> cases o.single.unknown <;> simp
  · cases o.single.good <;> cases o.single.unknown <;> simp
  · intro t r
    cases o.single.good <;> cases o.single.unknown <;> simp
    intro h1 h2; exact ⟨h1.symm, h2.symm⟩

/-! ### CreateResponse → ParseResponse round trip (decoded level) -/

/-- **round trip**: for a correct signature scheme (`verify k _ m (sign k m)`), a response created from a
    template with status Good/Revoked/Unknown, a supported issuer hash, no critical extra extension, signed by
    the issuer itself or by an embedded responder whose certificate the issuer key verifies, parses back
    (with that issuer) to the same serial, times, status (revocation time and reason when revoked), hash,
    responder-by-name and embedded certificate. -/
theorem create_parse_roundtrip (encode : List Single → B) (sign : K → B → B)
    (hsig : ∀ k a m, verify k a m (sign k m) = true)
    (alg : Nat) (t : Template) (signer ik : K) (embed : Option (ECert K B))
    (hst : t.status = 0 ∨ t.status = 1 ∨ t.status = 2)
    (hh : hashSupported (if t.hash = 0 then 3 else t.hash) = true)
    (hcrit : t.critical = false)
    (hchain : (embed = none ∧ signer = ik) ∨
              (∃ e, embed = some e ∧ e.key = signer ∧ verify ik e.alg e.tbs e.sig = true)) :
    ∃ inp o, create encode sign true alg t signer embed = .ok inp ∧
      parse verify inp none (some ik) = .ok o ∧
      o.idx = 0 ∧ o.single.serial = t.serial ∧ o.single.thisUpdate = t.thisUpdate ∧
      o.single.nextUpdate = t.nextUpdate ∧ o.single.hash = (if t.hash = 0 then 3 else t.hash) ∧
      o.byName = true ∧ o.certificate = embed ∧
      o.status = (if t.status = 0 then .good else if t.status = 2 then .unknown
                  else .revoked t.revokedAt t.reason) := by
  have hne : (if t.hash = 0 then 3 else t.hash) ≠ 0 := by
    intro h0; rw [h0] at hh; simp [hashSupported] at hh
  rcases hchain with ⟨he, hk⟩ | ⟨e, he, hk, hv⟩
  · subst he; subst hk
    rcases hst with h | h | h <;>
      simp [create, createSingle, hh, parse, selectSingle, responder, checkSigs, hsig, hcrit, statusOf, h, hne]
  · subst he; subst hk
    rcases hst with h | h | h <;>
      simp [create, createSingle, hh, parse, selectSingle, responder, checkSigs, hsig, hv, hcrit, statusOf, h, hne]

/-- a quirk the round trip above excludes by `hst`: `CreateResponse` does not reject a template status
    outside {Good, Revoked, Unknown}; it emits a single response with no CHOICE arm, which parses as
    *revoked* at the zero time. -/
theorem create_status_out_of_domain (t : Template) (s : Single)
    (hst : t.status ≠ 0 ∧ t.status ≠ 1 ∧ t.status ≠ 2) (h : createSingle t = .ok s) :
    statusOf s = .revoked zeroTime 0 := by
  unfold createSingle at h
  cases hs : hashSupported (if t.hash = 0 then 3 else t.hash) with
  | false => simp [hs] at h
  | true =>
    simp [hs] at h
    rw [← h]
    simp [statusOf, hst.1, hst.2.1, hst.2.2]

/-- a response signed by a key other than the issuer's, with no embedded certificate, is refused whenever
    the scheme is unforgeable in the sense "a signature verifies only under the key that made it". -/
theorem create_wrong_signer_rejected (encode : List Single → B) (sign : K → B → B)
    (hunf : ∀ k k' a m, verify k a m (sign k' m) = true → k = k')
    (alg : Nat) (t : Template) (signer ik : K) (hne : ik ≠ signer) (inp : Input K B)
    (hc : create encode sign true alg t signer none = .ok inp) :
    ∀ cert o, parse verify inp cert (some ik) ≠ .ok o := by
  intro cert
  unfold create at hc
  split at hc
  · cases hc
  · cases hc
  · rename_i s _
    simp only [Bool.true_eq_false, if_false] at hc
    cases hc
    apply tamper_rejected verify _ cert ik rfl
    cases hv : verify ik alg (encode [s]) (sign signer (encode [s])) with
    | false => rfl
    | true => exact absurd (hunf ik signer alg _ hv) hne

/-! ### `signingParamsForPublicKey`: the digest that is signed is the digest the verifier recomputes -/

/-- every signable row of `signatureAlgorithmDetails` names the digest `CheckSignatureFromKey` uses for it
    (whole table, by evaluation). -/
theorem sigDetails_rows_consistent :
    ∀ r ∈ sigDetails, r.hash ≠ 0 → verifyHash r.algo = some r.hash := by decide

/-- **signing and verification agree on the digest**: whenever `signingParamsForPublicKey` accepts a signer key
    (RSA, P-224, P-256, P-384, P-521) and a requested algorithm (0 = default), the digest it has the key sign is
    exactly the digest `x509.CheckSignatureFromKey` computes for the algorithm identifier it writes into the
    response — so a response made by `CreateResponse` with a correct signer verifies under that signer's key
    (the hypothesis `hsig` of `create_parse_roundtrip`), for every key kind and every requested algorithm. -/
theorem signing_digest_is_verified_digest (k : KeyKind) (req h a : Nat)
    (hs : signingParams k req = .ok (h, a)) : verifyHash a = some h ∧ h ≠ 0 := by
  unfold signingParams at hs
  split at hs
  · cases hs
  · rename_i pka h0 a0 hd
    split at hs
    · cases hs
      exact defaultParams_consistent k pka h a hd
    · split at hs
      · cases hs
      · rename_i r hr
        split at hs
        · cases hs
        · split at hs
          · cases hs
          · rename_i hne
            cases hs
            exact ⟨sigDetails_rows_consistent r (findRow_mem req sigDetails r hr).1 hne, hne⟩

/-- an explicitly requested algorithm is the one written (never silently replaced), and it belongs to the
    signer key's family. -/
theorem signing_requested_is_written (k : KeyKind) (req h a : Nat) (hreq : req ≠ 0)
    (hs : signingParams k req = .ok (h, a)) :
    a = req ∧ ∃ pka h0 a0 r, defaultParams k = some (pka, h0, a0) ∧ r ∈ sigDetails ∧ r.algo = req ∧ r.pka = pka := by
  unfold signingParams at hs
  split at hs
  · cases hs
  · rename_i pka h0 a0 hd
    simp only [hreq, if_false] at hs
    split at hs
    · cases hs
    · rename_i r hr
      split at hs
      · cases hs
      · rename_i hp
        split at hs
        · cases hs
        · cases hs
          have hm := findRow_mem req sigDetails r hr
          exact ⟨hm.2, pka, h0, a0, r, hd, hm.1, hm.2, by simpa using hp⟩

/-- unknown curves and non-RSA/ECDSA keys (Ed25519 …) are refused whatever is requested. -/
theorem signing_refuses_other_keys (req : Nat) :
    signingParams .otherCurve req = .err ∧ signingParams .otherKey req = .err := by
  simp [signingParams, defaultParams]

/-! ### non-vacuity: concrete inputs satisfying the hypotheses -/
section examples
def exVerify (k : Nat) (_ : Nat) (m s : List Nat) : Bool := s == k :: m
def exSingle (ser : Int) (g : Bool) : Single :=
  { serial := ser, good := g, unknown := false, thisUpdate := 100, nextUpdate := 200, revokedAt := 50,
    reason := 1, hash := 3, critical := false }
def exInput (certs : List (Option (ECert Nat (List Nat)))) (sig : List Nat) : Input Nat (List Nat) :=
  { outerOk := true, status := 0, typeOk := true, basicOk := true, tbs := [9], sig := sig, alg := 0,
    responderTag := 1, responderOk := true, singles := [exSingle 5 true, exSingle 7 false, exSingle 7 true], certs := certs }
def exCert : ECert Nat (List Nat) := { key := 4, alg := 0, tbs := [8], sig := [1, 8] }

-- accepted directly under issuer key 1; second single response (first with serial 7) is returned
example : (parse exVerify (exInput [] [1, 9]) (some 7) (some 1)).map (fun o => (o.idx, o.status)) = .ok (1, .revoked 50 1) := by decide
-- accepted through the embedded certificate (key 4 signed by issuer 1)
example : (parse exVerify (exInput [some exCert] [4, 9]) (some 5) (some 1)).map (fun o => o.idx) = .ok 0 := by decide
-- tamper_rejected hypotheses: no embedded certificate, signature not by the issuer
example : (exInput [] [2, 9]).certs = [] ∧ exVerify 1 0 (exInput [] [2, 9]).tbs (exInput [] [2, 9]).sig = false := by decide
example : (parse exVerify (exInput [] [2, 9]) (some 7) (some 1)).map (fun o => o.idx) = .err := by decide
-- tamper_rejected_embedded: embedded certificate not signed by the issuer (issuer 3)
example : (parse exVerify (exInput [some exCert] [4, 9]) (some 5) (some 3)).map (fun o => o.idx) = .err := by decide
-- forcert_none_match
example : ∀ x ∈ (exInput [] [1, 9]).singles, x.serial ≠ 6 := by decide
-- nil_cert_single: three single responses and cert = nil ⇒ error
example : (parse exVerify (exInput [] [1, 9]) none (some 1)).map (fun o => o.idx) = .err := by decide
-- create_parse_roundtrip hypotheses with the toy scheme sign k m = k :: m
example : ∀ k a m, exVerify k a m ((fun k m => k :: m) k m) = true := by
  intro k a m; simp [exVerify]
example : ∀ k k' a m, exVerify k a m ((fun k m => k :: m) k' m) = true → k = k' := by
  intro k k' a m h; simp [exVerify] at h; exact h.symm
example : hashSupported (if (0 : Nat) = 0 then 3 else 0) = true := by decide
-- signing_digest_is_verified_digest / signing_requested_is_written: P-521 default, P-521 with ECDSA-SHA1 requested, RSA with an ECDSA algorithm
example : signingParams .p521 0 = .ok (7, 12) := by decide
example : signingParams .p521 9 = .ok (3, 9) := by decide
example : signingParams .p224 0 = .ok (5, 10) := by decide
example : signingParams .rsa 10 = .err := by decide
example : signingParams .rsa 1 = .err := by decide
end examples

end ZV.C13
