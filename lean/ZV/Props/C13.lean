import ZV.Model.C13
import ZV.Proofs.C13
import ZV.Proofs.C13Der
import ZV.Proofs.C13Shape
import ZV.Generated.C03
import ZV.Generated.C13
import ZV.Proofs.C13Enc
import ZV.Proofs.C13Time
/-!
  C13 — OCSP messages round-trip and bind to the issuer's signature.

  All theorems are about `parse` (= `ParseResponseForCert` after ASN.1 decoding, see ZV.Model.C13) for an
  ARBITRARY signature primitive `verify` and arbitrary key / byte-string types; `parse … none issuer` is
  `ParseResponse`.  What the code guarantees, exactly:
  * with an issuer, acceptance implies the response signature verifies under the issuer key, or under the key
    of the FIRST embedded certificate whose own signature verifies under the issuer key.  Nothing else is
    checked about the embedded certificate (no OCSP-signing EKU, no validity period, no responder-id match);
    further embedded certificates are ignored;
  * with a nil issuer and no embedded certificate NO signature is checked at all (`accept_nil_issuer`).
-/
namespace ZV.C13
variable {K B : Type} (verify : K → Nat → B → B → Bool)

/-- **binding to the issuer's signature**: accepted with an issuer ⇒ the response signature verifies
    under the issuer, directly, or through the first embedded certificate, which the issuer signed. -/
theorem resp_accept_implies_sig (inp : Input K B) (cert : Option Int) (ik : K) (o : Out K B)
    (h : parse verify inp cert (some ik) = .ok o) :
    (inp.certs = [] ∧ o.certificate = none ∧ verify ik inp.alg inp.tbs inp.sig = true) ∨
    (∃ e rest, inp.certs = some e :: rest ∧ o.certificate = some e ∧
      verify e.key inp.alg inp.tbs inp.sig = true ∧ verify ik e.alg e.tbs e.sig = true) :=
  checkSigs_issuer verify inp ik o.certificate ((parse_ok_iff verify inp cert (some ik) o).mp h).sigs

/-- what is (not) guaranteed when the caller passes a nil issuer: only an embedded certificate, if any,
    is used; without one nothing is verified. -/
theorem accept_nil_issuer (inp : Input K B) (cert : Option Int) (o : Out K B)
    (h : parse verify inp cert none = .ok o) :
    (inp.certs = [] ∧ o.certificate = none) ∨
    (∃ e rest, inp.certs = some e :: rest ∧ o.certificate = some e ∧ verify e.key inp.alg inp.tbs inp.sig = true) :=
  checkSigs_nil_issuer verify inp o.certificate ((parse_ok_iff verify inp cert none o).mp h).sigs

/-- **tampering is rejected** (no embedded certificate): whatever bytes arrive as TBSResponseData and
    signature, if they do not verify under the issuer key the response is not accepted. -/
theorem tamper_rejected (inp : Input K B) (cert : Option Int) (ik : K)
    (hno : inp.certs = []) (hbad : verify ik inp.alg inp.tbs inp.sig = false) :
    ∀ o, parse verify inp cert (some ik) ≠ .ok o := by
  intro o h
  rcases resp_accept_implies_sig verify inp cert ik o h with ⟨_, _, hv⟩ | ⟨e, rest, hc, _⟩
  · rw [hbad] at hv; cases hv
  · rw [hno] at hc; cases hc

/-- **tampering is rejected** (embedded responder certificate): a response is refused when its signature
    does not verify under the embedded key, when the embedded certificate (TBS, signature) does not verify under
    the issuer key, or when the embedded certificate does not parse. -/
theorem tamper_rejected_embedded (inp : Input K B) (cert : Option Int) (ik : K) (c : Option (ECert K B))
    (rest : List (Option (ECert K B))) (hc : inp.certs = c :: rest)
    (hbad : ∀ e, c = some e → verify e.key inp.alg inp.tbs inp.sig = false ∨ verify ik e.alg e.tbs e.sig = false) :
    ∀ o, parse verify inp cert (some ik) ≠ .ok o := by
  intro o h
  rcases resp_accept_implies_sig verify inp cert ik o h with ⟨hn, _⟩ | ⟨e, rest', hc', _, hv1, hv2⟩
  · rw [hn] at hc; cases hc
  · rw [hc] at hc'
    injection hc' with h1 _
    rcases hbad e h1 with hb | hb
    · rw [hb] at hv1; cases hv1
    · rw [hb] at hv2; cases hv2

/-- only the first embedded certificate matters ("ignore all but the first"). -/
theorem embedded_rest_ignored (inp : Input K B) (cert : Option Int) (issuer : Option K)
    (c : Option (ECert K B)) (r1 r2 : List (Option (ECert K B))) :
    parse verify { inp with certs := c :: r1 } cert issuer = parse verify { inp with certs := c :: r2 } cert issuer := by
  simp [parse, checkSigs]

/-- **ParseResponseForCert returns the first single response whose serial matches** (and it is a
    member of the response, at the reported position). -/
theorem forcert_first_match (inp : Input K B) (s : Int) (issuer : Option K) (o : Out K B)
    (h : parse verify inp (some s) issuer = .ok o) :
    inp.singles[o.idx]? = some o.single ∧ o.single.serial = s ∧
    ∀ j, j < o.idx → ∀ y, inp.singles[j]? = some y → y.serial ≠ s := by
  have hs := ((parse_ok_iff verify inp (some s) issuer o).mp h).sel
  simp only [selectSingle] at hs
  split at hs
  · rename_i r hf
    cases hs
    have := findSerial_spec s inp.singles 0 o.idx o.single hf
    simpa using this.2
  · cases hs

/-- the Go `Responses[0]` is never evaluated on an empty slice. -/
theorem parse_never_panics (inp : Input K B) (cert : Option Int) (issuer : Option K) :
    parse verify inp cert issuer ≠ .panic := by
  unfold parse
  repeat' split
  all_goals first | (intro h; cases h; done) | skip
  rename_i hcnt _ hsel
  cases cert with
  | some s => simp only [selectSingle] at hsel; split at hsel <;> cases hsel
  | none =>
    cases hl : inp.singles with
    | nil => simp [hl] at hcnt
    | cons x t => simp [selectSingle, hl] at hsel

/-- no single response carries the certificate's serial ⇒ error. -/
theorem forcert_none_match (inp : Input K B) (s : Int) (issuer : Option K)
    (hnone : ∀ x ∈ inp.singles, x.serial ≠ s) : parse verify inp (some s) issuer = .err := by
  cases hp : parse verify inp (some s) issuer with
  | err => rfl
  | panic => exact absurd hp (parse_never_panics verify inp (some s) issuer)
  | ok o =>
    obtain ⟨hm, hser, _⟩ := forcert_first_match verify inp s issuer o hp
    exact absurd hser (hnone _ (List.mem_of_getElem? hm))

/-- `cert == nil` (ParseResponse): accepted only when the response holds exactly one single response, which
    is the one returned. -/
theorem nil_cert_single (inp : Input K B) (issuer : Option K) (o : Out K B)
    (h : parse verify inp none issuer = .ok o) : inp.singles = [o.single] ∧ o.idx = 0 := by
  have a := (parse_ok_iff verify inp none issuer o).mp h
  have hc := a.count
  have hs := a.sel
  simp only [selectSingle] at hs
  cases hl : inp.singles with
  | nil => simp [hl] at hs
  | cons x t =>
    simp only [hl, Res.ok.injEq, Prod.mk.injEq] at hs
    obtain ⟨hi, hx⟩ := hs
    simp only [hl, List.length_cons] at hc
    have ht : t = [] := by
      cases t with
      | nil => rfl
      | cons y u => simp at hc
    rw [ht, hx]
    exact ⟨rfl, hi.symm⟩

/-- status mapping: CHOICE arm [0] ⇒ good; else [2] ⇒ unknown; else revoked, carrying the decoded
    RevocationTime and reason; plus the other acceptance conditions of the selected single response. -/
theorem accepted_status (inp : Input K B) (cert : Option Int) (issuer : Option K) (o : Out K B)
    (h : parse verify inp cert issuer = .ok o) :
    inp.status = 0 ∧ inp.typeOk = true ∧ o.single.critical = false ∧ o.single.hash ≠ 0 ∧
    (o.status = .good ↔ o.single.good = true) ∧
    (o.status = .unknown ↔ (o.single.good = false ∧ o.single.unknown = true)) ∧
    (∀ t r, o.status = .revoked t r →
      o.single.good = false ∧ o.single.unknown = false ∧ t = o.single.revokedAt ∧ r = o.single.reason) := by
  have a := (parse_ok_iff verify inp cert issuer o).mp h
  refine ⟨a.status, a.type, a.crit, a.hash, ?_, ?_, ?_⟩
  all_goals (rw [a.st]; unfold statusOf)
  · cases o.single.good <;> cases o.single.unknown <;> simp
  · cases o.single.good <;> cases o.single.unknown <;> simp
  · intro t r
    cases o.single.good <;> cases o.single.unknown <;> simp
    intro h1 h2; exact ⟨h1.symm, h2.symm⟩

/-! ### CreateResponse → ParseResponse round trip (decoded level) -/

/-- **round trip**: for a correct signature scheme (`verify k _ m (sign k m)`), a response created from a
    template with status Good/Revoked/Unknown, a supported issuer hash, no critical extra extension, signed by
    the issuer itself or by an embedded responder whose certificate the issuer key verifies, parses back
    (with that issuer) to the same serial, times, status (revocation time and reason when revoked), hash,
    responder-by-name and embedded certificate. -/
theorem create_parse_roundtrip (encode : List Single → B) (sign : K → B → B)
    (hsig : ∀ k a m, verify k a m (sign k m) = true)
    (alg : Nat) (t : Template) (signer ik : K) (embed : Option (ECert K B))
    (hst : t.status = 0 ∨ t.status = 1 ∨ t.status = 2)
    (hh : hashSupported (if t.hash = 0 then 3 else t.hash) = true)
    (hcrit : t.critical = false)
    (hchain : (embed = none ∧ signer = ik) ∨
              (∃ e, embed = some e ∧ e.key = signer ∧ verify ik e.alg e.tbs e.sig = true)) :
    ∃ inp o, create encode sign true alg t signer embed = .ok inp ∧
      parse verify inp none (some ik) = .ok o ∧
      o.idx = 0 ∧ o.single.serial = t.serial ∧ o.single.thisUpdate = t.thisUpdate ∧
      o.single.nextUpdate = t.nextUpdate ∧ o.single.hash = (if t.hash = 0 then 3 else t.hash) ∧
      o.byName = true ∧ o.certificate = embed ∧
      o.status = (if t.status = 0 then .good else if t.status = 2 then .unknown
                  else .revoked t.revokedAt t.reason) := by
  have hne : (if t.hash = 0 then 3 else t.hash) ≠ 0 := by
    intro h0; rw [h0] at hh; simp [hashSupported] at hh
  rcases hchain with ⟨he, hk⟩ | ⟨e, he, hk, hv⟩
  · subst he; subst hk
    rcases hst with h | h | h <;>
      simp [create, createSingle, hh, parse, selectSingle, responder, checkSigs, hsig, hcrit, statusOf, h, hne]
  · subst he; subst hk
    rcases hst with h | h | h <;>
      simp [create, createSingle, hh, parse, selectSingle, responder, checkSigs, hsig, hv, hcrit, statusOf, h, hne]

/-- a quirk the round trip above excludes by `hst`: `CreateResponse` does not reject a template status
    outside {Good, Revoked, Unknown}; it emits a single response with no CHOICE arm, which parses as
    *revoked* at the zero time. -/
theorem create_status_out_of_domain (t : Template) (s : Single)
    (hst : t.status ≠ 0 ∧ t.status ≠ 1 ∧ t.status ≠ 2) (h : createSingle t = .ok s) :
    statusOf s = .revoked zeroTime 0 := by
  unfold createSingle at h
  cases hs : hashSupported (if t.hash = 0 then 3 else t.hash) with
  | false => simp [hs] at h
  | true =>
    simp [hs] at h
    rw [← h]
    simp [statusOf, hst.1, hst.2.1, hst.2.2]

/-- a response signed by a key other than the issuer's, with no embedded certificate, is refused whenever
    the scheme is unforgeable in the sense "a signature verifies only under the key that made it". -/
theorem create_wrong_signer_rejected (encode : List Single → B) (sign : K → B → B)
    (hunf : ∀ k k' a m, verify k a m (sign k' m) = true → k = k')
    (alg : Nat) (t : Template) (signer ik : K) (hne : ik ≠ signer) (inp : Input K B)
    (hc : create encode sign true alg t signer none = .ok inp) :
    ∀ cert o, parse verify inp cert (some ik) ≠ .ok o := by
  intro cert
  unfold create at hc
  split at hc
  · cases hc
  · cases hc
  · rename_i s _
    simp only [Bool.true_eq_false, if_false] at hc
    cases hc
    apply tamper_rejected verify _ cert ik rfl
    cases hv : verify ik alg (encode [s]) (sign signer (encode [s])) with
    | false => rfl
    | true => exact absurd (hunf ik signer alg _ hv) hne

/-! ### `signingParamsForPublicKey`: the digest that is signed is the digest the verifier recomputes -/

/-- every signable row of `signatureAlgorithmDetails` names the digest `CheckSignatureFromKey` uses for it
    (whole table, by evaluation). -/
theorem sigDetails_rows_consistent :
    ∀ r ∈ sigDetails, r.hash ≠ 0 → verifyHash r.algo = some r.hash := by decide

/-- **signing and verification agree on the digest**: whenever `signingParamsForPublicKey` accepts a signer key
    (RSA, P-224, P-256, P-384, P-521) and a requested algorithm (0 = default), the digest it has the key sign is
    exactly the digest `x509.CheckSignatureFromKey` computes for the algorithm identifier it writes into the
    response — so a response made by `CreateResponse` with a correct signer verifies under that signer's key
    (the hypothesis `hsig` of `create_parse_roundtrip`), for every key kind and every requested algorithm. -/
theorem signing_digest_is_verified_digest (k : KeyKind) (req h a : Nat)
    (hs : signingParams k req = .ok (h, a)) : verifyHash a = some h ∧ h ≠ 0 := by
  unfold signingParams at hs
  split at hs
  · cases hs
  · rename_i pka h0 a0 hd
    split at hs
    · cases hs
      exact defaultParams_consistent k pka h a hd
    · split at hs
      · cases hs
      · rename_i r hr
        split at hs
        · cases hs
        · split at hs
          · cases hs
          · rename_i hne
            cases hs
            exact ⟨sigDetails_rows_consistent r (findRow_mem req sigDetails r hr).1 hne, hne⟩

/-- an explicitly requested algorithm is the one written (never silently replaced), and it belongs to the
    signer key's family. -/
theorem signing_requested_is_written (k : KeyKind) (req h a : Nat) (hreq : req ≠ 0)
    (hs : signingParams k req = .ok (h, a)) :
    a = req ∧ ∃ pka h0 a0 r, defaultParams k = some (pka, h0, a0) ∧ r ∈ sigDetails ∧ r.algo = req ∧ r.pka = pka := by
  unfold signingParams at hs
  split at hs
  · cases hs
  · rename_i pka h0 a0 hd
    simp only [hreq, if_false] at hs
    split at hs
    · cases hs
    · rename_i r hr
      split at hs
      · cases hs
      · rename_i hp
        split at hs
        · cases hs
        · cases hs
          have hm := findRow_mem req sigDetails r hr
          exact ⟨hm.2, pka, h0, a0, r, hd, hm.1, hm.2, by simpa using hp⟩

/-- unknown curves and non-RSA/ECDSA keys (Ed25519 …) are refused whatever is requested. -/
theorem signing_refuses_other_keys (req : Nat) :
    signingParams .otherCurve req = .err ∧ signingParams .otherKey req = .err := by
  simp [signingParams, defaultParams]

/-! ### non-vacuity: concrete inputs satisfying the hypotheses -/
section examples
def exVerify (k : Nat) (_ : Nat) (m s : List Nat) : Bool := s == k :: m
def exSingle (ser : Int) (g : Bool) : Single :=
  { serial := ser, good := g, unknown := false, thisUpdate := 100, nextUpdate := 200, revokedAt := 50,
    reason := 1, hash := 3, critical := false }
def exInput (certs : List (Option (ECert Nat (List Nat)))) (sig : List Nat) : Input Nat (List Nat) :=
  { outerOk := true, status := 0, typeOk := true, basicOk := true, tbs := [9], sig := sig, alg := 0,
    responderTag := 1, responderOk := true, singles := [exSingle 5 true, exSingle 7 false, exSingle 7 true], certs := certs }
def exCert : ECert Nat (List Nat) := { key := 4, alg := 0, tbs := [8], sig := [1, 8] }

-- accepted directly under issuer key 1; second single response (first with serial 7) is returned
example : (parse exVerify (exInput [] [1, 9]) (some 7) (some 1)).map (fun o => (o.idx, o.status)) = .ok (1, .revoked 50 1) := by decide
-- accepted through the embedded certificate (key 4 signed by issuer 1)
example : (parse exVerify (exInput [some exCert] [4, 9]) (some 5) (some 1)).map (fun o => o.idx) = .ok 0 := by decide
-- tamper_rejected hypotheses: no embedded certificate, signature not by the issuer
example : (exInput [] [2, 9]).certs = [] ∧ exVerify 1 0 (exInput [] [2, 9]).tbs (exInput [] [2, 9]).sig = false := by decide
example : (parse exVerify (exInput [] [2, 9]) (some 7) (some 1)).map (fun o => o.idx) = .err := by decide
-- tamper_rejected_embedded: embedded certificate not signed by the issuer (issuer 3)
example : (parse exVerify (exInput [some exCert] [4, 9]) (some 5) (some 3)).map (fun o => o.idx) = .err := by decide
-- forcert_none_match
example : ∀ x ∈ (exInput [] [1, 9]).singles, x.serial ≠ 6 := by decide
-- nil_cert_single: three single responses and cert = nil ⇒ error
example : (parse exVerify (exInput [] [1, 9]) none (some 1)).map (fun o => o.idx) = .err := by decide
-- create_parse_roundtrip hypotheses with the toy scheme sign k m = k :: m
example : ∀ k a m, exVerify k a m ((fun k m => k :: m) k m) = true := by
  intro k a m; simp [exVerify]
example : ∀ k k' a m, exVerify k a m ((fun k m => k :: m) k' m) = true → k = k' := by
  intro k k' a m h; simp [exVerify] at h; exact h.symm
example : hashSupported (if (0 : Nat) = 0 then 3 else 0) = true := by decide
-- signing_digest_is_verified_digest / signing_requested_is_written: P-521 default, P-521 with ECDSA-SHA1 requested, RSA with an ECDSA algorithm
example : signingParams .p521 0 = .ok (7, 12) := by decide
example : signingParams .p521 9 = .ok (3, 9) := by decide
example : signingParams .p224 0 = .ok (5, 10) := by decide
example : signingParams .rsa 10 = .err := by decide
example : signingParams .rsa 1 = .err := by decide
end examples

/-! ### the ASN.1 leg: ocsp.go's struct types as schema terms of the encoding/asn1 model (ZV.Model.C13Der)

  `marshalRequest` / `parseRequest` model `(*Request).Marshal` / `ParseRequest`, `decodeOuter` / `decodeBasic` the two
  `asn1.Unmarshal` calls of `ParseResponseForCert` with the read-out of every decoded field; all of them run the
  deep-embedded `Marshal` / `Unmarshal` of ZV.Model.C18 on the schema terms `ocspRequestS`, `responseASN1S`,
  `basicResponseRS`, … written after the struct tags of ocsp.go.  They are tied to the Go code by the T2 streams
  `c13 rq`, `c13 rqd`, `c13 der` (through a hook that unmarshals into the package's own unexported types) and `c13 time`. -/

/-- **OCSP requests round-trip** (instance of C18 `unmarshal_marshal` at `ocspRequestS`).  For every request with one of the
    four supported hashes — any NameHash / IssuerKeyHash bytes, any serial, negative and arbitrarily large included —
    `Request.Marshal` succeeds, and `ParseRequest` of the bytes (< 2^31 of them) returns exactly the request. -/
theorem ocsp_request_roundtrip (r : Req) (hh : hashSupported r.hash = true) :
    ∃ der, marshalRequest r = .ok der ∧ (der.length < 2147483648 → parseRequest der = .ok r) := by
  obtain ⟨oid, ho, hok, hinv⟩ := hashOID_supported r.hash hh
  obtain ⟨body, hb, _⟩ := C18.parseOID_makeOID oid hok
  obtain ⟨der, hder⟩ := marshal_reqVal oid body hb r
  refine ⟨der, by simp only [marshalRequest, ho]; exact hder [] (Or.inl rfl), fun hl => ?_⟩
  obtain ⟨hd, he⟩ := inDomain_reqVal oid hok r
  have hu := C18.unmarshal_marshal ocspRequestS {} (reqVal oid [5, 0] r) der [] hd he (hder [5, 0] (Or.inr rfl)) hl
    (fun _ => Or.inl rfl)
  rw [List.append_nil] at hu
  have hne : hashOfOID oid ≠ 0 := by
    rw [hinv]; simp only [hashSupported, decide_eq_true_eq] at hh; omega
  simp only [parseRequest, hu, List.length_nil, gt_iff_lt, Nat.lt_irrefl, if_false, reqOfVal_reqVal oid [5, 0] r hne, hinv]

/-- the value level of the same statement, in front of any `rest`: strict `Unmarshal(Marshal(req) ++ rest)` is the request
    value — with `Parameters.FullBytes` of the NULL filled in, which is all that distinguishes it from the value
    `Request.Marshal` builds (`RawValue{Tag: 5}`) — and exactly `rest`. -/
theorem ocsp_request_value_roundtrip (r : Req) (oid : List Int) (ho : hashOID r.hash = some oid) (der rest : Bytes)
    (hm : marshalRequest r = .ok der) (hl : der.length < 2147483648) :
    C18.unmarshal false ocspRequestS {} (der ++ rest) = .ok (reqVal oid [5, 0] r, rest) ∧
    C18.marshal ocspRequestS {} (reqVal oid [5, 0] r) = .ok der := by
  have hh : hashSupported r.hash = true := by
    cases hs : hashSupported r.hash with
    | true => rfl
    | false => rw [hashOID_unsupported r.hash hs] at ho; cases ho
  obtain ⟨oid', ho', hok, _⟩ := hashOID_supported r.hash hh
  rw [ho] at ho'; cases ho'
  obtain ⟨body, hb, _⟩ := C18.parseOID_makeOID oid hok
  obtain ⟨der', hder⟩ := marshal_reqVal oid body hb r
  have : der' = der := by
    have h1 := hder [] (Or.inl rfl)
    simp only [marshalRequest, ho] at hm
    rw [h1] at hm; cases hm; rfl
  subst this
  obtain ⟨hd, he⟩ := inDomain_reqVal oid hok r
  exact ⟨C18.unmarshal_marshal ocspRequestS {} (reqVal oid [5, 0] r) der' rest hd he (hder [5, 0] (Or.inr rfl)) hl
    (fun ho => by simp [ocspRequestS, C18.omitted, C18.isSliceKind] at ho), hder [5, 0] (Or.inr rfl)⟩

/-- `ParseRequest` refuses a marshalled request followed by anything ("trailing data in OCSP request") -/
theorem ocsp_request_trailing_rejected (r : Req) (der : Bytes) (x : UInt8) (rest : Bytes)
    (hm : marshalRequest r = .ok der) (hl : der.length < 2147483648) : parseRequest (der ++ x :: rest) = .err := by
  cases ho : hashOID r.hash with
  | none => simp [marshalRequest, ho] at hm
  | some oid =>
    have := (ocsp_request_value_roundtrip r oid ho der (x :: rest) hm hl).1
    simp [parseRequest, this]

/-- … and `Request.Marshal` refuses every other hash ("Unknown hash algorithm") -/
theorem ocsp_request_unsupported_hash (r : Req) (hh : hashSupported r.hash = false) : marshalRequest r = .err := by
  simp [marshalRequest, hashOID_unsupported r.hash hh]

/-- the hypotheses are satisfiable: SHA-256, empty and non-empty hashes, a negative serial -/
example : hashSupported ({ hash := 5, nameHash := [], keyHash := [1, 2, 3], serial := -129 } : Req).hash = true := by decide
example : parseRequest [0x30, 0x1d, 0x30, 0x1b, 0x30, 0x19, 0x30, 0x17, 0x30, 0x15, 0x30, 0x09, 0x06, 0x05, 0x2b, 0x0e, 0x03, 0x02, 0x1a, 0x05, 0x00,
      0x04, 0x01, 0xaa, 0x04, 0x02, 0xbb, 0xcc, 0x02, 0x01, 0x80] =
    .ok { hash := 3, nameHash := [0xaa], keyHash := [0xbb, 0xcc], serial := -128 } := by decide

/-- **no panic**: every `asn1.Unmarshal` the package performs — `responseASN1`, `basicResponse` (with the elements of
    `Responses` kept raw, with the TBS kept raw, and as one term), `singleResponse`, its field loops in front of and after
    `NextUpdate`, `ocspRequest` — on every byte string, strict and permissive mode (instances of C01
    `asn1_unmarshal_no_panic` / `asn1_fields_no_panic`) -/
theorem ocsp_asn1_no_panic (perm : Bool) (bs : Bytes) :
    C18.unmarshal perm responseASN1S {} bs ≠ .panic ∧ C18.unmarshal perm basicResponseS {} bs ≠ .panic ∧
    C18.unmarshal perm basicResponseRS {} bs ≠ .panic ∧ C18.unmarshal perm basicResponseRawS {} bs ≠ .panic ∧
    C18.unmarshal perm singleResponseS {} bs ≠ .panic ∧ C18.parseFields perm singlePrefixF bs ≠ .panic ∧
    C18.parseFields perm singleSuffixF bs ≠ .panic ∧ C18.unmarshal perm ocspRequestS {} bs ≠ .panic :=
  ⟨C01.asn1_unmarshal_no_panic _ _ _ _, C01.asn1_unmarshal_no_panic _ _ _ _, C01.asn1_unmarshal_no_panic _ _ _ _,
   C01.asn1_unmarshal_no_panic _ _ _ _, C01.asn1_unmarshal_no_panic _ _ _ _, C01.asn1_fields_no_panic _ _ _,
   C01.asn1_fields_no_panic _ _ _, C01.asn1_unmarshal_no_panic _ _ _ _⟩

/-- **never reads past the input**: what each of these calls returns as `rest` is a suffix of what it was given, and it
    is at least two bytes shorter than the input: none of these types is OPTIONAL at top level, so a whole element is
    consumed (instances of C01 `asn1_unmarshal_consumed` and of the in-bounds lemmas behind `asn1_element_in_bounds`) -/
theorem ocsp_asn1_consumed (perm : Bool) (s : C18.Schema)
    (hs : s = responseASN1S ∨ s = basicResponseS ∨ s = basicResponseRS ∨ s = basicResponseRawS ∨ s = singleResponseS ∨ s = ocspRequestS)
    (bs : Bytes) (v : C18.Val) (rest : Bytes) (h : C18.unmarshal perm s {} bs = .ok (v, rest)) :
    rest <:+ bs ∧ rest.length + 2 ≤ bs.length := by
  refine ⟨C01.asn1_unmarshal_consumed perm s {} bs v rest h, ?_⟩
  rcases hs with rfl | rfl | rfl | rfl | rfl | rfl <;> exact struct_top_adv perm _ bs v rest h

/-- the two decoding steps of `ParseResponseForCert` as modelled (`decodeOuter`, `decodeBasic`: schema decode + read-out of the
    fields + time contents + `NextUpdate`): the `rest` they hand to the `len(rest) > 0` tests is a suffix of their input, at
    least two bytes shorter -/
theorem ocsp_decode_rest (der : Bytes) :
    (∀ st ty body rest, decodeOuter der = .ok (st, ty, body, rest) → rest <:+ der ∧ rest.length + 2 ≤ der.length) ∧
    (∀ b rest, decodeBasic der = .ok (b, rest) → rest <:+ der ∧ rest.length + 2 ≤ der.length) :=
  ⟨fun st ty body rest h => decodeOuter_rest der st ty body rest h, fun b rest h => decodeBasic_rest der b rest h⟩

/-- **the decoder that is tied to the code reads `singleResponse` as its schema term does**, part 1: the field loop of the struct
    arm over the seven fields of `singleResponseS` IS the field loop over `singlePrefixF` (CertID, Good, Revoked, Unknown,
    ThisUpdate), then the [0] element, then the field loop over `singleSuffixF` (SingleExtensions), each on what the
    previous one left — the decomposition `decodeSingle` uses, with `parseNext` in place of the RawValue in the middle. -/
theorem ocsp_single_fields_split (perm : Bool) (bs : Bytes) :
    singleResponseS = .struct (fapp singlePrefixF (.fcons nextRawP .raw singleSuffixF)) ∧
    C18.parseFields perm (fapp singlePrefixF (.fcons nextRawP .raw singleSuffixF)) bs =
      (match C18.parseFields perm singlePrefixF bs with
       | .ok (pv, r1) =>
         (match C18.parseField perm .raw nextRawP r1 with
          | .ok (nv, r2) =>
            (match C18.parseFields perm singleSuffixF r2 with
             | .ok (sv, r3) => .ok (vapp pv (.vcons nv sv), r3)
             | .err => .err
             | .panic => .panic)
          | .err => .err
          | .panic => .panic)
       | .err => .err
       | .panic => .panic) := by
  refine ⟨rfl, ?_⟩
  rw [parseFields_fapp perm singlePrefixF _ (by decide) bs]
  cases h1 : C18.parseFields perm singlePrefixF bs with
  | err => rfl
  | panic => rfl
  | ok x =>
    obtain ⟨pv, r1⟩ := x
    simp only [C18.parseFields]
    cases h2 : C18.parseField perm .raw nextRawP r1 with
    | err => rfl
    | panic => rfl
    | ok y =>
      obtain ⟨nv, r2⟩ := y
      simp only
      cases h3 : C18.parseFields perm singleSuffixF r2 with
      | err => rfl
      | panic => rfl
      | ok z => obtain ⟨sv, r3⟩ := z; rfl

/-- part 2, **where a RawValue stands in for `NextUpdate time.Time "explicit,tag:0,optional"` exactly**: if the RawValue field
    of `singleResponseS` accepts the bytes and `nextOfRaw` of its value is not `inexact` — i.e. the field is absent, or the [0]
    wrapper is empty, or it holds exactly one primitive universal element with tag 23 / 24 — then the `time.Time` reading
    `parseNext` of the same bytes gives the same answer (absent / that time / error) and leaves the same bytes.  Outside
    (`inexact`: the wrapper holds something else, or more, or less) the Go decoder continues after the INNER element and
    the two readings differ — there `decodeSingle`, which uses `parseNext`, is the model, and it is what T2 compares. -/
theorem ocsp_next_update_raw_exact (bs : Bytes) (v : C18.Val) (r2 : Bytes)
    (h : C18.parseField false .raw nextRawP bs = .ok (v, r2)) :
    (nextOfRaw v = .absent → parseNext bs = .ok (none, bs) ∧ r2 = bs) ∧
    (∀ x, nextOfRaw v = .at x → parseNext bs = .ok (some x, r2)) ∧
    (nextOfRaw v = .err → parseNext bs = .err) := next_raw_exact bs v r2 h

/-- the three exact cases and the inexact one, on concrete bytes -/
example : (match C18.parseField false .raw nextRawP [0x30, 0x00] with | .ok (v, _) => some (nextOfRaw v) | _ => none) = some .absent ∧
    (match C18.parseField false .raw nextRawP [0xa0, 0x11, 0x18, 0x0f, 0x32, 0x30, 0x32, 0x34, 0x30, 0x31, 0x30, 0x31, 0x30, 0x30, 0x30, 0x30, 0x30, 0x30, 0x5a] with
      | .ok (v, _) => some (nextOfRaw v) | _ => none) = some (.at 1704067200) ∧
    (match C18.parseField false .raw nextRawP [0xa0, 0x00] with | .ok (v, _) => some (nextOfRaw v) | _ => none) = some .err ∧
    (match C18.parseField false .raw nextRawP [0xa0, 0x03, 0x02, 0x01, 0x05] with | .ok (v, _) => some (nextOfRaw v) | _ => none) = some .inexact := by
  decide

/-- `NextUpdate` (`parseNext`, the `time.Time` arm of `parseField` under `explicit,tag:0,optional`): the remainder is a
    suffix of the input, and an absent field consumes nothing -/
theorem ocsp_next_update_consumed (bs : Bytes) (x : Option Int) (r : Bytes) (h : parseNext bs = .ok (x, r)) :
    r <:+ bs ∧ (x = none → r = bs) := parseNext_consumed bs x r h

example : parseNext [0xa0, 0x11, 0x18, 0x0f, 0x32, 0x30, 0x32, 0x34, 0x30, 0x31, 0x30, 0x31, 0x30, 0x30, 0x30, 0x30, 0x30, 0x30, 0x5a, 0xa1] =
    .ok (some 1704067200, [0xa1]) := by decide
/-- the wrapper's own length is not looked at (here it claims 0x7f bytes), an inner element that is not a time means
    "absent", an empty wrapper is an error -/
example : parseNext [0xa0, 0x7f, 0x18, 0x0f, 0x32, 0x30, 0x32, 0x34, 0x30, 0x31, 0x30, 0x31, 0x30, 0x30, 0x30, 0x30, 0x30, 0x30, 0x5a] =
    .ok (some 1704067200, []) := by decide
example : parseNext [0xa0, 0x03, 0x02, 0x01, 0x05] = .ok (none, [0xa0, 0x03, 0x02, 0x01, 0x05]) ∧ parseNext [0xa0, 0x00] = .err := by
  decide

/-! ### ParseResponseForCert from the bytes

  `parseBytes verify tbsOf sigOf algOf certOf der cert issuer` = decode `der` (`decodeOuter`, `decodeBasic`), build the
  abstract input, run `parse`.  Abstract: the signature primitive `verify`, how byte strings are presented to it (`tbsOf`,
  `sigOf` = RightAlign of the BIT STRING, `algOf` = getSignatureAlgorithmFromOID) and `x509.ParseCertificate` (`certOf`).
  Tied to the real `ParseResponseForCert` by the T2 stream `c13 bytes` (the Lean side gets the DER, the
  x509.ParseCertificate outcome and the three signature-primitive bits, nothing else). -/

/-- **binding to the issuer's signature, from the bytes**: if `ParseResponseForCert(der, cert, issuer)` accepts with a
    non-nil issuer, then `der` is exactly one OCSPResponse (no trailing data) with status `successful` and type
    id-pkix-ocsp-basic, its `response` OCTET STRING is exactly one BasicOCSPResponse, and the signature BIT STRING of THAT
    element verifies, with the algorithm named by ITS signatureAlgorithm OID, over the bytes of ITS tbsResponseData element —
    under the issuer key, or under the key of the first embedded certificate, which the issuer signed. -/
theorem bytes_accept_implies_sig (tbsOf : Bytes → B) (sigOf : Bytes → Int → B) (algOf : List Int → Nat)
    (certOf : Bytes → Option (ECert K B)) (der : Bytes) (cert : Option Int) (ik : K) (o : Out K B)
    (h : parseBytes verify tbsOf sigOf algOf certOf der cert (some ik) = .ok (.ok o)) :
    ∃ body b, decodeOuter der = .ok (0, idBasic, body, []) ∧ decodeBasic body = .ok (b, []) ∧
      ((b.certs = [] ∧ o.certificate = none ∧
          verify ik (algOf b.sigOid) (tbsOf b.tbs) (sigOf b.sigBytes b.sigBitLen) = true) ∨
       (∃ c rest e, b.certs = c :: rest ∧ certOf c = some e ∧ o.certificate = some e ∧
          verify e.key (algOf b.sigOid) (tbsOf b.tbs) (sigOf b.sigBytes b.sigBitLen) = true ∧
          verify ik e.alg e.tbs e.sig = true)) := by
  unfold parseBytes at h
  split at h
  · rename_i inp hinp
    simp only [Dec.ok.injEq] at h
    have hacc := (parse_ok_iff verify inp cert (some ik) o).mp h
    obtain ⟨st, ty, body, b, hout, hbas, rfl⟩ := inputOfBytes_basic tbsOf sigOf algOf certOf der inp hinp hacc.basic
    have hst : st = 0 := by
      have := hacc.status
      simp only [fullInput] at this
      omega
    have hty : ty = idBasic := by
      have := hacc.type
      simpa [fullInput] using this
    subst hst; subst hty
    refine ⟨body, b, hout, hbas, ?_⟩
    rcases resp_accept_implies_sig verify _ cert ik o h with ⟨hn, hc, hv⟩ | ⟨e, rest, hc, ho, hv1, hv2⟩
    · left
      simp only [fullInput, List.map_eq_nil_iff] at hn hv
      exact ⟨hn, hc, hv⟩
    · right
      simp only [fullInput] at hc hv1
      cases hcs : b.certs with
      | nil => rw [hcs] at hc; simp at hc
      | cons c cs =>
        rw [hcs] at hc
        simp only [List.map_cons, List.cons.injEq] at hc
        exact ⟨c, cs, e, rfl, hc.1, ho, hv1, hv2⟩
  · cases h
  · cases h

/-- **tampering is rejected, from the bytes**: bytes whose decoded TBS / signature / algorithm do not verify under the issuer
    key (no embedded certificate) are never accepted — whatever else they contain -/
theorem bytes_tamper_rejected (tbsOf : Bytes → B) (sigOf : Bytes → Int → B) (algOf : List Int → Nat)
    (certOf : Bytes → Option (ECert K B)) (der body : Bytes) (b : DBasic) (cert : Option Int) (ik : K)
    (hout : decodeOuter der = .ok (0, idBasic, body, [])) (hbas : decodeBasic body = .ok (b, [])) (hno : b.certs = [])
    (hbad : verify ik (algOf b.sigOid) (tbsOf b.tbs) (sigOf b.sigBytes b.sigBitLen) = false) :
    ∀ o, parseBytes verify tbsOf sigOf algOf certOf der cert (some ik) ≠ .ok (.ok o) := by
  intro o h
  obtain ⟨body', b', hout', hbas', hsig⟩ := bytes_accept_implies_sig verify tbsOf sigOf algOf certOf der cert ik o h
  rw [hout] at hout'
  simp only [Dec.ok.injEq, Prod.mk.injEq, true_and] at hout'
  obtain ⟨rfl, _⟩ := hout'
  rw [hbas] at hbas'
  simp only [Dec.ok.injEq, Prod.mk.injEq, and_true] at hbas'
  subst hbas'
  rcases hsig with ⟨_, _, hv⟩ | ⟨c, rest, e, hc, _⟩
  · rw [hbad] at hv; cases hv
  · rw [hno] at hc; cases hc

/-- **typing of the asn1 decoder** (for every Go type of the model's type language, every parameter-less top-level call, both
    modes): what `Unmarshal` returns is a value of the shape of the type (`Pres`): integers for the integer kinds, a field list
    of the right length for a struct with every field either a present value of its type or — OPTIONAL fields only — the
    default the decoder assigns, a `vnil`-terminated list of element values for a slice, a RawValue with non-empty
    `FullBytes` for a RawValue.  (A statement about ZV.Model.C18 that C18 / C01 do not have; proved here because the OCSP
    read-out needs it.) -/
theorem ocsp_asn1_typed (perm : Bool) (s : C18.Schema) (bs : Bytes) (v : C18.Val) (rest : Bytes)
    (h : C18.unmarshal perm s {} bs = .ok (v, rest)) : Pres s v := unmarshal_pres perm s bs v rest h

/-- **the read-out is total**: the values the two decoding steps get from `Unmarshal` always have the shape the read-out
    expects — `decodeOuter` / `decodeBasic` answer a decoded structure or `err`, never `shape`, on every byte string; hence the
    abstract input of the decision model is always built and `parseBytes` always returns a decision of `parse` (which never
    panics: `parse_never_panics`) -/
theorem ocsp_decode_total (der : Bytes) :
    ¬ (decodeOuter der matches .shape) ∧ ¬ (decodeBasic der matches .shape) :=
  ⟨decodeOuter_no_shape der, decodeBasic_no_shape der⟩

/-- from the bytes the model always returns a decision of `parse`, and that decision is never a panic -/
theorem bytes_total (tbsOf : Bytes → B) (sigOf : Bytes → Int → B) (algOf : List Int → Nat)
    (certOf : Bytes → Option (ECert K B)) (der : Bytes) (cert : Option Int) (issuer : Option K) :
    ∃ r, parseBytes verify tbsOf sigOf algOf certOf der cert issuer = .ok r ∧ r ≠ .panic := by
  obtain ⟨inp, hinp⟩ := inputOfBytes_no_shape tbsOf sigOf algOf certOf der
  exact ⟨parse verify inp cert issuer, by simp [parseBytes, hinp], parse_never_panics verify inp cert issuer⟩

/-- on concrete bytes: an error response (status 1, no responseBytes) is decoded and refused by the status test -/
example : (parseBytes (fun (_ : Nat) _ (_ : Nat) _ => true) (fun _ => 0) (fun _ _ => 0) (fun _ => 0) (fun _ => (none : Option (ECert Nat Nat)))
    [0x30, 0x03, 0x0a, 0x01, 0x01] none none matches .ok .err) = true := by decide

/-! ### T1: the tables of the model against the tables GENERATED from the working tree

  `ZV.Gen.C03.ocspDetailsOid` / `ocspSignDefaults` / `verifyHash` (go/ast + run time, extractor go/extract/c03) and
  `ZV.Gen.C13.hashOIDs` / `idPKIXOCSPBasic` (run time through the hook, extractor go/extract/c13) are rewritten from the
  zcrypto working tree on every check run; the theorems below re-check the model's tables against them, so an edited row
  of `signatureAlgorithmDetails`, `hashOIDs`, an arm of the type / curve switch of `signingParamsForPublicKey` or of the
  digest switch of `x509.CheckSignatureFromKey` fails a named theorem. -/

/-- `x509.PublicKeyAlgorithm` number of the generated key-algorithm name -/
def pkaNum (s : String) : Nat :=
  if s = "RSA" then 1 else if s = "DSA" then 2 else if s = "ECDSA" then 3 else if s = "Ed25519" then 4 else 0

/-- the model's `sigDetails` IS the generated `signatureAlgorithmDetails` of ocsp.go, row for row, in order -/
theorem sigDetails_generated :
    sigDetails = Gen.C03.ocspDetailsOid.map (fun r => ⟨r.1, pkaNum r.2.2.1, r.2.2.2⟩) := by decide

/-- the OID column: pairwise distinct OIDs and pairwise distinct `algo`s, so `getSignatureAlgorithmFromOID` (first row with
    the OID) maps the OID written by `signingParamsForPublicKey` for a row back to that row's `algo` — the model's
    representation of the OID column by `algo` loses nothing -/
theorem sigDetails_oid_column_injective :
    (Gen.C03.ocspDetailsOid.map (fun r => r.2.1)).Nodup ∧ (Gen.C03.ocspDetailsOid.map (fun r => r.1)).Nodup := by decide

/-- the Go type / curve names of the arms of the type switch -/
def kindName : KeyKind → Option String
  | .rsa => some "*rsa.PublicKey"
  | .p224 => some "*ecdsa.PublicKey:P224"
  | .p256 => some "*ecdsa.PublicKey:P256"
  | .p384 => some "*ecdsa.PublicKey:P384"
  | .p521 => some "*ecdsa.PublicKey:P521"
  | _ => none

/-- the generated arm for a Go type name: (public-key algorithm, default digest, `algo` of the default OID) -/
def genDefault (n : String) : Option (Nat × Nat × Nat) :=
  match Gen.C03.ocspSignDefaults.find? (fun r => r.1 == n) with
  | none => none
  | some r =>
    match Gen.C03.ocspDetailsOid.find? (fun d => d.2.1 == r.2.2.2.1) with
    | none => none
    | some d => some (pkaNum r.2.1, r.2.2.1, d.1)

/-- the model's `defaultParams` IS the generated type / curve switch of ocsp `signingParamsForPublicKey` (every arm of the
    model is an arm of the code with the same key algorithm, digest and OID; the code has no further arm) -/
theorem defaultParams_generated :
    (∀ k, defaultParams k = (match kindName k with | some n => genDefault n | none => none)) ∧
    Gen.C03.ocspSignDefaults.map (fun r => r.1) = [KeyKind.rsa, .p224, .p256, .p384, .p521].filterMap kindName := by
  refine ⟨fun k => ?_, by decide⟩
  cases k <;> decide

/-- NULL parameters are written exactly for the RSA arm (what `createDER` passes as `nullParams`) -/
theorem defaultParams_null_generated :
    Gen.C03.ocspSignDefaults.map (fun r => (r.2.1, r.2.2.2.2.1)) =
      [("RSA", true), ("ECDSA", false), ("ECDSA", false), ("ECDSA", false), ("ECDSA", false)] := by decide

/-- the model's `verifyHash` IS the generated first switch of `x509.CheckSignatureFromKey`, for EVERY algorithm number
    (insecure and unsupported algorithms both have no digest) -/
theorem verifyHash_generated (a : Nat) :
    verifyHash a = (match Gen.C03.verifyHash.lookup a with | some h => h | none => none) := by
  by_cases h : a ≤ 16
  · have : ∀ a, a ≤ 16 → verifyHash a = (match Gen.C03.verifyHash.lookup a with | some h => h | none => none) := by decide
    exact this a h
  · have e : ∀ n : Nat, n ≤ 16 → (a == n) = false := fun n hn => by simp; omega
    simp only [verifyHash, Gen.C03.verifyHash, List.lookup, e, Nat.le_refl, Nat.reduceLeDiff]
    repeat (first | rw [if_neg (by omega)] | rfl)

/-- the model's `hashOID` IS the generated `hashOIDs` map, for EVERY hash number; `hashSupported` is its key set and
    `hashOfOID` its inverse -/
theorem hashOID_generated (h : Nat) :
    hashOID h = Gen.C13.hashOIDs.lookup h ∧ hashSupported h = (Gen.C13.hashOIDs.lookup h).isSome := by
  by_cases hh : h ≤ 7
  · have : ∀ h, h ≤ 7 → (hashOID h = Gen.C13.hashOIDs.lookup h ∧ hashSupported h = (Gen.C13.hashOIDs.lookup h).isSome) := by
      decide
    exact this h hh
  · have e : ∀ n : Nat, n ≤ 7 → (h == n) = false := fun n hn => by simp; omega
    simp only [hashOID, hashSupported, Gen.C13.hashOIDs, List.lookup, e, Nat.le_refl, Nat.reduceLeDiff]
    refine ⟨?_, ?_⟩
    · repeat (first | rw [if_neg (by omega)] | rfl)
    · simp; omega

theorem hashOfOID_generated :
    (∀ r ∈ Gen.C13.hashOIDs, hashOfOID r.2 = r.1 ∧ r.1 ≠ 0) ∧
    (∀ o, hashOfOID o ≠ 0 → (hashOfOID o, o) ∈ Gen.C13.hashOIDs) := by
  refine ⟨by decide, fun o ho => ?_⟩
  unfold hashOfOID at ho ⊢
  split_ifs at ho ⊢ with h1 h2 h3 h4 <;> first | (subst_vars; decide) | exact absurd rfl ho

/-- `idBasic` IS the generated `idPKIXOCSPBasic` -/
theorem idBasic_generated : idBasic = Gen.C13.idPKIXOCSPBasic := by decide

/-! ### the ENCODING side of `CreateResponse` (ZV.Model.C13Enc; tied to the real function byte for byte by T2 `c13 enc`) -/

/-- **times, to the second**: for every instant whose UTC year is 0..9999, the element `CreateResponse` writes for a
    `time.Time "generalized"` field (`ProducedAt`, `ThisUpdate`, `RevocationTime`, and inside `[0]` `NextUpdate`) is a
    primitive universal GeneralizedTime whose content `encoding/asn1`'s `parseGeneralizedTime` (ZV.Model.Time, strict or
    permissive) reads back as exactly that instant, in UTC. -/
theorem ocsp_time_roundtrip (perm : Bool) (u : Int) (hy0 : 0 ≤ (utcTime u).year) (hy1 : (utcTime u).year ≤ 9999) :
    ∃ body, timeRaw u = .ok (mkRaw 0 24 false body) ∧
      ZV.Time.EA.parseTimeBody perm 24 body = .ok (utcTime u) := by
  refine ⟨ZV.Time.genText (utcTime u), ?_, ?_⟩
  · unfold timeRaw
    rw [makeTimeBody_gen, timeTag_gen, ZV.Time.appendGeneralizedTime_eq (utcTime u) hy0 hy1]
  · have := ZV.Time.parseGeneralizedTime_genText perm (utcTime u) hy0 hy1 (by simp [utcTime]) (by simp [utcTime])
    rw [readBack_utcTime] at this
    unfold ZV.Time.EA.parseTimeBody
    rw [if_neg (by omega)]
    exact this

/-- … and outside those years `CreateResponse` fails (asn1.Marshal: "cannot represent time as GeneralizedTime") -/
theorem ocsp_time_out_of_range (u : Int) (h : (utcTime u).year < 0 ∨ (utcTime u).year > 9999) : timeRaw u = .err := by
  unfold timeRaw
  rw [makeTimeBody_gen, ZV.Time.appendGeneralizedTime_err (utcTime u) h]

/-- `NextUpdate`: `time.Time{}` is left out, everything else is `[0] { GeneralizedTime }` -/
theorem ocsp_next_absent : nextRaw zeroTime = .ok (C18.zeroVal .raw) := by simp [nextRaw]

/-- the status arms written by `CreateResponse` are exactly the template's status: `Good` ⇒ [0], `Unknown` ⇒ [2], and
    the revoked arm [1] is present iff the status is `Revoked` and (RevokedAt, reason) is not the zero pair; any other
    status writes NO arm (and reads back as `Revoked` at `time.Time{}` — `create_status_out_of_domain`) -/
theorem ocsp_revoked_arm (t : RTemplate) (h : t.status ≠ 1 ∨ (t.revokedAt = zeroTime ∧ t.reason = 0)) :
    revokedVal t = .ok (C18.zeroVal revokedInfoS) := by
  have : ¬ (t.status = 1 ∧ ¬ (t.revokedAt = zeroTime ∧ t.reason = 0)) := by
    rcases h with h | h
    · exact fun x => h x.1
    · exact fun x => x.2 h
  unfold revokedVal
  rw [if_neg this]

/-- `CreateResponse` refuses exactly the issuer hashes outside the GENERATED `hashOIDs` (0 standing for SHA-1) -/
theorem ocsp_create_unsupported_hash (t : RTemplate) (nh kh : Bytes)
    (h : Gen.C13.hashOIDs.lookup (if t.hash = 0 then 3 else t.hash) = none) : singleVal t nh kh = .err := by
  have := (hashOID_generated (if t.hash = 0 then 3 else t.hash)).1
  simp only [singleVal, this, h]

/-- the algorithm identifier written is the GENERATED OID of the algorithm `signingParams` answers with: for every key
    kind and requested algorithm that is accepted, that OID exists, and `getSignatureAlgorithmFromOID` (first row with
    the OID) maps it back to the same algorithm number -/
theorem ocsp_sig_oid_written (k : KeyKind) (req h a : Nat) (hs : signingParams k req = .ok (h, a)) :
    ∃ oid, sigOidOf a = some oid ∧
      (Gen.C03.ocspDetailsOid.find? (fun r => r.2.1.map Int.ofNat == oid)).map (fun r => r.1) = some a := by
  have hall : ∀ a, a ≤ 16 → (1 ≤ a ∧ a ≤ 12) → ∃ oid, sigOidOf a = some oid ∧
      (Gen.C03.ocspDetailsOid.find? (fun r => r.2.1.map Int.ofNat == oid)).map (fun r => r.1) = some a := by decide
  have hr : 1 ≤ a ∧ a ≤ 12 := by
    have hrow : ∀ r ∈ sigDetails, 1 ≤ r.algo ∧ r.algo ≤ 12 := by decide
    have hfind : ∀ (l : List SigRow) (q : Nat) (r : SigRow), findRow q l = some r → r ∈ l := by
      intro l q r
      induction l with
      | nil => simp [findRow]
      | cons x xs ih =>
        simp only [findRow]
        split
        · intro e; cases e; simp
        · intro e; exact List.mem_cons_of_mem _ (ih e)
    unfold signingParams at hs
    cases k <;> simp only [defaultParams] at hs <;> try (cases hs)
    all_goals
      split at hs
      · cases hs; omega
      · split at hs
        · cases hs
        · rename_i r hf
          split at hs
          · cases hs
          · split at hs
            · cases hs
            · cases hs; exact hrow r (hfind _ _ _ hf)
  exact hall a (by omega) hr

/-- the hypotheses of the encoding theorems are satisfiable -/
example : 0 ≤ (utcTime 1700000000).year ∧ (utcTime 1700000000).year ≤ 9999 := by decide
example : (utcTime 253402300800).year > 9999 := by decide
example : (RTemplate.mk 0 5 0 0 7 1 0 none).status ≠ 1 ∨ ((7 : Int) = zeroTime ∧ (1 : Int) = 0) := by decide
example : Gen.C13.hashOIDs.lookup (if (4 : Nat) = 0 then 3 else 4) = none := by decide
example : signingParams .p384 0 = .ok (6, 11) := by decide
/-- on concrete values: a revoked response with reason 1, SHA-256 issuer hash, one extension, P-256 signer: the bytes exist -/
example : (createResponse (RTemplate.mk 1 (-129) 1700000000 zeroTime 1600000000 1 5 (some [([2, 5, 29, 20], false, [1])])) [1, 2] [3] [0x30, 0x00] 946684800 .p256 0 [9, 9] none matches .ok _) = true := by decide

/-! ### the time leg through the decoder that is tied to the code (`C13Der.parseTime` / `timeOfRaw`) -/

/-- **`C13Der.parseTime` agrees with ZV.Model.Time on the image of the encoder**: for every instant with UTC year 0..9999,
    the content `appendGeneralizedTime` writes is read by `parseTime 24` (the decoder of `decodeBasic`, T2 `c13 time`) and by
    `EA.parseGeneralizedTime` (ZV.Model.Time) as the same instant -/
theorem ocsp_parseTime_agrees (perm : Bool) (u : Int) (hy0 : 0 ≤ (utcTime u).year) (hy1 : (utcTime u).year ≤ 9999) :
    ∃ body, ZV.Time.EA.appendGeneralizedTime (utcTime u) = .ok body ∧ parseTime 24 body = .ok u ∧
      ZV.Time.EA.parseGeneralizedTime perm body = .ok (utcTime u) := by
  refine ⟨ZV.Time.genText (utcTime u), ZV.Time.appendGeneralizedTime_eq _ hy0 hy1, parseTime_genText u hy0 hy1, ?_⟩
  have := ZV.Time.parseGeneralizedTime_genText perm (utcTime u) hy0 hy1 (by simp [utcTime]) (by simp [utcTime])
  rw [readBack_utcTime] at this
  exact this

/-- **times, to the second, through the response decoder**: the element `CreateResponse` writes for `ProducedAt` /
    `ThisUpdate` / `RevocationTime` is read by `timeOfRaw` — what `decodeBasic` / `decodeSingle` / `revokedOf` apply to those
    fields — as exactly the template's Unix seconds, whatever `FullBytes` the decoder attached -/
theorem ocsp_time_decode_roundtrip (u : Int) (hy0 : 0 ≤ (utcTime u).year) (hy1 : (utcTime u).year ≤ 9999) :
    ∃ body full, timeRaw u = .ok (.raw 0 24 false body full) ∧ ∀ full', timeOfRaw (.raw 0 24 false body full') = .ok u := by
  refine ⟨ZV.Time.genText (utcTime u), C18.appendTL { cls := 0, tag := 24, len := (ZV.Time.genText (utcTime u)).length, compound := false } ++ ZV.Time.genText (utcTime u), ?_, fun full' => ?_⟩
  · unfold timeRaw
    rw [makeTimeBody_gen, timeTag_gen, ZV.Time.appendGeneralizedTime_eq (utcTime u) hy0 hy1]
    rfl
  · show (if (0 : Nat) = 0 ∧ ((24 : Nat) = 23 ∨ (24 : Nat) = 24) ∧ false = false then parseTime 24 (ZV.Time.genText (utcTime u)) else Res.err) = .ok u
    rw [if_pos ⟨rfl, Or.inr rfl, rfl⟩]
    exact parseTime_genText u hy0 hy1

end ZV.C13
