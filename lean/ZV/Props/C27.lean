import ZV.Model.C27
import ZV.Model.C27Sel
import ZV.Proofs.C27Sel
/-!
  C27 — TLS peers authenticate each other as configured: the property's sentences, proved for every configuration
  of the acceptance-decision model (all key exchanges × all `ClientAuthType`s × every combination of the abstract
  facts about what the peer presented).  The tie to the code is the T2/T3 scenario matrix of real handshakes.
-/
namespace ZV.C27

/-- With verification enabled the client accepts only a server whose chain verifies and which proves possession of
    the leaf key (for the signed key exchanges and TLS 1.3: by an intact signature). -/
theorem client_completes_implies (kex : Kex) (c : ServerCred) (h : clientAccepts false kex c = true) :
    c.chainOK = true ∧ c.keyMatches = true ∧ (kex ≠ .rsa → c.sigIntact = true) := by
  cases kex <;> cases c with
  | mk a b d => cases a <;> cases b <;> cases d <;> simp_all [clientAccepts, possession]

/-- … and nothing more is required: a trusted, key-holding server with an intact signature is accepted. -/
theorem client_accepts_good (skip : Bool) (kex : Kex) : clientAccepts skip kex ⟨true, true, true⟩ = true := by
  cases skip <;> cases kex <;> rfl

/-- Each "bad" server scenario of the property (untrusted / expired / misnamed = chain does not verify; substituted
    key; corrupted signature) makes a verifying client refuse. -/
theorem bad_server_rejected (kex : Kex) (c : ServerCred)
    (hbad : c.chainOK = false ∨ c.keyMatches = false ∨ (kex ≠ .rsa ∧ c.sigIntact = false)) :
    clientAccepts false kex c = false := by
  cases kex <;> cases c with
  | mk a b d => cases a <;> cases b <;> cases d <;> simp_all [clientAccepts, possession]

/-- InsecureSkipVerify drops the chain check but not the possession proof, except for DHE (as coded). -/
theorem skipverify_still_needs_possession (kex : Kex) (c : ServerCred) (hk : kex ≠ .dhe)
    (h : clientAccepts true kex c = true) : c.keyMatches = true := by
  cases kex <;> cases c with
  | mk a b d => cases a <;> cases b <;> cases d <;> simp_all [clientAccepts, possession]

/-- `clientauth_table`, first sentence: a server REQUIRING client certificates completes only with a client that
    presents a certificate and proves possession of its key. -/
theorem clientauth_required_possession (m : Mode) (o : ClientOffer) (hreq : requiresClientCert m = true)
    (h : serverAccepts m o = true) : o.hasCert = true ∧ o.cvValid = true := by
  cases m <;> cases o with
  | mk a b d => cases a <;> cases b <;> cases d <;> simp_all [serverAccepts, requiresClientCert, Mode.toNat]

/-- second sentence: when verification is requested (VerifyClientCertIfGiven, RequireAndVerifyClientCert) a presented
    certificate is accepted only if its chain verifies — and always only with a valid CertificateVerify. -/
theorem clientauth_verify_chain (m : Mode) (o : ClientOffer) (hm : m = .verifyIfGiven ∨ m = .requireAndVerify)
    (hc : o.hasCert = true) (h : serverAccepts m o = true) : o.chainOK = true ∧ o.cvValid = true := by
  rcases hm with rfl | rfl <;> cases o with
  | mk a b d => cases a <;> cases b <;> cases d <;> simp_all [serverAccepts, requiresClientCert, Mode.toNat]

/-- in every mode a presented certificate needs a valid CertificateVerify (whenever certificates are requested) -/
theorem clientauth_cert_needs_cv (m : Mode) (o : ClientOffer) (hm : m ≠ .noClientCert) (hc : o.hasCert = true)
    (h : serverAccepts m o = true) : o.cvValid = true := by
  cases m <;> cases o with
  | mk a b d => cases a <;> cases b <;> cases d <;> simp_all [serverAccepts, requiresClientCert, Mode.toNat]

/-- the full decision table, mode by mode (completeness: nothing else is rejected) -/
theorem clientauth_table (o : ClientOffer) :
    serverAccepts .noClientCert o = true ∧
    serverAccepts .request o = (!o.hasCert || o.cvValid) ∧
    serverAccepts .requireAny o = (o.hasCert && o.cvValid) ∧
    serverAccepts .verifyIfGiven o = (!o.hasCert || (o.chainOK && o.cvValid)) ∧
    serverAccepts .requireAndVerify o = (o.hasCert && o.chainOK && o.cvValid) := by
  cases o with
  | mk a b d => cases a <;> cases b <;> cases d <;> simp [serverAccepts, requiresClientCert, Mode.toNat]

/-- RequireAndVerifyClientCert: the server side of a completed handshake has all three facts; and the server never
    completes unless the client also accepted the server. -/
theorem mutual_auth_complete (tls13 : Bool) (kex : Kex) (c : ServerCred) (o : ClientOffer)
    (h : (outcome tls13 (clientAccepts false kex c) (serverAccepts .requireAndVerify o)).2 = true) :
    c.chainOK = true ∧ c.keyMatches = true ∧ o.hasCert = true ∧ o.chainOK = true ∧ o.cvValid = true := by
  cases tls13 <;> cases kex <;> cases c with
  | mk a b d => cases o with
    | mk e f g =>
      cases a <;> cases b <;> cases d <;> cases e <;> cases f <;> cases g <;>
        simp_all [outcome, clientAccepts, possession, serverAccepts, requiresClientCert, Mode.toNat]

example : clientAccepts false .ecdhe ⟨true, true, true⟩ = true := rfl
example : serverAccepts .requireAndVerify ⟨true, true, true⟩ = true := rfl
example : requiresClientCert .requireAny = true := rfl

/-! ## resumption -/

/-- The guard of `loadSession`: a VERIFYING configuration offers a cached session only if that session carries verified
    chains, its leaf is not expired now and lists the configured ServerName. -/
theorem resumption_needs_verified_chains (s : Session) (notExpired named : Bool)
    (h : sessionUsable false s notExpired named = true) :
    s.hasVerifiedChains = true ∧ notExpired = true ∧ named = true := by
  cases s with
  | mk v => cases v <;> cases notExpired <;> cases named <;> simp_all [sessionUsable]

/-- A session made against a server whose chain did not verify for the configuration that made it (e.g. under
    InsecureSkipVerify) is never used by a verifying configuration: the second connection is decided exactly like a
    fresh one. -/
theorem unverified_session_not_resumed (kex : Kex) (first second : ChainFacts) (c : ServerCred)
    (h : (first.trusted && first.fresh) = false) :
    clientAcceptsWithCache false kex (some (sessionOf first)) second c = clientAccepts false kex c := by
  simp [clientAcceptsWithCache, sessionOf, sessionUsable, h]

/-- Soundness of client-side resumption for configurations that trust the same roots: whatever configuration (verifying
    or not, other name, other time) filled the cache, a verifying configuration completes the second connection only if
    the server's chain verifies for ITS roots, time and name.
    -- FULL: the same without `hroots`.  It does not hold for the code as it is: a session verified under OTHER roots is
    -- resumed (see `differently_rooted_session_is_resumed` below; reported as a finding, same behaviour as crypto/tls
    -- before the fix of CVE-2025-68121). -/
theorem resumed_session_sound_same_roots_partial (kex : Kex) (cached : Option ChainFacts) (second : ChainFacts)
    (km si : Bool) (hroots : ∀ f, cached = some f → f.trusted = true → second.trusted = true)
    (h : clientAcceptsWithCache false kex (cached.map sessionOf) second ⟨second.chainOK, km, si⟩ = true) :
    second.chainOK = true := by
  cases cached with
  | none =>
    have := (client_completes_implies kex _ (by simpa [clientAcceptsWithCache] using h)).1
    simpa using this
  | some f =>
    have hr := hroots f rfl
    cases f with
    | mk t fr n =>
      cases second with
      | mk t2 f2 n2 =>
        cases kex <;> cases t <;> cases fr <;> cases t2 <;> cases f2 <;> cases n2 <;> cases km <;> cases si <;>
          simp_all [clientAcceptsWithCache, sessionOf, sessionUsable, clientAccepts, possession, ChainFacts.chainOK]

/-- the code as it is: a session whose chain verified under the FIRST configuration's roots is resumed by a verifying
    configuration whose own roots do not contain the issuer (finding F-C27-resume-other-roots) -/
theorem differently_rooted_session_is_resumed (kex : Kex) :
    clientAcceptsWithCache false kex (some (sessionOf ⟨true, true, true⟩)) ⟨false, true, true⟩ ⟨false, true, true⟩ = true := by
  cases kex <;> rfl

/-- Server side: a resumed session never bypasses client-certificate verification — with VerifyClientCertIfGiven /
    RequireAndVerifyClientCert a ticket carrying client certificates is accepted only if they verify under the CURRENT
    configuration. -/
theorem server_resume_reverifies (m : Mode) (chainOKnow : Bool) (o : ClientOffer)
    (hm : m = .verifyIfGiven ∨ m = .requireAndVerify)
    (h : serverAcceptsWithTicket m (some true) chainOKnow o = true) : chainOKnow = true := by
  rcases hm with rfl | rfl <;> cases chainOKnow <;>
    simp_all [serverAcceptsWithTicket, serverResumes, serverAccepts, requiresClientCert, Mode.toNat]

/-- … and a ticket without client certificates is not resumed by a server that requires them: the full handshake
    decides. -/
theorem server_resume_required_cert (m : Mode) (chainOKnow : Bool) (o : ClientOffer) (hreq : requiresClientCert m = true) :
    serverAcceptsWithTicket m (some false) chainOKnow o = serverAccepts m o := by
  cases m <;> simp_all [serverAcceptsWithTicket, serverResumes, requiresClientCert]

example : sessionUsable false ⟨true⟩ true true = true := rfl
example : clientAcceptsWithCache false .tls13 (some (sessionOf ⟨true, true, false⟩)) ⟨true, true, true⟩ ⟨true, true, true⟩ = true := rfl
example : serverAcceptsWithTicket .requireAndVerify (some true) true ⟨true, true, true⟩ = true := rfl

/-! ## verification hooks (`VerifyPeerCertificate`, `VerifyConnection`) -/

/-- Permissive callbacks (absent, or installed and returning nil) change nothing: the decision is exactly the decision
    without them. -/
theorem client_permissive_hooks_same (vpc vc : Hook) (skip : Bool) (kex : Kex) (c : ServerCred)
    (hp : vpc.allows = true) (hc : vc.allows = true) :
    clientAcceptsH vpc vc skip kex c = clientAccepts skip kex c := by
  simp [clientAcceptsH, clientAccepts, hp, hc]

/-- Whatever the callbacks return they only ever restrict: acceptance with hooks implies acceptance without. -/
theorem client_hooks_only_restrict (vpc vc : Hook) (skip : Bool) (kex : Kex) (c : ServerCred)
    (h : clientAcceptsH vpc vc skip kex c = true) : clientAccepts skip kex c = true := by
  cases vpc <;> cases vc <;> cases skip <;> cases kex <;> cases c with
  | mk a b d => cases a <;> cases b <;> cases d <;> simp_all [clientAcceptsH, clientAccepts, possession, Hook.allows]

/-- A verifying client refuses every bad server also with callbacks installed, whatever they return … -/
theorem bad_server_rejected_with_hooks (vpc vc : Hook) (kex : Kex) (c : ServerCred)
    (hbad : c.chainOK = false ∨ c.keyMatches = false ∨ (kex ≠ .rsa ∧ c.sigIntact = false)) :
    clientAcceptsH vpc vc false kex c = false := by
  have h := bad_server_rejected kex c hbad
  cases hh : clientAcceptsH vpc vc false kex c with
  | false => rfl
  | true => rw [client_hooks_only_restrict vpc vc false kex c hh] at h; cases h

/-- … and when normal verification fails the callbacks are not even considered (the documented order). -/
theorem hooks_not_run_when_verification_fails (vpc vc : Hook) (c : ServerCred) (hbad : c.chainOK = false) :
    clientVpcRuns vpc false c = false ∧ clientVcRuns vpc vc false c = false := by
  simp [clientVpcRuns, clientVcRuns, hbad]

/-- A callback that returns an error aborts the client's handshake. -/
theorem client_rejecting_hook_aborts (vpc vc : Hook) (skip : Bool) (kex : Kex) (c : ServerCred)
    (h : vpc = .reject ∨ vc = .reject) : clientAcceptsH vpc vc skip kex c = false := by
  rcases h with rfl | rfl <;> cases skip <;> cases c with
  | mk a b d => cases a <;> simp [clientAcceptsH, Hook.allows]

/-- Server side: permissive callbacks leave the decision table of `processCertsFromClient` + CertificateVerify unchanged. -/
theorem server_permissive_hooks_same (vpc vc : Hook) (m : Mode) (o : ClientOffer)
    (hp : vpc.allows = true) (hc : vc.allows = true) : serverAcceptsH vpc vc m o = serverAccepts m o := by
  cases m <;> simp [serverAcceptsH, serverAccepts, hp, hc, Mode.toNat]

/-- … and in general they only restrict. -/
theorem server_hooks_only_restrict (vpc vc : Hook) (m : Mode) (o : ClientOffer)
    (h : serverAcceptsH vpc vc m o = true) : serverAccepts m o = true := by
  cases vpc <;> cases vc <;> cases m <;> cases o with
  | mk a b d => cases a <;> cases b <;> cases d <;>
      simp_all [serverAcceptsH, serverAccepts, requiresClientCert, Mode.toNat, Hook.allows]

/-- the two client-authentication sentences with callbacks installed (corollaries) -/
theorem clientauth_with_hooks (vpc vc : Hook) (m : Mode) (o : ClientOffer) (h : serverAcceptsH vpc vc m o = true) :
    (requiresClientCert m = true → o.hasCert = true ∧ o.cvValid = true) ∧
    ((m = .verifyIfGiven ∨ m = .requireAndVerify) → o.hasCert = true → o.chainOK = true ∧ o.cvValid = true) :=
  have h0 := server_hooks_only_restrict vpc vc m o h
  ⟨fun hr => clientauth_required_possession m o hr h0, fun hm hc => clientauth_verify_chain m o hm hc h0⟩

/-- the server's `VerifyPeerCertificate` is reached only when the certificate checks passed: never with a presented
    chain that does not verify under a verifying policy, never without a certificate under a requiring one -/
theorem server_hook_not_reached_when_checks_fail (m : Mode) (o : ClientOffer) :
    ((m = .verifyIfGiven ∨ m = .requireAndVerify) → o.hasCert = true → o.chainOK = false → serverCertChecksPass m o = false) ∧
    (requiresClientCert m = true → o.hasCert = false → serverCertChecksPass m o = false) := by
  cases m <;> cases o with
  | mk a b d => cases a <;> cases b <;> cases d <;> simp [serverCertChecksPass, requiresClientCert, Mode.toNat]

/-- a rejecting server callback aborts: `VerifyConnection` in every mode, `VerifyPeerCertificate` whenever certificates are requested -/
theorem server_rejecting_hook_aborts (vpc vc : Hook) (m : Mode) (o : ClientOffer)
    (h : vc = .reject ∨ (vpc = .reject ∧ m ≠ .noClientCert)) : serverAcceptsH vpc vc m o = false := by
  rcases h with rfl | ⟨rfl, hm⟩ <;> cases m <;> cases o with
  | mk a b d => cases a <;> cases b <;> cases d <;> simp_all [serverAcceptsH, requiresClientCert, Mode.toNat, Hook.allows]

example : clientAcceptsH .permit .permit false .tls13 ⟨true, true, true⟩ = true := rfl
example : Hook.allows .permit = true ∧ Hook.allows .absent = true := ⟨rfl, rfl⟩
example : serverAcceptsH .permit .permit .requireAndVerify ⟨true, true, true⟩ = true := rfl
example : requiresClientCert .requireAny = true ∧ (⟨false, false, false⟩ : ClientOffer).hasCert = false := ⟨rfl, rfl⟩
example : (⟨false, true, true⟩ : ServerCred).chainOK = false := rfl

/-! ## which certificate the server presents (`Config.getCertificate`, `BuildNameToCertificate`) -/

/-- Without a `GetCertificate` callback the choice is the static one; a callback is not even consulted when certificates
    are configured and the client sent no ServerName. -/
theorem getCertificate_hook_not_consulted (hook : GetCertHook) (ncerts : Nat) (n2c : Option NameMap) (sup : List Bool)
    (name : List Char) (h : hook = .absent ∨ (ncerts > 0 ∧ name = [])) :
    getCertificate hook ncerts n2c sup name = selectStatic ncerts n2c sup name := by
  rcases h with rfl | ⟨h1, rfl⟩
  · simp [getCertificate]
  · have : ¬ ncerts = 0 := by omega
    simp [getCertificate, this]

/-- A consulted callback that returns a certificate (an error) decides; one that returns (nil, nil) changes nothing. -/
theorem getCertificate_hook_consulted (hook : GetCertHook) (ncerts : Nat) (n2c : Option NameMap) (sup : List Bool)
    (name : List Char) (h : ncerts = 0 ∨ name ≠ []) :
    getCertificate hook ncerts n2c sup name =
      match hook with
      | .retCert => .hookCert
      | .retErr => .hookErr
      | _ => selectStatic ncerts n2c sup name := by
  have hc : ncerts = 0 ∨ name.length > 0 := by
    rcases h with h | h
    · exact Or.inl h
    · exact Or.inr (List.length_pos_iff.mpr h)
  cases hook <;> simp [getCertificate, hc]

/-- `errNoCertificates` exactly when nothing is configured. -/
theorem selectStatic_noCerts_iff (ncerts : Nat) (n2c : Option NameMap) (sup : List Bool) (name : List Char) :
    selectStatic ncerts n2c sup name = .noCerts ↔ ncerts = 0 := by
  constructor
  · intro h
    by_cases h0 : ncerts = 0
    · exact h0
    · by_cases h1 : ncerts = 1
      · simp [selectStatic, h1] at h
      · simp only [selectStatic, h0, h1, if_false] at h
        split at h
        · cases h
        · split at h <;> cases h
  · intro h
    simp [selectStatic, h]

/-- One certificate: it is presented whatever the client asks for. -/
theorem single_certificate_always_presented (n2c : Option NameMap) (sup : List Bool) (name : List Char) :
    selectStatic 1 n2c sup name = .cert 0 := by
  simp [selectStatic]

/-- The choice depends on the ServerName only through its lower-case form. -/
theorem selection_case_insensitive (ncerts : Nat) (n2c : Option NameMap) (sup : List Bool) (a b : List Char)
    (h : lowerName a = lowerName b) : selectStatic ncerts n2c sup a = selectStatic ncerts n2c sup b := by
  simp [selectStatic, h]

/-- `NameToCertificate` wins: an entry for the lower-cased ServerName is returned … -/
theorem exact_name_entry_wins (ncerts : Nat) (m : NameMap) (sup : List Bool) (name : List Char) (i : Nat)
    (hn : ncerts ≥ 2) (h : m.lookup (lowerName name) = some i) : selectStatic ncerts (some m) sup name = .cert i := by
  have h0 : ¬ ncerts = 0 := by omega
  have h1 : ¬ ncerts = 1 := by omega
  simp [selectStatic, h0, h1, h]

/-- … otherwise, for a non-empty name, the entry for the name with its first label replaced by `*`. -/
theorem wildcard_entry_next (ncerts : Nat) (m : NameMap) (sup : List Bool) (name : List Char) (i : Nat)
    (hn : ncerts ≥ 2) (hne : name ≠ []) (h : m.lookup (lowerName name) = none)
    (hw : m.lookup (wildcardName (lowerName name)) = some i) : selectStatic ncerts (some m) sup name = .cert i := by
  have h0 : ¬ ncerts = 0 := by omega
  have h1 : ¬ ncerts = 1 := by omega
  have hl : (lowerName name).length > 0 := by
    simp only [lowerName, List.length_map]
    exact List.length_pos_iff.mpr hne
  simp [selectStatic, h0, h1, h, hl, hw]

/-- No usable map entry: the FIRST certificate the client supports (`SupportsCertificate`), else the first certificate. -/
theorem first_supported_else_first (ncerts : Nat) (n2c : Option NameMap) (sup : List Bool) (name : List Char)
    (hn : ncerts ≥ 2)
    (hmap : n2c = none ∨ ∃ m, n2c = some m ∧ m.lookup (lowerName name) = none ∧
      (name = [] ∨ m.lookup (wildcardName (lowerName name)) = none)) :
    (∃ i, selectStatic ncerts n2c sup name = .cert i ∧ sup[i]? = some true ∧ ∀ j, j < i → sup[j]? = some false) ∨
    (selectStatic ncerts n2c sup name = .cert 0 ∧ ∀ b ∈ sup, b = false) := by
  have h0 : ¬ ncerts = 0 := by omega
  have h1 : ¬ ncerts = 1 := by omega
  cases hf : firstTrue sup with
  | some i =>
    left
    refine ⟨i, ?_, firstTrue_some sup i hf⟩
    rcases hmap with rfl | ⟨m, rfl, he, hw⟩
    · simp [selectStatic, h0, h1, hf]
    · rcases hw with rfl | hw
      · simp only [lowerName, List.map_nil] at he
        simp [selectStatic, h0, h1, he, hf, lowerName]
      · simp [selectStatic, h0, h1, he, hw, hf]
  | none =>
    right
    refine ⟨?_, firstTrue_none sup hf⟩
    rcases hmap with rfl | ⟨m, rfl, he, hw⟩
    · simp [selectStatic, h0, h1, hf]
    · rcases hw with rfl | hw
      · simp only [lowerName, List.map_nil] at he
        simp [selectStatic, h0, h1, he, hf, lowerName]
      · simp [selectStatic, h0, h1, he, hw, hf]

/-- Whatever is selected is one of the configured certificates (no out-of-range index), provided the map points at
    configured certificates. -/
theorem selected_is_configured (ncerts : Nat) (n2c : Option NameMap) (sup : List Bool) (name : List Char) (i : Nat)
    (hlen : sup.length = ncerts) (hm : ∀ m k j, n2c = some m → m.lookup k = some j → j < ncerts)
    (h : selectStatic ncerts n2c sup name = .cert i) : i < ncerts := by
  by_cases h0 : ncerts = 0
  · simp [selectStatic, h0] at h
  · by_cases h1 : ncerts = 1
    · simp [selectStatic, h1] at h
      omega
    · simp only [selectStatic, h0, h1, if_false] at h
      split at h
      · rename_i j hj
        cases h
        cases n2c with
        | none => simp at hj
        | some m =>
          simp only at hj
          split at hj
          · rename_i k hk
            cases hj
            exact hm m _ _ rfl hk
          · split at hj
            · exact hm m _ _ rfl hj
            · cases hj
      · split at h
        · rename_i k hk
          cases h
          have := firstTrue_lt sup _ hk
          omega
        · cases h
          omega

/-- `BuildNameToCertificate`: a name is mapped to the LAST certificate that contributes it (its DNS SANs, or its
    CommonName when it has no SANs; a leaf that does not parse contributes nothing), and to nothing if none does. -/
theorem build_maps_name_to_last_listing (certs : List LeafNames) (k : List Char) :
    (buildNameToCertificate certs).lookup k = lastListing 0 certs k := by
  rw [buildNameToCertificate, lookup_buildFrom]
  cases lastListing 0 certs k <;> simp [NameMap.lookup]

example : selectStatic 2 (some [("a.test".toList, 1)]) [true, false] "A.Test".toList = .cert 1 := by decide
example : selectStatic 3 (some [("*.a.test".toList, 2)]) [false, true, false] "x.a.test".toList = .cert 2 := by decide
example : selectStatic 3 none [false, true, true] "b.test".toList = .cert 1 := by decide
example : (buildNameToCertificate [⟨true, "cn".toList, []⟩, ⟨true, "x".toList, ["cn".toList]⟩]).lookup "cn".toList = some 1 := by decide

/-! ## which certificate the client offers (`getClientCertificate`, `CertificateRequestInfo.SupportsCertificate`,
    `selectSignatureScheme`, `signatureSchemesForCertificate`, `certificateRequestInfoFromMsg`) -/

/-- The scheme chosen is one the certificate can use and one the peer offered — or, when a TLS 1.2 peer offered none, one
    of the two SHA-1 defaults of RFC 5246. -/
theorem selected_scheme_sound (vers : Nat) (c : ClientCert) (peer : List Nat) (s : Nat)
    (h : selectSignatureScheme vers c peer = some s) :
    s ∈ signatureSchemesForCertificate vers c ∧
    (s ∈ peer ∨ (peer = [] ∧ vers = Gen.versionTLS12 ∧ (s = Gen.pkcs1WithSHA1 ∨ s = Gen.ecdsaWithSHA1))) := by
  simp only [selectSignatureScheme] at h
  split at h
  · cases h
  · have hs := List.find?_some h
    have hm := List.mem_of_find?_eq_some h
    refine ⟨(isSupported_iff _ _).mp hs, ?_⟩
    by_cases hp : peer.length = 0 ∧ vers = Gen.versionTLS12
    · simp only [hp, and_self, if_true] at hm
      right
      exact ⟨List.length_eq_zero_iff.mp hp.1, hp.2, by simpa using hm⟩
    · simp only [hp, if_false] at hm
      exact Or.inl hm

/-- … and it is the peer's FIRST acceptable one (peer preference order). -/
theorem selected_scheme_peer_preference (vers : Nat) (c : ClientCert) (peer : List Nat) (s : Nat) (hp : peer ≠ [])
    (h : selectSignatureScheme vers c peer = some s) :
    peer.find? (fun x => isSupported x (signatureSchemesForCertificate vers c)) = some s := by
  simp only [selectSignatureScheme] at h
  split at h
  · cases h
  · simpa [hp] using h

/-- `Certificate.SupportedSignatureAlgorithms`, when set, bounds what the certificate signs with. -/
theorem schemes_respect_supported_algorithms (vers : Nat) (c : ClientCert) (l : List Nat) (s : Nat) (hl : c.ssa = some l)
    (h : s ∈ signatureSchemesForCertificate vers c) : s ∈ l := by
  simp only [signatureSchemesForCertificate, hl] at h
  split at h
  · simp at h
  · exact (isSupported_iff _ _).mp (List.mem_filter.mp h).2

/-- An RSA key signs only with a row of `rsaSignatureSchemes` (the table of the tree) whose modulus bound and version bound
    it meets. -/
theorem rsa_scheme_from_table (vers n : Nat) (ssa : Option (List Nat)) (iss : List (Option Nat)) (s : Nat)
    (h : s ∈ signatureSchemesForCertificate vers ⟨.rsa n, ssa, iss⟩) :
    ∃ minB maxV, (s, minB, maxV) ∈ Gen.rsaSignatureSchemes ∧ n ≥ minB ∧ vers ≤ maxV := by
  simp only [signatureSchemesForCertificate, keySchemes] at h
  cases ssa with
  | none => exact mem_rsaSchemes n vers s _ h
  | some l => exact mem_rsaSchemes n vers s _ (List.mem_filter.mp h).1

/-- the table row check behind `tls13_rsa_only_pss` (over the generated tables) -/
theorem rsa_table_tls13_rows_are_pss :
    ∀ row ∈ Gen.rsaSignatureSchemes, Gen.versionTLS13 ≤ row.2.2 → sigTypeOf row.1 Gen.sigTypeTable = some Gen.signatureRSAPSS := by
  decide

/-- TLS 1.3: an RSA certificate signs with RSA-PSS only (PKCS #1 v1.5 is gone), whatever its size and
    SupportedSignatureAlgorithms. -/
theorem tls13_rsa_only_pss (n : Nat) (ssa : Option (List Nat)) (iss : List (Option Nat)) (s : Nat)
    (h : s ∈ signatureSchemesForCertificate Gen.versionTLS13 ⟨.rsa n, ssa, iss⟩) :
    sigTypeOf s Gen.sigTypeTable = some Gen.signatureRSAPSS := by
  obtain ⟨minB, maxV, hrow, _, hv⟩ := rsa_scheme_from_table _ n ssa iss s h
  exact rsa_table_tls13_rows_are_pss (s, minB, maxV) hrow hv

/-- TLS 1.3: an ECDSA certificate signs only with the scheme of ITS curve; a curve outside P-256/384/521 with none. -/
theorem tls13_ecdsa_bound_to_curve (curve : Nat) (ssa : Option (List Nat)) (iss : List (Option Nat)) (s : Nat)
    (h : s ∈ signatureSchemesForCertificate Gen.versionTLS13 ⟨.ecdsa curve, ssa, iss⟩) :
    (curve = 256 ∧ s = Gen.ecdsaWithP256AndSHA256) ∨ (curve = 384 ∧ s = Gen.ecdsaWithP384AndSHA384) ∨
    (curve = 521 ∧ s = Gen.ecdsaWithP521AndSHA512) := by
  have base : ∀ l, keySchemes Gen.versionTLS13 (.ecdsa curve) = some l → s ∈ l →
      (curve = 256 ∧ s = Gen.ecdsaWithP256AndSHA256) ∨ (curve = 384 ∧ s = Gen.ecdsaWithP384AndSHA384) ∨
      (curve = 521 ∧ s = Gen.ecdsaWithP521AndSHA512) := by
    intro l hl hs
    simp only [keySchemes, ne_eq, not_true_eq_false, if_false] at hl
    by_cases h1 : curve = 256
    · simp [h1] at hl; subst hl; simp at hs; exact Or.inl ⟨h1, hs⟩
    · by_cases h2 : curve = 384
      · simp [h2] at hl; subst hl; simp at hs; exact Or.inr (Or.inl ⟨h2, hs⟩)
      · by_cases h3 : curve = 521
        · simp [h3] at hl; subst hl; simp at hs; exact Or.inr (Or.inr ⟨h3, hs⟩)
        · simp [h1, h2, h3] at hl
  simp only [signatureSchemesForCertificate] at h
  cases hk : keySchemes Gen.versionTLS13 (.ecdsa curve) with
  | none => simp [hk] at h
  | some l =>
    simp only [hk] at h
    cases ssa with
    | none => exact base l hk h
    | some f => exact base l hk (List.mem_filter.mp h).1

/-- A key that is not a `crypto.Signer`, or a signer of an unknown kind, is never offered. -/
theorem unusable_key_never_selected (vers : Nat) (c : ClientCert) (peer : List Nat)
    (hk : c.key = .notSigner ∨ c.key = .otherSigner) : selectSignatureScheme vers c peer = none := by
  rcases hk with hk | hk <;> simp [selectSignatureScheme, signatureSchemesForCertificate, keySchemes, hk]

/-- What the client sends in answer to a CertificateRequest: the FIRST configured chain the request supports … -/
theorem client_sends_first_supported (vers : Nat) (schemes cas : List Nat) (certs : List ClientCert) (i : Nat)
    (h : getClientCertificate vers schemes cas certs = some i) :
    (∃ c, certs[i]? = some c ∧ criSupports vers schemes cas c = true) ∧
    ∀ j, j < i → ∃ c, certs[j]? = some c ∧ criSupports vers schemes cas c = false :=
  getClientCertificate_some vers schemes cas certs i h

/-- … and an empty Certificate message exactly when the request supports none of them. -/
theorem client_sends_none_iff (vers : Nat) (schemes cas : List Nat) (certs : List ClientCert) :
    getClientCertificate vers schemes cas certs = none ↔ ∀ c ∈ certs, criSupports vers schemes cas c = false :=
  getClientCertificate_none vers schemes cas certs

/-- A chain the request supports can be signed for with a scheme the server listed, and — when the server named CAs — has
    an element issued by one of them, every element before it parsing.  (So a certificate from a CA the server did not
    name is withheld: the fact the hk stream's descriptor mapping uses.) -/
theorem supported_chain_facts (vers : Nat) (schemes cas : List Nat) (c : ClientCert)
    (h : criSupports vers schemes cas c = true) :
    (∃ s, selectSignatureScheme vers c schemes = some s) ∧ (cas = [] ∨ ∃ ca, ca ∈ cas ∧ some ca ∈ c.issuers) := by
  simp only [criSupports] at h
  cases hs : selectSignatureScheme vers c schemes with
  | none => simp [hs] at h
  | some s =>
    simp only [hs] at h
    refine ⟨⟨s, rfl⟩, ?_⟩
    by_cases hc : cas.length = 0
    · exact Or.inl (List.length_eq_zero_iff.mp hc)
    · simp only [hc, if_false] at h
      exact Or.inr (chainAcceptable_sound cas c.issuers h)

/-- The certificate actually sent therefore has these facts (corollary for the handshake: `hasCert` of the decision model
    is true only for such a chain). -/
theorem sent_certificate_acceptable (vers : Nat) (schemes cas : List Nat) (certs : List ClientCert) (i : Nat)
    (h : getClientCertificate vers schemes cas certs = some i) :
    ∃ c, certs[i]? = some c ∧ (∃ s, selectSignatureScheme vers c schemes = some s) ∧
      (cas = [] ∨ ∃ ca, ca ∈ cas ∧ some ca ∈ c.issuers) := by
  obtain ⟨⟨c, hc, hsup⟩, _⟩ := getClientCertificate_some vers schemes cas certs i h
  exact ⟨c, hc, supported_chain_facts vers schemes cas c hsup⟩

/-- TLS 1.2 CertificateRequest: the schemes handed to selection are among those the server sent, each of a family its
    certificate_types allow (`typeAndHashFromSignatureScheme` of the tree). -/
theorem cri_schemes_filtered (types algs : List Nat) (s : Nat) (h : s ∈ criSchemes types true algs) :
    s ∈ algs ∧ ∃ t, sigTypeOf s Gen.sigTypeTable = some t ∧
      (((t = Gen.signatureECDSA ∨ t = Gen.signatureEd25519) ∧ types.any (· == Gen.certTypeECDSASign) = true) ∨
       ((t = Gen.signatureRSAPSS ∨ t = Gen.signaturePKCS1v15) ∧ types.any (· == Gen.certTypeRSASign) = true)) := by
  simp only [criSchemes, Bool.not_true, Bool.false_eq_true, if_false] at h
  exact mem_filterSchemes _ _ algs s h

/-- Before TLS 1.2 the made-up list holds PKCS #1 v1.5 / ECDSA schemes only, again by certificate type. -/
theorem cri_schemes_legacy (types algs : List Nat) (s : Nat) (h : s ∈ criSchemes types false algs) :
    (sigTypeOf s Gen.sigTypeTable = some Gen.signaturePKCS1v15 ∧ types.any (· == Gen.certTypeRSASign) = true) ∨
    (sigTypeOf s Gen.sigTypeTable = some Gen.signatureECDSA ∧ types.any (· == Gen.certTypeECDSASign) = true) := by
  have hE : ∀ x ∈ [Gen.ecdsaWithP256AndSHA256, Gen.ecdsaWithP384AndSHA384, Gen.ecdsaWithP521AndSHA512],
      sigTypeOf x Gen.sigTypeTable = some Gen.signatureECDSA := by decide
  have hR : ∀ x ∈ [Gen.pkcs1WithSHA256, Gen.pkcs1WithSHA384, Gen.pkcs1WithSHA512, Gen.pkcs1WithSHA1],
      sigTypeOf x Gen.sigTypeTable = some Gen.signaturePKCS1v15 := by decide
  have hB : ∀ x ∈ [Gen.ecdsaWithP256AndSHA256, Gen.ecdsaWithP384AndSHA384, Gen.ecdsaWithP521AndSHA512,
      Gen.pkcs1WithSHA256, Gen.pkcs1WithSHA384, Gen.pkcs1WithSHA512, Gen.pkcs1WithSHA1],
      sigTypeOf x Gen.sigTypeTable = some Gen.signaturePKCS1v15 ∨ sigTypeOf x Gen.sigTypeTable = some Gen.signatureECDSA := by
    decide
  simp only [criSchemes, Bool.not_false, if_true] at h
  cases hr : types.any (· == Gen.certTypeRSASign) <;> cases he : types.any (· == Gen.certTypeECDSASign) <;>
    simp only [hr, he, Bool.and_true, Bool.and_false, Bool.and_self, Bool.false_eq_true, if_false, if_true] at h
  · simp at h
  · exact Or.inr ⟨hE s h, rfl⟩
  · exact Or.inl ⟨hR s h, rfl⟩
  · rcases hB s h with h' | h'
    · exact Or.inl ⟨h', rfl⟩
    · exact Or.inr ⟨h', rfl⟩

example : selectSignatureScheme Gen.versionTLS12 ⟨.rsa 256, none, []⟩ [Gen.ed25519, 0x0804, 0x0401] = some 0x0804 := by decide
example : getClientCertificate Gen.versionTLS12 [0x0403] [7] [⟨.ecdsa 256, none, [some 3]⟩, ⟨.ecdsa 256, none, [some 5, some 7]⟩] = some 1 := by decide
example : criSupports Gen.versionTLS13 [0x0804] [] ⟨.rsa 256, none, []⟩ = true := by decide
example : 0x0403 ∈ criSchemes [64] true [0x0401, 0x0403] := by decide
example : 0x0401 ∈ criSchemes [1] false [] := by decide
example : 0x0804 ∈ signatureSchemesForCertificate Gen.versionTLS13 ⟨.rsa 256, none, []⟩ := by decide
example : 0x0403 ∈ signatureSchemesForCertificate Gen.versionTLS13 ⟨.ecdsa 256, some [0x0403], []⟩ := by decide

/-! ## the ClientAuth policy (`processCertsFromClient`) -/

/-- `requiresClientCert` of the tree (run on ClientAuthType 0..7) is the model's, and the model's numeric form agrees with
    the one on `Mode`. -/
theorem requiresClientCert_table : ∀ row ∈ Gen.requiresClientCertTable, requiresClientCertN row.1 = row.2 := by decide

theorem requiresClientCert_agrees (m : Mode) : requiresClientCertN m.toNat = requiresClientCert m := by
  cases m <;> decide

/-- T1: every row of the decision table of the REAL `processCertsFromClient` (5 ClientAuthTypes x 8 certificate kinds:
    alert or acceptance, len(peerCertificates), verifiedChains set) is the model's value … -/
theorem policy_table_is_model : ∀ row ∈ Gen.clientAuthTable,
    (presentedOfKind row.2.1).map (fun p => processCerts row.1 p .absent) =
      some ⟨if row.2.2.1 = 0 then none else some row.2.2.1, row.2.2.2.1, decide (row.2.2.2.2 > 0), false⟩ := by
  decide

/-- … and the table is complete: all 40 (policy, kind) pairs, each once. -/
theorem policy_table_complete :
    Gen.clientAuthTable.map (fun r => (r.1, r.2.1)) =
      (List.range 5).flatMap (fun m => (List.range 8).map (fun k => (m, k))) := by
  decide

/-- A policy that REQUIRES a certificate never accepts an empty Certificate message (any ClientAuthType value, any
    callback). -/
theorem policy_required_needs_certificate (m : Nat) (p : Presented) (vpc : Hook) (hreq : requiresClientCertN m = true)
    (h : (processCerts m p vpc).alert = none) : p.count > 0 := by
  by_cases hc : p.count = 0
  · rw [processCerts_eq, hreq] at h
    simp [processCertsB, hc] at h
  · omega

/-- A VERIFYING policy (ClientAuthType >= VerifyClientCertIfGiven) accepts a presented certificate only if the chain
    verifies (ClientCAs, configured time, ExtKeyUsageClientAuth), and then records the verified chains. -/
theorem policy_verifying_needs_chain (m : Nat) (p : Presented) (vpc : Hook) (hm : m ≥ Gen.verifyClientCertIfGiven)
    (hc : p.count > 0) (h : (processCerts m p vpc).alert = none) :
    p.parses = true ∧ p.verifies = true ∧ p.keyKnown = true ∧ (processCerts m p vpc).chains = true ∧
      (processCerts m p vpc).peers = p.count := by
  have hd : decide (m ≥ Gen.verifyClientCertIfGiven) = true := by simpa using hm
  have hc0 : ¬ p.count = 0 := by omega
  rw [processCerts_eq, hd] at h ⊢
  generalize requiresClientCertN m = r at h ⊢
  obtain ⟨cnt, pa, ve, kk⟩ := p
  simp only at hc hc0
  cases pa <;> cases ve <;> cases kk <;> cases vpc <;> cases r <;>
    simp_all [processCertsB, Hook.installed]

/-- A non-verifying policy never looks at the chain: the outcome does not depend on whether it verifies. -/
theorem policy_nonverifying_ignores_chain (m : Nat) (cnt : Nat) (pa kk v1 v2 : Bool) (vpc : Hook)
    (hm : m < Gen.verifyClientCertIfGiven) :
    processCerts m ⟨cnt, pa, v1, kk⟩ vpc = processCerts m ⟨cnt, pa, v2, kk⟩ vpc := by
  have hd : decide (m ≥ Gen.verifyClientCertIfGiven) = false := by simpa using hm
  rw [processCerts_eq, processCerts_eq, hd]
  simp [processCertsB]

/-- `VerifyPeerCertificate` is reached only after every check passed: never for a refused chain, never for a missing
    required certificate, never for an unparseable or unsupported certificate. -/
theorem policy_callback_after_checks (m : Nat) (p : Presented) (vpc : Hook) (h : (processCerts m p vpc).vpcRan = true) :
    (p.count > 0 → p.parses = true ∧ p.keyKnown = true) ∧ (p.count = 0 → requiresClientCertN m = false) ∧
    (m ≥ Gen.verifyClientCertIfGiven → p.count > 0 → p.verifies = true) := by
  rw [processCerts_eq] at h
  have hv : ∀ v, decide (m ≥ Gen.verifyClientCertIfGiven) = v → m ≥ Gen.verifyClientCertIfGiven → v = true := by
    intro v e hm
    rw [← e]
    simpa using hm
  generalize hdv : decide (m ≥ Gen.verifyClientCertIfGiven) = v at h
  have hv' := hv v hdv
  generalize requiresClientCertN m = r at h ⊢
  obtain ⟨cnt, pa, ve, kk⟩ := p
  refine ⟨?_, ?_, ?_⟩
  · intro hc
    have hc0 : ¬ cnt = 0 := by simp only at hc; omega
    cases pa <;> cases ve <;> cases kk <;> cases vpc <;> cases r <;> cases v <;>
      simp_all [processCertsB, Hook.installed]
  · intro hc
    simp only at hc
    subst hc
    cases r <;> simp_all [processCertsB]
  · intro hm hc
    have hvt := hv' hm
    subst hvt
    have hc0 : ¬ cnt = 0 := by simp only at hc; omega
    cases pa <;> cases ve <;> cases kk <;> cases vpc <;> cases r <;>
      simp_all [processCertsB, Hook.installed]

/-- A callback that returns an error makes the function fail; one that is absent or returns nil changes nothing but the
    `vpcRan` flag. -/
theorem policy_callback_only_restricts (m : Nat) (p : Presented) (vpc : Hook)
    (h : (processCerts m p vpc).alert = none) : (processCerts m p .absent).alert = none ∧ vpc ≠ .reject := by
  rw [processCerts_eq] at h ⊢
  generalize decide (m ≥ Gen.verifyClientCertIfGiven) = v at h ⊢
  generalize requiresClientCertN m = r at h ⊢
  obtain ⟨cnt, pa, ve, kk⟩ := p
  by_cases hc : cnt = 0
  · subst hc
    cases r <;> cases vpc <;> simp_all [processCertsB]
  · have hpos : cnt > 0 := by omega
    cases pa <;> cases ve <;> cases kk <;> cases vpc <;> cases r <;> cases v <;>
      simp_all [processCertsB, Hook.installed]

/-- Refinement: on well-formed certificates the function-level model is the certificate stage of the handshake decision
    model (`serverCertChecksPass` + the callback), for every requesting policy. -/
theorem policy_refines_decision_model (m : Mode) (cnt : Nat) (ve cv : Bool) (vpc : Hook) (hm : m ≠ .noClientCert) :
    ((processCerts m.toNat ⟨cnt, true, ve, true⟩ vpc).alert == none) =
      (serverCertChecksPass m ⟨decide (cnt > 0), ve, cv⟩ && vpc.allows) := by
  by_cases hc : cnt = 0
  · subst hc
    cases m <;> cases ve <;> cases vpc <;> simp_all [processCerts, serverCertChecksPass, requiresClientCertN,
      requiresClientCert, Mode.toNat, Hook.allows, Hook.installed, Gen.requireAnyClientCert, Gen.requireAndVerifyClientCert,
      Gen.verifyClientCertIfGiven]
  · have hpos : cnt > 0 := by omega
    cases m <;> cases ve <;> cases vpc <;> simp_all [processCerts, serverCertChecksPass, requiresClientCertN,
      requiresClientCert, Mode.toNat, Hook.allows, Hook.installed, Gen.requireAnyClientCert, Gen.requireAndVerifyClientCert,
      Gen.verifyClientCertIfGiven]

example : requiresClientCertN 4 = true := by decide
example : (processCerts 4 ⟨1, true, true, true⟩ .permit).alert = none := by decide
example : (processCerts 3 ⟨1, true, true, true⟩ .permit).vpcRan = true := by decide
example : (1 : Nat) < Gen.verifyClientCertIfGiven := by decide
example : Mode.request ≠ Mode.noClientCert := by decide

end ZV.C27
