import ZV.Model.C27
/-!
  C27 — TLS peers authenticate each other as configured: the property's sentences, proved for every configuration
  of the acceptance-decision model (all key exchanges × all `ClientAuthType`s × every combination of the abstract
  facts about what the peer presented).  The tie to the code is the T2/T3 scenario matrix of real handshakes.
-/
namespace ZV.C27

/-- With verification enabled the client accepts only a server whose chain verifies and which proves possession of
    the leaf key (for the signed key exchanges and TLS 1.3: by an intact signature). -/
theorem client_completes_implies (kex : Kex) (c : ServerCred) (h : clientAccepts false kex c = true) :
    c.chainOK = true ∧ c.keyMatches = true ∧ (kex ≠ .rsa → c.sigIntact = true) := by
  cases kex <;> cases c with
  | mk a b d => cases a <;> cases b <;> cases d <;> simp_all [clientAccepts, possession]

/-- … and nothing more is required: a trusted, key-holding server with an intact signature is accepted. -/
theorem client_accepts_good (skip : Bool) (kex : Kex) : clientAccepts skip kex ⟨true, true, true⟩ = true := by
  cases skip <;> cases kex <;> rfl

/-- Each "bad" server scenario of the property (untrusted / expired / misnamed = chain does not verify; substituted
    key; corrupted signature) makes a verifying client refuse. -/
theorem bad_server_rejected (kex : Kex) (c : ServerCred)
    (hbad : c.chainOK = false ∨ c.keyMatches = false ∨ (kex ≠ .rsa ∧ c.sigIntact = false)) :
    clientAccepts false kex c = false := by
  cases kex <;> cases c with
  | mk a b d => cases a <;> cases b <;> cases d <;> simp_all [clientAccepts, possession]

/-- InsecureSkipVerify drops the chain check but not the possession proof, except for DHE (as coded). -/
theorem skipverify_still_needs_possession (kex : Kex) (c : ServerCred) (hk : kex ≠ .dhe)
    (h : clientAccepts true kex c = true) : c.keyMatches = true := by
  cases kex <;> cases c with
  | mk a b d => cases a <;> cases b <;> cases d <;> simp_all [clientAccepts, possession]

/-- `clientauth_table`, first sentence: a server REQUIRING client certificates completes only with a client that
    presents a certificate and proves possession of its key. -/
theorem clientauth_required_possession (m : Mode) (o : ClientOffer) (hreq : requiresClientCert m = true)
    (h : serverAccepts m o = true) : o.hasCert = true ∧ o.cvValid = true := by
  cases m <;> cases o with
  | mk a b d => cases a <;> cases b <;> cases d <;> simp_all [serverAccepts, requiresClientCert, Mode.toNat]

/-- second sentence: when verification is requested (VerifyClientCertIfGiven, RequireAndVerifyClientCert) a presented
    certificate is accepted only if its chain verifies — and always only with a valid CertificateVerify. -/
theorem clientauth_verify_chain (m : Mode) (o : ClientOffer) (hm : m = .verifyIfGiven ∨ m = .requireAndVerify)
    (hc : o.hasCert = true) (h : serverAccepts m o = true) : o.chainOK = true ∧ o.cvValid = true := by
  rcases hm with rfl | rfl <;> cases o with
  | mk a b d => cases a <;> cases b <;> cases d <;> simp_all [serverAccepts, requiresClientCert, Mode.toNat]

/-- in every mode a presented certificate needs a valid CertificateVerify (whenever certificates are requested) -/
theorem clientauth_cert_needs_cv (m : Mode) (o : ClientOffer) (hm : m ≠ .noClientCert) (hc : o.hasCert = true)
    (h : serverAccepts m o = true) : o.cvValid = true := by
  cases m <;> cases o with
  | mk a b d => cases a <;> cases b <;> cases d <;> simp_all [serverAccepts, requiresClientCert, Mode.toNat]

/-- the full decision table, mode by mode (completeness: nothing else is rejected) -/
theorem clientauth_table (o : ClientOffer) :
    serverAccepts .noClientCert o = true ∧
    serverAccepts .request o = (!o.hasCert || o.cvValid) ∧
    serverAccepts .requireAny o = (o.hasCert && o.cvValid) ∧
    serverAccepts .verifyIfGiven o = (!o.hasCert || (o.chainOK && o.cvValid)) ∧
    serverAccepts .requireAndVerify o = (o.hasCert && o.chainOK && o.cvValid) := by
  cases o with
  | mk a b d => cases a <;> cases b <;> cases d <;> simp [serverAccepts, requiresClientCert, Mode.toNat]

/-- RequireAndVerifyClientCert: the server side of a completed handshake has all three facts; and the server never
    completes unless the client also accepted the server. -/
theorem mutual_auth_complete (tls13 : Bool) (kex : Kex) (c : ServerCred) (o : ClientOffer)
    (h : (outcome tls13 (clientAccepts false kex c) (serverAccepts .requireAndVerify o)).2 = true) :
    c.chainOK = true ∧ c.keyMatches = true ∧ o.hasCert = true ∧ o.chainOK = true ∧ o.cvValid = true := by
  cases tls13 <;> cases kex <;> cases c with
  | mk a b d => cases o with
    | mk e f g =>
      cases a <;> cases b <;> cases d <;> cases e <;> cases f <;> cases g <;>
        simp_all [outcome, clientAccepts, possession, serverAccepts, requiresClientCert, Mode.toNat]

example : clientAccepts false .ecdhe ⟨true, true, true⟩ = true := rfl
example : serverAccepts .requireAndVerify ⟨true, true, true⟩ = true := rfl
example : requiresClientCert .requireAny = true := rfl

/-! ## resumption -/

/-- The guard of `loadSession`: a VERIFYING configuration offers a cached session only if that session carries verified
    chains, its leaf is not expired now and lists the configured ServerName. -/
theorem resumption_needs_verified_chains (s : Session) (notExpired named : Bool)
    (h : sessionUsable false s notExpired named = true) :
    s.hasVerifiedChains = true ∧ notExpired = true ∧ named = true := by
  cases s with
  | mk v => cases v <;> cases notExpired <;> cases named <;> simp_all [sessionUsable]

/-- A session made against a server whose chain did not verify for the configuration that made it (e.g. under
    InsecureSkipVerify) is never used by a verifying configuration: the second connection is decided exactly like a
    fresh one. -/
theorem unverified_session_not_resumed (kex : Kex) (first second : ChainFacts) (c : ServerCred)
    (h : (first.trusted && first.fresh) = false) :
    clientAcceptsWithCache false kex (some (sessionOf first)) second c = clientAccepts false kex c := by
  simp [clientAcceptsWithCache, sessionOf, sessionUsable, h]

/-- Soundness of client-side resumption for configurations that trust the same roots: whatever configuration (verifying
    or not, other name, other time) filled the cache, a verifying configuration completes the second connection only if
    the server's chain verifies for ITS roots, time and name.
    -- FULL: the same without `hroots`.  It does not hold for the code as it is: a session verified under OTHER roots is
    -- resumed (see `differently_rooted_session_is_resumed` below; reported as a finding, same behaviour as crypto/tls
    -- before the fix of CVE-2025-68121). -/
theorem resumed_session_sound_same_roots_partial (kex : Kex) (cached : Option ChainFacts) (second : ChainFacts)
    (km si : Bool) (hroots : ∀ f, cached = some f → f.trusted = true → second.trusted = true)
    (h : clientAcceptsWithCache false kex (cached.map sessionOf) second ⟨second.chainOK, km, si⟩ = true) :
    second.chainOK = true := by
  cases cached with
  | none =>
    have := (client_completes_implies kex _ (by simpa [clientAcceptsWithCache] using h)).1
    simpa using this
  | some f =>
    have hr := hroots f rfl
    cases f with
    | mk t fr n =>
      cases second with
      | mk t2 f2 n2 =>
        cases kex <;> cases t <;> cases fr <;> cases t2 <;> cases f2 <;> cases n2 <;> cases km <;> cases si <;>
          simp_all [clientAcceptsWithCache, sessionOf, sessionUsable, clientAccepts, possession, ChainFacts.chainOK]

/-- the code as it is: a session whose chain verified under the FIRST configuration's roots is resumed by a verifying
    configuration whose own roots do not contain the issuer (finding F-C27-resume-other-roots) -/
theorem differently_rooted_session_is_resumed (kex : Kex) :
    clientAcceptsWithCache false kex (some (sessionOf ⟨true, true, true⟩)) ⟨false, true, true⟩ ⟨false, true, true⟩ = true := by
  cases kex <;> rfl

/-- Server side: a resumed session never bypasses client-certificate verification — with VerifyClientCertIfGiven /
    RequireAndVerifyClientCert a ticket carrying client certificates is accepted only if they verify under the CURRENT
    configuration. -/
theorem server_resume_reverifies (m : Mode) (chainOKnow : Bool) (o : ClientOffer)
    (hm : m = .verifyIfGiven ∨ m = .requireAndVerify)
    (h : serverAcceptsWithTicket m (some true) chainOKnow o = true) : chainOKnow = true := by
  rcases hm with rfl | rfl <;> cases chainOKnow <;>
    simp_all [serverAcceptsWithTicket, serverResumes, serverAccepts, requiresClientCert, Mode.toNat]

/-- … and a ticket without client certificates is not resumed by a server that requires them: the full handshake
    decides. -/
theorem server_resume_required_cert (m : Mode) (chainOKnow : Bool) (o : ClientOffer) (hreq : requiresClientCert m = true) :
    serverAcceptsWithTicket m (some false) chainOKnow o = serverAccepts m o := by
  cases m <;> simp_all [serverAcceptsWithTicket, serverResumes, requiresClientCert]

example : sessionUsable false ⟨true⟩ true true = true := rfl
example : clientAcceptsWithCache false .tls13 (some (sessionOf ⟨true, true, false⟩)) ⟨true, true, true⟩ ⟨true, true, true⟩ = true := rfl
example : serverAcceptsWithTicket .requireAndVerify (some true) true ⟨true, true, true⟩ = true := rfl

/-! ## verification hooks (`VerifyPeerCertificate`, `VerifyConnection`) -/

/-- Permissive callbacks (absent, or installed and returning nil) change nothing: the decision is exactly the decision
    without them. -/
theorem client_permissive_hooks_same (vpc vc : Hook) (skip : Bool) (kex : Kex) (c : ServerCred)
    (hp : vpc.allows = true) (hc : vc.allows = true) :
    clientAcceptsH vpc vc skip kex c = clientAccepts skip kex c := by
  simp [clientAcceptsH, clientAccepts, hp, hc]

/-- Whatever the callbacks return they only ever restrict: acceptance with hooks implies acceptance without. -/
theorem client_hooks_only_restrict (vpc vc : Hook) (skip : Bool) (kex : Kex) (c : ServerCred)
    (h : clientAcceptsH vpc vc skip kex c = true) : clientAccepts skip kex c = true := by
  cases vpc <;> cases vc <;> cases skip <;> cases kex <;> cases c with
  | mk a b d => cases a <;> cases b <;> cases d <;> simp_all [clientAcceptsH, clientAccepts, possession, Hook.allows]

/-- A verifying client refuses every bad server also with callbacks installed, whatever they return … -/
theorem bad_server_rejected_with_hooks (vpc vc : Hook) (kex : Kex) (c : ServerCred)
    (hbad : c.chainOK = false ∨ c.keyMatches = false ∨ (kex ≠ .rsa ∧ c.sigIntact = false)) :
    clientAcceptsH vpc vc false kex c = false := by
  have h := bad_server_rejected kex c hbad
  cases hh : clientAcceptsH vpc vc false kex c with
  | false => rfl
  | true => rw [client_hooks_only_restrict vpc vc false kex c hh] at h; cases h

/-- … and when normal verification fails the callbacks are not even considered (the documented order). -/
theorem hooks_not_run_when_verification_fails (vpc vc : Hook) (c : ServerCred) (hbad : c.chainOK = false) :
    clientVpcRuns vpc false c = false ∧ clientVcRuns vpc vc false c = false := by
  simp [clientVpcRuns, clientVcRuns, hbad]

/-- A callback that returns an error aborts the client's handshake. -/
theorem client_rejecting_hook_aborts (vpc vc : Hook) (skip : Bool) (kex : Kex) (c : ServerCred)
    (h : vpc = .reject ∨ vc = .reject) : clientAcceptsH vpc vc skip kex c = false := by
  rcases h with rfl | rfl <;> cases skip <;> cases c with
  | mk a b d => cases a <;> simp [clientAcceptsH, Hook.allows]

/-- Server side: permissive callbacks leave the decision table of `processCertsFromClient` + CertificateVerify unchanged. -/
theorem server_permissive_hooks_same (vpc vc : Hook) (m : Mode) (o : ClientOffer)
    (hp : vpc.allows = true) (hc : vc.allows = true) : serverAcceptsH vpc vc m o = serverAccepts m o := by
  cases m <;> simp [serverAcceptsH, serverAccepts, hp, hc, Mode.toNat]

/-- … and in general they only restrict. -/
theorem server_hooks_only_restrict (vpc vc : Hook) (m : Mode) (o : ClientOffer)
    (h : serverAcceptsH vpc vc m o = true) : serverAccepts m o = true := by
  cases vpc <;> cases vc <;> cases m <;> cases o with
  | mk a b d => cases a <;> cases b <;> cases d <;>
      simp_all [serverAcceptsH, serverAccepts, requiresClientCert, Mode.toNat, Hook.allows]

/-- the two client-authentication sentences with callbacks installed (corollaries) -/
theorem clientauth_with_hooks (vpc vc : Hook) (m : Mode) (o : ClientOffer) (h : serverAcceptsH vpc vc m o = true) :
    (requiresClientCert m = true → o.hasCert = true ∧ o.cvValid = true) ∧
    ((m = .verifyIfGiven ∨ m = .requireAndVerify) → o.hasCert = true → o.chainOK = true ∧ o.cvValid = true) :=
  have h0 := server_hooks_only_restrict vpc vc m o h
  ⟨fun hr => clientauth_required_possession m o hr h0, fun hm hc => clientauth_verify_chain m o hm hc h0⟩

/-- the server's `VerifyPeerCertificate` is reached only when the certificate checks passed: never with a presented
    chain that does not verify under a verifying policy, never without a certificate under a requiring one -/
theorem server_hook_not_reached_when_checks_fail (m : Mode) (o : ClientOffer) :
    ((m = .verifyIfGiven ∨ m = .requireAndVerify) → o.hasCert = true → o.chainOK = false → serverCertChecksPass m o = false) ∧
    (requiresClientCert m = true → o.hasCert = false → serverCertChecksPass m o = false) := by
  cases m <;> cases o with
  | mk a b d => cases a <;> cases b <;> cases d <;> simp [serverCertChecksPass, requiresClientCert, Mode.toNat]

/-- a rejecting server callback aborts: `VerifyConnection` in every mode, `VerifyPeerCertificate` whenever certificates are requested -/
theorem server_rejecting_hook_aborts (vpc vc : Hook) (m : Mode) (o : ClientOffer)
    (h : vc = .reject ∨ (vpc = .reject ∧ m ≠ .noClientCert)) : serverAcceptsH vpc vc m o = false := by
  rcases h with rfl | ⟨rfl, hm⟩ <;> cases m <;> cases o with
  | mk a b d => cases a <;> cases b <;> cases d <;> simp_all [serverAcceptsH, requiresClientCert, Mode.toNat, Hook.allows]

example : clientAcceptsH .permit .permit false .tls13 ⟨true, true, true⟩ = true := rfl
example : Hook.allows .permit = true ∧ Hook.allows .absent = true := ⟨rfl, rfl⟩
example : serverAcceptsH .permit .permit .requireAndVerify ⟨true, true, true⟩ = true := rfl
example : requiresClientCert .requireAny = true ∧ (⟨false, false, false⟩ : ClientOffer).hasCert = false := ⟨rfl, rfl⟩
example : (⟨false, true, true⟩ : ServerCred).chainOK = false := rfl

end ZV.C27
