import ZV.Model.C27
/-!
  C27 — TLS peers authenticate each other as configured: the property's sentences, proved for every configuration
  of the acceptance-decision model (all key exchanges × all `ClientAuthType`s × every combination of the abstract
  facts about what the peer presented).  The tie to the code is the T2/T3 scenario matrix of real handshakes.
-/
namespace ZV.C27

/-- With verification enabled the client accepts only a server whose chain verifies and which proves possession of
    the leaf key (for the signed key exchanges and TLS 1.3: by an intact signature). -/
theorem client_completes_implies (kex : Kex) (c : ServerCred) (h : clientAccepts false kex c = true) :
    c.chainOK = true ∧ c.keyMatches = true ∧ (kex ≠ .rsa → c.sigIntact = true) := by
  cases kex <;> cases c with
  | mk a b d => cases a <;> cases b <;> cases d <;> simp_all [clientAccepts, possession]

/-- … and nothing more is required: a trusted, key-holding server with an intact signature is accepted. -/
theorem client_accepts_good (skip : Bool) (kex : Kex) : clientAccepts skip kex ⟨true, true, true⟩ = true := by
  cases skip <;> cases kex <;> rfl

/-- Each "bad" server scenario of the property (untrusted / expired / misnamed = chain does not verify; substituted
    key; corrupted signature) makes a verifying client refuse. -/
theorem bad_server_rejected (kex : Kex) (c : ServerCred)
    (hbad : c.chainOK = false ∨ c.keyMatches = false ∨ (kex ≠ .rsa ∧ c.sigIntact = false)) :
    clientAccepts false kex c = false := by
  cases kex <;> cases c with
  | mk a b d => cases a <;> cases b <;> cases d <;> simp_all [clientAccepts, possession]

/-- InsecureSkipVerify drops the chain check but not the possession proof, except for DHE (as coded). -/
theorem skipverify_still_needs_possession (kex : Kex) (c : ServerCred) (hk : kex ≠ .dhe)
    (h : clientAccepts true kex c = true) : c.keyMatches = true := by
  cases kex <;> cases c with
  | mk a b d => cases a <;> cases b <;> cases d <;> simp_all [clientAccepts, possession]

/-- `clientauth_table`, first sentence: a server REQUIRING client certificates completes only with a client that
    presents a certificate and proves possession of its key. -/
theorem clientauth_required_possession (m : Mode) (o : ClientOffer) (hreq : requiresClientCert m = true)
    (h : serverAccepts m o = true) : o.hasCert = true ∧ o.cvValid = true := by
  cases m <;> cases o with
  | mk a b d => cases a <;> cases b <;> cases d <;> simp_all [serverAccepts, requiresClientCert, Mode.toNat]

/-- second sentence: when verification is requested (VerifyClientCertIfGiven, RequireAndVerifyClientCert) a presented
    certificate is accepted only if its chain verifies — and always only with a valid CertificateVerify. -/
theorem clientauth_verify_chain (m : Mode) (o : ClientOffer) (hm : m = .verifyIfGiven ∨ m = .requireAndVerify)
    (hc : o.hasCert = true) (h : serverAccepts m o = true) : o.chainOK = true ∧ o.cvValid = true := by
  rcases hm with rfl | rfl <;> cases o with
  | mk a b d => cases a <;> cases b <;> cases d <;> simp_all [serverAccepts, requiresClientCert, Mode.toNat]

/-- in every mode a presented certificate needs a valid CertificateVerify (whenever certificates are requested) -/
theorem clientauth_cert_needs_cv (m : Mode) (o : ClientOffer) (hm : m ≠ .noClientCert) (hc : o.hasCert = true)
    (h : serverAccepts m o = true) : o.cvValid = true := by
  cases m <;> cases o with
  | mk a b d => cases a <;> cases b <;> cases d <;> simp_all [serverAccepts, requiresClientCert, Mode.toNat]

/-- the full decision table, mode by mode (completeness: nothing else is rejected) -/
theorem clientauth_table (o : ClientOffer) :
    serverAccepts .noClientCert o = true ∧
    serverAccepts .request o = (!o.hasCert || o.cvValid) ∧
    serverAccepts .requireAny o = (o.hasCert && o.cvValid) ∧
    serverAccepts .verifyIfGiven o = (!o.hasCert || (o.chainOK && o.cvValid)) ∧
    serverAccepts .requireAndVerify o = (o.hasCert && o.chainOK && o.cvValid) := by
  cases o with
  | mk a b d => cases a <;> cases b <;> cases d <;> simp [serverAccepts, requiresClientCert, Mode.toNat]

/-- RequireAndVerifyClientCert: the server side of a completed handshake has all three facts; and the server never
    completes unless the client also accepted the server. -/
theorem mutual_auth_complete (tls13 : Bool) (kex : Kex) (c : ServerCred) (o : ClientOffer)
    (h : (outcome tls13 (clientAccepts false kex c) (serverAccepts .requireAndVerify o)).2 = true) :
    c.chainOK = true ∧ c.keyMatches = true ∧ o.hasCert = true ∧ o.chainOK = true ∧ o.cvValid = true := by
  cases tls13 <;> cases kex <;> cases c with
  | mk a b d => cases o with
    | mk e f g =>
      cases a <;> cases b <;> cases d <;> cases e <;> cases f <;> cases g <;>
        simp_all [outcome, clientAccepts, possession, serverAccepts, requiresClientCert, Mode.toNat]

example : clientAccepts false .ecdhe ⟨true, true, true⟩ = true := rfl
example : serverAccepts .requireAndVerify ⟨true, true, true⟩ = true := rfl
example : requiresClientCert .requireAny = true := rfl

end ZV.C27
