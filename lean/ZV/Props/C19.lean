import ZV.Proofs.Der0Int
import ZV.Proofs.Der0CB
/-!
  C19 — strict DER decoding is canonical in both ASN.1 codecs.

  Every theorem has the shape `decode input = ok value → encode value = consumed input`
  for ALL byte strings, where `decode`/`encode` are the executable models of the
  zcrypto functions in `ZV.Model.Der0` (tied to the Go code by the T2 stream `c19`).
  `EA` = encoding/asn1, `CB` = cryptobyte (with the fixes for D2/D28 in `readBase128Int`).
-/
open ZV ZV.Der0
namespace ZV.C19

/-! ## encoding/asn1 -/

/-- INTEGER → int64: re-encoding with `int64Encoder` reproduces the contents octets. -/
theorem ea_int64_canonical (bs : Bytes) (v : Int) (h : EA.parseInt64 bs = .ok v) :
    EA.encodeInt64 v = bs := by
  unfold EA.parseInt64 at h
  split at h
  · simp at h
  · rename_i hc
    split at h
    · simp at h
    · simp only [Res.ok.injEq] at h
      subst h
      have hc' : checkInteger bs = true := by simpa using hc
      obtain ⟨h1, h2⟩ := int_canon hc'
      simp [EA.encodeInt64, h1, h2]

example : EA.parseInt64 [0x00, 0x80] = .ok 128 ∧ EA.parseInt64 [0xff, 0x7f] = .ok (-129) := by decide

/-- INTEGER → int32. -/
theorem ea_int32_canonical (bs : Bytes) (v : Int) (h : EA.parseInt32 bs = .ok v) :
    EA.encodeInt64 v = bs := by
  unfold EA.parseInt32 at h
  split at h
  · simp at h
  · split at h
    · rename_i w hw
      split at h
      · simp at h
      · simp only [Res.ok.injEq] at h
        subst h
        exact ea_int64_canonical bs w hw
    · simp at h
    · simp at h

/-- INTEGER → *big.Int, any length: `makeBigInt (parseBigInt bs) = bs`. -/
theorem ea_bigint_canonical (bs : Bytes) (v : Int) (h : EA.parseBigInt bs = .ok v) :
    EA.makeBigInt v = bs := by
  unfold EA.parseBigInt at h
  split at h
  · simp at h
  · rename_i hc
    simp only [Res.ok.injEq] at h
    subst h
    have hc' : checkInteger bs = true := by simpa using hc
    rw [bigOfBytes_eq_twos]
    exact bigIntBytes_canon hc'

example : EA.parseBigInt [0xff, 0x7f, 0x00] = .ok (-33024) := by decide

/-- non-minimal INTEGER contents are rejected by every integer parser of both codecs
    (all of them start with `checkInteger`). -/
theorem rejects_nonminimal_integer (b : UInt8) (t : Bytes) :
    (b.toNat < 128 → checkInteger (0x00 :: b :: t) = false) ∧
    (b.toNat ≥ 128 → checkInteger (0xff :: b :: t) = false) := by
  constructor <;> intro h <;> simp [checkInteger, h]

theorem ea_rejects_nonminimal_integer (b : UInt8) (t : Bytes) (h : b.toNat < 128) :
    EA.parseInt64 (0x00 :: b :: t) = .err ∧ EA.parseInt32 (0x00 :: b :: t) = .err ∧
    EA.parseBigInt (0x00 :: b :: t) = .err := by
  have := (rejects_nonminimal_integer b t).1 h
  simp [EA.parseInt64, EA.parseInt32, EA.parseBigInt, this]

/-- BOOLEAN -/
theorem ea_bool_canonical (bs : Bytes) (v : Bool) (h : EA.parseBool bs = .ok v) :
    boolContent v = bs := by
  unfold EA.parseBool boolOfContent at h
  split at h
  · rename_i b
    split at h
    · rename_i h0; simp only [Res.ok.injEq] at h; subst h
      simp [boolContent]; exact (by simpa using h0 : b = 0).symm
    · split at h
      · rename_i hf; simp only [Res.ok.injEq] at h; subst h
        simp [boolContent]; exact (by simpa using hf : b = 0xff).symm
      · simp at h
  · simp at h

/-- base-128: `appendBase128Int (parseBase128Int bs)` = the consumed prefix (minimal per arc). -/
theorem ea_base128_canonical (bs : Bytes) (v : Nat) (rest : Bytes)
    (h : EA.parseBase128Int bs = .ok (v, rest)) :
    ∃ pre, bs = pre ++ rest ∧ appendBase128 v = pre := by
  obtain ⟨pre, h1, _, h3⟩ := EA.parseBase128Int_canon h
  exact ⟨pre, h1, h3⟩

/-- a sub-identifier with a leading 0x80 octet is rejected (encoding/asn1 and cryptobyte). -/
theorem rejects_leading_0x80 (t : Bytes) :
    EA.parseBase128Int (0x80 :: t) = .err ∧ CB.readBase128Int (0x80 :: t) = .err := by
  simp [EA.parseBase128Int, EA.b128Loop, CB.readBase128Int, CB.b128Loop]

/-- OBJECT IDENTIFIER: `oidEncoder (parseObjectIdentifier bs) = bs`, and the parsed OID always
    passes `makeObjectIdentifier`'s validity check. -/
theorem ea_oid_canonical (bs : Bytes) (o : List Nat) (h : EA.parseObjectIdentifier bs = .ok o) :
    EA.encodeOID o = .ok bs := by
  unfold EA.parseObjectIdentifier at h
  split at h
  · simp at h
  · rename_i b t
    split at h
    · rename_i v rest hp
      split at h
      · rename_i vs hv
        simp only [Res.ok.injEq] at h
        subst h
        obtain ⟨pre, h1, _, h3⟩ := EA.parseBase128Int_canon hp
        obtain ⟨a, c, hs, hac, ha2, hc40⟩ := splitFirst_spec v
        have hr := EA.oidArcs_canon _ _ _ hv
        rw [hs]
        simp only [List.cons_append, List.nil_append, EA.encodeOID]
        have : ¬ (a > 2 ∨ (a < 2 ∧ c ≥ 40)) := by omega
        simp only [this, if_false, oidBody, hac, h3, hr, h1]
      · simp at h
      · simp at h
    · simp at h
    · simp at h

example : EA.parseObjectIdentifier [0x2a, 0x86, 0x48] = .ok [1, 2, 840] := by decide

/-- BIT STRING: re-encoding reproduces the contents, … -/
theorem ea_bits_canonical (bs : Bytes) (v : EA.BitString) (h : EA.parseBitString bs = .ok v) :
    EA.encodeBitString v = bs := by
  match bs, h with
  | b0 :: tl, h =>
    simp only [EA.parseBitString] at h
    have hb := toNat_lt b0
    split at h
    · simp at h
    · rename_i hp7
      split at h
      · simp at h
      · rename_i hp1
        split at h
        · simp at h
        · simp only [Res.ok.injEq] at h
          subst h
          simp only [EA.encodeBitString, List.length_cons, List.cons.injEq, and_true]
          unfold byteOfInt
          apply ofNat_eq_of
          simp only [List.length_cons] at hp1
          have hl : tl.length = 0 → b0.toNat = 0 := by omega
          generalize tl.length = n at *
          generalize b0.toNat = p at *
          push_cast
          have hnn : (0 : Int) ≤ ((n : Int) + 1 - 1) * 8 - p := by
            rcases Nat.eq_zero_or_pos n with h0 | h0
            · have := hl h0; omega
            · omega
          rw [Int.tmod_eq_emod_of_nonneg hnn]
          have h8 : (0 : Int) ≤ 8 - (((n : Int) + 1 - 1) * 8 - p) % 8 := by omega
          rw [Int.tmod_eq_emod_of_nonneg h8]
          omega

/-- … and an accepted BIT STRING has `pad ≤ 7` and all `pad` unused bits zero. -/
theorem ea_bits_padding_zero (b0 : UInt8) (tl : Bytes) (v : EA.BitString)
    (h : EA.parseBitString (b0 :: tl) = .ok v) :
    b0.toNat ≤ 7 ∧ (lastByte (b0 :: tl)).toNat % 2 ^ b0.toNat = 0 ∧ (tl = [] → b0.toNat = 0) := by
  simp only [EA.parseBitString] at h
  split at h
  · simp at h
  · split at h
    · simp at h
    · split at h
      · simp at h
      · rename_i h1 h2 h3
        simp only [List.length_cons] at h2
        refine ⟨by omega, by simpa using h3, ?_⟩
        intro ht; subst ht; simp at h2; omega

/-- identifier + length octets: `appendTagAndLength (parseTagAndLength bs)` = the consumed header
    (minimal tag form, minimal length form, no indefinite length). -/
theorem ea_header_canonical (bs : Bytes) (t : EA.TagAndLength) (rest : Bytes)
    (h : EA.parseTagAndLength bs = .ok (t, rest)) :
    ∃ pre, bs = pre ++ rest ∧ EA.appendTagAndLength t = pre :=
  EA.parseTagAndLength_canon h

example : EA.parseTagAndLength [0x30, 0x82, 0x01, 0x00, 0xaa] =
    .ok ({ cls := 0, compound := true, tag := 16, length := 256 }, [0xaa]) := by decide

/-- indefinite length (0x80) is rejected by both header parsers -/
theorem rejects_indefinite_length (b : UInt8) (t : Bytes) (hb : b.toNat % 32 ≠ 31) :
    EA.parseTagAndLength (b :: 0x80 :: t) = .err ∧ CB.readASN1 (b :: 0x80 :: t) = .err := by
  constructor
  · simp [EA.parseTagAndLength, hb, EA.parseLength]
  · simp [CB.readASN1, hb]

/-- long-form lengths below 128 and lengths with a leading zero octet are rejected (encoding/asn1) -/
theorem ea_rejects_nonminimal_length (b l : UInt8) (t : Bytes) (hb : b.toNat % 32 ≠ 31) :
    (l.toNat < 128 → EA.parseTagAndLength (b :: 0x81 :: l :: t) = .err) ∧
    EA.parseTagAndLength (b :: 0x82 :: 0x00 :: l :: t) = .err := by
  constructor
  · intro hl
    simp only [EA.parseTagAndLength, hb, if_false, EA.parseLength]
    by_cases h0 : l.toNat = 0
    · simp [EA.lenLoop, h0]
    · simp [EA.lenLoop, h0, hl]
  · simp [EA.parseTagAndLength, hb, EA.parseLength, EA.lenLoop]

/-! ## cryptobyte -/

/-- `ReadAnyASN1`: the consumed bytes are exactly what `AddASN1(tag){AddBytes(body)}` writes
    (single identifier octet, minimal definite length). -/
theorem cb_element_canonical (s : Bytes) (e : CB.Elem) (h : CB.readASN1 s = .ok e) :
    ∃ pre, CB.element e.tag e.body = .ok pre ∧ s = pre ++ e.rest := by
  obtain ⟨l, h1, h2, h3, _⟩ := CB.readASN1_canon h
  refine ⟨e.tag :: l ++ e.body, ?_, h2⟩
  simp [CB.element, h3, h1]

/-- `readASN1` never reaches `panic("cryptobyte: internal error")`. -/
theorem cb_readASN1_no_panic (s : Bytes) : CB.readASN1 s ≠ .panic := CB.readASN1_no_panic s

theorem cb_readASN1Tag_canonical {s : Bytes} {tag : UInt8} {body rest : Bytes}
    (h : CB.readASN1Tag s tag = .ok (body, rest)) :
    ∃ pre, CB.element tag body = .ok pre ∧ s = pre ++ rest := by
  unfold CB.readASN1Tag at h
  split at h
  · rename_i e he
    split at h
    · simp at h
    · rename_i ht
      simp only [Res.ok.injEq, Prod.mk.injEq] at h
      obtain ⟨hb, hr⟩ := h
      have ht' : e.tag = tag := by simpa using ht
      subst hb; subst hr; subst ht'
      exact cb_element_canonical s e he
  · simp at h
  · simp at h

theorem uintLen_eq_intLen (n : Nat) : CB.uintLen n = intLen (n : Int) := by
  induction n using Nat.strongRecOn with
  | _ n ih =>
    rw [CB.uintLen, intLen]
    by_cases h : n ≥ 128
    · have h' : (n : Int) > 127 ∨ (n : Int) < -128 := by omega
      rw [dif_pos h, dif_pos h', ih (n / 256) (by omega)]
      congr 2
    · have h' : ¬ ((n : Int) > 127 ∨ (n : Int) < -128) := by omega
      rw [dif_neg h, dif_neg h']

/-- `ReadASN1Integer(*int64)` then `AddASN1Int64` reproduces the consumed element. -/
theorem cb_int64_canonical (s : Bytes) (v : Int) (rest : Bytes) (h : CB.readInt64 s = .ok (v, rest)) :
    ∃ pre, CB.addASN1Int64 v = .ok pre ∧ s = pre ++ rest := by
  unfold CB.readInt64 CB.readInt64Tag at h
  split at h
  · rename_i body r hr
    split at h
    · simp at h
    · rename_i hc
      have hc' : checkInteger body = true := by simpa using hc
      unfold CB.asn1Signed at h
      by_cases h8 : body.length > 8
      · simp [h8] at h
      · simp only [h8, if_false, Res.ok.injEq, Prod.mk.injEq] at h
        obtain ⟨hv, hrest⟩ := h
        subst hv; subst hrest
        obtain ⟨h1, h2⟩ := int_canon hc'
        simpa [CB.addASN1Int64, CB.signedContent, h1, h2] using cb_readASN1Tag_canonical hr
  · simp at h
  · simp at h

/-- `ReadASN1Integer(*uint64)` then `AddASN1Uint64`. -/
theorem cb_uint64_canonical (s : Bytes) (v : Nat) (rest : Bytes) (h : CB.readUint64 s = .ok (v, rest)) :
    ∃ pre, CB.addASN1Uint64 v = .ok pre ∧ s = pre ++ rest := by
  unfold CB.readUint64 at h
  split at h
  · rename_i body r hr
    split at h
    · simp at h
    · rename_i hc
      have hc' : checkInteger body = true := by simpa using hc
      match body, hc', hr with
      | b0 :: t, hc', hr =>
        by_cases hA : (b0 :: t).length > 9 ∨ ((b0 :: t).length = 9 ∧ b0 ≠ 0)
        · simp only [CB.asn1Unsigned, hA, if_true] at h; simp at h
        · by_cases hpos : b0.toNat ≥ 128
          · simp [CB.asn1Unsigned, hA, hpos] at h
          · simp only [CB.asn1Unsigned, hA, hpos, if_false, Res.ok.injEq, Prod.mk.injEq] at h
            obtain ⟨hv, hrest⟩ := h
            subst hv; subst hrest
            have htw : twos (b0 :: t) = (natOfBytes (b0 :: t) : Int) := by simp [twos, hpos]
            obtain ⟨h1, h2⟩ := int_canon hc'
            rw [htw] at h1 h2
            have hcont : CB.unsignedContent (natOfBytes (b0 :: t)) = b0 :: t := by
              rw [CB.unsignedContent, uintLen_eq_intLen, h1, h2]
            simpa [CB.addASN1Uint64, hcont] using cb_readASN1Tag_canonical hr
  · simp at h
  · simp at h

/-- `ReadASN1Integer(*big.Int)` then `AddASN1BigInt`, any length. -/
theorem cb_bigint_canonical (s : Bytes) (v : Int) (rest : Bytes) (h : CB.readBigInt s = .ok (v, rest)) :
    ∃ pre, CB.addASN1BigInt v = .ok pre ∧ s = pre ++ rest := by
  unfold CB.readBigInt at h
  split at h
  · rename_i body r hr
    split at h
    · simp at h
    · rename_i hc
      have hc' : checkInteger body = true := by simpa using hc
      simp only [Res.ok.injEq, Prod.mk.injEq] at h
      obtain ⟨hv, hrest⟩ := h
      subst hv; subst hrest
      rw [bigOfBytes_eq_twos]
      simpa [CB.addASN1BigInt, bigIntBytes_canon hc'] using cb_readASN1Tag_canonical hr
  · simp at h
  · simp at h

example : CB.readInt64 [0x02, 0x02, 0x00, 0x80, 0x07] = .ok (128, [0x07]) := by decide

/-- `ReadASN1Boolean` then `AddASN1Boolean`. -/
theorem cb_bool_canonical (s : Bytes) (v : Bool) (rest : Bytes) (h : CB.readBool s = .ok (v, rest)) :
    ∃ pre, CB.addASN1Boolean v = .ok pre ∧ s = pre ++ rest := by
  unfold CB.readBool at h
  split at h
  · rename_i body r hr
    split at h
    · rename_i w hw
      simp only [Res.ok.injEq, Prod.mk.injEq] at h
      obtain ⟨hv, hrest⟩ := h
      subst hv; subst hrest
      have := ea_bool_canonical body w hw
      simpa [CB.addASN1Boolean, this] using cb_readASN1Tag_canonical hr
    · simp at h
    · simp at h
  · simp at h
  · simp at h

/-- `ReadASN1ObjectIdentifier` then `AddASN1ObjectIdentifier` (this is the theorem that was
    unprovable before the fix for D2: `06 03 2a 80 01` used to decode to 1.2.1). -/
theorem cb_oid_canonical (s : Bytes) (o : List Nat) (rest : Bytes) (h : CB.readOID s = .ok (o, rest)) :
    ∃ pre, CB.addASN1OID o = .ok pre ∧ s = pre ++ rest := by
  unfold CB.readOID at h
  split at h
  · rename_i body r hr
    split at h
    · simp at h
    · rename_i b t
      split at h
      · rename_i v r2 hp
        split at h
        · rename_i vs hv
          simp only [Res.ok.injEq, Prod.mk.injEq] at h
          obtain ⟨ho, hrest⟩ := h
          subst ho; subst hrest
          obtain ⟨pre, h1, _, h3⟩ := CB.readBase128Int_canon hp
          obtain ⟨a, c, hs, hac, ha2, hc40⟩ := splitFirst_spec v
          have hr2 := CB.oidArcs_canon _ _ _ hv
          have hbody : oidBody (splitFirst v ++ vs) = b :: t := by
            rw [hs]; simp only [List.cons_append, List.nil_append, oidBody, hac, h3, hr2, h1]
          have hvalid : CB.isValidOID (splitFirst v ++ vs) = true := by
            rw [hs]; simp only [List.cons_append, List.nil_append, CB.isValidOID]
            simp; omega
          simpa [CB.addASN1OID, hvalid, hbody] using cb_readASN1Tag_canonical hr
        · simp at h
        · simp at h
      · simp at h
      · simp at h
  · simp at h
  · simp at h

example : CB.readOID [0x06, 0x03, 0x2a, 0x80, 0x01] = .err := by decide
example : CB.readOID [0x06, 0x06, 0x2a, 0x81, 0x80, 0x80, 0x80, 0x00] = .ok ([1, 2, 268435456], []) := by decide

/-- `ReadASN1BitString`: the consumed element is `[BIT STRING, pad, bytes]` with the pad octet
    recomputed from `BitLength`, pad ≤ 7 and the unused bits zero. -/
theorem cb_bits_canonical (s : Bytes) (v : EA.BitString) (rest : Bytes)
    (h : CB.readBitString s = .ok (v, rest)) :
    ∃ pre pad, CB.addASN1BitString pad v.bytes = .ok pre ∧ s = pre ++ rest ∧
      pad = byteOfInt ((8 - v.bitLength.tmod 8).tmod 8) ∧ pad.toNat ≤ 7 ∧
      (v.bytes ≠ [] → (lastByte v.bytes).toNat % 2 ^ pad.toNat = 0) ∧ (v.bytes = [] → pad = 0) := by
  unfold CB.readBitString at h
  split at h
  · rename_i body r hr
    split at h
    · simp at h
    · rename_i b0 data
      have hb := toNat_lt b0
      simp only at h
      split at h
      · simp at h
      · rename_i hp7
        split at h
        · simp at h
        · rename_i hp1
          split at h
          · simp at h
          · rename_i hp2
            simp only [Res.ok.injEq, Prod.mk.injEq] at h
            obtain ⟨hv, hrest⟩ := h
            subst hv; subst hrest
            have hpad : byteOfInt ((8 - ((data.length : Int) * 8 - b0.toNat).tmod 8).tmod 8) = b0 := by
              unfold byteOfInt
              apply ofNat_eq_of
              have hl : data.length = 0 → b0.toNat = 0 := by omega
              generalize data.length = n at *
              generalize b0.toNat = p at *
              have hnn : (0 : Int) ≤ (n : Int) * 8 - p := by
                rcases Nat.eq_zero_or_pos n with h0 | h0
                · have := hl h0; omega
                · omega
              rw [Int.tmod_eq_emod_of_nonneg hnn]
              have h8 : (0 : Int) ≤ 8 - ((n : Int) * 8 - p) % 8 := by omega
              rw [Int.tmod_eq_emod_of_nonneg h8]
              omega
            obtain ⟨pre, hq1, hq2⟩ := cb_readASN1Tag_canonical hr
            refine ⟨pre, b0, hq1, hq2, hpad.symm, by omega, ?_, ?_⟩
            · intro hne
              have : data.length > 0 := by cases data with | nil => exact absurd rfl hne | cons _ _ => simp
              simpa using fun h' => hp2 ⟨this, h'⟩
            · intro he
              simp only at he
              subst he
              apply eq_of_toNat
              simp at hp1; simpa using hp1
  · simp at h
  · simp at h

/-- consequence of canonicity: a strict decoder is injective on what it consumes — two accepted
    inputs with the same value and the same unread rest are the same bytes (shown for the element reader). -/
theorem cb_element_injective (s₁ s₂ : Bytes) (e₁ e₂ : CB.Elem)
    (h₁ : CB.readASN1 s₁ = .ok e₁) (h₂ : CB.readASN1 s₂ = .ok e₂)
    (ht : e₁.tag = e₂.tag) (hb : e₁.body = e₂.body) (hr : e₁.rest = e₂.rest) : s₁ = s₂ := by
  obtain ⟨p₁, a₁, b₁⟩ := cb_element_canonical s₁ e₁ h₁
  obtain ⟨p₂, a₂, b₂⟩ := cb_element_canonical s₂ e₂ h₂
  rw [ht, hb] at a₁
  rw [a₁] at a₂
  simp only [Res.ok.injEq] at a₂
  rw [b₁, b₂, a₂, hr]

end ZV.C19
