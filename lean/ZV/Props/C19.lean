import ZV.Proofs.Der0Int
import ZV.Proofs.Der0CB
import ZV.Proofs.TimeInv
import ZV.Proofs.C19Agree
import ZV.Generated.C19
/-!
  C19 — strict DER decoding is canonical in both ASN.1 codecs.

  Every theorem has the shape `decode input = ok value → encode value = consumed input`
  for ALL byte strings, where `decode`/`encode` are the executable models of the
  zcrypto functions in `ZV.Model.Der0` (tied to the Go code by the T2 stream `c19`).
  `EA` = encoding/asn1, `CB` = cryptobyte (with the fixes for D2/D28 in `readBase128Int`).
  Time values (last section): the decoders and encoders of `ZV.Model.Time` (`time.Parse` / `Time.Format` for the
  three ASN.1 layouts are modelled there, tied to the Go code by the T2 streams `c18 tp/tf/tc/td/tpc/tac` and
  `c19 cb-gtime/cb-utime`).
-/
open ZV ZV.Der0
namespace ZV.C19

/-! ## encoding/asn1 -/

/-- INTEGER → int64: re-encoding with `int64Encoder` reproduces the contents octets. -/
theorem ea_int64_canonical (bs : Bytes) (v : Int) (h : EA.parseInt64 bs = .ok v) :
    EA.encodeInt64 v = bs := by
  unfold EA.parseInt64 at h
  split at h
  · simp at h
  · rename_i hc
    split at h
    · simp at h
    · simp only [Res.ok.injEq] at h
      subst h
      have hc' : checkInteger bs = true := by simpa using hc
      obtain ⟨h1, h2⟩ := int_canon hc'
      simp [EA.encodeInt64, h1, h2]

example : EA.parseInt64 [0x00, 0x80] = .ok 128 ∧ EA.parseInt64 [0xff, 0x7f] = .ok (-129) := by decide

/-- INTEGER → int32. -/
theorem ea_int32_canonical (bs : Bytes) (v : Int) (h : EA.parseInt32 bs = .ok v) :
    EA.encodeInt64 v = bs := by
  unfold EA.parseInt32 at h
  split at h
  · simp at h
  · split at h
    · rename_i w hw
      split at h
      · simp at h
      · simp only [Res.ok.injEq] at h
        subst h
        exact ea_int64_canonical bs w hw
    · simp at h
    · simp at h

/-- INTEGER → *big.Int, any length: `makeBigInt (parseBigInt bs) = bs`. -/
theorem ea_bigint_canonical (bs : Bytes) (v : Int) (h : EA.parseBigInt bs = .ok v) :
    EA.makeBigInt v = bs := by
  unfold EA.parseBigInt at h
  split at h
  · simp at h
  · rename_i hc
    simp only [Res.ok.injEq] at h
    subst h
    have hc' : checkInteger bs = true := by simpa using hc
    rw [bigOfBytes_eq_twos]
    exact bigIntBytes_canon hc'

example : EA.parseBigInt [0xff, 0x7f, 0x00] = .ok (-33024) := by decide

/-- non-minimal INTEGER contents are rejected by every integer parser of both codecs
    (all of them start with `checkInteger`). -/
theorem rejects_nonminimal_integer (b : UInt8) (t : Bytes) :
    (b.toNat < 128 → checkInteger (0x00 :: b :: t) = false) ∧
    (b.toNat ≥ 128 → checkInteger (0xff :: b :: t) = false) := by
  constructor <;> intro h <;> simp [checkInteger, h]

theorem ea_rejects_nonminimal_integer (b : UInt8) (t : Bytes) (h : b.toNat < 128) :
    EA.parseInt64 (0x00 :: b :: t) = .err ∧ EA.parseInt32 (0x00 :: b :: t) = .err ∧
    EA.parseBigInt (0x00 :: b :: t) = .err := by
  have := (rejects_nonminimal_integer b t).1 h
  simp [EA.parseInt64, EA.parseInt32, EA.parseBigInt, this]

/-- BOOLEAN -/
theorem ea_bool_canonical (bs : Bytes) (v : Bool) (h : EA.parseBool bs = .ok v) :
    boolContent v = bs := by
  unfold EA.parseBool boolOfContent at h
  split at h
  · rename_i b
    split at h
    · rename_i h0; simp only [Res.ok.injEq] at h; subst h
      simp [boolContent]; exact (by simpa using h0 : b = 0).symm
    · split at h
      · rename_i hf; simp only [Res.ok.injEq] at h; subst h
        simp [boolContent]; exact (by simpa using hf : b = 0xff).symm
      · simp at h
  · simp at h

/-- base-128: `appendBase128Int (parseBase128Int bs)` = the consumed prefix (minimal per arc). -/
theorem ea_base128_canonical (bs : Bytes) (v : Nat) (rest : Bytes)
    (h : EA.parseBase128Int bs = .ok (v, rest)) :
    ∃ pre, bs = pre ++ rest ∧ appendBase128 v = pre := by
  obtain ⟨pre, h1, _, h3⟩ := EA.parseBase128Int_canon h
  exact ⟨pre, h1, h3⟩

/-- a sub-identifier with a leading 0x80 octet is rejected (encoding/asn1 and cryptobyte). -/
theorem rejects_leading_0x80 (t : Bytes) :
    EA.parseBase128Int (0x80 :: t) = .err ∧ CB.readBase128Int (0x80 :: t) = .err := by
  simp [EA.parseBase128Int, EA.b128Loop, CB.readBase128Int, CB.b128Loop]

/-- OBJECT IDENTIFIER: `oidEncoder (parseObjectIdentifier bs) = bs`, and the parsed OID always
    passes `makeObjectIdentifier`'s validity check. -/
theorem ea_oid_canonical (bs : Bytes) (o : List Nat) (h : EA.parseObjectIdentifier bs = .ok o) :
    EA.encodeOID o = .ok bs := by
  unfold EA.parseObjectIdentifier at h
  split at h
  · simp at h
  · rename_i b t
    split at h
    · rename_i v rest hp
      split at h
      · rename_i vs hv
        simp only [Res.ok.injEq] at h
        subst h
        obtain ⟨pre, h1, _, h3⟩ := EA.parseBase128Int_canon hp
        obtain ⟨a, c, hs, hac, ha2, hc40⟩ := splitFirst_spec v
        have hr := EA.oidArcs_canon _ _ _ hv
        rw [hs]
        simp only [List.cons_append, List.nil_append, EA.encodeOID]
        have : ¬ (a > 2 ∨ (a < 2 ∧ c ≥ 40)) := by omega
        simp only [this, if_false, oidBody, hac, h3, hr, h1]
      · simp at h
      · simp at h
    · simp at h
    · simp at h

example : EA.parseObjectIdentifier [0x2a, 0x86, 0x48] = .ok [1, 2, 840] := by decide

/-- BIT STRING: re-encoding reproduces the contents, … -/
theorem ea_bits_canonical (bs : Bytes) (v : EA.BitString) (h : EA.parseBitString bs = .ok v) :
    EA.encodeBitString v = bs := by
  match bs, h with
  | b0 :: tl, h =>
    simp only [EA.parseBitString] at h
    have hb := toNat_lt b0
    split at h
    · simp at h
    · rename_i hp7
      split at h
      · simp at h
      · rename_i hp1
        split at h
        · simp at h
        · simp only [Res.ok.injEq] at h
          subst h
          simp only [EA.encodeBitString, List.length_cons, List.cons.injEq, and_true]
          unfold byteOfInt
          apply ofNat_eq_of
          simp only [List.length_cons] at hp1
          have hl : tl.length = 0 → b0.toNat = 0 := by omega
          generalize tl.length = n at *
          generalize b0.toNat = p at *
          push_cast
          have hnn : (0 : Int) ≤ ((n : Int) + 1 - 1) * 8 - p := by
            rcases Nat.eq_zero_or_pos n with h0 | h0
            · have := hl h0; omega
            · omega
          rw [Int.tmod_eq_emod_of_nonneg hnn]
          have h8 : (0 : Int) ≤ 8 - (((n : Int) + 1 - 1) * 8 - p) % 8 := by omega
          rw [Int.tmod_eq_emod_of_nonneg h8]
          omega

/-- … and an accepted BIT STRING has `pad ≤ 7` and all `pad` unused bits zero. -/
theorem ea_bits_padding_zero (b0 : UInt8) (tl : Bytes) (v : EA.BitString)
    (h : EA.parseBitString (b0 :: tl) = .ok v) :
    b0.toNat ≤ 7 ∧ (lastByte (b0 :: tl)).toNat % 2 ^ b0.toNat = 0 ∧ (tl = [] → b0.toNat = 0) := by
  simp only [EA.parseBitString] at h
  split at h
  · simp at h
  · split at h
    · simp at h
    · split at h
      · simp at h
      · rename_i h1 h2 h3
        simp only [List.length_cons] at h2
        refine ⟨by omega, by simpa using h3, ?_⟩
        intro ht; subst ht; simp at h2; omega

/-- identifier + length octets: `appendTagAndLength (parseTagAndLength bs)` = the consumed header
    (minimal tag form, minimal length form, no indefinite length). -/
theorem ea_header_canonical (bs : Bytes) (t : EA.TagAndLength) (rest : Bytes)
    (h : EA.parseTagAndLength bs = .ok (t, rest)) :
    ∃ pre, bs = pre ++ rest ∧ EA.appendTagAndLength t = pre :=
  EA.parseTagAndLength_canon h

example : EA.parseTagAndLength [0x30, 0x82, 0x01, 0x00, 0xaa] =
    .ok ({ cls := 0, compound := true, tag := 16, length := 256 }, [0xaa]) := by decide

/-- indefinite length (0x80) is rejected by both header parsers -/
theorem rejects_indefinite_length (b : UInt8) (t : Bytes) (hb : b.toNat % 32 ≠ 31) :
    EA.parseTagAndLength (b :: 0x80 :: t) = .err ∧ CB.readASN1 (b :: 0x80 :: t) = .err := by
  constructor
  · simp [EA.parseTagAndLength, hb, EA.parseLength]
  · simp [CB.readASN1, hb]

/-- long-form lengths below 128 and lengths with a leading zero octet are rejected (encoding/asn1) -/
theorem ea_rejects_nonminimal_length (b l : UInt8) (t : Bytes) (hb : b.toNat % 32 ≠ 31) :
    (l.toNat < 128 → EA.parseTagAndLength (b :: 0x81 :: l :: t) = .err) ∧
    EA.parseTagAndLength (b :: 0x82 :: 0x00 :: l :: t) = .err := by
  constructor
  · intro hl
    simp only [EA.parseTagAndLength, hb, if_false, EA.parseLength]
    by_cases h0 : l.toNat = 0
    · simp [EA.lenLoop, h0]
    · simp [EA.lenLoop, h0, hl]
  · simp [EA.parseTagAndLength, hb, EA.parseLength, EA.lenLoop]

/-! ## cryptobyte -/

/-- `ReadAnyASN1`: the consumed bytes are exactly what `AddASN1(tag){AddBytes(body)}` writes
    (single identifier octet, minimal definite length). -/
theorem cb_element_canonical (s : Bytes) (e : CB.Elem) (h : CB.readASN1 s = .ok e) :
    ∃ pre, CB.element e.tag e.body = .ok pre ∧ s = pre ++ e.rest := by
  obtain ⟨l, h1, h2, h3, _⟩ := CB.readASN1_canon h
  refine ⟨e.tag :: l ++ e.body, ?_, h2⟩
  simp [CB.element, h3, h1]

/-- `readASN1` never reaches `panic("cryptobyte: internal error")`. -/
theorem cb_readASN1_no_panic (s : Bytes) : CB.readASN1 s ≠ .panic := CB.readASN1_no_panic s

theorem cb_readASN1Tag_canonical {s : Bytes} {tag : UInt8} {body rest : Bytes}
    (h : CB.readASN1Tag s tag = .ok (body, rest)) :
    ∃ pre, CB.element tag body = .ok pre ∧ s = pre ++ rest := by
  unfold CB.readASN1Tag at h
  split at h
  · rename_i e he
    split at h
    · simp at h
    · rename_i ht
      simp only [Res.ok.injEq, Prod.mk.injEq] at h
      obtain ⟨hb, hr⟩ := h
      have ht' : e.tag = tag := by simpa using ht
      subst hb; subst hr; subst ht'
      exact cb_element_canonical s e he
  · simp at h
  · simp at h

theorem uintLen_eq_intLen (n : Nat) : CB.uintLen n = intLen (n : Int) := by
  induction n using Nat.strongRecOn with
  | _ n ih =>
    rw [CB.uintLen, intLen]
    by_cases h : n ≥ 128
    · have h' : (n : Int) > 127 ∨ (n : Int) < -128 := by omega
      rw [dif_pos h, dif_pos h', ih (n / 256) (by omega)]
      congr 2
    · have h' : ¬ ((n : Int) > 127 ∨ (n : Int) < -128) := by omega
      rw [dif_neg h, dif_neg h']

/-- `ReadASN1Integer(*int64)` then `AddASN1Int64` reproduces the consumed element. -/
theorem cb_int64_canonical (s : Bytes) (v : Int) (rest : Bytes) (h : CB.readInt64 s = .ok (v, rest)) :
    ∃ pre, CB.addASN1Int64 v = .ok pre ∧ s = pre ++ rest := by
  unfold CB.readInt64 CB.readInt64Tag at h
  split at h
  · rename_i body r hr
    split at h
    · simp at h
    · rename_i hc
      have hc' : checkInteger body = true := by simpa using hc
      unfold CB.asn1Signed at h
      by_cases h8 : body.length > 8
      · simp [h8] at h
      · simp only [h8, if_false, Res.ok.injEq, Prod.mk.injEq] at h
        obtain ⟨hv, hrest⟩ := h
        subst hv; subst hrest
        obtain ⟨h1, h2⟩ := int_canon hc'
        simpa [CB.addASN1Int64, CB.signedContent, h1, h2] using cb_readASN1Tag_canonical hr
  · simp at h
  · simp at h

/-- `ReadASN1Integer(*uint64)` then `AddASN1Uint64`. -/
theorem cb_uint64_canonical (s : Bytes) (v : Nat) (rest : Bytes) (h : CB.readUint64 s = .ok (v, rest)) :
    ∃ pre, CB.addASN1Uint64 v = .ok pre ∧ s = pre ++ rest := by
  unfold CB.readUint64 at h
  split at h
  · rename_i body r hr
    split at h
    · simp at h
    · rename_i hc
      have hc' : checkInteger body = true := by simpa using hc
      match body, hc', hr with
      | b0 :: t, hc', hr =>
        by_cases hA : (b0 :: t).length > 9 ∨ ((b0 :: t).length = 9 ∧ b0 ≠ 0)
        · simp only [CB.asn1Unsigned, hA, if_true] at h; simp at h
        · by_cases hpos : b0.toNat ≥ 128
          · simp [CB.asn1Unsigned, hA, hpos] at h
          · simp only [CB.asn1Unsigned, hA, hpos, if_false, Res.ok.injEq, Prod.mk.injEq] at h
            obtain ⟨hv, hrest⟩ := h
            subst hv; subst hrest
            have htw : twos (b0 :: t) = (natOfBytes (b0 :: t) : Int) := by simp [twos, hpos]
            obtain ⟨h1, h2⟩ := int_canon hc'
            rw [htw] at h1 h2
            have hcont : CB.unsignedContent (natOfBytes (b0 :: t)) = b0 :: t := by
              rw [CB.unsignedContent, uintLen_eq_intLen, h1, h2]
            simpa [CB.addASN1Uint64, hcont] using cb_readASN1Tag_canonical hr
  · simp at h
  · simp at h

/-- `ReadASN1Integer(*big.Int)` then `AddASN1BigInt`, any length. -/
theorem cb_bigint_canonical (s : Bytes) (v : Int) (rest : Bytes) (h : CB.readBigInt s = .ok (v, rest)) :
    ∃ pre, CB.addASN1BigInt v = .ok pre ∧ s = pre ++ rest := by
  unfold CB.readBigInt at h
  split at h
  · rename_i body r hr
    split at h
    · simp at h
    · rename_i hc
      have hc' : checkInteger body = true := by simpa using hc
      simp only [Res.ok.injEq, Prod.mk.injEq] at h
      obtain ⟨hv, hrest⟩ := h
      subst hv; subst hrest
      rw [bigOfBytes_eq_twos]
      simpa [CB.addASN1BigInt, bigIntBytes_canon hc'] using cb_readASN1Tag_canonical hr
  · simp at h
  · simp at h

example : CB.readInt64 [0x02, 0x02, 0x00, 0x80, 0x07] = .ok (128, [0x07]) := by decide

/-- `ReadASN1Boolean` then `AddASN1Boolean`. -/
theorem cb_bool_canonical (s : Bytes) (v : Bool) (rest : Bytes) (h : CB.readBool s = .ok (v, rest)) :
    ∃ pre, CB.addASN1Boolean v = .ok pre ∧ s = pre ++ rest := by
  unfold CB.readBool at h
  split at h
  · rename_i body r hr
    split at h
    · rename_i w hw
      simp only [Res.ok.injEq, Prod.mk.injEq] at h
      obtain ⟨hv, hrest⟩ := h
      subst hv; subst hrest
      have := ea_bool_canonical body w hw
      simpa [CB.addASN1Boolean, this] using cb_readASN1Tag_canonical hr
    · simp at h
    · simp at h
  · simp at h
  · simp at h

/-- `ReadASN1ObjectIdentifier` then `AddASN1ObjectIdentifier` (this is the theorem that was
    unprovable before the fix for D2: `06 03 2a 80 01` used to decode to 1.2.1). -/
theorem cb_oid_canonical (s : Bytes) (o : List Nat) (rest : Bytes) (h : CB.readOID s = .ok (o, rest)) :
    ∃ pre, CB.addASN1OID o = .ok pre ∧ s = pre ++ rest := by
  unfold CB.readOID at h
  split at h
  · rename_i body r hr
    split at h
    · simp at h
    · rename_i b t
      split at h
      · rename_i v r2 hp
        split at h
        · rename_i vs hv
          simp only [Res.ok.injEq, Prod.mk.injEq] at h
          obtain ⟨ho, hrest⟩ := h
          subst ho; subst hrest
          obtain ⟨pre, h1, _, h3⟩ := CB.readBase128Int_canon hp
          obtain ⟨a, c, hs, hac, ha2, hc40⟩ := splitFirst_spec v
          have hr2 := CB.oidArcs_canon _ _ _ hv
          have hbody : oidBody (splitFirst v ++ vs) = b :: t := by
            rw [hs]; simp only [List.cons_append, List.nil_append, oidBody, hac, h3, hr2, h1]
          have hvalid : CB.isValidOID (splitFirst v ++ vs) = true := by
            rw [hs]; simp only [List.cons_append, List.nil_append, CB.isValidOID]
            simp; omega
          simpa [CB.addASN1OID, hvalid, hbody] using cb_readASN1Tag_canonical hr
        · simp at h
        · simp at h
      · simp at h
      · simp at h
  · simp at h
  · simp at h

example : CB.readOID [0x06, 0x03, 0x2a, 0x80, 0x01] = .err := by decide
example : CB.readOID [0x06, 0x06, 0x2a, 0x81, 0x80, 0x80, 0x80, 0x00] = .ok ([1, 2, 268435456], []) := by decide

/-- `ReadASN1BitString`: the consumed element is `[BIT STRING, pad, bytes]` with the pad octet
    recomputed from `BitLength`, pad ≤ 7 and the unused bits zero. -/
theorem cb_bits_canonical (s : Bytes) (v : EA.BitString) (rest : Bytes)
    (h : CB.readBitString s = .ok (v, rest)) :
    ∃ pre pad, CB.addASN1BitString pad v.bytes = .ok pre ∧ s = pre ++ rest ∧
      pad = byteOfInt ((8 - v.bitLength.tmod 8).tmod 8) ∧ pad.toNat ≤ 7 ∧
      (v.bytes ≠ [] → (lastByte v.bytes).toNat % 2 ^ pad.toNat = 0) ∧ (v.bytes = [] → pad = 0) := by
  unfold CB.readBitString at h
  split at h
  · rename_i body r hr
    split at h
    · simp at h
    · rename_i b0 data
      have hb := toNat_lt b0
      simp only at h
      split at h
      · simp at h
      · rename_i hp7
        split at h
        · simp at h
        · rename_i hp1
          split at h
          · simp at h
          · rename_i hp2
            simp only [Res.ok.injEq, Prod.mk.injEq] at h
            obtain ⟨hv, hrest⟩ := h
            subst hv; subst hrest
            have hpad : byteOfInt ((8 - ((data.length : Int) * 8 - b0.toNat).tmod 8).tmod 8) = b0 := by
              unfold byteOfInt
              apply ofNat_eq_of
              have hl : data.length = 0 → b0.toNat = 0 := by omega
              generalize data.length = n at *
              generalize b0.toNat = p at *
              have hnn : (0 : Int) ≤ (n : Int) * 8 - p := by
                rcases Nat.eq_zero_or_pos n with h0 | h0
                · have := hl h0; omega
                · omega
              rw [Int.tmod_eq_emod_of_nonneg hnn]
              have h8 : (0 : Int) ≤ 8 - ((n : Int) * 8 - p) % 8 := by omega
              rw [Int.tmod_eq_emod_of_nonneg h8]
              omega
            obtain ⟨pre, hq1, hq2⟩ := cb_readASN1Tag_canonical hr
            refine ⟨pre, b0, hq1, hq2, hpad.symm, by omega, ?_, ?_⟩
            · intro hne
              have : data.length > 0 := by cases data with | nil => exact absurd rfl hne | cons _ _ => simp
              simpa using fun h' => hp2 ⟨this, h'⟩
            · intro he
              simp only at he
              subst he
              apply eq_of_toNat
              simp at hp1; simpa using hp1
  · simp at h
  · simp at h

/-- consequence of canonicity: a strict decoder is injective on what it consumes — two accepted
    inputs with the same value and the same unread rest are the same bytes (shown for the element reader). -/
theorem cb_element_injective (s₁ s₂ : Bytes) (e₁ e₂ : CB.Elem)
    (h₁ : CB.readASN1 s₁ = .ok e₁) (h₂ : CB.readASN1 s₂ = .ok e₂)
    (ht : e₁.tag = e₂.tag) (hb : e₁.body = e₂.body) (hr : e₁.rest = e₂.rest) : s₁ = s₂ := by
  obtain ⟨p₁, a₁, b₁⟩ := cb_element_canonical s₁ e₁ h₁
  obtain ⟨p₂, a₂, b₂⟩ := cb_element_canonical s₂ e₂ h₂
  rw [ht, hb] at a₁
  rw [a₁] at a₂
  simp only [Res.ok.injEq] at a₂
  rw [b₁, b₂, a₂, hr]

/-! ## time values -/
open ZV.Time in
/-- **cryptobyte GeneralizedTime.**  For ALL byte strings: whatever `ReadASN1GeneralizedTime` accepts,
    `AddASN1GeneralizedTime` of the decoded time writes back, byte for byte (one identifier octet, minimal
    definite length, the very text) — and it does not refuse the value. -/
theorem cb_gtime_canonical (s : Bytes) (t : GoTime) (rest : Bytes)
    (h : Time.CB.readGeneralizedTime s = .ok (t, rest)) :
    ∃ pre, Time.CB.addGeneralizedTime t = .ok pre ∧ s = pre ++ rest := by
  unfold Time.CB.readGeneralizedTime at h
  split at h
  · rename_i body rest' hr
    split at h
    · simp at h
    · rename_i res hp
      split at h
      · simp at h
      · rename_i hfmt
        simp only [Res.ok.injEq, Prod.mk.injEq] at h
        obtain ⟨h1, h2⟩ := h
        subst h1; subst h2
        have hfmt' : format layoutGen res = body := by simpa using hfmt
        obtain ⟨pre, hq1, hq2⟩ := cb_readASN1Tag_canonical hr
        have p := parse_gen_facts hp
        have hy : ¬ (res.year < 0 ∨ res.year > 9999) := by have := p.year_lo; have := p.year_hi; omega
        exact ⟨pre, by simp only [Time.CB.addGeneralizedTime, hy, if_false, hfmt']; exact hq1, hq2⟩
  · simp at h
  · simp at h

example : Time.CB.readGeneralizedTime
    [0x18, 0x13, 0x32, 0x30, 0x32, 0x34, 0x30, 0x32, 0x32, 0x39, 0x32, 0x33, 0x35, 0x39, 0x35, 0x39, 0x2b, 0x30, 0x35, 0x33,
      0x30, 0x05, 0x00] = .ok ({ unix := 1709231399, off := 19800 }, [0x05, 0x00]) := by decide +kernel

open ZV.Time in
/-- what an accepted GeneralizedTime is: year 0..9999 in its zone, zone a whole number of minutes of at most
    25 hours (`hh ≤ 24`, `mm ≤ 60` pass `time.Parse`; the re-serialisation test removes `mm = 60`). -/
theorem cb_gtime_accepts_only (s : Bytes) (t : GoTime) (rest : Bytes)
    (h : Time.CB.readGeneralizedTime s = .ok (t, rest)) :
    0 ≤ t.year ∧ t.year ≤ 9999 ∧ ∃ k : Int, t.off = 60 * k ∧ -1500 ≤ k ∧ k ≤ 1500 := by
  unfold Time.CB.readGeneralizedTime at h
  split at h
  · split at h
    · simp at h
    · rename_i res hp
      split at h
      · simp at h
      · simp only [Res.ok.injEq, Prod.mk.injEq] at h
        obtain ⟨h1, _⟩ := h
        subst h1
        have p := parse_gen_facts hp
        exact ⟨p.year_lo, p.year_hi, p.zone⟩
  · simp at h
  · simp at h

open ZV.Time in
/-- **encoding/asn1 GeneralizedTime** (strict mode): an accepted content is exactly what
    `appendGeneralizedTime` writes for the decoded time. -/
theorem ea_gentime_canonical (s : Bytes) (t : GoTime) (h : EA.parseGeneralizedTime false s = .ok t) :
    EA.appendGeneralizedTime t = .ok s := by
  unfold EA.parseGeneralizedTime at h
  split at h
  · simp at h
  · rename_i ret hp
    split at h
    · simp at h
    · rename_i hre
      simp only [Res.ok.injEq] at h
      subst h
      have hfmt : format layoutGen ret = s := by simpa [EA.reserialises] using hre
      rw [appendGeneralizedTime_eq_format (parse_gen_facts hp), hfmt]

example : ZV.Time.EA.parseGeneralizedTime false
    [0x31, 0x39, 0x30, 0x30, 0x30, 0x32, 0x32, 0x38, 0x32, 0x33, 0x35, 0x39, 0x35, 0x39, 0x5a] =
    .ok { unix := -2203891201, off := 0 } := by decide +kernel

open ZV.Time in
/-- **encoding/asn1 UTCTime** (strict mode): an accepted content in the form WITH seconds (the form without
    seconds is tried first; the encoder never writes it) is exactly what `appendUTCTime` writes for the decoded
    time, including the 19YY / 20YY century choice. -/
theorem ea_utctime_canonical (s : Bytes) (t : GoTime) (h : EA.parseUTCTime false s = .ok t)
    (hsec : parse layoutUTCMin s = none) : EA.appendUTCTime t = .ok s := by
  unfold EA.parseUTCTime at h
  simp only [hsec] at h
  split at h
  · simp at h
  · rename_i layout ret hr
    split at hr
    · rename_i ret' hp
      simp only [Option.some.injEq, Prod.mk.injEq] at hr
      obtain ⟨hl, hret⟩ := hr
      subst hl; subst hret
      have p := parse_utcsec_facts hp
      split at h
      · simp at h
      · rename_i hre
        have hfmt : format layoutUTCSec ret' = s := by simpa [EA.reserialises] using hre
        split at h
        · rename_i hy
          simp only [Res.ok.injEq] at h
          subst h
          rw [appendUTCTime_minus100 p hy p.year_hi, hfmt]
        · rename_i hy
          simp only [Res.ok.injEq] at h
          subst h
          rw [appendUTCTime_eq_format p (by have := p.year_lo; omega) (by omega), hfmt]
    · simp at hr

example : ZV.Time.EA.parseUTCTime false [0x35, 0x30, 0x30, 0x31, 0x30, 0x31, 0x30, 0x30, 0x30, 0x30, 0x30, 0x30, 0x5a] =
    .ok { unix := -631152000, off := 0 } ∧
    ZV.Time.parse ZV.Time.layoutUTCMin [0x35, 0x30, 0x30, 0x31, 0x30, 0x31, 0x30, 0x30, 0x30, 0x30, 0x30, 0x30, 0x5a] = none := by
  decide +kernel

open ZV.Time in
theorem utc_tail_window {perm : Bool} {layout : List Std} {ret t : GoTime} {s : Bytes} (p : Parsed ret 1969 2068)
    (h : (if (!EA.reserialises perm layout ret s) = true then Res.err
          else if ret.year ≥ 2050 then Res.ok (addYears ret (-100)) else Res.ok ret) = Res.ok t) :
    1950 ≤ t.year ∧ t.year < 2050 := by
  split at h
  · simp at h
  · split at h
    · rename_i hy
      simp only [Res.ok.injEq] at h
      subst h
      have := (addYears_minus100 ret hy p.year_hi).1
      have hyr : (addYears ret (-100)).year = ret.year + -100 := by simp only [GoTime.year, this]
      rw [hyr]
      have := p.year_hi
      omega
    · rename_i hy
      simp only [Res.ok.injEq] at h
      subst h
      have := p.year_lo
      omega

open ZV.Time in
/-- the decoded UTCTime lies in the window 1950..2049 (years 50..68 are moved back one century), in either
    parsing mode -/
theorem ea_utctime_window (perm : Bool) (s : Bytes) (t : GoTime) (h : EA.parseUTCTime perm s = .ok t) :
    1950 ≤ t.year ∧ t.year < 2050 := by
  unfold EA.parseUTCTime at h
  cases hmin : parse layoutUTCMin s with
  | some r1 =>
    simp only [hmin] at h
    exact utc_tail_window (parse_utcmin_facts hmin) h
  | none =>
    cases hsec : parse layoutUTCSec s with
    | some r1 =>
      simp only [hmin, hsec] at h
      exact utc_tail_window (parse_utcsec_facts hsec) h
    | none => simp [hmin, hsec] at h

open ZV.Time in
/-- **cryptobyte `ReadASN1UTCTime` = readASN1 + encoding/asn1's strict `parseUTCTime`**, for ALL byte strings:
    the two functions try the layouts with and without seconds in opposite order, but no text parses under both
    (after YYMMDDhhmm the one wants a digit, the other `Z`, `+` or `-`), so they accept the same contents with the
    same value. -/
theorem cb_utctime_eq_ea (s : Bytes) :
    Time.CB.readUTCTime s =
      (match CB.readASN1Tag s 0x17 with
       | .ok (body, rest) =>
         (match EA.parseUTCTime false body with
          | .ok t => .ok (t, rest)
          | .err => .err
          | .panic => .panic)
       | .err => .err
       | .panic => .panic) := by
  unfold Time.CB.readUTCTime
  cases hr : CB.readASN1Tag s 0x17 with
  | err => rfl
  | panic => rfl
  | ok x =>
    obtain ⟨body, rest⟩ := x
    simp only [EA.parseUTCTime]
    cases hsec : parse layoutUTCSec body with
    | some r1 =>
      have hmin := utcsec_excludes_min hsec
      simp only [hmin, EA.reserialises, Bool.false_or]
      split <;> rename_i hc
      · have : (format layoutUTCSec r1 == body) = false := by simpa using hc
        simp [this]
      · have : (format layoutUTCSec r1 == body) = true := by simpa using hc
        simp only [this, Bool.not_true, Bool.false_eq_true, if_false]
        split <;> rfl
    | none =>
      cases hmin : parse layoutUTCMin body with
      | some r1 =>
        simp only [EA.reserialises, Bool.false_or]
        split <;> rename_i hc
        · have : (format layoutUTCMin r1 == body) = false := by simpa using hc
          simp [this]
        · have : (format layoutUTCMin r1 == body) = true := by simpa using hc
          simp only [this, Bool.not_true, Bool.false_eq_true, if_false]
          split <;> rfl
      | none => rfl

open ZV.Time in
/-- `ReadASN1UTCTime`: the consumed bytes are one canonical element, the time lies in 1950..2049, and a content
    in the form with seconds is exactly what encoding/asn1's `appendUTCTime` writes for the decoded time
    (zcrypto's cryptobyte has no `AddASN1UTCTime`). -/
theorem cb_utctime_canonical (s : Bytes) (t : GoTime) (rest : Bytes) (h : Time.CB.readUTCTime s = .ok (t, rest)) :
    ∃ body pre, CB.element 0x17 body = .ok pre ∧ s = pre ++ rest ∧ 1950 ≤ t.year ∧ t.year < 2050 ∧
      EA.parseUTCTime false body = .ok t ∧ (parse layoutUTCMin body = none → EA.appendUTCTime t = .ok body) := by
  rw [cb_utctime_eq_ea] at h
  split at h
  · rename_i body rest' hr
    split at h
    · rename_i t' hp
      simp only [Res.ok.injEq, Prod.mk.injEq] at h
      obtain ⟨h1, h2⟩ := h
      subst h1; subst h2
      obtain ⟨pre, hq1, hq2⟩ := cb_readASN1Tag_canonical hr
      have hw := ea_utctime_window false body t' hp
      exact ⟨body, pre, hq1, hq2, hw.1, hw.2, hp, fun hmin => ea_utctime_canonical body t' hp hmin⟩
    · simp at h
    · simp at h
  · simp at h
  · simp at h

example : Time.CB.readUTCTime [0x17, 0x0d, 0x34, 0x39, 0x31, 0x32, 0x33, 0x31, 0x32, 0x33, 0x35, 0x39, 0x35, 0x39, 0x5a, 0xff] =
    .ok ({ unix := 2524607999, off := 0 }, [0xff]) := by decide +kernel

open ZV.Time in
/-- **accepted times are whole seconds** (all three strict decoders): `time.Parse` itself reads a fractional
    second that is not in the layout (`20240101000000.5Z` parses), but the re-serialisation test only lets through
    texts that `Format` reproduces, and those contain no comma or period. -/
theorem strict_times_whole_seconds (s : Bytes) (t : GoTime) :
    (∀ rest, Time.CB.readGeneralizedTime s = .ok (t, rest) → t.nsec = 0) ∧
    (EA.parseGeneralizedTime false s = .ok t → t.nsec = 0) ∧
    (EA.parseUTCTime false s = .ok t → t.nsec = 0) := by
  refine ⟨?_, ?_, ?_⟩
  · intro rest h
    unfold Time.CB.readGeneralizedTime at h
    split at h
    · rename_i body rest' hr
      split at h
      · simp at h
      · rename_i res hp
        split at h
        · simp at h
        · rename_i hfmt
          simp only [Res.ok.injEq, Prod.mk.injEq] at h
          rw [← h.1]
          exact whole_seconds_gen hp (by simpa using hfmt)
    · simp at h
    · simp at h
  · intro h
    unfold EA.parseGeneralizedTime at h
    split at h
    · simp at h
    · rename_i ret hp
      split at h
      · simp at h
      · rename_i hre
        simp only [Res.ok.injEq] at h
        rw [← h]
        exact whole_seconds_gen hp (by simpa [EA.reserialises] using hre)
  · intro h
    unfold EA.parseUTCTime at h
    have tail : ∀ (layout : List Std) (ret : GoTime), ret.nsec = 0 →
        (if (!EA.reserialises false layout ret s) = true then Res.err
         else if ret.year ≥ 2050 then Res.ok (addYears ret (-100)) else Res.ok ret) = Res.ok t → t.nsec = 0 := by
      intro layout ret hn h
      split at h
      · simp at h
      · split at h <;> simp only [Res.ok.injEq] at h <;> rw [← h]
        · exact hn
        · exact hn
    cases hmin : parse layoutUTCMin s with
    | some r1 =>
      simp only [hmin] at h
      exact tail _ _ (whole_seconds_utcmin hmin) h
    | none =>
      cases hsec : parse layoutUTCSec s with
      | some r1 =>
        simp only [hmin, hsec] at h
        have hre : format layoutUTCSec r1 = s := by
          split at h
          · simp at h
          · rename_i hc; simpa [EA.reserialises] using hc
        exact tail _ _ (whole_seconds_utcsec hsec hre) h
      | none => simp [hmin, hsec] at h

/-- `time.Parse` alone does accept the fraction (the permissive mode returns it) -/
example : ZV.Time.EA.parseGeneralizedTime true
    [0x32, 0x30, 0x32, 0x34, 0x30, 0x31, 0x30, 0x31, 0x30, 0x30, 0x30, 0x30, 0x30, 0x30, 0x2e, 0x35, 0x5a] =
      .ok { unix := 1704067200, off := 0, nsec := 500000000 } ∧
    ZV.Time.EA.parseGeneralizedTime false
    [0x32, 0x30, 0x32, 0x34, 0x30, 0x31, 0x30, 0x31, 0x30, 0x30, 0x30, 0x30, 0x30, 0x30, 0x2e, 0x35, 0x5a] = .err := by
  decide +kernel

/-! ## fourth wave: ENUMERATED, OCTET STRING, NULL, the restricted string types -/

/-- `ReadASN1Int64WithTag` / `ReadASN1Enum` then `AddASN1Int64WithTag` / `AddASN1Enum`, any tag. -/
theorem cb_int64tag_canonical (tag : UInt8) (s : Bytes) (v : Int) (rest : Bytes)
    (h : CB.readInt64Tag s tag = .ok (v, rest)) :
    ∃ pre, CB.addASN1Int64Tag tag v = .ok pre ∧ s = pre ++ rest := by
  unfold CB.readInt64Tag at h
  split at h
  · rename_i body r hr
    split at h
    · simp at h
    · rename_i hc
      have hc' : checkInteger body = true := by simpa using hc
      unfold CB.asn1Signed at h
      by_cases h8 : body.length > 8
      · simp [h8] at h
      · simp only [h8, if_false, Res.ok.injEq, Prod.mk.injEq] at h
        obtain ⟨hv, hrest⟩ := h
        subst hv; subst hrest
        obtain ⟨h1, h2⟩ := int_canon hc'
        simpa [CB.addASN1Int64Tag, CB.signedContent, h1, h2] using cb_readASN1Tag_canonical hr
  · simp at h
  · simp at h

/-- ENUMERATED (cryptobyte): `AddASN1Enum (ReadASN1Enum s)` = the consumed element. -/
theorem cb_enum_canonical (s : Bytes) (v : Int) (rest : Bytes) (h : CB.readEnum s = .ok (v, rest)) :
    ∃ pre, CB.addASN1Enum v = .ok pre ∧ s = pre ++ rest :=
  cb_int64tag_canonical 10 s v rest h

example : CB.readEnum [0x0a, 0x02, 0x00, 0x80, 0x07] = .ok (128, [0x07]) ∧ CB.readEnum [0x0a, 0x02, 0x00, 0x7f] = .err := by
  decide

/-- ENUMERATED (encoding/asn1: `parseInt32`, written by `int64Encoder`) -/
theorem ea_enum_canonical (bs : Bytes) (v : Int) (h : EA.parseInt32 bs = .ok v) : EA.encodeInt64 v = bs :=
  ea_int32_canonical bs v h

/-- OCTET STRING (cryptobyte): any content; the header is the canonical one. -/
theorem cb_octets_canonical (s body rest : Bytes) (h : CB.readOctetString s = .ok (body, rest)) :
    ∃ pre, CB.addASN1OctetString body = .ok pre ∧ s = pre ++ rest :=
  cb_readASN1Tag_canonical h

example : CB.readOctetString [0x04, 0x81, 0x01, 0x41] = .err ∧ CB.readOctetString [0x04, 0x01, 0x41] = .ok ([0x41], []) := by
  decide

/-- NULL (cryptobyte): an accepted NULL element with empty contents is exactly the two octets `AddASN1NULL` writes
    (`05 81 00` and other non-minimal forms are rejected). -/
theorem cb_null_canonical (s rest : Bytes) (h : CB.readASN1Tag s 5 = .ok ([], rest)) :
    s = CB.addASN1NULL ++ rest := by
  obtain ⟨pre, h1, h2⟩ := cb_readASN1Tag_canonical h
  have : CB.element 5 [] = .ok [5, 0] := by decide
  rw [this] at h1
  simp only [Res.ok.injEq] at h1
  rw [h2, ← h1]; rfl

example : CB.readASN1Tag [0x05, 0x00, 0xaa] 5 = .ok ([], [0xaa]) ∧ CB.readASN1Tag [0x05, 0x81, 0x00] 5 = .err := by decide

/-- NumericString: decoder and encoder apply the same test, the contents are copied. -/
theorem ea_numeric_canonical (bs v : Bytes) (h : EA.parseNumericString bs = .ok v) :
    EA.makeNumericString v = .ok bs := by
  unfold EA.parseNumericString at h
  split at h
  · rename_i hc
    simp only [Res.ok.injEq] at h
    subst h
    simp [EA.makeNumericString, hc]
  · simp at h

/-- IA5String: `b >= 0x80` (decoder) and `s[i] > 127` (encoder) are the same test. -/
theorem ea_ia5_canonical (bs v : Bytes) (h : EA.parseIA5String bs = .ok v) :
    EA.makeIA5String v = .ok bs := by
  unfold EA.parseIA5String at h
  split at h
  · rename_i hc
    simp only [Res.ok.injEq] at h
    subst h
    have : (bs.all fun b => !decide (b.toNat > 127)) = true := by
      rw [List.all_eq_true] at hc ⊢
      intro b hb
      have := hc b hb
      simp only [decide_eq_true_eq] at this
      simp; omega
    simp [EA.makeIA5String, this]
  · simp at h

/-- T61String: 8-bit clean in both directions. -/
theorem ea_t61_canonical (bs v : Bytes) (h : EA.parseT61String bs = .ok v) : v = bs := by
  simp only [EA.parseT61String, Res.ok.injEq] at h; exact h.symm

theorem isPrintable_no_amp (b : UInt8) (h : isPrintable b true true = true) (hb : b ≠ 0x26) :
    isPrintable b true false = true := by
  have hne : b.toNat ≠ 38 := fun e => hb (eq_of_toNat (by simpa using e))
  simp only [isPrintable, Bool.true_and, Bool.false_and, Bool.or_false, Bool.or_eq_true, Bool.and_eq_true,
    decide_eq_true_eq, beq_iff_eq] at h ⊢
  omega

/-- PrintableString, proved under the hypothesis that the contents have no `&`.
    -- FULL: `EA.parsePrintableString bs = .ok v → EA.makePrintableString v = .ok bs` is FALSE (next example):
    the decoder calls `isPrintable(b, allowAsterisk, allowAmpersand)`, the encoder
    `isPrintable(s[i], allowAsterisk, rejectAmpersand)` (the same asymmetry as upstream Go, by design). -/
theorem ea_printable_canonical_partial (bs v : Bytes) (h : EA.parsePrintableString bs = .ok v)
    (hamp : (0x26 : UInt8) ∉ bs) : EA.makePrintableString v = .ok bs := by
  unfold EA.parsePrintableString at h
  split at h
  · rename_i hc
    simp only [Res.ok.injEq] at h
    subst h
    have : (bs.all fun b => isPrintable b true false) = true := by
      rw [List.all_eq_true] at hc ⊢
      intro b hb
      exact isPrintable_no_amp b (hc b hb) (fun e => hamp (e ▸ hb))
    simp [EA.makePrintableString, this]
  · simp at h

/-- the counter-example to the full statement: `A&B` is decoded and cannot be re-encoded -/
example : EA.parsePrintableString [0x41, 0x26, 0x42] = .ok [0x41, 0x26, 0x42] ∧
    EA.makePrintableString [0x41, 0x26, 0x42] = .err := by decide

example : EA.parsePrintableString [0x41, 0x2a, 0x42] = .ok [0x41, 0x2a, 0x42] ∧ (0x26 : UInt8) ∉ [0x41, 0x2a, 0x42] := by decide

/-- the other direction holds for every string type: what an encoder writes, the strict decoder reads back -/
theorem ea_strings_encoder_subset (s out : Bytes) :
    (EA.makeNumericString s = .ok out → EA.parseNumericString out = .ok s) ∧
    (EA.makePrintableString s = .ok out → EA.parsePrintableString out = .ok s) ∧
    (EA.makeIA5String s = .ok out → EA.parseIA5String out = .ok s) := by
  refine ⟨?_, ?_, ?_⟩
  · intro h
    unfold EA.makeNumericString at h
    split at h
    · rename_i hc; simp only [Res.ok.injEq] at h; subst h; simp [EA.parseNumericString, hc]
    · simp at h
  · intro h
    unfold EA.makePrintableString at h
    split at h
    · rename_i hc; simp only [Res.ok.injEq] at h; subst h
      have : (s.all fun b => isPrintable b true true) = true := by
        rw [List.all_eq_true] at hc ⊢
        intro b hb
        have := hc b hb
        simp only [isPrintable, Bool.true_and, Bool.false_and, Bool.or_false, Bool.or_eq_true, Bool.and_eq_true,
          decide_eq_true_eq, beq_iff_eq] at this ⊢
        omega
      simp [EA.parsePrintableString, this]
    · simp at h
  · intro h
    unfold EA.makeIA5String at h
    split at h
    · rename_i hc; simp only [Res.ok.injEq] at h; subst h
      have : (s.all fun b => decide (b.toNat < 128)) = true := by
        rw [List.all_eq_true] at hc ⊢
        intro b hb
        have := hc b hb
        simp at this ⊢; omega
      simp [EA.parseIA5String, this]
    · simp at h

/-! ## the two codecs agree on the common fragment -/

/-- the `Res` of a content parser, paired with the unread rest of the cryptobyte String -/
def withRest {α} (r : Res α) (rest : Bytes) : Res (α × Bytes) :=
  match r with
  | .ok v => .ok (v, rest)
  | .err => .err
  | .panic => .panic

/-- base-128 sub-identifiers: `parseBase128Int` and `readBase128Int` are the SAME function of the bytes
    (encoding/asn1 compares the result with MaxInt32 after the loop, cryptobyte compares the accumulator with
    2^24 before each shift; both stop after five octets and refuse a leading 0x80). -/
theorem codecs_agree_base128 (bs : Bytes) : EA.parseBase128Int bs = CB.readBase128Int bs := base128_agree bs

/-- **codecs_agree**: for every byte string `s` from which cryptobyte reads an element of the right tag, each typed
    cryptobyte reader returns exactly what encoding/asn1's content parser returns on the contents octets
    (same accept / reject decision, same value): INTEGER → int64, INTEGER → big.Int, BOOLEAN, OBJECT IDENTIFIER,
    BIT STRING; and ENUMERATED wherever encoding/asn1 (32-bit `Enumerated`) accepts. -/
theorem codecs_agree (s body rest : Bytes) :
    (CB.readASN1Tag s 2 = .ok (body, rest) →
      CB.readInt64 s = withRest (EA.parseInt64 body) rest ∧ CB.readBigInt s = withRest (EA.parseBigInt body) rest) ∧
    (CB.readASN1Tag s 1 = .ok (body, rest) → CB.readBool s = withRest (EA.parseBool body) rest) ∧
    (CB.readASN1Tag s 6 = .ok (body, rest) → CB.readOID s = withRest (EA.parseObjectIdentifier body) rest) ∧
    (CB.readASN1Tag s 3 = .ok (body, rest) → CB.readBitString s = withRest (EA.parseBitString body) rest) ∧
    (CB.readASN1Tag s 10 = .ok (body, rest) → ∀ v, EA.parseInt32 body = .ok v → CB.readEnum s = .ok (v, rest)) := by
  refine ⟨?_, ?_, ?_, ?_, ?_⟩
  · intro h
    constructor
    · simp only [CB.readInt64, CB.readInt64Tag, h, EA.parseInt64, CB.asn1Signed, withRest]
      by_cases hc : checkInteger body <;> by_cases h8 : body.length > 8 <;> simp [hc, h8]
    · simp only [CB.readBigInt, h, EA.parseBigInt, withRest]
      by_cases hc : checkInteger body <;> simp [hc]
  · intro h
    simp only [CB.readBool, h, EA.parseBool, withRest]
    cases boolOfContent body <;> rfl
  · intro h
    simp only [CB.readOID, h, withRest]
    cases body with
    | nil => simp [EA.parseObjectIdentifier]
    | cons b t =>
      simp only [EA.parseObjectIdentifier, ← base128_agree, oidArcs_agree]
      cases EA.parseBase128Int (b :: t) with
      | ok x =>
        obtain ⟨v, r⟩ := x
        simp only
        cases CB.oidArcs r.length r <;> rfl
      | err => rfl
      | panic => rfl
  · intro h
    simp only [CB.readBitString, h, withRest]
    cases body with
    | nil => simp [EA.parseBitString]
    | cons b0 tl =>
      have hb := toNat_lt b0
      cases tl with
      | nil =>
        simp only [EA.parseBitString, lastByte, List.length_cons, List.length_nil]
        by_cases h7 : b0.toNat > 7
        · simp [h7]
        · by_cases h0 : b0.toNat = 0
          · simp [h0]
          · have : b0.toNat > 0 := by omega
            simp [h7, h0, this]
      | cons c t =>
        simp only [EA.parseBitString, lastByte, List.length_cons]
        by_cases h7 : b0.toNat > 7
        · simp [h7]
        · by_cases hl : (lastByte (c :: t)).toNat % 2 ^ b0.toNat = 0
          · simp [h7, hl]
          · simp [h7, hl]
  · intro h v hv
    unfold EA.parseInt32 at hv
    split at hv
    · simp at hv
    · rename_i hc
      split at hv
      · rename_i w hw
        split at hv
        · simp at hv
        · simp only [Res.ok.injEq] at hv
          subst hv
          unfold EA.parseInt64 at hw
          simp only [hc] at hw
          by_cases h8 : body.length > 8
          · simp [h8] at hw
          · have hw' : twos body = w := by simpa [h8] using hw
            have hc' : (!checkInteger body) = false := by simpa using hc
            simp [CB.readEnum, CB.readInt64Tag, h, hc', CB.asn1Signed, h8, hw']
      · simp at hv
      · simp at hv

example : CB.readASN1Tag [0x06, 0x03, 0x2a, 0x86, 0x48, 0x01] 6 = .ok ([0x2a, 0x86, 0x48], [0x01]) ∧
    CB.readASN1Tag [0x0a, 0x01, 0x05] 10 = .ok ([0x05], []) ∧ EA.parseInt32 [0x05] = .ok 5 := by decide


/-! ## T1: the guard expressions of both sources (`ZV.C19.Gen.*` is rewritten by go/extract/c19 from the working
    tree on every run). The models `ZV.Model.Der0` / `ZV.Model.C19` were written from exactly these expressions; removing
    or editing a minimal-length / minimal-integer / padding / character-set guard in zcrypto fails the theorem named after
    the function. -/

theorem t1_ea_parseBool : Gen.ea_parseBool = [ "if:len(bytes)!=1", "case:0", "case:0xff"] := rfl

theorem t1_ea_checkInteger : Gen.ea_checkInteger = [ "if:len(bytes)==0", "if:len(bytes)==1", "if:!AllowPermissiveParsing", "if:(bytes[0]==0&&bytes[1]&0x80==0)||(bytes[0]==0xff&&bytes[1]&0x80==0x80)"] := rfl

theorem t1_ea_parseInt64 : Gen.ea_parseInt64 = [ "if:err!=nil", "if:len(bytes)>8", "for:bytesRead<len(bytes)"] := rfl

theorem t1_ea_parseInt32 : Gen.ea_parseInt32 = [ "if:err!=nil", "if:err!=nil", "if:ret64!=int64(int32(ret64))"] := rfl

theorem t1_ea_parseBitString : Gen.ea_parseBitString = [ "if:len(bytes)==0", "if:paddingBits>7||len(bytes)==1&&paddingBits>0||bytes[len(bytes)-1]&((1<<bytes[0])-1)!=0"] := rfl

theorem t1_ea_parseObjectIdentifier : Gen.ea_parseObjectIdentifier = [ "if:len(bytes)==0", "if:err!=nil", "if:v<80", "for:offset<len(bytes)", "if:err!=nil"] := rfl

theorem t1_ea_parseBase128Int : Gen.ea_parseBase128Int = [ "for:offset<len(bytes)", "if:shifted==5", "if:shifted==0&&b==0x80", "if:b&0x80==0", "if:ret64>math.MaxInt32"] := rfl

theorem t1_ea_parseTagAndLength : Gen.ea_parseTagAndLength = [ "if:offset>=len(bytes)", "if:ret.tag==0x1f", "if:err!=nil", "if:ret.tag<0x1f", "if:offset>=len(bytes)", "if:b&0x80==0", "if:numBytes==0", "for:i<numBytes", "if:offset>=len(bytes)", "if:ret.length>=1<<23", "if:ret.length==0", "if:!AllowPermissiveParsing", "if:ret.length<0x80"] := rfl

theorem t1_ea_parseNumericString : Gen.ea_parseNumericString = [ "if:!AllowPermissiveParsing", "if:!isNumeric(b)"] := rfl

theorem t1_ea_isNumeric : Gen.ea_isNumeric = [ "ret:'0'<=b&&b<='9'||b=='\\x20'"] := rfl

theorem t1_ea_parsePrintableString : Gen.ea_parsePrintableString = [ "if:!AllowPermissiveParsing", "if:!isPrintable(b,allowAsterisk,allowAmpersand)"] := rfl

theorem t1_ea_isPrintable : Gen.ea_isPrintable = [ "ret:'a'<=b&&b<='z'||'A'<=b&&b<='Z'||'0'<=b&&b<='9'||'\\''<=b&&b<=')'||'+'<=b&&b<='/'||b=='\\x20'||b==':'||b=='='||b=='?'||(bool(asterisk)&&b=='*')||(bool(ampersand)&&b=='&')"] := rfl

theorem t1_ea_parseIA5String : Gen.ea_parseIA5String = [ "if:!AllowPermissiveParsing", "if:b>=utf8.RuneSelf"] := rfl

theorem t1_ea_makePrintableString : Gen.ea_makePrintableString = [ "for:i<len(s)", "if:!isPrintable(s[i],allowAsterisk,rejectAmpersand)"] := rfl

theorem t1_ea_makeIA5String : Gen.ea_makeIA5String = [ "for:i<len(s)", "if:s[i]>127"] := rfl

theorem t1_ea_makeNumericString : Gen.ea_makeNumericString = [ "for:i<len(s)", "if:!isNumeric(s[i])"] := rfl

theorem t1_ea_int64EncoderLen : Gen.ea_int64EncoderLen = [ "for:i>127", "for:i<-128"] := rfl

theorem t1_ea_base128IntLength : Gen.ea_base128IntLength = [ "if:n==0", "for:i>0"] := rfl

theorem t1_ea_lengthLength : Gen.ea_lengthLength = [ "for:i>255"] := rfl

theorem t1_ea_appendTagAndLength : Gen.ea_appendTagAndLength = [ "if:t.isCompound", "if:t.tag>=31", "if:t.length>=128"] := rfl

theorem t1_ea_makeObjectIdentifier : Gen.ea_makeObjectIdentifier = [ "if:len(oid)<2||oid[0]>2||(oid[0]<2&&oid[1]>=40)"] := rfl

theorem t1_cb_checkASN1Integer : Gen.cb_checkASN1Integer = [ "if:len(bytes)==0", "if:len(bytes)==1", "if:bytes[0]==0&&bytes[1]&0x80==0||bytes[0]==0xff&&bytes[1]&0x80==0x80"] := rfl

theorem t1_cb_asn1Signed : Gen.cb_asn1Signed = [ "if:length>8", "for:i<length"] := rfl

theorem t1_cb_asn1Unsigned : Gen.cb_asn1Unsigned = [ "if:length>9||length==9&&n[0]!=0", "if:n[0]&0x80!=0", "for:i<length"] := rfl

theorem t1_cb_ReadASN1Enum : Gen.cb_ReadASN1Enum = [ "if:!s.ReadASN1(&bytes,asn1.ENUM)||!checkASN1Integer(bytes)||!asn1Signed(&i,bytes)", "if:int64(int(i))!=i"] := rfl

theorem t1_cb_ReadASN1Boolean : Gen.cb_ReadASN1Boolean = [ "if:!s.ReadASN1(&bytes,asn1.BOOLEAN)||len(bytes)!=1", "case:0", "case:0xff"] := rfl

theorem t1_cb_readBase128Int : Gen.cb_readBase128Int = [ "for:len(*s)>0", "if:i==5", "if:ret>=1<<(31-7)", "if:i==0&&b==0x80", "if:b&0x80==0"] := rfl

theorem t1_cb_ReadASN1ObjectIdentifier : Gen.cb_ReadASN1ObjectIdentifier = [ "if:!s.ReadASN1(&bytes,asn1.OBJECT_IDENTIFIER)||len(bytes)==0", "if:!bytes.readBase128Int(&v)", "if:v<80", "for:len(bytes)>0", "if:!bytes.readBase128Int(&v)"] := rfl

theorem t1_cb_ReadASN1BitString : Gen.cb_ReadASN1BitString = [ "if:!s.ReadASN1(&bytes,asn1.BIT_STRING)||len(bytes)==0||len(bytes)*8/8!=len(bytes)", "if:paddingBits>7||len(bytes)==0&&paddingBits!=0||len(bytes)>0&&bytes[len(bytes)-1]&(1<<paddingBits-1)!=0"] := rfl

theorem t1_cb_readASN1 : Gen.cb_readASN1 = [ "if:len(*s)<2", "if:tag&0x1f==0x1f", "if:outTag!=nil", "if:lenByte&0x80==0", "if:lenLen==0||lenLen>4||len(*s)<int(2+lenLen)", "if:!lenBytes.readUnsigned(&len32,int(lenLen))", "if:len32<128", "if:len32>>((lenLen-1)*8)==0", "if:headerLen+len32<len32", "if:int(length)<0||!s.ReadBytes((*[]byte)(out),int(length))", "if:skipHeader&&!out.Skip(int(headerLen))"] := rfl

theorem t1_cb_addASN1Signed : Gen.cb_addASN1Signed = [ "for:i>=0x80||i<-0x80", "for:length>0"] := rfl

theorem t1_cb_isValidOID : Gen.cb_isValidOID = [ "if:len(oid)<2", "if:oid[0]>2||(oid[0]<=1&&oid[1]>=40)", "if:v<0"] := rfl

theorem t1_cb_flushChild : Gen.cb_flushChild = [ "if:b.child==nil", "if:child.err!=nil", "if:length<0", "if:child.pendingIsASN1", "if:child.pendingLenLen!=1", "if:int64(length)>0xfffffffe", "if:length>0xffffff", "if:length>0xffff", "if:length>0xff", "if:length>0x7f", "if:extraBytes!=0", "for:i>=0", "if:l!=0", "if:b.fixedSize&&&b.result[0]!=&child.result[0]"] := rfl

end ZV.C19
