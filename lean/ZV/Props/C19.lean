import ZV.Proofs.Der0Int
import ZV.Proofs.Der0CB
import ZV.Proofs.TimeInv
/-!
  C19 — strict DER decoding is canonical in both ASN.1 codecs.

  Every theorem has the shape `decode input = ok value → encode value = consumed input`
  for ALL byte strings, where `decode`/`encode` are the executable models of the
  zcrypto functions in `ZV.Model.Der0` (tied to the Go code by the T2 stream `c19`).
  `EA` = encoding/asn1, `CB` = cryptobyte (with the fixes for D2/D28 in `readBase128Int`).
  Time values (last section): the decoders and encoders of `ZV.Model.Time` (`time.Parse` / `Time.Format` for the
  three ASN.1 layouts are modelled there, tied to the Go code by the T2 streams `c18 tp/tf/tc/td/tpc/tac` and
  `c19 cb-gtime/cb-utime`).
-/
open ZV ZV.Der0
namespace ZV.C19

/-! ## encoding/asn1 -/

/-- INTEGER → int64: re-encoding with `int64Encoder` reproduces the contents octets. -/
theorem ea_int64_canonical (bs : Bytes) (v : Int) (h : EA.parseInt64 bs = .ok v) :
    EA.encodeInt64 v = bs := by
  unfold EA.parseInt64 at h
  split at h
  · simp at h
  · rename_i hc
    split at h
    · simp at h
    · simp only [Res.ok.injEq] at h
      subst h
      have hc' : checkInteger bs = true := by simpa using hc
      obtain ⟨h1, h2⟩ := int_canon hc'
      simp [EA.encodeInt64, h1, h2]

example : EA.parseInt64 [0x00, 0x80] = .ok 128 ∧ EA.parseInt64 [0xff, 0x7f] = .ok (-129) := by decide

/-- INTEGER → int32. -/
theorem ea_int32_canonical (bs : Bytes) (v : Int) (h : EA.parseInt32 bs = .ok v) :
    EA.encodeInt64 v = bs := by
  unfold EA.parseInt32 at h
  split at h
  · simp at h
  · split at h
    · rename_i w hw
      split at h
      · simp at h
      · simp only [Res.ok.injEq] at h
        subst h
        exact ea_int64_canonical bs w hw
    · simp at h
    · simp at h

/-- INTEGER → *big.Int, any length: `makeBigInt (parseBigInt bs) = bs`. -/
theorem ea_bigint_canonical (bs : Bytes) (v : Int) (h : EA.parseBigInt bs = .ok v) :
    EA.makeBigInt v = bs := by
  unfold EA.parseBigInt at h
  split at h
  · simp at h
  · rename_i hc
    simp only [Res.ok.injEq] at h
    subst h
    have hc' : checkInteger bs = true := by simpa using hc
    rw [bigOfBytes_eq_twos]
    exact bigIntBytes_canon hc'

example : EA.parseBigInt [0xff, 0x7f, 0x00] = .ok (-33024) := by decide

/-- non-minimal INTEGER contents are rejected by every integer parser of both codecs
    (all of them start with `checkInteger`). -/
theorem rejects_nonminimal_integer (b : UInt8) (t : Bytes) :
    (b.toNat < 128 → checkInteger (0x00 :: b :: t) = false) ∧
    (b.toNat ≥ 128 → checkInteger (0xff :: b :: t) = false) := by
  constructor <;> intro h <;> simp [checkInteger, h]

theorem ea_rejects_nonminimal_integer (b : UInt8) (t : Bytes) (h : b.toNat < 128) :
    EA.parseInt64 (0x00 :: b :: t) = .err ∧ EA.parseInt32 (0x00 :: b :: t) = .err ∧
    EA.parseBigInt (0x00 :: b :: t) = .err := by
  have := (rejects_nonminimal_integer b t).1 h
  simp [EA.parseInt64, EA.parseInt32, EA.parseBigInt, this]

/-- BOOLEAN -/
theorem ea_bool_canonical (bs : Bytes) (v : Bool) (h : EA.parseBool bs = .ok v) :
    boolContent v = bs := by
  unfold EA.parseBool boolOfContent at h
  split at h
  · rename_i b
    split at h
    · rename_i h0; simp only [Res.ok.injEq] at h; subst h
      simp [boolContent]; exact (by simpa using h0 : b = 0).symm
    · split at h
      · rename_i hf; simp only [Res.ok.injEq] at h; subst h
        simp [boolContent]; exact (by simpa using hf : b = 0xff).symm
      · simp at h
  · simp at h

/-- base-128: `appendBase128Int (parseBase128Int bs)` = the consumed prefix (minimal per arc). -/
theorem ea_base128_canonical (bs : Bytes) (v : Nat) (rest : Bytes)
    (h : EA.parseBase128Int bs = .ok (v, rest)) :
    ∃ pre, bs = pre ++ rest ∧ appendBase128 v = pre := by
  obtain ⟨pre, h1, _, h3⟩ := EA.parseBase128Int_canon h
  exact ⟨pre, h1, h3⟩

/-- a sub-identifier with a leading 0x80 octet is rejected (encoding/asn1 and cryptobyte). -/
theorem rejects_leading_0x80 (t : Bytes) :
    EA.parseBase128Int (0x80 :: t) = .err ∧ CB.readBase128Int (0x80 :: t) = .err := by
  simp [EA.parseBase128Int, EA.b128Loop, CB.readBase128Int, CB.b128Loop]

/-- OBJECT IDENTIFIER: `oidEncoder (parseObjectIdentifier bs) = bs`, and the parsed OID always
    passes `makeObjectIdentifier`'s validity check. -/
theorem ea_oid_canonical (bs : Bytes) (o : List Nat) (h : EA.parseObjectIdentifier bs = .ok o) :
    EA.encodeOID o = .ok bs := by
  unfold EA.parseObjectIdentifier at h
  split at h
  · simp at h
  · rename_i b t
    split at h
    · rename_i v rest hp
      split at h
      · rename_i vs hv
        simp only [Res.ok.injEq] at h
        subst h
        obtain ⟨pre, h1, _, h3⟩ := EA.parseBase128Int_canon hp
        obtain ⟨a, c, hs, hac, ha2, hc40⟩ := splitFirst_spec v
        have hr := EA.oidArcs_canon _ _ _ hv
        rw [hs]
        simp only [List.cons_append, List.nil_append, EA.encodeOID]
        have : ¬ (a > 2 ∨ (a < 2 ∧ c ≥ 40)) := by omega
        simp only [this, if_false, oidBody, hac, h3, hr, h1]
      · simp at h
      · simp at h
    · simp at h
    · simp at h

example : EA.parseObjectIdentifier [0x2a, 0x86, 0x48] = .ok [1, 2, 840] := by decide

/-- BIT STRING: re-encoding reproduces the contents, … -/
theorem ea_bits_canonical (bs : Bytes) (v : EA.BitString) (h : EA.parseBitString bs = .ok v) :
    EA.encodeBitString v = bs := by
  match bs, h with
  | b0 :: tl, h =>
    simp only [EA.parseBitString] at h
    have hb := toNat_lt b0
    split at h
    · simp at h
    · rename_i hp7
      split at h
      · simp at h
      · rename_i hp1
        split at h
        · simp at h
        · simp only [Res.ok.injEq] at h
          subst h
          simp only [EA.encodeBitString, List.length_cons, List.cons.injEq, and_true]
          unfold byteOfInt
          apply ofNat_eq_of
          simp only [List.length_cons] at hp1
          have hl : tl.length = 0 → b0.toNat = 0 := by omega
          generalize tl.length = n at *
          generalize b0.toNat = p at *
          push_cast
          have hnn : (0 : Int) ≤ ((n : Int) + 1 - 1) * 8 - p := by
            rcases Nat.eq_zero_or_pos n with h0 | h0
            · have := hl h0; omega
            · omega
          rw [Int.tmod_eq_emod_of_nonneg hnn]
          have h8 : (0 : Int) ≤ 8 - (((n : Int) + 1 - 1) * 8 - p) % 8 := by omega
          rw [Int.tmod_eq_emod_of_nonneg h8]
          omega

/-- … and an accepted BIT STRING has `pad ≤ 7` and all `pad` unused bits zero. -/
theorem ea_bits_padding_zero (b0 : UInt8) (tl : Bytes) (v : EA.BitString)
    (h : EA.parseBitString (b0 :: tl) = .ok v) :
    b0.toNat ≤ 7 ∧ (lastByte (b0 :: tl)).toNat % 2 ^ b0.toNat = 0 ∧ (tl = [] → b0.toNat = 0) := by
  simp only [EA.parseBitString] at h
  split at h
  · simp at h
  · split at h
    · simp at h
    · split at h
      · simp at h
      · rename_i h1 h2 h3
        simp only [List.length_cons] at h2
        refine ⟨by omega, by simpa using h3, ?_⟩
        intro ht; subst ht; simp at h2; omega

/-- identifier + length octets: `appendTagAndLength (parseTagAndLength bs)` = the consumed header
    (minimal tag form, minimal length form, no indefinite length). -/
theorem ea_header_canonical (bs : Bytes) (t : EA.TagAndLength) (rest : Bytes)
    (h : EA.parseTagAndLength bs = .ok (t, rest)) :
    ∃ pre, bs = pre ++ rest ∧ EA.appendTagAndLength t = pre :=
  EA.parseTagAndLength_canon h

example : EA.parseTagAndLength [0x30, 0x82, 0x01, 0x00, 0xaa] =
    .ok ({ cls := 0, compound := true, tag := 16, length := 256 }, [0xaa]) := by decide

/-- indefinite length (0x80) is rejected by both header parsers -/
theorem rejects_indefinite_length (b : UInt8) (t : Bytes) (hb : b.toNat % 32 ≠ 31) :
    EA.parseTagAndLength (b :: 0x80 :: t) = .err ∧ CB.readASN1 (b :: 0x80 :: t) = .err := by
  constructor
  · simp [EA.parseTagAndLength, hb, EA.parseLength]
  · simp [CB.readASN1, hb]

/-- long-form lengths below 128 and lengths with a leading zero octet are rejected (encoding/asn1) -/
theorem ea_rejects_nonminimal_length (b l : UInt8) (t : Bytes) (hb : b.toNat % 32 ≠ 31) :
    (l.toNat < 128 → EA.parseTagAndLength (b :: 0x81 :: l :: t) = .err) ∧
    EA.parseTagAndLength (b :: 0x82 :: 0x00 :: l :: t) = .err := by
  constructor
  · intro hl
    simp only [EA.parseTagAndLength, hb, if_false, EA.parseLength]
    by_cases h0 : l.toNat = 0
    · simp [EA.lenLoop, h0]
    · simp [EA.lenLoop, h0, hl]
  · simp [EA.parseTagAndLength, hb, EA.parseLength, EA.lenLoop]

/-! ## cryptobyte -/

/-- `ReadAnyASN1`: the consumed bytes are exactly what `AddASN1(tag){AddBytes(body)}` writes
    (single identifier octet, minimal definite length). -/
theorem cb_element_canonical (s : Bytes) (e : CB.Elem) (h : CB.readASN1 s = .ok e) :
    ∃ pre, CB.element e.tag e.body = .ok pre ∧ s = pre ++ e.rest := by
  obtain ⟨l, h1, h2, h3, _⟩ := CB.readASN1_canon h
  refine ⟨e.tag :: l ++ e.body, ?_, h2⟩
  simp [CB.element, h3, h1]

/-- `readASN1` never reaches `panic("cryptobyte: internal error")`. -/
theorem cb_readASN1_no_panic (s : Bytes) : CB.readASN1 s ≠ .panic := CB.readASN1_no_panic s

theorem cb_readASN1Tag_canonical {s : Bytes} {tag : UInt8} {body rest : Bytes}
    (h : CB.readASN1Tag s tag = .ok (body, rest)) :
    ∃ pre, CB.element tag body = .ok pre ∧ s = pre ++ rest := by
  unfold CB.readASN1Tag at h
  split at h
  · rename_i e he
    split at h
    · simp at h
    · rename_i ht
      simp only [Res.ok.injEq, Prod.mk.injEq] at h
      obtain ⟨hb, hr⟩ := h
      have ht' : e.tag = tag := by simpa using ht
      subst hb; subst hr; subst ht'
      exact cb_element_canonical s e he
  · simp at h
  · simp at h

theorem uintLen_eq_intLen (n : Nat) : CB.uintLen n = intLen (n : Int) := by
  induction n using Nat.strongRecOn with
  | _ n ih =>
    rw [CB.uintLen, intLen]
    by_cases h : n ≥ 128
    · have h' : (n : Int) > 127 ∨ (n : Int) < -128 := by omega
      rw [dif_pos h, dif_pos h', ih (n / 256) (by omega)]
      congr 2
    · have h' : ¬ ((n : Int) > 127 ∨ (n : Int) < -128) := by omega
      rw [dif_neg h, dif_neg h']

/-- `ReadASN1Integer(*int64)` then `AddASN1Int64` reproduces the consumed element. -/
theorem cb_int64_canonical (s : Bytes) (v : Int) (rest : Bytes) (h : CB.readInt64 s = .ok (v, rest)) :
    ∃ pre, CB.addASN1Int64 v = .ok pre ∧ s = pre ++ rest := by
  unfold CB.readInt64 CB.readInt64Tag at h
  split at h
  · rename_i body r hr
    split at h
    · simp at h
    · rename_i hc
      have hc' : checkInteger body = true := by simpa using hc
      unfold CB.asn1Signed at h
      by_cases h8 : body.length > 8
      · simp [h8] at h
      · simp only [h8, if_false, Res.ok.injEq, Prod.mk.injEq] at h
        obtain ⟨hv, hrest⟩ := h
        subst hv; subst hrest
        obtain ⟨h1, h2⟩ := int_canon hc'
        simpa [CB.addASN1Int64, CB.signedContent, h1, h2] using cb_readASN1Tag_canonical hr
  · simp at h
  · simp at h

/-- `ReadASN1Integer(*uint64)` then `AddASN1Uint64`. -/
theorem cb_uint64_canonical (s : Bytes) (v : Nat) (rest : Bytes) (h : CB.readUint64 s = .ok (v, rest)) :
    ∃ pre, CB.addASN1Uint64 v = .ok pre ∧ s = pre ++ rest := by
  unfold CB.readUint64 at h
  split at h
  · rename_i body r hr
    split at h
    · simp at h
    · rename_i hc
      have hc' : checkInteger body = true := by simpa using hc
      match body, hc', hr with
      | b0 :: t, hc', hr =>
        by_cases hA : (b0 :: t).length > 9 ∨ ((b0 :: t).length = 9 ∧ b0 ≠ 0)
        · simp only [CB.asn1Unsigned, hA, if_true] at h; simp at h
        · by_cases hpos : b0.toNat ≥ 128
          · simp [CB.asn1Unsigned, hA, hpos] at h
          · simp only [CB.asn1Unsigned, hA, hpos, if_false, Res.ok.injEq, Prod.mk.injEq] at h
            obtain ⟨hv, hrest⟩ := h
            subst hv; subst hrest
            have htw : twos (b0 :: t) = (natOfBytes (b0 :: t) : Int) := by simp [twos, hpos]
            obtain ⟨h1, h2⟩ := int_canon hc'
            rw [htw] at h1 h2
            have hcont : CB.unsignedContent (natOfBytes (b0 :: t)) = b0 :: t := by
              rw [CB.unsignedContent, uintLen_eq_intLen, h1, h2]
            simpa [CB.addASN1Uint64, hcont] using cb_readASN1Tag_canonical hr
  · simp at h
  · simp at h

/-- `ReadASN1Integer(*big.Int)` then `AddASN1BigInt`, any length. -/
theorem cb_bigint_canonical (s : Bytes) (v : Int) (rest : Bytes) (h : CB.readBigInt s = .ok (v, rest)) :
    ∃ pre, CB.addASN1BigInt v = .ok pre ∧ s = pre ++ rest := by
  unfold CB.readBigInt at h
  split at h
  · rename_i body r hr
    split at h
    · simp at h
    · rename_i hc
      have hc' : checkInteger body = true := by simpa using hc
      simp only [Res.ok.injEq, Prod.mk.injEq] at h
      obtain ⟨hv, hrest⟩ := h
      subst hv; subst hrest
      rw [bigOfBytes_eq_twos]
      simpa [CB.addASN1BigInt, bigIntBytes_canon hc'] using cb_readASN1Tag_canonical hr
  · simp at h
  · simp at h

example : CB.readInt64 [0x02, 0x02, 0x00, 0x80, 0x07] = .ok (128, [0x07]) := by decide

/-- `ReadASN1Boolean` then `AddASN1Boolean`. -/
theorem cb_bool_canonical (s : Bytes) (v : Bool) (rest : Bytes) (h : CB.readBool s = .ok (v, rest)) :
    ∃ pre, CB.addASN1Boolean v = .ok pre ∧ s = pre ++ rest := by
  unfold CB.readBool at h
  split at h
  · rename_i body r hr
    split at h
    · rename_i w hw
      simp only [Res.ok.injEq, Prod.mk.injEq] at h
      obtain ⟨hv, hrest⟩ := h
      subst hv; subst hrest
      have := ea_bool_canonical body w hw
      simpa [CB.addASN1Boolean, this] using cb_readASN1Tag_canonical hr
    · simp at h
    · simp at h
  · simp at h
  · simp at h

/-- `ReadASN1ObjectIdentifier` then `AddASN1ObjectIdentifier` (this is the theorem that was
    unprovable before the fix for D2: `06 03 2a 80 01` used to decode to 1.2.1). -/
theorem cb_oid_canonical (s : Bytes) (o : List Nat) (rest : Bytes) (h : CB.readOID s = .ok (o, rest)) :
    ∃ pre, CB.addASN1OID o = .ok pre ∧ s = pre ++ rest := by
  unfold CB.readOID at h
  split at h
  · rename_i body r hr
    split at h
    · simp at h
    · rename_i b t
      split at h
      · rename_i v r2 hp
        split at h
        · rename_i vs hv
          simp only [Res.ok.injEq, Prod.mk.injEq] at h
          obtain ⟨ho, hrest⟩ := h
          subst ho; subst hrest
          obtain ⟨pre, h1, _, h3⟩ := CB.readBase128Int_canon hp
          obtain ⟨a, c, hs, hac, ha2, hc40⟩ := splitFirst_spec v
          have hr2 := CB.oidArcs_canon _ _ _ hv
          have hbody : oidBody (splitFirst v ++ vs) = b :: t := by
            rw [hs]; simp only [List.cons_append, List.nil_append, oidBody, hac, h3, hr2, h1]
          have hvalid : CB.isValidOID (splitFirst v ++ vs) = true := by
            rw [hs]; simp only [List.cons_append, List.nil_append, CB.isValidOID]
            simp; omega
          simpa [CB.addASN1OID, hvalid, hbody] using cb_readASN1Tag_canonical hr
        · simp at h
        · simp at h
      · simp at h
      · simp at h
  · simp at h
  · simp at h

example : CB.readOID [0x06, 0x03, 0x2a, 0x80, 0x01] = .err := by decide
example : CB.readOID [0x06, 0x06, 0x2a, 0x81, 0x80, 0x80, 0x80, 0x00] = .ok ([1, 2, 268435456], []) := by decide

/-- `ReadASN1BitString`: the consumed element is `[BIT STRING, pad, bytes]` with the pad octet
    recomputed from `BitLength`, pad ≤ 7 and the unused bits zero. -/
theorem cb_bits_canonical (s : Bytes) (v : EA.BitString) (rest : Bytes)
    (h : CB.readBitString s = .ok (v, rest)) :
    ∃ pre pad, CB.addASN1BitString pad v.bytes = .ok pre ∧ s = pre ++ rest ∧
      pad = byteOfInt ((8 - v.bitLength.tmod 8).tmod 8) ∧ pad.toNat ≤ 7 ∧
      (v.bytes ≠ [] → (lastByte v.bytes).toNat % 2 ^ pad.toNat = 0) ∧ (v.bytes = [] → pad = 0) := by
  unfold CB.readBitString at h
  split at h
  · rename_i body r hr
    split at h
    · simp at h
    · rename_i b0 data
      have hb := toNat_lt b0
      simp only at h
      split at h
      · simp at h
      · rename_i hp7
        split at h
        · simp at h
        · rename_i hp1
          split at h
          · simp at h
          · rename_i hp2
            simp only [Res.ok.injEq, Prod.mk.injEq] at h
            obtain ⟨hv, hrest⟩ := h
            subst hv; subst hrest
            have hpad : byteOfInt ((8 - ((data.length : Int) * 8 - b0.toNat).tmod 8).tmod 8) = b0 := by
              unfold byteOfInt
              apply ofNat_eq_of
              have hl : data.length = 0 → b0.toNat = 0 := by omega
              generalize data.length = n at *
              generalize b0.toNat = p at *
              have hnn : (0 : Int) ≤ (n : Int) * 8 - p := by
                rcases Nat.eq_zero_or_pos n with h0 | h0
                · have := hl h0; omega
                · omega
              rw [Int.tmod_eq_emod_of_nonneg hnn]
              have h8 : (0 : Int) ≤ 8 - ((n : Int) * 8 - p) % 8 := by omega
              rw [Int.tmod_eq_emod_of_nonneg h8]
              omega
            obtain ⟨pre, hq1, hq2⟩ := cb_readASN1Tag_canonical hr
            refine ⟨pre, b0, hq1, hq2, hpad.symm, by omega, ?_, ?_⟩
            · intro hne
              have : data.length > 0 := by cases data with | nil => exact absurd rfl hne | cons _ _ => simp
              simpa using fun h' => hp2 ⟨this, h'⟩
            · intro he
              simp only at he
              subst he
              apply eq_of_toNat
              simp at hp1; simpa using hp1
  · simp at h
  · simp at h

/-- consequence of canonicity: a strict decoder is injective on what it consumes — two accepted
    inputs with the same value and the same unread rest are the same bytes (shown for the element reader). -/
theorem cb_element_injective (s₁ s₂ : Bytes) (e₁ e₂ : CB.Elem)
    (h₁ : CB.readASN1 s₁ = .ok e₁) (h₂ : CB.readASN1 s₂ = .ok e₂)
    (ht : e₁.tag = e₂.tag) (hb : e₁.body = e₂.body) (hr : e₁.rest = e₂.rest) : s₁ = s₂ := by
  obtain ⟨p₁, a₁, b₁⟩ := cb_element_canonical s₁ e₁ h₁
  obtain ⟨p₂, a₂, b₂⟩ := cb_element_canonical s₂ e₂ h₂
  rw [ht, hb] at a₁
  rw [a₁] at a₂
  simp only [Res.ok.injEq] at a₂
  rw [b₁, b₂, a₂, hr]

/-! ## time values -/
open ZV.Time in
/-- **cryptobyte GeneralizedTime.**  For ALL byte strings: whatever `ReadASN1GeneralizedTime` accepts,
    `AddASN1GeneralizedTime` of the decoded time writes back, byte for byte (one identifier octet, minimal
    definite length, the very text) — and it does not refuse the value. -/
theorem cb_gtime_canonical (s : Bytes) (t : GoTime) (rest : Bytes)
    (h : Time.CB.readGeneralizedTime s = .ok (t, rest)) :
    ∃ pre, Time.CB.addGeneralizedTime t = .ok pre ∧ s = pre ++ rest := by
  unfold Time.CB.readGeneralizedTime at h
  split at h
  · rename_i body rest' hr
    split at h
    · simp at h
    · rename_i res hp
      split at h
      · simp at h
      · rename_i hfmt
        simp only [Res.ok.injEq, Prod.mk.injEq] at h
        obtain ⟨h1, h2⟩ := h
        subst h1; subst h2
        have hfmt' : format layoutGen res = body := by simpa using hfmt
        obtain ⟨pre, hq1, hq2⟩ := cb_readASN1Tag_canonical hr
        have p := parse_gen_facts hp
        have hy : ¬ (res.year < 0 ∨ res.year > 9999) := by have := p.year_lo; have := p.year_hi; omega
        exact ⟨pre, by simp only [Time.CB.addGeneralizedTime, hy, if_false, hfmt']; exact hq1, hq2⟩
  · simp at h
  · simp at h

example : Time.CB.readGeneralizedTime
    [0x18, 0x13, 0x32, 0x30, 0x32, 0x34, 0x30, 0x32, 0x32, 0x39, 0x32, 0x33, 0x35, 0x39, 0x35, 0x39, 0x2b, 0x30, 0x35, 0x33,
      0x30, 0x05, 0x00] = .ok ({ unix := 1709231399, off := 19800 }, [0x05, 0x00]) := by decide +kernel

open ZV.Time in
/-- what an accepted GeneralizedTime is: year 0..9999 in its zone, zone a whole number of minutes of at most
    25 hours (`hh ≤ 24`, `mm ≤ 60` pass `time.Parse`; the re-serialisation test removes `mm = 60`). -/
theorem cb_gtime_accepts_only (s : Bytes) (t : GoTime) (rest : Bytes)
    (h : Time.CB.readGeneralizedTime s = .ok (t, rest)) :
    0 ≤ t.year ∧ t.year ≤ 9999 ∧ ∃ k : Int, t.off = 60 * k ∧ -1500 ≤ k ∧ k ≤ 1500 := by
  unfold Time.CB.readGeneralizedTime at h
  split at h
  · split at h
    · simp at h
    · rename_i res hp
      split at h
      · simp at h
      · simp only [Res.ok.injEq, Prod.mk.injEq] at h
        obtain ⟨h1, _⟩ := h
        subst h1
        have p := parse_gen_facts hp
        exact ⟨p.year_lo, p.year_hi, p.zone⟩
  · simp at h
  · simp at h

open ZV.Time in
/-- **encoding/asn1 GeneralizedTime** (strict mode): an accepted content is exactly what
    `appendGeneralizedTime` writes for the decoded time. -/
theorem ea_gentime_canonical (s : Bytes) (t : GoTime) (h : EA.parseGeneralizedTime false s = .ok t) :
    EA.appendGeneralizedTime t = .ok s := by
  unfold EA.parseGeneralizedTime at h
  split at h
  · simp at h
  · rename_i ret hp
    split at h
    · simp at h
    · rename_i hre
      simp only [Res.ok.injEq] at h
      subst h
      have hfmt : format layoutGen ret = s := by simpa [EA.reserialises] using hre
      rw [appendGeneralizedTime_eq_format (parse_gen_facts hp), hfmt]

example : ZV.Time.EA.parseGeneralizedTime false
    [0x31, 0x39, 0x30, 0x30, 0x30, 0x32, 0x32, 0x38, 0x32, 0x33, 0x35, 0x39, 0x35, 0x39, 0x5a] =
    .ok { unix := -2203891201, off := 0 } := by decide +kernel

open ZV.Time in
/-- **encoding/asn1 UTCTime** (strict mode): an accepted content in the form WITH seconds (the form without
    seconds is tried first; the encoder never writes it) is exactly what `appendUTCTime` writes for the decoded
    time, including the 19YY / 20YY century choice. -/
theorem ea_utctime_canonical (s : Bytes) (t : GoTime) (h : EA.parseUTCTime false s = .ok t)
    (hsec : parse layoutUTCMin s = none) : EA.appendUTCTime t = .ok s := by
  unfold EA.parseUTCTime at h
  simp only [hsec] at h
  split at h
  · simp at h
  · rename_i layout ret hr
    split at hr
    · rename_i ret' hp
      simp only [Option.some.injEq, Prod.mk.injEq] at hr
      obtain ⟨hl, hret⟩ := hr
      subst hl; subst hret
      have p := parse_utcsec_facts hp
      split at h
      · simp at h
      · rename_i hre
        have hfmt : format layoutUTCSec ret' = s := by simpa [EA.reserialises] using hre
        split at h
        · rename_i hy
          simp only [Res.ok.injEq] at h
          subst h
          rw [appendUTCTime_minus100 p hy p.year_hi, hfmt]
        · rename_i hy
          simp only [Res.ok.injEq] at h
          subst h
          rw [appendUTCTime_eq_format p (by have := p.year_lo; omega) (by omega), hfmt]
    · simp at hr

example : ZV.Time.EA.parseUTCTime false [0x35, 0x30, 0x30, 0x31, 0x30, 0x31, 0x30, 0x30, 0x30, 0x30, 0x30, 0x30, 0x5a] =
    .ok { unix := -631152000, off := 0 } ∧
    ZV.Time.parse ZV.Time.layoutUTCMin [0x35, 0x30, 0x30, 0x31, 0x30, 0x31, 0x30, 0x30, 0x30, 0x30, 0x30, 0x30, 0x5a] = none := by
  decide +kernel

open ZV.Time in
theorem utc_tail_window {perm : Bool} {layout : List Std} {ret t : GoTime} {s : Bytes} (p : Parsed ret 1969 2068)
    (h : (if (!EA.reserialises perm layout ret s) = true then Res.err
          else if ret.year ≥ 2050 then Res.ok (addYears ret (-100)) else Res.ok ret) = Res.ok t) :
    1950 ≤ t.year ∧ t.year < 2050 := by
  split at h
  · simp at h
  · split at h
    · rename_i hy
      simp only [Res.ok.injEq] at h
      subst h
      have := (addYears_minus100 ret hy p.year_hi).1
      have hyr : (addYears ret (-100)).year = ret.year + -100 := by simp only [GoTime.year, this]
      rw [hyr]
      have := p.year_hi
      omega
    · rename_i hy
      simp only [Res.ok.injEq] at h
      subst h
      have := p.year_lo
      omega

open ZV.Time in
/-- the decoded UTCTime lies in the window 1950..2049 (years 50..68 are moved back one century), in either
    parsing mode -/
theorem ea_utctime_window (perm : Bool) (s : Bytes) (t : GoTime) (h : EA.parseUTCTime perm s = .ok t) :
    1950 ≤ t.year ∧ t.year < 2050 := by
  unfold EA.parseUTCTime at h
  cases hmin : parse layoutUTCMin s with
  | some r1 =>
    simp only [hmin] at h
    exact utc_tail_window (parse_utcmin_facts hmin) h
  | none =>
    cases hsec : parse layoutUTCSec s with
    | some r1 =>
      simp only [hmin, hsec] at h
      exact utc_tail_window (parse_utcsec_facts hsec) h
    | none => simp [hmin, hsec] at h

open ZV.Time in
/-- **cryptobyte `ReadASN1UTCTime` = readASN1 + encoding/asn1's strict `parseUTCTime`**, for ALL byte strings:
    the two functions try the layouts with and without seconds in opposite order, but no text parses under both
    (after YYMMDDhhmm the one wants a digit, the other `Z`, `+` or `-`), so they accept the same contents with the
    same value. -/
theorem cb_utctime_eq_ea (s : Bytes) :
    Time.CB.readUTCTime s =
      (match CB.readASN1Tag s 0x17 with
       | .ok (body, rest) =>
         (match EA.parseUTCTime false body with
          | .ok t => .ok (t, rest)
          | .err => .err
          | .panic => .panic)
       | .err => .err
       | .panic => .panic) := by
  unfold Time.CB.readUTCTime
  cases hr : CB.readASN1Tag s 0x17 with
  | err => rfl
  | panic => rfl
  | ok x =>
    obtain ⟨body, rest⟩ := x
    simp only [EA.parseUTCTime]
    cases hsec : parse layoutUTCSec body with
    | some r1 =>
      have hmin := utcsec_excludes_min hsec
      simp only [hmin, EA.reserialises, Bool.false_or]
      split <;> rename_i hc
      · have : (format layoutUTCSec r1 == body) = false := by simpa using hc
        simp [this]
      · have : (format layoutUTCSec r1 == body) = true := by simpa using hc
        simp only [this, Bool.not_true, Bool.false_eq_true, if_false]
        split <;> rfl
    | none =>
      cases hmin : parse layoutUTCMin body with
      | some r1 =>
        simp only [EA.reserialises, Bool.false_or]
        split <;> rename_i hc
        · have : (format layoutUTCMin r1 == body) = false := by simpa using hc
          simp [this]
        · have : (format layoutUTCMin r1 == body) = true := by simpa using hc
          simp only [this, Bool.not_true, Bool.false_eq_true, if_false]
          split <;> rfl
      | none => rfl

open ZV.Time in
/-- `ReadASN1UTCTime`: the consumed bytes are one canonical element, the time lies in 1950..2049, and a content
    in the form with seconds is exactly what encoding/asn1's `appendUTCTime` writes for the decoded time
    (zcrypto's cryptobyte has no `AddASN1UTCTime`). -/
theorem cb_utctime_canonical (s : Bytes) (t : GoTime) (rest : Bytes) (h : Time.CB.readUTCTime s = .ok (t, rest)) :
    ∃ body pre, CB.element 0x17 body = .ok pre ∧ s = pre ++ rest ∧ 1950 ≤ t.year ∧ t.year < 2050 ∧
      EA.parseUTCTime false body = .ok t ∧ (parse layoutUTCMin body = none → EA.appendUTCTime t = .ok body) := by
  rw [cb_utctime_eq_ea] at h
  split at h
  · rename_i body rest' hr
    split at h
    · rename_i t' hp
      simp only [Res.ok.injEq, Prod.mk.injEq] at h
      obtain ⟨h1, h2⟩ := h
      subst h1; subst h2
      obtain ⟨pre, hq1, hq2⟩ := cb_readASN1Tag_canonical hr
      have hw := ea_utctime_window false body t' hp
      exact ⟨body, pre, hq1, hq2, hw.1, hw.2, hp, fun hmin => ea_utctime_canonical body t' hp hmin⟩
    · simp at h
    · simp at h
  · simp at h
  · simp at h

example : Time.CB.readUTCTime [0x17, 0x0d, 0x34, 0x39, 0x31, 0x32, 0x33, 0x31, 0x32, 0x33, 0x35, 0x39, 0x35, 0x39, 0x5a, 0xff] =
    .ok ({ unix := 2524607999, off := 0 }, [0xff]) := by decide +kernel

open ZV.Time in
/-- **accepted times are whole seconds** (all three strict decoders): `time.Parse` itself reads a fractional
    second that is not in the layout (`20240101000000.5Z` parses), but the re-serialisation test only lets through
    texts that `Format` reproduces, and those contain no comma or period. -/
theorem strict_times_whole_seconds (s : Bytes) (t : GoTime) :
    (∀ rest, Time.CB.readGeneralizedTime s = .ok (t, rest) → t.nsec = 0) ∧
    (EA.parseGeneralizedTime false s = .ok t → t.nsec = 0) ∧
    (EA.parseUTCTime false s = .ok t → t.nsec = 0) := by
  refine ⟨?_, ?_, ?_⟩
  · intro rest h
    unfold Time.CB.readGeneralizedTime at h
    split at h
    · rename_i body rest' hr
      split at h
      · simp at h
      · rename_i res hp
        split at h
        · simp at h
        · rename_i hfmt
          simp only [Res.ok.injEq, Prod.mk.injEq] at h
          rw [← h.1]
          exact whole_seconds_gen hp (by simpa using hfmt)
    · simp at h
    · simp at h
  · intro h
    unfold EA.parseGeneralizedTime at h
    split at h
    · simp at h
    · rename_i ret hp
      split at h
      · simp at h
      · rename_i hre
        simp only [Res.ok.injEq] at h
        rw [← h]
        exact whole_seconds_gen hp (by simpa [EA.reserialises] using hre)
  · intro h
    unfold EA.parseUTCTime at h
    have tail : ∀ (layout : List Std) (ret : GoTime), ret.nsec = 0 →
        (if (!EA.reserialises false layout ret s) = true then Res.err
         else if ret.year ≥ 2050 then Res.ok (addYears ret (-100)) else Res.ok ret) = Res.ok t → t.nsec = 0 := by
      intro layout ret hn h
      split at h
      · simp at h
      · split at h <;> simp only [Res.ok.injEq] at h <;> rw [← h]
        · exact hn
        · exact hn
    cases hmin : parse layoutUTCMin s with
    | some r1 =>
      simp only [hmin] at h
      exact tail _ _ (whole_seconds_utcmin hmin) h
    | none =>
      cases hsec : parse layoutUTCSec s with
      | some r1 =>
        simp only [hmin, hsec] at h
        have hre : format layoutUTCSec r1 = s := by
          split at h
          · simp at h
          · rename_i hc; simpa [EA.reserialises] using hc
        exact tail _ _ (whole_seconds_utcsec hsec hre) h
      | none => simp [hmin, hsec] at h

/-- `time.Parse` alone does accept the fraction (the permissive mode returns it) -/
example : ZV.Time.EA.parseGeneralizedTime true
    [0x32, 0x30, 0x32, 0x34, 0x30, 0x31, 0x30, 0x31, 0x30, 0x30, 0x30, 0x30, 0x30, 0x30, 0x2e, 0x35, 0x5a] =
      .ok { unix := 1704067200, off := 0, nsec := 500000000 } ∧
    ZV.Time.EA.parseGeneralizedTime false
    [0x32, 0x30, 0x32, 0x34, 0x30, 0x31, 0x30, 0x31, 0x30, 0x30, 0x30, 0x30, 0x30, 0x30, 0x2e, 0x35, 0x5a] = .err := by
  decide +kernel

end ZV.C19
